/-!
# Model of Sway's match usefulness analysis (C14)

Anchors (all under `sway-core/src/semantic_analysis/ast_node/expression/match_expression/`):
`analysis/usefulness.rs` (`is_useful`, `is_useful_wildcard`, `is_useful_or`, `is_useful_constructed`,
`compute_specialized_matrix`, `compute_default_matrix`, `check_match_expression_usefulness`),
`analysis/matrix.rs` (`m_n`, `compute_sigma`), `analysis/constructor_factory.rs`
(`is_complete_signature`, `create_pattern_not_present`), `analysis/range.rs` (`condense_ranges`,
`do_ranges_equal_range`, `find_exclusionary_ranges`), `analysis/witness_report.rs`, `analysis/pattern.rs`,
and the warning logic of `type_check_match_expression` in `typed_expression.rs`.

The analysis is modelled AS IMPLEMENTED (after `fix: match usefulness Σ holds only real root
constructors`): untyped, the witness report is ONE pattern stack that `join_witness_reports`
concatenates, struct patterns are positional over their *listed* fields, untyped numeric literals live in
the u64 range. Every `CompileError::Internal` of the Rust code is the outcome `none`.
Not modelled: `serialize_multi_patterns` inside `from_constructor_and_arguments` (the model keeps
`c(a | b, x)` where the compiler builds `c(a, x) | c(b, x)`; same set of values), `Display`.

Import-free; everything is structurally recursive so that `decide` evaluates closed instances.
-/
namespace SwayVerif.Usefulness

/-- `Pattern` of `analysis/pattern.rs`. `u8 lo hi` = `Pattern::U8(Range)`, `num` = `Pattern::Numeric`
(literal without suffix), `strct idx ps` = `Pattern::Struct` listing the declaration indices `idx` in the
order written in the source (fields hidden by `..` are absent). Bindings are `wild`. -/
inductive Pat
  | wild
  | bool (b : Bool)
  | u8 (lo hi : Nat)
  | num (lo hi : Nat)
  | enum (nvar tag : Nat) (p : Pat)
  | tuple (ps : List Pat)
  | strct (idx : List Nat) (ps : List Pat)
  | or (ps : List Pat)
deriving Repr, Inhabited

/-- Run-time values. Struct values are tuples of all fields in declaration order. -/
inductive Val
  | bool (b : Bool)
  | u8 (n : Nat)
  | enum (tag : Nat) (v : Val)
  | tuple (vs : List Val)
deriving Repr, Inhabited

/-- Finite-domain types. The values of a struct type are the tuples of its fields. -/
inductive Ty
  | bool
  | u8
  | enum (vs : List Ty)
  | tuple (ts : List Ty)
  | strct (ts : List Ty)
deriving Repr, Inhabited

mutual
/-- Structural equality of patterns (`#[derive(PartialEq)]` of `Pattern`). -/
def Pat.beq : Pat → Pat → Bool
  | .wild, .wild => true
  | .bool a, .bool b => a == b
  | .u8 a b, .u8 c d => a == c && b == d
  | .num a b, .num c d => a == c && b == d
  | .enum n t p, .enum n' t' p' => n == n' && t == t' && p.beq p'
  | .tuple ps, .tuple qs => beqL ps qs
  | .strct i ps, .strct j qs => i == j && beqL ps qs
  | .or ps, .or qs => beqL ps qs
  | _, _ => false
def beqL : List Pat → List Pat → Bool
  | [], [] => true
  | p :: ps, q :: qs => p.beq q && beqL ps qs
  | _, _ => false
end
instance : BEq Pat := ⟨Pat.beq⟩

abbrev Row := List Pat
abbrev Matrix := List Row

def u8Max : Nat := 255
def u64Max : Nat := 18446744073709551615

/-! ## Semantics of patterns (the run-time meaning; independent of the analysis) -/

mutual
/-- `v` is matched by `p`. -/
def Pat.matches : Pat → Val → Bool
  | .wild, _ => true
  | .bool b, .bool c => b == c
  | .u8 lo hi, .u8 n => decide (lo ≤ n) && decide (n ≤ hi)
  | .num lo hi, .u8 n => decide (lo ≤ n) && decide (n ≤ hi)
  | .enum _ t p, .enum t' v => t == t' && p.matches v
  | .tuple ps, .tuple vs => matchesL ps vs
  | .strct idx ps, .tuple vs => matchesF idx ps vs
  | .or ps, v => matchesAny ps v
  | _, _ => false
/-- Pointwise matching of a row of patterns against a row of values (lengths must agree). -/
def matchesL : List Pat → List Val → Bool
  | [], [] => true
  | p :: ps, v :: vs => p.matches v && matchesL ps vs
  | _, _ => false
/-- Struct pattern: the i-th listed pattern is matched against field `idx[i]`. -/
def matchesF : List Nat → List Pat → List Val → Bool
  | [], [], _ => true
  | i :: is, p :: ps, vs =>
    (match vs[i]? with
      | some v => p.matches v
      | none => false) && matchesF is ps vs
  | _, _, _ => false
def matchesAny : List Pat → Val → Bool
  | [], _ => false
  | p :: ps, v => p.matches v || matchesAny ps v
end

/-- Index of the first arm matching `v` — the if-chain of `TyMatchExpression::desugar`. -/
def firstMatch : List Pat → Val → Option Nat
  | [], _ => none
  | p :: ps, v => if p.matches v then some 0 else (firstMatch ps v).map (· + 1)

/-! ## The condition the matcher REALLY builds (`typed/matcher.rs` + `typed_match_branch.rs`)

`matcher` turns a pattern into a tree of requirements; `instantiate_child_nodes_conditions_and_declarations`
folds it into `Option<condition>` where `None` means "no requirement, always matches". An AND node drops
the `None`s of its children (neutral for `&&`). An OR node without variable declarations ALSO drops them
(`conditions.into_iter().flatten()`), although `None` should absorb an `||`: an irrefutable alternative
is ignored. Modelled as implemented. -/

def andOpt : Option Bool → Option Bool → Option Bool
  | none, x => x
  | x, none => x
  | some a, some b => some (a && b)

def orOpt : Option Bool → Option Bool → Option Bool
  | none, x => x
  | x, none => x
  | some a, some b => some (a || b)

mutual
/-- `none` = no requirement. -/
def Pat.cond : Pat → Val → Option Bool
  | .wild, _ => none
  | .bool b, .bool c => some (b == c)
  | .u8 lo hi, .u8 n => some (decide (lo ≤ n) && decide (n ≤ hi))
  | .num lo hi, .u8 n => some (decide (lo ≤ n) && decide (n ≤ hi))
  | .enum _ t p, .enum t' v => if t == t' then andOpt (some true) (p.cond v) else some false
  | .tuple ps, .tuple vs => condAnd ps vs
  | .strct idx ps, .tuple vs => condAndF idx ps vs
  | .or ps, v => condOr ps v
  | _, _ => some false
def condAnd : List Pat → List Val → Option Bool
  | [], [] => none
  | p :: ps, v :: vs => andOpt (p.cond v) (condAnd ps vs)
  | _, _ => some false
def condAndF : List Nat → List Pat → List Val → Option Bool
  | [], [], _ => none
  | i :: is, p :: ps, vs =>
    andOpt (match vs[i]? with
      | some v => p.cond v
      | none => some false) (condAndF is ps vs)
  | _, _, _ => some false
def condOr : List Pat → Val → Option Bool
  | [], _ => none
  | p :: ps, v => orOpt (p.cond v) (condOr ps v)
end

/-- The arm's `if` condition holds at run time. -/
def Pat.rtMatches (p : Pat) (v : Val) : Bool := (p.cond v).getD true

/-- Arm executed by the compiled if-chain (`none` = falls through to the final revert). -/
def rtFirst : List Pat → Val → Option Nat
  | [], _ => none
  | p :: ps, v => if p.rtMatches v then some 0 else (rtFirst ps v).map (· + 1)

mutual
/-- Some or-pattern has an irrefutable alternative (the shape on which `cond` differs from `matches`;
the degenerate empty or-pattern, which no source program contains, is flagged too). -/
def Pat.hasOrCatchAll : Pat → Bool
  | .enum _ _ p => p.hasOrCatchAll
  | .tuple ps => hasOrCatchAllL ps
  | .strct _ ps => hasOrCatchAllL ps
  | .or ps => ps.isEmpty || anyIrrefutable ps || hasOrCatchAllL ps
  | _ => false
def hasOrCatchAllL : List Pat → Bool
  | [] => false
  | p :: ps => p.hasOrCatchAll || hasOrCatchAllL ps
/-- Patterns whose condition is `None` whatever the value: `_`, tuples/structs of such. -/
def Pat.irrefutable : Pat → Bool
  | .wild => true
  | .tuple ps => allIrrefutable ps
  | .strct _ ps => allIrrefutable ps
  | _ => false
def allIrrefutable : List Pat → Bool
  | [] => true
  | p :: ps => p.irrefutable && allIrrefutable ps
def anyIrrefutable : List Pat → Bool
  | [] => false
  | p :: ps => p.irrefutable || anyIrrefutable ps
end

/-! ## Values of a type -/

def prodCons (xs : List Val) (yss : List (List Val)) : List (List Val) :=
  xs.flatMap fun x => yss.map fun ys => x :: ys

def u8Vals : List Val := (List.range 256).map Val.u8

mutual
/-- All values of a type. -/
def allValues : Ty → List Val
  | .bool => [.bool false, .bool true]
  | .u8 => u8Vals
  | .enum vs => enumValues 0 vs
  | .tuple ts => (allValuesL ts).map Val.tuple
  | .strct ts => (allValuesL ts).map Val.tuple
def enumValues : Nat → List Ty → List Val
  | _, [] => []
  | k, t :: ts => (allValues t).map (Val.enum k) ++ enumValues (k + 1) ts
def allValuesL : List Ty → List (List Val)
  | [] => [[]]
  | t :: ts => prodCons (allValues t) (allValuesL ts)
end

mutual
/-- `v` is a value of type `t`. -/
def Val.hasTy : Val → Ty → Bool
  | .bool _, .bool => true
  | .u8 n, .u8 => decide (n ≤ 255)
  | .enum k v, .enum ts => (match ts[k]? with
      | some t => v.hasTy t
      | none => false)
  | .tuple vs, .tuple ts => hasTyL vs ts
  | .tuple vs, .strct ts => hasTyL vs ts
  | _, _ => false
def hasTyL : List Val → List Ty → Bool
  | [], [] => true
  | v :: vs, t :: ts => v.hasTy t && hasTyL vs ts
  | _, _ => false
end

/-! ## Well-typed patterns of the fragment on which the analysis is exact

typed `u8` literals only (singleton range ≤ 255, no `num`), struct patterns list every field in
declaration order, or-patterns non-empty. -/

mutual
def Pat.hasTy : Pat → Ty → Bool
  | .wild, _ => true
  | .bool _, .bool => true
  | .u8 lo hi, .u8 => lo == hi && decide (hi ≤ 255)
  | .enum n k p, .enum ts => n == ts.length && (match ts[k]? with
      | some t => p.hasTy t
      | none => false)
  | .tuple ps, .tuple ts => patsHaveTy ps ts
  | .strct idx ps, .strct ts => idx == List.range ts.length && patsHaveTy ps ts
  | .or ps, t => !ps.isEmpty && allHaveTy ps t
  | _, _ => false
def patsHaveTy : List Pat → List Ty → Bool
  | [], [] => true
  | p :: ps, t :: ts => p.hasTy t && patsHaveTy ps ts
  | _, _ => false
def allHaveTy : List Pat → Ty → Bool
  | [], _ => true
  | p :: ps, t => p.hasTy t && allHaveTy ps t
end

/-! ## Root constructors (`into_root_constructor`, `has_the_same_constructor`, `a`, `sub_patterns`) -/

/-- A root constructor: a constructed pattern whose sub-patterns are all wildcards. -/
inductive Ctor
  | bool (b : Bool)
  | u8 (lo hi : Nat)
  | num (lo hi : Nat)
  | enum (nvar tag : Nat)
  | tuple (n : Nat)
  | strct (idx : List Nat)
deriving Repr, DecidableEq, Inhabited

/-- `Pattern::a`. -/
def Ctor.arity : Ctor → Nat
  | .bool _ => 0
  | .u8 _ _ => 0
  | .num _ _ => 0
  | .enum _ _ => 1
  | .tuple n => n
  | .strct idx => idx.length

/-- `Pattern::has_the_same_constructor` (struct patterns: same name and same NUMBER of listed fields). -/
def Ctor.same : Ctor → Ctor → Bool
  | .bool a, .bool b => a == b
  | .u8 a b, .u8 c d => a == c && b == d
  | .num a b, .num c d => a == c && b == d
  | .enum _ t, .enum _ t' => t == t'
  | .tuple n, .tuple m => n == m
  | .strct i, .strct j => i.length == j.length
  | _, _ => false

/-- Root constructor of a constructed pattern (`none` for wildcard and or-pattern). -/
def Pat.ctor? : Pat → Option Ctor
  | .wild => none
  | .or _ => none
  | .bool b => some (.bool b)
  | .u8 lo hi => some (.u8 lo hi)
  | .num lo hi => some (.num lo hi)
  | .enum n t _ => some (.enum n t)
  | .tuple ps => some (.tuple ps.length)
  | .strct idx _ => some (.strct idx)

/-- `Pattern::sub_patterns`. -/
def Pat.args : Pat → List Pat
  | .enum _ _ p => [p]
  | .tuple ps => ps
  | .strct _ ps => ps
  | _ => []

def wilds (n : Nat) : List Pat := List.replicate n Pat.wild

/-- The constructor applied to argument patterns (`from_constructor_and_arguments` without the
or-serialisation; `none` = "malformed constructor request"). -/
def Ctor.apply (c : Ctor) (args : List Pat) : Option Pat :=
  if args.length != c.arity then none else
  match c, args with
  | .bool b, _ => some (.bool b)
  | .u8 lo hi, _ => some (.u8 lo hi)
  | .num lo hi, _ => some (.num lo hi)
  | .enum n t, [p] => some (.enum n t p)
  | .enum _ _, _ => none
  | .tuple _, ps => some (.tuple ps)
  | .strct idx, ps => some (.strct idx ps)

/-! ## `Matrix::m_n`, `Matrix::compute_sigma` -/

/-- `(m, n)`; `none` = "found invalid matrix size". -/
def dims : Matrix → Option (Nat × Nat)
  | [] => some (0, 0)
  | r :: rs => if rs.all (fun r' => r'.length == r.length) then some (rs.length + 1, r.length) else none

mutual
/-- `push_root_constructors`: wildcards contribute nothing, or-patterns are flattened. -/
def Pat.rootCtors : Pat → List Ctor
  | .wild => []
  | .or ps => rootCtorsL ps
  | .bool b => [.bool b]
  | .u8 lo hi => [.u8 lo hi]
  | .num lo hi => [.num lo hi]
  | .enum n t _ => [.enum n t]
  | .tuple ps => [.tuple ps.length]
  | .strct idx _ => [.strct idx]
def rootCtorsL : List Pat → List Ctor
  | [] => []
  | p :: ps => p.rootCtors ++ rootCtorsL ps
end

/-- `PatStack::remove_duplicates` (first occurrences, in order). -/
def dedupAux (acc : List Ctor) : List Ctor → List Ctor
  | [] => acc.reverse
  | c :: cs => if acc.contains c then dedupAux acc cs else dedupAux (c :: acc) cs
def dedup (l : List Ctor) : List Ctor := dedupAux [] l

/-- Root constructors of the first column, before `remove_duplicates`; `none` = "empty PatStack". -/
def headCtors : Matrix → Option (List Ctor)
  | [] => some []
  | [] :: _ => none
  | (p :: _) :: rs => (headCtors rs).map (p.rootCtors ++ ·)

def sigma (P : Matrix) : Option (List Ctor) := (headCtors P).map dedup

/-! ## `range.rs` -/

abbrev Rng := Nat × Nat

/-- `a.overlaps(b)` with `self = a`, `other = b`. -/
def Rng.overlaps (a b : Rng) : Bool :=
  (decide (b.1 ≥ a.1) && decide (b.2 ≤ a.2))
  || (decide (b.1 ≤ a.1) && decide (b.2 ≥ a.2))
  || (decide (b.1 ≤ a.1) && decide (b.2 ≤ a.2) && decide (b.2 ≥ a.1))
  || (decide (b.1 ≥ a.1) && decide (b.1 ≤ a.2) && decide (b.2 ≥ a.2))

def Rng.withinOne (a b : Rng) : Bool :=
  !a.overlaps b && ((decide (b.1 > a.2) && b.1 - a.2 == 1) || (decide (a.1 > b.2) && a.1 - b.2 == 1))

/-- `join_ranges`; `none` = "these two ranges cannot be joined" / "attempted to create an invalid range". -/
def Rng.join (a b : Rng) : Option Rng :=
  if !a.overlaps b && !a.withinOne b then none else
  let f := if a.1 < b.1 then a.1 else b.1
  let l := if a.2 > b.2 then a.2 else b.2
  if l < f then none else some (f, l)

/-- Stable insertion into a list sorted by DESCENDING `first` (`sort_by(|a, b| b.first.cmp(&a.first))`). -/
def insertDesc (r : Rng) : List Rng → List Rng
  | [] => [r]
  | x :: xs => if r.1 > x.1 then r :: x :: xs else x :: insertDesc r xs
def sortDesc : List Rng → List Rng
  | [] => []
  | r :: rs => insertDesc r (sortDesc rs)

/-- The stack loop of `condense_ranges` (head of the list = top of the stack). -/
def condenseLoop : List Rng → List Rng → Option (List Rng)
  | stack, [] => some stack
  | [], _ :: _ => none
  | top :: stack, r :: rest =>
    if r.overlaps top || r.withinOne top then
      match r.join top with
      | some j => condenseLoop (j :: stack) rest
      | none => none
    else condenseLoop (r :: top :: stack) rest

/-- `condense_ranges`: ascending, disjoint, non-adjacent; `none` on the empty input. The Rust code pushes
onto a `Vec` and finally reverses it; here the head of the list is the top, so the result is already
bottom-last = ascending. -/
def condense (rs : List Rng) : Option (List Rng) :=
  match sortDesc rs with
  | [] => none
  | f :: rest => condenseLoop [f] rest

def rangesEqual (rs : List Rng) (oracle : Rng) : Option Bool :=
  match condense rs with
  | none => none
  | some [] => none
  | some [r] => some (r == oracle)
  | some _ => some false

def gapsBetween : List Rng → Option (List Rng)
  | a :: b :: rest =>
    if b.1 - 1 < a.2 + 1 then none else (gapsBetween (b :: rest)).map ((a.2 + 1, b.1 - 1) :: ·)
  | _ => some []

/-- `find_exclusionary_ranges`. -/
def exclusionary (rs : List Rng) (oracle : Rng) : Option (List Rng) :=
  match condense rs with
  | none => none
  | some cs =>
    if !cs.all (fun c => decide (oracle.1 ≤ c.1) && decide (oracle.2 ≥ c.2)) then none else
    match cs.head?, cs.getLast? with
    | some f, some l =>
      let pre := if oracle.1 != f.1 then [(oracle.1, f.1 - 1)] else []
      let post := if oracle.2 != l.2 then [(l.2 + 1, oracle.2)] else []
      (gapsBetween cs).map fun mid => pre ++ mid ++ post
    | _, _ => none

/-! ## `constructor_factory.rs` -/

def u8Ranges : List Ctor → Option (List Rng)
  | [] => some []
  | .u8 lo hi :: cs => (u8Ranges cs).map ((lo, hi) :: ·)
  | _ :: _ => none
def numRanges : List Ctor → Option (List Rng)
  | [] => some []
  | .num lo hi :: cs => (numRanges cs).map ((lo, hi) :: ·)
  | _ :: _ => none
def boolVals : List Ctor → Option (List Bool)
  | [] => some []
  | .bool b :: cs => (boolVals cs).map (b :: ·)
  | _ :: _ => none
def enumTags : List Ctor → Option (List Nat)
  | [] => some []
  | .enum _ t :: cs => (enumTags cs).map (t :: ·)
  | _ :: _ => none

/-- `is_complete_signature`; `none` = "expected all patterns to be of the same type". -/
def isComplete (sig : List Ctor) : Option Bool :=
  match sig with
  | [] => some false
  | .u8 _ _ :: _ => (u8Ranges sig).bind fun rs => rangesEqual rs (0, u8Max)
  | .num _ _ :: _ => (numRanges sig).bind fun rs => rangesEqual rs (0, u64Max)
  | .bool _ :: _ => (boolVals sig).map fun bs => bs.contains true && bs.contains false
  | .enum n _ :: _ => (enumTags sig).map fun ts => (List.range n).all fun k => ts.contains k
  | c@(.tuple _) :: rest => some (rest.all fun d => d.same c)
  | c@(.strct _) :: rest => some (rest.all fun d => d.same c)

/-- `Pattern::from_pat_stack`. -/
def fromPatStack : List Pat → Pat
  | [p] => p
  | ps => .or ps

/-- `create_pattern_not_present` on a non-empty Σ (missing enum variants in ascending order; the Rust
code iterates a `HashSet`). -/
def notPresent (sig : List Ctor) : Option Pat :=
  match sig with
  | [] => none
  | .u8 _ _ :: _ => (u8Ranges sig).bind fun rs =>
      (exclusionary rs (0, u8Max)).map fun gs => fromPatStack (gs.map fun g => .u8 g.1 g.2)
  | .num _ _ :: _ => (numRanges sig).bind fun rs =>
      (exclusionary rs (0, u64Max)).map fun gs => fromPatStack (gs.map fun g => .num g.1 g.2)
  | .bool b :: rest =>
      -- `true_found`/`false_found` with the `else if` of the Rust code
      let tf := b || rest.contains (.bool true)
      let ff := !b || (!rest.contains (.bool true) && rest.contains (.bool false))
      if tf && ff then none else if tf then some (.bool false) else some (.bool true)
  | .enum n _ :: _ => (enumTags sig).map fun ts =>
      fromPatStack (((List.range n).filter fun k => !ts.contains k).map fun k => .enum n k .wild)
  | .tuple n :: _ => some (.tuple (wilds n))
  | .strct idx :: _ => some (.strct idx (wilds idx.length))

/-! ## `S(c, P)` and `D(P)` -/

/-- Shape check shared by `compute_specialized_matrix` / `compute_default_matrix`:
ragged = "found invalid matrix size", wrong width = "… matrix is misshapen". -/
def checkShape (rows : List Row) (width : Nat) : Option (List Row) :=
  match dims rows with
  | none => none
  | some (m, n) => if m > 0 && n != width then none else some rows

def bindRows (xs : Option (List Row)) (ys : Option (List Row)) : Option (List Row) :=
  match xs, ys with
  | some a, some b => some (a ++ b)
  | _, _ => none

mutual
/-- `compute_specialized_matrix_row` on the row `p :: rest`; `w` is the width every (nested) result must have. -/
def specPat (c : Ctor) (w : Nat) : Pat → Row → Option (List Row)
  | .wild, rest => some [wilds c.arity ++ rest]
  | .or ps, rest => (specAlts c w ps rest).bind fun rows => checkShape rows w
  | p, rest =>
    match p.ctor? with
    | some d => if c.same d then some [p.args ++ rest] else some []
    | none => some []
def specAlts (c : Ctor) (w : Nat) : List Pat → Row → Option (List Row)
  | [], _ => some []
  | p :: ps, rest => bindRows (specPat c w p rest) (specAlts c w ps rest)
end

def specRows (c : Ctor) (w : Nat) : Matrix → Option (List Row)
  | [] => some []
  | [] :: _ => none
  | (p :: rest) :: rows => bindRows (specPat c w p rest) (specRows c w rows)

/-- `compute_specialized_matrix(c, P, q)` for a non-or `c`. -/
def specialize (c : Ctor) (P : Matrix) (qlen : Nat) : Option Matrix :=
  (specRows c (c.arity + qlen - 1) P).bind fun rows => checkShape rows (c.arity + qlen - 1)

mutual
def defPat (w : Nat) : Pat → Row → Option (List Row)
  | .wild, rest => some [rest]
  | .or ps, rest => (defAlts w ps rest).bind fun rows => checkShape rows w
  | _, _ => some []
def defAlts (w : Nat) : List Pat → Row → Option (List Row)
  | [], _ => some []
  | p :: ps, rest => bindRows (defPat w p rest) (defAlts w ps rest)
end

def defRows (w : Nat) : Matrix → Option (List Row)
  | [] => some []
  | [] :: _ => none
  | (p :: rest) :: rows => bindRows (defPat w p rest) (defRows w rows)

/-- `compute_default_matrix(P, q)`. -/
def defaultMatrix (P : Matrix) (qlen : Nat) : Option Matrix :=
  (defRows (qlen - 1) P).bind fun rows => checkShape rows (qlen - 1)

/-! ## `WitnessReport` -/

inductive Report
  | noWit
  | wit (w : List Pat)
deriving Repr, Inhabited

def Report.has : Report → Bool
  | .noWit => false
  | .wit _ => true

/-- `join_witness_reports`: two witness STACKS are concatenated. -/
def Report.join : Report → Report → Report
  | .noWit, r => r
  | r, .noWit => r
  | .wit a, .wit b => .wit (a ++ b)

/-- `PatStack::is_empty` (all elements, after one level of or-flattening, are wildcards). -/
def stackIsEmpty (ps : List Pat) : Bool :=
  ps.all fun p => match p with
    | .wild => true
    | .or qs => qs.all (· == .wild)
    | _ => false

/-- `split_into_leading_constructor` on `Witnesses(w)`. -/
def splitLeading (c : Ctor) (w : List Pat) : Option (Pat × List Pat) :=
  if c.arity > w.length then none else
  (c.apply (w.take c.arity)).map fun p => (p, w.drop c.arity)

/-! ## `is_useful` -/

/-- State of the loop over Σ in the complete-signature branch: `(witness_report, pat_stack)`. -/
abbrev LoopSt := Report × List Pat

def loopStep (c : Ctor) (st : LoopSt) (wr : Report) : Option LoopSt :=
  match st.1, wr with
  | _, .noWit => some st
  | .noWit, .wit w => (splitLeading c w).map fun (p, rest) =>
      (.wit rest, if st.2.contains p then st.2 else st.2 ++ [p])
  | .wit acc, .wit w => (splitLeading c w).map fun (p, rest) =>
      (.wit (acc ++ rest), if st.2.contains p then st.2 else st.2 ++ [p])

/-- Fold of `f` over a list with `Report.join` (`none` propagates). -/
def joinAll (f : Row → Option Report) : List Row → Option Report
  | [] => some .noWit
  | r :: rs => match f r, joinAll f rs with
    | some a, some b => some (a.join b)
    | _, _ => none

/-- Loop over Σ of the complete-signature branch; `u` is `is_useful` of the recursive calls. -/
def sigLoop (u : Matrix → Row → Option Report) (P : Matrix) (q : Row) : List Ctor → LoopSt → Option LoopSt
  | [], st => some st
  | c :: cs, st =>
    match specialize c P q.length, specialize c [q] q.length with
    | some sp, some sq =>
      match joinAll (u sp) sq with
      | none => none
      | some wr => match loopStep c st wr with
        | none => none
        | some st' => sigLoop u P q cs st'
    | _, _ => none

/-- Loop of `is_useful_or`: the alternatives already tried are appended to the matrix. -/
def orLoop (u : Matrix → Row → Option Report) (qs : Row) : List Pat → Matrix → Report → Option Report
  | [], _, acc => some acc
  | a :: alts, P, acc =>
    match u P (a :: qs) with
    | none => none
    | some wr => orLoop u qs alts (P ++ [a :: qs]) (acc.join wr)

/-- `is_useful_wildcard`; `u` is `is_useful` of the recursive calls. -/
def stepWild (u : Matrix → Row → Option Report) (P : Matrix) (q qs : Row) : Option Report :=
  match sigma P with
  | none => none
  | some sig =>
    match isComplete sig with
    | none => none
    | some true =>
      match sigLoop u P q sig (.noWit, []) with
      | none => none
      | some (.noWit, _) => some .noWit
      | some (.wit w, pats) => some (.wit (fromPatStack pats :: w))
    | some false =>
      match defaultMatrix P q.length with
      | none => none
      | some d =>
        match u d qs with
        | none => none
        | some wr =>
          let toAdd : Option Pat := if sig.isEmpty then some .wild else notPresent sig
          match toAdd, wr with
          | none, _ => none
          | some _, .noWit => some .noWit
          | some a, .wit w => some (.wit (a :: w))

/-- `is_useful_constructed` for the root constructor `c` of the head of `q`. -/
def stepCtor (u : Matrix → Row → Option Report) (P : Matrix) (q : Row) (c : Ctor) : Option Report :=
  match specialize c P q.length, specialize c [q] q.length with
  | some sp, some sq => joinAll (u sp) sq
  | _, _ => none

/-- One unfolding of `is_useful`. -/
def Ustep (u : Matrix → Row → Option Report) (P : Matrix) (q : Row) : Option Report :=
  match dims P with
  | none => none
  | some (0, _) => some (.wit (wilds q.length))
  | some (_, 0) => some .noWit
  | some _ =>
    match q with
    | [] => none
    | .wild :: qs => stepWild u P q qs
    | .or ps :: qs => orLoop u qs ps P .noWit   -- is_useful_or
    | p :: _ =>
      match p.ctor? with
      | none => none
      | some c => stepCtor u P q c

/-- `U(P, q)` = `is_useful`; `none` = internal compiler error (or fuel exhausted, see `driverFuel`). -/
def U : Nat → Matrix → Row → Option Report
  | 0, _, _ => none
  | fuel + 1, P, q => Ustep (U fuel) P q

/-! ## `check_match_expression_usefulness` and the diagnostics of `type_check_match_expression` -/

mutual
def Pat.size : Pat → Nat
  | .wild => 0
  | .bool _ => 1
  | .u8 _ _ => 1
  | .num _ _ => 1
  | .enum _ _ p => 1 + p.size
  | .tuple ps => 1 + sizeL ps
  | .strct _ ps => 1 + sizeL ps
  | .or ps => 1 + sizeL ps
def sizeL : List Pat → Nat
  | [] => 0
  | p :: ps => p.size + sizeL ps
end

/-- Fuel that the driver uses: far above the recursion depth of any concrete match (the depth is bounded
by the measure of `Lemmas/Usefulness.lean`; the theorems hold for every fuel above that measure). -/
def driverFuel : Nat := 100000

/-- Reachability flags of the arms and the final witness report. -/
def checkArms (fuel : Nat) : List Pat → Matrix → Option (List Bool × Report)
  | [], P => (U fuel P [.wild]).map fun r => ([], r)
  | a :: arms, P =>
    match U fuel P [a] with
    | none => none
    | some r => (checkArms fuel arms (P ++ [[a]])).map fun (bs, fin) => (r.has :: bs, fin)

mutual
/-- `TyScrutinee::is_catch_all`. -/
def Pat.isCatchAll : Pat → Bool
  | .wild => true
  | .tuple ps => allCatchAll ps
  | .strct _ ps => allCatchAll ps
  | .or ps => anyCatchAll ps
  | _ => false
def allCatchAll : List Pat → Bool
  | [] => true
  | p :: ps => p.isCatchAll && allCatchAll ps
def anyCatchAll : List Pat → Bool
  | [] => false
  | p :: ps => p.isCatchAll || anyCatchAll ps
end

def findIdx (f : Pat → Bool) : List Pat → Nat → Option Nat
  | [], _ => none
  | p :: ps, k => if f p then some k else findIdx f ps (k + 1)

/-- Indices of the arms that get a `MatchExpressionUnreachableArm` warning. -/
def warned (arms : List Pat) (reach : List Bool) : List Nat :=
  let n := arms.length
  let unreach (k : Nat) : Bool := !(reach.getD k true)
  match findIdx Pat.isCatchAll (arms.take (n - 1)) 0 with
  | some c => ((List.range n).filter fun k => k < c && unreach k) ++ ((List.range n).filter fun k => k > c)
  | none => (List.range n).filter unreach

/-- Verdict of the compiler on one match expression. -/
inductive Verdict
  | ice
  | ok (exhaustive : Bool) (unreachable : List Nat) (witness : List Pat)
deriving Repr, Inhabited

def Verdict.isIce : Verdict → Bool
  | .ice => true
  | _ => false
def Verdict.exhaustive? : Verdict → Option Bool
  | .ice => none
  | .ok e _ _ => some e
def Verdict.unreachable : Verdict → List Nat
  | .ice => []
  | .ok _ u _ => u
def Verdict.witness : Verdict → List Pat
  | .ice => []
  | .ok _ _ w => w

def analyse (fuel : Nat) (arms : List Pat) : Verdict :=
  match checkArms fuel arms [] with
  | none => .ice
  | some (reach, fin) =>
    match fin with
    | .noWit => .ok true (warned arms reach) []
    | .wit w => .ok false (warned arms reach) w

/-! ## Brute-force oracle and the property's predicate -/

def covered (arms : List Pat) (v : Val) : Bool := arms.any fun p => p.matches v

def exhaustiveBF (t : Ty) (arms : List Pat) : Bool := (allValues t).all (covered arms)

/-- Arm `k` matches no value left by the arms before it. -/
def unreachableBF (t : Ty) (arms : List Pat) (k : Nat) : Bool :=
  match arms[k]? with
  | none => false
  | some p => (allValues t).all fun v => !p.matches v || covered (arms.take k) v

/-- Flattening done by `Display for WitnessReport` (`witnesses.flatten()`). -/
def flattenStack : List Pat → List Pat
  | [] => []
  | .or ps :: rest => ps ++ flattenStack rest
  | p :: rest => p :: flattenStack rest

/-- A reported witness pattern is "really uncovered": it denotes at least one value of the type and every
value it denotes is matched by no arm. -/
def witnessOK (t : Ty) (arms : List Pat) (w : Pat) : Bool :=
  (allValues t).any (w.matches ·) && (allValues t).all fun v => !w.matches v || !covered arms v

def sameSet (a b : List Nat) : Bool := a.all b.contains && b.all a.contains

structure PropParts where
  exh : Bool      -- exhaustiveness verdict exact (and no internal error)
  wit : Bool      -- every reported witness really uncovered
  unr : Bool      -- unreachable warnings exact
  run : Bool      -- run-time arm = first matching arm
deriving Repr

/-- The property evaluated on the IMPLEMENTATION's verdict. `witness = none`: text not parseable (not judged).
`runs`: observed (value, arm taken or `none` for a revert). -/
def propParts (t : Ty) (arms : List Pat) (ice : Bool) (exhaustive : Bool) (witness : Option (List Pat))
    (unreachable : List Nat) (runs : List (Val × Option Nat)) : PropParts :=
  { exh := !ice && exhaustive == exhaustiveBF t arms
    wit := ice || match witness with
      | none => true
      | some ws => if exhaustive then ws.isEmpty else !ws.isEmpty && ws.all (witnessOK t arms)
    unr := ice || sameSet unreachable ((List.range arms.length).filter (unreachableBF t arms))
    run := runs.all fun (v, a) => firstMatch arms v == a }

def PropParts.all (p : PropParts) : Bool := p.exh && p.wit && p.unr && p.run

end SwayVerif.Usefulness
