/-!
# Rust integer methods and FuelVM ALU instructions over `Nat` payloads (import-free)

`u64` values are naturals `< 2^64`, `U256`/`B256` values (a `num_bigint::BigUint` behind
`sway_types::u256::U256`) are naturals `< 2^256`. Every function is total on `Nat`; the theorems in
`Props/C06.lean` carry the range hypotheses.

Sources transliterated:
* Rust core: `u64::checked_{add,sub,mul,div,rem,shl,shr}`, `wrapping_*`, `saturating_*`, `u32::try_from(u64)`, `!`, `& | ^`
* `num_bigint::BigUint::bits`, `+ - * / % & | ^ << >>` (arbitrary precision)
* fuel-vm 0.66.4 `interpreter/alu.rs`, `interpreter/alu/wideint.rs`, `executors/opcodes_impl.rs`
  (FLAG register = 0: neither `F_WRAPPING` nor `F_UNSAFEMATH`, as the compiler never sets them
  around the ops modelled here).
-/
namespace SwayVerif.RustInt

/-- Result of a compile-time evaluation: a value, "cannot fold" (`None`), or a crash of the compiler. -/
inductive Ct where
  | fold (v : Nat)
  | decline
  | crash
  deriving DecidableEq, Repr

def Ct.ofOption : Option Nat → Ct
  | some v => .fold v
  | none => .decline

/-- Result of running an instruction (sequence) on the VM. -/
inductive Outcome where
  | ok (v : Nat)
  | revert
  | panic
  deriving DecidableEq, Repr

/- `p64` … are notations (not definitions) so that terms contain the literals `2 ^ 64` … directly. -/
scoped notation "p64" => ((2 : Nat) ^ 64)
scoped notation "p128" => ((2 : Nat) ^ 128)
scoped notation "p256" => ((2 : Nat) ^ 256)
scoped notation "p32" => ((2 : Nat) ^ 32)

/-! ## `u64` methods -/

def checkedAdd (a b : Nat) : Option Nat := if a + b < p64 then some (a + b) else none
def checkedSub (a b : Nat) : Option Nat := if b ≤ a then some (a - b) else none
def checkedMul (a b : Nat) : Option Nat := if a * b < p64 then some (a * b) else none
def checkedDiv (a b : Nat) : Option Nat := if b = 0 then none else some (a / b)
def checkedRem (a b : Nat) : Option Nat := if b = 0 then none else some (a % b)
def wrappingAdd (a b : Nat) : Nat := (a + b) % p64
def wrappingSub (a b : Nat) : Nat := (a + p64 - b % p64) % p64
def wrappingMul (a b : Nat) : Nat := (a * b) % p64
def saturatingAdd (a b : Nat) : Nat := if a + b < p64 then a + b else p64 - 1
def saturatingSub (a b : Nat) : Nat := a - b
def saturatingMul (a b : Nat) : Nat := if a * b < p64 then a * b else p64 - 1
/-- `u32::try_from(r: u64).ok()` -/
def u32TryFrom (r : Nat) : Option Nat := if r < p32 then some r else none
/-- `u64::checked_shl(self, rhs: u32)`: `None` iff `rhs >= 64`; bits shifted out are lost. -/
def checkedShl (a r : Nat) : Option Nat := if r < 64 then some ((a <<< r) % p64) else none
def checkedShr (a r : Nat) : Option Nat := if r < 64 then some (a >>> r) else none
/-- `!a` on `u64` -/
def not64 (a : Nat) : Nat := p64 - 1 - a % p64

/-! ## `BigUint` -/

/-- `BigUint::bits`: number of significant bits, `0` for zero. -/
def bits (n : Nat) : Nat := if n = 0 then 0 else Nat.log2 n + 1

/-- `!` on `&U256`: `to_be_bytes` (32 bytes), flip every byte, `from_bytes_be`. -/
def not256 (a : Nat) : Nat := p256 - 1 - a % p256

/-! ## FuelVM instructions (operands are register / memory *values*) -/

inductive WideOp where
  | add | sub | not | or | xor | and | shl | shr
  deriving DecidableEq, Repr

inductive CmpMode where
  | eq | ne | gt | lt | gte | lte
  deriving DecidableEq, Repr

/-- The instructions the Fuel backend emits for IR `BinaryOp`/`UnaryOp`/`Cmp` and their wide forms.
`indirectRhs` of the wide forms says the right operand register holds a *pointer* to a 256-bit value
(otherwise the register's 64-bit value itself is the operand). -/
inductive Instr where
  | add | sub | mul | div | mod | and | or | xor | sll | srl | not | eq | lt | gt
  | wqop (op : WideOp) (indirectRhs : Bool)
  | wqml (indirectLhs indirectRhs : Bool)
  | wqdv (indirectRhs : Bool)
  | wqam
  | wqcm (mode : CmpMode) (indirectRhs : Bool)
  | unknown (text : String)
  deriving DecidableEq, Repr

def b2n (b : Bool) : Nat := if b then 1 else 0

/-- `alu_capture_overflow` with a `u128` computation: panic iff the `u128` result exceeds `u64::MAX`. -/
def captureOverflow (r128 : Nat) : Outcome := if r128 > p64 - 1 then .panic else .ok r128

/-- `alu_error`: panic iff the error condition holds. -/
def aluError (err : Bool) (v : Nat) : Outcome := if err then .panic else .ok v

/-- `op_overflowing_u256` + the overflow test of `alu_wideint_op_u256`. -/
def wideOp (op : WideOp) (a b : Nat) : Outcome :=
  match op with
  | .add => if a + b < p256 then .ok (a + b) else .panic           -- overflowing_add
  | .sub => if b ≤ a then .ok (a - b) else .panic                  -- overflowing_sub
  | .or => .ok (a ||| b)
  | .xor => .ok (a ^^^ b)
  | .and => .ok (a &&& b)
  | .not => .ok (not256 a)
  -- `rhs.try_into::<u32>()` then `U256::checked_shl(lhs, rhs).unwrap_or_default()`; bits shifted out are lost
  | .shl => .ok (if b < p32 then (if b < 256 then (a <<< b) % p256 else 0) else 0)
  | .shr => .ok (if b < p32 then (if b < 256 then a >>> b else 0) else 0)

def wideCmp (m : CmpMode) (a b : Nat) : Nat :=
  match m with
  | .eq => b2n (decide (a = b))
  | .ne => b2n (decide (a ≠ b))
  | .gt => b2n (decide (a > b))
  | .lt => b2n (decide (a < b))
  | .gte => b2n (decide (a ≥ b))
  | .lte => b2n (decide (a ≤ b))

/-- Execute one instruction on operand values `a`, `b` (64-bit register values for the narrow forms,
256-bit memory values for indirect operands of the wide forms). `rhsWide` tells whether the IR-level
right operand is a 256-bit value (held in memory, so the register holds a pointer). An `indirectRhs`
flag that does not match makes the VM read something else than the operand: modelled as `.panic`
(no soundness lemma covers it). `wqam` is `(a + z) % b` with `z` the `__wide_zero` local that
`misc_demotion.rs` passes as second argument. -/
def vmExec (i : Instr) (rhsWide : Bool) (a b : Nat) : Outcome :=
  match i with
  | .add => captureOverflow (a + b)                                   -- u128::overflowing_add
  | .sub => captureOverflow ((a + p128 - b) % p128)                   -- u128::overflowing_sub
  | .mul => captureOverflow (a * b)                                   -- u128::overflowing_mul (no u128 overflow for u64 operands)
  | .div => aluError (b == 0) (a / b)
  | .mod => aluError (b == 0) (a % b)
  | .and => .ok (a &&& b)
  | .or => .ok (a ||| b)
  | .xor => .ok (a ^^^ b)
  | .sll => .ok (if b < p32 then (if b < 64 then (a <<< b) % p64 else 0) else 0)
  | .srl => .ok (if b < p32 then (if b < 64 then a >>> b else 0) else 0)
  | .not => .ok (not64 a)
  | .eq => .ok (b2n (decide (a = b)))
  | .lt => .ok (b2n (decide (a < b)))
  | .gt => .ok (b2n (decide (a > b)))
  | .wqop op ind => if ind = rhsWide then wideOp op a b else .panic
  | .wqml il ir => if il = true ∧ ir = rhsWide then (if a * b < p256 then .ok (a * b) else .panic) else .panic
  | .wqdv ir => if ir = rhsWide then (if b = 0 then .panic else .ok (a / b)) else .panic
  | .wqam => if rhsWide then (if b = 0 then .panic else .ok ((a + 0) % b)) else .panic
  | .wqcm m ir => if ir = rhsWide then .ok (wideCmp m a b) else .panic
  | .unknown _ => .panic

end SwayVerif.RustInt
