/-!
# Model of contract storage: slot emission (compiler) and slot access (Sway std, FuelVM)

Import-free (core Lean only) so that the drivers link as native executables.

Anchors in /repo:
* `sway-core/src/ir_generation/storage.rs` — `serialize_to_storage_slots`, `serialize_to_words`
  (padding rule `InByte8Padding`), `get_storage_key_string`, `add_to_b256`;
* `sway-core/src/ir_generation/function.rs::compile_get_storage_key` — slot/offset of a (sub)field;
* `sway-lib-std/src/storage/storage_api.sw` — `read_quads`, `write_quads`, `clear_quads`,
  `slot_calculator`;
* `sway-lib-std/src/storage/{storage_vec,storage_map,storable_slice,storage_bytes,storage_string}.sw`.

Conventions of the model
* a storage key (`Bytes32`) is the natural number it denotes big-endian; `add_to_b256` overflow
  (compiler panic, `uint` crate) is an explicit `none`; on the VM side keys are added as naturals
  (`WQOP` add panics on overflow as well — the drivers flag any key `≥ 2^256`, never wrap);
* a byte is a `Nat` (`< 256` by well-formedness), a slot is a function `Nat → Nat` of which only
  indices `< 32` are meaningful (slots built here are `0` beyond 32);
* SHA-256 is a PARAMETER `H : List Nat → Nat`; the model never evaluates it.
-/
namespace SwayVerif.Storage

/- A byte and a storage key are plain `Nat`s (no abbreviations: `omega` must see `Nat`). -/
abbrev Slot := Nat → Nat
/-- Contract storage. A structure (not a bare function type) so that the compiled model builds a
store once per operation instead of re-running the operation at every lookup. -/
structure Store where
  get : Nat → Option Slot

def Store.empty : Store := ⟨fun _ => none⟩

def two256 : Nat := 2 ^ 256

/-- `n.to_be_bytes()` truncated to `len` bytes (big endian). -/
def beBytes : Nat → Nat → List Nat
  | 0, _ => []
  | len + 1, n => (n / 256 ^ len % 256) :: beBytes len n

def fromBE (bs : List Nat) : Nat := bs.foldl (fun acc b => acc * 256 + b) 0

def zeros (n : Nat) : List Nat := List.replicate n 0

def align8 (n : Nat) : Nat := (n + 7) / 8 * 8

/-! ## Constants (`sway_ir::ConstantContent` restricted to the storable universe)

Types are implicit in the value; the only type information a value needs besides its own shape is
the size of the union of an enum (`uw`, in words = max over the variants of the aligned size). -/

/-- `InByte8Padding` -/
inductive Pad | right | left
  deriving DecidableEq, Repr

inductive Val
  | u8 (n : Nat)
  | bool (b : Bool)
  /-- `u16`/`u32`/`u64`: one word at run time and in storage -/
  | word (bits : Nat) (n : Nat)
  /-- `b256` (`isU = false`) / `u256` -/
  | b32 (isU : Bool) (n : Nat)
  /-- `str[N]` -/
  | str (bs : List Nat)
  /-- payload of a unit enum variant (zero-sized) -/
  | unit
  /-- struct / tuple: field list -/
  | nil
  | cons (h t : Val)
  /-- enum value: tag, union size in words, payload -/
  | enum (tag : Nat) (uw : Nat) (p : Val)
  deriving DecidableEq, Repr, Inhabited

namespace Val

/-- `Type::size(..).in_bytes()` -/
def size : Val → Nat
  | u8 _ => 1
  | bool _ => 1
  | word _ _ => 8
  | b32 _ _ => 32
  | str bs => align8 bs.length
  | unit => 0
  | nil => 0
  | cons h t => align8 h.size + t.size
  | enum _ uw _ => 8 + 8 * uw

def isList : Val → Bool
  | nil => true
  | cons _ t => t.isList
  | _ => false

/-- Well-formed constants: numeric ranges, struct tails are field lists, the payload of an enum
fits its union. -/
def wf : Val → Bool
  | u8 n => n < 256
  | bool _ => true
  | word bits n => (bits = 16 || bits = 32 || bits = 64) && n < 2 ^ bits
  | b32 _ n => n < 2 ^ 256
  | str bs => bs.all (· < 256)
  | unit => true
  | nil => true
  | cons h t => h.wf && t.wf && t.isList
  | enum tag uw p => tag < 2 ^ 64 && p.wf && align8 p.size ≤ 8 * uw

/-- `__is_reference_type::<T>()` -/
def isRef : Val → Bool
  | u8 _ => false
  | bool _ => false
  | word _ _ => false
  | unit => false
  | _ => true

/-- Run-time memory image (what `raw_ptr::read::<T>` of the storage API must produce):
struct fields are padded RIGHT to the word, an enum payload is placed at the END of the union. -/
def mem : Val → List Nat
  | u8 n => [n]
  | bool b => [if b then 1 else 0]
  | word _ n => beBytes 8 n
  | b32 _ n => beBytes 32 n
  | str bs => bs ++ zeros (align8 bs.length - bs.length)
  | unit => []
  | nil => []
  | cons h t => h.mem ++ zeros (align8 h.size - h.size) ++ t.mem
  | enum tag uw p => beBytes 8 tag ++ zeros (8 * uw - p.size) ++ p.mem

/-- `serialize_to_words` (bytes of the `Bytes8` words concatenated). -/
def ser : Val → Pad → List Nat
  | u8 n, .right => n :: zeros 7
  | u8 n, .left => zeros 7 ++ [n]
  | bool b, .right => (if b then 1 else 0) :: zeros 7
  | bool b, .left => zeros 7 ++ [if b then 1 else 0]
  | word _ n, _ => beBytes 8 n
  | b32 _ n, _ => beBytes 32 n
  | str bs, _ => bs ++ zeros (align8 bs.length - bs.length)
  | unit, _ => []
  | nil, _ => []
  | cons h t, _ => h.ser .right ++ t.ser .right
  | enum tag uw p, _ => beBytes 8 tag ++ zeros (8 * (uw - (p.size + 7) / 8)) ++ p.ser .left

/-- New-encoding ABI bytes of the value (what `log(v)` emits). -/
def abi : Val → List Nat
  | u8 n => [n]
  | bool b => [if b then 1 else 0]
  | word bits n => beBytes (bits / 8) n
  | b32 _ n => beBytes 32 n
  | str bs => bs
  | unit => []
  | nil => []
  | cons h t => h.abi ++ t.abi
  | enum tag _ p => beBytes 8 tag ++ p.abi

end Val

/-- 32-byte slot number `i` of a byte string (zero beyond its end). -/
def chunk32 (bs : List Nat) (i : Nat) : Slot := fun b => if b < 32 then bs.getD (32 * i + b) 0 else 0

/-- Number of slots `serialize_to_storage_slots` emits. -/
def Val.nslots : Val → Nat
  | .u8 _ => 1
  | .bool _ => 1
  | .word _ _ => 1
  | .b32 _ _ => 1
  | .unit => 1
  | c => min ((c.size + 31) / 32) (((c.ser .right).length + 31) / 32)

/-- `serialize_to_storage_slots`: `none` = compiler panic (`add_to_b256` overflow). -/
def serializeToSlots (c : Val) (key : Nat) : Option (List (Nat × Slot)) :=
  let n := c.nslots
  if n = 0 then some []
  else if key + (n - 1) < two256 then
    some ((List.range n).map fun i => (key + i, chunk32 (c.ser .right) i))
  else none

/-- Slots of one declared field `(key, constant)` (the `some` case of `serializeToSlots`). -/
def fieldSlots (f : Nat × Val) : List (Nat × Slot) :=
  (List.range f.2.nslots).map fun i => (f.1 + i, chunk32 (f.2.ser .right) i)

/-- `TyStorageDecl::get_initialized_storage_slots`: field by field. -/
def allSlots (fs : List (Nat × Val)) : List (Nat × Slot) := fs.flatMap fieldSlots

def apart (a b : Nat × Val) : Bool := a.1 + a.2.nslots ≤ b.1 || b.1 + b.2.nslots ≤ a.1

/-- The hash hypothesis of C12: the keys of distinct fields (SHA-256 outputs, or user supplied
`in` keys) are further apart than the fields are long. Checked concretely on every generated
declaration; not provable (it is a statement about SHA-256). -/
def keysSpaced : List (Nat × Val) → Bool
  | [] => true
  | f :: fs => fs.all (apart f) && keysSpaced fs

/-- Deployment: the contract's initial storage (first binding of a key wins). -/
def deploy (slots : List (Nat × Slot)) : Store := ⟨fun k =>
  match slots.find? (fun p => p.1 == k) with
  | some p => some p.2
  | none => none⟩

/-! ## Storage keys of declared fields -/

def topNs : List Char := ['s', 't', 'o', 'r', 'a', 'g', 'e']

/-- `get_storage_field_path_and_field_id`'s string:
`storage::<ns1>::<ns2>.<field>.<struct field>…` -/
def keyString (ns : List (List Char)) (field : List Char) (sfs : List (List Char)) : List Char :=
  topNs ++ ns.flatMap (fun n => ':' :: ':' :: n) ++ '.' :: field ++ sfs.flatMap (fun s => '.' :: s)

/-- Pre-image hashed by `hash_storage_key_string`: `STORAGE_DOMAIN` then the string's bytes
(identifiers are ASCII). -/
def keyPreimage (ns : List (List Char)) (field : List Char) (sfs : List (List Char)) : List Nat :=
  0 :: (keyString ns field sfs).map Char.toNat

/-- Identifier characters (never `:` or `.`). -/
def identChar (c : Char) : Bool := c.isAlphanum || c == '_'

def ValidIdent (s : List Char) : Prop := s ≠ [] ∧ ∀ c ∈ s, identChar c = true

/-! ## `storage_api.sw` on 32-byte slots -/

/-- `slot_calculator::<T>(slot, offset)`: (first slot, number of slots, word in first slot). -/
def slotCalc (slot offset size : Nat) (isRef : Bool) : Nat × Nat × Nat :=
  let last := (offset * 8 + size + 31) / 32
  let place := offset % 4
  let n := if isRef then (place * 8 + size + 31) / 32 else 1
  (slot + (last - n), n, place)

/-- `__state_load_quad` buffer: `n*32` bytes, unset slots read as zero. -/
def loadBuf (st : Store) (k : Nat) : Nat → Nat := fun a =>
  match st.get (k + a / 32) with
  | some s => s (a % 32)
  | none => 0

/-- result flag of `__state_load_quad` / `__state_clear`: all `n` slots from `k` were set. -/
def allSet (st : Store) (k : Nat) : Nat → Bool
  | 0 => true
  | n + 1 => allSet st k n && (st.get (k + n)).isSome

/-- `__state_store_quad(k, buf, n)` -/
def storeQuad (st : Store) (k : Nat) (buf : Nat → Nat) (n : Nat) : Store := ⟨fun k' =>
  if k ≤ k' ∧ k' < k + n then some (fun b => if b < 32 then buf (32 * (k' - k) + b) else 0) else st.get k'⟩

/-- `__state_clear(k, n)` -/
def clearSlots (st : Store) (k : Nat) (n : Nat) : Store := ⟨fun k' =>
  if k ≤ k' ∧ k' < k + n then none else st.get k'⟩

/-- `read_quads::<T>(slot, offset)` with `size = __size_of::<T>()`. -/
def readQuads (st : Store) (slot offset size : Nat) (isRef : Bool) : Option (List Nat) :=
  if size = 0 then none else
  let (os, n, place) := slotCalc slot offset size isRef
  if allSet st os n then some ((List.range size).map fun a => loadBuf st os (place * 8 + a))
  else none

/-- `write_quads::<T>(slot, offset, value)`; `v` = memory image of the value. -/
def writeQuads (st : Store) (slot offset : Nat) (v : List Nat) (isRef : Bool) : Store :=
  let size := v.length
  if size = 0 then st
  else if size % 32 = 0 ∧ offset = 0 then storeQuad st slot (fun a => v.getD a 0) (size / 32)
  else
    let (os, n, place) := slotCalc slot offset size isRef
    let buf := loadBuf st os
    storeQuad st os (fun a => if place * 8 ≤ a ∧ a < place * 8 + size then v.getD (a - place * 8) 0 else buf a) n

/-- `clear_quads::<T>(slot, offset)` -/
def clearQuads (st : Store) (slot offset size : Nat) (isRef : Bool) : Store × Bool :=
  if size = 0 then (st, true) else
  let (os, n, _) := slotCalc slot offset size isRef
  (clearSlots st os n, allSet st os n)

/-- Slot and word offset the compiler bakes into `storage.f.<sub-field>` whose sub-field starts
`offWords` words into the field (`compile_get_storage_key`, 32-byte-slot storage). -/
def subfieldKey (key : Nat) (offWords : Nat) : Nat × Nat := (key + offWords / 4, offWords % 4)

/-- Direct member `i` of a struct constant: (byte offset from the start of the struct, value) —
`Type::get_indexed_offset` for one index. -/
def Val.field : Val → Nat → Option (Nat × Val)
  | .cons h _, 0 => some (0, h)
  | .cons h t, i + 1 => match t.field i with
    | some (o, v) => some (align8 h.size + o, v)
    | none => none
  | _, _ => none

/-- `storage.<field>.<member>.read()`: the compiler bakes `subfieldKey`, the library reads. -/
def readMember (st : Store) (key : Nat) (off : Nat) (v : Val) : Option (List Nat) :=
  let (k, o) := subfieldKey key (off / 8)
  readQuads st k o v.size v.isRef

/-- `storage.<field>.read()` of a field of the shape of `c` (`StorageKey::read` = `read_quads(..).unwrap()`;
`none` = revert). -/
def readField (st : Store) (key : Nat) (c : Val) : Option (List Nat) :=
  readQuads st key 0 c.size c.isRef


/-! ## Decidable predicates evaluated by the drivers on the IMPLEMENTATION's results (C12) -/

def slotList (s : Slot) : List Nat := (List.range 32).map s

/-- C12, one field: the emitted slots sit at the documented key and the following keys, and the
in-VM `read()` (and the reads of direct struct members) returned the declared initializer. -/
def fieldProp (c : Val) (expKey : Nat) (emittedKeys : List Nat) (readReturned : Bool)
    (obsAbi : List Nat) (subs : List (Val × Option (List Nat))) : Bool :=
  !emittedKeys.isEmpty
  && emittedKeys == (List.range emittedKeys.length).map (expKey + ·)
  && readReturned
  && obsAbi == c.abi
  && subs.all (fun p => p.2 == some p.1.abi)

def disjointLists : List (List Nat) → Bool
  | [] => true
  | g :: gs => g.all (fun k => gs.all (fun h => !h.contains k)) && disjointLists gs

def nodupKeys : List Nat → Bool
  | [] => true
  | k :: ks => !ks.contains k && nodupKeys ks

/-- C12, one declaration: slot key sets of distinct fields are pairwise disjoint, no key is
emitted twice, and no emitted slot is outside the fields' sets. -/
def declProp (groups : List (List Nat)) (total : Nat) : Bool :=
  disjointLists groups && groups.all nodupKeys && (groups.map List.length).sum == total

/-! ## Storage collections (32-byte-slot storage, `experimental_dynamic_storage = false`) -/

section Collections
variable (H : List Nat → Nat)

def keyBytes (k : Nat) : List Nat := beBytes 32 k

/-- `read_quads::<u64>(k, 0).unwrap_or(0)` -/
def readLen (st : Store) (k : Nat) : Nat :=
  match readQuads st k 0 8 false with
  | some b => fromBE b
  | none => 0

def writeLen (st : Store) (k : Nat) (n : Nat) : Store := writeQuads st k 0 (beBytes 8 n) false

/-- `offset_calculator::<V>(index)` (words) -/
def offsetCalc (sz i : Nat) : Nat := i * align8 sz / 8

/-- element slots of `StorageVec` start at `sha256(field_id)` -/
def vecKey (fid : Nat) : Nat := H (keyBytes fid)

/-- Outcome of a storage call: `none` = revert (whole transaction), else new store and value. -/
abbrev Step (α : Type) := Option (Store × α)

def vecPush (st : Store) (fid sz : Nat) (r : Bool) (v : List Nat) : Store :=
  let len := readLen st fid
  let st1 := writeQuads st (vecKey H fid) (offsetCalc sz len) v r
  writeLen st1 fid (len + 1)

def vecPop (st : Store) (fid sz : Nat) (r : Bool) : Store × Option (List Nat) :=
  let len := readLen st fid
  if len = 0 then (st, none) else
  let st1 := writeLen st fid (len - 1)
  (st1, readQuads st1 (vecKey H fid) (offsetCalc sz (len - 1)) sz r)

/-- `get(index)` followed by `.read()` on the returned key: `some none` = `None`,
`none` = revert of the `unwrap` in `read`. -/
def vecGet (st : Store) (fid sz : Nat) (r : Bool) (i : Nat) : Option (Option (List Nat)) :=
  let len := readLen st fid
  if len ≤ i then some none else
  match readQuads st (vecKey H fid) (offsetCalc sz i) sz r with
  | some v => some (some v)
  | none => none

def vecSet (st : Store) (fid sz : Nat) (r : Bool) (i : Nat) (v : List Nat) : Option Store :=
  let len := readLen st fid
  if i < len then some (writeQuads st (vecKey H fid) (offsetCalc sz i) v r) else none

/-- the `while count < len` loop of `remove`: `fuel` iterations starting at `count`. -/
def shiftDown (st : Store) (key sz : Nat) (r : Bool) : Nat → Nat → Option Store
  | 0, _ => some st
  | fuel + 1, count =>
    match readQuads st key (offsetCalc sz count) sz r with
    | none => none
    | some x => shiftDown (writeQuads st key (offsetCalc sz (count - 1)) x r) key sz r fuel (count + 1)

def vecRemove (st : Store) (fid sz : Nat) (r : Bool) (i : Nat) : Step (List Nat) :=
  let len := readLen st fid
  if ¬ i < len then none else
  let key := vecKey H fid
  match readQuads st key (offsetCalc sz i) sz r with
  | none => none
  | some x =>
    match shiftDown st key sz r (len - (i + 1)) (i + 1) with
    | none => none
    | some st1 => some (writeLen st1 fid (len - 1), x)

def vecSwapRemove (st : Store) (fid sz : Nat) (r : Bool) (i : Nat) : Step (List Nat) :=
  let len := readLen st fid
  if ¬ i < len then none else
  let key := vecKey H fid
  match readQuads st key (offsetCalc sz i) sz r, readQuads st key (offsetCalc sz (len - 1)) sz r with
  | some x, some l => some (writeLen (writeQuads st key (offsetCalc sz i) l r) fid (len - 1), x)
  | _, _ => none

/-- the `while count >= index` loop of `insert`: `fuel` iterations, moving element `count` to
`count + 1`, counting down. -/
def shiftUp (st : Store) (key sz : Nat) (r : Bool) : Nat → Nat → Option Store
  | 0, _ => some st
  | fuel + 1, count =>
    match readQuads st key (offsetCalc sz count) sz r with
    | none => none
    | some x => shiftUp (writeQuads st key (offsetCalc sz (count + 1)) x r) key sz r fuel (count - 1)

def vecInsert (st : Store) (fid sz : Nat) (r : Bool) (i : Nat) (v : List Nat) : Option Store :=
  let len := readLen st fid
  if ¬ i ≤ len then none else
  let key := vecKey H fid
  if len = i then some (writeLen (writeQuads st key (offsetCalc sz i) v r) fid (len + 1)) else
  match shiftUp st key sz r (len - i) (len - 1) with
  | none => none
  | some st1 => some (writeLen (writeQuads st1 key (offsetCalc sz i) v r) fid (len + 1))

def vecSwap (st : Store) (fid sz : Nat) (r : Bool) (i j : Nat) : Option Store :=
  let len := readLen st fid
  if ¬ (i < len ∧ j < len) then none else
  if i = j then some st else
  let key := vecKey H fid
  match readQuads st key (offsetCalc sz i) sz r, readQuads st key (offsetCalc sz j) sz r with
  | some a, some b =>
    some (writeQuads (writeQuads st key (offsetCalc sz i) b r) key (offsetCalc sz j) a r)
  | _, _ => none

/-- `StorageKey<StorageVec<V>>::clear` (zero-sized `T`): `clear_quads::<u64>(field_id, 0)` -/
def vecClear (st : Store) (fid : Nat) : Store × Bool := clearQuads st fid 0 8 false

/-- `StorageMap::get_slot_key`: `sha256((STORAGE_MAP_DOMAIN, key, field_id))`; `kb` = the bytes the
key feeds to the hasher (a `u64` key: its 8 big-endian bytes). -/
def mapSlot (fid : Nat) (kb : List Nat) : Nat := H (1 :: kb ++ keyBytes fid)

def mapInsert (st : Store) (fid : Nat) (kb v : List Nat) (r : Bool) : Store :=
  writeQuads st (mapSlot H fid kb) 0 v r

/-- `get(key).try_read()` -/
def mapGet (st : Store) (fid : Nat) (kb : List Nat) (sz : Nat) (r : Bool) : Option (List Nat) :=
  readQuads st (mapSlot H fid kb) 0 sz r

def mapRemove (st : Store) (fid : Nat) (kb : List Nat) (sz : Nat) (r : Bool) : Store × Bool :=
  clearQuads st (mapSlot H fid kb) 0 sz r

/-- `write_slice_quads(field_id, slice)` (StorageBytes / StorageString) -/
def sliceWrite (st : Store) (fid : Nat) (bs : List Nat) : Store :=
  let st1 := storeQuad st (H (keyBytes fid)) (fun a => bs.getD a 0) ((bs.length + 31) / 32)
  writeLen st1 fid bs.length

/-- `read_slice_quads(field_id)` -/
def sliceRead (st : Store) (fid : Nat) : Option (List Nat) :=
  match readLen st fid with
  | 0 => none
  | len => some ((List.range len).map fun a => loadBuf st (H (keyBytes fid)) a)

/-- `storage.<bytes field>.clear()` resolves to the inherent `StorageKey<T>::clear` (zero-sized `T`):
`clear_quads::<u64>(field_id, 0)` — only the length slot is cleared (the trait method
`StorableSlice::clear` = `clear_slice_quads` is shadowed by it and not reachable with method syntax). -/
def sliceClear (st : Store) (fid : Nat) : Store × Bool := clearQuads st fid 0 8 false

def sliceLen (st : Store) (fid : Nat) : Nat := readLen st fid

end Collections

/-! ## Operation histories over several collection fields (C28)

`stepSlot` = the std library's slot machine, `stepAbs` = the mathematical models (list, finite
map, byte string), both run by the driver; `histProp` is the decidable predicate evaluated on the
observations of the real VM. -/

inductive FKind
  | vec (sz : Nat) | map (sz : Nat) | slice
  deriving DecidableEq, Repr

structure FieldInfo where
  kind : FKind
  fid : Nat
  deriving Repr

inductive Op
  | vpush (f : Nat) (v : List Nat) | vpop (f : Nat) | vget (f i : Nat) | vset (f i : Nat) (v : List Nat)
  | vlen (f : Nat) | vremove (f i : Nat) | vinsert (f i : Nat) (v : List Nat) | vswap (f i j : Nat)
  | vswaprm (f i : Nat) | vclear (f : Nat)
  | minsert (f k : Nat) (v : List Nat) | mget (f k : Nat) | mremove (f k : Nat)
  | bwrite (f : Nat) (bs : List Nat) | bread (f : Nat) | blen (f : Nat) | bclear (f : Nat)
  | raw (k : Nat)
  deriving Repr

inductive Obs
  | unit | none | some (b : List Nat) | num (n : Nat) | bool (b : Bool) | revert
  deriving DecidableEq, Repr

def optObs : Option (List Nat) → Obs
  | .none => .none
  | .some b => .some b

/-- elements wider than a word are reference types (tuples); `u64` is not -/
def refOfSize (sz : Nat) : Bool := decide (8 < sz)

/-- One call on the slot machine; `none` = the transaction reverts. -/
def stepSlot (H : List Nat → Nat) (fs : List FieldInfo) (st : Store) : Op → Option (Store × Obs)
  | .raw k => some (st, optObs (readQuads st k 0 32 true))
  | .vpush f v => match fs[f]? with
    | some ⟨.vec sz, fid⟩ => some (vecPush H st fid sz (refOfSize sz) v, .unit)
    | _ => none
  | .vpop f => match fs[f]? with
    | some ⟨.vec sz, fid⟩ => let (st', r) := vecPop H st fid sz (refOfSize sz); some (st', optObs r)
    | _ => none
  | .vget f i => match fs[f]? with
    | some ⟨.vec sz, fid⟩ => (vecGet H st fid sz (refOfSize sz) i).map fun r => (st, optObs r)
    | _ => none
  | .vset f i v => match fs[f]? with
    | some ⟨.vec sz, fid⟩ => (vecSet H st fid sz (refOfSize sz) i v).map fun st' => (st', .unit)
    | _ => none
  | .vlen f => match fs[f]? with
    | some ⟨.vec _, fid⟩ => some (st, .num (readLen st fid))
    | _ => none
  | .vremove f i => match fs[f]? with
    | some ⟨.vec sz, fid⟩ => (vecRemove H st fid sz (refOfSize sz) i).map fun (st', x) => (st', .some x)
    | _ => none
  | .vinsert f i v => match fs[f]? with
    | some ⟨.vec sz, fid⟩ => (vecInsert H st fid sz (refOfSize sz) i v).map fun st' => (st', .unit)
    | _ => none
  | .vswap f i j => match fs[f]? with
    | some ⟨.vec sz, fid⟩ => (vecSwap H st fid sz (refOfSize sz) i j).map fun st' => (st', .unit)
    | _ => none
  | .vswaprm f i => match fs[f]? with
    | some ⟨.vec sz, fid⟩ => (vecSwapRemove H st fid sz (refOfSize sz) i).map fun (st', x) => (st', .some x)
    | _ => none
  | .vclear f => match fs[f]? with
    | some ⟨.vec _, fid⟩ => let (st', b) := vecClear st fid; some (st', .bool b)
    | _ => none
  | .minsert f k v => match fs[f]? with
    | some ⟨.map sz, fid⟩ => some (mapInsert H st fid (beBytes 8 k) v (refOfSize sz), .unit)
    | _ => none
  | .mget f k => match fs[f]? with
    | some ⟨.map sz, fid⟩ => some (st, optObs (mapGet H st fid (beBytes 8 k) sz (refOfSize sz)))
    | _ => none
  | .mremove f k => match fs[f]? with
    | some ⟨.map sz, fid⟩ => let (st', b) := mapRemove H st fid (beBytes 8 k) sz (refOfSize sz); some (st', .bool b)
    | _ => none
  | .bwrite f bs => match fs[f]? with
    | some ⟨.slice, fid⟩ => some (sliceWrite H st fid bs, .unit)
    | _ => none
  | .bread f => match fs[f]? with
    | some ⟨.slice, fid⟩ => some (st, optObs (sliceRead H st fid))
    | _ => none
  | .blen f => match fs[f]? with
    | some ⟨.slice, fid⟩ => some (st, .num (sliceLen st fid))
    | _ => none
  | .bclear f => match fs[f]? with
    | some ⟨.slice, fid⟩ => let (st', b) := sliceClear st fid; some (st', .bool b)
    | _ => none

/-- Observations of a history on the slot machine (`revert` ends it: the transaction is rolled
back, later calls do not run). -/
def runSlot (H : List Nat → Nat) (fs : List FieldInfo) : Store → List Op → List Obs
  | _, [] => []
  | st, op :: ops => match stepSlot H fs st op with
    | none => [.revert]
    | some (st', o) => o :: runSlot H fs st' ops

/-- Mathematical models of the collections. -/
inductive AbsField
  | vec (xs : List (List Nat))
  | map (m : List (Nat × List Nat))
  | slice (b : List Nat)
  deriving Repr

def absInit : List FieldInfo → List AbsField
  | [] => []
  | ⟨.vec _, _⟩ :: r => .vec [] :: absInit r
  | ⟨.map _, _⟩ :: r => .map [] :: absInit r
  | ⟨.slice, _⟩ :: r => .slice [] :: absInit r

def swapList (xs : List (List Nat)) (i j : Nat) : List (List Nat) :=
  match xs[i]?, xs[j]? with
  | some a, some b => (xs.set i b).set j a
  | _, _ => xs

/-- One call on the mathematical model. Outer `none` = documented revert (index out of bounds);
inner `none` = the model makes no prediction about this observation (raw slot reads, the
"slots were set" flags returned by `clear`). -/
def stepAbs (a : List AbsField) : Op → Option (List AbsField × Option Obs)
  | .raw _ => some (a, none)
  | .vpush f v => match a[f]? with
    | some (.vec xs) => some (a.set f (.vec (xs ++ [v])), some .unit)
    | _ => none
  | .vpop f => match a[f]? with
    | some (.vec xs) => match xs.getLast? with
      | some l => some (a.set f (.vec xs.dropLast), some (.some l))
      | none => some (a, some .none)
    | _ => none
  | .vget f i => match a[f]? with
    | some (.vec xs) => some (a, some (optObs xs[i]?))
    | _ => none
  | .vset f i v => match a[f]? with
    | some (.vec xs) => if i < xs.length then some (a.set f (.vec (xs.set i v)), some .unit) else none
    | _ => none
  | .vlen f => match a[f]? with
    | some (.vec xs) => some (a, some (.num xs.length))
    | _ => none
  | .vremove f i => match a[f]? with
    | some (.vec xs) => match xs[i]? with
      | some x => some (a.set f (.vec (xs.eraseIdx i)), some (.some x))
      | none => none
    | _ => none
  | .vinsert f i v => match a[f]? with
    | some (.vec xs) => if i ≤ xs.length then some (a.set f (.vec (xs.take i ++ v :: xs.drop i)), some .unit) else none
    | _ => none
  | .vswap f i j => match a[f]? with
    | some (.vec xs) => if i < xs.length ∧ j < xs.length then some (a.set f (.vec (swapList xs i j)), some .unit) else none
    | _ => none
  | .vswaprm f i => match a[f]? with
    | some (.vec xs) => match xs[i]?, xs.getLast? with
      | some x, some l => some (a.set f (.vec ((xs.set i l).dropLast)), some (.some x))
      | _, _ => none
    | _ => none
  | .vclear f => match a[f]? with
    | some (.vec _) => some (a.set f (.vec []), none)
    | _ => none
  | .minsert f k v => match a[f]? with
    | some (.map m) => some (a.set f (.map ((k, v) :: m.filter (·.1 != k))), some .unit)
    | _ => none
  | .mget f k => match a[f]? with
    | some (.map m) => some (a, some (optObs ((m.find? (·.1 == k)).map (·.2))))
    | _ => none
  | .mremove f k => match a[f]? with
    | some (.map m) => some (a.set f (.map (m.filter (·.1 != k))), some (.bool (m.any (·.1 == k))))
    | _ => none
  | .bwrite f bs => match a[f]? with
    | some (.slice _) => some (a.set f (.slice bs), some .unit)
    | _ => none
  | .bread f => match a[f]? with
    | some (.slice b) => some (a, some (if b.isEmpty then .none else .some b))
    | _ => none
  | .blen f => match a[f]? with
    | some (.slice b) => some (a, some (.num b.length))
    | _ => none
  | .bclear f => match a[f]? with
    | some (.slice _) => some (a.set f (.slice []), none)
    | _ => none

/-- C28 predicate: the observations of a history are what the mathematical models predict
(fields other than the one operated on are part of the abstract state and stay as they are). -/
def histProp : List AbsField → List Op → List Obs → Bool
  | _, [], [] => true
  | _, [], _ :: _ => false
  | _, _ :: _, [] => false
  | a, op :: ops, o :: os => match stepAbs a op with
    | none => o == .revert && os.isEmpty
    | some (a', pred) =>
      (match pred with
        | some p => o == p
        | none => o != .revert) && histProp a' ops os

end SwayVerif.Storage
