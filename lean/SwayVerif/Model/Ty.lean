import SwayVerif.Generated.CodecTrivial
import SwayVerif.Generated.MemRepr
/-!
# M-Ty: Sway ABI types, values, canonical Fuel ABI encoding ("new encoding"), memory layout, triviality

Import-free apart from the two GENERATED table files (themselves import-free).

What is modelled, and from where:

* `encode` / `decode` — the canonical Fuel ABI encoding, read off `sway-lib-std/src/codec.sw`
  (`impl AbiEncode/AbiDecode for …`), `__encode_buffer_append` (`sway-core/src/ir_generation/function.rs`,
  `compile_encode_buffer_append`: u8/bool 1 byte, u16 2, u32 4, u64 8, u256/b256 32, `str[N]` N bytes,
  `str`/`raw_slice` u64 length + bytes) and the auto-impl generator `abi_encoding.rs` (struct = fields in order,
  enum = u64 tag + payload, unknown tag ⇒ `__revert(0)`); `Vec/Bytes/String` from `vec.sw/bytes.sw/string.sw`.
  Everything big-endian. The spec decoder is bounds-checked (`none` on short input); the real decoder does no
  bounds checks (it reads whatever follows the buffer) — short inputs are outside properties C09/C10.
* `sizeRT`, `runtimeImage`, `runtimeBytes` — the layout the backend really uses (`sway-ir/src/irtype.rs`
  `Type::size`, `get_struct_field_offset_and_type`, `get_union_field_offset_and_type`;
  `ir_generation/types.rs::create_tagged_union_type`): struct fields start on word boundaries (padding after the
  field), union variants are left-padded to the word-rounded widest variant, enum = tag word + union (tag only when
  every variant is zero-sized), u16/u32 live in a word. A byte of `runtimeImage` is `none` when the value does not
  determine it (padding, pointers of heap types).
* `MemRep`, `runtimeRepr`, `encodingRepr`, `memIdEq` — `MemoryRepresentation`, `get_runtime_representation`,
  `get_encoding_representation` and the test `__runtime_mem_id::<T>() == __encoding_mem_id::<T>()` (hash equality of
  the two descriptions; hash collisions are assumed away). Leaf sizes / padding rules come from
  `Generated/MemRepr.lean`.
* `isEncodeTrivial` / `isDecodeTrivial` — evaluation of the `is_*_trivial` bodies listed in
  `Generated/CodecTrivial.lean`.
* `slowEncode` / `implEncode`, `slowDecode` / `implDecode` — what `encode<T>` / `abi_decode<T>` do *with* the fast
  paths (top-level raw copy when trivial; `Vec<T>` raw copy of the element buffer when `T` is trivial) and with the
  validity checks the translator found. `encode`, `decode` and the `prop…` predicates never consult the generated
  tables: they are the property's statement; the tables only feed the model of what the code does.
-/
namespace SwayVerif.Abi
open SwayVerif.Generated

/-! ## bytes -/

/-- `k` big-endian bytes of `n mod 256^k` -/
def beBytes : Nat → Nat → List UInt8
  | 0, _ => []
  | k + 1, n => UInt8.ofNat (n / 256 ^ k % 256) :: beBytes k n

def beNat : List UInt8 → Nat
  | [] => 0
  | b :: r => b.toNat * 256 ^ r.length + beNat r

/-- read `k` big-endian bytes -/
def takeNat (k : Nat) (bs : List UInt8) : Option (Nat × List UInt8) :=
  if bs.length < k then none else some (beNat (bs.take k), bs.drop k)

def align8 (n : Nat) : Nat := (n + 7) / 8 * 8

/-- bytes missing to the next multiple of 8 -/
def padTo8 (n : Nat) : Nat := align8 n - n

def maxList : List Nat → Nat
  | [] => 0
  | a :: r => max a (maxList r)

/-! ## types and values -/

inductive Ty where
  | u8 | u16 | u32 | u64 | u256 | b256 | bool | unit
  /-- `str[n]` -/
  | strArray (n : Nat)
  /-- `[t; n]` -/
  | array (t : Ty) (n : Nat)
  /-- `(t0, t1, …)`, arity ≥ 1 (arity 0 is `unit`) -/
  | tuple (ts : List Ty)
  /-- struct with an auto-implemented codec; field types in declaration order -/
  | struct (ts : List Ty)
  /-- enum with an auto-implemented codec; variant types in declaration order (`Option<T>` = `enum [unit, T]`,
      `Result<T, E>` = `enum [T, E]`) -/
  | enum (ts : List Ty)
  | vec (t : Ty)
  | bytes | string
  /-- `str` -/
  | strSlice
  | rawSlice
  /-- `std::codec::TrivialBool` = `struct { value: u64 }` with hand-written codec impls -/
  | trivialBool
  /-- `std::codec::TrivialEnum<T>` = `struct { value: T }` with hand-written codec impls -/
  | trivialEnum (t : Ty)
deriving Repr, Inhabited

/-- Untyped values. Integers and `b256` are `num`; `str[N]`, `str`, `Bytes`, `String`, `raw_slice` are `bytes`;
arrays, tuples, structs, `Vec` and the two wrapper structs are `seq`. -/
inductive Val where
  | num (n : Nat)
  | bool (b : Bool)
  | unit
  | bytes (bs : List UInt8)
  | seq (vs : List Val)
  | variant (tag : Nat) (v : Val)
deriving Repr, Inhabited

def Val.numD : Val → Nat
  | .num n => n
  | _ => 0
def Val.boolD : Val → Bool
  | .bool b => b
  | _ => false
def Val.bytesD : Val → List UInt8
  | .bytes bs => bs
  | _ => []
def Val.seqD : Val → List Val
  | .seq vs => vs
  | _ => []
def Val.tagD : Val → Nat
  | .variant i _ => i
  | _ => 0
def Val.payloadD : Val → Val
  | .variant _ v => v
  | _ => .unit
/-- the single field of a one-field struct value -/
def Val.single : Val → Val
  | .seq [w] => w
  | _ => .unit

def isNumLt (bound : Nat) : Val → Bool
  | .num n => n < bound
  | _ => false

def isBytes (p : List UInt8 → Bool) : Val → Bool
  | .bytes bs => p bs
  | _ => false

def allVals (p : Val → Bool) : List Val → Bool
  | [] => true
  | v :: vs => p v && allVals p vs

mutual
/-- `v` is a value of type `t` (lengths and tags fit a u64, as they must in a 64-bit VM). -/
def hasType : Ty → Val → Bool
  | .u8, v => isNumLt (2 ^ 8) v
  | .u16, v => isNumLt (2 ^ 16) v
  | .u32, v => isNumLt (2 ^ 32) v
  | .u64, v => isNumLt (2 ^ 64) v
  | .u256, v => isNumLt (2 ^ 256) v
  | .b256, v => isNumLt (2 ^ 256) v
  | .bool, v => match v with | .bool _ => true | _ => false
  | .unit, v => match v with | .unit => true | _ => false
  | .strArray n, v => isBytes (fun bs => bs.length == n) v
  | .array t n, v => match v with
      | .seq vs => vs.length == n && allVals (hasType t) vs
      | _ => false
  | .tuple ts, v => match v with | .seq vs => hasTypes ts vs | _ => false
  | .struct ts, v => match v with | .seq vs => hasTypes ts vs | _ => false
  | .enum ts, v => match v with
      | .variant i p => decide (i < 2 ^ 64) && hasTypeVariant ts i p
      | _ => false
  | .vec t, v => match v with
      | .seq vs => decide (vs.length < 2 ^ 64) && allVals (hasType t) vs
      | _ => false
  | .bytes, v => isBytes (fun bs => decide (bs.length < 2 ^ 64)) v
  | .string, v => isBytes (fun bs => decide (bs.length < 2 ^ 64)) v
  | .strSlice, v => isBytes (fun bs => decide (bs.length < 2 ^ 64)) v
  | .rawSlice, v => isBytes (fun bs => decide (bs.length < 2 ^ 64)) v
  | .trivialBool, v => match v with
      | .seq [w] => isNumLt (2 ^ 64) w
      | _ => false
  | .trivialEnum t, v => match v with
      | .seq [w] => hasType t w
      | _ => false
def hasTypes : List Ty → List Val → Bool
  | [], [] => true
  | t :: ts, v :: vs => hasType t v && hasTypes ts vs
  | _, _ => false
/-- `p` is a value of the `i`-th type of the list -/
def hasTypeVariant : List Ty → Nat → Val → Bool
  | [], _, _ => false
  | t :: _, 0, p => hasType t p
  | _ :: ts, i + 1, p => hasTypeVariant ts i p
end

abbrev HasType (t : Ty) (v : Val) : Prop := hasType t v = true

/-! ## canonical encoding -/

def flatMapVals (f : Val → List UInt8) : List Val → List UInt8
  | [] => []
  | v :: vs => f v ++ flatMapVals f vs

def lenPrefixed (bs : List UInt8) : List UInt8 := beBytes 8 bs.length ++ bs

mutual
/-- Canonical Fuel ABI encoding of `v : t`. -/
def encode : Ty → Val → List UInt8
  | .u8, v => beBytes 1 v.numD
  | .u16, v => beBytes 2 v.numD
  | .u32, v => beBytes 4 v.numD
  | .u64, v => beBytes 8 v.numD
  | .u256, v => beBytes 32 v.numD
  | .b256, v => beBytes 32 v.numD
  | .bool, v => [if v.boolD then 1 else 0]
  | .unit, _ => []
  | .strArray _, v => v.bytesD
  | .array t _, v => flatMapVals (encode t) v.seqD
  | .tuple ts, v => encodes ts v.seqD
  | .struct ts, v => encodes ts v.seqD
  | .enum ts, v => beBytes 8 v.tagD ++ encodeVariant ts v.tagD v.payloadD
  | .vec t, v => beBytes 8 v.seqD.length ++ flatMapVals (encode t) v.seqD
  | .bytes, v => lenPrefixed v.bytesD
  | .string, v => lenPrefixed v.bytesD
  | .strSlice, v => lenPrefixed v.bytesD
  | .rawSlice, v => lenPrefixed v.bytesD
  | .trivialBool, v => beBytes 8 v.single.numD
  | .trivialEnum t, v => encode t v.single
def encodes : List Ty → List Val → List UInt8
  | t :: ts, v :: vs => encode t v ++ encodes ts vs
  | _, _ => []
def encodeVariant : List Ty → Nat → Val → List UInt8
  | [], _, _ => []
  | t :: _, 0, p => encode t p
  | _ :: ts, i + 1, p => encodeVariant ts i p
end

def sumLens (f : Val → Nat) : List Val → Nat
  | [] => 0
  | v :: vs => f v + sumLens f vs

mutual
/-- Length formula of the canonical encoding. -/
def encLen : Ty → Val → Nat
  | .u8, _ => 1
  | .u16, _ => 2
  | .u32, _ => 4
  | .u64, _ => 8
  | .u256, _ => 32
  | .b256, _ => 32
  | .bool, _ => 1
  | .unit, _ => 0
  | .strArray n, _ => n
  | .array t _, v => sumLens (encLen t) v.seqD
  | .tuple ts, v => encLens ts v.seqD
  | .struct ts, v => encLens ts v.seqD
  | .enum ts, v => 8 + encLenVariant ts v.tagD v.payloadD
  | .vec t, v => 8 + sumLens (encLen t) v.seqD
  | .bytes, v => 8 + v.bytesD.length
  | .string, v => 8 + v.bytesD.length
  | .strSlice, v => 8 + v.bytesD.length
  | .rawSlice, v => 8 + v.bytesD.length
  | .trivialBool, _ => 8
  | .trivialEnum t, v => encLen t v.single
def encLens : List Ty → List Val → Nat
  | t :: ts, v :: vs => encLen t v + encLens ts vs
  | _, _ => 0
def encLenVariant : List Ty → Nat → Val → Nat
  | [], _, _ => 0
  | t :: _, 0, p => encLen t p
  | _ :: ts, i + 1, p => encLenVariant ts i p
end

/-! ## canonical decoding -/

abbrev Dec (α : Type) := List UInt8 → Option (α × List UInt8)

/-- a `bool` is the byte 0 or 1; anything else is not a value (the property's statement, independent of the code) -/
def decodeBoolByte (b : UInt8) : Option Bool :=
  if b = 0 then some false else if b = 1 then some true else none

/-- `impl AbiDecode for bool` as found by the translator (validity check present or not) -/
def implBoolByte (b : UInt8) : Option Bool :=
  match CodecTrivial.boolDecode with
  | .strict => decodeBoolByte b
  | _ => some (b != 0)

def decodeNum (k : Nat) : Dec Val := fun bs =>
  match takeNat k bs with
  | some (n, r) => some (.num n, r)
  | none => none

def decodeLenPrefixed : Dec Val := fun bs =>
  match takeNat 8 bs with
  | some (len, r) => if r.length < len then none else some (.bytes (r.take len), r.drop len)
  | none => none

/-- `n` consecutive items -/
def decodeRep (f : Dec Val) : Nat → Dec (List Val)
  | 0, bs => some ([], bs)
  | n + 1, bs => match f bs with
    | none => none
    | some (v, r) => match decodeRep f n r with
      | none => none
      | some (vs, r') => some (v :: vs, r')

def mapSeq : Option (List Val × List UInt8) → Option (Val × List UInt8)
  | some (vs, r) => some (.seq vs, r)
  | none => none

mutual
/-- Canonical decoder: a value of type `t` from the front of the bytes, and the rest. `none` = revert
(invalid `bool` byte, unknown enum tag) or input too short. -/
def decode : Ty → Dec Val
  | .u8, bs => decodeNum 1 bs
  | .u16, bs => decodeNum 2 bs
  | .u32, bs => decodeNum 4 bs
  | .u64, bs => decodeNum 8 bs
  | .u256, bs => decodeNum 32 bs
  | .b256, bs => decodeNum 32 bs
  | .bool, bs => match bs with
      | [] => none
      | b :: r => match decodeBoolByte b with
        | some x => some (.bool x, r)
        | none => none
  | .unit, bs => some (.unit, bs)
  | .strArray n, bs => if bs.length < n then none else some (.bytes (bs.take n), bs.drop n)
  | .array t n, bs => mapSeq (decodeRep (decode t) n bs)
  | .tuple ts, bs => mapSeq (decodes ts bs)
  | .struct ts, bs => mapSeq (decodes ts bs)
  | .enum ts, bs => match takeNat 8 bs with
      | some (tag, r) => decodeVariant ts tag tag r
      | none => none
  | .vec t, bs => match takeNat 8 bs with
      | some (len, r) => mapSeq (decodeRep (decode t) len r)
      | none => none
  | .bytes, bs => decodeLenPrefixed bs
  | .string, bs => decodeLenPrefixed bs
  | .strSlice, bs => decodeLenPrefixed bs
  | .rawSlice, bs => decodeLenPrefixed bs
  | .trivialBool, bs => mapSeq (decodeRep (decodeNum 8) 1 bs)
  | .trivialEnum t, bs => mapSeq (decodeRep (decode t) 1 bs)
def decodes : List Ty → Dec (List Val)
  | [], bs => some ([], bs)
  | t :: ts, bs => match decode t bs with
    | none => none
    | some (v, r) => match decodes ts r with
      | none => none
      | some (vs, r') => some (v :: vs, r')
/-- `match variant { 0 => …, 1 => …, _ => __revert(0) }` -/
def decodeVariant : List Ty → Nat → Nat → Dec Val
  | [], _, _, _ => none
  | t :: _, 0, tag, bs => match decode t bs with
    | some (p, r) => some (.variant tag p, r)
    | none => none
  | _ :: ts, i + 1, tag, bs => decodeVariant ts i tag bs
end

/-! ## memory layout (what the backend does) -/

def allZero : List Nat → Bool
  | [] => true
  | a :: r => a == 0 && allZero r

def sumAligned : List Nat → Nat
  | [] => 0
  | a :: r => align8 a + sumAligned r

mutual
/-- `__size_of::<T>()` -/
def sizeRT : Ty → Nat
  | .u8 => 1
  | .bool => 1
  | .u16 => 8
  | .u32 => 8
  | .u64 => 8
  | .u256 => 32
  | .b256 => 32
  | .unit => 0
  | .strArray n => if CodecTrivial.strArrayNoPadding then n else align8 n
  | .array t n => n * sizeRT t
  | .tuple ts => sumAligned (sizesRT ts)
  | .struct ts => sumAligned (sizesRT ts)
  | .enum ts => if allZero (sizesRT ts) then 8 else 8 + align8 (maxList (sizesRT ts))
  | .vec _ => 24
  | .bytes => 24
  | .string => 24
  | .strSlice => 16
  | .rawSlice => 16
  | .trivialBool => 8
  | .trivialEnum t => align8 (sizeRT t)
def sizesRT : List Ty → List Nat
  | [] => []
  | t :: ts => sizeRT t :: sizesRT ts
end

abbrev MByte := Option UInt8

def known (bs : List UInt8) : List MByte := bs.map some
def padding (n : Nat) : List MByte := List.replicate n none

def flatMapImg (f : Val → List MByte) : List Val → List MByte
  | [] => []
  | v :: vs => f v ++ flatMapImg f vs

mutual
/-- Memory image of `v : t` at its address; `none` bytes are not determined by the value. -/
def runtimeImage : Ty → Val → List MByte
  | .u8, v => known (beBytes 1 v.numD)
  | .u16, v => known (beBytes 8 v.numD)
  | .u32, v => known (beBytes 8 v.numD)
  | .u64, v => known (beBytes 8 v.numD)
  | .u256, v => known (beBytes 32 v.numD)
  | .b256, v => known (beBytes 32 v.numD)
  | .bool, v => known [if v.boolD then 1 else 0]
  | .unit, _ => []
  | .strArray n, v => known v.bytesD ++ padding (sizeRT (.strArray n) - v.bytesD.length)
  | .array t _, v => flatMapImg (runtimeImage t) v.seqD
  | .tuple ts, v => fieldImages ts v.seqD
  | .struct ts, v => fieldImages ts v.seqD
  | .enum ts, v =>
      known (beBytes 8 v.tagD) ++
        (if allZero (sizesRT ts) then [] else variantImage ts v.tagD v.payloadD (align8 (maxList (sizesRT ts))))
  | .vec _, _ => padding 24
  | .bytes, _ => padding 24
  | .string, _ => padding 24
  | .strSlice, _ => padding 16
  | .rawSlice, _ => padding 16
  | .trivialBool, v => known (beBytes 8 v.single.numD)
  | .trivialEnum t, v => runtimeImage t v.single ++ padding (padTo8 (sizeRT t))
/-- struct fields: each field followed by padding to the next word boundary -/
def fieldImages : List Ty → List Val → List MByte
  | t :: ts, v :: vs => runtimeImage t v ++ padding (padTo8 (sizeRT t)) ++ fieldImages ts vs
  | _, _ => []
/-- union of size `u`: the active variant is left-padded -/
def variantImage : List Ty → Nat → Val → Nat → List MByte
  | [], _, _, u => padding u
  | t :: _, 0, p, u => padding (u - sizeRT t) ++ runtimeImage t p
  | _ :: ts, i + 1, p, u => variantImage ts i p u
end

/-- Memory image with undetermined bytes shown as 0. -/
def runtimeBytes (t : Ty) (v : Val) : List UInt8 := (runtimeImage t v).map (·.getD 0)

/-! ## `MemoryRepresentation` and the mem-id test -/

inductive MemRep where
  | pad (n : Nat)
  | blob (n : Nat)
  | and (items : List MemRep)
  | or (items : List MemRep)
  | arr (item : MemRep) (n : Nat)
deriving Repr, Inhabited

mutual
def MemRep.len : MemRep → Nat
  | .pad n => n
  | .blob n => n
  | .and items => MemRep.lenSum items
  | .or items => MemRep.lenMax items
  | .arr item n => item.len * n
def MemRep.lenSum : List MemRep → Nat
  | [] => 0
  | r :: rs => r.len + MemRep.lenSum rs
def MemRep.lenMax : List MemRep → Nat
  | [] => 0
  | r :: rs => max r.len (MemRep.lenMax rs)
end

mutual
/-- derived `PartialEq` (the hash of equal descriptions is equal; collisions assumed away) -/
def MemRep.beq : MemRep → MemRep → Bool
  | .pad a, .pad b => a == b
  | .blob a, .blob b => a == b
  | .and xs, .and ys => MemRep.beqList xs ys
  | .or xs, .or ys => MemRep.beqList xs ys
  | .arr a n, .arr b m => MemRep.beq a b && n == m
  | _, _ => false
def MemRep.beqList : List MemRep → List MemRep → Bool
  | [], [] => true
  | x :: xs, y :: ys => MemRep.beq x y && MemRep.beqList xs ys
  | _, _ => false
end

/-- attach the padding `get_runtime_representation` describes -/
def withPad (rule : MemRepr.PadRule) (r : MemRep) (p : Nat) : MemRep :=
  if p = 0 then r else
  match rule with
  | .right => .and [r, .pad p]
  | .left => .and [.pad p, r]
  | .unknown => r

/-- struct arm: a field that does not end on a word boundary is grouped with its trailing padding -/
def structItem (r : MemRep) : MemRep := withPad MemRepr.rtStructPad r (padTo8 r.len)

/-- union arm: every variant is left-padded to the widest variant rounded up to a word -/
def unionItems (items : List MemRep) : List MemRep :=
  let biggest := MemRep.lenMax items
  items.map fun it => withPad MemRepr.rtUnionPad it (padTo8 biggest + (biggest - it.len))

mutual
/-- `get_runtime_representation` of the IR type of `t` -/
def runtimeRepr : Ty → MemRep
  | .u8 => .blob MemRepr.rtU8
  | .bool => .blob MemRepr.rtBool
  | .u16 => .blob MemRepr.rtU64
  | .u32 => .blob MemRepr.rtU64
  | .u64 => .blob MemRepr.rtU64
  | .u256 => .blob MemRepr.rtU256
  | .b256 => .blob MemRepr.rtB256
  | .unit => .and []
  | .strArray n =>
      if CodecTrivial.strArrayNoPadding then .blob n else withPad MemRepr.rtStrArrayPad (.blob n) (padTo8 n)
  | .array t n => .arr (runtimeRepr t) n
  | .tuple ts => .and (runtimeReprFields ts)
  | .struct ts => .and (runtimeReprFields ts)
  | .enum ts =>
      if allZero (sizesRT ts) then .and [.blob MemRepr.rtU64]
      else .and [.blob MemRepr.rtU64, structItem (.or (unionItems (runtimeReprs ts)))]
  | .vec _ => .and [.and [.blob MemRepr.rtPtr, .blob MemRepr.rtU64], .blob MemRepr.rtU64]
  | .bytes => .and [.and [.blob MemRepr.rtPtr, .blob MemRepr.rtU64], .blob MemRepr.rtU64]
  | .string => .and [.and [.and [.blob MemRepr.rtPtr, .blob MemRepr.rtU64], .blob MemRepr.rtU64]]
  | .strSlice => .blob MemRepr.rtStringSlice
  | .rawSlice => .blob MemRepr.rtSlice
  | .trivialBool => .and [.blob MemRepr.rtU64]
  | .trivialEnum t => .and [structItem (runtimeRepr t)]
def runtimeReprFields : List Ty → List MemRep
  | [] => []
  | t :: ts => structItem (runtimeRepr t) :: runtimeReprFields ts
def runtimeReprs : List Ty → List MemRep
  | [] => []
  | t :: ts => runtimeRepr t :: runtimeReprs ts
end

def allLenZero : List MemRep → Bool
  | [] => true
  | r :: rs => r.len == 0 && allLenZero rs

mutual
/-- `get_encoding_representation`; `none` = no description (mem id 0) -/
def encodingRepr : Ty → Option MemRep
  | .u8 => some (.blob MemRepr.encU8)
  | .bool => some (.blob MemRepr.encBool)
  | .u16 => some (.blob MemRepr.encU16)
  | .u32 => some (.blob MemRepr.encU32)
  | .u64 => some (.blob MemRepr.encU64)
  | .u256 => some (.blob MemRepr.encU256)
  | .b256 => some (.blob MemRepr.encB256)
  | .unit => some (.and [])
  | .strArray n => some (.blob n)
  | .array t n => match encodingRepr t with
      | some r => some (.arr r n)
      | none => none
  | .tuple ts => match encodingReprs ts with
      | some rs => some (.and rs)
      | none => none
  | .struct ts => match encodingReprs ts with
      | some rs => some (.and rs)
      | none => none
  | .enum ts => match encodingReprs ts with
      | some rs => if allLenZero rs then some (.and [.blob 8]) else some (.and [.blob 8, .or rs])
      | none => none
  | .vec _ => none
  | .bytes => none
  | .string => none
  | .strSlice => none
  | .rawSlice => none
  | .trivialBool => some (.and [.blob MemRepr.encU64])
  | .trivialEnum t => match encodingRepr t with
      | some r => some (.and [r])
      | none => none
def encodingReprs : List Ty → Option (List MemRep)
  | [] => some []
  | t :: ts => match encodingRepr t, encodingReprs ts with
    | some r, some rs => some (r :: rs)
    | _, _ => none
end

/-- `__runtime_mem_id::<T>() == __encoding_mem_id::<T>()` -/
def memIdEq (t : Ty) : Bool :=
  match encodingRepr t with
  | some e => (runtimeRepr t).beq e
  | none => false

/-! ## triviality (evaluation of the generated `is_*_trivial` bodies) -/

def allTrue : List Bool → Bool
  | [] => true
  | b :: r => b && allTrue r

def allIdx (comps : List Bool) : List Nat → Bool
  | [] => true
  | i :: r => comps.getD i true && allIdx comps r

/-- `memId` = value of the mem-id test for `Self`, `comps` = `is_x_trivial` of the type parameters / fields -/
def evalBody (b : CodecTrivial.Body) (memId : Bool) (comps : List Bool) : Bool :=
  match b with
  | .lit x => x
  | .param k => comps.getD k true
  | .conj m idxs => (!m || memId) && allIdx comps idxs
  | .allFields m => (!m || memId) && allTrue comps
  | .unknown => true

def tupleBody (tbl : List CodecTrivial.Body) (arity : Nat) : CodecTrivial.Body :=
  match arity with
  | 0 => .unknown
  | k + 1 => match tbl[k]? with
    | some b => b
    | none => .lit false   -- no impl for this arity: the program does not compile

mutual
def isEncodeTrivial : Ty → Bool
  | .u8 => evalBody CodecTrivial.enc_u8 false []
  | .u16 => evalBody CodecTrivial.enc_u16 false []
  | .u32 => evalBody CodecTrivial.enc_u32 false []
  | .u64 => evalBody CodecTrivial.enc_u64 false []
  | .u256 => evalBody CodecTrivial.enc_u256 false []
  | .b256 => evalBody CodecTrivial.enc_b256 false []
  | .bool => evalBody CodecTrivial.enc_bool false []
  | .unit => evalBody CodecTrivial.enc_unit false []
  | .strArray _ => evalBody (CodecTrivial.enc_strArray CodecTrivial.strArrayNoPadding) false []
  | .array t n => evalBody CodecTrivial.enc_array (memIdEq (.array t n)) [isEncodeTrivial t]
  | .tuple ts => evalBody (tupleBody CodecTrivial.enc_tuple ts.length) (memIdEq (.tuple ts)) (isEncodeTrivials ts)
  | .struct ts => evalBody CodecTrivial.enc_struct (memIdEq (.struct ts)) (isEncodeTrivials ts)
  | .enum ts => evalBody CodecTrivial.enc_enum (memIdEq (.enum ts)) (isEncodeTrivials ts)
  | .vec t => evalBody CodecTrivial.enc_vec (memIdEq (.vec t)) [isEncodeTrivial t]
  | .bytes => evalBody CodecTrivial.enc_bytes false []
  | .string => evalBody CodecTrivial.enc_string false []
  | .strSlice => evalBody CodecTrivial.enc_strSlice false []
  | .rawSlice => evalBody CodecTrivial.enc_rawSlice false []
  | .trivialBool => evalBody CodecTrivial.enc_trivialBool false []
  | .trivialEnum t => evalBody CodecTrivial.enc_trivialEnum (memIdEq (.trivialEnum t)) [isEncodeTrivial t]
def isEncodeTrivials : List Ty → List Bool
  | [] => []
  | t :: ts => isEncodeTrivial t :: isEncodeTrivials ts
end

mutual
def isDecodeTrivial : Ty → Bool
  | .u8 => evalBody CodecTrivial.dec_u8 false []
  | .u16 => evalBody CodecTrivial.dec_u16 false []
  | .u32 => evalBody CodecTrivial.dec_u32 false []
  | .u64 => evalBody CodecTrivial.dec_u64 false []
  | .u256 => evalBody CodecTrivial.dec_u256 false []
  | .b256 => evalBody CodecTrivial.dec_b256 false []
  | .bool => evalBody CodecTrivial.dec_bool false []
  | .unit => evalBody CodecTrivial.dec_unit false []
  | .strArray _ => evalBody (CodecTrivial.dec_strArray CodecTrivial.strArrayNoPadding) false []
  | .array t n => evalBody CodecTrivial.dec_array (memIdEq (.array t n)) [isDecodeTrivial t]
  | .tuple ts => evalBody (tupleBody CodecTrivial.dec_tuple ts.length) (memIdEq (.tuple ts)) (isDecodeTrivials ts)
  | .struct ts => evalBody CodecTrivial.dec_struct (memIdEq (.struct ts)) (isDecodeTrivials ts)
  | .enum ts => evalBody CodecTrivial.dec_enum (memIdEq (.enum ts)) (isDecodeTrivials ts)
  | .vec t => evalBody CodecTrivial.dec_vec (memIdEq (.vec t)) [isDecodeTrivial t]
  | .bytes => evalBody CodecTrivial.dec_bytes false []
  | .string => evalBody CodecTrivial.dec_string false []
  | .strSlice => evalBody CodecTrivial.dec_strSlice false []
  | .rawSlice => evalBody CodecTrivial.dec_rawSlice false []
  | .trivialBool => evalBody CodecTrivial.dec_trivialBool false []
  | .trivialEnum t => evalBody CodecTrivial.dec_trivialEnum (memIdEq (.trivialEnum t)) [isDecodeTrivial t]
def isDecodeTrivials : List Ty → List Bool
  | [] => []
  | t :: ts => isDecodeTrivial t :: isDecodeTrivials ts
end

mutual
/-- no `TrivialEnum<_>` anywhere inside (the std wrapper whose literal `true` is the known finding) -/
def noTrivialEnum : Ty → Bool
  | .array t _ => noTrivialEnum t
  | .tuple ts => noTrivialEnums ts
  | .struct ts => noTrivialEnums ts
  | .enum ts => noTrivialEnums ts
  | .vec t => noTrivialEnum t
  | .trivialEnum _ => false
  | _ => true
def noTrivialEnums : List Ty → Bool
  | [] => true
  | t :: ts => noTrivialEnum t && noTrivialEnums ts
end

/-! ## the implementation's encoder/decoder with their fast paths -/

mutual
/-- `T::abi_encode` (the "slow" path): canonical, except that `Vec<T>` appends its element buffer raw when
`is_encode_trivial::<T>()`. -/
def slowEncode : Ty → Val → List UInt8
  | .array t _, v => flatMapVals (slowEncode t) v.seqD
  | .tuple ts, v => slowEncodes ts v.seqD
  | .struct ts, v => slowEncodes ts v.seqD
  | .enum ts, v => beBytes 8 v.tagD ++ slowEncodeVariant ts v.tagD v.payloadD
  | .vec t, v =>
      beBytes 8 v.seqD.length ++
        (if CodecTrivial.vecEncElemFastPath && isEncodeTrivial t then flatMapVals (runtimeBytes t) v.seqD
         else flatMapVals (slowEncode t) v.seqD)
  | .trivialEnum t, v => slowEncode t v.single
  | t, v => encode t v
def slowEncodes : List Ty → List Val → List UInt8
  | t :: ts, v :: vs => slowEncode t v ++ slowEncodes ts vs
  | _, _ => []
def slowEncodeVariant : List Ty → Nat → Val → List UInt8
  | [], _, _ => []
  | t :: _, 0, p => slowEncode t p
  | _ :: ts, i + 1, p => slowEncodeVariant ts i p
end

/-- `encode::<T>(v)` / `log(v)` / returned data: raw copy of `__size_of::<T>()` bytes when `T` is classified trivial -/
def implEncode (t : Ty) (v : Val) : List UInt8 :=
  if CodecTrivial.encodeFastPath && isEncodeTrivial t then runtimeBytes t v else slowEncode t v

/-- split into `n` chunks of `k` bytes -/
def chunks (k : Nat) : Nat → List UInt8 → List (List UInt8)
  | 0, _ => []
  | n + 1, bs => bs.take k :: chunks k n (bs.drop k)

def mapM' (f : List UInt8 → Option Val) : List (List UInt8) → Option (List Val)
  | [] => some []
  | c :: cs => match f c, mapM' f cs with
    | some v, some vs => some (v :: vs)
    | _, _ => none

mutual
/-- Read a value back from a memory image of exactly `sizeRT t` bytes (`none`: heap type, invalid `bool` byte or
unknown tag in memory, i.e. no valid value has this image). -/
def fromImage : Ty → List UInt8 → Option Val
  | .u8, bs => some (.num (beNat (bs.take 1)))
  | .u16, bs => some (.num (beNat (bs.take 8)))
  | .u32, bs => some (.num (beNat (bs.take 8)))
  | .u64, bs => some (.num (beNat (bs.take 8)))
  | .u256, bs => some (.num (beNat (bs.take 32)))
  | .b256, bs => some (.num (beNat (bs.take 32)))
  | .bool, bs => match bs with
      | b :: _ => if b = 0 then some (.bool false) else if b = 1 then some (.bool true) else none
      | [] => none
  | .unit, _ => some .unit
  | .strArray n, bs => some (.bytes (bs.take n))
  | .array t n, bs => match mapM' (fromImage t) (chunks (sizeRT t) n bs) with
      | some vs => some (.seq vs)
      | none => none
  | .tuple ts, bs => match fromFieldImages ts bs with
      | some vs => some (.seq vs)
      | none => none
  | .struct ts, bs => match fromFieldImages ts bs with
      | some vs => some (.seq vs)
      | none => none
  | .enum ts, bs =>
      let tag := beNat (bs.take 8)
      if allZero (sizesRT ts) then (if tag < ts.length then some (.variant tag .unit) else none)   -- payload refined below
      else fromVariantImage ts tag tag (bs.drop 8) (align8 (maxList (sizesRT ts)))
  | .vec _, _ => none
  | .bytes, _ => none
  | .string, _ => none
  | .strSlice, _ => none
  | .rawSlice, _ => none
  | .trivialBool, bs => some (.seq [.num (beNat (bs.take 8))])
  | .trivialEnum t, bs => match fromImage t (bs.take (sizeRT t)) with
      | some v => some (.seq [v])
      | none => none
def fromFieldImages : List Ty → List UInt8 → Option (List Val)
  | [], _ => some []
  | t :: ts, bs => match fromImage t (bs.take (sizeRT t)), fromFieldImages ts (bs.drop (align8 (sizeRT t))) with
    | some v, some vs => some (v :: vs)
    | _, _ => none
def fromVariantImage : List Ty → Nat → Nat → List UInt8 → Nat → Option Val
  | [], _, _, _, _ => none
  | t :: _, 0, tag, bs, u => match fromImage t ((bs.drop (u - sizeRT t)).take (sizeRT t)) with
    | some p => some (.variant tag p)
    | none => none
  | _ :: ts, i + 1, tag, bs, u => fromVariantImage ts i tag bs u
end

mutual
/-- `T::abi_decode` as implemented: the canonical decoder with the `bool` validity check the translator found in
`codec.sw` (the generated enum decoder's `_ => __revert(0)` arm is required by `TablesOK`). -/
def slowDecode : Ty → Dec Val
  | .u8, bs => decodeNum 1 bs
  | .u16, bs => decodeNum 2 bs
  | .u32, bs => decodeNum 4 bs
  | .u64, bs => decodeNum 8 bs
  | .u256, bs => decodeNum 32 bs
  | .b256, bs => decodeNum 32 bs
  | .bool, bs => match bs with
      | [] => none
      | b :: r => match implBoolByte b with
        | some x => some (.bool x, r)
        | none => none
  | .unit, bs => some (.unit, bs)
  | .strArray n, bs => if bs.length < n then none else some (.bytes (bs.take n), bs.drop n)
  | .array t n, bs => mapSeq (decodeRep (slowDecode t) n bs)
  | .tuple ts, bs => mapSeq (slowDecodes ts bs)
  | .struct ts, bs => mapSeq (slowDecodes ts bs)
  | .enum ts, bs => match takeNat 8 bs with
      | some (tag, r) => slowDecodeVariant ts tag tag r
      | none => none
  | .vec t, bs => match takeNat 8 bs with
      | some (len, r) => mapSeq (decodeRep (slowDecode t) len r)
      | none => none
  | .bytes, bs => decodeLenPrefixed bs
  | .string, bs => decodeLenPrefixed bs
  | .strSlice, bs => decodeLenPrefixed bs
  | .rawSlice, bs => decodeLenPrefixed bs
  | .trivialBool, bs => mapSeq (decodeRep (decodeNum 8) 1 bs)
  | .trivialEnum t, bs => mapSeq (decodeRep (slowDecode t) 1 bs)
def slowDecodes : List Ty → Dec (List Val)
  | [], bs => some ([], bs)
  | t :: ts, bs => match slowDecode t bs with
    | none => none
    | some (v, r) => match slowDecodes ts r with
      | none => none
      | some (vs, r') => some (v :: vs, r')
def slowDecodeVariant : List Ty → Nat → Nat → Dec Val
  | [], _, _, _ => none
  | t :: _, 0, tag, bs => match slowDecode t bs with
    | some (p, r) => some (.variant tag p, r)
    | none => none
  | _ :: ts, i + 1, tag, bs => slowDecodeVariant ts i tag bs
end

/-- `abi_decode::<T>(bytes)` as implemented: a raw copy of `__size_of::<T>()` bytes reinterpreted as a `T` when `T`
is classified trivially decodable (bytes past the end of a short buffer are whatever follows it in memory: `none`),
the decoder otherwise. (`Vec<T>`'s own element fast path coincides with the decoder for every `T` that the tables
classify as trivially decodable when `C10_decode` holds; it is not modelled separately.) -/
def implDecode (t : Ty) (bs : List UInt8) : Option Val :=
  if CodecTrivial.decodeFastPath && isDecodeTrivial t then
    (if bs.length < sizeRT t then none else fromImage t (bs.take (sizeRT t)))
  else match slowDecode t bs with
    | some (v, _) => some v
    | none => none

/-! ## decidable predicates evaluated by the drivers on the IMPLEMENTATION's results -/

def beqBytes (a b : List UInt8) : Bool := a == b

/-- C09 on one observation: the bytes the program logged for `v : t` (with `t` as described by the JSON ABI) and the
bytes of the plain `abi_encode` path are the canonical encoding. -/
def propEncode (t : Ty) (v : Val) (logged slow : List UInt8) : Bool :=
  beqBytes logged (encode t v) && beqBytes slow (encode t v)

/-- C10 on one observation: if the program says the type is trivially encodable (decodable), the memory bytes of the
value are its canonical encoding. -/
def propTrivial (t : Ty) (v : Val) (trivE trivD : Bool) (mem : List UInt8) : Bool :=
  (!trivE || beqBytes mem (encode t v)) && (!trivD || beqBytes mem (encode t v))

/-- result of decoding in the VM: re-encoded value, or revert -/
inductive DecObs where
  | ok (reenc : List UInt8)
  | revert
deriving Repr

/-- C09 (round trip) + C10 (invalid patterns revert) on one decode observation. `bs` is at least as long as every
read the decoder performs (the harness only builds canonical encodings, possibly with a `bool` byte / tag word
replaced, possibly followed by extra bytes). -/
def propDecode (t : Ty) (bs : List UInt8) (obs : DecObs) : Bool :=
  match decode t bs, obs with
  | some (v, _), .ok re => beqBytes re (encode t v)
  | some _, .revert => false
  | none, .revert => true
  | none, .ok _ => false

/-- does the real memory agree with the model image on every determined byte? -/
def imageMatches : List MByte → List UInt8 → Bool
  | [], [] => true
  | none :: r, _ :: s => imageMatches r s
  | some a :: r, b :: s => a == b && imageMatches r s
  | _, _ => false

end SwayVerif.Abi
