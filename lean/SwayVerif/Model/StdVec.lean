import SwayVerif.Model.Word
/-!
# Transcriptions of `vec.sw`, `bytes.sw`, `string.sw` (import-free)

`Vec<T>` is `{ buf: RawVec { ptr, cap }, len }`. The heap allocation `ptr` points to is modelled as the
list of its cells (`buf`, one `Nat` per element; `alloc` zero-fills). An access outside the allocation is
the explicit outcome `.panic .outOfAllocation` — in the VM it would silently touch foreign memory — and
`vec_refines_list` shows it cannot happen when `len ≤ cap = buf.length`.

Element type: the harness uses `Vec<u64>` and `Bytes` (cells are `u8`). `Bytes` shares the text of
`push/pop/get/set/insert/remove/swap/clear/len/is_empty/resize` with `Vec` (pointer arithmetic in bytes
instead of elements), so those reuse the `Vec` transcriptions; `append`, `split_at` are `Bytes`-only.
`String` is `{ bytes: Bytes }` and forwards everything.

Not modelled: `len`/`cap` arithmetic overflowing 64 bits (needs more than the VM's 64 MiB of memory),
memory exhaustion (`aloc` panics with `MemoryOverflow` far earlier), aliasing between a vector and its
copies (Sway copies the `{ptr,cap,len}` triple; the harness never uses a stale copy).
-/
namespace SwayVerif.StdVec
open SwayVerif.Word

def FAILED_ASSERT : Nat := 0xffffffffffff0004
def assert (c : Bool) : Res Unit := if c then .ok () else .revert FAILED_ASSERT

structure Vec where
  buf : List Nat
  cap : Nat
  len : Nat
  deriving DecidableEq, Repr

/-- `alloc::<T>(n)` -/
def alloc (n : Nat) : List Nat := List.replicate n 0

/-- `realloc::<T>(ptr, count, new_count)` -/
def realloc (buf : List Nat) (count newCount : Nat) : List Nat :=
  if count < newCount then
    if 0 < count then buf.take count ++ alloc (newCount - count) else alloc newCount
  else buf

/-- `ptr.add::<T>(i).read::<T>()` -/
def read (buf : List Nat) (i : Nat) : Res Nat :=
  match buf[i]? with
  | some x => .ok x
  | none => .panic .outOfAllocation

/-- `ptr.add::<T>(i).write::<T>(x)` -/
def write (buf : List Nat) (i x : Nat) : Res (List Nat) :=
  if i < buf.length then .ok (buf.set i x) else .panic .outOfAllocation

namespace Vec

/-- `Vec::new()` -/
def new : Vec := ⟨alloc 0, 0, 0⟩
/-- `Vec::with_capacity(c)` -/
def withCapacity (c : Nat) : Vec := ⟨alloc c, c, 0⟩

/-- `RawVec::grow` -/
def grow (v : Vec) : Vec :=
  let newCap := if v.cap = 0 then 1 else 2 * v.cap
  ⟨realloc v.buf v.cap newCap, newCap, v.len⟩

def push (v : Vec) (x : Nat) : Res Vec := do
  let v := if v.len = v.cap then grow v else v
  let buf ← write v.buf v.len x
  pure ⟨buf, v.cap, v.len + 1⟩

def clear (v : Vec) : Vec := ⟨v.buf, v.cap, 0⟩

def get (v : Vec) (index : Nat) : Res (Option Nat) :=
  if v.len ≤ index then pure none
  else do
    let x ← read v.buf index
    pure (some x)

/-- `while i < self.len - 1 { buf[i] = buf[i+1]; i += 1 }`, `n` = iterations left -/
def removeLoop : Nat → Nat → List Nat → Res (List Nat)
  | 0, _, buf => pure buf
  | n + 1, i, buf => do
    let x ← read buf (i + 1)
    let buf ← write buf i x
    removeLoop n (i + 1) buf

def remove (v : Vec) (index : Nat) : Res (Vec × Nat) := do
  assert (decide (index < v.len))
  let ret ← read v.buf index
  let buf ← if 1 < v.len then removeLoop (v.len - 1 - index) index v.buf else pure v.buf
  pure (⟨buf, v.cap, v.len - 1⟩, ret)

/-- `while i > index { buf[i] = buf[i-1]; i -= 1 }`, `n` = iterations left -/
def insertLoop : Nat → Nat → List Nat → Res (List Nat)
  | 0, _, buf => pure buf
  | n + 1, i, buf => do
    let x ← read buf (i - 1)
    let buf ← write buf i x
    insertLoop n (i - 1) buf

def insert (v : Vec) (index x : Nat) : Res Vec := do
  assert (decide (index ≤ v.len))
  let v := if v.len = v.cap then grow v else v
  let buf ← insertLoop (v.len - index) v.len v.buf
  let buf ← write buf index x
  pure ⟨buf, v.cap, v.len + 1⟩

def pop (v : Vec) : Res (Vec × Option Nat) :=
  if v.len = 0 then pure (v, none)
  else do
    let x ← read v.buf (v.len - 1)
    pure (⟨v.buf, v.cap, v.len - 1⟩, some x)

def swap (v : Vec) (i j : Nat) : Res Vec := do
  assert (decide (i < v.len))
  assert (decide (j < v.len))
  if i = j then pure v
  else do
    let x ← read v.buf i
    let y ← read v.buf j
    let buf ← write v.buf i y
    let buf ← write buf j x
    pure ⟨buf, v.cap, v.len⟩

def set (v : Vec) (index x : Nat) : Res Vec := do
  assert (decide (index < v.len))
  let buf ← write v.buf index x
  pure ⟨buf, v.cap, v.len⟩

def last (v : Vec) : Res (Option Nat) :=
  if v.len = 0 then pure none
  else do
    let x ← read v.buf (v.len - 1)
    pure (some x)

/-- `while i + self.len < new_len { start_ptr.add(i).write(value); i += 1 }` -/
def fillLoop : Nat → Nat → Nat → List Nat → Res (List Nat)
  | 0, _, _, buf => pure buf
  | n + 1, at_, x, buf => do
    let buf ← write buf at_ x
    fillLoop n (at_ + 1) x buf

def resize (v : Vec) (newLen x : Nat) : Res Vec :=
  if newLen ≤ v.len then pure ⟨v.buf, v.cap, newLen⟩
  else do
    let v : Vec := if v.cap < newLen then ⟨realloc v.buf v.cap newLen, newLen, v.len⟩ else v
    let buf ← fillLoop (newLen - v.len) v.len x v.buf
    pure ⟨buf, v.cap, newLen⟩

/-- `for x in v.iter()`: `get_unchecked(0) .. get_unchecked(len-1)` -/
def iterFrom (buf : List Nat) : Nat → Nat → Res (List Nat)
  | 0, _ => pure []
  | n + 1, i => do
    let x ← read buf i
    let r ← iterFrom buf n (i + 1)
    pure (x :: r)

def iter (v : Vec) : Res (List Nat) := iterFrom v.buf v.len 0

end Vec

/-! ## Operations as data, machine step, `List` specification -/

inductive Op where
  | push (x : Nat)
  | pop
  | get (i : Nat)
  | set (i x : Nat)
  | insert (i x : Nat)
  | remove (i : Nat)
  | swap (i j : Nat)
  | clear
  | len
  | isEmpty
  | last
  | resize (n x : Nat)
  | iter
  /-- `Bytes::append(other)` with `other` given by its contents -/
  | append (xs : List Nat)
  /-- `Bytes::split_at(mid)`: observes both halves, `self` is unchanged -/
  | splitAt (mid : Nat)
  /-- `String::from_ascii_str(lit)` = `Bytes::from(raw_slice)`: a fresh allocation of exactly `len` cells -/
  | fromSlice (xs : List Nat)
  deriving DecidableEq, Repr

def optObs : Option Nat → List Nat
  | some x => [1, x]
  | none => [0]

/-- `Bytes::append_raw_slice` -/
def appendBytes (v : Vec) (xs : List Nat) : Res Vec :=
  if xs.length = 0 then pure v
  else
    let bothLen := v.len + xs.length
    let v : Vec := if v.cap < bothLen then ⟨realloc v.buf v.cap bothLen, bothLen, v.len⟩ else v
    if v.len + xs.length ≤ v.buf.length then
      pure ⟨v.buf.take v.len ++ xs ++ v.buf.drop (v.len + xs.length), v.cap, bothLen⟩
    else .panic .outOfAllocation

/-- `Bytes::split_at`: two fresh allocations filled by `copy_bytes_to` -/
def splitAtBytes (v : Vec) (mid : Nat) : Res (List Nat × List Nat) := do
  assert (decide (mid ≤ v.len))
  if v.len ≤ v.buf.length then
    pure ((v.buf.take mid), (v.buf.drop mid).take (v.len - mid))
  else .panic .outOfAllocation

/-- one operation of the `{buf,cap,len}` machine; second component = what the test logs -/
def step (v : Vec) : Op → Res (Vec × List Nat)
  | .push x => do let v ← v.push x; pure (v, [v.len])
  | .pop => do let (v, r) ← v.pop; pure (v, optObs r)
  | .get i => do let r ← v.get i; pure (v, optObs r)
  | .set i x => do let v ← v.set i x; pure (v, [v.len])
  | .insert i x => do let v ← v.insert i x; pure (v, [v.len])
  | .remove i => do let (v, r) ← v.remove i; pure (v, [r])
  | .swap i j => do let v ← v.swap i j; pure (v, [v.len])
  | .clear => pure (v.clear, [0])
  | .len => pure (v, [v.len])
  | .isEmpty => pure (v, [if v.len = 0 then 1 else 0])
  | .last => do let r ← v.last; pure (v, optObs r)
  | .resize n x => do let v ← v.resize n x; pure (v, [v.len])
  | .iter => do let xs ← v.iter; pure (v, xs ++ [v.len])
  | .append xs => do let v ← appendBytes v xs; pure (v, [v.len])
  | .splitAt mid => do let (a, b) ← splitAtBytes v mid; pure (v, a ++ [a.length] ++ b ++ [b.length])
  | .fromSlice xs => pure (⟨xs, xs.length, xs.length⟩, [xs.length])

/-- the reference: the same operation on `List`; `none` = documented revert -/
def specStep (l : List Nat) : Op → Option (List Nat × List Nat)
  | .push x => some (l ++ [x], [l.length + 1])
  | .pop => some (l.dropLast, optObs l.getLast?)
  | .get i => some (l, optObs l[i]?)
  | .set i x => if i < l.length then some (l.set i x, [l.length]) else none
  | .insert i x => if i ≤ l.length then some (l.insertIdx i x, [l.length + 1]) else none
  | .remove i => match l[i]? with
    | some x => some (l.eraseIdx i, [x])
    | none => none
  | .swap i j => match l[i]?, l[j]? with
    | some x, some y => some ((l.set i y).set j x, [l.length])
    | _, _ => none
  | .clear => some ([], [0])
  | .len => some (l, [l.length])
  | .isEmpty => some (l, [if l.length = 0 then 1 else 0])
  | .last => some (l, optObs l.getLast?)
  | .resize n x => some (if n ≤ l.length then l.take n else l ++ List.replicate (n - l.length) x, [n])
  | .iter => some (l, l ++ [l.length])
  | .append xs => some (l ++ xs, [l.length + xs.length])
  | .splitAt mid => if mid ≤ l.length then some (l, l.take mid ++ [mid] ++ l.drop mid ++ [l.length - mid]) else none
  | .fromSlice xs => some (xs, [xs.length])

/-- abstraction function and representation invariant -/
def abs (v : Vec) : List Nat := v.buf.take v.len
def inv (v : Vec) : Prop := v.len ≤ v.cap ∧ v.buf.length = v.cap

/-- run a whole sequence: observations so far, and whether/where it reverted -/
def run (v : Vec) : List Op → List Nat × Option (Res Unit)
  | [] => ([], none)
  | op :: ops => match step v op with
    | .ok (v', o) => let (os, r) := run v' ops; (o ++ os, r)
    | .revert c => ([], some (.revert c))
    | .panic p => ([], some (.panic p))
    | .fuel => ([], some .fuel)

def specRun (l : List Nat) : List Op → List Nat × Bool
  | [] => ([], false)
  | op :: ops => match specStep l op with
    | some (l', o) => let (os, r) := specRun l' ops; (o ++ os, r)
    | none => ([], true)

end SwayVerif.StdVec
