import SwayVerif.Model.Proc
/-!
# Model of `forc-util/src/fs_locking.rs` (`PidFileLocking`) — C25

Shared store: ONE flag file in `~/.forc/.lsp-locks/` — a directory entry (`file : Option Ino`) pointing
to an inode, the inode contents (`data`, indexed by inode number, so a process that holds an open
handle keeps reading/writing the inode after the entry was unlinked or replaced), whether the
directory exists (`dir`), and the pid-activity oracle (`alive`, what `is_pid_active` answers).

Every process runs the Rust functions as a program-counter machine; one `step p` = exactly ONE
file-system operation (the one behind the `verif_step!("<name>")` point of hook H4 at which the real
process is blocked) plus the pure computation up to the next point / the return. `crash p` may happen
at any point. `Variant.orig` is `lock()` as found (`File::create` (truncate) then `write`),
`Variant.fixed` is `lock()` after the `fix:` commit (write a process-private temp file, `rename` into
place; the temp file has extension `tmp`, is ignored by `cleanup_stale_files` and not part of the store).

Operations: `lock`, `release`, `is_locked`, `get_locker_pid`, `cleanup_stale_files`,
`is_file_dirty` (= `PidFileLocking::lsp` (runs cleanup, result ignored) then `is_locked`),
`markDirty` (= `PidFileLocking::lsp(..).lock()`, what `mark_file_as_dirty` does).
-/
namespace SwayVerif.FsLock
open SwayVerif.Proc

abbrev Pid := Nat
abbrev Ino := Nat
abbrev Bytes := List UInt8

inductive Variant | orig | fixed
  deriving DecidableEq, Repr

/-! ## bytes: decimal pids, `str::trim`, `parse::<usize>` -/

def toDecAux : Nat → Nat → Bytes → Bytes
  | 0, _, acc => acc
  | fuel + 1, n, acc =>
    let acc' := UInt8.ofNat (48 + n % 10) :: acc
    if n / 10 = 0 then acc' else toDecAux fuel (n / 10) acc'

/-- `pid.to_string().as_bytes()` -/
def toDec (n : Nat) : Bytes := toDecAux (n + 1) n []

def isWs (b : UInt8) : Bool := (9 ≤ b.toNat && b.toNat ≤ 13) || b.toNat = 32

/-- `str::trim` on ASCII text (White_Space below 0x80: TAB LF VT FF CR SPACE). -/
def trim (s : Bytes) : Bytes := ((s.dropWhile isWs).reverse.dropWhile isWs).reverse

def parseDigits : Bytes → Nat → Option Nat
  | [], acc => some acc
  | b :: r, acc => if 48 ≤ b.toNat ∧ b.toNat ≤ 57 then parseDigits r (acc * 10 + (b.toNat - 48)) else none

def usizeBound : Nat := 2 ^ 64

/-- `str::parse::<usize>`: optional single `+`, at least one digit, only digits, value < 2^64. -/
def stripPlus : Bytes → Bytes
  | 43 :: r => r
  | s => s

def parseUsize (s : Bytes) : Option Nat :=
  match stripPlus s with
  | [] => none
  | d => match parseDigits d 0 with
    | some n => if n < usizeBound then some n else none
    | none => none

/-- `read_to_string`: fails on invalid UTF-8. Modelled for ASCII contents only: any byte ≥ 0x80 is
treated as a failed read (assumption of the correspondence: injected contents are ASCII or invalid UTF-8). -/
def readToString (c : Bytes) : Option Bytes := if c.all (fun b => b.toNat < 128) then some c else none

/-- `contents.trim().parse::<usize>()` after `read_to_string(..).ok()` (a failed read leaves `""`). -/
def pidOfContents (c : Bytes) : Option Nat := parseUsize (trim ((readToString c).getD []))

/-! ## programs -/

inductive Op | lock | release | isLocked | getLockerPid | cleanup | isFileDirty | markDirty
  deriving DecidableEq, Repr

/-- who called `release` -/
inductive RelK | top | lock
  deriving DecidableEq, Repr

/-- who called `get_locker_pid` -/
inductive Ctx
  | glp                 -- the operation `get_locker_pid`
  | isLocked            -- `is_locked` as an operation (also the tail of `is_file_dirty`)
  | release (k : RelK)  -- `is_locked` inside `release`
  | relMsg (k : RelK)   -- the second `get_locker_pid` that formats `release`'s error message
  deriving DecidableEq, Repr

/-- what follows `cleanup_stale_files` -/
inductive Next | done | isLocked | lock
  deriving DecidableEq, Repr

/-- Program counter = the step point the process is blocked at (the file-system operation it performs next). -/
inductive Pc
  | idle
  | glpOpen (c : Ctx)                 -- `File::open`
  | glpRead (c : Ctx) (h : Ino)       -- `read_to_string` on the handle
  | glpActive (c : Ctx) (pid : Nat)   -- `is_pid_active(pid)`
  | glpRemove (c : Ctx)               -- `remove_file` (owner not active)
  | relRemove (k : RelK)              -- `remove_file` in `release`
  | lkMkdir                           -- `create_dir_all`
  | lkCreate                          -- orig:  `File::create(path)` (create or truncate)
  | lkWrite (h : Ino)                 -- orig:  `write_all(pid)` on the handle
  | lkTmpCreate                       -- fixed: `File::create(tmp)`
  | lkTmpWrite                        -- fixed: `write_all(pid)` to the temp file
  | lkRename                          -- fixed: `rename(tmp, path)`
  | clReadDir (n : Next)              -- `read_dir`
  | clOpen (n : Next)                 -- `File::open(entry)`
  | clRead (n : Next) (h : Ino)       -- `read_to_string`
  | clActive (n : Next) (pid : Nat)   -- `is_pid_active(pid)`
  | clRemove (n : Next)               -- `remove_file(entry)?`
  deriving DecidableEq, Repr

inductive Ret
  | ok | err | bool (b : Bool) | pid (o : Option Nat) | cleaned (n : Nat)
  deriving DecidableEq, Repr

inductive Label | start (p : Pid) (op : Op) | step (p : Pid) | crash (p : Pid)
  deriving DecidableEq, Repr

structure State where
  file : Option Ino
  dir : Bool
  data : List Bytes
  alive : Pid → Bool
  pc : Pid → Pc
  /-- ghost: `lock` returned `Ok` and the process has not begun `release` / another `lock` since -/
  holds : Pid → Bool

def upd {α : Type} (f : Pid → α) (p : Pid) (v : α) : Pid → α := fun q => if q = p then v else f q

def State.setPc (s : State) (p : Pid) (c : Pc) : State := { s with pc := upd s.pc p c }

def State.content (s : State) (h : Ino) : Bytes := s.data.getD h []

/-- `get_locker_pid` finished with result `r` in context `c`. -/
def glpDone (s : State) (p : Pid) (c : Ctx) (r : Option Nat) : State × Option Ret :=
  match c with
  | .glp => (s.setPc p .idle, some (.pid r))
  | .isLocked => (s.setPc p .idle, some (.bool (r.any (· ≠ p))))
  | .release k =>
    if r.any (· ≠ p) then (s.setPc p (.glpOpen (.relMsg k)), none)
    else (s.setPc p (.relRemove k), none)
  | .relMsg _ => (s.setPc p .idle, some .err)

/-- `cleanup_stale_files` finished with result `r`; `lsp()` ignores the result and goes on. -/
def clDone (s : State) (p : Pid) (n : Next) (r : Ret) : State × Option Ret :=
  match n with
  | .done => (s.setPc p .idle, some r)
  | .isLocked => (s.setPc p (.glpOpen .isLocked), none)
  | .lock => (s.setPc p (.glpOpen (.release .lock)), none)

def startPc : Op → Pc
  | .lock => .glpOpen (.release .lock)
  | .release => .glpOpen (.release .top)
  | .isLocked => .glpOpen .isLocked
  | .getLockerPid => .glpOpen .glp
  | .cleanup => .clReadDir .done
  | .isFileDirty => .clReadDir .isLocked
  | .markDirty => .clReadDir .lock

def Op.writes : Op → Bool
  | .lock | .release | .markDirty => true
  | _ => false

/-- One file-system step of process `p` at program counter `c`. -/
def stepPc (v : Variant) (s : State) (p : Pid) : Pc → Option (State × Option Ret)
  | .idle => none
  | .glpOpen c => match s.file with
    | none => some (glpDone s p c none)
    | some h => some (s.setPc p (.glpRead c h), none)
  | .glpRead c h => match pidOfContents (s.content h) with
    | some pid => some (s.setPc p (.glpActive c pid), none)
    | none => some (glpDone s p c none)
  | .glpActive c pid =>
    if s.alive pid then some (glpDone s p c (some pid)) else some (s.setPc p (.glpRemove c), none)
  | .glpRemove c => some (glpDone { s with file := none } p c none)
  | .relRemove k =>
    let s := { s with file := none }
    match k with
    | .top => some (s.setPc p .idle, some .ok)
    | .lock => some (s.setPc p .lkMkdir, none)
  | .lkMkdir =>
    let s := { s with dir := true }
    some (s.setPc p (match v with | .orig => .lkCreate | .fixed => .lkTmpCreate), none)
  | .lkCreate => match v with
    | .fixed => none
    | .orig => match s.file with
      | none => some (({ s with file := some s.data.length, data := s.data ++ [[]] } : State).setPc p (.lkWrite s.data.length), none)
      | some h => some (({ s with data := s.data.set h [] } : State).setPc p (.lkWrite h), none)
  | .lkWrite h => match v with
    | .fixed => none
    | .orig =>
      let s := { s with data := s.data.set h (s.content h ++ toDec p), holds := upd s.holds p true }
      some (s.setPc p .idle, some .ok)
  | .lkTmpCreate => some (s.setPc p .lkTmpWrite, none)
  | .lkTmpWrite => some (s.setPc p .lkRename, none)
  | .lkRename =>
    let s := { s with file := some s.data.length, data := s.data ++ [toDec p], holds := upd s.holds p true }
    some (s.setPc p .idle, some .ok)
  | .clReadDir n =>
    if !s.dir then some (clDone s p n .err)
    else match s.file with
      | none => some (clDone s p n (.cleaned 0))
      | some _ => some (s.setPc p (.clOpen n), none)
  | .clOpen n => match s.file with
    | none => some (clDone s p n (.cleaned 0))
    | some h => some (s.setPc p (.clRead n h), none)
  | .clRead n h => match readToString (s.content h) with
    | none => some (clDone s p n (.cleaned 0))
    | some str => match parseUsize (trim str) with
      | some pid => some (s.setPc p (.clActive n pid), none)
      | none => some (s.setPc p (.clRemove n), none)
  | .clActive n pid =>
    if s.alive pid then some (clDone s p n (.cleaned 0)) else some (s.setPc p (.clRemove n), none)
  | .clRemove n => match s.file with
    | none => some (clDone s p n .err)
    | some _ => some (clDone { s with file := none } p n (.cleaned 1))

/-- The labelled transition function. Only live processes act. -/
def exec (v : Variant) (s : State) : Label → Option (State × Option Ret)
  | .start p op =>
    if s.alive p && decide (s.pc p = .idle) then
      let s := if op.writes then { s with holds := upd s.holds p false } else s
      some (s.setPc p (startPc op), none)
    else none
  | .step p => if s.alive p then stepPc v s p (s.pc p) else none
  | .crash p =>
    if s.alive p then some ({ s with alive := upd s.alive p false, pc := upd s.pc p .idle }, none) else none

/-- `lock`'s publishing step(s): the step that makes the flag visible. -/
def Pc.isPublish : Pc → Bool
  | .lkRename | .lkCreate | .lkWrite _ => true
  | _ => false

/-- The schedules covered by `C25_visible_partial`: a publishing step of `lock` is only taken while every
other LIVE process is outside any operation (idle). -/
def isolated (s : State) : Label → Prop
  | .step p => (s.pc p).isPublish = true → ∀ q, q ≠ p → s.alive q = true → s.pc q = .idle
  | _ => True

def initial (s : State) : Prop := (∀ p, s.pc p = .idle) ∧ (∀ p, s.holds p = false)

/-- All interleavings and crash points, any number of processes. Initial store arbitrary. -/
def sys (v : Variant) : TS State where
  init := initial
  step s t := ∃ l r, exec v s l = some (t, r)

/-- Same, restricted to schedules with isolated publishing steps. -/
def sysIso (v : Variant) : TS State where
  init := initial
  step s t := ∃ l r, exec v s l = some (t, r) ∧ isolated s l

/-- The flag of `w` is on disk: the entry exists and the inode holds `w`'s decimal pid. -/
def flagShows (s : State) (w : Pid) : Prop := ∃ h, s.file = some h ∧ s.content h = toDec w

def flagShowsB (s : State) (w : Pid) : Bool := match s.file with
  | some h => s.content h == toDec w
  | none => false

/-- What an `is_locked()` executed atomically by `q` in state `s` would return. -/
def observe (s : State) (q : Pid) : Bool := match s.file with
  | none => false
  | some h => match pidOfContents (s.content h) with
    | some pid => s.alive pid && decide (pid ≠ q)
    | none => false

/-! ## replay helpers (driver, counterexample schedules) -/

def execS (v : Variant) (s : State) (l : Label) : Option State := (exec v s l).map (·.1)

def emptyState (alive : Pid → Bool) : State :=
  { file := none, dir := false, data := [], alive := alive, pc := fun _ => .idle, holds := fun _ => false }

def Pc.name : Pc → String
  | .idle => "idle"
  | .glpOpen _ => "glp.open" | .glpRead _ _ => "glp.read" | .glpActive _ _ => "glp.active"
  | .glpRemove _ => "glp.remove" | .relRemove _ => "rel.remove"
  | .lkMkdir => "lock.mkdir" | .lkCreate => "lock.create" | .lkWrite _ => "lock.write"
  | .lkTmpCreate => "lock.tmpcreate" | .lkTmpWrite => "lock.tmpwrite" | .lkRename => "lock.rename"
  | .clReadDir _ => "cl.readdir" | .clOpen _ => "cl.open" | .clRead _ _ => "cl.read"
  | .clActive _ _ => "cl.active" | .clRemove _ => "cl.remove"

end SwayVerif.FsLock
