import SwayVerif.Model.Asm
/-!
# M-Asm, part 2 — the abstract-instruction optimiser of `sway-core` (C07)

Import-free apart from `Model/Asm.lean` (linked into the native driver).

Modelled code (`sway-core/src/asm_generation/fuel/optimizations/`):
`misc.rs::{remove_sequential_jumps, remove_redundant_moves, remove_redundant_ops}`,
`reachability.rs::{dce, simplify_cfg}`, `mod.rs::optimize` (the pass order and the round loop).
NOT modelled: `constant_propagate.rs`, `const_indexed_aggregates.rs` (they appear in the round loop
as function parameters and are validated per program on the VM only).

An op is what the passes see of a real `Op` (`AOp` of `Model/Asm.lean`): kind, `def_registers`,
`use_registers`, `def_const_registers`, `has_side_effect`. The text form is written by the hook
`sway_core::verif_hooks::asmopt`; it refines the kind of two opcodes `remove_redundant_ops` looks
into: `other "MCP" (some 0)` = `MCP` whose length operand is `$zero`, `other "MCPI" (some n)` =
`MCPI` with immediate `n`.

## The machine

`exec`/`step`/`run` is a small-step semantics of op lists that is PARAMETRIC in the meaning
`Machine.sem` of every op that is not a label, a comment, an unconditional jump or a
jump-if-not-zero; labels are resolved with `labelIndex` (`label_to_index` of the compiler: a later
duplicate wins). What the theorems assume about `sem` is `Respects` below (results depend only on
the registers an op declares to use, only the registers it declares to define change, ops without
side effect neither stop the machine nor touch memory) — stated relative to a set `amb` of
"ambient" registers that every side-effecting op (calls!) may read and write without declaring it
(`$$arg*`, `$$retv`, `$sp`, … — the constant registers other than the flags `$of`, `$err`).
-/
namespace SwayVerif.AsmOpt
open SwayVerif.Asm

/-! ## semantics -/

/-- Result of a non-control op: continue with new registers and memory, or stop the machine
(return, revert, VM panic) with an observable value and the final memory. `M` stands for
everything outside the register file: memory, storage, receipts/logs. -/
inductive Res (V M X : Type) where
  | next (regs : Reg → V) (mem : M)
  | exit (x : X) (mem : M)

structure Machine (V M X : Type) where
  /-- meaning of `move`, `other`, `call`, `rvrt`, `retcall`, `jmpaddr` ops -/
  sem : AOp → (Reg → V) → M → Res V M X
  /-- the test of `jnz` -/
  isZero : V → Bool

/-- the op without its successor list (which depends on the op's position) -/
def core (op : AOp) : AOp := { op with succ := [] }

/-- What one op does locally. -/
inductive Act (V M X : Type) where
  | fall (regs : Reg → V) (mem : M)
  | goto (l : Nat) (regs : Reg → V) (mem : M)
  | exit (x : X) (mem : M)
  | stuck

def act {V M X : Type} (mc : Machine V M X) (op : AOp) (r : Reg → V) (m : M) : Act V M X :=
  match op.kind with
  | .label _ => .fall r m
  | .comment => .fall r m
  | .jump l => .goto l r m
  | .jnz l =>
    match op.uses with
    | [c] => if mc.isZero (r c) then .fall r m else .goto l r m
    | _ => .stuck
  | .jmpaddr | .retcall | .rvrt =>
    -- these leave the op list; an op of this kind that does not stop the machine is stuck
    match mc.sem (core op) r m with
    | .exit x m' => .exit x m'
    | .next _ _ => .stuck
  | _ =>
    match mc.sem (core op) r m with
    | .next r' m' => .fall r' m'
    | .exit x m' => .exit x m'

structure St (V M : Type) where
  pc : Nat
  regs : Reg → V
  mem : M

/-- Final outcome of a run. `stuck`: the program counter left the op list, a jump to a label that
does not exist, a malformed op. -/
inductive Out (M X : Type) where
  | exit (x : X) (mem : M)
  | stuck
deriving DecidableEq, Repr

def step {V M X : Type} (mc : Machine V M X) (P : List AOp) (s : St V M) : St V M ⊕ Out M X :=
  match P[s.pc]? with
  | none => .inr .stuck
  | some op =>
    match act mc op s.regs s.mem with
    | .fall r m => .inl ⟨s.pc + 1, r, m⟩
    | .goto l r m =>
      match labelIndex P l with
      | some t => .inl ⟨t, r, m⟩
      | none => .inr .stuck
    | .exit x m => .inr (.exit x m)
    | .stuck => .inr .stuck

/-- `none` = still running after `fuel` steps. -/
def run {V M X : Type} (mc : Machine V M X) (P : List AOp) : Nat → St V M → Option (Out M X)
  | 0, _ => none
  | fuel + 1, s =>
    match step mc P s with
    | .inl s' => run mc P fuel s'
    | .inr o => some o

/-- successors as the semantics sees them (`fall` → `i+1`, `goto l` → the label) -/
def flowSucc (P : List AOp) (i : Nat) (k : Kind) : List Nat :=
  match k with
  | .jump l => (labelIndex P l).toList
  | .jnz l => (labelIndex P l).toList ++ [i + 1]
  | .jmpaddr | .retcall | .rvrt => []
  | _ => [i + 1]

/-! ## deleting ops -/

/-- keep the ops whose mask bit is `true` -/
def filterMask : List AOp → List Bool → List AOp
  | op :: ops, k :: ks => if k then op :: filterMask ops ks else filterMask ops ks
  | _, _ => []

/-- number of kept ops before position `i` = new position of op `i` -/
def newPos : List Bool → Nat → Nat
  | _, 0 => 0
  | [], _ + 1 => 0
  | k :: ks, i + 1 => (if k then 1 else 0) + newPos ks i

/-! ## `remove_sequential_jumps` -/

/-- `VirtualOp::NOOP` as the dumper prints it (defines `$of`, `$err`; no side effect) -/
def noopOp : AOp :=
  { kind := .other "NOOP" none, defs := [], uses := [], defConst := [.const 2, .const 8], succ := [],
    sideEffect := false }

/-- `Jump {to, Unconditional | NotZero}` directly followed by `Label(to)` -/
def isSeqJump (a b : AOp) : Bool :=
  match a.kind, b.kind with
  | .jump l, .label l' => l == l'
  | .jnz l, .label l' => l == l'
  | _, _ => false

def removeSequentialJumps : List AOp → List AOp
  | a :: b :: rest => (if isSeqJump a b then noopOp else a) :: removeSequentialJumps (b :: rest)
  | l => l

/-! ## `remove_redundant_moves` -/

def allUses (P : List AOp) : List Reg := P.flatMap (·.uses)

/-- `MOVE(dst @ Virtual(_), _)` whose destination is used by no op of the list -/
def isDeadMove (us : List Reg) (op : AOp) : Bool :=
  match op.kind, op.defs with
  | .move, [.virt d] => !(us.contains (.virt d))
  | _, _ => false

def movesRound (P : List AOp) : List AOp :=
  let us := allUses P
  P.map fun op => if isDeadMove us op then noopOp else op

/-- the `loop { … if dead_moves.is_empty() { break } … }` -/
def movesLoop : Nat → List AOp → List AOp
  | 0, P => P
  | fuel + 1, P => if P.any (isDeadMove (allUses P)) then movesLoop fuel (movesRound P) else P

/-- every round turns at least one `MOVE` into a `NOOP`, so `|P| + 1` rounds are enough -/
def removeRedundantMoves (P : List AOp) : List AOp := movesLoop (P.length + 1) P

/-! ## `remove_redundant_ops` -/

/-- `NOOP`, `MOVE a a`, `MCP _ _ $zero`, `MCPI _ _ 0` -/
def isNopCand (op : AOp) : Bool :=
  match op.kind with
  | .move => match op.defs, op.uses with
    | [a], [b] => a == b
    | _, _ => false
  | .other m i => (m == "NOOP") || ((m == "MCP" || m == "MCPI") && i == some 0)
  | _ => false

/-- the guard: the next op of the ORIGINAL list uses none of the constant registers the op defines -/
def nextUsesNone (op : AOp) (rest : List AOp) : Bool :=
  match rest with
  | nxt :: _ => !(op.defConst.any fun r => nxt.uses.contains r)
  | [] => true

def redundantOpsMask : List AOp → List Bool
  | [] => []
  | op :: rest => (!(isNopCand op && nextUsesNone op rest)) :: redundantOpsMask rest

def removeRedundantOps (P : List AOp) : List AOp := filterMask P (redundantOpsMask P)

/-! ## `dce` -/

structure DceSt where
  cur : RSet
  mask : List Bool

/-- One iteration of the reverse loop (`L` = `liveness_analysis(ops, false)`). -/
def dceStep (L : List RSet) (st : DceSt) (x : AOp × Nat) : DceSt :=
  let opDef := x.1.defs ++ x.1.defConst
  match x.1.kind with
  | .jump _ | .jnz _ =>
    -- block boundary: start afresh from the live-out set, add the uses
    { cur := x.1.uses.foldl ins (L.getD x.2 []), mask := true :: st.mask }
  | _ =>
    let dead := (opDef.all fun d => !st.cur.contains d) && !x.1.sideEffect
    let cur' := st.cur.filter fun r => !opDef.contains r
    if dead then { cur := cur', mask := false :: st.mask }
    else { cur := x.1.uses.foldl ins cur', mask := true :: st.mask }

def dceMask (P : List AOp) (L : List RSet) : List Bool :=
  ((indexed P 0).reverse.foldl (dceStep L) { cur := [], mask := [] }).mask

def hasJmpAddr (P : List AOp) : Bool := P.any fun op => op.kind == .jmpaddr

/-- The mask computed by `dce`; `none` = the Rust code panics (a jump to a missing label in
`liveness_analysis`) or the loop bound of the liveness model is exhausted. With a `JumpToAddr`
anywhere the pass gives up. -/
def dceMask? (P : List AOp) : Option (List Bool) :=
  if hasJmpAddr P then some (P.map fun _ => true)
  else do
    let P1 ← withSucc P
    let L ← liveness false P1
    pure (dceMask P1 L)

def dce (P : List AOp) : Option (List AOp) := (dceMask? P).map (filterMask P)

/-! ## `simplify_cfg` -/

def setTrue : List Bool → Nat → List Bool
  | [], _ => []
  | _ :: bs, 0 => true :: bs
  | b :: bs, i + 1 => b :: setTrue bs i

/-- one sweep: every successor of a reached op is reached -/
def reachSweep (P : List AOp) (reach : List Bool) : List Bool :=
  (indexed P 0).foldl (fun acc x =>
    if acc.getD x.2 false then (flowSucc P x.2 x.1.kind).foldl setTrue acc else acc) reach

def reachLoop (P : List AOp) : Nat → List Bool → List Bool
  | 0, reach => reach
  | fuel + 1, reach =>
    let r := reachSweep P reach
    if r == reach then reach else reachLoop P fuel r

/-- the set the worklist of `simplify_cfg` reaches from op `0` -/
def reachable (P : List AOp) : List Bool :=
  reachLoop P (P.length + 1) (setTrue (P.map fun _ => false) 0)

/-- all labels some jump names exist (else `Op::successors` panics) -/
def labelsExist (P : List AOp) : Bool :=
  P.all fun op => match op.kind with
    | .jump l => (labelIndex P l).isSome
    | .jnz l => (labelIndex P l).isSome
    | _ => true

def simplifyCfgMask? (P : List AOp) : Option (List Bool) :=
  if P.isEmpty || hasJmpAddr P then some (P.map fun _ => true)
  else if labelsExist P then some (reachable P) else none

def simplifyCfg (P : List AOp) : Option (List AOp) := (simplifyCfgMask? P).map (filterMask P)

/-! ## checkers (the justification of a concrete rewrite; proved sound in `Props/C07.lean`) -/

def memR (r : Reg) (s : RSet) : Bool := s.contains r

/-- registers whose old value is gone after the op: `def ∪ def_const`; labels, comments and jumps
write nothing (their def sets are empty in every real op list) -/
def kills (op : AOp) : List Reg :=
  match op.kind with
  | .label _ | .comment | .jump _ | .jnz _ => []
  | _ => op.defs ++ op.defConst

/-- a `remove_redundant_ops` candidate whose definitions are among its uses (`NOOP`, `MCP`, `MCPI`
define nothing, `MOVE a a` defines what it reads): such an op can be a no-op at all -/
def nopWf (op : AOp) : Bool := isNopCand op && op.defs.all fun d => op.uses.contains d

/-- Registers an op that is skipped might have written, if skipping it can be justified at all:
a `remove_redundant_ops` candidate changes at most its constant registers (`$of`, `$err`), an op
without side effect at most `def ∪ def_const`. Control-flow ops are never skippable. -/
def skipWrites (op : AOp) : Option (List Reg) :=
  if nopWf op then some op.defConst
  else match op.kind with
    | .move | .other _ _ => if op.sideEffect then none else some (op.defs ++ op.defConst)
    | _ => none

/-- The liveness inequations of the program in which the masked-out ops are skipped, at op `i`
(kills are `def ∪ def_const`), and the justification of skipping it. -/
def delOkAt (amb : Reg → Bool) (P : List AOp) (li lo : List RSet) (i : Nat) (op : AOp) (k : Bool) : Bool :=
  let liI := li.getD i []
  let loI := lo.getD i []
  ((flowSucc P i op.kind).all fun s => (li.getD s []).all fun r => memR r loI)
  && (if k then
        (op.uses.all fun r => memR r liI)
        && (loI.all fun r => memR r (kills op) || memR r liI)
      else
        (loI.all fun r => memR r liI)
        && (match skipWrites op with
            | some w => w.all fun r => !amb r && !memR r loI
            | none => false))

def zip3 (P : List AOp) (ks : List Bool) : List ((AOp × Bool) × Nat) :=
  let rec go : List AOp → List Bool → Nat → List ((AOp × Bool) × Nat)
    | op :: ops, k :: ks, i => ((op, k), i) :: go ops ks (i + 1)
    | _, _, _ => []
  go P ks 0

/-- CHECKER: deleting the ops with mask bit `false` is justified by the liveness tables `li`, `lo`:
every deleted op is skippable and what it may write is neither ambient nor live afterwards. -/
def validDelete (amb : Reg → Bool) (P : List AOp) (ks : List Bool) (li lo : List RSet) : Bool :=
  ks.length == P.length && (zip3 P ks).all fun x => delOkAt amb P li lo x.2 x.1.1 x.1.2

/-- CHECKER: the kept ops are closed under successors and contain op `0`; no `JumpToAddr`. -/
def validUnreach (P : List AOp) (ks : List Bool) : Bool :=
  ks.length == P.length && (ks.getD 0 true) &&
  (zip3 P ks).all fun x => !x.1.2 || (flowSucc P x.2 x.1.1.kind).all fun s => ks.getD s true

/-- liveness tables of the program with the masked-out ops skipped and `def_const` killing:
the certificate handed to `validDelete` -/
def certProg (P : List AOp) (ks : List Bool) : List AOp :=
  (P.zip ks).map fun x =>
    if x.2 then { x.1 with defs := kills x.1 } else { x.1 with defs := [], uses := [] }

def certLive (P : List AOp) (ks : List Bool) : Option (List RSet × List RSet) := do
  let Q ← withSucc (certProg P ks)
  let st ← livenessFull false Q
  pure (st.liveIn, st.liveOut)

/-- `validDelete` with the computed certificate -/
def validDeleteAuto (amb : Reg → Bool) (P : List AOp) (ks : List Bool) : Bool :=
  match certLive P ks with
  | some (li, lo) => validDelete amb P ks li lo
  | none => false

/-- CHECKER for an in-place replacement of ops by `NOOP` (`remove_sequential_jumps`): the op list
`Q` is `P` with some sequential jumps replaced; at each replaced position the jump's label is the
next op and what `NOOP` writes is neither ambient nor live there. `li`, `lo` solve the liveness
inequations of `P`. -/
def seqOkAt (amb : Reg → Bool) (P : List AOp) (li lo : List RSet) (i : Nat) (op q : AOp) : Bool :=
  let liI := li.getD i []
  let loI := lo.getD i []
  ((flowSucc P i op.kind).all fun s => (li.getD s []).all fun r => memR r loI)
  && (op.uses.all fun r => memR r liI)
  && (loI.all fun r => memR r (kills op) || memR r liI)
  && (q == op ||
      (q == noopOp
       && (match op.kind with
           | .jump l => labelIndex P l == some (i + 1)
           | .jnz l => labelIndex P l == some (i + 1) && op.uses.length == 1
           | _ => false)
       && noopOp.defConst.all fun r => !amb r && !memR r (li.getD (i + 1) [])))

def zipQ (P Q : List AOp) : List ((AOp × AOp) × Nat) :=
  let rec go : List AOp → List AOp → Nat → List ((AOp × AOp) × Nat)
    | op :: ops, q :: qs, i => ((op, q), i) :: go ops qs (i + 1)
    | _, _, _ => []
  go P Q 0

def validSeqJump (amb : Reg → Bool) (P Q : List AOp) (li lo : List RSet) : Bool :=
  Q.length == P.length && (zipQ P Q).all fun x => seqOkAt amb P li lo x.2 x.1.1 x.1.2

def validSeqJumpAuto (amb : Reg → Bool) (P Q : List AOp) : Bool :=
  match certLive P (P.map fun _ => true) with
  | some (li, lo) => validSeqJump amb P Q li lo
  | none => false

/-- CHECKER for `remove_redundant_moves`: `Q` is `P` with some `MOVE`s replaced by `NOOP`; each
replaced `MOVE` has no side effect, defines the same constant registers as `NOOP` (`$of`, `$err`) and
its destination is a virtual, non-ambient register that no op of the RESULT reads. -/
def validMoves (amb : Reg → Bool) (P Q : List AOp) : Bool :=
  let us := allUses Q
  Q.length == P.length && (P.zip Q).all fun x =>
    x.2 == x.1 || (x.2 == noopOp && !x.1.sideEffect && x.1.defConst == noopOp.defConst && match x.1.kind, x.1.defs with
      | .move, [d] => d.isVirt && !amb d && !us.contains d
      | _, _ => false)

/-- the constant registers other than the flags `$of` (c2) and `$err` (c8) -/
def ambReal : Reg → Bool
  | .const n => n != 2 && n != 8
  | .virt _ => false

/-! ## certified passes and the round loop of `optimize` -/

/-- a pass together with the check that justifies its result (`none` = not justified) -/
def seqJumpC (amb : Reg → Bool) (P : List AOp) : Option (List AOp) :=
  let Q := removeSequentialJumps P
  if validSeqJumpAuto amb P Q then some Q else none

def redundantMovesC (amb : Reg → Bool) (P : List AOp) : Option (List AOp) :=
  let Q := removeRedundantMoves P
  if validMoves amb P Q then some Q else none

def redundantOpsC (amb : Reg → Bool) (P : List AOp) : Option (List AOp) :=
  let ks := redundantOpsMask P
  if validDeleteAuto amb P ks then some (filterMask P ks) else none

def dceC (amb : Reg → Bool) (P : List AOp) : Option (List AOp) :=
  match dceMask? P with
  | some ks => if validDeleteAuto amb P ks then some (filterMask P ks) else none
  | none => none

def simplifyCfgC (P : List AOp) : Option (List AOp) :=
  match simplifyCfgMask? P with
  | some ks => if validUnreach P ks then some (filterMask P ks) else none
  | none => none

abbrev Pass := List AOp → Option (List AOp)

def seqPasses : List Pass → Pass
  | [], P => some P
  | f :: fs, P => (f P).bind (seqPasses fs)

/-- `optimize(_, OptLevel::Opt0)`: one application of the seven passes in this order.
`cidx`, `cprop` = the two passes that are not modelled. -/
def optimize0 (amb : Reg → Bool) (cidx cprop : Pass) : Pass :=
  seqPasses [cidx, cprop, dceC amb, simplifyCfgC, seqJumpC amb,
    redundantMovesC amb, redundantOpsC amb]

/-- `optimize(_, OptLevel::Opt1)`: up to `rounds` (`MAX_OPT_ROUNDS` = 10) double applications;
stop when the op count no longer shrinks, never accept a longer result. -/
def optLoop (f : Pass) : Nat → Pass
  | 0, P => some P
  | n + 1, P =>
    match (f P).bind f with
    | none => none
    | some Q =>
      if Q.length = P.length then some Q
      else if Q.length > P.length then some P
      else optLoop f n Q

def maxOptRounds : Nat := 10

def optimize1 (amb : Reg → Bool) (cidx cprop : Pass) : Pass :=
  optLoop (optimize0 amb cidx cprop) maxOptRounds

end SwayVerif.AsmOpt
