import SwayVerif.Generated.DedupHashTable
/-!
# fn-dedup: which instruction fields reach the hasher

Definitions over the tables regenerated from `sway-ir/src/instruction.rs`, `asm.rs` (DECLARED non-operand
fields per instruction variant) and `sway-ir/src/optimize/fn_dedup.rs::hash_fn` (HASHED fields per arm).
Import-free apart from the generated table (which is import-free itself), so the driver can link it.
-/
namespace SwayVerif.DedupFields
open SwayVerif.Generated.DedupHashTable

def hashedOf (a : Arm) : List Fld := (hashed.filter fun p => p.1 = a).flatMap fun p => p.2
def declaredOf (a : Arm) : List Fld := (declared.filter fun p => p.1 = a).flatMap fun p => p.2

/-- Reviewed exceptions: declared non-operand fields that `hash_fn` does not feed to the hasher.

* `AsmBlock.pos0_body_metadata` — span metadata of an asm instruction, no run-time meaning.
* `Log.log_data`                — `LogEventData` is computed by `ir_generation` from the logged TYPE
  (`#[event]`/`#[indexed]` attributes); the log id operand (hashed by content) identifies that type, so
  for IR produced by the compiler equal hashed parts imply equal `log_data`. Hand-written IR can
  differ in `log_data` only and IS merged (replayed by `sv_c03 --dedup`, probe `Log log_data`).
* `ContractCall.return_type`    — under the default (new) encoding always the encoded-bytes slice; under
  the legacy encoding two calls that agree on selector name and all operands but differ in return type
  are merged when nothing else in the two functions depends on the result type (probe
  `ContractCall return_type`). -/
def reviewedUnhashed : List (Arm × Fld) :=
  [(.AsmBlock, .pos0_body_metadata), (.Log, .log_data), (.ContractCall, .return_type)]

def fieldsComplete : Bool :=
  declared.all fun p => p.2.all fun fld => (hashedOf p.1).contains fld || reviewedUnhashed.contains (p.1, fld)

/-- The facts the soundness argument of the hash needs (all of them). -/
def requiredFacts : List Fact := allFacts

def factsComplete : Bool := requiredFacts.all fun x => facts.contains x

end SwayVerif.DedupFields
