/-!
# Crash-point model of fetching a git dependency into the forc cache

Code modelled (all in `/repo/forc-pkg/src/source/git/mod.rs`, reached from `source::Source::pin`):

* `pin` → `with_tmp_git_repo`            (resolve the reference in a temporary clone)
* `<Pinned as Fetch>::fetch`             (`path_lock`, `lock.write()`, `if !repo_path.exists() { fetch(..) }`,
                                          then `find_within` + `PackageManifestFile::from_file`)
* `fetch` → `with_tmp_git_repo`          (checkout of the pinned commit)
* the same decision taken from a `Forc.lock` (`pkg.rs::validate_graph` → `<Pinned as DepPath>::dep_path`
  → `find_within`, `PackageManifestFile::from_dir`, `program_type`)

Import-free (core Lean only): the driver is linked as a native executable.

## State
The part of the file system the next build looks at:
* `final`  — `~/.forc/git/checkouts/<name>-<urlhash>/<commit>` (`commit_path`), the directory whose
             *existence* makes `Fetch::fetch` skip fetching;
* `stage`  — `~/.forc/git/checkouts/tmp/<fetch_id>-<name>-<urlhash>/checkout`, the staging directory of
             the fixed `fetch` (inside this process' temporary clone);
* `tmp`    — whether this process' temporary clone directory exists;
* `guard`  — whether the `scopeguard` of `with_tmp_git_repo` is armed (it removes the temporary clone
             when the function is left by `?`; it does NOT run when the process dies).
A tree is: does the directory exist, one `FileSt` per file of the commit in checkout order
(libgit2 writes blobs in index order, truncating with `O_CREAT|O_TRUNC` then writing), and the state of
the `.forc_index` marker file.

## Failures
`partials op s` lists the states a step can leave when it does not complete (no effect, the modelled
intermediate state, full effect). A *crash* leaves such a state as is. An *I/O error* leaves such a state,
then unwinds with `?`: the only cleanup in the code is the scope guard (`onError`).
Ignored errors (`let _ = remove_dir_all(..)`) only concern directories that already exist; the caller
excludes that for `final` (`!repo_path.exists()` under the write lock) and `fetch_id` is unique per
process and instant, so they are no-ops here (documented assumption).
-/
namespace SwayVerif.Fetch

inductive FileSt
  | absent
  | trunc     -- created but not (fully) written: what `open(O_CREAT|O_TRUNC)` + a failed `write` leaves
  | complete
  deriving DecidableEq, Repr

structure Tree where
  present : Bool
  files : List FileSt
  marker : FileSt
  deriving DecidableEq, Repr

/-- the directory does not exist -/
def Tree.gone : Tree := ⟨false, [], .absent⟩
/-- the directory was just created: no file of the `n` files of the commit yet -/
def Tree.fresh (n : Nat) : Tree := ⟨true, List.replicate n .absent, .absent⟩
/-- the complete checkout of the commit (`n` files) with its `.forc_index` -/
def Tree.full (n : Nat) : Tree := ⟨true, List.replicate n .complete, .complete⟩

def Tree.setFile (t : Tree) (i : Nat) (v : FileSt) : Tree :=
  if t.present then { t with files := t.files.set i v } else t

def Tree.setMarker (t : Tree) (v : FileSt) : Tree :=
  if t.present then { t with marker := v } else t

structure St where
  final : Tree
  stage : Tree
  tmp : Bool
  guard : Bool
  deriving DecidableEq, Repr

/-- Start of a build in a fresh process whose `final` directory does not exist. -/
def init : St := ⟨Tree.gone, Tree.gone, false, false⟩

inductive Target
  | final
  | stage
  deriving DecidableEq, Repr

def St.tree (s : St) : Target → Tree
  | .final => s.final
  | .stage => s.stage

def St.setTree (s : St) (t : Target) (x : Tree) : St :=
  match t with
  | .final => { s with final := x }
  | .stage => { s with stage := x }

/-- Names of the H5 fault points (`verif_fault!("…")` / `checkout_progress`) in the code. -/
inductive Pt
  | tmpRepoBegin | tmpRepoCleared | tmpRepoInited | tmpRepoFetched | tmpRepoUsed
  | lockFileCreated | fetchNeeded | headSet
  | stagingDirCreated | checkoutProgress | checkoutDone | indexFileWritten
  | checkoutDirRemoved | checkoutParentCreated | checkoutPublished | fetchDone
  | checkoutDirCreated   -- only in the code before the fix
  deriving DecidableEq, Repr

def Pt.name : Pt → String
  | .tmpRepoBegin => "tmp_repo_begin"
  | .tmpRepoCleared => "tmp_repo_cleared"
  | .tmpRepoInited => "tmp_repo_inited"
  | .tmpRepoFetched => "tmp_repo_fetched"
  | .tmpRepoUsed => "tmp_repo_used"
  | .lockFileCreated => "lock_file_created"
  | .fetchNeeded => "fetch_needed"
  | .headSet => "head_set"
  | .stagingDirCreated => "staging_dir_created"
  | .checkoutProgress => "checkout_progress"
  | .checkoutDone => "checkout_done"
  | .indexFileWritten => "index_file_written"
  | .checkoutDirRemoved => "checkout_dir_removed"
  | .checkoutParentCreated => "checkout_parent_created"
  | .checkoutPublished => "checkout_published"
  | .fetchDone => "fetch_done"
  | .checkoutDirCreated => "checkout_dir_created"

/-- One step of the code. `point` is a fault point (no effect). -/
inductive Op
  | point (pt : Pt) (k : Nat)
  | lockFile                       -- `path_lock`: `create_dir_all(~/.forc/.locks)`, `File::create(lock file)`
  | tmpClear                       -- `if repo_dir.exists() { let _ = remove_dir_all(&repo_dir) }`
  | guardOn                        -- `scopeguard::guard(&repo_dir, remove_dir_all)`
  | tmpInit                        -- `git2::Repository::init(&repo_dir)`
  | tmpFetch                       -- `remote_anonymous(url).fetch(refspecs)` (objects inside `repo_dir/.git`)
  | setHead                        -- `repo.set_head_detached(id)`
  | rmFinal                        -- `if path.exists() { let _ = fs::remove_dir_all(&path) }`
  | mkdir (t : Target)             -- `fs::create_dir_all(..)?`
  | mkParent                       -- `fs::create_dir_all(path.parent())?`
  | writeFile (t : Target) (i : Nat)   -- libgit2 `checkout_head`: blob `i` of the commit
  | checkoutEnd                    -- libgit2 `checkout_head`: write the temporary repo's index, return
  | writeMarker (t : Target)       -- `fs::write(<dir>/.forc_index, json)?`
  | publish                        -- `fs::rename(&staging_path, &path)?`
  | scopeEnd                       -- the guard runs on the normal way out of `with_tmp_git_repo`
  deriving DecidableEq, Repr

def dropTmp (s : St) : St := { s with tmp := false, stage := Tree.gone }

/-- Complete effect of a step (`n` = number of files in the commit). -/
def exec (n : Nat) : Op → St → St
  | .point _ _, s => s
  | .lockFile, s => s
  | .tmpFetch, s => s
  | .setHead, s => s
  | .mkParent, s => s
  | .checkoutEnd, s => s
  | .tmpClear, s => if s.tmp then dropTmp s else s
  | .guardOn, s => { s with guard := true }
  | .tmpInit, s => { s with tmp := true }
  | .rmFinal, s => if s.final.present then { s with final := Tree.gone } else s
  | .mkdir .final, s => if s.final.present then s else { s with final := Tree.fresh n }
  | .mkdir .stage, s => if s.stage.present then s else { s with stage := Tree.fresh n, tmp := true }
  | .writeFile t i, s => s.setTree t ((s.tree t).setFile i .complete)
  | .writeMarker t, s => s.setTree t ((s.tree t).setMarker .complete)
  | .publish, s =>
    if s.stage.present && !s.final.present then { s with final := s.stage, stage := Tree.gone } else s
  | .scopeEnd, s => { dropTmp s with guard := false }

/-- States a step can leave behind when it is interrupted or fails: no effect, the modelled
intermediate state, full effect. `rename` (publish) and `mkdir` are atomic. -/
def partials (n : Nat) (op : Op) (s : St) : List St :=
  match op with
  | .writeFile t i => [s, s.setTree t ((s.tree t).setFile i .trunc), exec n op s]
  | .writeMarker t => [s, s.setTree t ((s.tree t).setMarker .trunc), exec n op s]
  | .rmFinal =>
    if s.final.present then
      [s, { s with final := { s.final with files := s.final.files.map fun _ => .absent, marker := .absent } },
       exec n op s]
    else [s]
  | .tmpClear => if s.tmp then [s, { s with stage := Tree.gone }, exec n op s] else [s]
  | .scopeEnd => [s, { s with stage := Tree.gone }, exec n op s]
  | _ => [s, exec n op s]

/-- The `?` path out of `with_tmp_git_repo` / `fetch` / `Fetch::fetch`: only the scope guard acts. -/
def onError (s : St) : St := if s.guard then { dropTmp s with guard := false } else s

def run (n : Nat) (ops : List Op) (s : St) : St := ops.foldl (fun s o => exec n o s) s

/-! ## The programs -/

/-- `with_tmp_git_repo` up to the call of the user function; `k` = how often it was entered before. -/
def tmpRepoPrologue (k : Nat) : List Op :=
  [.point .tmpRepoBegin k, .tmpClear, .point .tmpRepoCleared k, .guardOn, .tmpInit,
   .point .tmpRepoInited k, .tmpFetch, .point .tmpRepoFetched k]

/-- `with_tmp_git_repo` after the user function returned `Ok`. -/
def tmpRepoEpilogue (k : Nat) : List Op := [.point .tmpRepoUsed k, .scopeEnd]

/-- `pin`: clone into the temporary repo, resolve the reference (read only). -/
def pinPhase : List Op := tmpRepoPrologue 0 ++ tmpRepoEpilogue 0

/-- libgit2 `checkout_head` into `t` with the progress callback of hook H5. -/
def checkoutLoop (t : Target) (k : Nat) : List Op :=
  (List.range k).flatMap fun i => [.point .checkoutProgress i, .writeFile t i]

def checkoutFiles (t : Target) (n : Nat) : List Op :=
  checkoutLoop t n ++ [.point .checkoutProgress n, .checkoutEnd]

/-- `Fetch::fetch` before the call of `fetch`. -/
def fetchEntry : List Op := [.lockFile, .point .lockFileCreated 0, .point .fetchNeeded 0]

/-- The closure of the fixed `fetch`, before libgit2's checkout … -/
def fixedClosurePre : List Op :=
  [.setHead, .point .headSet 0, .mkdir .stage, .point .stagingDirCreated 0]

/-- … between the checkout and the rename … -/
def fixedClosureMid : List Op :=
  [.point .checkoutDone 0, .writeMarker .stage, .point .indexFileWritten 0,
   .rmFinal, .point .checkoutDirRemoved 0, .mkParent, .point .checkoutParentCreated 0]

/-- … and after the rename. -/
def fixedClosurePost : List Op := [.point .checkoutPublished 0]

/-- The fixed code: everything before the rename … -/
def fixedBeforePublish (n : Nat) : List Op :=
  pinPhase ++ fetchEntry ++ tmpRepoPrologue 1 ++ fixedClosurePre ++
  checkoutFiles .stage n ++ fixedClosureMid

/-- … and after it. -/
def fixedAfterPublish : List Op :=
  fixedClosurePost ++ tmpRepoEpilogue 1 ++ [.point .fetchDone 0]

/-- `Source::pin` for a git dependency whose checkout does not exist (code after the `fix:`). -/
def progFixed (n : Nat) : List Op := fixedBeforePublish n ++ .publish :: fixedAfterPublish

/-- The same for the code before the fix: checkout straight into `commit_path`, marker last. -/
def progOrig (n : Nat) : List Op :=
  pinPhase ++ fetchEntry ++ tmpRepoPrologue 1 ++
  [.setHead, .point .headSet 0, .rmFinal, .point .checkoutDirRemoved 0,
   .mkdir .final, .point .checkoutDirCreated 0] ++
  checkoutFiles .final n ++
  [.point .checkoutDone 0, .writeMarker .final, .point .indexFileWritten 0] ++
  tmpRepoEpilogue 1 ++ [.point .fetchDone 0]

/-! ## Failures -/

inductive Kind
  | crash   -- the process dies (kill, power loss of the process, abort): nothing else runs
  | err     -- the step returns an I/O error: `?` propagation, scope guard
  deriving DecidableEq, Repr

def settle : Kind → St → St
  | .crash, s => s
  | .err, s => onError s

/-- All states a failure of kind `k` in step number `p` of `prog` can leave. -/
def failStates (n : Nat) (prog : List Op) (s0 : St) (p : Nat) (k : Kind) : List St :=
  match prog[p]? with
  | none => []
  | some op => (partials n op (run n (prog.take p) s0)).map (settle k)

/-- Every state any failure anywhere in `ops` (started in `s`) can leave, before settling. -/
def failStatesFrom (n : Nat) : List Op → St → List St
  | [], _ => []
  | op :: rest, s => partials n op s ++ failStatesFrom n rest (exec n op s)

/-! ## The next build -/

inductive Next
  | refetch    -- fetches the commit again
  | complete   -- builds on the existing directory, which is the complete checkout
  | usesPartial -- builds on the existing directory, which is NOT the complete checkout
  | error      -- fails (and will fail again: the directory stays)
  deriving DecidableEq, Repr

/-- `Fetch::fetch`: `!repo_path.exists()`; with a lock file: `dep_path`/`find_within` fails on a
missing directory, the node is dropped from the graph and pinned+fetched again. -/
def needsFetch (s : St) : Bool := !s.final.present

/-- What the next build needs from an existing directory to go on: `find_within` must find a parsable
`Forc.toml` (file `m`) with the package name, `validate` wants the entry file (file `e`) to exist and
`program_type` parses it. -/
def usable (m e : Nat) (t : Tree) : Bool :=
  decide (t.files[m]? = some .complete) && decide (t.files[e]? = some .complete)

/-- A fresh later build (new process) looking at the state a failure left. -/
def nextBuild (n m e : Nat) (s : St) : Next :=
  if needsFetch s then .refetch
  else if usable m e s.final then
    (if s.final.files = List.replicate n .complete then .complete else .usesPartial)
  else .error

/-- The property's predicate, evaluated by the driver on the IMPLEMENTATION's observed outcome. -/
def propHolds (next : String) : Bool := next == "refetch" || next == "complete"

/-- What a new process inherits: only `final` (its own temporary clone has a new `fetch_id`). -/
def restart (s : St) : St := ⟨s.final, Tree.gone, false, false⟩

/-! ## Executable view used by the driver -/

def FileSt.letter : FileSt → Char
  | .absent => 'a'
  | .trunc => 'p'
  | .complete => 'c'

def Tree.summary (t : Tree) : String :=
  if t.present then String.ofList (t.files.map FileSt.letter ++ ['.', t.marker.letter]) else "-"

def St.summary (s : St) : String :=
  s!"F:{s.final.summary},S:{s.stage.summary},T:{if s.tmp then "1" else "0"}"

def Next.name : Next → String
  | .refetch => "refetch"
  | .complete => "complete"
  | .usesPartial => "partial"
  | .error => "error"

/-- The fault points of a program in the order they are passed, as `name#k`. -/
def pointNames (prog : List Op) : List String :=
  prog.filterMap fun
    | .point pt k => some s!"{pt.name}#{k}"
    | _ => none

/-- index of the fault point called `name` in the program -/
def findPoint (prog : List Op) (name : String) : Option Nat :=
  let rec go : List Op → Nat → Option Nat
    | [], _ => none
    | .point pt k :: rest, i => if s!"{pt.name}#{k}" = name then some i else go rest (i + 1)
    | _ :: rest, i => go rest (i + 1)
  go prog 0

/-- The (step number, which element of `partials`) the injected fault `name:mode` stands for.
`abort` at a point: crash before the point (no effect). `err` at an ordinary point: the point "fails".
`err` at a `checkout_progress` point: the harness makes every later write fail, so the FOLLOWING step
(the next blob, or libgit2's index write) fails half way. -/
def faultSite (prog : List Op) (name : String) (k : Kind) : Option (Nat × Nat) :=
  match findPoint prog name with
  | none => none
  | some i =>
    match k, prog[i]? with
    | .err, some (.point .checkoutProgress _) =>
      match prog[i + 1]? with
      | some (.writeFile _ _) => some (i + 1, 1)
      | _ => some (i + 1, 0)
    | _, _ => some (i, 0)

/-- State left by the injected fault. -/
def faultState (n : Nat) (prog : List Op) (name : String) (k : Kind) : Option St :=
  match faultSite prog name k with
  | none => none
  | some (p, j) => (failStates n prog init p k)[j]?

end SwayVerif.Fetch
