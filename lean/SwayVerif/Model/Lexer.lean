/-!
# Model of the Sway lexer, `sway-parse/src/token.rs` (`lex_commented`, `lex`)

Import-free (core Lean only) so that drivers link as native executables. Reused by C16 (spans, panics) and by
C18/C19 (token sequences): the interface is `lex`, `tokens`, `comments` at the end of the file.

* The input is `List CC`: a `char` together with the four character classes the lexer asks the Unicode tables
  for (`char::is_whitespace`, `UnicodeXID::is_xid_start`, `UnicodeXID::is_xid_continue`, membership in the twelve
  `unicode_bidi::format_chars` constants). Lean core cannot compute them; the harness supplies them per
  character from the very functions the lexer calls. They are PARAMETERS of the model: every theorem holds for
  arbitrary class assignments.
* Every index is a UTF-8 *byte* offset computed with the arithmetic the Rust code uses (`index + c.len_utf8()`,
  `len - 1`, `open_index + 1`, `index + 3` …) — never obtained "for free" from the list structure.
* `Span::new(src, a, b, _)` is `src.text.get(a..b)?` and every call site `unwrap`s: a span that is out of range,
  reversed, or not on char boundaries IS a Rust panic. The model records every span it constructs (token spans,
  error spans, and in `aux` all others: `full_span`s, group spans, the `&src.text[search_end..index]` slice);
  `panics` says whether one of them is invalid or another panic (`bad`: `unwrap` of an empty `Vec`, `usize`
  underflow, `char::from_u32(..).unwrap()`) happened. `Props/C16.lean` proves `panics = false` for all inputs.
* Only `start = 0`, `end = src.text.len()` is modelled (what `parse_file` passes).
* The token tree is produced flattened in order: a group contributes `open d` spanning
  `[group.span.start, inner.full_span.start)`, its children, and `close d` spanning `[inner.full_span.end, group.span.end)`
  (`d` = the group's delimiter, i.e. the opening one). An integer suffix is a pseudo token `intSuffix` directly
  after its `int`.
-/
namespace SwayVerif.Lexer

/-- `char::len_utf8` -/
def u8len (c : Char) : Nat :=
  if c.val.toNat < 0x80 then 1 else if c.val.toNat < 0x800 then 2 else if c.val.toNat < 0x10000 then 3 else 4

/-- A character with the classes the lexer looks up. -/
structure CC where
  c : Char
  /-- `char::is_whitespace` -/
  ws : Bool := false
  /-- `UnicodeXID::is_xid_start` -/
  xs : Bool := false
  /-- `UnicodeXID::is_xid_continue` -/
  xc : Bool := false
  /-- one of `ALM FSI LRE LRI LRM LRO PDF PDI RLE RLI RLM RLO` -/
  bd : Bool := false
deriving Repr, DecidableEq, Inhabited

/-- `str::len` (bytes) -/
def blen : List CC → Nat
  | [] => 0
  | x :: xs => u8len x.c + blen xs

/-- `str::is_char_boundary` -/
def isBoundary : List CC → Nat → Bool
  | _, 0 => true
  | [], _ + 1 => false
  | x :: xs, n + 1 => if n + 1 < u8len x.c then false else isBoundary xs (n + 1 - u8len x.c)

/-- `text.get(a..b).is_some()`: what `Span::new(..).unwrap()` and `&text[a..b]` need in order not to panic. -/
def validSpan (text : List CC) (a b : Nat) : Bool :=
  decide (a ≤ b) && isBoundary text a && isBoundary text b

/-- `let mut end = n; while !text.is_char_boundary(end) { end -= 1 }` -/
def walkBack (text : List CC) : Nat → Nat
  | 0 => 0
  | n + 1 => if isBoundary text (n + 1) then n + 1 else walkBack text n

inductive Delim where
  | paren | brace | bracket
deriving Repr, DecidableEq, Inhabited

inductive CommentKind where
  | newlined | trailing | inlined | multilined
deriving Repr, DecidableEq, Inhabited

inductive IntTy where
  | u8 | u16 | u32 | u64 | u256 | i8 | i16 | i32 | i64
deriving Repr, DecidableEq, Inhabited

inductive TokKind where
  | ident (raw : Bool)
  | punct (c : Char) (joint : Bool)
  | str (parsed : List Char)
  | chr (parsed : Char)
  | int (value : Nat)
  | intSuffix (ty : IntTy)
  | comment (k : CommentKind)
  /-- `DocComment`; `contentStart` is `content_span.start` (`content_span.end = span.end`) -/
  | doc (inner : Bool) (contentStart : Nat)
  | open (d : Delim)
  | close (d : Delim)
deriving Repr, DecidableEq, Inhabited

structure Token where
  kind : TokKind
  start : Nat
  stop : Nat
deriving Repr, DecidableEq, Inhabited

/-- `LexErrorKind`, payloads dropped. -/
inductive ErrKind where
  | unclosedMultilineComment | unexpectedCloseDelimiter | mismatchedDelimiters | unclosedDelimiter
  | unclosedStringLiteral | unclosedCharLiteral | expectedCloseQuote
  | incompleteHexIntLiteral | incompleteBinaryIntLiteral | incompleteOctalIntLiteral
  | invalidIntSuffix | invalidCharacter | invalidHexEscape | unicodeEscapeMissingBrace
  | invalidUnicodeEscapeDigit | unicodeEscapeOutOfRange | unicodeEscapeInvalidCharValue
  | unicodeTextDirInLiteral | invalidEscapeCode
deriving Repr, DecidableEq, Inhabited

structure LexErr where
  kind : ErrKind
  start : Nat
  stop : Nat
deriving Repr, DecidableEq, Inhabited

/-! ## Character helpers -/

/-- `char::to_digit(radix)` for the radices the lexer uses (2, 8, 10, 16). -/
def toDigit (c : Char) (radix : Nat) : Option Nat :=
  let n := c.toNat
  let v : Option Nat :=
    if 48 ≤ n ∧ n ≤ 57 then some (n - 48)
    else if 97 ≤ n ∧ n ≤ 122 then some (n - 97 + 10)
    else if 65 ≤ n ∧ n ≤ 90 then some (n - 65 + 10)
    else none
  match v with
  | some d => if d < radix then some d else none
  | none => none

def openDelim? (c : Char) : Option Delim :=
  if c = '(' then some .paren else if c = '{' then some .brace else if c = '[' then some .bracket else none

def closeDelim? (c : Char) : Option Delim :=
  if c = ')' then some .paren else if c = '}' then some .brace else if c = ']' then some .bracket else none

/-- `as_punct_kind().is_some()` -/
def isPunct (c : Char) : Bool :=
  [';', ':', '/', ',', '*', '+', '-', '<', '>', '=', '.', '!', '%', '&', '^', '|', '_', '#'].contains c

/-- `parse_int_suffix` -/
def parseIntSuffix (s : List Char) : Option IntTy :=
  if s = ['u', '8'] then some .u8 else if s = ['u', '1', '6'] then some .u16
  else if s = ['u', '3', '2'] then some .u32 else if s = ['u', '6', '4'] then some .u64
  else if s = ['u', '2', '5', '6'] then some .u256 else if s = ['i', '8'] then some .i8
  else if s = ['i', '1', '6'] then some .i16 else if s = ['i', '3', '2'] then some .i32
  else if s = ['i', '6', '4'] then some .i64 else none

/-- The end used by `span_until`: position of the peeked character, or `src.text.len()` at the end of input. -/
def peekPos (pos : Nat) (rest : List CC) (len : Nat) : Nat :=
  match rest with
  | [] => len
  | _ :: _ => pos

/-! ## Sub-lexers

Each works on the stream `(pos, rest)` (`pos` = byte offset of the first character of `rest`) and returns the new
stream together with what it emitted. -/

/-- Result of a sub-lexer. `fail` = `Err(ErrorEmitted)` propagated with `?` (the whole `lex_commented` returns `Err`). -/
structure Sub where
  pos : Nat
  rest : List CC
  toks : List Token := []
  errs : List LexErr := []
  aux : List (Nat × Nat) := []
  fail : Bool := false
  bad : Bool := false
  fuelOut : Bool := false
deriving Repr, Inhabited

/-- `while l.stream.next_if(|(_, c)| p c).is_some() {}` -/
def skipWhile (p : CC → Bool) : List CC → Nat → Nat × List CC
  | [], pos => (pos, [])
  | x :: r, pos => if p x then skipWhile p r (pos + u8len x.c) else (pos, x :: r)

/-- `l.stream.find(|(_, c)| *c == '\n')`: position of the newline (consumed) if any. -/
def findNl : List CC → Nat → Option Nat × Nat × List CC
  | [], pos => (none, pos, [])
  | x :: r, pos => if x.c = '\n' then (some pos, pos + u8len x.c, r) else findNl r (pos + u8len x.c)

/-- `match (sp.as_str().chars().nth(2), sp.as_str().chars().nth(3))` of `lex_line_comment`, on the characters
following `//` (the comment text ends before the first newline): `some true` = `DocStyle::Inner` (`//!`),
`some false` = `DocStyle::Outer` (`///` not followed by a fourth `/`), `none` = ordinary comment. -/
def docStyleOf (r : List CC) : Option Bool :=
  match r with
  | [] => none
  | x :: r' =>
    if x.c = '\n' then none
    else if x.c = '!' then some true
    else if x.c = '/' then
      match r' with
      | y :: _ => if y.c = '/' then none else some false
      | [] => some false
    else none

/-- `lex_line_comment`; `index` is the position of the first `/`, the stream stands after it (at the second `/`). -/
def lexLineComment (len index : Nat) (kind : CommentKind) (pos : Nat) (rest : List CC) : Sub :=
  match rest with
  | [] => { pos := pos, rest := [], bad := true }  -- unreachable: the caller peeked a `/`
  | s :: r =>
    match findNl r (pos + u8len s.c) with
    | (nl, p2, r2) =>
      let stop := nl.getD len   -- `.map_or(end, |(end, _)| end)`
      match docStyleOf r with
      | some inner => { pos := p2, rest := r2, toks := [⟨.doc inner (index + 3), index, stop⟩], aux := [(index + 3, stop)] }
      | none => { pos := p2, rest := r2, toks := [⟨.comment kind, index, stop⟩] }

/-- Outcome of the loop of `lex_block_comment`. -/
inductive BlockRes where
  | closed (start stop : Nat) (multiline : Bool) (pos : Nat) (rest : List CC)
  /-- input exhausted; `top` = `*unclosed_indices.last().unwrap()` -/
  | unclosed (top : Nat) (pos : Nat)
  /-- `unwrap` on an empty `unclosed_indices` -/
  | bad (pos : Nat)
deriving Repr, Inhabited

/-- The `loop` of `lex_block_comment`. `stack` = `unclosed_indices`, last pushed first. -/
def blockLoop : List CC → Nat → List Nat → Bool → BlockRes
  | [], pos, stack, _ =>
    match stack with
    | top :: _ => .unclosed top pos
    | [] => .bad pos
  | x :: t, pos, stack, ml =>
    let p1 := pos + u8len x.c
    if x.c = '*' then
      match t with
      | [] => (match stack with | top :: _ => .unclosed top p1 | [] => .bad p1)
      | y :: r =>
        let p2 := p1 + u8len y.c
        if y.c = '/' then
          match stack with
          | [] => .bad p2
          | start :: st =>
            if st.isEmpty then .closed start (p1 + 1) ml p2 r   -- `slash_ix + '/'.len_utf8()`
            else blockLoop r p2 st ml
        else blockLoop r p2 stack ml
    else if x.c = '/' then
      match t with
      | [] => (match stack with | top :: _ => .unclosed top p1 | [] => .bad p1)
      | y :: r =>
        let p2 := p1 + u8len y.c
        if y.c = '*' then blockLoop r p2 (pos :: stack) ml
        else blockLoop r p2 stack ml
    else if x.c = '\n' then blockLoop t p1 stack true
    else blockLoop t p1 stack ml

/-- `lex_block_comment`; `index` = position of `/`, the stream stands at the `*`. -/
def lexBlockComment (text : List CC) (len index : Nat) (pos : Nat) (rest : List CC) : Sub :=
  match rest with
  | [] => { pos := pos, rest := [], bad := true }  -- unreachable: the caller peeked a `*`
  | s :: r =>
    match blockLoop r (pos + u8len s.c) [index] false with
    | .closed a b ml p2 r2 =>
      { pos := p2, rest := r2, toks := [⟨.comment (if ml then .multilined else .inlined), a, b⟩] }
    | .unclosed top p2 =>
      -- `l.src.text.len() - 1` (usize), then back to a char boundary
      { pos := p2, rest := [], errs := [⟨.unclosedMultilineComment, top, walkBack text (len - 1)⟩], bad := decide (len = 0) }
    | .bad p2 => { pos := p2, rest := [], bad := true }

/-- `Result<char, Option<ErrorEmitted>>` of `parse_escape_code` -/
inductive Esc where
  | ok (c : Char)
  | errNone
  | errSome
deriving Repr, DecidableEq, Inhabited

structure EscRes where
  res : Esc
  pos : Nat
  rest : List CC
  errs : List LexErr := []
  aux : List (Nat × Nat) := []
  bad : Bool := false
deriving Repr, Inhabited

/-- Outcome of the digit loop of a `\u{…}` escape. -/
inductive UDig where
  | eof (pos : Nat)
  | badDigit (at_ : Nat) (c : Char) (pos : Nat) (rest : List CC)
  | closed (digitsEnd : Nat) (start : Option Nat) (value : Nat) (pos : Nat) (rest : List CC)
deriving Repr, Inhabited

def uDigits : List CC → Nat → Option Nat → Nat → UDig
  | [], pos, _, _ => .eof pos
  | x :: r, pos, start, v =>
    if x.c = '}' then .closed pos start v (pos + u8len x.c) r
    else match toDigit x.c 16 with
      | none => .badDigit pos x.c (pos + u8len x.c) r
      | some d => uDigits r (pos + u8len x.c) (match start with | some s => some s | none => some pos) (v * 16 + d)

/-- `char::from_u32` -/
def charFromU32? (n : Nat) : Option Char :=
  if h : n.isValidChar then some (Char.ofNatAux n h) else none

/-- `parse_escape_code` when there is a character `x` (at `pos` = `index` of the Rust code) after the backslash. -/
def parseEscapeCons (len : Nat) (pos : Nat) (x : CC) (r : List CC) : EscRes :=
    if x.c = '"' then { res := .ok '"', pos := pos + u8len x.c, rest := r }
    else if x.c = '\'' then { res := .ok '\'', pos := pos + u8len x.c, rest := r }
    else if x.c = 'n' then { res := .ok '\n', pos := pos + u8len x.c, rest := r }
    else if x.c = 'r' then { res := .ok '\r', pos := pos + u8len x.c, rest := r }
    else if x.c = 't' then { res := .ok '\t', pos := pos + u8len x.c, rest := r }
    else if x.c = '\\' then { res := .ok '\\', pos := pos + u8len x.c, rest := r }
    else if x.c = '0' then { res := .ok (Char.ofNat 0), pos := pos + u8len x.c, rest := r }
    else if x.c = 'x' then
      match r with
      | [] => { res := .errNone, pos := pos + u8len x.c, rest := [] }
      | [h] => { res := .errNone, pos := pos + u8len x.c + u8len h.c, rest := [] }
      | h :: l :: r3 =>
        match toDigit h.c 16, toDigit l.c 16 with
        | some hi, some lo =>
          match charFromU32? (hi * 16 + lo) with   -- `(high << 4) | low`
          | some ch => { res := .ok ch, pos := pos + u8len x.c + u8len h.c + u8len l.c, rest := r3 }
          | none => { res := .errNone, pos := pos + u8len x.c + u8len h.c + u8len l.c, rest := r3, bad := true }
        | _, _ => { res := .errSome, pos := pos + u8len x.c + u8len h.c + u8len l.c, rest := r3,
                    errs := [⟨.invalidHexEscape, pos, peekPos (pos + u8len x.c + u8len h.c + u8len l.c) r3 len⟩] }
    else if x.c = 'u' then
      match r with
      | [] => { res := .errNone, pos := pos + u8len x.c, rest := [] }
      | b :: r2 =>
        if b.c = '{' then
          match uDigits r2 (pos + u8len x.c + u8len b.c) none 0 with
          | .eof p => { res := .errNone, pos := p, rest := [] }
          | .badDigit at_ c p r' => { res := .errSome, pos := p, rest := r', errs := [⟨.invalidUnicodeEscapeDigit, at_, at_ + u8len c⟩] }
          | .closed dEnd start v p r' =>
            -- `digits_start_position_opt.unwrap_or(digits_end_position)`
            if 4294967296 ≤ v then   -- `u32::try_from` fails
              { res := .errSome, pos := p, rest := r', errs := [⟨.unicodeEscapeOutOfRange, start.getD dEnd, dEnd⟩] }
            else match charFromU32? v with
              | none => { res := .errSome, pos := p, rest := r', errs := [⟨.unicodeEscapeInvalidCharValue, start.getD dEnd, dEnd⟩],
                          aux := [(pos, peekPos p r' len)] }
              | some ch => { res := .ok ch, pos := p, rest := r' }
        else { res := .errSome, pos := pos + u8len x.c + u8len b.c, rest := r2,
               errs := [⟨.unicodeEscapeMissingBrace, pos, pos + u8len 'u'⟩] }   -- `span_one(l, index, 'u')`
    else { res := .errSome, pos := pos + u8len x.c, rest := r, errs := [⟨.invalidEscapeCode, pos, pos + u8len x.c⟩] }

def parseEscape (len : Nat) (pos : Nat) (rest : List CC) : EscRes :=
  match rest with
  | [] => { res := .errNone, pos := pos, rest := [] }   -- `None => Err(None)`
  | x :: r => parseEscapeCons len pos x r

/-- The `loop` of `lex_string`; `index` = position of the opening quote. `parsed` is accumulated reversed. -/
def strLoop (text : List CC) (len index : Nat) : Nat → Nat → List CC → List Char → List LexErr → List (Nat × Nat) → Sub
  | 0, pos, rest, _, errs, aux => { pos := pos, rest := rest, errs := errs, aux := aux, fuelOut := true }
  | fuel + 1, pos, rest, parsed, errs, aux =>
    match rest with
    | [] =>
      -- `let mut end = len - 1; while !is_char_boundary(end) { end -= 1 }`
      { pos := pos, rest := [], errs := errs ++ [⟨.unclosedStringLiteral, index, walkBack text (len - 1)⟩], aux := aux,
        fail := true, bad := decide (len = 0) }
    | x :: r =>
      let p1 := pos + u8len x.c
      if x.c = '\\' then
        let e := parseEscape len p1 r
        match e.res with
        | .ok ch => if e.bad then { pos := e.pos, rest := e.rest, errs := errs ++ e.errs, aux := aux ++ e.aux, bad := true }
                    else strLoop text len index fuel e.pos e.rest (ch :: parsed) (errs ++ e.errs) (aux ++ e.aux)
        | .errSome => { pos := e.pos, rest := e.rest, errs := errs ++ e.errs, aux := aux ++ e.aux, fail := true, bad := e.bad }
        | .errNone => { pos := e.pos, rest := e.rest, errs := errs ++ e.errs ++ [⟨.unclosedStringLiteral, index, len⟩],
                        aux := aux ++ e.aux, fail := true, bad := e.bad }
      else if x.c = '"' then
        { pos := p1, rest := r, toks := [⟨.str parsed.reverse, index, peekPos p1 r len⟩], errs := errs, aux := aux }
      else if x.bd then
        strLoop text len index fuel p1 r parsed (errs ++ [⟨.unicodeTextDirInLiteral, pos, pos + u8len x.c⟩]) aux
      else strLoop text len index fuel p1 r (x.c :: parsed) errs aux

/-- `lex_string` after the opening quote. `fuel > rest.length` suffices (`Props/C16.lean`). -/
def lexString (text : List CC) (len index : Nat) (fuel : Nat) (pos : Nat) (rest : List CC) : Sub :=
  strLoop text len index fuel pos rest [] [] []

/-- The `escape` closure of `lex_char`. -/
def charEscape (len index : Nat) (c : CC) (pos : Nat) (rest : List CC) : EscRes :=
  if c.c = '\\' then
    let e := parseEscape len pos rest
    match e.res with
    | .errNone => { e with errs := e.errs ++ [⟨.unclosedCharLiteral, index, len⟩] }
    | _ => e
  else { res := .ok c.c, pos := pos, rest := rest }

/-- The recovery `loop` of `lex_char`: up to and including the closing quote. `(found, pos, rest, chars reversed)` -/
def findQuote : List CC → Nat → List Char → Bool × Nat × List CC × List Char
  | [], pos, acc => (false, pos, [], acc)
  | x :: r, pos, acc => if x.c = '\'' then (true, pos + u8len x.c, r, acc) else findQuote r (pos + u8len x.c) (x.c :: acc)

/-- `lex_char`, recovery of `'ab…'` as a string literal: `e2` is the `escape` of the second character;
`spStop` = end of `sp = span_until(l, index)`, `nextIndex` = position of the second character. -/
def lexCharRecover (len index : Nat) (parsed : Char) (errs : List LexErr) (aux : List (Nat × Nat))
    (spStop nextIndex : Nat) (e2 : EscRes) : Sub :=
  match e2.res with
  | .errNone => { pos := e2.pos, rest := e2.rest, errs := errs ++ e2.errs, aux := (index, spStop) :: aux ++ e2.aux, fail := true, bad := e2.bad }
  | .errSome => { pos := e2.pos, rest := e2.rest, errs := errs ++ e2.errs, aux := (index, spStop) :: aux ++ e2.aux, fail := true, bad := e2.bad }
  | .ok ch2 =>
    if e2.bad then { pos := e2.pos, rest := e2.rest, bad := true } else
    match findQuote e2.rest e2.pos [] with
    | (false, p5, r5, _) =>
      { pos := p5, rest := r5, errs := errs ++ e2.errs ++ [⟨.unclosedCharLiteral, index, len⟩],
        aux := (index, spStop) :: aux ++ e2.aux, fail := true }
    | (true, p5, r5, acc) =>
      -- `ExpectedCloseQuote`: `span_until(l, next_index)`
      { pos := p5, rest := r5, toks := [⟨.str (parsed :: ch2 :: acc.reverse), index, spStop⟩],
        errs := errs ++ e2.errs ++ [⟨.expectedCloseQuote, nextIndex, peekPos p5 r5 len⟩],
        aux := aux ++ e2.aux }

/-- `lex_char` after `let parsed = escape(l, next_char)?` (`e1`): consume the closing quote. -/
def lexCharSecond (len index : Nat) (errs0 : List LexErr) (e1 : EscRes) : Sub :=
  match e1.res with
  | .errNone => { pos := e1.pos, rest := e1.rest, errs := errs0 ++ e1.errs, aux := e1.aux, fail := true, bad := e1.bad }
  | .errSome => { pos := e1.pos, rest := e1.rest, errs := errs0 ++ e1.errs, aux := e1.aux, fail := true, bad := e1.bad }
  | .ok parsed =>
    if e1.bad then { pos := e1.pos, rest := e1.rest, bad := true } else
    match e1.rest with
    | [] => { pos := e1.pos, rest := [], errs := errs0 ++ e1.errs ++ [⟨.unclosedCharLiteral, index, len⟩], aux := e1.aux, fail := true }
    | b :: r3 =>
      -- `sp = span_until(l, index)` after the second character
      if b.c = '\'' then
        { pos := e1.pos + u8len b.c, rest := r3, toks := [⟨.chr parsed, index, peekPos (e1.pos + u8len b.c) r3 len⟩],
          errs := errs0 ++ e1.errs, aux := e1.aux }
      else
        lexCharRecover len index parsed (errs0 ++ e1.errs) e1.aux (peekPos (e1.pos + u8len b.c) r3 len) e1.pos
          (charEscape len index b (e1.pos + u8len b.c) r3)

/-- `lex_char` after the opening quote at `index`. -/
def lexChar (len index : Nat) (pos : Nat) (rest : List CC) : Sub :=
  match rest with
  | [] => { pos := pos, rest := [], errs := [⟨.unclosedCharLiteral, index, len⟩], fail := true }
  | a :: r1 =>
    lexCharSecond len index (if a.bd then [⟨.unicodeTextDirInLiteral, pos, pos + u8len a.c⟩] else [])
      (charEscape len index a (pos + u8len a.c) r1)

/-- `parse_digits`: value, `end_opt`, stream. -/
def parseDigits (radix : Nat) : List CC → Nat → Nat → Nat × Option Nat × Nat × List CC
  | [], pos, v => (v, none, pos, [])
  | x :: r, pos, v =>
    if x.c = '_' then parseDigits radix r (pos + u8len x.c) v
    else match toDigit x.c radix with
      | none => (v, some pos, pos, x :: r)
      | some d => parseDigits radix r (pos + u8len x.c) (v * radix + d)

/-- The suffix characters taken by `lex_int_ty_opt`. -/
def takeSuffix : List CC → Nat → List Char → Nat × List CC × List Char
  | [], pos, acc => (pos, [], acc)
  | x :: r, pos, acc => if x.xc then takeSuffix r (pos + u8len x.c) (x.c :: acc) else (pos, x :: r, acc)

/-- `lex_int_ty_opt` followed by the construction of the `LitInt` in `lex_int_lit`. -/
def lexIntTail (len index : Nat) (value : Nat) (endOpt : Option Nat) (pos : Nat) (rest : List CC) : Sub :=
  -- the `LitInt`: `span(l, index, end_opt.unwrap_or(l.src.text.len()))`; suffix start = `pos`, suffix end = peeked position
  match takeSuffix rest pos [] with
  | (p2, r2, acc) =>
    if acc.isEmpty then { pos := p2, rest := r2, toks := [⟨.int value, index, endOpt.getD len⟩] }
    else
      match parseIntSuffix acc.reverse with
      | some ty => { pos := p2, rest := r2, toks := [⟨.int value, index, endOpt.getD len⟩, ⟨.intSuffix ty, pos, peekPos p2 r2 len⟩] }
      | none => { pos := p2, rest := r2, toks := [⟨.int value, index, endOpt.getD len⟩],
                  errs := [⟨.invalidIntSuffix, pos, peekPos p2 r2 len⟩] }

/-- `prefixed_int_lit`: the stream stands at the radix letter. -/
def lexPrefixedInt (len index : Nat) (radix : Nat) (kind : ErrKind) (pos : Nat) (rest : List CC) : Sub :=
  match rest with
  | [] => { pos := pos, rest := [], bad := true }  -- unreachable: the caller peeked the radix letter
  | l :: r =>
    match r with
    | [] => { pos := pos + u8len l.c, rest := [], errs := [⟨kind, index, len⟩], fail := true }
    | d :: r2 =>
      match toDigit d.c radix with
      | none => { pos := pos + u8len l.c + u8len d.c, rest := r2, errs := [⟨kind, index, pos + u8len l.c⟩], fail := true }
      | some dv =>
        match parseDigits radix r2 (pos + u8len l.c + u8len d.c) dv with
        | (v, endOpt, p3, r3) => lexIntTail len index v endOpt p3 r3

/-- `decimal_int_lit` -/
def lexDecimal (len index : Nat) (d : Nat) (pos : Nat) (rest : List CC) : Sub :=
  match parseDigits 10 rest pos d with
  | (v, endOpt, p3, r3) => lexIntTail len index v endOpt p3 r3

/-- `lex_int_lit` for a first character that is a decimal digit `d` at `index`; the stream stands after it. -/
def lexInt (len index : Nat) (d : Nat) (pos : Nat) (rest : List CC) : Sub :=
  if d = 0 then
    match rest with
    | [] => lexIntTail len index 0 none pos rest
    | y :: _ =>
      if y.c = 'x' then lexPrefixedInt len index 16 .incompleteHexIntLiteral pos rest
      else if y.c = 'o' then lexPrefixedInt len index 8 .incompleteOctalIntLiteral pos rest
      else if y.c = 'b' then lexPrefixedInt len index 2 .incompleteBinaryIntLiteral pos rest
      else if y.c = '_' ∨ (toDigit y.c 10).isSome then lexDecimal len index 0 pos rest
      else lexIntTail len index 0 (some pos) pos rest
  else lexDecimal len index d pos rest

/-! ## The main loop of `lex_commented` -/

/-- State of the main loop. `toks`, `errs`, `aux`, `seen` are kept reversed (last first). -/
structure St where
  pos : Nat
  rest : List CC
  toks : List Token := []
  errs : List LexErr := []
  aux : List (Nat × Nat) := []
  /-- `parent_token_trees`: `(open_index, open_delimiter)`, innermost first -/
  stack : List (Nat × Delim) := []
  /-- every character consumed so far, last first (for the backwards newline search of `//` comments) -/
  seen : List CC := []
  /-- `file_start_offset` -/
  fso : Nat := 0
  fail : Bool := false
  bad : Bool := false
  fuelOut : Bool := false
deriving Repr, Inhabited

/-- The characters of `rest` lying before byte position `upto` (reversed onto `acc`). -/
def takeSeen : List CC → Nat → Nat → List CC → List CC
  | [], _, _, acc => acc
  | x :: r, pos, upto, acc => if pos < upto then takeSeen r (pos + u8len x.c) upto (x :: acc) else acc

/-- `text[search_end..index].chars().rev().take_while(is_whitespace).filter(== '\n').count() > 0`, scanning the
reversed consumed text for at most `budget = index - search_end` bytes. -/
def scanNl : List CC → Nat → Bool
  | [], _ => false
  | x :: r, budget =>
    if budget = 0 then false
    else if !x.ws then false
    else if x.c = '\n' then true
    else scanNl r (budget - u8len x.c)

/-- Fold the result of a sub-lexer into the state; `consumedFrom` is the stream it started from. -/
def St.absorb (s : St) (fromPos : Nat) (fromRest : List CC) (r : Sub) : St :=
  { s with pos := r.pos, rest := r.rest,
           toks := r.toks.reverse ++ s.toks, errs := r.errs.reverse ++ s.errs, aux := r.aux.reverse ++ s.aux,
           seen := takeSeen fromRest fromPos r.pos s.seen,
           fail := s.fail || r.fail, bad := s.bad || r.bad }

/-- `absorb` for the one sub-lexer that runs on fuel (`strLoop`). -/
def St.absorbFuel (s : St) (fromPos : Nat) (fromRest : List CC) (r : Sub) : St :=
  { s.absorb fromPos fromRest r with fuelOut := s.fuelOut || r.fuelOut }

/-- `search_end` of the `//` branch: end of the last token tree of the current nesting level if it is a `Tree`,
else 0. In the flattened stream the current level is empty exactly when the last token is an `open`. -/
def searchEnd (toks : List Token) : Nat :=
  match toks with
  | [] => 0
  | t :: _ =>
    match t.kind with
    | .comment _ => 0
    | .open _ => 0
    | _ => t.stop

/-- What follows the identifier test in the loop body: delimiters, literals, punctuation, invalid character.
`x` at `index` has been consumed, the stream is `(pos, rest)`; `s.seen` already contains `x`. -/
def stepOther (text : List CC) (len fuel : Nat) (s : St) (index : Nat) (x : CC) (pos : Nat) (rest : List CC) : St :=
  match openDelim? x.c with
  | some d =>
    -- `start_index = open_index + delimiter.as_open_char().len_utf8()`
    { s with pos := pos, rest := rest, stack := (index, d) :: s.stack, toks := ⟨.open d, index, index + 1⟩ :: s.toks }
  | none =>
  match closeDelim? x.c with
  | some cd =>
    match s.stack with
    | [] => { s with pos := pos, rest := rest, errs := ⟨.unexpectedCloseDelimiter, index, index + u8len x.c⟩ :: s.errs }
    | (openIndex, od) :: st =>
      -- `lex_close_delimiter`: full_span = (open_index + 1, index), group span = span_until(open_index)
      { s with pos := pos, rest := rest, stack := st,
               errs := if od ≠ cd then ⟨.mismatchedDelimiters, index, index + u8len x.c⟩ :: s.errs else s.errs,
               toks := ⟨.close od, index, peekPos pos rest len⟩ :: s.toks,
               aux := (openIndex, peekPos pos rest len) :: (openIndex + 1, index) :: s.aux }
  | none =>
  if x.c = '"' then s.absorbFuel pos rest (lexString text len index fuel pos rest)
  else if x.c = '\'' then s.absorb pos rest (lexChar len index pos rest)
  else match toDigit x.c 10 with
  | some d => s.absorb pos rest (lexInt len index d pos rest)
  | none =>
  if isPunct x.c then
    { s with pos := pos, rest := rest,
             toks := ⟨.punct x.c (match rest with | y :: _ => isPunct y.c | [] => false), index, peekPos pos rest len⟩ :: s.toks }
  else
    { s with pos := pos, rest := rest, errs := ⟨.invalidCharacter, index, index + u8len x.c⟩ :: s.errs }

/-- "Don't accept just `_` as an identifier." -/
def notSingleUnderscore (x : CC) (rest : List CC) : Bool :=
  x.c ≠ '_' || (match rest with | y :: _ => y.xc | [] => false)

/-- After the optional `r#` prefix: `x` at `index` is XID_Start or `_`; the stream is `(pos, rest)`. -/
def identTail (text : List CC) (len fuel : Nat) (s : St) (raw : Bool) (index : Nat) (x : CC) (pos : Nat) (rest : List CC) : St :=
  if notSingleUnderscore x rest then
    match skipWhile (fun c => c.xc) rest pos with
    | (p2, r2) =>
      { s with pos := p2, rest := r2, seen := takeSeen rest pos p2 s.seen,
               toks := ⟨.ident raw, index, peekPos p2 r2 len⟩ :: s.toks }
  else stepOther text len fuel s index x pos rest

/-- `character == 'r' && matches!(l.stream.peek(), Some((_, '#')))` -/
def isRawPrefix (x : CC) (rest : List CC) : Bool :=
  x.c = 'r' && (match rest with | h :: _ => h.c = '#' | [] => false)

/-- The identifier branch and what follows it. -/
def stepIdent (text : List CC) (len fuel : Nat) (s : St) (index : Nat) (x : CC) (pos : Nat) (rest : List CC) : St :=
  if x.xs ∨ x.c = '_' then
    if isRawPrefix x rest then
      match rest with
      | [] => identTail text len fuel s true index x pos rest   -- unreachable (`#` was peeked)
      | h :: r1 =>
        match r1 with
        | [] =>
          -- `r#` at the end of input: `character`, `index` stay those of the `r`
          identTail text len fuel { s with seen := h :: s.seen } true index x (pos + u8len h.c) []
        | y :: r2 =>
          if y.xs ∨ y.c = '_' then
            identTail text len fuel { s with seen := y :: h :: s.seen } true (pos + u8len h.c) y (pos + u8len h.c + u8len y.c) r2
          else
            { s with seen := y :: h :: s.seen, pos := pos + u8len h.c + u8len y.c, rest := r2,
                     errs := ⟨.invalidCharacter, pos + u8len h.c, pos + u8len h.c + u8len y.c⟩ :: s.errs }
    else identTail text len fuel s false index x pos rest
  else stepOther text len fuel s index x pos rest

/-- Whitespace: `if index - file_start_offset == 0 { file_start_offset += character.len_utf8() }` (`usize` subtraction). -/
def stepWs (s : St) (x : CC) (rest : List CC) : St :=
  { s with seen := x :: s.seen, pos := s.pos + u8len x.c, rest := rest,
           fso := if s.pos - s.fso = 0 then s.fso + u8len x.c else s.fso,
           bad := s.bad || decide (s.pos < s.fso) }

/-- `Newlined` / `Trailing` of a `//` comment starting at `s.pos`. -/
def lineCommentKind (s : St) : CommentKind :=
  if scanNl s.seen (s.pos - searchEnd s.toks) || (searchEnd s.toks = 0 && s.pos = 0) then .newlined else .trailing

/-- The `//` branch; `src.text[search_end..index]` is a slice and recorded in `aux`. -/
def stepLineComment (len : Nat) (s : St) (x : CC) (rest : List CC) : St :=
  ({ s with seen := x :: s.seen, aux := (searchEnd s.toks, s.pos) :: s.aux }).absorb (s.pos + u8len x.c) rest
    (lexLineComment len s.pos (lineCommentKind s) (s.pos + u8len x.c) rest)

/-- The `/*` branch. -/
def stepBlockComment (text : List CC) (len : Nat) (s : St) (x : CC) (rest : List CC) : St :=
  ({ s with seen := x :: s.seen }).absorb (s.pos + u8len x.c) rest (lexBlockComment text len s.pos (s.pos + u8len x.c) rest)

/-- Everything else (identifiers, delimiters, literals, punctuation). -/
def stepToken (text : List CC) (len fuel : Nat) (s : St) (x : CC) (rest : List CC) : St :=
  stepIdent text len fuel { s with seen := x :: s.seen } s.pos x (s.pos + u8len x.c) rest

/-- One iteration of `while let Some((index, character)) = l.stream.next()`; `index = s.pos`. -/
def step (text : List CC) (len fuel : Nat) (s : St) (x : CC) (rest : List CC) : St :=
  if x.ws then stepWs s x rest
  else if x.c = '/' then
    match rest with
    | y :: _ =>
      if y.c = '/' then stepLineComment len s x rest
      else if y.c = '*' then stepBlockComment text len s x rest
      else stepToken text len fuel s x rest
    | [] => stepToken text len fuel s x rest
  else stepToken text len fuel s x rest

/-- The main loop, with fuel (`Props/C16.lean`: `rest.length + 1` is enough). -/
def mainLoop (text : List CC) (len : Nat) : Nat → St → St
  | 0, s => { s with fuelOut := true }
  | fuel + 1, s =>
    match s.rest with
    | [] => s
    | x :: r =>
      let s' := step text len fuel s x r
      if s'.fail || s'.bad || s'.fuelOut then s' else mainLoop text len fuel s'

/-- `while let Some(..) = parent_token_trees.pop()`: recover all unclosed delimiters. -/
def closeAll (len : Nat) : List (Nat × Delim) → St → St
  | [], s => s
  | (openIndex, d) :: st, s =>
    -- error span: `span_one(open_index, open_char)`; close: index = `src.text.len()`, `span_until` at the end of input
    closeAll len st
      { s with stack := st,
               errs := ⟨.unclosedDelimiter, openIndex, openIndex + 1⟩ :: s.errs,
               toks := ⟨.close d, len, len⟩ :: s.toks,
               aux := (openIndex, len) :: (openIndex + 1, len) :: s.aux }

/-- Everything `lex_commented(handler, src, 0, src.text.len(), _)` constructs, in order. -/
structure Raw where
  toks : List Token
  errs : List LexErr
  aux : List (Nat × Nat)
  fail : Bool
  bad : Bool
  fuelOut : Bool
deriving Repr, Inhabited

def lexRaw (text : List CC) : Raw :=
  let len := blen text
  let s := mainLoop text len (text.length + 1) { pos := 0, rest := text }
  if s.fail || s.bad || s.fuelOut then
    { toks := s.toks.reverse, errs := s.errs.reverse, aux := s.aux.reverse, fail := s.fail, bad := s.bad, fuelOut := s.fuelOut }
  else
    let s := closeAll len s.stack s
    -- `full_span: span(&l, start, end)`
    { toks := s.toks.reverse, errs := s.errs.reverse, aux := ((0, len) :: s.aux).reverse, fail := false, bad := false, fuelOut := false }

/-- Would the Rust code panic? (an invalid `Span::new(..).unwrap()` / slice, or another recorded panic) -/
def Raw.panics (text : List CC) (r : Raw) : Bool :=
  r.bad || r.toks.any (fun t => !validSpan text t.start t.stop)
    || r.errs.any (fun e => !validSpan text e.start e.stop)
    || r.aux.any (fun a => !validSpan text a.1 a.2)

/-! ## Interface -/

inductive Outcome where
  /-- `Ok(CommentedTokenStream)` (flattened) and the errors emitted to the handler -/
  | ok (toks : List Token) (errs : List LexErr)
  /-- `Err(ErrorEmitted)` and the errors emitted to the handler -/
  | fail (errs : List LexErr)
  | panic
  /-- not modelled (only: fuel exhausted, which `lex_total` excludes) -/
  | unsupported
deriving Repr, DecidableEq, Inhabited

/-- `lex_commented(handler, text, 0, text.len(), _)` -/
def lex (text : List CC) : Outcome :=
  let r := lexRaw text
  if r.fuelOut then .unsupported
  else if r.panics text then .panic
  else if r.fail then .fail r.errs
  else .ok r.toks r.errs

def Token.isComment (t : Token) : Bool :=
  match t.kind with
  | .comment _ => true
  | _ => false

/-- The token sequence of `lex` (= `lex_commented(..).strip_comments()`), flattened; `[]` when lexing fails. -/
def tokens (text : List CC) : List Token :=
  match lex text with
  | .ok toks _ => toks.filter (fun t => !t.isComment)
  | _ => []

/-- The (non-doc) comments of `lex_commented`; `[]` when lexing fails. -/
def comments (text : List CC) : List Token :=
  match lex text with
  | .ok toks _ => toks.filter (fun t => t.isComment)
  | _ => []

/-- The spans an outcome reports: tokens and errors. -/
def Outcome.spans : Outcome → List (Nat × Nat)
  | .ok toks errs => toks.map (fun t => (t.start, t.stop)) ++ errs.map (fun e => (e.start, e.stop))
  | .fail errs => errs.map (fun e => (e.start, e.stop))
  | _ => []

/-- `Span::join` (the parser builds the spans of syntax-tree nodes and of its diagnostics by joining token spans). -/
def joinSpan (a b : Nat × Nat) : Nat × Nat := (min a.1 b.1, max a.2 b.2)

/-! ## The property's decidable predicate (C16), evaluated by the driver on the IMPLEMENTATION's result -/

/-- What the harness observed of the real lexer and parser on `text`. -/
structure Observed where
  lexPanic : Bool
  parsePanic : Bool
  hang : Bool
  /-- spans of the tokens and lexer errors received (start, stop) -/
  spans : List (Nat × Nat)
  /-- number of diagnostic spans (lexer + parser, errors + warnings, labels) found out of bounds / off boundaries in Rust -/
  badDiagSpans : Nat
  /-- number of token-tree spans found invalid in Rust -/
  badTokSpans : Nat
  /-- number of diagnostics whose rendering panicked -/
  renderPanics : Nat

/-- C16: terminates without panic; every reported span lies within the input on char boundaries. -/
def propHolds (text : List CC) (o : Observed) : Bool :=
  !o.lexPanic && !o.parsePanic && !o.hang && o.badDiagSpans == 0 && o.badTokSpans == 0 && o.renderPanics == 0
    && o.spans.all (fun a => validSpan text a.1 a.2)

end SwayVerif.Lexer
