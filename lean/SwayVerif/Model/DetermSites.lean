import SwayVerif.Generated.HashIterSites
/-!
# Reviewed classification of the std-hash iteration sites (C15)

`Generated/HashIterSites.lean` is re-extracted from /repo on every run. Each site must appear here with
the reason its iteration order cannot reach emitted bytes. A site that is not in this list leaves
`C15_sites_reviewed` (Props/C15.lean) unprovable: the obligation for the new site is open.
-/
namespace SwayVerif.Determ

inductive Why where
  /-- the elements are only collected into another set / membership-tested -/
  | setSink
  /-- `find` with a predicate that at most one element satisfies (`findBy_perm`) -/
  | uniqueFind
  /-- collected then sorted by an injective key (`sortByField_perm`) -/
  | sortedAfter
  /-- closure computation whose result is the visited SET (`grow_perm_partial`) -/
  | closure
  /-- feeds only diagnostics / help text, not bytecode, ABI JSON or storage-slots JSON -/
  | diagnosticOnly
deriving DecidableEq, Repr

def reviewed : List ((String × String × String × String) × Why) := [
  (("forc-pkg/src/pkg.rs", "build", "outputs", "iter"), .setSink),
  (("forc-pkg/src/pkg.rs", "build_with_options", "manifest_map", "values"), .uniqueFind),
  (("forc-pkg/src/pkg.rs", "filter_outputs", "outputs", "into_iter"), .setSink),
  (("forc-pkg/src/pkg.rs", "validate_graph", "member_nodes", "into_iter"), .setSink),
  (("sway-core/src/abi_generation/fuel_abi.rs", "standardize_json_abi_types", "concrete_declarations_map", "values"), .sortedAfter),
  (("sway-core/src/asm_generation/fuel/fuel_asm_builder.rs", "compile_asm_block", "inline_reg_map", "keys"), .diagnosticOnly),
  (("sway-ir/src/optimize/dce.rs", "grow_called_function_used_globals_set", "callees", "into_iter"), .closure),
  (("sway-ir/src/pass_manager.rs", "help_text", "passes", "iter"), .diagnosticOnly)
]

def siteReviewed (s : String × String × String × String) : Bool :=
  reviewed.any (fun r => r.1 = s)

end SwayVerif.Determ
