/-!
# Reference semantics of the Sway fragment of C01 (`SwaySem`)

Import-free. A definitional, fuel-indexed big-step interpreter for the fragment the C01 program
generator emits: integers `u8…u256`, `bool`, tuples / structs / arrays (all three are positional
records at run time), enums (tag + payload), `if`/`while`/`match`/`break`/`continue`/`return`,
blocks, `let` with shadowing, assignment through field / index paths, calls of (monomorphised or
generic — there is no run-time difference) functions, `log`, `revert`, `assert`, `require`.

Arithmetic is NOT primitive. `evalBin`/`evalNot` are the recipes of `sway-lib-std/src/ops.sw`
(`impl Add for u8` = `__add` on the 64-bit register, `__gt` against `u8::max()`, `__revert(0)`) over
a model of the FuelVM ALU (`vmAdd` … — `ADD/SUB/MUL` panic on 64-bit overflow, `DIV/MOD` panic on a
zero divisor, `SLL/SRL` give 0 for a shift ≥ 64, the 256-bit `WQOP/WQML/WQDV` likewise). A VM panic
and `__revert(0)` are both observed by `forc test` as `Revert(0)` (forc-test/src/execute.rs maps an
interpreter error to `ProgramState::Revert(0)`), so both are `Fail.revert 0` here.
The documented rules ("u8 addition reverts iff the sum exceeds 255") are theorems in `Props/C01.lean`.

Observable outcome (what C01/C02 compare): the list of `LOGD` payloads (ABI encoding v1 of the
logged values) and whether/with which code the run reverted.
-/
namespace SwayVerif.SwaySem

/-! ## Machine words -/

inductive W | u8 | u16 | u32 | u64 | u256
  deriving DecidableEq, Repr, Inhabited

def W.bits : W → Nat
  | .u8 => 8 | .u16 => 16 | .u32 => 32 | .u64 => 64 | .u256 => 256

/-- `Self::max()` -/
def W.max (w : W) : Nat := 2 ^ w.bits - 1

def W.bytes (w : W) : Nat := w.bits / 8

def W.narrow : W → Bool
  | .u8 | .u16 | .u32 => true
  | _ => false

def W.toString : W → String
  | .u8 => "u8" | .u16 => "u16" | .u32 => "u32" | .u64 => "u64" | .u256 => "u256"

def word : Nat := 2 ^ 64
def wide : Nat := 2 ^ 256

/-! ### FuelVM ALU, 64-bit registers. `none` = VM panic (ArithmeticOverflow / division by zero):
forc builds scripts without the `F_WRAPPING`/`F_UNSAFEMATH` flags. -/

def vmAdd (a b : Nat) : Option Nat := if a + b < word then some (a + b) else none
def vmSub (a b : Nat) : Option Nat := if b ≤ a then some (a - b) else none
def vmMul (a b : Nat) : Option Nat := if a * b < word then some (a * b) else none
def vmDiv (a b : Nat) : Option Nat := if b = 0 then none else some (a / b)
def vmMod (a b : Nat) : Option Nat := if b = 0 then none else some (a % b)
/-- `SLL`: `Word::checked_shl(b, c).unwrap_or_default()` -/
def vmSll (a s : Nat) : Nat := if s < 64 then (a <<< s) % word else 0
def vmSrl (a s : Nat) : Nat := if s < 64 then a >>> s else 0
def vmNot (a : Nat) : Nat := word - 1 - a
def vmAnd (a b : Nat) : Nat := a &&& b
def vmOr (a b : Nat) : Nat := a ||| b
def vmXor (a b : Nat) : Nat := a ^^^ b
def vmGt (a b : Nat) : Bool := decide (b < a)
def vmLt (a b : Nat) : Bool := decide (a < b)
def vmEq (a b : Nat) : Bool := decide (a = b)

/-! ### 256-bit wide ops (`WQOP`, `WQML`, `WQDV`) -/
def wqAdd (a b : Nat) : Option Nat := if a + b < wide then some (a + b) else none
def wqSub (a b : Nat) : Option Nat := if b ≤ a then some (a - b) else none
def wqMul (a b : Nat) : Option Nat := if a * b < wide then some (a * b) else none
def wqDiv (a b : Nat) : Option Nat := if b = 0 then none else some (a / b)
def wqMod (a b : Nat) : Option Nat := if b = 0 then none else some (a % b)
def wqShl (a s : Nat) : Nat := if s < 256 then (a <<< s) % wide else 0
def wqShr (a s : Nat) : Nat := if s < 256 then a >>> s else 0
def wqNot (a : Nat) : Nat := wide - 1 - a

/-! ### `ops.sw` recipes. `none` = the run reverts (VM panic or `__revert(0)`). -/

/-- the range check `if __gt(res_u64, MAX) { __revert(0) } else { res }` of the narrow types -/
def rangeCheck (w : W) (r : Nat) : Option Nat := if vmGt r w.max then none else some r

/-- `impl Add for uN` -/
def evalAdd : W → Nat → Nat → Option Nat
  | .u256, a, b => wqAdd a b
  | .u64, a, b => vmAdd a b
  | w, a, b => (vmAdd a b).bind (rangeCheck w)

/-- `impl Subtract for uN` -/
def evalSub : W → Nat → Nat → Option Nat
  | .u256, a, b => wqSub a b
  | .u64, a, b => vmSub a b
  | w, a, b => (vmSub a b).bind (rangeCheck w)

/-- `impl Multiply for uN` -/
def evalMul : W → Nat → Nat → Option Nat
  | .u256, a, b => wqMul a b
  | .u64, a, b => vmMul a b
  | w, a, b => (vmMul a b).bind (rangeCheck w)

/-- `impl Divide for uN` = `__div` -/
def evalDiv : W → Nat → Nat → Option Nat
  | .u256, a, b => wqDiv a b
  | _, a, b => vmDiv a b

/-- `impl Mod for uN` = `__mod` -/
def evalMod : W → Nat → Nat → Option Nat
  | .u256, a, b => wqMod a b
  | _, a, b => vmMod a b

/-- `impl Shift for uN::lsh`: `__and(__lsh(self, other), Self::max())` for the narrow types -/
def evalShl : W → Nat → Nat → Nat
  | .u256, a, s => wqShl a s
  | .u64, a, s => vmSll a s
  | w, a, s => vmAnd (vmSll a s) w.max

/-- `impl Shift for uN::rsh` = `__rsh` -/
def evalShr : W → Nat → Nat → Nat
  | .u256, a, s => wqShr a s
  | _, a, s => vmSrl a s

/-- `impl Not for uN`: `__and(__not(self), Self::max())` for the narrow types -/
def evalNot : W → Nat → Nat
  | .u256, a => wqNot a
  | .u64, a => vmNot a
  | w, a => vmAnd (vmNot a) w.max

inductive BinOp | add | sub | mul | div | mod | shl | shr | band | bor | bxor
  deriving DecidableEq, Repr

inductive CmpOp | eq | ne | lt | le | gt | ge
  deriving DecidableEq, Repr

/-- arithmetic/bitwise binary operator on two values of width `w` (`shl`/`shr`: rhs is a `u64`) -/
def evalBin (op : BinOp) (w : W) (a b : Nat) : Option Nat :=
  match op with
  | .add => evalAdd w a b
  | .sub => evalSub w a b
  | .mul => evalMul w a b
  | .div => evalDiv w a b
  | .mod => evalMod w a b
  | .shl => some (evalShl w a b)
  | .shr => some (evalShr w a b)
  | .band => some (vmAnd a b)
  | .bor => some (vmOr a b)
  | .bxor => some (vmXor a b)

/-- `Ord`/`PartialEq`/`OrdEq` (`ge` = `gt || eq`, `le` = `lt || eq`, `neq` = `!eq`) -/
def evalCmp (op : CmpOp) (a b : Nat) : Bool :=
  match op with
  | .eq => vmEq a b
  | .ne => !(vmEq a b)
  | .lt => vmLt a b
  | .gt => vmGt a b
  | .le => vmLt a b || vmEq a b
  | .ge => vmGt a b || vmEq a b

/-! ## Values and their ABI encoding (encoding v1: what `log(x)` emits as `LOGD` data) -/

inductive Val
  | int (w : W) (n : Nat)
  | bool (b : Bool)
  /-- tuple, struct or array: positional record -/
  | tup (vs : List Val)
  /-- enum value: variant index (declaration order) and payload -/
  | enm (tag : Nat) (v : Val)
  /-- result of a trapping VM operation that the lenient runs (`skip > 0`) assume to be dead code;
  never produced by the prescriptive semantics (`skip = 0`) -/
  | poison (w : W)
  deriving Repr, Inhabited

abbrev Bytes := List UInt8

/-- big-endian, exactly `k` bytes -/
def beBytes : Nat → Nat → Bytes
  | 0, _ => []
  | k + 1, n => UInt8.ofNat (n / 256 ^ k % 256) :: beBytes k n

mutual
  def encode : Val → Bytes
    | .int w n => beBytes w.bytes n
    | .bool b => [if b then 1 else 0]
    | .tup vs => encodeList vs
    | .enm t v => beBytes 8 t ++ encode v
    | .poison _ => []
  def encodeList : List Val → Bytes
    | [] => []
    | v :: vs => encode v ++ encodeList vs
end

def Val.unit : Val := .tup []

mutual
  def hasPoison : Val → Bool
    | .poison _ => true
    | .tup vs => hasPoisonList vs
    | .enm _ v => hasPoison v
    | _ => false
  def hasPoisonList : List Val → Bool
    | [] => false
    | v :: vs => hasPoison v || hasPoisonList vs
end

mutual
  def Val.beq : Val → Val → Bool
    | .int w n, .int w' n' => decide (w = w') && decide (n = n')
    | .bool b, .bool b' => b == b'
    | .tup vs, .tup vs' => Val.beqList vs vs'
    | .enm t v, .enm t' v' => decide (t = t') && Val.beq v v'
    | .poison _, .poison _ => true
    | _, _ => false
  def Val.beqList : List Val → List Val → Bool
    | [], [] => true
    | v :: vs, v' :: vs' => Val.beq v v' && Val.beqList vs vs'
    | _, _ => false
end

def envBeq : List (String × Val) → List (String × Val) → Bool
  | [], [] => true
  | (x, v) :: r, (x', v') :: r' => decide (x = x') && Val.beq v v' && envBeq r r'
  | _, _ => false

/-- Which failing operations are a bare trapping VM instruction whose result may be unused (and which the
real compiler then deletes, in both profiles): 64/256-bit `+ - *` and every `/ %`. The narrow `+ - *` feed
their result into the range check (`__gt … __revert(0)`), which is never dead. -/
def skippable : BinOp → W → Bool
  | .add, w | .sub, w | .mul, w => !w.narrow
  | .div, _ | .mod, _ => true
  | _, _ => false

/-! ## Syntax -/

inductive Pat
  | wild
  | bind (x : String)
  | int (w : W) (n : Nat)
  | bool (b : Bool)
  | enm (tag : Nat) (p : Pat)
  | tup (ps : List Pat)
  deriving Repr, Inhabited

mutual
  inductive Expr
    | lit (w : W) (n : Nat)
    | bool (b : Bool)
    | var (x : String)
    | bin (op : BinOp) (a b : Expr)
    | cmp (op : CmpOp) (a b : Expr)
    | land (a b : Expr)
    | lor (a b : Expr)
    /-- `!e` on `bool` or an integer -/
    | not (a : Expr)
    /-- widening `as_uN()` -/
    | cast (w : W) (a : Expr)
    /-- tuple / struct / array literal (fields in declaration order) -/
    | tup (es : List Expr)
    /-- `e.i` / `e.field` -/
    | proj (a : Expr) (i : Nat)
    /-- `e[i]` with a run-time index; out of bounds ⇒ revert (`Fail.oob`) -/
    | idx (a : Expr) (i : Expr)
    | enm (tag : Nat) (a : Expr)
    | ite (c : Expr) (t e : List Stmt)
    | block (b : List Stmt)
    | call (f : String) (args : List Expr)
    | mtch (a : Expr) (arms : List Arm)
  inductive Arm
    | mk (p : Pat) (e : Expr)
  inductive PathElem
    | fld (i : Nat)
    | idx (e : Expr)
  inductive Stmt
    | let_ (x : String) (e : Expr)
    | assign (x : String) (path : List PathElem) (e : Expr)
    | while_ (c : Expr) (b : List Stmt)
    | brk
    | cont
    | ret (e : Expr)
    /-- `e;` -/
    | expr (e : Expr)
    /-- final expression of a block (its value) -/
    | tail (e : Expr)
    | log (e : Expr)
    /-- `revert(e)` -/
    | revert (e : Expr)
    /-- `assert(e)` -/
    | assert (e : Expr)
    /-- `require(c, v)`: logs `v` then reverts when `c` is false -/
    | require (c : Expr) (v : Expr)
end

instance : Inhabited Expr := ⟨.bool false⟩

structure Fn where
  name : String
  params : List String
  body : List Stmt

structure Prog where
  fns : List Fn
  main : List Stmt

/-! ## Results -/

inductive Fail
  /-- `RVRT code` or a VM panic (code 0) -/
  | revert (code : Nat)
  /-- out-of-bounds array index: the semantics prescribe a revert -/
  | oob
  | stuck
  | unsupported
  /-- a lenient run observed a poison value: that run is not a possible behaviour -/
  | invalid
  deriving DecidableEq, Repr

structure St where
  env : List (String × Val)
  logs : List Bytes
  /-- number of trapping operations still assumed dead (0 in the prescriptive semantics) -/
  skip : Nat := 0

inductive Res (α : Type)
  | ok (a : α) (s : St)
  | brk (s : St)
  | cont (s : St)
  | ret (v : Val) (s : St)
  | fail (f : Fail) (logs : List Bytes)
  | oof

def Res.bind {α β : Type} : Res α → (α → St → Res β) → Res β
  | .ok a s, f => f a s
  | .brk s, _ => .brk s
  | .cont s, _ => .cont s
  | .ret v s, _ => .ret v s
  | .fail f l, _ => .fail f l
  | .oof, _ => .oof

def FAILED_REQUIRE_SIGNAL : Nat := 0xffff_ffff_ffff_0000
def FAILED_ASSERT_SIGNAL : Nat := 0xffff_ffff_ffff_0004

def lookup (x : String) : List (String × Val) → Option Val
  | [] => none
  | (y, v) :: r => if x = y then some v else lookup x r

def setVar (x : String) (v : Val) : List (String × Val) → Option (List (String × Val))
  | [] => none
  | (y, u) :: r => if x = y then some ((y, v) :: r) else (setVar x v r).map ((y, u) :: ·)

/-- leave a scope: keep the innermost `n` bindings of the enclosing scopes -/
def St.restore (s : St) (n : Nat) : St := { s with env := s.env.drop (s.env.length - n) }

def listSet {α : Type} : List α → Nat → α → Option (List α)
  | [], _, _ => none
  | _ :: r, 0, a => some (a :: r)
  | x :: r, n + 1, a => (listSet r n a).map (x :: ·)

/-- a resolved assignment path: (position, is-a-dynamic-index) -/
abbrev RPath := List (Nat × Bool)

inductive Upd | ok (v : Val) | oob | stuck

/-- functional update of a nested positional record -/
def updPath : Val → RPath → Val → Upd
  | _, [], new => .ok new
  | .tup vs, (i, dyn) :: p, new =>
    match vs[i]? with
    | none => if dyn then .oob else .stuck
    | some old =>
      match updPath old p new with
      | .ok v' => match listSet vs i v' with
        | some vs' => .ok (.tup vs')
        | none => .stuck
      | r => r
  | _, _ :: _, _ => .stuck

mutual
  /-- `none` = the pattern does not match -/
  def matchPat : Pat → Val → Option (List (String × Val))
    | .wild, _ => some []
    | .bind x, v => some [(x, v)]
    | .int w n, .int w' n' => if w = w' ∧ n = n' then some [] else none
    | .bool b, .bool b' => if b = b' then some [] else none
    | .enm t p, .enm t' v => if t = t' then matchPat p v else none
    | .tup ps, .tup vs => matchPats ps vs
    | _, _ => none
  def matchPats : List Pat → List Val → Option (List (String × Val))
    | [], [] => some []
    | p :: ps, v :: vs =>
      match matchPat p v, matchPats ps vs with
      | some a, some b => some (b ++ a)
      | _, _ => none
    | _, _ => none
end

def findFn (fs : List Fn) (f : String) : Option Fn := fs.find? (·.name = f)

/-! ## The interpreter: one unfolding (`step*`) over the previous approximation, iterated by fuel -/

section Step
variable (fns : List Fn)
variable (rE : Expr → St → Res Val) (rEs : List Expr → St → Res (List Val))
variable (rB : List Stmt → St → Res Val) (rS : Stmt → St → Res Val)
variable (rArms : Val → List Arm → St → Res Val) (rPath : List PathElem → St → Res RPath)

def failS {α : Type} (f : Fail) (s : St) : Res α := .fail f s.logs

/-- run a block in a fresh scope -/
def inScope (b : List Stmt) (s : St) : Res Val :=
  let n := s.env.length
  match rB b s with
  | .ok v s' => .ok v (s'.restore n)
  | r => r

/-- an operation with a poison operand: dead as well, unless its own range check observes the operand -/
def poisonBin (op : BinOp) (w : W) (s : St) : Res Val :=
  if (op = .add ∨ op = .sub ∨ op = .mul) ∧ w.narrow then failS .invalid s else .ok (.poison w) s

def binVals (op : BinOp) (a b : Val) (s : St) : Res Val :=
  match a, b with
  | .int w x, .int w' y =>
    if (op = .shl ∨ op = .shr) ∧ w' ≠ .u64 then failS .stuck s
    else if ¬(op = .shl ∨ op = .shr) ∧ w ≠ w' then failS .stuck s
    else match evalBin op w x y with
      | some r => .ok (.int w r) s
      | none =>
        if skippable op w ∧ 0 < s.skip then .ok (.poison w) { s with skip := s.skip - 1 }
        else failS (.revert 0) s
  | .poison w, .int _ _ => poisonBin op w s
  | .int w _, .poison _ => poisonBin op w s
  | .poison w, .poison _ => poisonBin op w s
  | .bool x, .bool y =>
    match op with
    | .band => .ok (.bool (x && y)) s
    | .bor => .ok (.bool (x || y)) s
    | .bxor => .ok (.bool (x != y)) s
    | _ => failS .stuck s
  | _, _ => failS .stuck s

def cmpVals (op : CmpOp) (a b : Val) (s : St) : Res Val :=
  match a, b with
  | .int w x, .int w' y => if w = w' then .ok (.bool (evalCmp op x y)) s else failS .stuck s
  | .bool x, .bool y =>
    match op with
    | .eq => .ok (.bool (x == y)) s
    | .ne => .ok (.bool (x != y)) s
    | _ => failS .stuck s
  | .poison _, .int _ _ | .int _ _, .poison _ | .poison _, .poison _
  | .poison _, .bool _ | .bool _, .poison _ => .ok (.poison .u8) s
  | _, _ => failS .unsupported s

def notVal (a : Val) (s : St) : Res Val :=
  match a with
  | .poison w => .ok (.poison w) s
  | .bool b => .ok (.bool (!b)) s
  | .int w x => .ok (.int w (evalNot w x)) s
  | _ => failS .stuck s

def castVal (w : W) (a : Val) (s : St) : Res Val :=
  match a with
  | .int w' x => if w'.bits ≤ w.bits then .ok (.int w x) s else failS .unsupported s
  | .poison _ => .ok (.poison w) s
  | _ => failS .stuck s

def projVal (a : Val) (i : Nat) (s : St) : Res Val :=
  match a with
  | .tup vs => match vs[i]? with
    | some v => .ok v s
    | none => failS .stuck s
  | _ => failS .stuck s

def idxVal (a i : Val) (s : St) : Res Val :=
  match a, i with
  | .tup vs, .int .u64 n => match vs[n]? with
    | some v => .ok v s
    | none => failS .oob s
  | .tup _, .poison _ => failS .invalid s
  | _, _ => failS .stuck s

/-- (lenient runs only) `if <poison> { t } else { e }`: the condition is unknown, so the `if` is a possible
behaviour only when it does not matter — both branches finish normally with the same logs, environment and
remaining skips (the compiler then deletes the whole `if`, and with it the trapping operation feeding it). -/
def bothBranches (r1 r2 : Res Val) (s : St) : Res Val :=
  match r1, r2 with
  | .oof, _ => .oof
  | _, .oof => .oof
  | .ok v1 s1, .ok v2 s2 =>
    if decide (s1.logs = s2.logs) && envBeq s1.env s2.env && decide (s1.skip = s2.skip) then
      .ok (if Val.beq v1 v2 then v1 else .poison .u8) s1
    else .fail .invalid s.logs
  | _, _ => .fail .invalid s.logs

def asBool (v : Val) (s : St) (k : Bool → Res Val) : Res Val :=
  match v with
  | .bool b => k b
  | .poison _ => failS .invalid s
  | _ => failS .stuck s

/-- `log(v)`: observes every part of `v` -/
def logVal (v : Val) (s : St) : Res Val :=
  if hasPoison v then failS .invalid s else .ok .unit { s with logs := s.logs ++ [encode v] }

def stepE : Expr → St → Res Val
  | .lit w n, s => if n ≤ w.max then .ok (.int w n) s else failS .stuck s
  | .bool b, s => .ok (.bool b) s
  | .var x, s => match lookup x s.env with
    | some v => .ok v s
    | none => failS .stuck s
  | .bin op a b, s => (rE a s).bind fun va s => (rE b s).bind fun vb s => binVals op va vb s
  | .cmp op a b, s => (rE a s).bind fun va s => (rE b s).bind fun vb s => cmpVals op va vb s
  | .land a b, s => (rE a s).bind fun va s => asBool va s fun x =>
      if x then (rE b s).bind fun vb s => asBool vb s fun y => .ok (.bool y) s else .ok (.bool false) s
  | .lor a b, s => (rE a s).bind fun va s => asBool va s fun x =>
      if x then .ok (.bool true) s else (rE b s).bind fun vb s => asBool vb s fun y => .ok (.bool y) s
  | .not a, s => (rE a s).bind fun va s => notVal va s
  | .cast w a, s => (rE a s).bind fun va s => castVal w va s
  | .tup es, s => (rEs es s).bind fun vs s => .ok (.tup vs) s
  | .proj a i, s => (rE a s).bind fun va s => projVal va i s
  | .idx a i, s => (rE a s).bind fun va s => (rE i s).bind fun vi s => idxVal va vi s
  | .enm t a, s => (rE a s).bind fun va s => .ok (.enm t va) s
  | .ite c t e, s => (rE c s).bind fun vc s =>
      match vc with
      | .poison _ => bothBranches (inScope rB t s) (inScope rB e s) s
      | _ => asBool vc s fun x => if x then inScope rB t s else inScope rB e s
  | .block b, s => inScope rB b s
  | .call f args, s => (rEs args s).bind fun vs s =>
      match findFn fns f with
      | none => failS .stuck s
      | some fn =>
        if fn.params.length ≠ vs.length then failS .stuck s else
        match rB fn.body { s with env := (fn.params.zip vs).reverse } with
        | .ok v s' => .ok v { s' with env := s.env }
        | .ret v s' => .ok v { s' with env := s.env }
        | .brk s' => failS .stuck s'
        | .cont s' => failS .stuck s'
        | .fail f l => .fail f l
        | .oof => .oof
  | .mtch a arms, s => (rE a s).bind fun va s =>
      if hasPoison va then failS .invalid s else rArms va arms s

def stepEs : List Expr → St → Res (List Val)
  | [], s => .ok [] s
  | e :: es, s => (rE e s).bind fun v s => (rEs es s).bind fun vs s => .ok (v :: vs) s

def stepArms : Val → List Arm → St → Res Val
  | _, [], s => failS .stuck s
  | v, .mk p e :: arms, s =>
    match matchPat p v with
    | some bs =>
      let n := s.env.length
      match rE e { s with env := bs ++ s.env } with
      | .ok r s' => .ok r (s'.restore n)
      | r => r
    | none => rArms v arms s

def stepPath : List PathElem → St → Res RPath
  | [], s => .ok [] s
  | .fld i :: p, s => (rPath p s).bind fun r s => .ok ((i, false) :: r) s
  | .idx e :: p, s => (rE e s).bind fun vi s =>
      match vi with
      | .int .u64 n => (rPath p s).bind fun r s => .ok ((n, true) :: r) s
      | .poison _ => failS .invalid s
      | _ => failS .stuck s

def stepB : List Stmt → St → Res Val
  | [], s => .ok .unit s
  | [st], s => rS st s
  | st :: rest, s => (rS st s).bind fun _ s => rB rest s

def stepS : Stmt → St → Res Val
  | .let_ x e, s => (rE e s).bind fun v s => .ok .unit { s with env := (x, v) :: s.env }
  | .assign x path e, s => (rE e s).bind fun v s => (rPath path s).bind fun rp s =>
      match lookup x s.env with
      | none => failS .stuck s
      | some old =>
        match updPath old rp v with
        | .ok new => match setVar x new s.env with
          | some env' => .ok .unit { s with env := env' }
          | none => failS .stuck s
        | .oob => failS .oob s
        | .stuck => failS .stuck s
  | .while_ c b, s => (rE c s).bind fun vc s => asBool vc s fun x =>
      if x then
        let n := s.env.length
        match rB b s with
        | .ok _ s' => rS (.while_ c b) (s'.restore n)
        | .cont s' => rS (.while_ c b) (s'.restore n)
        | .brk s' => .ok .unit (s'.restore n)
        | r => r
      else .ok .unit s
  | .brk, s => .brk s
  | .cont, s => .cont s
  | .ret e, s => (rE e s).bind fun v s => .ret v s
  | .expr e, s => (rE e s).bind fun _ s => .ok .unit s
  | .tail e, s => rE e s
  | .log e, s => (rE e s).bind fun v s => logVal v s
  | .revert e, s => (rE e s).bind fun v s =>
      match v with
      | .int .u64 n => failS (.revert n) s
      | .poison _ => failS .invalid s
      | _ => failS .stuck s
  | .assert e, s => (rE e s).bind fun v s => asBool v s fun x =>
      if x then .ok .unit s else failS (.revert FAILED_ASSERT_SIGNAL) s
  | .require c v, s => (rE c s).bind fun vc s => (rE v s).bind fun vv s => asBool vc s fun x =>
      if x then .ok .unit s
      else if hasPoison vv then failS .invalid s
      else .fail (.revert FAILED_REQUIRE_SIGNAL) (s.logs ++ [encode vv])

end Step

/-- the six mutually recursive evaluators at one fuel level -/
structure Evals where
  e : Expr → St → Res Val
  es : List Expr → St → Res (List Val)
  b : List Stmt → St → Res Val
  s : Stmt → St → Res Val
  arms : Val → List Arm → St → Res Val
  path : List PathElem → St → Res RPath

def Evals.bot : Evals :=
  ⟨fun _ _ => .oof, fun _ _ => .oof, fun _ _ => .oof, fun _ _ => .oof, fun _ _ _ => .oof, fun _ _ => .oof⟩

def Evals.next (fns : List Fn) (r : Evals) : Evals :=
  { e := stepE fns r.e r.es r.b r.arms
    es := stepEs r.e r.es
    b := stepB r.b r.s
    s := stepS r.e r.b r.s r.path
    arms := stepArms r.e r.arms
    path := stepPath r.e r.path }

/-- `fuel` unfoldings of the semantics; fuel bounds the nesting depth of evaluation -/
def evals (fns : List Fn) : Nat → Evals
  | 0 => .bot
  | n + 1 => (evals fns n).next fns

/-! ## Whole programs -/

inductive Outcome
  | ok (logs : List Bytes)
  | revert (code : Nat) (logs : List Bytes)
  /-- revert prescribed because of an out-of-bounds array index -/
  | oob (logs : List Bytes)
  | outOfFuel
  | stuck
  | unsupported
  /-- (lenient runs only) not a possible behaviour -/
  | invalid
  deriving DecidableEq, Repr

def Outcome.ofRes : Res Val → Outcome
  | .ok _ s => .ok s.logs
  | .ret _ s => .ok s.logs
  | .brk _ => .stuck
  | .cont _ => .stuck
  | .fail (.revert c) l => .revert c l
  | .fail .oob l => .oob l
  | .fail .stuck _ => .stuck
  | .fail .unsupported _ => .unsupported
  | .fail .invalid _ => .invalid
  | .oof => .outOfFuel

/-- `skip` = number of trapping-but-possibly-dead operations (see `skippable`) assumed to have been deleted by
the compiler, in execution order. `skip = 0` is the prescriptive semantics. -/
def runSkip (p : Prog) (fuel skip : Nat) : Outcome :=
  Outcome.ofRes ((evals p.fns fuel).b p.main { env := [], logs := [], skip := skip })

/-- What the Sway semantics prescribe for `p` (C01). -/
def run (p : Prog) (fuel : Nat) : Outcome := runSkip p fuel 0

/-- An outcome is *finished* when it does not depend on the fuel bound. -/
def Outcome.finished : Outcome → Bool
  | .outOfFuel => false
  | _ => true

end SwayVerif.SwaySem
