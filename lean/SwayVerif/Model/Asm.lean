/-!
# M-Asm — abstract register machine code and the register allocator of `sway-core`

Import-free (core Lean only): linked into the native drivers. Shared by C08 (register allocation)
and C07 (assembly optimisations).

Modelled code (`sway-core/src/asm_generation/fuel/`):
`analyses.rs::liveness_analysis`, `register_allocator.rs::{create_interference_graph,
coalesce_registers, assign_registers, spill_offsets}`, `asm_lang::Op::successors`.
Not modelled (heuristics, tied by the checker `validAlloc` instead): the simplify / spill-candidate
choice of `color_interference_graph`; the spill-code emitter `spill` (its slot choice
`spill_offsets` is modelled).

An op is what the allocator sees of a real `Op`: its kind, `def_registers`, `use_registers`,
`def_const_registers`, successors and whether it has a side effect. The text form is produced by
the hook `sway_core::verif_hooks::regalloc` (see `Driver/AsmText.lean` for the parser).
-/
namespace SwayVerif.Asm

/-- `VirtualRegister`: `virt k` = `Virtual(name)` with `k` the rank of `name` in the register order
of the compiler (string order), `const i` = `Constant(c)` with `i` the declaration index of `c`. -/
inductive Reg where
  | virt (n : Nat)
  | const (n : Nat)
deriving DecidableEq, Repr, Inhabited

def Reg.isVirt : Reg → Bool
  | .virt _ => true
  | .const _ => false

/-- derived `Ord` of `VirtualRegister`: all `Virtual` before all `Constant`. -/
def Reg.le : Reg → Reg → Bool
  | .virt a, .virt b => a ≤ b
  | .virt _, .const _ => true
  | .const _, .virt _ => false
  | .const a, .const b => a ≤ b

/-- Kind of an op as far as control flow and the MOVE special cases are concerned. -/
inductive Kind where
  | move
  | label (l : Nat)
  | jump (l : Nat)
  | jnz (l : Nat)
  | call (l : Nat)
  | jmpaddr
  | retcall
  | rvrt
  | comment
  | other (mnemonic : String) (imm : Option Nat)
deriving DecidableEq, Repr, Inhabited

structure AOp where
  kind : Kind
  defs : List Reg
  uses : List Reg
  defConst : List Reg := []
  succ : List Nat := []
  sideEffect : Bool := true
deriving DecidableEq, Repr, Inhabited

abbrev RSet := List Reg

/-! ## successors (`Op::successors`, `VirtualOp::successors`, `ControlFlowOp::successors`) -/

/-- `label_to_index` of `liveness_analysis`: a `HashMap` filled in op order, a later duplicate wins. -/
def labelIndexFrom (l : Nat) : List AOp → Nat → Option Nat → Option Nat
  | [], _, acc => acc
  | op :: ops, i, acc => labelIndexFrom l ops (i + 1) (if op.kind = .label l then some i else acc)

def labelIndex (ops : List AOp) (l : Nat) : Option Nat := labelIndexFrom l ops 0 none

def nextOf (n i : Nat) : List Nat := if i + 1 < n then [i + 1] else []

/-- Successors of the op at index `i` recomputed from the kinds. `none` = the Rust code panics
(`label_to_index[to]` on a label that does not exist). -/
def succOf (ops : List AOp) (i : Nat) (k : Kind) : Option (List Nat) :=
  match k with
  | .jump l => (labelIndex ops l).map fun t => [t]
  | .jnz l => (labelIndex ops l).map fun t => t :: nextOf ops.length i
  | .jmpaddr => some []
  | .retcall => some []
  | .rvrt => some []
  | _ => some (nextOf ops.length i)

def withSuccFrom (all : List AOp) : List AOp → Nat → Option (List AOp)
  | [], _ => some []
  | op :: ops, i => do
      let s ← succOf all i op.kind
      let r ← withSuccFrom all ops (i + 1)
      pure ({ op with succ := s } :: r)

/-- The op list with every `succ` field recomputed by the model. -/
def withSucc (ops : List AOp) : Option (List AOp) := withSuccFrom ops ops 0

/-! ## liveness (`analyses.rs::liveness_analysis`) -/

/-- `set.insert(r)` on a set kept as a duplicate-free list. -/
def ins (s : RSet) (r : Reg) : RSet := if r ∈ s then s else s ++ [r]

/-- insert all; the flag is the OR of the `insert` results (something was new). -/
def insAll (s : RSet) (rs : List Reg) : RSet × Bool :=
  (rs.foldl ins s, !(rs.all fun r => decide (r ∈ s)))

structure LState where
  liveIn : List RSet
  liveOut : List RSet
deriving DecidableEq, Repr

/-- registers looked at: `ignore_constant_regs = true` keeps the virtual ones only. -/
def keepReg (ignoreConst : Bool) (r : Reg) : Bool := !ignoreConst || r.isVirt

/-- The body of the `for` loop for the op at index `i`. -/
def stepAt (ic : Bool) (st : LState) (i : Nat) (op : AOp) : LState × Bool :=
  let succIn := op.succ.flatMap fun s => st.liveIn.getD s []
  let lo := insAll (st.liveOut.getD i []) succIn
  let use := op.uses.filter (keepReg ic)
  let defs := op.defs.filter (keepReg ic)
  let li := insAll (st.liveIn.getD i []) (use ++ lo.1.filter fun l => !decide (l ∈ defs))
  ({ liveIn := st.liveIn.set i li.1, liveOut := st.liveOut.set i lo.1 }, lo.2 || li.2)

def passStep (ic : Bool) (acc : LState × Bool) (x : AOp × Nat) : LState × Bool :=
  let r := stepAt ic acc.1 x.2 x.1
  (r.1, acc.2 || r.2)

/-- `ops` paired with their indices. -/
def indexed : List AOp → Nat → List (AOp × Nat)
  | [], _ => []
  | op :: ops, i => (op, i) :: indexed ops (i + 1)

/-- One round of the `while modified` loop: all ops in reverse order. -/
def pass (ic : Bool) (ops : List AOp) (st : LState) : LState × Bool :=
  (indexed ops 0).reverse.foldl (passStep ic) (st, false)

/-- The `while modified` loop. `none` = the loop bound of the model was exhausted. -/
def liveLoop (ic : Bool) (ops : List AOp) : Nat → LState → Option LState
  | 0, _ => none
  | fuel + 1, st =>
    let r := pass ic ops st
    if r.2 then liveLoop ic ops fuel r.1 else some r.1

/-- Every change adds a used register to one of `2·|ops|` sets. -/
def liveFuel (ops : List AOp) : Nat :=
  2 * ops.length * (ops.foldl (fun n op => n + op.uses.length) 0) + 2

def livenessFull (ic : Bool) (ops : List AOp) : Option LState :=
  liveLoop ic ops (liveFuel ops)
    { liveIn := List.replicate ops.length [], liveOut := List.replicate ops.length [] }

/-- `liveness_analysis(ops, ignore_constant_regs)` = the `live_out` table. -/
def liveness (ic : Bool) (ops : List AOp) : Option (List RSet) :=
  (livenessFull ic ops).map (·.liveOut)

/-- Decidable form of the dataflow inequations at one op. -/
def solvedAt (ic : Bool) (li lo : List RSet) (i : Nat) (op : AOp) : Bool :=
  (op.uses.all fun r => !keepReg ic r || decide (r ∈ li.getD i []))
  && ((lo.getD i []).all fun r => decide (r ∈ op.defs) || decide (r ∈ li.getD i []))
  && (op.succ.all fun s => (li.getD s []).all fun r => decide (r ∈ lo.getD i []))

/-- `li`, `lo` solve the liveness inequations of `ops` (checker). -/
def isSolution (ic : Bool) (ops : List AOp) (li lo : List RSet) : Bool :=
  (indexed ops 0).all fun x => solvedAt ic li lo x.2 x.1

/-- `live_in` derived from a `live_out` table: `use ∪ (live_out \ def)`. -/
def liveInOf (ic : Bool) (ops : List AOp) (lo : List RSet) : List RSet :=
  (ops.zip lo).map fun x =>
    (x.1.uses.filter (keepReg ic)) ++ x.2.filter fun r => !decide (r ∈ x.1.defs)

/-! ## interference graph (`create_interference_graph`) -/

/-- Directed edges `v → b` ("`b` was live when `v` was defined"), no duplicates
(`StableGraph::update_edge`). -/
abbrev Graph := List (Reg × Reg)

def addEdge (g : Graph) (a b : Reg) : Graph := if (a, b) ∈ g then g else g ++ [(a, b)]

/-- `MOVE(v, c)`: destination and source. -/
def moveOf? (op : AOp) : Option (Reg × Reg) :=
  match op.kind, op.defs, op.uses with
  | .move, [v], [c] => some (v, c)
  | _, _, _ => none

/-- edges `v → b` for the live-out registers `b` accepted by `ok`. -/
def addEdgesFrom (v : Reg) (ok : Reg → Bool) (g : Graph) (lo : RSet) : Graph :=
  lo.foldl (fun g b => if b.isVirt && ok b then addEdge g v b else g) g

/-- One iteration of the `for (ix, regs) in live_out` loop. Only virtual registers are graph nodes. -/
def interfAt (g : Graph) (op : AOp) (lo : RSet) : Graph :=
  match moveOf? op with
  | some (v, c) =>
    if v.isVirt then addEdgesFrom v (fun b => b != c && b != v) g lo else g
  | none =>
    op.defs.foldl (fun g v => if v.isVirt then addEdgesFrom v (fun b => b != v) g lo else g) g

def interferenceFrom (g : Graph) : List (AOp × RSet) → Graph
  | [] => g
  | x :: xs => interferenceFrom (interfAt g x.1 x.2) xs

def interference (ops : List AOp) (lo : List RSet) : Graph := interferenceFrom [] (ops.zip lo)

/-- undirected adjacency (`neighbors_undirected`, `contains_edge` either way). -/
def adj (g : Graph) (a b : Reg) : Bool := decide ((a, b) ∈ g) || decide ((b, a) ∈ g)

/-- `neighbors_undirected(n)`: targets of outgoing, then sources of incoming edges (a node linked
both ways is listed twice, as in petgraph). -/
def nbrs (g : Graph) (n : Reg) : List Reg :=
  (g.filter fun e => e.1 == n).map (·.2) ++ (g.filter fun e => e.2 == n).map (·.1)

/-! ## coalescing (`coalesce_registers`) -/

/-- `set.iter().collect::<IndexSet>()` -/
def dedup (l : List Reg) : List Reg := l.foldl ins []

def degree (g : Graph) (n : Reg) : Nat := (nbrs g n).length

/-- Briggs or George test exactly as coded (`K` = `NUM_ALLOCATABLE_REGISTERS`). -/
def coalesceSafe (K : Nat) (g : Graph) (r1 r2 : Reg) : Bool :=
  let n1 := dedup (nbrs g r1)
  let n2 := dedup (nbrs g r2)
  let union := n2.foldl ins n1
  let briggs := decide ((union.filter fun n => decide (K ≤ degree g n)).length < K)
  let george := n2.all fun n => decide (n ∈ n1) || decide (degree g n < K)
  briggs || george

/-- `reg_to_reg_map`, kept fully resolved (every value is a root), which is what the
`while let Some(t) = reg_to_reg_map.get(r)` chains compute. -/
abbrev RegMap := List (Reg × Reg)

def rep (m : RegMap) (r : Reg) : Reg := (m.lookup r).getD r

/-- `r1` is merged into `r2`. -/
def mergeMap (m : RegMap) (r1 r2 : Reg) : RegMap :=
  (r1, r2) :: m.map fun e => (e.1, if e.2 = r1 then r2 else e.2)

/-- All edges of `r1` are handed to `r2` as incoming edges unless `r2 → n` exists, then `r1` is
removed with all its edges. -/
def mergeGraph (g : Graph) (r1 r2 : Reg) : Graph :=
  let g' := (dedup (nbrs g r1)).foldl (fun g n => if (r2, n) ∈ g then g else addEdge g n r2) g
  g'.filter fun e => !(e.1 == r1) && !(e.2 == r1)

structure CoState where
  graph : Graph
  map : RegMap
  /-- kept ops with their live-out sets, in REVERSE order -/
  kept : List (AOp × RSet)
deriving Repr

/-- The body of the `for (op_idx, op)` loop. `safe` abstracts the Briggs/George test. -/
def coalesceStep (safe : Graph → Reg → Reg → Bool) (st : CoState) (x : AOp × RSet) : CoState :=
  match moveOf? x.1 with
  | some (.virt a, .virt b) =>
    let r1 := rep st.map (.virt a)
    let r2 := rep st.map (.virt b)
    if r1 = r2 then st
    else if adj st.graph r1 r2 || !safe st.graph r1 r2 then { st with kept := x :: st.kept }
    else { graph := mergeGraph st.graph r1 r2, map := mergeMap st.map r1 r2, kept := st.kept }
  | _ => { st with kept := x :: st.kept }

def renameRegs (m : RegMap) (l : List Reg) : List Reg := dedup (l.map (rep m))

/-- `Op::update_register` as seen through `def_registers` / `use_registers` (sets). -/
def renameOp (m : RegMap) (op : AOp) : AOp :=
  { op with defs := renameRegs m op.defs, uses := renameRegs m op.uses }

structure CoResult where
  ops : List AOp
  liveOut : List RSet
  graph : Graph
  map : RegMap
deriving Repr

def coalesceWith (safe : Graph → Reg → Reg → Bool) (ops : List AOp) (lo : List RSet) (g : Graph) :
    CoResult :=
  let st := (ops.zip lo).foldl (coalesceStep safe) { graph := g, map := [], kept := [] }
  let kept := st.kept.reverse
  { ops := kept.map fun x => renameOp st.map x.1
    liveOut := kept.map fun x => renameRegs st.map x.2
    graph := st.graph
    map := st.map }

/-- `coalesce_registers` (the `succ` fields of the result are those of the input ops; recompute
them with `withSucc`). -/
def coalesce (K : Nat) (ops : List AOp) (lo : List RSet) (g : Graph) : CoResult :=
  coalesceWith (coalesceSafe K) ops lo g

/-! ## assignment (`assign_registers`) -/

/-- `RegisterPool`: the `used_by` set of pool register `k` at position `k`. -/
abbrev Pool := List RSet

def freeFor (g : Graph) (n : Reg) (used : RSet) : Bool :=
  (nbrs g n).all fun m => !decide (m ∈ used)

def addAt : Pool → Nat → Reg → Pool
  | [], _, _ => []
  | u :: p, 0, r => (ins u r) :: p
  | u :: p, k + 1, r => u :: addAt p k r

/-- first pool register none of whose users is a neighbour -/
def firstFree (g : Graph) (n : Reg) : Pool → Nat → Option Nat
  | [], _ => none
  | u :: p, k => if freeFor g n u then some k else firstFree g n p (k + 1)

/-- One `stack.pop()`. `none` = `Err("The allocator cannot resolve a register mapping")`. -/
def assignStep (g : Graph) (pool : Pool) (n : Reg) : Option Pool :=
  if n.isVirt then
    match firstFree g n pool 0 with
    | some k => some (addAt pool k n)
    | none => none
  else some pool

def assignFrom (g : Graph) : Pool → List Reg → Option Pool
  | pool, [] => some pool
  | pool, n :: ns => match assignStep g pool n with
    | some p => assignFrom g p ns
    | none => none

/-- `assign_registers(graph, stack)`; the stack is popped from its END. -/
def assign (g : Graph) (K : Nat) (stack : List Reg) : Option Pool :=
  assignFrom g (List.replicate K []) stack.reverse

def colourFrom (r : Reg) : Pool → Nat → Option Nat
  | [], _ => none
  | u :: p, k => if r ∈ u then some k else colourFrom r p (k + 1)

/-- `RegisterPool::get_register` -/
def colourOf (pool : Pool) (r : Reg) : Option Nat := colourFrom r pool 0

/-! ## spill slots (`spill_offsets`) -/

def insertSorted (r : Reg) : List Reg → List Reg
  | [] => [r]
  | x :: xs => if r.le x then r :: x :: xs else x :: insertSorted r xs

/-- `spills.iter().collect(); sort()` of a set -/
def sortRegs (l : List Reg) : List Reg := (dedup l).foldr insertSorted []

def offsetsFrom (locals : Nat) : List Reg → Nat → List (Reg × Nat)
  | [], _ => []
  | r :: rs, i => (r, i * 8 + locals) :: offsetsFrom locals rs (i + 1)

/-- `spill_offsets(spills, locals_size_bytes)`; `none` = the `u32` arithmetic overflows. -/
def spillOffsets (spills : List Reg) (locals : Nat) : Option (List (Reg × Nat)) :=
  let s := sortRegs spills
  if s.length * 8 + locals < 2 ^ 32 then some (offsetsFrom locals s 0) else none

/-! ## the checker of the property -/

/-- both registers have a location and it is the same one -/
def sameLoc {γ : Type} [DecidableEq γ] (col : Reg → Option γ) (v w : Reg) : Bool :=
  match col v, col w with
  | some a, some b => decide (a = b)
  | _, _ => false

/-- A definition of `v` at `op` may not share its location with `w` live afterwards, except for the
copy `MOVE v w` itself (both then hold the same value). -/
def clobberFree {γ : Type} [DecidableEq γ] (col : Reg → Option γ) (op : AOp) (lo : RSet) : Bool :=
  op.defs.all fun v => !v.isVirt || lo.all fun w =>
    !w.isVirt || decide (w = v) || decide (moveOf? op = some (v, w)) || !sameLoc col v w

/-- every virtual register of the op has a location accepted by `ok` -/
def located {γ : Type} (col : Reg → Option γ) (ok : γ → Bool) (op : AOp) : Bool :=
  (op.defs ++ op.uses).all fun r => !r.isVirt || match col r with
    | some c => ok c
    | none => false

/-- CHECKER. `lo` = a live-out table of `ops`; `col` = virtual register ↦ pool register;
`K` = pool size. No definition clobbers a live value, and every virtual register that occurs has
a pool register below `K`. -/
def validAlloc (ops : List AOp) (lo : List RSet) (col : Reg → Option Nat) (K : Nat) : Bool :=
  decide (lo.length = ops.length)
  && ((ops.zip lo).all fun x => clobberFree col x.1 x.2)
  && (ops.all fun op => located col (fun c => decide (c < K)) op)
  && (lo.all fun l => l.all fun r => !r.isVirt || match col r with
    | some c => decide (c < K)
    | none => false)

/-- same kind, same set of defs, same set of uses -/
def sameShape (a b : AOp) : Bool :=
  decide (a.kind = b.kind)
  && a.defs.all (fun r => decide (r ∈ b.defs)) && b.defs.all (fun r => decide (r ∈ a.defs))
  && a.uses.all (fun r => decide (r ∈ b.uses)) && b.uses.all (fun r => decide (r ∈ a.uses))

/-- a virtual-to-virtual MOVE whose two ends are renamed to the same register -/
def removableMove (m : RegMap) (op : AOp) : Bool :=
  match moveOf? op with
  | some (.virt a, .virt b) => decide (rep m (.virt a) = rep m (.virt b))
  | _ => false

/-- CHECKER for the coalescing step: `fin` is `pre` with every register renamed by `m`, where some
MOVEs whose two ends got the same name are left out (and nothing else is). -/
def coalesceMatches (m : RegMap) : List AOp → List AOp → Bool
  | [], fs => fs.isEmpty
  | p :: ps, [] => removableMove m p && coalesceMatches m ps []
  | p :: ps, f :: fs =>
    if sameShape (renameOp m p) f then coalesceMatches m ps fs
    else removableMove m p && coalesceMatches m ps (f :: fs)

/-- CHECKER, end to end for one colouring round: `pre` = the op list the round started from,
`lo` = a live-out table of `pre`, `m` = the renaming applied by coalescing, `col` = the pool
register of each representative, `fin` = the ops the assignment was applied to.
`validAlloc` of the COMPOSED location map on `pre` (so a wrong merge shows up as a clobber in the
op list before coalescing) and `fin` is the renamed `pre` without self-moves. -/
def validRound (pre : List AOp) (lo : List RSet) (m : RegMap) (col : Reg → Option Nat) (K : Nat)
    (fin : List AOp) : Bool :=
  validAlloc pre lo (fun r => col (rep m r)) K && coalesceMatches m pre fin

/-- Slots of 8 bytes at `a` and `b` do not overlap. -/
def slotsApart (a b : Nat) : Bool := decide (a + 8 ≤ b) || decide (b + 8 ≤ a)

/-- CHECKER for a spill round: spilled registers that interfere get non-overlapping slots. -/
def validSlots (ops : List AOp) (lo : List RSet) (slots : List (Reg × Nat)) : Bool :=
  decide (lo.length = ops.length)
  && (ops.zip lo).all fun x =>
    x.1.defs.all fun v => x.2.all fun w =>
      decide (w = v) || decide (moveOf? x.1 = some (v, w)) ||
      match slots.lookup v, slots.lookup w with
      | some a, some b => slotsApart a b
      | _, _ => true


/-! ## the abstract machine (virtual-register code and allocated code run on the same machine) -/

/-- What an op does, for arbitrary value and memory types: from its position `pc` (which fixes
opcode and immediates), the values of its `uses` (in list order) and the memory, it produces the
values written to `defs ++ defConst` (in list order), the new memory and the next `pc`.
`none` = the machine stops (return, revert, panic). The semantics cannot look at register
NAMES, only at the values read. -/
structure Sem (V M : Type) where
  exec : Nat → List V → M → Option (List V × M × Nat)

structure MState (V M : Type) where
  pc : Nat
  regs : Reg → V
  mem : M

/-- write `ps` (register, value) pairs; for a register listed twice the first pair wins -/
def writeList {V : Type} (f : Reg → V) : List (Reg × V) → Reg → V
  | [] => f
  | p :: ps => fun x => if x = p.1 then p.2 else writeList f ps x

/-- One step. `none` = stopped or stuck (also when the successor chosen by `exec` is not one the
compiler knows about). -/
def step {V M : Type} (sem : Sem V M) (ops : List AOp) (s : MState V M) : Option (MState V M) :=
  match ops[s.pc]? with
  | none => none
  | some op =>
    match sem.exec s.pc (op.uses.map s.regs) s.mem with
    | none => none
    | some (outs, m, nxt) =>
      if nxt ∈ op.succ then
        some { pc := nxt, regs := writeList s.regs ((op.defs ++ op.defConst).zip outs), mem := m }
      else none

/-- Registers after allocation: virtual register `v` becomes pool register `col v` (written
`virt k`, i.e. `$r<k>` = `AllocatedRegister::Allocated(k)`), constant registers stay. -/
def allocReg (col : Reg → Option Nat) : Reg → Reg
  | .virt n => .virt ((col (.virt n)).getD 0)
  | .const c => .const c

/-- `Op::allocate_registers(&pool)`: positional renaming, nothing else changes. -/
def mapOp (f : Reg → Reg) (op : AOp) : AOp :=
  { op with defs := op.defs.map f, uses := op.uses.map f, defConst := op.defConst.map f }

end SwayVerif.Asm
