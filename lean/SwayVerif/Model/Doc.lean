/-!
# Model of `sway-lsp/src/core/document.rs` (`TextDocument`) and of the LSP client's view

Import-free (core Lean only) so that the driver links as a `lean_exe`.

A Rust `String` is modelled as `List Char` together with explicit UTF-8 byte arithmetic: every
index the Rust code computes is a *byte* offset, and slicing at a byte offset that is not a
character boundary (or out of range) is the Rust panic, made explicit as `none`/`Res.panic`.
LSP positions count `character` in UTF-16 code units.
-/
namespace SwayVerif.Doc

/-- `char::len_utf8` -/
def u8len (c : Char) : Nat :=
  if c.val.toNat < 0x80 then 1 else if c.val.toNat < 0x800 then 2 else if c.val.toNat < 0x10000 then 3 else 4

/-- `char::len_utf16` -/
def u16len (c : Char) : Nat := if c.val.toNat < 0x10000 then 1 else 2

/-- `str::len` (bytes) -/
def blen : List Char → Nat
  | [] => 0
  | c :: cs => u8len c + blen cs

/-- Split a Rust string at byte offset `n`; `none` = Rust panic (not a char boundary / out of range). -/
def splitAtByte : List Char → Nat → Option (List Char × List Char)
  | cs, 0 => some ([], cs)
  | [], _ + 1 => none
  | c :: cs, n + 1 =>
    if n + 1 < u8len c then none
    else match splitAtByte cs (n + 1 - u8len c) with
      | some (a, b) => some (c :: a, b)
      | none => none

/-- `&s[a..b]` -/
def sliceBytes (s : List Char) (a b : Nat) : Option (List Char) :=
  if b < a then none else
  match splitAtByte s a with
  | none => none
  | some (_, r) => match splitAtByte r (b - a) with
    | none => none
    | some (m, _) => some m

/-- `calculate_line_offsets`: `i` is the running byte index (`char_indices`). -/
def lineOffsetsAux : List Char → Nat → List Nat
  | [], _ => []
  | c :: cs, i => if c = '\n' then (i + 1) :: lineOffsetsAux cs (i + u8len c) else lineOffsetsAux cs (i + u8len c)

def lineOffsets (s : List Char) : List Nat := 0 :: lineOffsetsAux s 0

/-- `str::strip_suffix(ch).unwrap_or(s)` -/
def stripSuffixChar (s : List Char) (ch : Char) : List Char :=
  match s.reverse with
  | c :: r => if c = ch then r.reverse else s
  | [] => s

/-- The `for (index, c) in line_text.char_indices()` loop of `try_position_to_index`.
`idx` = byte index reached, `units` = UTF-16 units consumed. -/
def walkLine : List Char → (idx units target : Nat) → Option Nat
  | [], idx, units, target => if units > target then none else some idx
  | c :: cs, idx, units, target =>
    if units = target then some idx
    else if units > target then none
    else walkLine cs (idx + u8len c) (units + u16len c) target

structure Pos where
  line : Nat
  character : Nat
deriving Repr, DecidableEq

structure Range where
  start : Pos
  stop : Pos
deriving Repr, DecidableEq

/-- Outcome of a server operation. `panic` is a Rust panic. -/
inductive Res (α : Type) where
  | ok : α → Res α
  | err : Res α          -- `DocumentError::InvalidRange`, document unchanged
  | panic : Res α
deriving Repr, DecidableEq

/-- `try_position_to_index`. Outer `none` = Rust panic (slice), inner `none` = the function's `None`. -/
def tryPositionToIndex (content : List Char) (offsets : List Nat) (p : Pos) : Option (Option Nat) :=
  match offsets[p.line]? with
  | none => some (some (blen content))
  | some lineStart =>
    let lineEnd := (offsets[p.line + 1]?).getD (blen content)
    match sliceBytes content lineStart lineEnd with
    | none => none
    | some lineText =>
      let lineText := stripSuffixChar lineText '\n'
      let lineText := stripSuffixChar lineText '\r'
      some (walkLine lineText lineStart 0 p.character)

/-- `String::replace_range(start..end, text)` -/
def replaceRange (content : List Char) (s e : Nat) (text : List Char) : Option (List Char) :=
  if e < s then none else
  match splitAtByte content s with
  | none => none
  | some (pre, r) => match splitAtByte r (e - s) with
    | none => none
    | some (_, post) => some (pre ++ text ++ post)

/-- `validate_range` followed by the two `position_to_index` calls and `replace_range` of `apply_change`. -/
def serverApplyRange (content : List Char) (r : Range) (text : List Char) : Res (List Char) :=
  let offsets := lineOffsets content
  match tryPositionToIndex content offsets r.start, tryPositionToIndex content offsets r.stop with
  | none, _ => .panic
  | _, none => .panic
  | some none, _ => .err
  | _, some none => .err
  | some (some s), some (some e) =>
    if s > e || e > blen content then .err
    else match replaceRange content s e text with
      | none => .panic
      | some c => .ok c

/-- `apply_change` -/
def serverApply (content : List Char) (r : Option Range) (text : List Char) : Res (List Char) :=
  match r with
  | none => .ok text
  | some r => serverApplyRange content r text

/-! ## The client's view (LSP specification; reference: vscode-languageserver-textdocument) -/

/-- Prefix of a single line's content (no terminator) lying before UTF-16 column `col`;
clamped at the end of the line; `none` when `col` falls inside a surrogate pair. -/
def colPrefix : List Char → Nat → Option (List Char)
  | _, 0 => some []
  | [], _ + 1 => some []
  | c :: cs, col + 1 =>
    if col + 1 < u16len c then none
    else match colPrefix cs (col + 1 - u16len c) with
      | some p => some (c :: p)
      | none => none

/-- Split off the first line: `(line including its '\n', rest)`; `none` if there is no `'\n'`. -/
def breakLine : List Char → Option (List Char × List Char)
  | [] => none
  | c :: cs => if c = '\n' then some ([c], cs) else
    match breakLine cs with
    | some (l, r) => some (c :: l, r)
    | none => none

/-- Content of the first line without its terminator (`\n` or `\r\n`, or a trailing `\r`). -/
def firstLineContent (s : List Char) : List Char :=
  let l := match breakLine s with
    | some (l, _) => l
    | none => s
  stripSuffixChar (stripSuffixChar l '\n') '\r'

/-- The text before position `(line, col)` as the client understands it. `none` = not a position
(inside a surrogate pair). A line past the end denotes the end of the document. -/
def clientPrefix : List Char → Nat → Nat → Option (List Char)
  | s, 0, col => colPrefix (firstLineContent s) col
  | s, line + 1, col =>
    match breakLine s with
    | none => some s
    | some (l, r) => match clientPrefix r line col with
      | some p => some (l ++ p)
      | none => none

/-- The client's edit: replace the text between the two positions. `none` = invalid range. -/
def clientApplyRange (doc : List Char) (r : Range) (text : List Char) : Option (List Char) :=
  match clientPrefix doc r.start.line r.start.character, clientPrefix doc r.stop.line r.stop.character with
  | some p, some q =>
    if p.length ≤ q.length then some (p ++ text ++ doc.drop q.length) else none
  | _, _ => none

def clientApply (doc : List Char) (r : Option Range) (text : List Char) : Option (List Char) :=
  match r with
  | none => some text
  | some r => clientApplyRange doc r text

end SwayVerif.Doc

namespace SwayVerif.Doc
/-- The property's own predicate (C23), decidable, evaluated by the driver on the *implementation's*
result: a valid edit yields exactly the client's text; an invalid range is rejected (document
unaltered); never a panic. -/
def propHolds (doc : List Char) (r : Option Range) (text : List Char) (impl : Res (List Char)) : Bool :=
  match clientApply doc r text with
  | some d => decide (impl = .ok d)
  | none => decide (impl = .err)
end SwayVerif.Doc
