/-!
# C24 — model of the sway-lsp compilation scheduling protocol (import-free)

Anchors: `sway-lsp/src/server_state.rs` (`spawn_compilation_thread`, `wait_for_parsing`),
`sway-lsp/src/handlers/notification.rs` (`handle_did_open_text_document`,
`handle_did_change_text_document`, `handle_did_save_text_document`,
`send_new_compilation_request`), and the `retrigger_compilation` check points of compilation
(`sway-core/src/lib.rs: check_should_abort`, `forc-pkg/src/pkg.rs: check`).

Shared store: `ic` = `is_compiling`, `rt` = `retrigger_compilation`, `chan` = the crossbeam
`bounded(1)` channel (`true` = holds one request), `nw` = number of `notify_waiters()` calls of the
tokio `Notify` (a `Notified` future records this counter when it is *created* and completes as soon
as the counter differs — `notify_waiters` stores no permit), `ls` = `last_compilation_state`,
`latest` = version of the document on disk (bumped by every `did_change` write), `lastDone` =
version read by the last compilation that ran to completion (was not aborted).

Threads: one worker (OS thread) and any number of handler tasks, each a program counter machine
with one step per shared access, in the order of the code. `Step` lets every thread move at every
shared access (handlers pre-emptible everywhere — the permissive model used for the positive
theorems). `coopOk` recognises the schedules the real server can produce (two handlers are futures
polled by one task and switch only at `.await`), used for the negative witnesses.

`Cfg` records the three places in which the code was repaired (so that both the code as it was and
the code as it is are instances of one model) and the protocol assumption `openedFirst`.
-/
namespace SwayVerif.LspSched

structure Cfg where
  /-- `wait_for_parsing` creates the `Notified` future *before* it checks the flags. -/
  notifiedFirst : Bool
  /-- `did_open` stores `is_compiling = true` *before* it sends the request. -/
  openStoreFirst : Bool
  /-- the worker resets `retrigger_compilation` when it picks a request up (not after compiling). -/
  clearAtRecv : Bool
  /-- environment (LSP): the first client event is a `didOpen` of a file of a valid project. -/
  openedFirst : Bool
  /-- (seeded mutant, `false` for every version of the real code) `did_open` stores
  `is_compiling = true` at its very top, before the fallible workspace / session look-ups. -/
  openStoreEarly : Bool := false
deriving DecidableEq, Repr

/-- The code before the `fix:` commit. -/
def Cfg.orig : Cfg := ⟨false, false, false, true, false⟩
/-- The code after the `fix:` commit. -/
def Cfg.fixed : Cfg := ⟨true, true, true, true, false⟩

inductive Kind | open | change | save | wait
deriving DecidableEq, Repr

inductive LState | uninit | success | failed
deriving DecidableEq, Repr

/-- Worker program counter (`spawn_compilation_thread`). -/
inductive WPc
  | idle        -- in `rx.recv()`
  | clrRtRecv   -- (fixed) `retrigger_compilation.store(false)` right after `recv`
  | setIc       -- `is_compiling.store(true)`
  | start       -- about to call `parse_project`
  | chk0        -- first `check_should_abort`
  | comp (rd : Bool) -- compiling; `rd` = the document has been read from disk
  | aborted     -- `parse_project` returned the "retriggered" error
  | fin         -- `parse_project` returned (Ok, or an error other than cancellation)
  | clrIc       -- `is_compiling.store(false)`
  | clrRt       -- (orig) `retrigger_compilation.store(false)` after compiling
  | empty       -- `rx.is_empty()`
  | notify      -- `finished_compilation.notify_waiters()`
deriving DecidableEq, Repr

/-- Handler program counter. `s*` = `send_new_compilation_request`, `p*` = `wait_for_parsing`. -/
inductive HPc
  | absent
  | hInit (k : Kind) (valid : Bool) -- in the fallible look-ups at the start of the handler (`…?`): a handler
                           -- for a file of a valid project passes them, any other returns its error here,
                           -- before it has queued anything
  | oSetIcEarly (valid : Bool) -- (mutant) did_open: `is_compiling.store(true)` before the look-ups
  | oSetIc                 -- did_open: `is_compiling.store(true)` before the send (fixed)
  | cWrite                 -- did_change: `write_changes_to_file`
  | sLoadIc (k : Kind)     -- `is_compiling.load()`
  | sStoreRt (k : Kind)    -- `retrigger_compilation.store(true)`
  | sFull (k : Kind)       -- `cb_tx.is_full()`
  | sDrain (k : Kind)      -- `cb_rx.try_recv()` loop
  | sSend (k : Kind)       -- `cb_tx.send(..)` (blocks while the channel is full)
  | oSetIcLate             -- did_open: `is_compiling.store(true)` after the send (orig)
  | pSnap                  -- `finished_compilation.notified()` (records `nw`)
  | pLoadIc (sn : Nat)     -- `is_compiling.load()`
  | pReadLs (sn : Nat)     -- `last_compilation_state.read()`
  | pEmpty (sn : Nat)      -- `cb_rx.is_empty()`
  | pAwait (sn : Nat)      -- `.await` on the `Notified` created when `nw = sn`
  | done
deriving DecidableEq, Repr

structure State where
  ic : Bool
  rt : Bool
  chan : Bool
  nw : Nat
  ls : LState
  latest : Nat
  lastDone : Nat
  wpc : WPc
  snap : Nat
  h : Nat → HPc
  n : Nat
  opened : Bool

def init : State :=
  { ic := false, rt := false, chan := false, nw := 0, ls := .uninit, latest := 0, lastDone := 0,
    wpc := .idle, snap := 0, h := fun _ => .absent, n := 0, opened := false }

def upd (f : Nat → HPc) (i : Nat) (v : HPc) : Nat → HPc := fun j => if j = i then v else f j

inductive WLabel
  | recv | clrRt | setIc | start | chk | read | finish | lsAbort | lsDone (ok : Bool) | clrIc | isEmpty | notify
deriving DecidableEq, Repr

inductive HLabel
  | spawn (k : Kind) (valid : Bool) | lookup | fail | setIc | write | loadIc | storeRt | isFull | tryRecv | send
  | snap | pLoadIc | readLs | pIsEmpty | wake
deriving DecidableEq, Repr

/-- Entry of `wait_for_parsing`. -/
def waitStart (c : Cfg) : HPc := if c.notifiedFirst then .pSnap else .pLoadIc 0
/-- `wait_for_parsing` decided to wait. -/
def goWait (c : Cfg) (sn : Nat) : HPc := if c.notifiedFirst then .pAwait sn else .pSnap

def afterSend (c : Cfg) : Kind → HPc
  | .open => if c.openStoreFirst then waitStart c else .oSetIcLate
  | .change => .done
  | .save => waitStart c
  | .wait => .done

def spawnPc (c : Cfg) (valid : Bool) : Kind → HPc
  | .open => if c.openStoreEarly then .oSetIcEarly valid else .hInit .open valid
  | .change => .hInit .change valid
  | .save => .hInit .save valid
  | .wait => waitStart c

/-- After the look-ups of a handler succeeded. -/
def afterLookup (c : Cfg) : Kind → HPc
  | .open => if c.openStoreFirst && !c.openStoreEarly then .oSetIc else .sLoadIc .open
  | .change => .cWrite
  | .save => .sLoadIc .save
  | .wait => .done

/-- One worker step. `recv`, `chk`, `read`, `finish` are not visible in traces. -/
def wstep (c : Cfg) (s : State) : WLabel → Option State
  | .recv => if s.wpc = .idle ∧ s.chan = true then
      some { s with chan := false, wpc := if c.clearAtRecv then .clrRtRecv else .setIc } else none
  | .clrRt =>
      if s.wpc = .clrRtRecv then some { s with rt := false, wpc := .setIc }
      else if s.wpc = .clrRt then some { s with rt := false, wpc := .empty } else none
  | .setIc => if s.wpc = .setIc then some { s with ic := true, wpc := .start } else none
  | .start => if s.wpc = .start then some { s with wpc := .chk0 } else none
  | .chk =>
      match s.wpc with
      | .chk0 => some { s with wpc := if s.rt then .aborted else .comp false }
      | .comp rd => some { s with wpc := if s.rt then .aborted else .comp rd }
      | _ => none
  | .read => if s.wpc = .comp false then some { s with snap := s.latest, wpc := .comp true } else none
  | .finish => if s.wpc = .comp true then some { s with wpc := .fin } else none
  | .lsAbort => if s.wpc = .aborted then some { s with ls := .failed, wpc := .clrIc } else none
  | .lsDone ok => if s.wpc = .fin then
      some { s with ls := if ok then .success else .failed, lastDone := s.snap, wpc := .clrIc } else none
  | .clrIc => if s.wpc = .clrIc then
      some { s with ic := false, wpc := if c.clearAtRecv then .empty else .clrRt } else none
  | .isEmpty => if s.wpc = .empty then some { s with wpc := if s.chan then .idle else .notify } else none
  | .notify => if s.wpc = .notify then some { s with nw := s.nw + 1, wpc := .idle } else none

/-- One step of handler `i`. -/
def hstep (c : Cfg) (s : State) (i : Nat) : HLabel → Option State
  | .spawn k v =>
      if i = s.n ∧ (c.openedFirst = true → ((k = .open ∧ v = true) ∨ s.opened = true)) then
        some { s with h := upd s.h i (spawnPc c v k), n := s.n + 1,
                      opened := s.opened || (decide (k = .open) && v) }
      else none
  | .lookup =>
      match s.h i with
      | .hInit k true => some { s with h := upd s.h i (afterLookup c k) }
      | _ => none
  | .fail =>
      match s.h i with
      | .hInit _ false => some { s with h := upd s.h i .done }
      | .cWrite => some { s with h := upd s.h i .done }   -- the write failed: nothing written, nothing queued
      | _ => none
  | .setIc =>
      match s.h i with
      | .oSetIcEarly v => some { s with ic := true, h := upd s.h i (.hInit .open v) }
      | .oSetIc => some { s with ic := true, h := upd s.h i (.sLoadIc .open) }
      | .oSetIcLate => some { s with ic := true, h := upd s.h i (waitStart c) }
      | _ => none
  | .write =>
      match s.h i with
      | .cWrite => some { s with latest := s.latest + 1, h := upd s.h i (.sLoadIc .change) }
      | _ => none
  | .loadIc =>
      match s.h i with
      | .sLoadIc k => some { s with h := upd s.h i (if s.ic then .sStoreRt k else .sFull k) }
      | _ => none
  | .storeRt =>
      match s.h i with
      | .sStoreRt k => some { s with rt := true, h := upd s.h i (.sFull k) }
      | _ => none
  | .isFull =>
      match s.h i with
      | .sFull k => some { s with h := upd s.h i (if s.chan then .sDrain k else .sSend k) }
      | _ => none
  | .tryRecv =>
      match s.h i with
      | .sDrain k => if s.chan then some { s with chan := false } else some { s with h := upd s.h i (.sSend k) }
      | _ => none
  | .send =>
      match s.h i with
      | .sSend k => if s.chan then none else some { s with chan := true, h := upd s.h i (afterSend c k) }
      | _ => none
  | .snap =>
      match s.h i with
      | .pSnap => some { s with h := upd s.h i (if c.notifiedFirst then .pLoadIc s.nw else .pAwait s.nw) }
      | _ => none
  | .pLoadIc =>
      match s.h i with
      | .pLoadIc sn => some { s with h := upd s.h i (if s.ic then goWait c sn else .pReadLs sn) }
      | _ => none
  | .readLs =>
      match s.h i with
      | .pReadLs sn => some { s with h := upd s.h i (if s.ls = .uninit then goWait c sn else .pEmpty sn) }
      | _ => none
  | .pIsEmpty =>
      match s.h i with
      | .pEmpty sn => some { s with h := upd s.h i (if s.chan then goWait c sn else .done) }
      | _ => none
  | .wake =>
      match s.h i with
      | .pAwait sn => if s.nw = sn then none else some { s with h := upd s.h i (waitStart c) }
      | _ => none

/-- Any thread moves at any shared access. -/
def Step (c : Cfg) (s t : State) : Prop :=
  (∃ l, wstep c s l = some t) ∨ (∃ i l, hstep c s i l = some t)

inductive Reachable (c : Cfg) : State → Prop
  | init : Reachable c init
  | step {s t : State} : Reachable c s → Step c s t → Reachable c t

/-- A handler that cannot move: not there, finished, or awaiting a `Notified` whose counter
snapshot is still current. -/
def HPc.quiet (nw : Nat) : HPc → Bool
  | .absent => true
  | .done => true
  | .pAwait sn => sn == nw
  | _ => false

/-- No compilation running (worker in `recv`) or pending (channel empty) and no handler can move. -/
def Quiescent (s : State) : Prop :=
  s.wpc = .idle ∧ s.chan = false ∧ ∀ i, (s.h i).quiet s.nw = true

/-- Handler `i` waits for a notification. -/
def Waiting (s : State) (i : Nat) : Prop := ∃ sn, s.h i = .pAwait sn

/-! ## Schedules (for witnesses, replays and trace acceptance) -/

inductive Act | w (l : WLabel) | h (i : Nat) (l : HLabel)
deriving DecidableEq, Repr

def act (c : Cfg) (s : State) : Act → Option State
  | .w l => wstep c s l
  | .h i l => hstep c s i l

def run (c : Cfg) (s : State) : List Act → Option State
  | [] => some s
  | a :: as => match act c s a with
    | some t => run c t as
    | none => none

/-- Program counters at which a handler future is suspended at an `.await` (or has finished), i.e.
where tower-lsp's `buffer_unordered` can poll another handler: the awaits at the start of
`did_open`, the file write of `did_change`, the `notified().await`. -/
def coopYield (c : Cfg) : HPc → Bool
  | .done => true
  | .absent => true
  | .pAwait _ => true
  | .hInit .open _ => true
  | .oSetIc => true
  | .sLoadIc .open => !c.openStoreFirst
  | .sLoadIc .change => true
  | _ => false

/-- The schedule switches between handlers only at `.await` points (the worker may move anywhere). -/
def coopOk (c : Cfg) (s : State) (cur : Option Nat) : List Act → Bool
  | [] => true
  | .w l :: as => match wstep c s l with
    | some t => coopOk c t cur as
    | none => false
  | .h i l :: as =>
    let switchOk := match cur with
      | none => true
      | some j => j == i || coopYield c (s.h j)
    switchOk && match hstep c s i l with
      | some t => coopOk c t (some i) as
      | none => false

/-- Bounded versions of the state predicates (all handlers live below `s.n`). -/
def quiescentB (s : State) : Bool :=
  decide (s.wpc = .idle) && !s.chan && (List.range s.n).all fun i => (s.h i).quiet s.nw

def waitingB (s : State) : Nat :=
  ((List.range s.n).filter fun i => match s.h i with | .pAwait _ => true | _ => false).length

/-! ## Trace acceptance

Hook H6 logs `tid:point` for every shared access (tid 0 = worker, handler `k` = model index `k-1`).
`recv`, the compile-internal `chk`/`read`/`finish` are not observable: acceptance closes the set of
candidate states under them. -/

def tauClose1 (c : Cfg) (s : State) : List State :=
  -- all states reachable by invisible worker steps (the graph is a small DAG apart from `chk`
  -- self-loops, which are skipped)
  let s1 := match wstep c s .recv with | some t => [t] | none => []
  let s2 := match s.wpc with
    | .chk0 => (wstep c s .chk).toList
    | .comp _ => if s.rt then (wstep c s .chk).toList else []
    | _ => []
  let s3 := (wstep c s .read).toList
  let s4 := (wstep c s .finish).toList
  -- handler look-ups (success or early error return) have no hook point either
  let s5 := (List.range s.n).flatMap fun i =>
    (match s.h i with
     | .hInit _ _ => (hstep c s i .lookup).toList ++ (hstep c s i .fail).toList
     | _ => [])
  s1 ++ s2 ++ s3 ++ s4 ++ s5

def tauClose (c : Cfg) : Nat → List State → List State
  | 0, ss => ss
  | fuel + 1, ss =>
    let next := ss.flatMap (tauClose1 c)
    if next.isEmpty then ss else ss ++ tauClose c fuel next

/-- Finite fingerprint of a state (all handlers live below `s.n`), used to merge equal candidates. -/
def HPc.code : HPc → List Nat
  | .absent => [0] | .oSetIc => [1] | .cWrite => [2]
  | .hInit k v => [15, kindCode k, v.toNat] | .oSetIcEarly v => [16, v.toNat]
  | .sLoadIc k => [3, kindCode k] | .sStoreRt k => [4, kindCode k] | .sFull k => [5, kindCode k]
  | .sDrain k => [6, kindCode k] | .sSend k => [7, kindCode k] | .oSetIcLate => [8] | .pSnap => [9]
  | .pLoadIc sn => [10, sn] | .pReadLs sn => [11, sn] | .pEmpty sn => [12, sn] | .pAwait sn => [13, sn]
  | .done => [14]
where kindCode : Kind → Nat
  | .open => 0 | .change => 1 | .save => 2 | .wait => 3

def WPc.code : WPc → Nat
  | .idle => 0 | .clrRtRecv => 1 | .setIc => 2 | .start => 3 | .chk0 => 4 | .comp false => 5 | .comp true => 6
  | .aborted => 7 | .fin => 8 | .clrIc => 9 | .clrRt => 10 | .empty => 11 | .notify => 12

def State.key (s : State) : List Nat :=
  [s.ic.toNat, s.rt.toNat, s.chan.toNat, s.nw, (match s.ls with | .uninit => 0 | .success => 1 | .failed => 2),
   s.latest, s.lastDone, s.wpc.code, s.snap, s.n, s.opened.toNat] ++ (List.range s.n).flatMap fun i => (s.h i).code

def dedupStates (ss : List State) : List State :=
  (ss.foldl (fun (acc : List (List Nat) × List State) s =>
    let k := s.key
    if acc.1.contains k then acc else (k :: acc.1, s :: acc.2)) ([], [])).2

structure Ev where
  tid : Nat
  name : String

/-- Model actions of a visible event in state `s` (`none` = not a legal event here, `some []` =
marker without effect). -/
def evActs1 (s : State) (e : Ev) : Option (List Act) :=
  if e.tid = 0 then
    match e.name with
    | "w_recv_wait" => some []
    | "w_recv" => some []
    | "w_rt_clear" => some [.w .clrRt]
    | "w_ic_true" => some [.w .setIc]
    | "w_compile" => some [.w .start]
    | "w_ls_aborted" => some [.w .lsAbort]
    | "w_ls_success" => some [.w (.lsDone true)]
    | "w_ls_failed" => some [.w (.lsDone false)]
    | "w_ic_false" => some [.w .clrIc]
    | "w_is_empty" => some [.w .isEmpty]
    | "w_notify" => some [.w .notify]
    | _ => none
  else
    let i := e.tid - 1
    match e.name with
    | "o_enter" => some [.h i (.spawn .open true)]
    | "c_enter" => some [.h i (.spawn .change true)]
    | "v_enter" => some [.h i (.spawn .save true)]
    | "p_enter" => if i = s.n then some [.h i (.spawn .wait true)] else some []
    | "o_ic_store" => some [.h i .setIc]
    | "c_write" => some [.h i .write]
    | "s_ic_load" => some [.h i .loadIc]
    | "s_rt_store" => some [.h i .storeRt]
    | "s_is_full" => some [.h i .isFull]
    | "s_try_recv" => some [.h i .tryRecv]
    | "s_send" => some [.h i .send]
    | "p_snap" => some [.h i .snap]
    | "p_ic_load" =>
        -- `!is_compiling.load() && *last_compilation_state.read() != Uninitialized` is one point
        if s.ic then some [.h i .pLoadIc] else some [.h i .pLoadIc, .h i .readLs]
    | "p_is_empty" => some [.h i .pIsEmpty]
    | "p_await" => some []
    | "p_wake" => some [.h i .wake]
    | _ => none

/-- Alternatives: the trace does not say whether a handler that enters will pass its look-ups. -/
def evActs (s : State) (e : Ev) : List (List Act) :=
  match evActs1 s e with
  | none => []
  | some [.h i (.spawn k true)] => [[.h i (.spawn k true)], [.h i (.spawn k false)]]
  | some as => [as]

def stepEv (c : Cfg) (ss : List State) (e : Ev) : List State :=
  dedupStates ((dedupStates (tauClose c 6 ss)).flatMap fun s =>
    (evActs s e).filterMap fun as => run c s as)

def runTrace (c : Cfg) (ss : List State) : List Ev → List State
  | [] => dedupStates (tauClose c 6 ss)
  | e :: es => runTrace c (stepEv c ss e) es

/-- The trace is (the visible part of) a run of the model. -/
def traceAccepted (c : Cfg) (tr : List Ev) : Bool := !(runTrace c [init] tr).isEmpty

/-- The property on an observed end state: quiescent ⇒ no waiter stuck ∧ last compiled = latest. -/
def propHolds (quiescent : Bool) (stuck : Nat) (lastCompiled : Option Nat) (latest : Nat) : Bool :=
  !quiescent || (stuck == 0 && (lastCompiled == some latest))

end SwayVerif.LspSched
