/-!
# Model of `forc_pkg::compilation_order` and of petgraph 0.6.5 `algo::toposort`

Import-free (core Lean only) so that the driver links as a `lean_exe`.

```rust
pub fn compilation_order(graph: &Graph) -> Result<Vec<NodeIx>> {
    let rev_pkg_graph = petgraph::visit::Reversed(&graph);
    petgraph::algo::toposort(rev_pkg_graph, None).map_err(|_| { … anyhow!("dependency cycle detected: …") })
}
```

`forc_pkg::Graph = StableGraph<Pinned, Edge, Directed, u32>`, edge `a -> b` = *a depends on b*
(`DepKind::Library` or `DepKind::Contract`; `compilation_order` does not look at the kind).

* A graph without removed nodes has node indices `0 .. n-1` (`node_identifiers` yields them ascending).
* `add_edge` links the new edge at the HEAD of the per-node outgoing / incoming edge lists, hence
  `neighbors_directed(x, dir)` yields the most recently added edge first, parallel edges repeated,
  a self-loop `x -> x` once per direction.
* `Reversed(g).neighbors(x) = g.neighbors_directed(x, Incoming)`, and
  `Reversed(Reversed(g)).neighbors(x) = g.neighbors_directed(x, Outgoing)`.
* `add_edge` with an endpoint that is not a node panics, so a `Graph` value is always well formed
  (`PkgGraph.wf`); `compilationOrder` makes that the explicit outcome `.panic`.
* A Rust `Vec` used as a stack (`dfs.stack`) is a `List` with the top at the head. `finish_stack`
  is kept in `Vec` index order (`push` = append at the end), then reversed as the code does.
* Visit maps (`FixedBitSet`) are modelled as the list of visited nodes (membership only).
-/
namespace SwayVerif.Toposort

/-- The package graph as forc-pkg builds it: `n` nodes, edges `(a, b)` = "a depends on b" in
insertion (`add_edge`) order. -/
structure PkgGraph where
  n : Nat
  edges : List (Nat × Nat)
deriving Repr, DecidableEq

/-- Every edge endpoint is a node (otherwise `StableGraph::add_edge` panics). -/
def PkgGraph.wf (g : PkgGraph) : Bool := g.edges.all fun e => decide (e.1 < g.n) && decide (e.2 < g.n)

/-- `graph.neighbors_directed(x, Outgoing)`: targets of the edges leaving `x`, newest edge first. -/
def PkgGraph.outgoing (g : PkgGraph) (x : Nat) : List Nat :=
  (g.edges.reverse.filter fun e => e.1 == x).map (·.2)

/-- `graph.neighbors_directed(x, Incoming)`: sources of the edges entering `x`, newest edge first. -/
def PkgGraph.incoming (g : PkgGraph) (x : Nat) : List Nat :=
  (g.edges.reverse.filter fun e => e.2 == x).map (·.1)

/-- What `toposort` sees of its argument `g`: `node_identifiers` = `0..n`, `succ x = g.neighbors(x)`,
`pred x = Reversed(g).neighbors(x)`. -/
structure DiGraph where
  n : Nat
  succ : Nat → List Nat
  pred : Nat → List Nat

/-- `petgraph::visit::Reversed(&graph)` -/
def PkgGraph.reversed (g : PkgGraph) : DiGraph := ⟨g.n, g.incoming, g.outgoing⟩

/-- Outcome. `cycle` = `Err(Cycle(_))` (the node is discarded by `compilation_order`),
`fuel` = the model's loop bound was exhausted (proved impossible: `Lemmas.toposort_ne_fuel`). -/
inductive Res where
  | ok (order : List Nat)
  | cycle
  | panic
  | fuel
deriving Repr, DecidableEq

/-- State of the first phase: `dfs.stack` (top first), `dfs.discovered`, `finished`, `finish_stack`. -/
structure St where
  stack : List Nat
  disc : List Nat
  fin : List Nat
  fs : List Nat
deriving Repr, DecidableEq

/--
```rust
for succ in g.neighbors(nx) {
    if succ == nx { return Err(Cycle(nx)); }          // none
    if !dfs.discovered.is_visited(&succ) { dfs.stack.push(succ); }
}
```
-/
def pushSuccs (nx : Nat) (disc : List Nat) : List Nat → List Nat → Option (List Nat)
  | [], st => some st
  | s :: rest, st =>
    if s = nx then none
    else if s ∈ disc then pushSuccs nx disc rest st
    else pushSuccs nx disc rest (s :: st)

inductive StepRes where
  | next (s : St)
  | exit (s : St)
  | cycle

/-- One iteration of `while let Some(&nx) = dfs.stack.last() { … }`. -/
def step (g : DiGraph) (s : St) : StepRes :=
  match s.stack with
  | [] => .exit s
  | nx :: rest =>
    if nx ∉ s.disc then
      -- `discovered.visit(nx)` returned true: first visit, push neighbours, keep `nx`
      match pushSuccs nx (nx :: s.disc) (g.succ nx) (nx :: rest) with
      | none => .cycle
      | some st => .next { s with stack := st, disc := nx :: s.disc }
    else
      -- `dfs.stack.pop(); if finished.visit(nx) { finish_stack.push(nx) }`
      if nx ∉ s.fin then .next { s with stack := rest, fin := nx :: s.fin, fs := s.fs ++ [nx] }
      else .next { s with stack := rest }

inductive Loop where
  | done (s : St)
  | cycle
  | fuel

/-- The `while` loop, with fuel. -/
def inner (g : DiGraph) : Nat → St → Loop
  | 0, _ => .fuel
  | fuel + 1, s =>
    match step g s with
    | .exit s' => .done s'
    | .cycle => .cycle
    | .next s' => inner g fuel s'

/-- `for i in g.node_identifiers() { if discovered(i) { continue } dfs.stack.push(i); while … }` -/
def outer (g : DiGraph) (fuel : Nat) : List Nat → St → Loop
  | [], s => .done s
  | i :: is, s =>
    if i ∈ s.disc then outer g fuel is s
    else match inner g fuel { s with stack := i :: s.stack } with
      | .done s' => outer g fuel is s'
      | r => r

/-- the inner `for succ in graph.neighbors(node) { if !discovered(succ) { stack.push(succ) } }` of `Dfs::next` -/
def pushUndisc (disc : List Nat) : List Nat → List Nat → List Nat
  | [], st => st
  | s :: rest, st => if s ∈ disc then pushUndisc disc rest st else pushUndisc disc rest (s :: st)

/-- `Dfs::next(graph)`: result, stack, discovered.
```rust
while let Some(node) = self.stack.pop() {
    if self.discovered.visit(node) {
        for succ in graph.neighbors(node) { if !self.discovered.is_visited(&succ) { self.stack.push(succ); } }
        return Some(node);
    }
}
None
```
-/
def dfsNext (nbrs : Nat → List Nat) : List Nat → List Nat → Option Nat × List Nat × List Nat
  | [], d => (none, [], d)
  | node :: rest, d =>
    if node ∈ d then dfsNext nbrs rest d
    else (some node, pushUndisc (node :: d) (nbrs node) rest, node :: d)

/-- Second phase (`true` = no error).
```rust
for &i in &finish_stack {
    dfs.move_to(i);                       // stack = [i]
    let mut cycle = false;
    while let Some(j) = dfs.next(Reversed(g)) { if cycle { return Err(Cycle(j)); } cycle = true; }
}
```
The `while` runs `next` at most twice before it either returns or sees `None`. -/
def verify (g : DiGraph) : List Nat → List Nat → Bool
  | [], _ => true
  | i :: rest, d =>
    match dfsNext g.pred [i] d with
    | (none, _, d1) => verify g rest d1
    | (some _, st1, d1) =>
      match dfsNext g.pred st1 d1 with
      | (some _, _, _) => false
      | (none, _, d2) => verify g rest d2

/-- Loop bound of one `while` loop: one step per node discovery plus one per stack entry ever pushed. -/
def fuelBound (g : DiGraph) : Nat :=
  ((List.range g.n).map fun v => 1 + (g.succ v).length).sum + 2

/-- `dfs.reset(g); let mut finished = g.visit_map(); let mut finish_stack = Vec::new();` -/
def St.init : St := ⟨[], [], [], []⟩

/-- `petgraph::algo::toposort(g, None)`: first phase, `finish_stack.reverse()`, `dfs.reset(g)`,
second phase, `Ok(finish_stack)`. -/
def toposort (g : DiGraph) : Res :=
  match outer g (fuelBound g) (List.range g.n) St.init with
  | .fuel => .fuel
  | .cycle => .cycle
  | .done s => if verify g s.fs.reverse [] then .ok s.fs.reverse else .cycle

/-- `forc_pkg::compilation_order` -/
def compilationOrder (g : PkgGraph) : Res :=
  if g.wf then toposort g.reversed else .panic

/-! ## Specification vocabulary (used by `Props/C22.lean`) -/

/-- `a` depends on `b` through one or more dependency edges. -/
inductive DependsOn (g : PkgGraph) : Nat → Nat → Prop
  | direct {a b : Nat} : (a, b) ∈ g.edges → DependsOn g a b
  | trans {a b c : Nat} : (a, b) ∈ g.edges → DependsOn g b c → DependsOn g a c

/-- The package graph has a dependency cycle (a self-loop is one). -/
def Cyclic (g : PkgGraph) : Prop := ∃ a, DependsOn g a a

/-- `order` lists every package exactly once and every dependency before each of its dependents. -/
def IsTopoOrder (g : PkgGraph) (order : List Nat) : Prop :=
  order.Nodup ∧ (∀ v, v ∈ order ↔ v < g.n) ∧ ∀ a b, (a, b) ∈ g.edges → order.idxOf b < order.idxOf a

/-! ## The property's predicate -/

def nodupB : List Nat → Bool
  | [] => true
  | x :: xs => !(xs.contains x) && nodupB xs

/-- `order` lists every node of `g` exactly once and every dependency before each of its dependents. -/
def isTopoOrder (g : PkgGraph) (order : List Nat) : Bool :=
  nodupB order && order.all (fun v => decide (v < g.n)) && (List.range g.n).all (fun v => order.contains v)
    && g.edges.all fun e => decide (order.idxOf e.2 < order.idxOf e.1)

/-- Executable cycle test: the model's own verdict (`Props.C22.hasCycle_iff` proves it is exactly
"the graph has a dependency cycle" for every well-formed graph). -/
def hasCycle (g : PkgGraph) : Bool :=
  match compilationOrder g with
  | .cycle => true
  | _ => false

/-- What the implementation answered: `some order` = `Ok(order)`, `none` = `Err(_)`. -/
abbrev Impl := Option (List Nat)

/-- C22 on the IMPLEMENTATION's result: an order must be a topological order of the whole graph;
an error is only allowed when the graph really has a cycle (and then an order is impossible, so
`isTopoOrder` can never hold of an `ok` answer). -/
def propHolds (g : PkgGraph) (impl : Impl) : Bool :=
  g.wf && match impl with
  | some order => isTopoOrder g order
  | none => hasCycle g

end SwayVerif.Toposort
