/-!
# M-Word — the FuelVM ALU as used by compiled Sway (shared model, import-free)

Source of truth: `fuel-vm 0.66` `src/interpreter/alu.rs`, `alu/wideint.rs`, `executors/opcodes_impl.rs`
(the crate the harness links). Values are `Nat` with explicit widths; every function assumes its
operands are already `< 2^64` (resp. `< 2^bits`) — registers / memory words cannot hold anything else.

* `Flags`   — `$flag`: `wrapping` = `F_WRAPPING` set (overflow does not panic, `$of` is written),
              `unsafeMath` = `F_UNSAFEMATH` set (division by zero &c. do not panic, `$err` is written).
              Note the inversion used by `std::flags`: *panic on overflow enabled* = `!wrapping`.
* `Res`     — outcome of a computation: value, `RVRT code`, VM panic, or `fuel` (a model artefact:
              a bounded loop of a transcription ran out of fuel; theorems show it unreachable).
* `Out`     — what an ALU instruction writes: destination value, `$of`, `$err`.

Every ALU instruction writes `$of` and `$err` (it *clears* them when nothing happened), including
`move`, `movi`, comparisons, shifts and logic ops. Std code that reads `$of` must therefore do so in
the same `asm` block as the instruction that set it.
-/
namespace SwayVerif.Word

/-- `fuel_asm::PanicReason`, the cases reachable from arithmetic. -/
inductive Panic where
  | arithmeticOverflow
  | arithmeticError
  /-- (model) an access outside the heap allocation owned by a collection: memory-unsafe in the VM;
  collection theorems show it unreachable -/
  | outOfAllocation
  | other
  deriving DecidableEq, Repr

structure Flags where
  wrapping : Bool := false
  unsafeMath : Bool := false
  deriving DecidableEq, Repr

/-- Flags at the start of every script / test: both panics enabled. -/
def Flags.dflt : Flags := {}

inductive Res (α : Type) where
  | ok : α → Res α
  | revert : Nat → Res α
  | panic : Panic → Res α
  | fuel : Res α
  deriving DecidableEq, Repr

namespace Res
@[inline] def bind {α β : Type} (x : Res α) (f : α → Res β) : Res β :=
  match x with
  | .ok a => f a
  | .revert c => .revert c
  | .panic p => .panic p
  | .fuel => .fuel

instance : Monad Res where
  pure := Res.ok
  bind := Res.bind

@[simp] theorem ok_bind {α β : Type} (a : α) (f : α → Res β) : (Res.ok a >>= f) = f a := rfl
@[simp] theorem pure_bind' {α β : Type} (a : α) (f : α → Res β) : ((pure a : Res α) >>= f) = f a := rfl
@[simp] theorem revert_bind {α β : Type} (c : Nat) (f : α → Res β) : ((Res.revert c : Res α) >>= f) = .revert c := rfl
@[simp] theorem panic_bind {α β : Type} (p : Panic) (f : α → Res β) : ((Res.panic p : Res α) >>= f) = .panic p := rfl
@[simp] theorem fuel_bind {α β : Type} (f : α → Res β) : ((Res.fuel : Res α) >>= f) = .fuel := rfl
@[simp] theorem pure_eq {α : Type} (a : α) : (pure a : Res α) = .ok a := rfl

/-- The script did not finish normally (`RVRT` or VM panic): what `#[test(should_revert)]` accepts. -/
def reverts {α : Type} : Res α → Bool
  | .revert _ => true
  | .panic _ => true
  | _ => false
end Res

/-- `2^64`. -/
abbrev W64 : Nat := 18446744073709551616
/-- `u64::MAX`. -/
abbrev MAX64 : Nat := 18446744073709551615

structure Out where
  val : Nat
  of : Nat := 0
  err : Nat := 0
  deriving DecidableEq, Repr

/-! ## 64-bit ALU -/

/-- `alu_capture_overflow`: the operation is carried out in 128 bits, `$of` receives the high word. -/
def capture (fl : Flags) (r : Nat) : Res Out :=
  if W64 ≤ r ∧ fl.wrapping = false then .panic .arithmeticOverflow
  else .ok { val := r % W64, of := (r / W64) % W64 }

/-- `add`, `addi` -/
def add (fl : Flags) (a b : Nat) : Res Out := capture fl (a + b)

/-- `mul`, `muli` -/
def mul (fl : Flags) (a b : Nat) : Res Out := capture fl (a * b)

/-- `sub`, `subi`: `u128::overflowing_sub` of the zero-extended operands; a borrow makes the 128-bit
result exceed `u64::MAX`, i.e. it is an overflow; `$of` then holds `2^64-1`. -/
def sub (fl : Flags) (a b : Nat) : Res Out :=
  if a < b then
    if fl.wrapping = false then .panic .arithmeticOverflow
    else .ok { val := a + W64 - b, of := MAX64 }
  else .ok { val := a - b }

/-- `alu_error` -/
def aluError (fl : Flags) (bad : Bool) (v : Nat) : Res Out :=
  if bad then
    if fl.unsafeMath = false then .panic .arithmeticError else .ok { val := 0, err := 1 }
  else .ok { val := v }

/-- `div`, `divi` -/
def div (fl : Flags) (a b : Nat) : Res Out := aluError fl (b == 0) (a / b)

/-- `mod`, `modi` -/
def mod (fl : Flags) (a b : Nat) : Res Out := aluError fl (b == 0) (a % b)

/-- `alu_boolean_overflow`: `$of := 1` and the destination is zeroed on overflow. -/
def boolOverflow (fl : Flags) (v : Option Nat) : Res Out :=
  match v with
  | some v => .ok { val := v }
  | none => if fl.wrapping = false then .panic .arithmeticOverflow else .ok { val := 0, of := 1 }

/-- `b^c` if it fits in 64 bits (`alu::exp` = `u64::overflowing_pow`, with the `c > u32::MAX` escape).
Written so that it never builds a huge number: for `b ≥ 2`, `c ≥ 64` certainly overflows. -/
def expChecked (b c : Nat) : Option Nat :=
  if b < 2 then (if c = 0 then some 1 else some b)
  else if 64 ≤ c then none
  else if b ^ c < W64 then some (b ^ c) else none

/-- `exp`, `expi` -/
def exp (fl : Flags) (b c : Nat) : Res Out := boolOverflow fl (expChecked b c)

/-- Bisection for the integer `k`-th root: invariant `lo^k ≤ n < hi^k`. -/
def rootBisect (n k : Nat) : Nat → Nat → Nat → Nat
  | 0, lo, _ => lo
  | f + 1, lo, hi =>
    if hi ≤ lo + 1 then lo
    else
      let mid := (lo + hi) / 2
      if mid ^ k ≤ n then rootBisect n k f mid hi else rootBisect n k f lo mid

/-- `checked_nth_root`: `⌊n^(1/k)⌋` for `k ≥ 1`. -/
def nthRoot (n k : Nat) : Nat :=
  if k = 2 then Nat.sqrt n
  else if k = 1 then n
  else if n = 0 then 0
  else if 64 ≤ k then 1
  else rootBisect n k 70 1 W64

/-- `mroo` -/
def mroo (fl : Flags) (b c : Nat) : Res Out := aluError fl (c == 0) (nthRoot b c)

/-- `⌊log_b n⌋` by repeated division, for `b ≥ 2`; the fuel bounds the number of divisions. -/
def ilogAux (b : Nat) : Nat → Nat → Nat
  | 0, _ => 0
  | f + 1, n => if n < b then 0 else ilogAux b f (n / b) + 1

/-- `u64::checked_ilog` -/
def ilog (b n : Nat) : Nat := ilogAux b 64 n

/-- `mlog` -/
def mlog (fl : Flags) (b c : Nat) : Res Out := aluError fl (b == 0 || decide (c ≤ 1)) (ilog c b)

/-- `sll`, `slli`: `checked_shl(..).unwrap_or_default()` — a shift by 64 or more gives 0; `$of` cleared. -/
def sll (a s : Nat) : Nat := if 64 ≤ s then 0 else (a * 2 ^ s) % W64

/-- `srl`, `srli` -/
def srl (a s : Nat) : Nat := if 64 ≤ s then 0 else a / 2 ^ s

def and (a b : Nat) : Nat := a &&& b
def or (a b : Nat) : Nat := a ||| b
def xor (a b : Nat) : Nat := a ^^^ b
/-- `not` on a 64-bit word -/
def not (a : Nat) : Nat := MAX64 - a
def eq (a b : Nat) : Nat := if a = b then 1 else 0
def lt (a b : Nat) : Nat := if a < b then 1 else 0
def gt (a b : Nat) : Nat := if b < a then 1 else 0

/-! ## Wide integers (`wdop/wqop`, `wdml/wqml`, `wddv/wqdv`, `wdcm/wqcm`); `bits` = 128 or 256.
Operands live in memory; `$of` is a boolean. -/

def wideOverflow (fl : Flags) (bits : Nat) (r : Nat) (overflow : Bool) : Res Out :=
  if overflow ∧ fl.wrapping = false then .panic .arithmeticOverflow
  else .ok { val := r % 2 ^ bits, of := if overflow then 1 else 0 }

/-- `wqop` ADD -/
def wadd (fl : Flags) (bits a b : Nat) : Res Out := wideOverflow fl bits (a + b) (decide (2 ^ bits ≤ a + b))

/-- `wqop` SUB -/
def wsub (fl : Flags) (bits a b : Nat) : Res Out :=
  if a < b then wideOverflow fl bits (a + 2 ^ bits - b) true else .ok { val := a - b }

/-- `wqml` -/
def wmul (fl : Flags) (bits a b : Nat) : Res Out := wideOverflow fl bits (a * b) (decide (2 ^ bits ≤ a * b))

/-- `wqdv` -/
def wdiv (fl : Flags) (_bits a b : Nat) : Res Out := aluError fl (b == 0) (a / b)

/-- `wqop` SHL with the shift amount as a 64-bit register value (or wide operand) -/
def wshl (bits a s : Nat) : Nat := if bits ≤ s then 0 else (a * 2 ^ s) % 2 ^ bits

/-- `wqop` SHR -/
def wshr (bits a s : Nat) : Nat := if bits ≤ s then 0 else a / 2 ^ s

/-- `wqop` NOT -/
def wnot (bits a : Nat) : Nat := 2 ^ bits - 1 - a

/-- `wqmd`-style remainder is not an instruction of its own: `__mod` on `u256` compiles to `wqam`
with a zero addend: `(a + 0) % m`. -/
def wmod (fl : Flags) (_bits a m : Nat) : Res Out := aluError fl (m == 0) (a % m)

end SwayVerif.Word
