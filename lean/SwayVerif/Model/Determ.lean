/-!
# Kernels of build determinism (C15), import-free

Every place where emitted bytes could depend on the iteration order of a hash container is either an
order-insensitive sink or one of the kernels modelled here. "Iteration order" is modelled as an arbitrary
permutation of the container's elements: a kernel is deterministic iff its result is invariant under
`List.Perm` of its input.
-/
namespace SwayVerif.Determ

/-- Rust `Iterator::max_by(cmp)`: fold keeping the later element unless the earlier compares `Greater`
(so of several maximal elements the LAST is returned). -/
def maxBy {α : Type} (cmp : α → α → Ordering) : List α → Option α
  | [] => none
  | x :: xs => some (xs.foldl (fun m y => if cmp m y = .gt then m else y) x)

/-- A spill candidate as `color_interference_graph` compares them: number of connected incoming
neighbours, the virtual register (its `Ord` position) and the petgraph node index. -/
structure Cand where
  prio : Nat
  reg : Nat
  idx : Nat
deriving DecidableEq, Repr

/-- The comparator of the `max_by` in `color_interference_graph`
(`priority.cmp` then `register.cmp` then `node.index().cmp`). -/
def candCmp (a b : Cand) : Ordering :=
  match compare a.prio b.prio with
  | .eq => match compare a.reg b.reg with
    | .eq => compare a.idx b.idx
    | o => o
  | o => o

def spillChoice (pending : List Cand) : Option Cand := maxBy candCmp pending

/-- `spill_offsets`: sort the spilled registers, slot `i` is at `i*8 + locals_size`. -/
def enumFrom {α : Type} : Nat → List α → List (Nat × α)
  | _, [] => []
  | i, x :: xs => (i, x) :: enumFrom (i + 1) xs

def spillOffsets (spills : List Nat) (localsSize : Nat) : List (Nat × Nat) :=
  (enumFrom 0 (spills.mergeSort (fun a b => decide (a ≤ b)))).map (fun (i, r) => (r, i * 8 + localsSize))

/-- JSON-ABI concrete-type dedup (`standardize_json_abi_types`): collect the map's values (arbitrary
order) and sort them by the type string. Entries are `(concreteTypeId, typeField)`; the id is a hash of
the type string, so distinct entries of the map have distinct `typeField`s — an explicit hypothesis. -/
def sortByField (vals : List (Nat × Nat)) : List (Nat × Nat) :=
  vals.mergeSort (fun a b => decide (a.2 ≤ b.2))

/-- `manifest_map.values().find(|m| m.dir() == path)` -/
def findBy {α : Type} (p : α → Bool) (l : List α) : Option α := l.find? p

/-- Reachability closure as `grow_called_function_used_globals_set` computes it: depth-first, the
callees of a function are visited in an arbitrary (hash-set) order given by `succ`; result = visited set.
`fuel` bounds the recursion depth. -/
def grow (succ : Nat → List Nat) : Nat → Nat → List Nat → List Nat
  | 0, _, visited => visited
  | fuel + 1, f, visited =>
    if visited.contains f then visited
    else (succ f).foldl (fun vis g => grow succ fuel g vis) (f :: visited)

end SwayVerif.Determ
