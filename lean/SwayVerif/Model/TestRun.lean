/-!
# Model of `forc test` (C29) — import-free

Anchors in /repo:
* `forc-pkg/src/pkg.rs`  `TestPassCondition`, `PkgTestEntry::from_decl` (`#[test]`, `#[test(should_revert)]`,
  `#[test(should_revert = "<u64>")]`)
* `forc-test/src/lib.rs` `TestResult::passed`, `TestFilter::filter`, `PackageTests::run_tests`
  (`entries.par_iter().filter_map(filter).map(|e| { let setup = self.setup()?; TestExecutor::build(.., setup, ..)?.execute() }).collect()`)
* `forc-test/src/execute.rs` `TestExecutor::build` (`let storage = test_setup.storage().clone()`, own `Interpreter`),
  `execute` (`Err(_) => state = Ok(ProgramState::Revert(0))`)

THIN model: a test is a pure function of the storage value it is handed; the runner hands every test
(a clone of) the same deployment storage. Isolation therefore holds *by construction of this model*;
what ties it to the real runner is the correspondence check (`harness/src/bin/sv_c29.rs`).
-/
namespace SwayVerif.TestRun

/-- `forc_pkg::TestPassCondition`. -/
inductive Condition where
  | shouldNotRevert
  | shouldRevert (code : Option Nat)
  deriving DecidableEq, Repr

/-- Terminal `fuel_vm::state::ProgramState`s (payloads of `Return`/`ReturnData` are irrelevant to `passed`). -/
inductive State where
  | ret
  | retData
  | revert (code : Nat)
  deriving DecidableEq, Repr

/-- `TestResult::passed`, arm by arm. -/
def passed : Condition → State → Bool
  | .shouldRevert (some c), s => decide (s = .revert c)   -- `self.state == ProgramState::Revert(*revert_code)`
  | .shouldRevert none, .revert _ => true                 -- `matches!(self.state, Revert(_))`
  | .shouldRevert none, _ => false
  | .shouldNotRevert, .revert _ => false                  -- `!matches!(self.state, Revert(_))`
  | .shouldNotRevert, _ => true

/-! ## The property's own reading of "matches its declared expectation" (independent of `passed`) -/

def revertCode : State → Option Nat
  | .revert c => some c
  | _ => none

/-- Executable specification: no revert / some revert / revert with exactly the declared code. -/
def expected (c : Condition) (s : State) : Bool :=
  match c with
  | .shouldNotRevert => (revertCode s).isNone
  | .shouldRevert none => (revertCode s).isSome
  | .shouldRevert (some d) => revertCode s == some d

/-- The same specification as a proposition. -/
def Matches : Condition → State → Prop
  | .shouldNotRevert, s => ∀ c, s ≠ .revert c
  | .shouldRevert none, s => ∃ c, s = .revert c
  | .shouldRevert (some d), s => s = .revert d

/-! ## VM result ⇒ reported state -/

/-- What the resume loop of `TestExecutor::execute` ends with: a terminal state or an `InterpreterError`. -/
inductive VmResult where
  | state (s : State)
  | error
  deriving DecidableEq, Repr

/-- `Err(_) => state = Ok(ProgramState::Revert(0))`. -/
def stateOf : VmResult → State
  | .state s => s
  | .error => .revert 0

/-! ## Tests, results, runner -/

/-- A `#[test]` function: name, pass condition from its attribute, and its behaviour as a function of the
storage it starts from: (VM result, emitted log values, storage afterwards). -/
structure TestDecl (σ : Type) where
  name : List Char
  cond : Condition
  body : σ → VmResult × List Nat × σ

/-- `forc_test::TestResult` (name, condition, state, logs). The storage after the test is dropped with the
test's interpreter. -/
structure Result where
  name : List Char
  cond : Condition
  state : State
  logs : List Nat
  deriving DecidableEq, Repr

def Result.passed (r : Result) : Bool := TestRun.passed r.cond r.state

/-- `self.setup()` — deterministic (re)deployment; its storage is what every test starts from. -/
structure Setup (σ : Type) where
  storage : σ

/-- `TestExecutor::build(.., setup, ..)?.execute()`: own interpreter over a clone of the setup storage. -/
def run {σ : Type} (s : Setup σ) (t : TestDecl σ) : Result :=
  let out := t.body s.storage
  { name := t.name, cond := t.cond, state := stateOf out.1, logs := out.2.1 }

/-- `TestFilter`. -/
structure Filter where
  phrase : List Char
  exact : Bool
  deriving DecidableEq, Repr

def isPrefix : List Char → List Char → Bool
  | [], _ => true
  | _ :: _, [] => false
  | a :: p, b :: s => a == b && isPrefix p s

/-- Rust `str::contains(&str)`: the phrase occurs as a contiguous substring. -/
def contains : List Char → List Char → Bool
  | [], p => isPrefix p []
  | c :: r, p => isPrefix p (c :: r) || contains r p

/-- `TestFilter::filter`. -/
def Filter.matches (f : Filter) (name : List Char) : Bool :=
  if f.exact then decide (name = f.phrase) else contains name f.phrase

/-- `if let Some(filter) = test_filter { if !filter.filter(&name) { return None; } }`. -/
def selected (f : Option Filter) (name : List Char) : Bool :=
  match f with
  | none => true
  | some f => f.matches name

/-- `PackageTests::run_tests`: filter the test entries, run each on the setup, collect in entry order
(rayon's `collect` of a `par_iter` preserves order). -/
def runAll {σ : Type} (s : Setup σ) (ts : List (TestDecl σ)) (f : Option Filter) : List Result :=
  (ts.filter fun t => selected f t.name).map (run s)

/-- NOT the real runner: a sequential runner that threads ONE storage through all tests (the mutant
"reuse the storage instead of cloning it"). Used only to show the isolation statement is not vacuous. -/
def runShared {σ : Type} (st : σ) : List (TestDecl σ) → List Result
  | [] => []
  | t :: ts =>
    let out := t.body st
    { name := t.name, cond := t.cond, state := stateOf out.1, logs := out.2.1 } :: runShared out.2.2 ts

/-! ## A small behaviour language for generated tests (used by the driver and the schedule theorem) -/

abbrev Storage := List Nat

/-- `FAILED_ASSERT_SIGNAL` of sway-lib-std (`assert`). -/
def assertCode : Nat := 0xffffffffffff0004

inductive Op where
  | log (v : Nat)                 -- `log(v)` in the test or inside the called contract
  | read (k : Nat)                -- `log(c.get(k))`
  | write (k v : Nat)             -- `c.set(k, v)`
  | expect (k v : Nat)            -- `assert(c.get(k) == v)`
  | revert (c : Nat)              -- `revert(c)` / `assert(false)` with `c = assertCode`
  | vmPanic                       -- an instruction panics (division by zero, memory overflow, out of gas):
                                  --   fuel-vm appends a Panic receipt and yields `Revert(0)`
  | hostError                     -- an `InterpreterError` that is not an instruction panic
  deriving DecidableEq, Repr

def exec : List Op → Storage → List Nat → VmResult × List Nat × Storage
  | [], st, lg => (.state .ret, lg, st)
  | .log v :: r, st, lg => exec r st (lg ++ [v])
  | .read k :: r, st, lg => exec r st (lg ++ [st.getD k 0])
  | .write k v :: r, st, lg => exec r (st.set k v) lg
  | .expect k v :: r, st, lg =>
      if st.getD k 0 = v then exec r st lg else (.state (.revert assertCode), lg, st)
  | .revert c :: _, st, lg => (.state (.revert c), lg, st)
  | .vmPanic :: _, st, lg => (.state (.revert 0), lg, st)
  | .hostError :: _, st, lg => (.error, lg, st)

def opsTest (name : List Char) (cond : Condition) (ops : List Op) : TestDecl Storage :=
  { name := name, cond := cond, body := fun st => exec ops st [] }

/-! ### Interleaved execution (any schedule of the runner threads) -/

/-- One runner thread: remaining ops, its OWN storage and logs, result once finished. -/
structure Thread where
  ops : List Op
  st : Storage
  logs : List Nat
  res : Option VmResult
  deriving DecidableEq, Repr

def Thread.init (ops : List Op) (st : Storage) : Thread := { ops := ops, st := st, logs := [], res := none }

/-- Execute one op of a thread (a finished thread stays as it is). -/
def Thread.step (t : Thread) : Thread :=
  match t.res with
  | some _ => t
  | none =>
    match t.ops with
    | [] => { t with res := some (.state .ret) }
    | .log v :: r => { t with ops := r, logs := t.logs ++ [v] }
    | .read k :: r => { t with ops := r, logs := t.logs ++ [t.st.getD k 0] }
    | .write k v :: r => { t with ops := r, st := t.st.set k v }
    | .expect k v :: r =>
        if t.st.getD k 0 = v then { t with ops := r } else { t with ops := [], res := some (.state (.revert assertCode)) }
    | .revert c :: _ => { t with ops := [], res := some (.state (.revert c)) }
    | .vmPanic :: _ => { t with ops := [], res := some (.state (.revert 0)) }
    | .hostError :: _ => { t with ops := [], res := some .error }

def Thread.steps : Nat → Thread → Thread
  | 0, t => t
  | n + 1, t => Thread.steps n t.step

/-- The scheduler lets thread `i` take one step. -/
def stepAt (ths : List Thread) (i : Nat) : List Thread :=
  match ths[i]? with
  | some t => ths.set i t.step
  | none => ths

/-- Run a schedule (a list of thread indices, any interleaving). -/
def runSched (ths : List Thread) (sched : List Nat) : List Thread := sched.foldl stepAt ths

/-! ## Decidable predicates the driver evaluates on the IMPLEMENTATION's results -/

/-- Independent executable reading of "name contains phrase": some window of the name equals the phrase. -/
def containsSpec (name phrase : List Char) : Bool :=
  (List.range (name.length + 1)).any fun i => decide ((name.drop i).take phrase.length = phrase)

def selectedSpec (f : Option Filter) (name : List Char) : Bool :=
  match f with
  | none => true
  | some f => if f.exact then decide (name = f.phrase) else containsSpec name f.phrase

/-- Values a test may legitimately log: what it logs / writes itself and the initial slot values. -/
def ownValues (ops : List Op) (init : Storage) : List Nat :=
  init ++ ops.filterMap fun
    | .log v => some v
    | .write _ v => some v
    | _ => none

/-- Per-test predicate. `flags`: the harness's isolation observations (`none` = not applicable). -/
def testProp (cond : Condition) (ops : List Op) (init : Storage)
    (implCond : Condition) (implState : State) (implPassed : Bool) (implLogs : List Nat)
    (flags : List (Option Bool)) : Bool :=
  decide (implCond = cond)
  && (implPassed == expected cond implState)
  && flags.all (· != some false)
  && implLogs.all (fun v => (ownValues ops init).contains v)

/-- Per-run predicate: exactly the tests selected by the filter were run (each once, in declaration
order) and every reported verdict equals the specification on the reported state. `impl` carries
(name, cond, state, passed). -/
def suiteProp (decls : List (List Char × Condition)) (f : Option Filter)
    (impl : List (List Char × Condition × State × Bool)) : Bool :=
  decide (impl.map (·.1) = (decls.map (·.1)).filter (selectedSpec f))
  && impl.all fun r =>
      (decls.lookup r.1 == some r.2.1) && (r.2.2.2 == expected r.2.1 r.2.2.1)

end SwayVerif.TestRun
