/-!
M-Proc — generic nondeterministic transition systems (import-free). Used by C25 (and meant for
C24 / C30): a system is an initial-state predicate and a step relation; `Reachable` is the inductive
closure; `inv_of_step` is the invariant rule; `runFrom` replays a list of labels through a
deterministic labelled step function and `reachable_of_run` turns a successful replay into a
`Reachable` proof (used for counterexample schedules).
-/
namespace SwayVerif.Proc

structure TS (σ : Type) where
  init : σ → Prop
  step : σ → σ → Prop

inductive Reachable {σ : Type} (ts : TS σ) : σ → Prop
  | init {s : σ} : ts.init s → Reachable ts s
  | step {s t : σ} : Reachable ts s → ts.step s t → Reachable ts t

/-- Invariant rule: an invariant that holds initially and is preserved by every step from a reachable
state holds in every reachable state. -/
theorem inv_of_step {σ : Type} (ts : TS σ) (Inv : σ → Prop)
    (h0 : ∀ s, ts.init s → Inv s)
    (hs : ∀ s t, Reachable ts s → Inv s → ts.step s t → Inv t) :
    ∀ s, Reachable ts s → Inv s := by
  intro s h
  induction h with
  | init hi => exact h0 _ hi
  | step hr hst ih => exact hs _ _ hr ih hst

/-- A system with fewer steps reaches fewer states. -/
theorem Reachable.mono {σ : Type} {a b : TS σ} (hi : ∀ s, a.init s → b.init s)
    (hs : ∀ s t, a.step s t → b.step s t) : ∀ s, Reachable a s → Reachable b s := by
  intro s h
  induction h with
  | init h0 => exact .init (hi _ h0)
  | step _ hst ih => exact .step ih (hs _ _ hst)

/-- Replay a list of labels through a partial deterministic labelled step function. -/
def runFrom {σ lab : Type} (f : σ → lab → Option σ) : σ → List lab → Option σ
  | s, [] => some s
  | s, l :: ls => match f s l with
    | some t => runFrom f t ls
    | none => none

theorem reachable_of_run {σ lab : Type} (ts : TS σ) (f : σ → lab → Option σ)
    (hf : ∀ s l t, f s l = some t → ts.step s t) :
    ∀ (ls : List lab) (s t : σ), Reachable ts s → runFrom f s ls = some t → Reachable ts t := by
  intro ls
  induction ls with
  | nil => intro s t hr h; simp [runFrom] at h; exact h ▸ hr
  | cons l ls ih =>
    intro s t hr h
    simp only [runFrom] at h
    cases hfl : f s l with
    | none => simp [hfl] at h
    | some u =>
      simp only [hfl] at h
      exact ih u t (.step hr (hf _ _ _ hfl)) h

end SwayVerif.Proc
