import SwayVerif.Model.LspSched
import SwayVerif.Generated.LspSchedShape
/-!
Ties the C24 model configuration to the code in `/repo`'s working tree: `gen/lsp_sched_shape.py`
extracts, per function, the order of the shared-state accesses as token lists (numbers, see the
translator's `VOCAB`) plus how often the protocol's fields are mentioned in `sway-lsp/src`. A tree
whose shape is neither the repaired nor the original one has no configuration (`none`), and no
theorem applies to it.
-/
namespace SwayVerif.LspSched
open SwayVerif.Generated

structure Shape where
  worker : List Nat
  waitForParsing : List Nat
  didOpen : List Nat
  sendRequest : List Nat
  didChange : List Nat
  didSave : List Nat
  mentions : List Nat
deriving DecidableEq, Repr

def treeShape : Shape :=
  { worker := LspSchedShape.worker, waitForParsing := LspSchedShape.waitForParsing,
    didOpen := LspSchedShape.didOpen, sendRequest := LspSchedShape.sendRequest,
    didChange := LspSchedShape.didChange, didSave := LspSchedShape.didSave,
    mentions := LspSchedShape.mentions }

/-- recv, is_compiling=true, parse_project, 3 × last_compilation_state write, is_compiling=false,
retrigger=false, is_empty, notify_waiters. -/
def shapeOrig : Shape :=
  { worker := [1, 4, 7, 8, 8, 8, 5, 2, 10, 11, 25]
    waitForParsing := [6, 9, 10, 14, 12, 13]
    didOpen := [13, 24, 24, 13, 15, 4, 16, 13, 13]
    sendRequest := [6, 3, 17, 18, 19]
    didChange := [24, 24, 20, 13, 24, 15]
    didSave := [24, 24, 24, 15, 16, 13, 13]
    mentions := [9, 12, 6, 6, 8, 8] }

/-- recv, retrigger=false, is_compiling=true, …, is_compiling=false, is_empty, notify_waiters;
`notified()` first in `wait_for_parsing`; in `did_open` both fallible look-ups (token 24 = `?`) come
before `is_compiling=true` (4), which comes before the send (15): a handler that returns early has
touched no shared state. `did_change`: `?`, `?`, write, `.await?`, send. `did_save`: three `?`, send. -/
def shapeFixed : Shape :=
  { worker := [1, 2, 4, 7, 8, 8, 8, 5, 10, 11, 25]
    waitForParsing := [12, 6, 9, 10, 14, 13]
    didOpen := [13, 24, 24, 13, 4, 15, 16, 13, 13]
    sendRequest := [6, 3, 17, 18, 19]
    didChange := [24, 24, 20, 13, 24, 15]
    didSave := [24, 24, 24, 15, 16, 13, 13]
    mentions := [9, 12, 6, 6, 8, 8] }

def cfgOfShape (s : Shape) : Option Cfg :=
  if s = shapeFixed then some Cfg.fixed else if s = shapeOrig then some Cfg.orig else none

/-- Configuration of the code in the tree (`none`: unknown shape). -/
def treeCfg : Option Cfg := cfgOfShape treeShape

end SwayVerif.LspSched
