/-!
# MiniIR — a small SSA IR with block arguments, and three modelled `sway-ir` transformations

Import-free (core Lean only) so that the C03 driver links as a `lean_exe`.

MiniIR is the fragment of `sway-ir` that the modelled passes of property C03 are proved about:

* values: `u64` (a `Nat`, kept `< 2^64` by the arithmetic) and `bool`;
* operands: an SSA value (`var`) or an immediate constant (sway-ir `const` values are not
  instructions either);
* instructions: `binop` (`add sub mul div mod and or xor lsh rsh`) and `cmp` (`eq lt gt`);
* terminators: `br l(args)`, `cbr c, lt(args), lf(args)`, `ret v`;
* blocks carry a label and block arguments (`entry(a: u64, b: u64):`); a function is an entry label
  and a list of blocks (lookup by label = first match, like `Function::block_iter().find`).

`run` is a big-step interpreter with fuel (one unit per executed block). Every way the real
program can stop is an explicit outcome:

* `ret v`   — normal return;
* `trap`    — a FuelVM panic: `add/mul` overflow, `sub` underflow, `div/mod` by zero;
* `stuck`   — ill-formed IR (undefined value, type mismatch, missing block, arity mismatch): the
              real `Context::verify` rejects such modules, the model makes it an outcome;
* `timeout` — fuel exhausted.

NOT in MiniIR: memory (`get_local/load/store/mem_copy`), calls, aggregates, pointers, wide
(256-bit) operations, asm blocks, FuelVM instructions, metadata. Passes that need these
(mem2reg, inline, SROA, memcpyopt, the demotions, CSE, CCP, argument-mutability tagging, globals-DCE)
are not modelled; they are validated per module on the real backend and VM (`sv_c03`).

The three modelled transformations (all of `sway-ir/src/optimize`):

* `removeUnreachable` — `simplify_cfg.rs::remove_dead_blocks`: blocks not reachable from the
  entry block are deleted. The model computes the candidate set by bounded iteration of the
  successor relation and *checks* that it contains the entry and is closed under successors
  before filtering (the real code runs a worklist to its fixpoint).
* `foldCbr` — `simplify_cfg.rs::unlink_empty_blocks/merge…` precondition and
  `constants.rs::combine_cbr`: `cbr <const bool>, T(..), F(..)` becomes `br T(..)` / `br F(..)`.
* `dceOnce` / `dce` — `dce.rs::dce`: an instruction without side effect whose result is used
  nowhere in the function is deleted; iterated until nothing changes (`dce` = `n` sweeps).
  In the real pass `add`, `div`, … count as "no side effect" although they can make the VM panic;
  the model keeps that behaviour (see `Props/C03.lean` for what is and is not preserved).
-/
namespace SwayVerif.MiniIR

abbrev Var := Nat
abbrev Label := Nat

inductive Val where
  | u (n : Nat)
  | b (v : Bool)
deriving DecidableEq, Repr, Inhabited

inductive BinOp where
  | add | sub | mul | div | mod | and | or | xor | lsh | rsh
deriving DecidableEq, Repr

inductive Pred where
  | eq | lt | gt
deriving DecidableEq, Repr

inductive Operand where
  | var (x : Var)
  | const (v : Val)
deriving DecidableEq, Repr

inductive Inst where
  | binop (dst : Var) (op : BinOp) (a b : Operand)
  | cmp (dst : Var) (p : Pred) (a b : Operand)
deriving DecidableEq, Repr

inductive Term where
  | br (l : Label) (args : List Operand)
  | cbr (c : Operand) (lt : Label) (targs : List Operand) (lf : Label) (fargs : List Operand)
  | ret (v : Operand)
deriving DecidableEq, Repr

structure Block where
  label : Label
  params : List Var
  insts : List Inst
  term : Term
deriving DecidableEq, Repr

structure Func where
  entry : Label
  blocks : List Block
deriving DecidableEq, Repr

inductive Outcome where
  | ret (v : Val)
  | trap
  | stuck
  | timeout
deriving DecidableEq, Repr

/-- 2^64. -/
def W : Nat := 18446744073709551616

/-- FuelVM ALU on 64-bit words; `none` = the VM panics (`$err`/`$of` with default flags). -/
def evalBin : BinOp → Nat → Nat → Option Nat
  | .add, a, b => if a + b < W then some (a + b) else none
  | .sub, a, b => if b ≤ a then some (a - b) else none
  | .mul, a, b => if a * b < W then some (a * b) else none
  | .div, a, b => if b = 0 then none else some (a / b)
  | .mod, a, b => if b = 0 then none else some (a % b)
  | .and, a, b => some (Nat.land a b)
  | .or, a, b => some (Nat.lor a b)
  | .xor, a, b => some (Nat.xor a b)
  | .lsh, a, b => some (if b < 64 then (a <<< b) % W else 0)
  | .rsh, a, b => some (if b < 64 then a >>> b else 0)

def evalPred : Pred → Val → Val → Option Bool
  | .eq, .u a, .u b => some (decide (a = b))
  | .eq, .b a, .b b => some (decide (a = b))
  | .lt, .u a, .u b => some (decide (a < b))
  | .gt, .u a, .u b => some (decide (a > b))
  | _, _, _ => none

abbrev Env := Var → Option Val

def Env.empty : Env := fun _ => none
def Env.set (e : Env) (x : Var) (v : Val) : Env := fun y => if y = x then some v else e y

def evalOp (e : Env) : Operand → Option Val
  | .var x => e x
  | .const v => some v

def evalOps (e : Env) : List Operand → Option (List Val)
  | [] => some []
  | o :: os => match evalOp e o, evalOps e os with
    | some v, some vs => some (v :: vs)
    | _, _ => none

inductive StepRes where
  | ok (e : Env)
  | trap
  | stuck

def Inst.dst : Inst → Var
  | .binop d _ _ _ => d
  | .cmp d _ _ _ => d

def stepInst (e : Env) : Inst → StepRes
  | .binop d op a b => match evalOp e a, evalOp e b with
    | some (.u x), some (.u y) => match evalBin op x y with
      | some r => .ok (e.set d (.u r))
      | none => .trap
    | _, _ => .stuck
  | .cmp d p a b => match evalOp e a, evalOp e b with
    | some x, some y => match evalPred p x y with
      | some r => .ok (e.set d (.b r))
      | none => .stuck
    | _, _ => .stuck

def execInsts (e : Env) : List Inst → StepRes
  | [] => .ok e
  | i :: is => match stepInst e i with
    | .ok e' => execInsts e' is
    | .trap => .trap
    | .stuck => .stuck

def bindParams (e : Env) : List Var → List Val → Option Env
  | [], [] => some e
  | x :: xs, v :: vs => bindParams (e.set x v) xs vs
  | _, _ => none

inductive TermRes where
  | jump (l : Label) (vals : List Val)
  | done (v : Val)
  | stuck

def stepTerm (e : Env) : Term → TermRes
  | .br l args => match evalOps e args with
    | some vs => .jump l vs
    | none => .stuck
  | .cbr c lt targs lf fargs => match evalOp e c with
    | some (.b true) => (match evalOps e targs with | some vs => .jump lt vs | none => .stuck)
    | some (.b false) => (match evalOps e fargs with | some vs => .jump lf vs | none => .stuck)
    | _ => .stuck
  | .ret v => match evalOp e v with
    | some x => .done x
    | none => .stuck

def findBlock : List Block → Label → Option Block
  | [], _ => none
  | b :: bs, l => if b.label = l then some b else findBlock bs l

/-- Execute from block `l` with block arguments `vals`; one unit of fuel per block. -/
def runFrom (f : Func) : Nat → Env → Label → List Val → Outcome
  | 0, _, _, _ => .timeout
  | n + 1, e, l, vals =>
    match findBlock f.blocks l with
    | none => .stuck
    | some b =>
      match bindParams e b.params vals with
      | none => .stuck
      | some e1 =>
        match execInsts e1 b.insts with
        | .trap => .trap
        | .stuck => .stuck
        | .ok e2 =>
          match stepTerm e2 b.term with
          | .stuck => .stuck
          | .done v => .ret v
          | .jump l' vals' => runFrom f n e2 l' vals'

def run (f : Func) (args : List Val) (fuel : Nat) : Outcome :=
  runFrom f fuel Env.empty f.entry args

/-! ## simplify-cfg: unreachable block removal -/

def Term.succs : Term → List Label
  | .br l _ => [l]
  | .cbr _ lt _ lf _ => [lt, lf]
  | .ret _ => []

def filterBlocks (keep : Label → Bool) (f : Func) : Func :=
  { f with blocks := f.blocks.filter fun b => keep b.label }

/-- `keep` is closed under the successor relation of the kept blocks. -/
def closedB (keep : Label → Bool) (f : Func) : Bool :=
  f.blocks.all fun b => !keep b.label || b.term.succs.all keep

def addNew (s : List Label) : List Label → List Label
  | [] => s
  | l :: ls => if s.contains l then addNew s ls else addNew (s ++ [l]) ls

/-- One round: add the successors of every block whose label is already in the set. -/
def expand (f : Func) (s : List Label) : List Label :=
  addNew s ((f.blocks.filter fun b => s.contains b.label).flatMap fun b => b.term.succs)

def iter {α : Type} (g : α → α) : Nat → α → α
  | 0, a => a
  | n + 1, a => iter g n (g a)

def reachSet (f : Func) : List Label := iter (expand f) f.blocks.length [f.entry]

def removeUnreachable (f : Func) : Func :=
  let s := reachSet f
  let keep := fun l => s.contains l
  if keep f.entry && closedB keep f then filterBlocks keep f else f

/-! ## simplify-cfg / const-folding: conditional branch on a constant -/

def foldCbrTerm : Term → Term
  | .cbr (.const (.b true)) lt targs _ _ => .br lt targs
  | .cbr (.const (.b false)) _ _ lf fargs => .br lf fargs
  | t => t

def foldCbr (f : Func) : Func :=
  { f with blocks := f.blocks.map fun b => { b with term := foldCbrTerm b.term } }

/-! ## DCE of instructions whose result is never used -/

def Operand.vars : Operand → List Var
  | .var x => [x]
  | .const _ => []

def Inst.uses : Inst → List Var
  | .binop _ _ a b => a.vars ++ b.vars
  | .cmp _ _ a b => a.vars ++ b.vars

def Term.uses : Term → List Var
  | .br _ args => args.flatMap Operand.vars
  | .cbr c _ targs _ fargs => c.vars ++ targs.flatMap Operand.vars ++ fargs.flatMap Operand.vars
  | .ret v => v.vars

def Block.uses (b : Block) : List Var := b.insts.flatMap Inst.uses ++ b.term.uses

/-- Every variable that occurs as an operand anywhere in the function. -/
def usedVars (f : Func) : List Var := f.blocks.flatMap Block.uses

/-- `dce.rs`: the instruction's result has no use in the function. -/
def isDead (f : Func) (i : Inst) : Bool := !(usedVars f).contains i.dst

def dceOnce (f : Func) : Func :=
  { f with blocks := f.blocks.map fun b => { b with insts := b.insts.filter fun i => !isDead f i } }

/-- `n` sweeps (the real pass iterates with a worklist until nothing is dead). -/
def dce (n : Nat) (f : Func) : Func := iter dceOnce n f

/-- Operations that can never make the VM panic. -/
def Inst.nonTrapping : Inst → Bool
  | .binop _ op _ _ => match op with
    | .and | .or | .xor | .lsh | .rsh => true
    | _ => false
  | .cmp _ _ _ _ => true

/-! ## Canonical text form (shared with the Rust harness for the correspondence check)

`f <entry> { b <label> ( <params> ) : <inst>* <term> }*` as a token list, see `Driver/C03.lean`. -/

end SwayVerif.MiniIR
