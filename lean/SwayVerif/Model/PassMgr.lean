/-!
# Model of `sway_ir::PassManager::run` and of the assembly optimiser's round loop (C02)

Import-free. Passes are abstract: a pass transforms the IR, reports whether it modified it, and the
verifier run after every pass (`ir.verify()?`) may reject the result (`none`: the compilation fails,
no bytecode is produced).

* `PassOrGroup`/`flatten` — `PassGroup` and `PassGroup::flatten_pass_group`
* `runPasses` — the inner `for pass in passes.flatten_pass_group()` loop (`iter_modified |= modified`)
* `runRounds` — the outer `for _ in 0..options.rounds` loop with `if !iter_modified { break }`
* `asmRounds` — `AbstractInstructionSet::optimize` at `OptLevel::Opt1`: up to `MAX_OPT_ROUNDS` rounds of
  two `Opt0` chains, `Equal => break`, `Greater => return old`, `Less => continue`
-/
namespace SwayVerif.PassMgr

/-- pass names are lists of character codes (kernel-reducible, unlike `String`) -/
abbrev Name := List Nat

inductive PassOrGroup
  | pass (n : Name)
  | group (g : List PassOrGroup)

mutual
  /-- `PassGroup::flatten_pass_group` -/
  def flatten : List PassOrGroup → List Name
    | [] => []
    | p :: r => flattenOne p ++ flatten r
  def flattenOne : PassOrGroup → List Name
    | .pass n => [n]
    | .group g => flatten g
end

/-- A registered pass on IR type `IR`: `none` = the pass (or the verifier after it) returned an error. -/
structure Pass (IR : Type) where
  run : IR → Option (IR × Bool)

variable {IR : Type}

/-- the inner loop: run the named passes in order; `none` when a name is not registered
(`lookup_registered_pass(..).unwrap()` / `actually_run` error) or a pass fails -/
def runPasses (lookup : Name → Option (Pass IR)) : List Name → IR → Option (IR × Bool)
  | [], ir => some (ir, false)
  | n :: r, ir =>
    match lookup n with
    | none => none
    | some p =>
      match p.run ir with
      | none => none
      | some (ir', m) =>
        match runPasses lookup r ir' with
        | none => none
        | some (ir'', m') => some (ir'', m || m')

/-- the outer loop of `PassManager::run` -/
def runRounds (lookup : Name → Option (Pass IR)) (names : List Name) : Nat → IR → Option (IR × Bool)
  | 0, ir => some (ir, false)
  | k + 1, ir =>
    match runPasses lookup names ir with
    | none => none
    | some (ir', m) =>
      if m then
        match runRounds lookup names k ir' with
        | none => none
        | some (ir'', m') => some (ir'', m || m')
      else some (ir', false)

/-- `PassManager::run(ir, group, options)` -/
def runPipeline (lookup : Name → Option (Pass IR)) (group : List PassOrGroup) (rounds : Nat) (ir : IR) :
    Option (IR × Bool) :=
  runRounds lookup (flatten group) rounds ir

/-! ## Assembly optimiser -/

variable {A : Type}

/-- one `OptLevel::Opt0` call: the chain of simple optimisations, in order -/
def asmChain (steps : List (A → A)) (a : A) : A := steps.foldl (fun x f => f x) a

/-- `OptLevel::Opt1`: `for _ in 0..MAX_OPT_ROUNDS { old = self.clone(); self = opt0(opt0(self)); match len … }` -/
def asmRounds (opt0 : A → A) (size : A → Nat) : Nat → A → A
  | 0, a => a
  | k + 1, a =>
    let a' := opt0 (opt0 a)
    if size a' = size a then a'            -- Ordering::Equal => break
    else if size a < size a' then a        -- Ordering::Greater => return old
    else asmRounds opt0 size k a'          -- Ordering::Less => continue

end SwayVerif.PassMgr
