/-!
# Model of `sway-ir/src/pass_manager.rs::PassManager::run` (C04)

Import-free. A pass is abstract: a function from modules to "refused" (`Err` of the pass itself) or a new
module plus its `modified` flag. `PassManager::run` verifies the module, then runs the flattened pass list
up to `rounds` times, verifying after EVERY pass, and stops after the first round in which no pass
reported a modification. (Pass bodies, analyses and their invalidation are not modelled.)
-/
namespace SwayVerif.PassSeq

/-- a transformation pass on modules of type `M` -/
structure Pass (M : Type) where
  run : M → Option (M × Bool)

inductive Res (M : Type)
  | ok (m : M) (modified : Bool)
  /-- a pass returned `Err` (it refused its input); not a well-formedness violation -/
  | passErr
  /-- `ir.verify()` failed (before the first pass or after some pass) -/
  | verifyFail

/-- one pass of the list: `actually_run`, then `ir.verify()?` -/
def step {M : Type} (wf : M → Bool) (p : Pass M) (m : M) : Res M :=
  match p.run m with
  | none => .passErr
  | some (m', modified) => if wf m' then .ok m' modified else .verifyFail

/-- `for pass in passes.flatten_pass_group()` of one round; `acc` = `iter_modified` so far -/
def runRound {M : Type} (wf : M → Bool) : List (Pass M) → M → Bool → Res M
  | [], m, acc => .ok m acc
  | p :: ps, m, acc => match step wf p m with
    | .ok m' md => runRound wf ps m' (acc || md)
    | .passErr => .passErr
    | .verifyFail => .verifyFail

/-- `for _ in 0..options.rounds { …; if !iter_modified { break } }`; `g` = `global_modified` -/
def runRounds {M : Type} (wf : M → Bool) (passes : List (Pass M)) : Nat → M → Bool → Res M
  | 0, m, g => .ok m g
  | k + 1, m, g => match runRound wf passes m false with
    | .ok m' md => if md then runRounds wf passes k m' true else .ok m' g
    | .passErr => .passErr
    | .verifyFail => .verifyFail

/-- `PassManager::run`: verify, then the rounds -/
def run {M : Type} (wf : M → Bool) (passes : List (Pass M)) (rounds : Nat) (m : M) : Res M :=
  if wf m then runRounds wf passes rounds m false else .verifyFail

/-- number of pass executions of a run (termination measure; bounded by `rounds * passes.length`) -/
def execCount {M : Type} (wf : M → Bool) (passes : List (Pass M)) : Nat → M → Nat
  | 0, _ => 0
  | k + 1, m => match runRound wf passes m false with
    | .ok m' md => passes.length + (if md then execCount wf passes k m' else 0)
    | _ => passes.length

/-- a pass keeps accepted modules accepted -/
def PreservesWf {M : Type} (wf : M → Bool) (p : Pass M) : Prop :=
  ∀ m m' md, wf m = true → p.run m = some (m', md) → wf m' = true

/-! ## the property's predicate on one harness line -/

/-- outcome classes reported by `sv_c04` for one random pass sequence on a module -/
inductive Verdict
  | ok | passErr | initFail | verifyFail | panic | hang | abort

/-- C04 on one (module, sequence): the verifier accepted the input and then a pass broke it, panicked,
hung or aborted the process ⇒ violation. A pass refusing its input (`Err`) and an input the verifier
rejects from the start are outside the property. -/
def propHolds : Verdict → Bool
  | .ok | .passErr | .initFail => true
  | .verifyFail | .panic | .hang | .abort => false

/-! ## dominance kernel (the SSA-dominance check of `verify.rs` on an abstract CFG) -/

/-- a CFG: `succ[b]` = successor block indices of block `b`; block 0 is the entry -/
abbrev Cfg := List (List Nat)

def succs (g : Cfg) (b : Nat) : List Nat := g.getD b []

/-- blocks reachable from the blocks in `frontier` within `fuel` steps without entering `avoid` -/
def reachAvoid (g : Cfg) (avoid : Nat) : Nat → List Nat → List Nat
  | 0, seen => seen
  | fuel + 1, seen =>
    let next := (seen.flatMap (succs g)).filter (fun s => s != avoid)
    reachAvoid g avoid fuel (seen ++ next)

/-- executable dominance: `a` dominates `b` iff `b = a` or `b` cannot be reached from the entry (within
`fuel` steps) once `a` is removed -/
def dominates (g : Cfg) (fuel a b : Nat) : Bool :=
  a == b || !((reachAvoid g a fuel (if a == 0 then [] else [0])).contains b)

/-- `p` is a path in `g`: consecutive elements are edges -/
def IsPath (g : Cfg) : List Nat → Prop
  | [] => True
  | [_] => True
  | x :: y :: r => y ∈ succs g x ∧ IsPath g (y :: r)

end SwayVerif.PassSeq
