/-!
# Model of the data section and of the bytecode layout (C13)

Transliteration of
* `sway-core/src/asm_generation/fuel/data_section.rs` — `Entry`, `Datum`, `Padding`, `Entry::to_bytes`,
  `Entry::equiv`, `DataSection::{insert_data_value, append_pointer, absolute_idx_to_offset,
  data_id_to_offset, serialize_to_bytes}`;
* `sway-core/src/asm_generation/finalized_asm.rs` — `to_bytecode_mut`: `op_size_in_bytes`, the size pass,
  the pointer pre-insertion pass, the emission pass (`addr_of`, `realize_load` of `allocated_ops.rs`), the
  final size assertions and the reported configurable offsets
  (`offset_to_data_section_in_bytes + absolute_idx_to_offset(num_nonconfigurables + j)`).

Import-free. Every Rust panic (`expect`, `assert_eq!`, `VirtualImmediate12` overflow, `u64` underflow in a
debug build, `try_into().unwrap()`) is an explicit `Res.panic`.

Assumptions (sizes that cannot occur in a program that fits in VM memory): byte arrays shorter than
2^32 bytes (`(len + 7) & 0xfffffff8`), fewer than 2^32 entries (`idx as u32`).
-/
namespace SwayVerif.DataSection

abbrev Byte := UInt8
abbrev Name := List Char

/-- `size_bytes_round_up_to_word_alignment!` -/
def roundUp8 (n : Nat) : Nat := (n + 7) - (n + 7) % 8

def zeros (n : Nat) : List Byte := List.replicate n 0

/-- `buf.extend(vec![0u8; aligned_len - buf.len()])` -/
def padTo8 (bs : List Byte) : List Byte := bs ++ zeros (roundUp8 bs.length - bs.length)

/-- `sway_ir::Padding` -/
inductive Pad where
  | left (target : Nat)
  | right (target : Nat)
  deriving DecidableEq, Repr

def Pad.target : Pad → Nat
  | .left n => n
  | .right n => n

/-- tail of `Entry::to_bytes`: `target_size.saturating_sub(len)` zero bytes on the padding side -/
def padBytes (p : Pad) (bs : List Byte) : List Byte :=
  match p with
  | .left t => zeros (t - bs.length) ++ bs
  | .right t => bs ++ zeros (t - bs.length)

def be64 (v : Nat) : List Byte :=
  [56, 48, 40, 32, 24, 16, 8, 0].map fun s => UInt8.ofNat ((v >>> s) % 256)

mutual
/-- `Datum`; the elements of a `Collection` keep only what `to_bytes`/`equiv` look at (value, padding). -/
inductive Datum where
  | byte (v : Byte)
  | word (v : Nat)
  | byteArray (bs : List Byte)
  | slice (bs : List Byte)
  | coll (items : Items)
inductive Items where
  | nil
  | cons (d : Datum) (p : Pad) (rest : Items)
end

/-- the `ByteArray`/`Slice` arm of `to_bytes` -/
def arrayBytes (bs : List Byte) : List Byte :=
  if bs.length % 8 = 0 then bs else (bs ++ zeros 8).take (roundUp8 bs.length)

mutual
def Datum.raw : Datum → List Byte
  | .byte v => [v]
  | .word v => be64 v
  | .byteArray bs => arrayBytes bs
  | .slice bs => arrayBytes bs
  | .coll is => is.raw
def Items.raw : Items → List Byte
  | .nil => []
  | .cons d p r => padBytes p d.raw ++ r.raw
end

mutual
/-- `equiv_data`: note that `Slice` never equals anything and that paddings are ignored -/
def Datum.equiv : Datum → Datum → Bool
  | .byte a, .byte b => a == b
  | .word a, .word b => a == b
  | .byteArray a, .byteArray b => a == b
  | .coll a, .coll b => a.equiv b
  | _, _ => false
def Items.equiv : Items → Items → Bool
  | .nil, .nil => true
  | .cons d _ r, .cons d' _ r' => d.equiv d' && r.equiv r'
  | _, _ => false
end

def Items.sumTargets : Items → Nat
  | .nil => 0
  | .cons _ p r => p.target + r.sumTargets

/-- `name = none` is `EntryName::NonConfigurable` -/
structure Entry where
  value : Datum
  pad : Pad
  name : Option Name

/-- default paddings of `Entry::new_*` -/
def defaultPad : Datum → Pad
  | .byte _ => .right 1
  | .word _ => .right 8
  | .byteArray bs => .right bs.length
  | .slice bs => .right bs.length
  | .coll is => .right is.sumTargets

def Entry.new (value : Datum) (name : Option Name) (pad : Option Pad) : Entry :=
  ⟨value, pad.getD (defaultPad value), name⟩

def Entry.toBytes (e : Entry) : List Byte := padBytes e.pad e.value.raw

def Entry.isCopy (e : Entry) : Bool :=
  match e.value with
  | .byte _ => true
  | .word _ => true
  | _ => false

def Entry.isByte (e : Entry) : Bool :=
  match e.value with
  | .byte _ => true
  | _ => false

/-- `Entry::equiv`: values equivalent AND names equal AND the same serialised bytes
(`equiv_data` ignores paddings; the last conjunct is the `fix:` for entries that are equal as data but are
padded differently, e.g. the tuple `(0u64, 5u64)` and an enum value with tag 0 and a left-padded payload 5). -/
def Entry.equiv (a b : Entry) : Bool := a.value.equiv b.value && a.name == b.name && a.toBytes == b.toBytes

structure DataId where
  conf : Bool
  idx : Nat
  deriving DecidableEq, Repr

structure DS where
  nonConf : List Entry := []
  conf : List Entry := []
  /-- `pointer_id : FxHashMap<u64, DataId>` as an association list, newest binding first -/
  ptrs : List (Nat × DataId) := []

def DS.all (ds : DS) : List Entry := ds.nonConf ++ ds.conf

def DS.absIdx (ds : DS) (id : DataId) : Nat :=
  if id.conf then id.idx + ds.nonConf.length else id.idx

def DS.get (ds : DS) (id : DataId) : Option Entry :=
  if id.conf then ds.conf[id.idx]? else ds.nonConf[id.idx]?

/-! ### layout of a list of chunks (`to_bytes` of each entry) -/

/-- `absolute_idx_to_offset`: fold over the first `i` entries -/
def offsetAt (cs : List (List Byte)) (i : Nat) : Nat :=
  (cs.take i).foldl (fun off c => roundUp8 (off + c.length)) 0

/-- `serialize_to_bytes` -/
def serializeChunks (cs : List (List Byte)) : List Byte :=
  cs.foldl (fun buf c => padTo8 (buf ++ c)) []

def chunks (es : List Entry) : List (List Byte) := es.map Entry.toBytes

def DS.offsetOfAbs (ds : DS) (i : Nat) : Nat := offsetAt (chunks ds.all) i
def DS.offsetOf (ds : DS) (id : DataId) : Nat := ds.offsetOfAbs (ds.absIdx id)
def DS.serialize (ds : DS) : List Byte := serializeChunks (chunks ds.all)

/-! ### insertion -/

def findEquiv (es : List Entry) (e : Entry) : Option Nat := es.findIdx? (fun x => x.equiv e)

/-- `insert_data_value` -/
def DS.insert (ds : DS) (e : Entry) : DS × DataId :=
  match e.name with
  | none =>
    match findEquiv ds.nonConf e with
    | some i => (ds, ⟨false, i⟩)
    | none => ({ ds with nonConf := ds.nonConf ++ [e] }, ⟨false, ds.nonConf.length⟩)
  | some _ =>
    match findEquiv ds.conf e with
    | some i => (ds, ⟨true, i⟩)
    | none => ({ ds with conf := ds.conf ++ [e] }, ⟨true, ds.conf.length⟩)

def wordEntry (v : Nat) : Entry := ⟨.word v, .right 8, none⟩

/-- `append_pointer` -/
def DS.appendPointer (ds : DS) (v : Nat) : DS × DataId :=
  let r := ds.insert (wordEntry v)
  ({ r.1 with ptrs := (v, r.2) :: r.1.ptrs }, r.2)

def DS.pointerId (ds : DS) (v : Nat) : Option DataId := (ds.ptrs.find? (fun p => p.1 == v)).map (·.2)

inductive DOp where
  | insert (e : Entry)
  | pointer (v : Nat)

def DS.apply (ds : DS) : DOp → DS × DataId
  | .insert e => ds.insert e
  | .pointer v => ds.appendPointer v

/-- apply a history of operations, collecting the returned ids -/
def DS.run (ds : DS) : List DOp → DS × List DataId
  | [] => (ds, [])
  | op :: ops =>
    let r := ds.apply op
    let rest := r.1.run ops
    (rest.1, r.2 :: rest.2)

/-! ### patching a buffer (what an SDK does with the JSON-ABI offset) -/

/-- overwrite `new.length` bytes at `off`; out of range is a slice panic (`none`) -/
def patch (buf : List Byte) (off : Nat) (new : List Byte) : Option (List Byte) :=
  if off + new.length ≤ buf.length then some (buf.take off ++ new ++ buf.drop (off + new.length)) else none

def slice (buf : List Byte) (off len : Nat) : List Byte := (buf.drop off).take len

/-- bytecode = code ++ serialised data section -/
def bytecode (code : List Byte) (ds : DS) : List Byte := code ++ ds.serialize

/-- the offset the JSON ABI reports for configurable `j`:
`offset_to_data_section_in_bytes + absolute_idx_to_offset(j + num_nonconfigurables)` -/
def reportedOffset (codeLen : Nat) (ds : DS) (j : Nat) : Nat :=
  codeLen + ds.offsetOfAbs (j + ds.nonConf.length)

/-! ### the property's predicates, evaluated on the IMPLEMENTATION's results -/

/-- A reported layout: serialised bytes and, per entry, (offset, to_bytes).
Holds iff every entry's bytes sit at its offset, entries are in order, disjoint, and inside the buffer. -/
def layoutOk (bytes : List Byte) : Nat → List (Nat × List Byte) → Bool
  | lo, [] => lo ≤ bytes.length
  | lo, (off, bs) :: rest =>
    lo ≤ off && slice bytes off bs.length == bs && off + bs.length ≤ bytes.length &&
      layoutOk bytes (off + bs.length) rest

/-- ids returned for configurable inserts with different names are different -/
def idsDistinct : List (Option Name × DataId) → Bool
  | [] => true
  | (n, id) :: rest =>
    rest.all (fun p => !(n.isSome && p.1.isSome && n != p.1 && id == p.2)) && idsDistinct rest

/-- end-to-end predicate: after patching configurable `j` with `new`, configurable `j` is observed as `new`
and every other configurable as its compiled-in default. -/
def patchObserved (defaults : List (List Byte)) (j : Nat) (new : List Byte) (observed : List (List Byte)) : Bool :=
  observed == defaults.set j new && j < defaults.length

/-! ### `to_bytecode_mut`: sizes, pointer pre-insertion, emission -/

inductive Panic where
  | missingData      -- "data label references non existent data"
  | arith            -- u64 under/overflow (debug build)
  | imm12            -- "Unable to offset into the data section more than 2^12 bits"
  | pointerMissing   -- "Pointer offset must be in data_section"
  | sizeAssert       -- assert_eq!(bytecode.len(), offset_to_data_section_in_bytes)
  | misaligned
  | u32              -- offset_bytes.try_into().unwrap()
  deriving DecidableEq, Repr

inductive Res (α : Type) where
  | ok (a : α)
  | panic (p : Panic)
  deriving Repr

instance {α} [DecidableEq α] : DecidableEq (Res α) := fun a b => by
  cases a <;> cases b <;> simp <;> exact inferInstance

def Res.bind {α β} (r : Res α) (f : α → Res β) : Res β :=
  match r with
  | .ok a => f a
  | .panic p => .panic p

def Res.isOk {α} : Res α → Bool
  | .ok _ => true
  | .panic _ => false

def Res.isPanic {α} (r : Res α) (p : Panic) : Bool :=
  match r with
  | .ok _ => false
  | .panic q => q == p

inductive COp where
  | fixed (size : Nat)        -- any op whose size does not depend on the data section
  | load (id : DataId)        -- LoadDataId
  | addr (id : DataId)        -- AddrDataId
  deriving DecidableEq, Repr

def twelveBits : Nat := 4095

/-- `op_size_in_bytes` -/
def opSize (ds : DS) : COp → Res Nat
  | .fixed n => .ok n
  | .load id =>
    match ds.get id with
    | none => .panic .missingData
    | some e => .ok (if e.isCopy then 4 else 8)
  | .addr id => .ok (if ds.offsetOf id ≤ twelveBits then 4 else 8)

/-- first fold: `offset_to_data_section_in_bytes` -/
def codeSize (ds : DS) : List COp → Res Nat
  | [] => .ok 0
  | op :: ops => (opSize ds op).bind fun n => (codeSize ds ops).bind fun m => .ok (n + m)

/-- `off0 - ofs + offb - 4` in checked u64 arithmetic -/
def pointerValue (off0 ofs offb : Nat) : Res Nat :=
  if off0 < ofs then .panic .arith
  else if off0 - ofs + offb < 4 then .panic .arith
  else .ok (off0 - ofs + offb - 4)

/-- second loop: pre-insert pointers for non-copy loads -/
def pass1 (off0 : Nat) : DS → Nat → List COp → Res DS
  | ds, _, [] => .ok ds
  | ds, ofs, op :: ops =>
    match op with
    | .load id =>
      match ds.get id with
      | none => .panic .missingData
      | some e =>
        if e.isCopy then pass1 off0 ds (ofs + 4) ops
        else
          (pointerValue off0 ofs (ds.offsetOf id)).bind fun ptr =>
            pass1 off0 (ds.appendPointer ptr).1 (ofs + 8) ops
    | op => (opSize ds op).bind fun n => pass1 off0 ds (ofs + n) ops

/-- what the emission loop produces for one op -/
inductive Emit where
  | fixed (size : Nat)
  | addi (imm : Nat)                 -- ADDI dest $ds imm12        (4 bytes)
  | movi (imm : Nat)                 -- MOVI dest imm18; ADD       (8 bytes)
  | lb (imm : Nat)                   -- LB dest $ds imm12
  | lw (imm : Nat)                   -- LW dest $ds imm12 (words)
  | ptrLoad (slotWords : Nat) (ptr : Nat)  -- LW dest $ds slot; ADD dest dest $pc   (8 bytes)
  deriving DecidableEq, Repr

def Emit.size : Emit → Nat
  | .fixed n => n
  | .addi _ => 4
  | .movi _ => 8
  | .lb _ => 4
  | .lw _ => 4
  | .ptrLoad _ _ => 8

/-- the immediate computed at the top of `realize_load` (checked for EVERY load, copy or not) -/
def loadImm (ds : DS) (id : DataId) (e : Entry) : Res Nat :=
  let off := ds.offsetOf id
  if off % 8 ≠ 0 then .panic .misaligned
  else
    let imm := if e.isByte then off else off / 8
    if imm > twelveBits then .panic .imm12 else .ok imm

/-- `to_fuel_asm` for the three data-dependent ops -/
def emitOp (ds : DS) (off0 ofs : Nat) : COp → Res Emit
  | .fixed n => .ok (.fixed n)
  | .addr id =>
    let off := ds.offsetOf id
    if off ≤ twelveBits then .ok (.addi off)
    else if off ≥ 2 ^ 32 then .panic .u32
    else .ok (.movi (off % 2 ^ 18))      -- `Imm18::new` masks silently
  | .load id =>
    match ds.get id with
    | none => .panic .missingData
    | some e =>
      (loadImm ds id e).bind fun imm =>
        if e.isCopy then .ok (if e.isByte then .lb imm else .lw imm)
        else
          (pointerValue off0 ofs (ds.offsetOf id)).bind fun ptr =>
            match ds.pointerId ptr with
            | none => .panic .pointerMissing
            | some pid =>
              match ds.get pid with
              | none => .panic .missingData
              | some pe => (loadImm ds pid pe).bind fun slot => .ok (.ptrLoad slot ptr)

/-- third loop: emission with the final data section -/
def pass2 (ds : DS) (off0 : Nat) : Nat → List COp → Res (List Emit)
  | _, [] => .ok []
  | ofs, op :: ops =>
    (emitOp ds off0 ofs op).bind fun e =>
      (pass2 ds off0 (ofs + e.size) ops).bind fun es => .ok (e :: es)

def emitsSize : List Emit → Nat
  | [] => 0
  | e :: es => e.size + emitsSize es

structure Bytecode where
  codeLen : Nat
  ds : DS
  emits : List Emit

/-- `to_bytecode_mut` (layout only) -/
def toBytecode (ds0 : DS) (ops : List COp) : Res Bytecode :=
  (codeSize ds0 ops).bind fun sz =>
    let ops' := if sz % 8 = 0 then ops else ops ++ [.fixed 4]
    let off0 := if sz % 8 = 0 then sz else sz + 4
    (pass1 off0 ds0 0 ops').bind fun dsf =>
      (pass2 dsf off0 0 ops').bind fun emits =>
        if emitsSize emits = off0 then .ok ⟨off0, dsf, emits⟩ else .panic .sizeAssert

/-- `named_data_section_entries_offsets` (in configurables order) -/
def namedOffsets (b : Bytecode) : List (Option Name × Nat) :=
  (List.range b.ds.conf.length).map fun j => ((b.ds.conf[j]?).bind (·.name), reportedOffset b.codeLen b.ds j)

/-- An emitted op addresses the entry it names: the address it computes (relative to `$is`) equals
`codeLen + final offset of the entry`. `pos` is the op's own byte position. -/
def emitResolves (b : Bytecode) (pos : Nat) (op : COp) (e : Emit) : Bool :=
  match op, e with
  | .fixed n, .fixed m => n == m
  | .addr id, .addi imm => imm == b.ds.offsetOf id
  | .addr id, .movi imm => imm == b.ds.offsetOf id
  | .load id, .lb imm => imm == b.ds.offsetOf id
  | .load id, .lw imm => imm * 8 == b.ds.offsetOf id
  | .load id, .ptrLoad slot ptr =>
    -- the slot holds `ptr`, and `ptr + pc` (pc = position of the ADD = pos + 4) is the entry's address
    slice b.ds.serialize (slot * 8) 8 == be64 ptr && ptr + pos + 4 == b.codeLen + b.ds.offsetOf id
  | _, _ => false

def allResolve (b : Bytecode) : Nat → List COp → List Emit → Bool
  | _, [], [] => true
  | pos, op :: ops, e :: es => emitResolves b pos op e && allResolve b (pos + e.size) ops es
  | _, _, _ => false

end SwayVerif.DataSection
