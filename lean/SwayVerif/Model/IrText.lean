/-!
# Model of the constant / type kernels of the IR text format
(`sway-ir/src/printer.rs::ConstantContent::as_lit_string`, `sway-ir/src/irtype.rs::Type::as_string`,
 peg rules `ast_ty`, `constant_value`, `string_const`, `str_char`, `hex_digit`, `array_const`,
 `struct_const`, `field_or_element_const`, `decimal`, `_` of `sway-ir/src/parser.rs`, and the
 conversions `IrAstConstValue::as_constant` / `as_value`).

Import-free. Text is `List Char` (the printed literal is pure ASCII: every byte ≥ 0x80 of a string
constant is escaped). PEG semantics are modelled literally: ordered choice, greedy repetition, no
word boundaries, `_` skips blanks, newlines and `// …` comments. A Rust panic reachable from text
(`ds.parse::<u64>().unwrap()` on overflow, `unreachable!("invalid type for hex number")`, the
`unreachable!()` of `as_value` for numbers of a type other than u8/u64) is the explicit outcome
`panic`. Recursion is by fuel; running out of fuel is `fail` (the entry points give fuel = length
of the input + 1, which is never exhausted because every recursive call consumes a character).
-/
namespace SwayVerif.IrText

/-! ## Types and constants -/

mutual
inductive Ty
  | never | unit | bool | uint (n : Nat) | b256 | strSlice | strArr (n : Nat) | slice | ptr
  | arr (t : Ty) (n : Nat) | union (ts : Tys) | struct (ts : Tys) | tptr (t : Ty) | tslice (t : Ty)
inductive Tys
  | nil | cons (t : Ty) (ts : Tys)
end

mutual
def Ty.beq : Ty → Ty → Bool
  | .never, .never | .unit, .unit | .bool, .bool | .b256, .b256 | .strSlice, .strSlice
  | .slice, .slice | .ptr, .ptr => true
  | .uint a, .uint b => a == b
  | .strArr a, .strArr b => a == b
  | .arr s a, .arr t b => a == b && Ty.beq s t
  | .union s, .union t => Tys.beq s t
  | .struct s, .struct t => Tys.beq s t
  | .tptr s, .tptr t => Ty.beq s t
  | .tslice s, .tslice t => Ty.beq s t
  | _, _ => false
def Tys.beq : Tys → Tys → Bool
  | .nil, .nil => true
  | .cons a s, .cons b t => Ty.beq a b && Tys.beq s t
  | _, _ => false
end

/- `ConstantContent { ty, value }` with `ConstantValue` flattened into the constructors. Bytes are `Nat`s
(`< 256` is part of `Printable`); 256-bit values are `Nat`s (`< 2^256` is part of `Printable`). -/
mutual
inductive Const
  | undef (ty : Ty) | unit (ty : Ty) | bool (ty : Ty) (b : Bool) | uint (ty : Ty) (n : Nat)
  | u256 (ty : Ty) (n : Nat) | b256 (ty : Ty) (n : Nat) | str (ty : Ty) (bs : List Nat)
  | arr (ty : Ty) (es : Consts) | slice (ty : Ty) (es : Consts) | struct (ty : Ty) (es : Consts)
  | ref (ty : Ty) (c : Const) | raw (ty : Ty) (bs : List Nat)
inductive Consts
  | nil | cons (c : Const) (cs : Consts)
end

def Const.ty : Const → Ty
  | .undef t | .unit t | .bool t _ | .uint t _ | .u256 t _ | .b256 t _ | .str t _
  | .arr t _ | .slice t _ | .struct t _ | .ref t _ | .raw t _ => t

mutual
def Const.beq : Const → Const → Bool
  | .undef s, .undef t => Ty.beq s t
  | .unit s, .unit t => Ty.beq s t
  | .bool s a, .bool t b => Ty.beq s t && a == b
  | .uint s a, .uint t b => Ty.beq s t && a == b
  | .u256 s a, .u256 t b => Ty.beq s t && a == b
  | .b256 s a, .b256 t b => Ty.beq s t && a == b
  | .str s a, .str t b => Ty.beq s t && a == b
  | .arr s a, .arr t b => Ty.beq s t && Consts.beq a b
  | .slice s a, .slice t b => Ty.beq s t && Consts.beq a b
  | .struct s a, .struct t b => Ty.beq s t && Consts.beq a b
  | .ref s a, .ref t b => Ty.beq s t && Const.beq a b
  | .raw s a, .raw t b => Ty.beq s t && a == b
  | _, _ => false
def Consts.beq : Consts → Consts → Bool
  | .nil, .nil => true
  | .cons a s, .cons b t => Const.beq a b && Consts.beq s t
  | _, _ => false
end

/-! ## Printing -/

def digitChar (d : Nat) : Char := Char.ofNat (48 + d)

/-- Rust `{}` of an unsigned integer (no leading zeros). Fuel `f ≥` number of digits. -/
def decF : Nat → Nat → List Char
  | 0, _ => []
  | f + 1, n => if n < 10 then [digitChar n] else decF f (n / 10) ++ [digitChar (n % 10)]

def decStr (n : Nat) : List Char := decF (n + 1) n

def hexDigitChar (d : Nat) : Char := if d < 10 then Char.ofNat (48 + d) else Char.ofNat (87 + d)

/-- `k` lower-case hex digits of `n`, most significant first (`{b:02x}` over `to_be_bytes`). -/
def hexF : Nat → Nat → List Char
  | 0, _ => []
  | k + 1, n => hexF k (n / 16) ++ [hexDigitChar (n % 16)]

/-- `b.is_ascii() && !b.is_ascii_control() && b != '\\' && b != '"'` -/
def plainByte (b : Nat) : Bool := 32 ≤ b && b ≤ 126 && b != 34 && b != 92

/-- one byte of a string constant as printed by `as_lit_string` -/
def escByte (b : Nat) : List Char :=
  if plainByte b then [Char.ofNat b] else ['\\', 'x', hexDigitChar (b / 16), hexDigitChar (b % 16)]

def escape : List Nat → List Char
  | [] => []
  | b :: bs => escByte b ++ escape bs

def hexBytes : List Nat → List Char
  | [] => []
  | b :: bs => hexDigitChar (b / 16) :: hexDigitChar (b % 16) :: hexBytes bs

mutual
/-- `Type::as_string` -/
def printTy : Ty → List Char
  | .never => ['n','e','v','e','r']
  | .unit => ['(',')']
  | .bool => ['b','o','o','l']
  | .uint n => 'u' :: decStr n
  | .b256 => ['b','2','5','6']
  | .strSlice => ['s','t','r']
  | .strArr n => ['s','t','r','i','n','g','<'] ++ decStr n ++ ['>']
  | .arr t n => '[' :: printTy t ++ [';',' '] ++ decStr n ++ [']']
  | .union ts => ['(',' '] ++ printTys ['|',' '] ts ++ [' ',')']
  | .struct ts => ['{',' '] ++ printTys [','] ts ++ [' ','}']
  | .slice => ['s','l','i','c','e']
  | .ptr => ['p','t','r']
  | .tslice t => ['_','_','s','l','i','c','e','['] ++ printTy t ++ [']']
  | .tptr t => ['_','_','p','t','r',' '] ++ printTy t
/-- elements joined by `sep ++ " "` preceded by a blank for `|` (`" | "` resp. `", "`) -/
def printTys (sep : List Char) : Tys → List Char
  | .nil => []
  | .cons t .nil => printTy t
  | .cons t ts => printTy t ++ (if sep = [','] then [',',' '] else [' ','|',' ']) ++ printTys sep ts
end

mutual
/-- `ConstantContent::as_lit_string` -/
def printConst : Const → List Char
  | .undef ty => printTy ty ++ [' ','u','n','d','e','f']
  | .unit _ => ['u','n','i','t',' ','(',')']
  | .bool _ b => ['b','o','o','l',' '] ++ (if b then ['t','r','u','e'] else ['f','a','l','s','e'])
  | .uint ty n => printTy ty ++ ' ' :: decStr n
  | .u256 _ n => ['u','2','5','6',' ','0','x'] ++ hexF 64 n
  | .b256 _ n => ['b','2','5','6',' ','0','x'] ++ hexF 64 n
  | .str ty bs => printTy ty ++ [' ','"'] ++ escape bs ++ ['"']
  | .arr ty es => printTy ty ++ [' ','['] ++ printConsts es ++ [']']
  | .slice ty es => ['_','_','s','l','i','c','e','['] ++ printTy ty ++ [']',' ','['] ++ printConsts es ++ [']']
  | .struct ty es => printTy ty ++ [' ','{',' '] ++ printConsts es ++ [' ','}']
  | .ref _ c => ['&','('] ++ printConst c ++ [')']
  | .raw ty bs => printTy ty ++ [' ','0','x'] ++ hexBytes bs
/-- elements joined by `", "` -/
def printConsts : Consts → List Char
  | .nil => []
  | .cons c .nil => printConst c
  | .cons c cs => printConst c ++ [',',' '] ++ printConsts cs
end

/-! ## PEG machinery -/

inductive R (α : Type)
  | ok (a : α) (rest : List Char)
  | fail
  | panic

/-- literal match (`"abc"` in peg): the remaining input, if `p` is a prefix -/
def lit : List Char → List Char → Option (List Char)
  | [], l => some l
  | _ :: _, [] => none
  | p :: ps, c :: cs => if p = c then lit ps cs else none

def isNl (c : Char) : Bool := c = '\n' || c = '\r'
def isBlank (c : Char) : Bool := c = ' ' || c = '\t'

/-- `(!nl() [_])* nl()` — the rest after the first newline; `none` if there is no newline -/
def dropLine : List Char → Option (List Char)
  | [] => none
  | c :: r => if isNl c then some r else dropLine r

/-- rule `_` = `(space / nl / comment)*` -/
def wsF : Nat → List Char → List Char
  | 0, l => l
  | f + 1, l => match l with
    | [] => []
    | c :: r =>
      if isBlank c || isNl c then wsF f r
      else if c = '/' then match r with
        | '/' :: r' => match dropLine r' with
          | some r'' => wsF f r''
          | none => l
        | _ => l
      else l

def ws (l : List Char) : List Char := wsF (l.length + 1) l

def isDigit (c : Char) : Bool := '0' ≤ c && c ≤ '9'
def digitVal (c : Char) : Nat := c.toNat - 48

def takeDigits : List Char → List Char × List Char
  | [] => ([], [])
  | c :: r => if isDigit c then let (d, r') := takeDigits r; (c :: d, r') else ([], c :: r)

def ofDigits (ds : List Char) : Nat := ds.foldl (fun a c => a * 10 + digitVal c) 0

/-- rule `dec_digits` = `"0" / ['1'..='9'] ['0'..='9']*`, then `.parse::<u64>().unwrap()` -/
def decDigits : List Char → R Nat
  | [] => .fail
  | c :: r =>
    if c = '0' then .ok 0 r
    else if isDigit c then
      let (d, r') := takeDigits r
      let n := ofDigits (c :: d)
      if n < 2 ^ 64 then .ok n r' else .panic
    else .fail

/-- rule `decimal` = `dec_digits _` -/
def decimal (l : List Char) : R Nat :=
  match decDigits l with
  | .ok n r => .ok n (ws r)
  | .fail => .fail
  | .panic => .panic

/-- rule `hex_digit` -/
def hexVal (c : Char) : Option Nat :=
  if '0' ≤ c && c ≤ '9' then some (c.toNat - 48)
  else if 'a' ≤ c && c ≤ 'f' then some (c.toNat - 87)
  else if 'A' ≤ c && c ≤ 'F' then some (c.toNat - 55)
  else none

/-- exactly `k` hex digits (`hex_digit()*<64>`), value accumulated big-endian (`string_to_hex`) -/
def takeHex : Nat → Nat → List Char → Option (Nat × List Char)
  | 0, acc, l => some (acc, l)
  | _ + 1, _, [] => none
  | k + 1, acc, c :: r => match hexVal c with
    | some v => takeHex k (acc * 16 + v) r
    | none => none

/-- rule `str_char` -/
def strChar : List Char → Option (Nat × List Char)
  | [] => none
  | c :: r =>
    if plainByte c.toNat then some (c.toNat, r)
    else if c = '\\' then match r with
      | 'x' :: h :: l :: r' => match hexVal h, hexVal l with
        | some a, some b => some (a * 16 + b, r')
        | _, _ => none
      | _ => none
    else none

/-- `str_char()*` (greedy) -/
def strCharsF : Nat → List Char → List Nat × List Char
  | 0, l => ([], l)
  | f + 1, l => match strChar l with
    | some (b, r) => let (bs, r') := strCharsF f r; (b :: bs, r')
    | none => ([], l)

def strChars (l : List Char) : List Nat × List Char := strCharsF (l.length + 1) l

/-- The string-escape kernel on its own: the whole input must be consumed. -/
def unescape (l : List Char) : Option (List Nat) :=
  match strChars l with
  | (bs, []) => some bs
  | _ => none

/-- rule `comma` = `"," _` -/
def comma (l : List Char) : Option (List Char) :=
  match l with
  | ',' :: r => some (ws r)
  | _ => none

/-- `(sep e)*` after a first element: `sep` then `p`; when `p` fails after `sep` the iteration is undone. -/
def sepLoop {α : Type} (p : List Char → R α) (sep : List Char → Option (List Char)) : Nat → List Char → R (List α)
  | 0, l => .ok [] l
  | k + 1, l => match sep l with
    | none => .ok [] l
    | some l' => match p l' with
      | .fail => .ok [] l
      | .panic => .panic
      | .ok a r => match sepLoop p sep k r with
        | .ok as r' => .ok (a :: as) r'
        | .fail => .fail
        | .panic => .panic

/-- `e ** sep` (zero or more) -/
def sepBy0 {α : Type} (p : List Char → R α) (sep : List Char → Option (List Char)) (l : List Char) : R (List α) :=
  match p l with
  | .fail => .ok [] l
  | .panic => .panic
  | .ok a r => match sepLoop p sep r.length r with
    | .ok as r' => .ok (a :: as) r'
    | .fail => .fail
    | .panic => .panic

/-- `e ++ sep` (one or more) -/
def sepBy1 {α : Type} (p : List Char → R α) (sep : List Char → Option (List Char)) (l : List Char) : R (List α) :=
  match p l with
  | .fail => .fail
  | .panic => .panic
  | .ok a r => match sepLoop p sep r.length r with
    | .ok as r' => .ok (a :: as) r'
    | .fail => .fail
    | .panic => .panic

def tysOfList : List Ty → Tys
  | [] => .nil
  | t :: ts => .cons t (tysOfList ts)

def barSep (l : List Char) : Option (List Char) :=
  match l with
  | '|' :: r => some (ws r)
  | _ => none

/-! ## rule `ast_ty` -/

/-- helper: `lit p l` followed by `_` -/
def kw (p l : List Char) : Option (List Char) := (lit p l).map ws

/-- PEG ordered choice: `none` = "this alternative failed, try the next one" -/
def orElse {α : Type} (a : Option (R α)) (b : Unit → R α) : R α :=
  match a with
  | some r => r
  | none => b ()

/-- alternative `"kw" _ { t }` -/
def altKw (p : List Char) (t : Ty) (l : List Char) : Option (R Ty) := (kw p l).map fun r => .ok t r

/-- continue an alternative with a sub-parser: failure of `q` fails the alternative, a panic is a panic -/
def andThen {α β : Type} (q : R α) (k : α → List Char → Option (R β)) : Option (R β) :=
  match q with
  | .panic => some .panic
  | .fail => none
  | .ok a r => k a r

/-- `"__slice" _ "[" _ ty "]" _` -/
def altTSlice (p : List Char → R Ty) (l : List Char) : Option (R Ty) :=
  match kw ['_','_','s','l','i','c','e'] l with
  | none => none
  | some r => match kw ['['] r with
    | none => none
    | some r => andThen (p r) fun t r => (kw [']'] r).map fun r => .ok (.tslice t) r

/-- `"string" _ "<" _ decimal ">" _` -/
def altStrArr (l : List Char) : Option (R Ty) :=
  match kw ['s','t','r','i','n','g'] l with
  | none => none
  | some r => match kw ['<'] r with
    | none => none
    | some r => andThen (decimal r) fun n r => (kw ['>'] r).map fun r => .ok (.strArr n) r

/-- `array_ty`: `"[" _ ty ";" _ decimal "]" _` -/
def altArr (p : List Char → R Ty) (l : List Char) : Option (R Ty) :=
  match kw ['['] l with
  | none => none
  | some r => andThen (p r) fun t r => match kw [';'] r with
    | none => none
    | some r => andThen (decimal r) fun n r => (kw [']'] r).map fun r => .ok (.arr t n) r

/-- `struct_ty`: `"{" _ (ty ** comma) "}" _` -/
def altStruct (p : List Char → R Ty) (l : List Char) : Option (R Ty) :=
  match kw ['{'] l with
  | none => none
  | some r => andThen (sepBy0 p comma r) fun ts r => (kw ['}'] r).map fun r => .ok (.struct (tysOfList ts)) r

/-- `union_ty`: `"(" _ (ty ++ ("|" _)) ")" _` -/
def altUnion (p : List Char → R Ty) (l : List Char) : Option (R Ty) :=
  match kw ['('] l with
  | none => none
  | some r => andThen (sepBy1 p barSep r) fun ts r => (kw [')'] r).map fun r => .ok (.union (tysOfList ts)) r

/-- `"__ptr" _ ty _` -/
def altTPtr (p : List Char → R Ty) (l : List Char) : Option (R Ty) :=
  match kw ['_','_','p','t','r'] l with
  | none => none
  | some r => andThen (p r) fun t r => some (.ok (.tptr t) (ws r))

def parseTyF : Nat → List Char → R Ty
  | 0, _ => .fail
  | f + 1, l =>
    orElse (altKw ['u','n','i','t'] .unit l) fun _ =>
    orElse (altKw ['(',')'] .unit l) fun _ =>
    orElse (altKw ['b','o','o','l'] .bool l) fun _ =>
    orElse (altKw ['u','8'] (.uint 8) l) fun _ =>
    orElse (altKw ['u','6','4'] (.uint 64) l) fun _ =>
    orElse (altKw ['u','2','5','6'] (.uint 256) l) fun _ =>
    orElse (altKw ['b','2','5','6'] .b256 l) fun _ =>
    orElse (altKw ['s','l','i','c','e'] .slice l) fun _ =>
    orElse (altTSlice (parseTyF f) l) fun _ =>
    orElse (altStrArr l) fun _ =>
    orElse (altArr (parseTyF f) l) fun _ =>
    orElse (altStruct (parseTyF f) l) fun _ =>
    orElse (altUnion (parseTyF f) l) fun _ =>
    orElse (altTPtr (parseTyF f) l) fun _ =>
    orElse (altKw ['p','t','r'] .ptr l) fun _ =>
    orElse (altKw ['n','e','v','e','r'] .never l) fun _ =>
    .fail

/-- outcome of parsing a complete piece of text -/
inductive PR (α : Type)
  | ok (a : α)
  | err
  | panic

def PR.isErr {α : Type} : PR α → Bool
  | .err => true
  | _ => false
def PR.isPanic {α : Type} : PR α → Bool
  | .panic => true
  | _ => false

/-- a complete type (whole input consumed) -/
def parseTy (l : List Char) : PR Ty :=
  match parseTyF (l.length + 1) l with
  | .ok t [] => .ok t
  | .ok _ _ => .err
  | .fail => .err
  | .panic => .panic

/-! ## rules `constant_value`, `field_or_element_const` -/

/- `IrAstConstValue`; array elements / struct fields keep the type written in front of them -/
mutual
inductive Ast
  | undef | unit | bool (b : Bool) | hex (n : Nat) | num (n : Nat) | str (bs : List Nat)
  | arr (fs : Fields) | struct (fs : Fields)
inductive Fields
  | nil | cons (t : Ty) (a : Ast) (fs : Fields)
end

def fieldsOfList : List (Ty × Ast) → Fields
  | [] => .nil
  | (t, a) :: r => .cons t a (fieldsOfList r)

/-- `metadata_idx()?` after a constant value: `"!" decimal` -/
def optMeta (l : List Char) : R Unit :=
  match l with
  | '!' :: r => match decimal r with
    | .ok _ r' => .ok () r'
    | .fail => .ok () l
    | .panic => .panic
  | _ => .ok () l

/-- alternative `"kw" _ { a }` of `constant_value` -/
def altVKw (p : List Char) (a : Ast) (l : List Char) : Option (R Ast) := (kw p l).map fun r => .ok a r

/-- `"0x" s:$(hex_digit()*<64>) _` -/
def altHex (l : List Char) : Option (R Ast) :=
  match lit ['0','x'] l with
  | none => none
  | some r => match takeHex 64 0 r with
    | none => none
    | some (n, r) => some (.ok (.hex n) (ws r))

/-- `n:decimal()` -/
def altNum (l : List Char) : Option (R Ast) :=
  andThen (decimal l) fun n r => some (.ok (.num n) r)

/-- `string_const` = `['"'] str_char()* ['"'] _` -/
def altStr (l : List Char) : Option (R Ast) :=
  match l with
  | '"' :: r => match strChars r with
    | (bs, '"' :: r') => some (.ok (.str bs) (ws r'))
    | _ => none
  | _ => none

/-- `array_const` = `"[" _ (field ++ comma) "]" _` -/
def altArrC (p : List Char → R (Ty × Ast)) (l : List Char) : Option (R Ast) :=
  match kw ['['] l with
  | none => none
  | some r => andThen (sepBy1 p comma r) fun fs r => (kw [']'] r).map fun r => .ok (.arr (fieldsOfList fs)) r

/-- `struct_const` = `"{" _ (field ** comma) "}" _` -/
def altStructC (p : List Char → R (Ty × Ast)) (l : List Char) : Option (R Ast) :=
  match kw ['{'] l with
  | none => none
  | some r => andThen (sepBy0 p comma r) fun fs r => (kw ['}'] r).map fun r => .ok (.struct (fieldsOfList fs)) r

/-- `constant` = `constant_value metadata_idx?` followed by the pairing with the type already read -/
def altFieldVal (pv : List Char → R Ast) (t : Ty) (r : List Char) : Option (R (Ty × Ast)) :=
  andThen (pv r) fun a r' => andThen (optMeta r') fun _ r'' => some (.ok (t, a) r'')

mutual
/-- rule `constant_value` -/
def parseValF : Nat → List Char → R Ast
  | 0, _ => .fail
  | f + 1, l =>
    orElse (altVKw ['(',')'] .unit l) fun _ =>
    orElse (altVKw ['t','r','u','e'] (.bool true) l) fun _ =>
    orElse (altVKw ['f','a','l','s','e'] (.bool false) l) fun _ =>
    orElse (altHex l) fun _ =>
    orElse (altNum l) fun _ =>
    orElse (altStr l) fun _ =>
    orElse (altArrC (parseFieldF f) l) fun _ =>
    orElse (altStructC (parseFieldF f) l) fun _ =>
    .fail
/-- rule `field_or_element_const` = `ty constant` / `ty "undef" _` -/
def parseFieldF : Nat → List Char → R (Ty × Ast)
  | 0, _ => .fail
  | f + 1, l =>
    match parseTyF (l.length + 1) l with
    | .panic => .panic
    | .fail => .fail
    | .ok t r =>
      orElse (altFieldVal (parseValF f) t r) fun _ =>
      orElse ((kw ['u','n','d','e','f'] r).map fun r' => .ok (t, .undef) r') fun _ =>
      .fail
end

/-- `"const" _` has been consumed: `val_ty:ast_ty() cv:constant()` of rule `op_const` -/
def parseTypedF (f : Nat) (l : List Char) : R (Ty × Ast) :=
  match parseTyF (l.length + 1) l with
  | .panic => .panic
  | .fail => .fail
  | .ok t r => match parseValF f r with
    | .panic => .panic
    | .fail => .fail
    | .ok a r' => match optMeta r' with
      | .panic => .panic
      | .fail => .fail
      | .ok _ r'' => .ok (t, a) r''

/-! ## conversions `as_constant` (initialisers, nested) and `as_value` (instruction operands) -/

mutual
/-- `IrAstConstValue::as_constant(context, val_ty)`; `none` = `unreachable!("invalid type for hex number")` -/
def conv : Ty → Ast → Option Const
  | ty, .undef => some (.undef ty)
  | ty, .unit => some (.unit ty)
  | ty, .bool b => some (.bool ty b)
  | ty, .hex n => match ty with
    | .uint 256 => some (.u256 ty n)
    | .b256 => some (.b256 ty n)
    | _ => none
  | ty, .num n => some (.uint ty n)
  | ty, .str bs => some (.str ty bs)
  | ty, .arr fs => match fs with
    | .nil => none  -- `els[0]` — unreachable: the grammar demands one element
    | .cons t0 a0 r => match convElems t0 (.cons t0 a0 r) with
      | some es => some (.arr ty es)
      | none => none
  | ty, .struct fs => match convFields fs with
    | some es => some (.struct ty es)
    | none => none
/-- every element converted with the type written in front of the FIRST element -/
def convElems (elTy : Ty) : Fields → Option Consts
  | .nil => some .nil
  | .cons _ a r => match conv elTy a, convElems elTy r with
    | some c, some cs => some (.cons c cs)
    | _, _ => none
def convFields : Fields → Option Consts
  | .nil => some .nil
  | .cons t a r => match conv t a, convFields r with
    | some c, some cs => some (.cons c cs)
    | _, _ => none
end

/-- `IrAstConstValue::as_value(context, val_ty)`; `none` = one of its `unreachable!()`s -/
def convTop (ty : Ty) (a : Ast) : Option Const :=
  match a with
  | .undef => none
  | .unit => some (.unit .unit)
  | .bool b => some (.bool .bool b)
  | .hex n => match ty with
    | .uint 256 => some (.u256 ty n)
    | .b256 => some (.b256 ty n)
    | _ => none
  | .num n => match ty with
    | .uint 8 => some (.uint ty n)
    | .uint 64 => some (.uint ty n)
    | _ => none
  | .str bs => some (.str (.strArr bs.length) bs)
  | .arr fs => match ty with   -- `get_array`: `assert!(value.ty.is_array(context))`
    | .arr _ _ => conv ty (.arr fs)
    | _ => none
  | .struct fs => match ty with   -- `get_struct`: `assert!(value.ty.is_struct(context))`
    | .struct _ => conv ty (.struct fs)
    | _ => none

/-- Parse a printed literal in initialiser position (`global … = const <lit>`, `local … = const <lit>`). -/
def parseConst (l : List Char) : PR Const :=
  match parseTypedF (l.length + 1) l with
  | .ok (t, a) [] => match conv t a with
    | some c => .ok c
    | none => .panic
  | .ok _ _ => .err
  | .fail => .err
  | .panic => .panic

/-- Parse a printed literal in operand position (`vN = const <lit>`). -/
def parseConstTop (l : List Char) : PR Const :=
  match parseTypedF (l.length + 1) l with
  | .ok (t, a) [] => match convTop t a with
    | some c => .ok c
    | none => .panic
  | .ok _ _ => .err
  | .fail => .err
  | .panic => .panic

/-- the parse result is `ok c'` with `c'` structurally equal to `c` -/
def PR.isOk (c : Const) : PR Const → Bool
  | .ok c' => Const.beq c c'
  | _ => false

/-! ## `Printable`: the explicit, decidable domain of the round-trip theorems -/

mutual
/-- types the grammar can read back -/
def tyOk : Ty → Bool
  | .never | .unit | .bool | .b256 | .slice | .ptr => true
  | .uint n => n == 8 || n == 64 || n == 256
  | .strSlice => false
  | .strArr n => n < 2 ^ 64
  | .arr t n => tyOk t && n < 2 ^ 64
  | .union ts => (match ts with | .nil => false | _ => true) && tysOk ts
  | .struct ts => tysOk ts
  | .tptr t => tyOk t
  | .tslice t => tyOk t
def tysOk : Tys → Bool
  | .nil => true
  | .cons t ts => tyOk t && tysOk ts
end

def bytesOk : List Nat → Bool
  | [] => true
  | b :: bs => b < 256 && bytesOk bs

mutual
/-- printable as an array element / struct field -/
def printableIn : Const → Bool
  | .undef ty => tyOk ty
  | .unit ty => Ty.beq ty .unit
  | .bool ty _ => Ty.beq ty .bool
  | .uint ty n => tyOk ty && n < 2 ^ 64
  | .u256 ty n => Ty.beq ty (.uint 256) && n < 2 ^ 256
  | .b256 ty n => Ty.beq ty .b256 && n < 2 ^ 256
  | .str ty bs => tyOk ty && bytesOk bs
  | .arr ty es => tyOk ty && (match es with
      | .nil => false
      | .cons c cs => printableIn c && allPrintableSameTy c.ty cs)
  | .struct ty es => tyOk ty && allPrintable es
  | .slice _ _ | .ref _ _ | .raw _ _ => false
def allPrintable : Consts → Bool
  | .nil => true
  | .cons c cs => printableIn c && allPrintable cs
/-- array elements: the parser gives EVERY element the type written in front of the first one -/
def allPrintableSameTy (t : Ty) : Consts → Bool
  | .nil => true
  | .cons c cs => Ty.beq c.ty t && printableIn c && allPrintableSameTy t cs
end

/-- printable as an initialiser (`global`/`local` … `= const <lit>`): not a bare `undef` -/
def printable (c : Const) : Bool :=
  printableIn c && (match c with | .undef _ => false | _ => true)

/-- printable as an instruction operand (`vN = const <lit>`, conversion `as_value`) -/
def printableTop (c : Const) : Bool :=
  match c with
  | .undef _ => false
  | .unit ty => Ty.beq ty .unit
  | .bool ty _ => Ty.beq ty .bool
  | .uint ty n => (Ty.beq ty (.uint 8) || Ty.beq ty (.uint 64)) && n < 2 ^ 64
  | .str ty bs => Ty.beq ty (.strArr bs.length) && bs.length < 2 ^ 64 && bytesOk bs
  | .arr ty es => (match ty with | .arr _ _ => true | _ => false) && printableIn (.arr ty es)
  | .struct ty es => (match ty with | .struct _ => true | _ => false) && printableIn (.struct ty es)
  | c => printableIn c

/-! ## The property's predicate on an implementation result (used by the driver) -/

/-- C05 on one constant: if the constant is in the printable domain, the real parser must give it back. -/
def propConst (top : Bool) (c : Const) (impl : PR Const) : Bool :=
  if (if top then printableTop c else printable c) then
    match impl with
    | .ok c' => Const.beq c c'
    | _ => false
  else true

/-- C05 on one module at one stage, from the validator's verdicts. `bytecodeOk` = same bytecode, or
different bytecode with identical VM state+receipts, or not compared. -/
def propModule (reparseOk verifyOk fixpoint bytecodeOk rawSame : Bool) : Bool :=
  reparseOk && verifyOk && fixpoint && bytecodeOk && rawSame

end SwayVerif.IrText
