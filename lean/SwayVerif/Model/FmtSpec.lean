/-!
# Specification of "formatting preserves meaning and comments" (C19) and the newline kernels (C18)

Import-free (core Lean only) so that the drivers link as `lean_exe`.

The 11 k-line formatter (`swayfmt/src/items`, `utils/language`, `comments.rs`, …) is NOT modelled.
This file contains

* `toUnix`, `toWindows`, `autoDetect`, `applyStyle` — a character-level model of
  `swayfmt/src/utils/map/newline_style.rs` (`convert_to_unix_newlines`, `convert_to_windows_newlines`,
  `apply_newline_style`) and of `NewlineSystemType::{get_newline_style, auto_detect_newline_style}` in
  `swayfmt/src/config/whitespace.rs`;
* `fmtNewlineSeq`, `clampTotal` — `format_newline_sequence` of `swayfmt/src/utils/map/newline.rs`;
* `Tok`, `normTok`, `canon`, `FmtOk`, `fmtCheck` — the SPECIFICATION of C19 as executable definitions over
  the token stream of the REAL lexer (`sway_parse::lex_commented`; the harness sends kind + text of every
  token and comment of `src` and of `out`, in source order). The Sway lexer itself is not re-implemented here.

## The documented cosmetic rewrites (`step`, `sortUse`, `normLeaf`) — every one with its justification

R1 trailing comma: a `,` directly before a closing delimiter is dropped — except the comma of a one-element tuple
   `(x,)`, which carries meaning (a parenthesised group that is not an argument/parameter list, i.e. does not
   follow a non-keyword identifier, `>` of a generic argument list or a closing delimiter, and whose only
   top-level comma is the trailing one). swayfmt adds or removes the trailing comma depending on
   the line style: `swayfmt/src/utils/language/punctuated.rs` (`Punctuated::format`: `LineStyle::Multiline` writes
   `PunctKind::Comma` after `final_value_opt`; `Normal`/`Inline` go through `format_generic_pair`, which writes no
   trailing comma); tests `struct_add_ending_comma`, `struct_public_fields_without_trailing_comma`,
   `enum_without_variant_alignment_without_trailing_comma` in `swayfmt/tests/mod.rs`.
R2 where-clause trailing comma: the `,` between the last bound of a `where` clause and the `{` / `;` that ends the
   clause is dropped. `swayfmt/src/utils/language/where_clause.rs` (`WhereClause::format`) writes `,` after every
   bound, the last one included (`if let Some(final_value) … writeln!(…, CommaToken::AS_STR)`).
R3 redundant braces of a single-item import: `use a::{b};` ⇒ `use a::b;`, `use a::{b,};` ⇒ `use a::b;`.
   `swayfmt/src/items/item_use/mod.rs` (`impl Format for UseTree`, arm `Self::Group`, comments "we can have:
   path::{single_import}" and "but we can also have: path::{single_import,}"); test `single_import_with_braces_preserves_following_item`
   in `swayfmt/src/items/item_use/tests.rs`.
R4 order of the items of an import group: `use a::{c, b};` ⇒ `use a::{b, c};`. Same function,
   `ord_vec.sort_by(…)` under the comment "sort group imports"; test `use_sorting_items`. Handled by `sortUse`
   (both sides are sorted with one fixed order), not by `step`.
R5 redundant parentheses around a type: `fn f() -> (bool)` ⇒ `fn f() -> bool`, `A: (u64)` ⇒ `A: u64`,
   `f::<(())>` ⇒ `f::<()>`. The parser has no AST node for them — `sway-parse/src/ty/mod.rs` (`impl Parse for Ty`:
   "only patterns of (ty) are parsed as ty, and patterns of (ty,) are parsed as one-arity tuples") — so swayfmt
   cannot print them. The rule is applied only where the group follows `:` (not `::`), `->` or `<`, has no
   top-level comma, is not empty, and is followed by a separator; there the parentheses are redundant in
   expression position too, so the rule cannot hide a change of meaning.
R6 white space and line ends inside tokens: text of literals, doc comments and comments is compared modulo a `\r`
   directly before `\n` (that is what `apply_newline_style` changes, applied to the whole formatted text including
   multi-line strings and block comments — `swayfmt/src/formatter/mod.rs`, `newline_style.rs`); doc comments and
   comments additionally modulo trailing white space (`write_trailing_comment` in `swayfmt/src/comments.rs` writes
   `comment.span().as_str().trim_end()`; doc comments: `swayfmt/src/utils/language/attribute.rs` writes
   `doc_comment.name.as_str().trim_end()` for every doc line).

Nothing else is ignored: in particular spelling of literals, every identifier, every other punctuation token,
order and text of all comments.
-/
namespace SwayVerif.FmtSpec

/-! ## Generic: iterate a shrinking function to its fixed point -/

/-- Apply `f` until the length no longer changes, at most `n` times. -/
def fixIterAux (f : List α → List α) : Nat → List α → List α
  | 0, x => x
  | n + 1, x =>
    let y := f x
    if y.length = x.length then y else fixIterAux f n y

/-- Iterate `f` to a fixed point; for a function that only deletes elements (`Shrinks`) the fuel `x.length`
suffices (`Lemmas/FmtSpec.lean: fixIter_fixed`). -/
def fixIter (f : List α → List α) (x : List α) : List α := fixIterAux f x.length x

/-! ## Newline-style kernel -/

/-- `convert_to_unix_newlines`: `str::replace("\r\n", "\n")`. -/
def toUnix : List Char → List Char
  | [] => []
  | [c] => [c]
  | c :: d :: ds => if c = '\r' && d = '\n' then '\n' :: toUnix ds else c :: toUnix (d :: ds)

/-- `convert_to_windows_newlines`: every `\n` becomes `\r\n`, a `\r` directly before `\n` is not copied. -/
def toWindows : List Char → List Char
  | [] => []
  | [c] => if c = '\n' then ['\r', '\n'] else [c]
  | c :: d :: ds =>
    if c = '\n' then '\r' :: '\n' :: toWindows (d :: ds)
    else if c = '\r' && d = '\n' then '\r' :: '\n' :: toWindows ds
    else c :: toWindows (d :: ds)

inductive Style where
  | auto | windows | unix | native
deriving DecidableEq, Repr

inductive SysType where
  | windows | unix
deriving DecidableEq, Repr

/-- `native_newline_style` on the platforms the harness runs on (`cfg!(windows)` is false). -/
def nativeStyle : SysType := .unix

/-- `auto_detect_newline_style`: the character before the first `\n` decides; `prev` = previous character.
(For a `\n` at position 0, `saturating_sub(1)` makes the code look at the `\n` itself: Unix.) -/
def autoDetectAux : Option Char → List Char → SysType
  | _, [] => nativeStyle
  | prev, c :: cs =>
    if c = '\n' then (if prev = some '\r' then .windows else .unix) else autoDetectAux (some c) cs

def autoDetect (raw : List Char) : SysType := autoDetectAux none raw

/-- `NewlineSystemType::get_newline_style` -/
def sysType (s : Style) (raw : List Char) : SysType :=
  match s with
  | .auto => autoDetect raw
  | .native => nativeStyle
  | .windows => .windows
  | .unix => .unix

/-- `apply_newline_style` -/
def applyStyle (s : Style) (text raw : List Char) : List Char :=
  match sysType s raw with
  | .windows => toWindows text
  | .unix => toUnix text

/-- `\r\r\n` occurs in the text (the one shape on which `convert_to_unix_newlines` is not idempotent). -/
def hasCRCRLF : List Char → Bool
  | [] => false
  | c :: cs =>
    (c = '\r' && match cs with
      | d :: e :: _ => d = '\r' && e = '\n'
      | _ => false) || hasCRCRLF cs

/-- All characters except `\r` and `\n`. -/
def eraseNewlines (s : List Char) : List Char := s.filter fun c => c ≠ '\r' && c ≠ '\n'

/-! ## Newline-sequence clamp (`format_newline_sequence`, `NewlineSequence::fmt`) -/

/-- Number of `\n` written for a sequence of `len` newlines found after `;` / `}` in the source; `none` = the Rust
panic (`0..sequence_length - 1` underflows for `len = 0`; the newline map never holds such a sequence). -/
def fmtNewlineSeq (len threshold : Nat) : Option Nat :=
  if len > threshold then some threshold else if len = 0 then none else some (len - 1)

/-- Newlines between the two items after formatting: the item formatter writes one, `insert_after_span` adds
`fmtNewlineSeq`. -/
def clampTotal (len threshold : Nat) : Option Nat := (fmtNewlineSeq len threshold).map (· + 1)

/-! ## Tokens -/

inductive Kind where
  | punct | ident | lit | doc | open | close | comment
deriving DecidableEq, Repr

structure Tok where
  kind : Kind
  text : List Char
deriving DecidableEq, Repr

def isP (t : Tok) (c : Char) : Bool := t.kind = .punct && t.text = [c]
def isOpen (t : Tok) (c : Char) : Bool := t.kind = .open && t.text = [c]
def isIdent (t : Tok) (s : List Char) : Bool := t.kind = .ident && t.text = s

def isWs (c : Char) : Bool := c = ' ' || c = '\t' || c = '\r' || c = '\n'

/-- Drop one trailing white-space character. -/
def dropLastWs : List Char → List Char
  | [] => []
  | [c] => if isWs c then [] else [c]
  | c :: d :: cs => c :: dropLastWs (d :: cs)

/-- R6 for literals. -/
def normLit (s : List Char) : List Char := fixIter toUnix s
/-- R6 for doc comments and comments. -/
def normComment (s : List Char) : List Char := fixIter (fun x => toUnix (dropLastWs x)) s

def normLeaf (t : Tok) : Tok :=
  match t.kind with
  | .lit => { t with text := normLit t.text }
  | .doc => { t with text := normComment t.text }
  | .comment => { t with text := normComment t.text }
  | _ => t

/-! ## The deleting rewrites R1, R2, R3, R5 as one pass -/

/-- R3 look-ahead. `r` = tokens after the `{`; true iff the group closes, and its only top-level `,` (if any)
is directly before the closing `}`. -/
def scanSingle : Nat → List Tok → Bool
  | _, [] => false
  | d, t :: r =>
    if t.kind = .open then scanSingle (d + 1) r
    else if t.kind = .close then (match d with | 0 => true | d' + 1 => scanSingle d' r)
    else if isP t ',' && d = 0 then (match r with | c :: _ => c.kind = .close | [] => false)
    else scanSingle d r

def nonEmptyGroup : List Tok → Bool
  | [] => false
  | t :: _ => t.kind ≠ .close

def singleImport (r : List Tok) : Bool := nonEmptyGroup r && scanSingle 0 r

/-- What may follow a redundant pair of parentheses (R5). -/
def afterParenOk : List Tok → Bool
  | [] => true
  | n :: _ => n.kind = .close || isOpen n '{' || isP n ',' || isP n ';' || isP n '=' || isP n '>'
      || isIdent n ['w', 'h', 'e', 'r', 'e']

/-- R5 look-ahead. `d` = nesting depth, `ang` = depth in `<…>` (a `>` after `-` is an arrow), `pm` = previous
token was `-`. True iff the group closes without a `,` at depth 0 outside angle brackets and a separator follows. -/
def scanParen : Nat → Nat → Bool → List Tok → Bool
  | _, _, _, [] => false
  | d, ang, pm, t :: r =>
    if t.kind = .open then scanParen (d + 1) ang false r
    else if t.kind = .close then (match d with | 0 => afterParenOk r | d' + 1 => scanParen d' ang false r)
    else if d = 0 then
      if isP t ',' && ang = 0 then false
      else if isP t '<' then scanParen d (ang + 1) false r
      else if isP t '>' && !pm then scanParen d (ang - 1) false r
      else scanParen d ang (isP t '-') r
    else scanParen d ang false r

def redundantParen (r : List Tok) : Bool := nonEmptyGroup r && scanParen 0 0 false r

/-- R1 exception look-ahead. `r` = tokens after the `(`; true iff the first top-level comma (outside `<…>` when
`angAware`) is directly before the matching `)`: the group is `(x,)`. -/
def scanSole : Bool → Nat → Nat → Bool → List Tok → Bool
  | _, _, _, _, [] => false
  | aa, d, ang, pm, t :: r =>
    if t.kind = .open then scanSole aa (d + 1) ang false r
    else if t.kind = .close then (match d with | 0 => false | d' + 1 => scanSole aa d' ang false r)
    else if d = 0 then
      if isP t ',' && (ang = 0 || !aa) then (match r with | c :: _ => c.kind = .close | [] => false)
      else if isP t '<' then scanSole aa d (ang + 1) false r
      else if isP t '>' && !pm then scanSole aa d (ang - 1) false r
      else scanSole aa d ang (isP t '-') r
    else scanSole aa d ang false r

/-- Keywords after which a parenthesised group is an expression, a pattern or a type — not an argument list. -/
def exprKeywords : List (List Char) :=
  ["return", "in", "match", "if", "while", "let", "mut", "ref", "break", "for", "as", "else", "where"].map String.toList

/-- State of the pass: the two previous input tokens, the `where`-clause tracker, and for every group that is
open two flags: "its closing delimiter is to be dropped" and "its trailing comma is kept (one-element tuple)". -/
structure St where
  p1 : Option Tok := none
  p2 : Option Tok := none
  inWhere : Bool := false
  wd : Nat := 0
  stack : List (Bool × Bool) := []

def optIsP (o : Option Tok) (c : Char) : Bool := match o with | some t => isP t c | none => false

/-- The `(` that follows is not the start of an argument / parameter list. -/
def tupleLike (st : St) : Bool :=
  match st.p1 with
  | none => true
  | some t =>
    if t.kind = .close then false
    else if t.kind = .ident then exprKeywords.contains t.text
    else if isP t '>' then optIsP st.p2 '-'
    else true

/-- Type position for R5: after `:` that is not part of `::`, after `->`, after `<`. -/
def typePos (st : St) : Bool :=
  (optIsP st.p1 ':' && !optIsP st.p2 ':') || (optIsP st.p1 '>' && optIsP st.p2 '-') || optIsP st.p1 '<'

/-- `where`-clause tracker: the clause starts at the identifier `where` and ends at the first `{` or `;` at its
nesting depth (or when the enclosing group closes). -/
def whereUpd (st : St) (t : Tok) : Bool × Nat :=
  if isIdent t ['w', 'h', 'e', 'r', 'e'] then (true, 0)
  else if !st.inWhere then (false, 0)
  else if t.kind = .open then (if isOpen t '{' && st.wd = 0 then (false, 0) else (true, st.wd + 1))
  else if t.kind = .close then (match st.wd with | 0 => (false, 0) | w + 1 => (true, w))
  else if isP t ';' && st.wd = 0 then (false, 0)
  else (true, st.wd)

def nextIsClose : List Tok → Bool
  | c :: _ => c.kind = .close
  | [] => false

def nextEndsWhere : List Tok → Bool
  | c :: _ => isOpen c '{' || isP c ';'
  | [] => false

def keepsTrailingComma (st : St) : Bool := match st.stack with | (_, k) :: _ => k | [] => false

/-- Does the pass drop `t` (followed by `r`) in state `st`? -/
def dropTok (st : St) (t : Tok) (r : List Tok) : Bool :=
  if isP t ',' then (nextIsClose r && !keepsTrailingComma st)                                -- R1
      || (st.inWhere && st.wd = 0 && nextEndsWhere r)                                          -- R2
  else if isOpen t '{' then optIsP st.p1 ':' && optIsP st.p2 ':' && singleImport r           -- R3
  else if isOpen t '(' then typePos st && redundantParen r                                   -- R5
  else if t.kind = .close then (match st.stack with | (b, _) :: _ => b | [] => false)
  else false

def nextSt (st : St) (t : Tok) (r : List Tok) (dropped : Bool) : St :=
  let (w, wd) := whereUpd st t
  { p1 := some t, p2 := st.p1, inWhere := w, wd := wd,
    stack := if t.kind = .open then
               (dropped, isOpen t '(' && tupleLike st && scanSole (typePos st) 0 0 false r) :: st.stack
             else if t.kind = .close then st.stack.drop 1 else st.stack }

def stepGo : St → List Tok → List Tok
  | _, [] => []
  | st, t :: r =>
    if dropTok st t r then stepGo (nextSt st t r true) r
    else t :: stepGo (nextSt st t r false) r

/-- One pass of R1, R2, R3, R5. It only deletes tokens (`Lemmas/FmtSpec.lean: step_sublist`). -/
def step (ts : List Tok) : List Tok := stepGo {} ts

/-- Normal form with respect to R1, R2, R3, R5, R6. -/
def normTok (ts : List Tok) : List Tok := fixIter step (ts.map normLeaf)

/-! ## R4: order inside import groups -/

/-- Tokens up to the matching closing delimiter: `(inside, close, rest)`. -/
def takeGroup : Nat → List Tok → Option (List Tok × Tok × List Tok)
  | _, [] => none
  | d, t :: r =>
    if t.kind = .close && d = 0 then some ([], t, r)
    else
      let d' := if t.kind = .open then d + 1 else if t.kind = .close then d - 1 else d
      match takeGroup d' r with
      | some (a, c, b) => some (t :: a, c, b)
      | none => none

/-- Split at the top-level commas. -/
def splitTop : Nat → List Tok → List Tok → List (List Tok)
  | _, cur, [] => [cur.reverse]
  | d, cur, t :: r =>
    if isP t ',' && d = 0 then cur.reverse :: splitTop 0 [] r
    else
      let d' := if t.kind = .open then d + 1 else if t.kind = .close then d - 1 else d
      splitTop d' (t :: cur) r

def kindCode : Kind → Nat
  | .punct => 0 | .ident => 1 | .lit => 2 | .doc => 3 | .open => 4 | .close => 5 | .comment => 6

/-- Sort key of an element: code points, every token prefixed by its kind. -/
def elemKey (e : List Tok) : List Nat :=
  e.foldr (fun t acc => kindCode t.kind :: (t.text.map (·.toNat + 8)) ++ acc) []

def lexLe : List Nat → List Nat → Bool
  | [], _ => true
  | _ :: _, [] => false
  | a :: as, b :: bs => a < b || (a = b && lexLe as bs)

def insertSorted (e : List Tok) : List (List Tok) → List (List Tok)
  | [] => [e]
  | x :: xs => if lexLe (elemKey e) (elemKey x) then e :: x :: xs else x :: insertSorted e xs

def sortElems (es : List (List Tok)) : List (List Tok) := es.foldr insertSorted []

def joinComma : List (List Tok) → List Tok
  | [] => []
  | [e] => e
  | e :: es => e ++ { kind := .punct, text := [','] } :: joinComma es

/-- Sort the items of every `::{ … }` group, innermost first. `fuel` ≥ length of the list suffices. -/
def sortUseAux : Nat → List Tok → List Tok
  | 0, ts => ts
  | _, [] => []
  | fuel + 1, t :: r =>
    match r with
    | b :: o :: r' =>
      if isP t ':' && isP b ':' && isOpen o '{' then
        match takeGroup 0 r' with
        | some (inside, cl, rest) =>
          let elems := (splitTop 0 [] inside).map (sortUseAux fuel)
          t :: b :: o :: (joinComma (sortElems elems) ++ cl :: sortUseAux fuel rest)
        | none => t :: sortUseAux fuel r
      else t :: sortUseAux fuel r
    | _ => t :: sortUseAux fuel r

def sortUse (ts : List Tok) : List Tok := sortUseAux (ts.length + 1) ts

/-! ## The relation and its checker -/

/-- The tokens proper (the harness interleaves the comments with them). -/
def toks (s : List Tok) : List Tok := s.filter fun t => t.kind ≠ .comment
/-- The comments, in order, as normalised text. -/
def comments (s : List Tok) : List (List Char) :=
  (s.filter fun t => t.kind = .comment).map fun t => (normLeaf t).text

/-- Canonical token sequence: normal form of the documented cosmetic rewrites. -/
def canon (s : List Tok) : List Tok := sortUse (normTok (toks s))

/-- C19 for one input: `src`/`out` = token-and-comment streams of the source and of the formatted text, `parses` =
the real parser accepts the formatted text. -/
def FmtOk (src out : List Tok) (parses : Bool) : Prop :=
  parses = true ∧ canon src = canon out ∧ comments src = comments out

/-- The validator run by the driver on the real formatter's output. -/
def fmtCheck (src out : List Tok) (parses : Bool) : Bool :=
  parses && decide (canon src = canon out) && decide (comments src = comments out)

/-! ## Diagnostics for a rejected pair (fingerprint that routes known findings; not part of the verdict) -/

def keywords : List (List Char) :=
  ["where", "use", "pub", "fn", "enum", "struct", "impl", "trait", "abi", "storage", "const", "let", "match",
   "if", "else", "while", "for", "return", "type", "mut", "self", "as", "configurable", "mod", "in", "asm",
   "break", "continue", "ref"].map String.toList

/-- Class of a token: punctuation and delimiters by their character, keywords by their text, else the kind. -/
def tokClass (t : Tok) : String :=
  match t.kind with
  | .punct | .open | .close => String.ofList t.text
  | .ident => if keywords.contains t.text then String.ofList t.text else "I"
  | .lit => "L"
  | .doc => "D"
  | .comment => "M"

def optClass : Option Tok → String
  | some t => tokClass t
  | none => "$"

/-- First position where two lists differ: the element before it and the two elements at it. -/
def firstDiff [DecidableEq α] : Option α → List α → List α → Option (Option α × Option α × Option α)
  | _, [], [] => none
  | p, a :: as, b :: bs => if a = b then firstDiff (some a) as bs else some (p, some a, some b)
  | p, a :: _, [] => some (p, some a, none)
  | p, [], b :: _ => some (p, none, some b)

/-- Context (previous token, next token) of the `n`-th comment of a stream. -/
def commentCtx : Nat → Option Tok → List Tok → Option (Option Tok × Option Tok)
  | _, _, [] => none
  | n, p, t :: r =>
    if t.kind = .comment then
      (match n with
       | 0 => some (p, r.find? fun x => x.kind ≠ .comment)
       | n' + 1 => commentCtx n' p r)
    else commentCtx n (some t) r

def firstDiffIdx [DecidableEq α] : Nat → List α → List α → Option Nat
  | _, [], [] => none
  | i, a :: as, b :: bs => if a = b then firstDiffIdx (i + 1) as bs else some i
  | i, _, _ => some i

def fingerprint (src out : List Tok) (parses : Bool) : String :=
  let tokPart := match firstDiff none (canon src) (canon out) with
    | none => []
    | some (p, a, b) => [s!"tok:{optClass p}/{optClass a}/{optClass b}"]
  let cs := comments src
  let co := comments out
  let cPart := match firstDiffIdx 0 cs co with
    | none => []
    | some i =>
      let kind := if co.length < cs.length then "cl" else if co.length > cs.length then "ca" else "cm"
      match commentCtx i none src with
      | some (p, n) => [s!"{kind}:{optClass p}/{optClass n}"]
      | none => [s!"{kind}:$/$"]
  let pPart := if parses then [] else ["np"]
  "+".intercalate (tokPart ++ cPart ++ pPart)

end SwayVerif.FmtSpec
