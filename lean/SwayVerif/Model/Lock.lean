/-!
# Model of `forc-pkg/src/lock.rs` and of the `source::Pinned` string grammar

Import-free (core Lean only) so that the drivers link as `lean_exe`.

Anchors (code AFTER the C21 `fix:` commit):
* `forc-pkg/src/lock.rs`            `pkg_dep_line`, `parse_pkg_dep_line`, `pkg_unique_string`,
                                    `pkg_name_disambiguated`, `names_requiring_disambiguation`,
                                    `PkgLock::from_node`, `Lock::from_graph`, `Lock::to_graph`
* `forc-pkg/src/source/mod.rs`      `impl FromStr for Pinned`, `impl Display for Pinned`
* `forc-pkg/src/source/path.rs`     `Pinned::{fmt, from_str}`, `pkg.rs` `PinnedId::{fmt, from_str}`
* `forc-pkg/src/source/git/mod.rs`  `Pinned::{fmt, from_str}`, `Reference::fmt`, `validate_git_commit_hash`
* `forc-pkg/src/source/ipfs.rs`     `Pinned::{fmt, from_str}`
* `forc-pkg/src/source/reg/mod.rs`  `Pinned::{fmt, from_str}`, `validate_cid`, `Namespace::fmt`

A Rust `str` is a `List Char` with explicit UTF-8 byte arithmetic: every index the Rust code computes
is a *byte* offset, and slicing (`&s[a..]`) at an offset that is out of range or not a character
boundary is the Rust panic, made explicit as `Res.panic`. `str::get(a..)` is the same partial
function with `None` instead of a panic.

## What is abstracted (parameters, recorded as assumptions in checks/c20.py, checks/c21.py)

* `toml` (de)serialisation and the `BTreeSet<PkgLock>` ordering: the model starts from / ends at the
  list of `PkgLock` records; theorems about `toGraph` hold for every order of that list.
* `gix_url::Url`, `cid::Cid`, `semver::Version`: a value of these types is identified with its
  `Display` string (`Url`, `Cid`, `Ver` below are such canonical strings) and the external parser
  is the parameter `Ext` (`parse` followed by `to_string`: `none` = parse error). External parsers
  are assumed total (they return, they do not panic) — tied by the correspondence check.
* `fuel_tx::Salt` (`fuel-types` `FromStr`/`Display` over the `hex` crate) is modelled concretely:
  a salt is its `Display` string, 64 lower-case hex digits.
* `PinnedId` is its `u64` value (`Nat`, type invariant `< 2^64`); `{:016X}` / `u64::from_str_radix(_, 16)`
  are modelled concretely.
* `HashMap<String, NodeIx>`: association by key, a later `insert` wins (`lookupKey` = last occurrence).
* `petgraph::StableGraph`: node list in `add_node` order, edge list in insertion order, `update_edge`
  replaces the weight of an existing `(a, b)` edge.
-/
namespace SwayVerif.Lock

abbrev Str := List Char

/-- Outcome of a Rust function returning `Result`: `panic` is a Rust panic. -/
inductive Res (α : Type) where
  | ok : α → Res α
  | err : Res α
  | panic : Res α
deriving Repr, DecidableEq

def Res.bind {α β : Type} : Res α → (α → Res β) → Res β
  | .ok a, f => f a
  | .err, _ => .err
  | .panic, _ => .panic

/-- `opt.ok_or(err)?` -/
def Res.ofOption {α : Type} : Option α → Res α
  | some a => .ok a
  | none => .err

/-- A slice/index that panics when the partial operation is undefined. -/
def Res.orPanic {α : Type} : Option α → Res α
  | some a => .ok a
  | none => .panic

/-! ## Rust `str` primitives -/

/-- `char::len_utf8` -/
def u8len (c : Char) : Nat :=
  if c.val.toNat < 0x80 then 1 else if c.val.toNat < 0x800 then 2 else if c.val.toNat < 0x10000 then 3 else 4

/-- `str::len` (bytes) -/
def blen : Str → Nat
  | [] => 0
  | c :: cs => u8len c + blen cs

/-- Split at byte offset `n`; `none` = out of range or not a char boundary. -/
def splitAtByte : Str → Nat → Option (Str × Str)
  | cs, 0 => some ([], cs)
  | [], _ + 1 => none
  | c :: cs, n + 1 =>
    if n + 1 < u8len c then none
    else match splitAtByte cs (n + 1 - u8len c) with
      | some (a, b) => some (c :: a, b)
      | none => none

/-- `s.get(n..)`; `&s[n..]` is `Res.orPanic (getFrom s n)`. -/
def getFrom (s : Str) (n : Nat) : Option Str := (splitAtByte s n).map (·.2)

/-- `char::is_whitespace` (Unicode `White_Space`). -/
def isWs (c : Char) : Bool :=
  let n := c.val.toNat
  (9 ≤ n && n ≤ 13) || n == 0x20 || n == 0x85 || n == 0xA0 || n == 0x1680 ||
  (0x2000 ≤ n && n ≤ 0x200A) || n == 0x2028 || n == 0x2029 || n == 0x202F || n == 0x205F || n == 0x3000

def trimStart (s : Str) : Str := s.dropWhile isWs
def trimEnd (s : Str) : Str := (s.reverse.dropWhile isWs).reverse
/-- `str::trim` -/
def trim (s : Str) : Str := trimEnd (trimStart s)

/-- `s.starts_with(p)`; also `s.find(p) == Some(0)` (the first match is at byte 0 iff `p` is a prefix). -/
def startsWith (s p : Str) : Bool := p.isPrefixOf s

/-- `s.split(c)` for a `char` pattern (never empty). -/
def splitChar (c : Char) : Str → List Str
  | [] => [[]]
  | x :: xs =>
    if x = c then [] :: splitChar c xs
    else match splitChar c xs with
      | p :: ps => (x :: p) :: ps
      | [] => [[x]]

/-- `s.split(c).next()` (always `Some`) -/
def firstPiece (c : Char) (s : Str) : Str := ((splitChar c s).head?).getD []

/-- `s.split_once(c)` -/
def splitOnce (c : Char) : Str → Option (Str × Str)
  | [] => none
  | x :: xs =>
    if x = c then some ([], xs)
    else match splitOnce c xs with
      | some (a, b) => some (x :: a, b)
      | none => none

/-- `s.split(pat)` for a non-empty `&str` pattern: `skip` = chars of the current match still to be
consumed, `cur` = current piece, reversed. -/
def splitStrAux (pat : Str) : Str → Nat → Str → List Str
  | [], _, cur => [cur.reverse]
  | _ :: cs, skip + 1, cur => splitStrAux pat cs skip cur
  | c :: cs, 0, cur =>
    if pat.isPrefixOf (c :: cs) then cur.reverse :: splitStrAux pat cs (pat.length - 1) []
    else splitStrAux pat cs 0 (c :: cur)

def splitStr (pat s : Str) : List Str := splitStrAux pat s 0 []

/-- `s.strip_suffix(ch)` -/
def stripSuffixChar (s : Str) (ch : Char) : Option Str :=
  match s.reverse with
  | c :: r => if c = ch then some r.reverse else none
  | [] => none

/-! ## Numbers and salts -/

def hexVal (c : Char) : Option Nat :=
  let n := c.val.toNat
  if 48 ≤ n ∧ n ≤ 57 then some (n - 48)
  else if 97 ≤ n ∧ n ≤ 102 then some (n - 87)
  else if 65 ≤ n ∧ n ≤ 70 then some (n - 55)
  else none

def parseHexDigits : Str → Nat → Option Nat
  | [], acc => some acc
  | c :: cs, acc => match hexVal c with
    | some d => parseHexDigits cs (acc * 16 + d)
    | none => none

/-- `u64::from_str_radix(s, 16)`: optional leading `+`, at least one digit, upper or lower case,
value below `2^64`. -/
def parseU64Hex (s : Str) : Option Nat :=
  let digits : Str := if s.head? = some '+' then s.tail else s
  if digits.isEmpty then none
  else match parseHexDigits digits 0 with
    | some n => if n < 2 ^ 64 then some n else none
    | none => none

def upperHexDigit (d : Nat) : Char :=
  match d with
  | 0 => '0' | 1 => '1' | 2 => '2' | 3 => '3' | 4 => '4' | 5 => '5' | 6 => '6' | 7 => '7'
  | 8 => '8' | 9 => '9' | 10 => 'A' | 11 => 'B' | 12 => 'C' | 13 => 'D' | 14 => 'E' | _ => 'F'

/-- The last `k` hex digits of `n`, upper case. -/
def hexFixed : Nat → Nat → Str
  | 0, _ => []
  | k + 1, n => hexFixed k (n / 16) ++ [upperHexDigit (n % 16)]

/-- `format!("{:016X}", id)` for `id : u64`. -/
def showId (n : Nat) : Str := hexFixed 16 n

/-- A salt is its `Display` string. -/
abbrev Salt := Str

def lowerHex (c : Char) : Char :=
  let n := c.val.toNat
  if 65 ≤ n ∧ n ≤ 70 then Char.ofNat (n + 32) else c

def zeroSalt : Salt := List.replicate 64 '0'

/-- `fuel_tx::Salt::from_str`: optional `0x`, then exactly 64 hex digits. -/
def parseSalt (s : Str) : Option Salt :=
  let s := if startsWith s ['0', 'x'] then s.drop 2 else s
  if s.length = 64 ∧ s.all (fun c => (hexVal c).isSome) then some (s.map lowerHex) else none

/-! ## External parsers -/

abbrev Url := Str
abbrev Cid := Str
abbrev Ver := Str

/-- `parse` followed by `to_string` for the three external types; `none` = parse error. -/
structure Ext where
  url : Str → Option Url       -- `git::Url::from_str` (`gix_url::Url::from_bytes`), `to_bstring`
  cid : Str → Option Cid       -- `cid::Cid::from_str`, `Display`
  semver : Str → Option Ver    -- `semver::Version::from_str`, `Display`

/-! ## Pinned sources -/

inductive Reference where
  | branch : Str → Reference
  | tag : Str → Reference
  | rev : Str → Reference
  | default : Reference
deriving Repr, DecidableEq

inductive Pinned where
  | member : Pinned
  | git (repo : Url) (reference : Reference) (commit : Str) : Pinned
  | path (root : Nat) : Pinned
  | ipfs (cid : Cid) : Pinned
  /-- `ns = none` is `Namespace::Flat`, `some d` is `Namespace::Domain(d)` -/
  | registry (name : Str) (version : Ver) (cid : Cid) (ns : Option Str) : Pinned
deriving Repr, DecidableEq

def litGit : Str := ['g', 'i', 't', '+']
def litPath : Str := ['p', 'a', 't', 'h', '+']
def litIpfs : Str := ['i', 'p', 'f', 's', '+']
def litReg : Str := ['r', 'e', 'g', 'i', 's', 't', 'r', 'y', '+']
def litFromRoot : Str := ['f', 'r', 'o', 'm', '-', 'r', 'o', 'o', 't', '-']
def litBranch : Str := ['b', 'r', 'a', 'n', 'c', 'h', '=']
def litTag : Str := ['t', 'a', 'g', '=']
def litRev : Str := ['r', 'e', 'v']
def litDefault : Str := ['d', 'e', 'f', 'a', 'u', 'l', 't', '-', 'b', 'r', 'a', 'n', 'c', 'h']
def litMember : Str := ['m', 'e', 'm', 'b', 'e', 'r']
def litRoot : Str := ['r', 'o', 'o', 't']

/-- `impl Display for git::Reference` -/
def Reference.display : Reference → Str
  | .branch s => litBranch ++ s
  | .tag s => litTag ++ s
  | .rev _ => litRev
  | .default => litDefault

/-- `impl Display for source::Pinned` -/
def Pinned.display : Pinned → Str
  | .member => litMember
  | .git repo r commit => litGit ++ (repo ++ ('?' :: (r.display ++ ('#' :: commit))))
  | .path root => litPath ++ (litFromRoot ++ showId root)
  | .ipfs cid => litIpfs ++ cid
  | .registry name ver cid ns => litReg ++ (name ++ ('?' :: (ver ++ ('#' :: (cid ++ ('!' :: ns.getD []))))))

/-- `Pinned::semver` -/
def Pinned.semver : Pinned → Option Ver
  | .registry _ ver _ _ => some ver
  | _ => none

/-- The common opening of the four `from_str`s: `trim`, prefix test, `&s[prefix_plus.len()..]`. -/
def stripPrefixPlus (lit s : Str) : Res Str :=
  let s := trim s
  if startsWith s lit then Res.orPanic (getFrom s (blen lit)) else .err

/-- `path::Pinned::from_str` -/
def parsePath (s : Str) : Res Nat :=
  (stripPrefixPlus litPath s).bind fun s =>
  (Res.ofOption ((splitStr litFromRoot s)[1]?)).bind fun piece =>
  Res.ofOption (parseU64Hex piece)

/-- `validate_git_commit_hash` -/
def validCommitHash (h : Str) : Bool :=
  blen h == 40 && h.all Char.isAlphanum

/-- `git::Pinned::from_str` (the `Pinned::Git` it yields). -/
def parseGit (ext : Ext) (s : Str) : Res Pinned :=
  (stripPrefixPlus litGit s).bind fun s =>
  let repoStr := firstPiece '?' s
  (Res.ofOption (ext.url repoStr)).bind fun repo =>
  (Res.ofOption (getFrom s (blen repoStr + 1))).bind fun s =>
  let pieces := splitChar '#' s
  (Res.ofOption pieces[0]?).bind fun reference =>
  (Res.ofOption pieces[1]?).bind fun commit =>
  if !validCommitHash commit then .err else
  if startsWith reference litBranch then
    (Res.orPanic (getFrom reference (blen litBranch))).bind fun b => .ok (.git repo (.branch b) commit)
  else if startsWith reference litTag then
    (Res.orPanic (getFrom reference (blen litTag))).bind fun t => .ok (.git repo (.tag t) commit)
  else if reference = litRev then .ok (.git repo (.rev commit) commit)
  else if reference = litDefault then .ok (.git repo .default commit)
  else .err

/-- `ipfs::Pinned::from_str` -/
def parseIpfs (ext : Ext) (s : Str) : Res Pinned :=
  (stripPrefixPlus litIpfs s).bind fun s =>
  (Res.ofOption (ext.cid s)).bind fun cid => .ok (.ipfs cid)

/-- `reg::validate_cid` -/
def validateCid (cid : Str) : Bool :=
  let cid := trim cid
  startsWith cid ['Q', 'm'] && blen cid == 46

/-- `reg::Pinned::from_str` -/
def parseReg (ext : Ext) (s : Str) : Res Pinned :=
  (stripPrefixPlus litReg s).bind fun s =>
  (Res.ofOption (splitOnce '?' s)).bind fun (name, rest) =>
  let pieces := splitChar '#' rest
  (Res.ofOption pieces[0]?).bind fun verStr =>
  (Res.ofOption (ext.semver verStr)).bind fun ver =>
  (Res.ofOption pieces[1]?).bind fun cidNs =>
  let pieces := splitChar '!' cidNs
  (Res.ofOption pieces[0]?).bind fun cidStr =>
  if !validateCid cidStr then .err else
  (Res.ofOption (ext.cid cidStr)).bind fun cid =>
  let ns := match pieces[1]? with
    | some ns => if ns.isEmpty then none else some ns
    | none => none
  .ok (.registry name ver cid ns)

/-- `if let Ok(src) = a { src } else { b }` — a panic inside `a` propagates. -/
def Res.orElse {α : Type} : Res α → Res α → Res α
  | .ok a, _ => .ok a
  | .err, b => b
  | .panic, _ => .panic

/-- `impl FromStr for source::Pinned` -/
def parsePinned (ext : Ext) (s : Str) : Res Pinned :=
  if s = litRoot ∨ s = litMember then .ok .member
  else
    (((parsePath s).bind fun r => Res.ok (Pinned.path r)).orElse
      ((parseGit ext s).orElse ((parseIpfs ext s).orElse (parseReg ext s))))

/-! ## Dependency lines -/

inductive DepKind where
  | library : DepKind
  | contract (salt : Salt) : DepKind
deriving Repr, DecidableEq

/-- `pkg_unique_string` -/
def pkgUniqueString (name source : Str) : Str := name ++ (' ' :: source)

/-- `pkg_name_disambiguated` -/
def pkgNameDisambiguated (name source : Str) (disambiguate : Bool) : Str :=
  if disambiguate then pkgUniqueString name source else name

/-- `pkg_dep_line` (`source` is the pinned source's `Display` string). -/
def pkgDepLine (depName : Option Str) (name source : Str) (kind : DepKind) (disambiguate : Bool) : Str :=
  let pkgString := pkgNameDisambiguated name source disambiguate
  let pkgString := match depName with
    | none => pkgString
    | some d => '(' :: (d ++ (')' :: ' ' :: pkgString))
  match kind with
  | .library => pkgString
  | .contract salt => if salt = zeroSalt then pkgString else pkgString ++ (' ' :: '(' :: (salt ++ [')']))

/-- The salt segment a dependency line carries for a kind. -/
def saltOf : DepKind → Option Salt
  | .library => none
  | .contract s => if s = zeroSalt then none else some s

/-- First half of `parse_pkg_dep_line`: the optional `(<dep_name>)` prefix of the trimmed line. -/
def parseDepHead (s : Str) : Res (Option Str × Str) :=
  if startsWith s ['('] then
    (Res.orPanic (getFrom s 1)).bind fun s =>
    (Res.ofOption (splitOnce ')' s)).bind fun (d, rest) => .ok (some d, rest)
  else .ok (none, s)

/-- Second half of `parse_pkg_dep_line`: the package string and the optional `(<salt>)`. -/
def parseDepTail (depName : Option Str) (s : Str) : Res (Option Str × Str × Option Salt) :=
  let pieces := splitChar '(' s
  (Res.ofOption pieces[0]?).bind fun pkgStr =>
  let pkgStr := trim pkgStr
  match pieces[1]? with
  | none => .ok (depName, pkgStr, none)
  | some saltStr =>
    (Res.ofOption (stripSuffixChar (trim saltStr) ')')).bind fun saltStr =>
    (Res.ofOption (parseSalt saltStr)).bind fun salt => .ok (depName, pkgStr, some salt)

/-- `parse_pkg_dep_line`: `(dep_name, pkg_str, salt)`. -/
def parsePkgDepLine (line : Str) : Res (Option Str × Str × Option Salt) :=
  (parseDepHead (trim line)).bind fun (depName, s) => parseDepTail depName s

/-! ## Graph and lock records -/

structure Pkg where
  name : Str
  source : Pinned
deriving Repr, DecidableEq

structure Edge where
  src : Nat
  dst : Nat
  name : Str
  kind : DepKind
deriving Repr, DecidableEq

/-- `pkg::Graph`: nodes in `add_node` order, edges in insertion order. -/
structure Graph where
  nodes : List Pkg
  edges : List Edge
deriving Repr, DecidableEq

/-- `PkgLock`; `dependencies: None` and `Some(vec![])` are both `[]` (`to_graph` flattens them,
`from_node` never emits `Some(vec![])`). -/
structure PkgLock where
  name : Str
  version : Option Ver
  source : Str
  deps : List Str
  cdeps : List Str
deriving Repr, DecidableEq

/-- `names_requiring_disambiguation(..).collect::<HashSet<_>>().contains(name)`: the names whose
`BTreeSet::insert` returned `false`, i.e. those occurring at least twice. -/
def needsDisambiguation (names : List Str) (name : Str) : Bool := decide (2 ≤ names.count name)

/-- Lexicographic `<` on code points = `str`'s `Ord` (byte-wise on UTF-8). -/
def strLt : Str → Str → Bool
  | [], [] => false
  | [], _ :: _ => true
  | _ :: _, [] => false
  | a :: as, b :: bs => if a.val < b.val then true else if b.val < a.val then false else strLt as bs

def insertSorted (x : Str) : List Str → List Str
  | [] => [x]
  | y :: ys => if strLt y x then y :: insertSorted x ys else x :: y :: ys

/-- `Vec<String>::sort` -/
def sortLines : List Str → List Str
  | [] => []
  | x :: xs => insertSorted x (sortLines xs)

/-- `PkgLock::from_node` -/
def fromNode (g : Graph) (names : List Str) (i : Nat) (p : Pkg) : PkgLock :=
  let outs := g.edges.filter (fun e => e.src = i)
  let all : List (Str × DepKind) := outs.filterMap fun e =>
    (g.nodes[e.dst]?).map fun d =>
      let depName := if e.name ≠ d.name then some e.name else none
      (pkgDepLine depName d.name d.source.display e.kind (needsDisambiguation names d.name), e.kind)
  let deps := all.filterMap fun (l, k) => match k with | .library => some l | .contract _ => none
  let cdeps := all.filterMap fun (l, k) => match k with | .library => none | .contract _ => some l
  { name := p.name, version := p.source.semver, source := p.source.display,
    deps := sortLines deps, cdeps := sortLines cdeps }

/-- `BTreeSet` collection: equal records collapse (order abstracted, see header). -/
def dedup : List PkgLock → List PkgLock
  | [] => []
  | x :: xs => if x ∈ xs then dedup xs else x :: dedup xs

def zipIdxFrom {α : Type} : List α → Nat → List (Nat × α)
  | [], _ => []
  | a :: as, i => (i, a) :: zipIdxFrom as (i + 1)

/-- `Lock::from_graph` (records in node order; the real `BTreeSet` iterates them sorted). -/
def fromGraph (g : Graph) : List PkgLock :=
  let names := g.nodes.map (·.name)
  dedup ((zipIdxFrom g.nodes 0).map fun (i, p) => fromNode g names i p)

/-- `HashMap::get` after a sequence of `insert`s in list order (index of the last occurrence). -/
def lookupKey : List Str → Str → Option Nat
  | [], _ => none
  | x :: xs, k => match lookupKey xs k with
    | some i => some (i + 1)
    | none => if x = k then some 0 else none

/-- `StableGraph::update_edge` -/
def updateEdge (es : List Edge) (e : Edge) : List Edge :=
  if es.any (fun x => x.src = e.src ∧ x.dst = e.dst) then
    es.map (fun x => if x.src = e.src ∧ x.dst = e.dst then e else x)
  else es ++ [e]

def pkgKey (names : List Str) (p : PkgLock) : Str :=
  pkgNameDisambiguated p.name p.source (needsDisambiguation names p.name)

/-- First pass of `to_graph`: parse every `source`. -/
def parseNodes (ext : Ext) : List PkgLock → Res (List Pkg)
  | [] => .ok []
  | p :: ps =>
    (parsePinned ext p.source).bind fun src =>
    (parseNodes ext ps).bind fun rest => .ok (⟨p.name, src⟩ :: rest)

/-- One dependency line of the second pass. `contract` = the line comes from `contract-dependencies`. -/
def addDep (keys : List Str) (nodes : List Pkg) (node : Nat) (contract : Bool) (es : List Edge) (line : Str) :
    Res (List Edge) :=
  (parsePkgDepLine line).bind fun (depName, depKey, depSalt) =>
  (Res.ofOption (lookupKey keys depKey)).bind fun depNode =>
  -- `graph[dep_node]`
  (Res.orPanic nodes[depNode]?).bind fun depPkg =>
  let name := depName.getD depPkg.name
  let kind := if contract then DepKind.contract (depSalt.getD zeroSalt) else DepKind.library
  .ok (updateEdge es ⟨node, depNode, name, kind⟩)

def addDeps (keys : List Str) (nodes : List Pkg) (node : Nat) (contract : Bool) :
    List Str → List Edge → Res (List Edge)
  | [], es => .ok es
  | l :: ls, es => (addDep keys nodes node contract es l).bind fun es => addDeps keys nodes node contract ls es

/-- Second pass of `to_graph`. `pkg_to_node[&key]` panics when the key is absent. -/
def addPkgs (names keys : List Str) (nodes : List Pkg) : List PkgLock → List Edge → Res (List Edge)
  | [], es => .ok es
  | p :: ps, es =>
    (Res.orPanic (lookupKey keys (pkgKey names p))).bind fun node =>
    (addDeps keys nodes node false p.deps es).bind fun es =>
    (addDeps keys nodes node true p.cdeps es).bind fun es =>
    addPkgs names keys nodes ps es

/-- `Lock::to_graph` on the records in `BTreeSet` iteration order. -/
def toGraph (ext : Ext) (pkgs : List PkgLock) : Res Graph :=
  let names := pkgs.map (·.name)
  (parseNodes ext pkgs).bind fun nodes =>
  let keys := pkgs.map (pkgKey names)
  (addPkgs names keys nodes pkgs []).bind fun es => .ok ⟨nodes, es⟩

/-! ## Graph equality up to node numbering -/

/-- An edge with its endpoints resolved to packages (`none` = a dangling endpoint, which petgraph excludes). -/
def resolveEdge (g : Graph) (e : Edge) : Option Pkg × Option Pkg × Str × DepKind :=
  (g.nodes[e.src]?, g.nodes[e.dst]?, e.name, e.kind)

/-- Edges with their endpoints resolved to packages. -/
def Graph.resolved (g : Graph) : List (Option Pkg × Option Pkg × Str × DepKind) := g.edges.map (resolveEdge g)

/-- Same packages and same dependency edges (names, kinds, salts), up to node numbering and order. -/
def Graph.equiv (g h : Graph) : Prop := g.nodes.Perm h.nodes ∧ g.resolved.Perm h.resolved

def Graph.equivB (g h : Graph) : Bool := g.nodes.isPerm h.nodes && g.resolved.isPerm h.resolved

/-! ## Well-formedness (discovered: every conjunct has a `not_wf_witness` in `Props/C20.lean`) -/

def noChar (c : Char) (s : Str) : Bool := !s.contains c

/-- The first / last character is not whitespace (`s.trim_start() == s` / `s.trim_end() == s`). -/
def startOK (s : Str) : Bool := match s.head? with
  | some c => !isWs c
  | none => true
def endOK (s : Str) : Bool := match s.getLast? with
  | some c => !isWs c
  | none => true

def WFReference (commit : Str) : Reference → Bool
  | .branch s => noChar '#' s
  | .tag s => noChar '#' s
  | .rev s => decide (s = commit)
  | .default => true

/-- What `cid::Cid`'s `Display` can print: multibase base58btc / base32 text. -/
def cidTok (s : Str) : Bool := s.all Char.isAlphanum

/-- What `semver::Version`'s `Display` can print. -/
def verTok (s : Str) : Bool := s.all (fun c => c.isAlphanum || c == '.' || c == '-' || c == '+')

/-- Pinned sources for which `from_str (to_string p) = p`. -/
def WFPinned (ext : Ext) : Pinned → Bool
  | .member => true
  | .git repo r commit =>
    decide (ext.url repo = some repo) && noChar '?' repo && WFReference commit r && validCommitHash commit
  | .path root => decide (root < 2 ^ 64)
  | .ipfs cid => decide (ext.cid cid = some cid) && cidTok cid
  | .registry name ver cid ns =>
    noChar '?' name &&
    decide (ext.semver ver = some ver) && verTok ver &&
    decide (ext.cid cid = some cid) && cidTok cid && validateCid cid &&
    (match ns with
     | none => true
     | some d => !d.isEmpty && noChar '#' d && noChar '!' d && endOK d)

def WFName (s : Str) : Bool := !s.isEmpty && noChar ' ' s && noChar '(' s && startOK s && endOK s

def WFDepName (s : Str) : Bool := noChar ')' s

def WFSalt (s : Salt) : Bool := s.length = 64 && s.all (fun c => (hexVal c).isSome && lowerHex c = c)

def WFKind : DepKind → Bool
  | .library => true
  | .contract s => WFSalt s

def pairwiseB {α : Type} (r : α → α → Bool) : List α → Bool
  | [] => true
  | x :: xs => xs.all (r x) && pairwiseB r xs

/-- Resolved package graphs for which writing and re-reading `Forc.lock` is the identity. -/
def WFGraph (ext : Ext) (g : Graph) : Bool :=
  g.nodes.all (fun p => WFName p.name && WFPinned ext p.source && noChar '(' p.source.display) &&
  pairwiseB (fun p q => !(p.name = q.name && p.source.display = q.source.display)) g.nodes &&
  g.edges.all (fun e => e.src < g.nodes.length && e.dst < g.nodes.length && WFDepName e.name && WFKind e.kind) &&
  pairwiseB (fun e f => !(e.src = f.src && e.dst = f.dst)) g.edges

/-! ## Assumed vs. reachable

The conjuncts of `WFGraph` fall in two classes (classification and replays: `checks/c20.py`, `Props/C20.lean`):
(a) ASSUMPTIONS — enforced by a validating function of forc or by a type invariant; `AssumedGraph` below;
(b) KNOWN FINDINGS — reachable from a real manifest, the real round trip fails: `?` in a git url, `#` in a
    git branch/tag, `Rev(s)` with `s ≠ commit`, CIDv1 / empty or `#`/`!`/trailing-whitespace namespace of a
    registry source, `(` in the source string of a package, two nodes with the same name and source
    string, `)` in a dependency name.
The property's predicate demands the round trip of every graph satisfying (a). -/

/-- Class (a) part of `WFPinned`. -/
def AssumedPinned (ext : Ext) : Pinned → Bool
  | .member => true
  | .git repo _ commit => decide (ext.url repo = some repo) && validCommitHash commit
  | .path root => decide (root < 2 ^ 64)
  | .ipfs cid => decide (ext.cid cid = some cid) && cidTok cid
  | .registry name ver cid _ =>
    noChar '?' name && noChar '(' name &&
    decide (ext.semver ver = some ver) && verTok ver && decide (ext.cid cid = some cid) && cidTok cid

/-- Class (a) part of `WFGraph`: what manifest validation, `fetch_deps` and the types guarantee. -/
def AssumedGraph (ext : Ext) (g : Graph) : Bool :=
  g.nodes.all (fun p => WFName p.name && AssumedPinned ext p.source) &&
  g.edges.all (fun e => e.src < g.nodes.length && e.dst < g.nodes.length && WFKind e.kind) &&
  pairwiseB (fun e f => !(e.src = f.src && e.dst = f.dst)) g.edges

/-! ## The properties' own predicates, evaluated by the drivers on the IMPLEMENTATION's result -/

/-- Outcome class of a load. -/
inductive Outcome where
  | ok | err | panic
deriving Repr, DecidableEq

def Res.cls {α : Type} : Res α → Outcome
  | .ok _ => .ok
  | .err => .err
  | .panic => .panic

/-- C21: the outcome class of the implementation is a value or an error, never a panic. -/
def c21PropHolds (impl : Outcome) : Bool := decide (impl ≠ .panic)

/-- C20: for every graph that meets the assumptions (class (a)) the implementation's re-read graph is
the original one. Graphs of class (b) are NOT excused: they are the known findings. -/
def c20PropHolds (ext : Ext) (g : Graph) (impl : Res Graph) : Bool :=
  if AssumedGraph ext g then
    match impl with
    | .ok h => g.equivB h
    | _ => false
  else true

end SwayVerif.Lock
