/-!
# Model of the module cache protocol of the compiler as used by the language server (C26)

Anchors (`/repo`):
* `sway-core/src/query_engine/mod.rs` — `ModuleCacheEntry { common { hash, dependencies }, parsed { version },
  typed: Option<TypedModuleInfo { version, .. }> }`, `update_entry` (keeps `typed`), `CowCache`
  (`write` works on a private copy, `commit` publishes it).
* `sway-core/src/lib.rs` — `is_ty_module_cache_up_to_date`, `is_parse_module_cache_up_to_date`,
  `parse_module_tree` (re-parses every module of the tree, records hash / dependencies / version),
  `compile_to_ast` (whole-program reuse when the root's parse entry is up to date).
* `sway-core/src/semantic_analysis/module.rs` — `TyModule::type_check`: reuse of the cached typed module
  when `is_ty_module_cache_up_to_date`, else submodules first, then the module, then the typed entry is
  written with the version taken from `file_versions`.
* `sway-lsp/src/handlers/notification.rs::file_versions` — the edited file carries `Some(version)`, every
  other document `None`; `sway-lsp/src/server_state.rs` — the worker compiles on a clone of the engines and
  commits (`qe().commit()` + swap) only after a successful, not retriggered, not reused compilation;
  `session::garbage_collect_module` → `Engines::clear_module` → `QueryEngine::clear_module` touches the
  function cache only, never the module cache.

The model follows the code AFTER the two repairs made for this property (`fix:` commits in /repo):
a request without a version for a file lets the file system decide (`parseChk`), and a parse that finds
another text than the one recorded drops the typed module of the entry (`parseMod`). The protocol as it
was found is kept at the end (`AsFound`), for the negation witnesses.

Import-free. Paths and contents are numbers (content = identity of a text). The recursion of the two
up-to-date checks over `dependencies` has no bound in the code; here it carries fuel and running out
of fuel is the explicit outcome `none` (the code would not return).
-/
namespace SwayVerif.Cache

abbrev Path := Nat
abbrev Content := Nat
/-- Text of every file (the language server's temp workspace on disk). -/
abbrev Disk := Path → Content
/-- `LspConfig::file_versions`: `none` = path not in the map, `some none` = a document that is not the
edited one, `some (some v)` = the edited document at version `v`. -/
abbrev FV := Path → Option (Option Nat)

/-- `TypedModuleInfo`. `snap` is ghost state: the text of every file when the module was type checked. -/
structure Typed where
  ver : Option Nat
  snap : Disk

/-- `ModuleCacheEntry` (`hash` = hash of the text at the last parse). -/
structure Entry where
  hash : Content
  deps : List Path
  pver : Option Nat
  typed : Option Typed

abbrev Cache := Path → Option Entry

/-- `Iterator::all` over results that may be "does not return". Stops at the first `false`. -/
def allDeps (f : Path → Option Bool) : List Path → Option Bool
  | [] => some true
  | d :: ds => match f d with
    | none => none
    | some false => some false
    | some true => allDeps f ds

/-- The shape shared by both checks: entry present, local test, then all dependencies. -/
def upToDateG (chk : Path → Entry → Bool) : Nat → Cache → Path → Option Bool
  | 0, _, _ => none
  | n + 1, c, p =>
    match c p with
    | none => some false
    | some e => if chk p e then allDeps (upToDateG chk n c) e.deps else some false

/-- `version.is_none_or(|v| cached.is_some_and(|c| v <= c))` under `file_versions.get(path)`. -/
def verOk (fvp : Option (Option Nat)) (cached : Option Nat) : Bool :=
  match fvp with
  | none => true
  | some none => true
  | some (some v) => match cached with
    | none => false
    | some c => decide (v ≤ c)

/-- Local test of `is_ty_module_cache_up_to_date`: a typed module exists and the version test passes
(a path that is not in `file_versions`, and a `None` version, both count as up to date). -/
def tyChk (fv : FV) (p : Path) (e : Entry) : Bool :=
  match e.typed with
  | none => false
  | some t => verOk (fv p) t.ver

def tyUpToDate (n : Nat) (c : Cache) (fv : FV) (p : Path) : Option Bool := upToDateG (tyChk fv) n c p

/-- Local test of `is_parse_module_cache_up_to_date`: without a version for the file in
`file_versions` (path absent, or `None`) the file system decides (`fsok` = modification time unchanged
or content hash equal), otherwise the version. -/
def parseChk (fsok : Path → Entry → Bool) (fv : FV) (p : Path) (e : Entry) : Bool :=
  match fv p with
  | none => fsok p e
  | some none => fsok p e
  | some (some v) => match e.pver with
    | none => false
    | some ev => decide (v ≤ ev)

def parseUpToDate (fsok : Path → Entry → Bool) (n : Nat) (c : Cache) (fv : FV) (p : Path) : Option Bool :=
  upToDateG (parseChk fsok fv) n c p

/-- `.copied().flatten()` / `.unwrap_or(None)`. -/
def joinV : Option (Option Nat) → Option Nat
  | some (some v) => some v
  | _ => none

/-- The typed module an entry keeps when its file is parsed again: dropped when the hash changed. -/
def keepTyped (old : Option Entry) (h : Content) : Option Typed :=
  match old with
  | none => none
  | some e => if e.hash = h then e.typed else none

/-- `update_or_insert_parsed_module_cache_entry`: hash, dependencies and parsed version are replaced,
the typed module of an existing entry is kept if the hash is the same. -/
def parseMod (depsOf : Path → Content → List Path) (disk : Disk) (fv : FV) (c : Cache) (p : Path) : Cache :=
  fun q => if q = p then
    some { hash := disk p, deps := depsOf p (disk p), pver := joinV (fv p), typed := keepTyped (c p) (disk p) }
  else c q

/-- `parse_module_tree`: submodules (read from disk) first, then the module's own entry. -/
def parseTree (depsOf : Path → Content → List Path) (disk : Disk) (fv : FV) : Nat → Cache → Path → Cache
  | 0, c, _ => c
  | n + 1, c, p => parseMod depsOf disk fv ((depsOf p (disk p)).foldl (parseTree depsOf disk fv n) c) p

/-- `update_typed_module_cache_entry`. -/
def setTyped (c : Cache) (p : Path) (t : Typed) : Cache :=
  fun q => if q = p then (c p).map (fun e => { e with typed := some t }) else c q

/-- `TyModule::type_check` as far as the cache is concerned (`F` = fuel of the decision). -/
def tyTree (F : Nat) (disk : Disk) (fv : FV) : Nat → Cache → Path → Cache
  | 0, c, _ => c
  | n + 1, c, p =>
    if tyUpToDate F c fv p = some true then c
    else match c p with
      | none => c
      | some e => setTyped (e.deps.foldl (tyTree F disk fv n) c) p { ver := joinV (fv p), snap := disk }

structure St where
  disk : Disk
  /-- the committed (shared) module cache -/
  cache : Cache
  /-- ghost: the text the entry of the programs cache was computed from (`none` = no entry) -/
  prog : Option Disk
  /-- every version handed out so far is below this -/
  nextVer : Nat

/-- `file_versions` of a `didChange` of `f` at version `v` (every document is tracked). -/
def mark (f : Path) (v : Nat) : FV := fun q => if q = f then some (some v) else some none
/-- `file_versions` of `didOpen` / `didSave`. -/
def markNone : FV := fun _ => some none

inductive Outcome
  | reused
  | compiled (c : Cache)

/-- The file-system test as equality of content hashes (a file whose modification time is unchanged
has the recorded content). -/
def hashFs : Disk → Path → Entry → Bool := fun d p e => decide (e.hash = d p)

/-- One `compile_to_ast` of the package on a private copy of the cache. -/
def runJob (depsOf : Path → Content → List Path) (fsok : Disk → Path → Entry → Bool) (F : Nat) (root : Path)
    (s : St) (fv : FV) : Outcome :=
  if parseUpToDate (fsok s.disk) F s.cache fv root = some true then .reused
  else .compiled (tyTree F s.disk fv F (parseTree depsOf s.disk fv F s.cache root) root)

inductive Event
  /-- `didChange`: the text is written, the version is the next one -/
  | edit (f : Path) (c : Content)
  /-- a compilation that ran to its end and was committed (not retriggered, typed program present) -/
  | jobCommit (fv : FV)
  /-- a compilation that was retriggered, or failed: its private copy is dropped -/
  | jobCancelled (fv : FV)
  /-- `garbage_collect_module` on the engines -/
  | gc (f : Path)

def step (depsOf : Path → Content → List Path) (fsok : Disk → Path → Entry → Bool) (F : Nat) (root : Path)
    (s : St) : Event → St
  | .edit f c => { s with disk := fun q => if q = f then c else s.disk q, nextVer := s.nextVer + 1 }
  | .jobCommit fv =>
    match runJob depsOf fsok F root s fv with
    | .reused => s
    | .compiled c => { s with cache := c, prog := some s.disk }
  | .jobCancelled _ => s
  | .gc _ => s

def run (depsOf : Path → Content → List Path) (fsok : Disk → Path → Entry → Bool) (F : Nat) (root : Path)
    (s : St) : List Event → St
  | [] => s
  | e :: es => run depsOf fsok F root (step depsOf fsok F root s e) es

/-- Modules of the program as the cache records them (reachability through `dependencies`). -/
inductive Reach (c : Cache) : Path → Path → Prop
  | refl (p : Path) : Reach c p p
  | step {p d q : Path} {e : Entry} : c p = some e → d ∈ e.deps → Reach c d q → Reach c p q

/-- The typed module cached for `p` was built from a text of `p` that is not the present one. -/
def Stale (disk : Disk) (c : Cache) (p : Path) : Prop :=
  ∃ e t, c p = some e ∧ e.typed = some t ∧ t.snap p ≠ disk p

/-- What a compilation that reuses typed modules yields for module `p`, for a per-module semantics
`tc` (typed module as a function of the text of all files): the typed module in the cache. -/
def incrementalResult {R : Type} (tc : Path → Disk → R) (dflt : R) (c : Cache) (p : Path) : R :=
  match (c p).bind (·.typed) with
  | some t => tc p t.snap
  | none => dflt

/-- What a compilation from scratch yields for module `p`. -/
def compile {R : Type} (tc : Path → Disk → R) (disk : Disk) (p : Path) : R := tc p disk

/-! ## Executable side used by the driver (finite maps as association lists) -/

def lookupA {α : Type} (k : Nat) : List (Nat × α) → Option α
  | [] => none
  | (k', v) :: r => if k = k' then some v else lookupA k r

def ofList {α : Type} (l : List (Nat × α)) : Nat → Option α := fun k => lookupA k l

/-- The decision of the driver's `dec` lines: entries and file versions as listed in the trace
(`hash = 1` stands for "the file's present content has the recorded hash"). -/
def decide? (kind : String) (entries : List (Path × Entry)) (fv : List (Path × Option Nat)) (p : Path) : Option Bool :=
  let c : Cache := ofList entries
  let f : FV := ofList fv
  let fuel := entries.length + 1
  if kind = "ty" then tyUpToDate fuel c f p
  else parseUpToDate (fun _ e => e.hash == 1) fuel c f p

/-! ## The protocol as it was found (before the repairs) -/

namespace AsFound

/-- a `None` version counted as up to date -/
def parseChk (fsok : Path → Entry → Bool) (fv : FV) (p : Path) (e : Entry) : Bool :=
  match fv p with
  | none => fsok p e
  | some none => true
  | some (some v) => match e.pver with
    | none => false
    | some ev => decide (v ≤ ev)

/-- the typed module of an entry survived a parse of another text -/
def parseMod (depsOf : Path → Content → List Path) (disk : Disk) (fv : FV) (c : Cache) (p : Path) : Cache :=
  fun q => if q = p then
    some { hash := disk p, deps := depsOf p (disk p), pver := joinV (fv p), typed := (c p).bind (·.typed) }
  else c q

def parseTree (depsOf : Path → Content → List Path) (disk : Disk) (fv : FV) : Nat → Cache → Path → Cache
  | 0, c, _ => c
  | n + 1, c, p => parseMod depsOf disk fv ((depsOf p (disk p)).foldl (parseTree depsOf disk fv n) c) p

def runJob (depsOf : Path → Content → List Path) (F : Nat) (root : Path) (s : St) (fv : FV) : Outcome :=
  if upToDateG (parseChk (hashFs s.disk) fv) F s.cache root = some true then .reused
  else .compiled (tyTree F s.disk fv F (parseTree depsOf s.disk fv F s.cache root) root)

def step (depsOf : Path → Content → List Path) (F : Nat) (root : Path) (s : St) : Event → St
  | .edit f c => { s with disk := fun q => if q = f then c else s.disk q, nextVer := s.nextVer + 1 }
  | .jobCommit fv =>
    match runJob depsOf F root s fv with
    | .reused => s
    | .compiled c => { s with cache := c, prog := some s.disk }
  | .jobCancelled _ => s
  | .gc _ => s

def run (depsOf : Path → Content → List Path) (F : Nat) (root : Path) (s : St) : List Event → St
  | [] => s
  | e :: es => run depsOf F root (step depsOf F root s e) es

end AsFound

/-! ## The same compilation over association lists (what the driver executes)

A `Cache` is a function; a compiled program would recompute a whole compilation for every lookup into
its result. The driver therefore runs these list versions; `Lemmas/Cache.lean` proves that they compute
the function versions (`ofList_parseTreeL`, `ofList_tyTreeL`, `runJobL_eq`). A newer binding shadows
an older one. -/

abbrev CacheL := List (Path × Entry)

def parseModL (depsOf : Path → Content → List Path) (disk : Disk) (fv : FV) (c : CacheL) (p : Path) : CacheL :=
  (p, { hash := disk p, deps := depsOf p (disk p), pver := joinV (fv p), typed := keepTyped (lookupA p c) (disk p) }) :: c

def parseTreeL (depsOf : Path → Content → List Path) (disk : Disk) (fv : FV) : Nat → CacheL → Path → CacheL
  | 0, c, _ => c
  | n + 1, c, p => parseModL depsOf disk fv ((depsOf p (disk p)).foldl (parseTreeL depsOf disk fv n) c) p

def setTypedL (c : CacheL) (p : Path) (t : Typed) : CacheL :=
  match lookupA p c with
  | some e => (p, { e with typed := some t }) :: c
  | none => c

def tyTreeL (F : Nat) (disk : Disk) (fv : FV) : Nat → CacheL → Path → CacheL
  | 0, c, _ => c
  | n + 1, c, p =>
    if tyUpToDate F (ofList c) fv p = some true then c
    else match lookupA p c with
      | none => c
      | some e => setTypedL (e.deps.foldl (tyTreeL F disk fv n) c) p { ver := joinV (fv p), snap := disk }

/-- `none` = the whole program is reused. -/
def runJobL (depsOf : Path → Content → List Path) (fsok : Disk → Path → Entry → Bool) (F : Nat) (root : Path)
    (disk : Disk) (c : CacheL) (fv : FV) : Option CacheL :=
  if parseUpToDate (fsok disk) F (ofList c) fv root = some true then none
  else some (tyTreeL F disk fv F (parseTreeL depsOf disk fv F c root) root)

/-! ## Replay of an observed history (driver): the committed cache, what the server shows, and why
that may differ from a fresh compilation -/

/-- Facts about a text: the submodules it declares and the sibling modules it imports from. -/
structure Info where
  deps : List Path
  imps : List Path

/-- What the session shows: the text the last committed, not reused compilation ran on, the modules
whose typed module it reused (with the text snapshot of that typed module), the modules of the program. -/
structure View where
  disk : Disk
  reused : List (Path × Disk)
  mods : List Path

def diskOf (t : List (Path × Content)) : Disk := fun q => (lookupA q t).getD 0
def natOf (t : List (Path × Nat)) : Path → Nat := fun q => (lookupA q t).getD 0

structure RSt where
  diskT : List (Path × Content) := []
  cacheT : CacheL := []
  nextVer : Nat := 2
  view : Option View := none
  /-- per file with tokens: the text of all files when the tokens of the file were last collected -/
  tokT : List (Path × Disk) := []
  /-- number of committed compilations so far -/
  gen : Nat := 0
  /-- per module: the committed compilation that built its typed module -/
  typedGenT : List (Path × Nat) := []
  /-- per module: the last committed compilation that garbage collected it (it was the edited file) -/
  gcGenT : List (Path × Nat) := []
  /-- the text the committed programs cache entry was computed from -/
  progDisk : Option Disk := none
  /-- modules that were type checked again because their text had changed while they were NOT the edited
  file of the request (their own edit was cancelled or replaced), hence without `clear_module`, and
  have not been garbage collected since -/
  ungcT : List Path := []

def infoOf (tbl : List (Content × Info)) (c : Content) : Info := (lookupA c tbl).getD ⟨[], []⟩

/-- Modules reachable through `next` (bounded breadth-first closure, `p` included). -/
def closure (next : Path → List Path) : Nat → List Path → List Path → List Path
  | 0, seen, _ => seen
  | n + 1, seen, todo =>
    match todo with
    | [] => seen
    | p :: r => if seen.contains p then closure next n seen r else closure next n (seen ++ [p]) (r ++ next p)

def progMods (c : CacheL) (root : Path) (fuel : Nat) : List Path :=
  closure (fun p => ((lookupA p c).map (·.deps)).getD []) (fuel * fuel + fuel) [] [root]

/-- Modules of the program whose cached typed module is dropped by the parse pass (the text changed)
although the request does not name them as the edited file. -/
def retypedWithoutGc (disk : Disk) (old : CacheL) (mods : List Path) (modified : Option Path) : List Path :=
  mods.filter fun q =>
    modified != some q &&
      match lookupA q old with
      | some e => e.typed.isSome && e.hash != disk q
      | none => false

/-- One observed compilation: `fv` of the request, whether it was committed. -/
def replayJob (tbl : List (Content × Info)) (F : Nat) (root : Path) (files : List Path)
    (r : RSt) (fv : FV) (modified : Option Path) (commit : Bool) : RSt :=
  let depsOf : Path → Content → List Path := fun _ c => (infoOf tbl c).deps
  let disk := diskOf r.diskT
  if !commit then r else
  match runJobL depsOf hashFs F root disk r.cacheT fv with
  | none => r
  | some c' =>
    let c1 := parseTreeL depsOf disk fv F r.cacheT root
    let mods := progMods c' root F
    let reused := mods.filterMap fun q =>
      if tyUpToDate F (ofList c1) fv q = some true then
        ((lookupA q c1).bind (·.typed)).map fun t => (q, t.snap)
      else none
    -- tokens: all files of the program when there were none, else the modified file only
    let tok' : List (Path × Disk) :=
      match modified with
      | some f => (f, disk) :: r.tokT
      | none => if r.tokT.isEmpty then mods.map (fun g => (g, disk)) else r.tokT
    let g := r.gen + 1
    let reusedPaths := reused.map (·.1)
    -- `parse_project`: diagnostics and tokens are refreshed only when a file was modified or there are no tokens yet
    let shown := modified.isSome || r.tokT.isEmpty
    let tg := files.map fun q => (q, if mods.contains q && !(reusedPaths.contains q) then g else natOf r.typedGenT q)
    let gg := files.map fun q => (q, if modified = some q then g else natOf r.gcGenT q)
    { r with cacheT := c', view := if shown then some ⟨disk, reused, mods⟩ else r.view,
             tokT := tok', gen := g, typedGenT := tg, gcGenT := gg, progDisk := some disk,
             ungcT := ((r.ungcT ++ retypedWithoutGc disk r.cacheT mods modified).filter (fun q => modified != some q)).eraseDups }

/-- Files `g` reads: its submodules and the modules it imports from, transitively (present text). -/
def readsOf (tbl : List (Content × Info)) (disk : Disk) (n : Nat) (g : Path) : List Path :=
  closure (fun p => (infoOf tbl (disk p)).deps ++ (infoOf tbl (disk p)).imps) (n * n + n) [] [g]

/-- The defect class that explains a difference between the incremental and the fresh view, if any.
`dl` = differing lines as `(kind, side, file)`, kind `D` diagnostics / `T`,`M` tokens / `S` symbols,
side `true` = only the fresh server shows it. -/
def explain (tbl : List (Content × Info)) (files : List Path) (r : RSt) (lastReused lastFailed lastCancelled : Bool)
    (dl : List (Char × Bool × Path)) : String :=
  let n := files.length + 1
  let disk := diskOf r.diskT
  let typedGen := natOf r.typedGenT
  let gcGen := natOf r.gcGenT
  match r.view with
  | none => "no_committed_compilation"
  | some v =>
    if files.any (fun g => v.disk g != disk g) then
      if lastCancelled then "last_request_cancelled"
      else if lastFailed then "failed_compilation_keeps_old_view"
      else if lastReused then
        -- the programs cache is current (a version-less request compiled the present text before): the
        -- reuse is right, only the view was never refreshed
        if (r.progDisk.map fun d => files.all (fun g => d g == disk g)).getD false then
          "recompiled_without_refreshing_the_view"
        else "program_reused_after_uncommitted_edit"
      else "recompiled_without_refreshing_the_view"
    else if v.reused.any (fun (q, snap) => snap q != disk q) then "reused_typed_module_of_changed_file"
    else if v.reused.any (fun (q, snap) =>
        (readsOf tbl disk n q).any (fun x => snap x != disk x || (x != q && gcGen x > typedGen q)) ||
        -- the engines share types and declarations in both directions: a module that reads `q` and was
        -- garbage collected after `q` was typed takes entries away that `q` may point to
        files.any (fun x => x != q && gcGen x > typedGen q && (readsOf tbl disk n x).contains q)) then
      "reused_typed_module_of_importer"
    else
      let tokStale : Path → Bool := fun g =>
        match lookupA g r.tokT with
        | none => v.mods.contains g
        | some d => !(v.mods.contains g) || (readsOf tbl disk n g).any (fun x => d x != disk x)
      let reusedFiles := v.reused.map (·.1)
      if dl.all (fun (k, fresh, g) => (k == 'D' && fresh && reusedFiles.contains g) || (k != 'D' && tokStale g)) then
        if dl.any (fun (k, _, _) => k == 'D') then "diagnostics_of_reused_module_dropped" else "tokens_of_unmodified_file_not_rebuilt"
      else if !r.ungcT.isEmpty then "retyped_without_garbage_collection"
      else "unexplained"

/-- Would the compilation of request `fv` on the present state reuse a typed module that is stale
(own text, or a module it reads)? Used for a compilation that crashed. -/
def jobReusesStale (tbl : List (Content × Info)) (F : Nat) (root : Path) (files : List Path) (r : RSt) (fv : FV) : Bool :=
  let depsOf : Path → Content → List Path := fun _ c => (infoOf tbl c).deps
  let disk := diskOf r.diskT
  let c1 := parseTreeL depsOf disk fv F r.cacheT root
  let mods := progMods c1 root F
  mods.any fun q =>
    tyUpToDate F (ofList c1) fv q == some true &&
      match (lookupA q c1).bind (·.typed) with
      | some t =>
        let n := files.length + 1
        let gcd : Path → Bool := fun x => x != q && (natOf r.gcGenT x > natOf r.typedGenT q || fv x matches some (some _))
        (readsOf tbl disk n q).any (fun x => t.snap x != disk x || gcd x) ||
          files.any (fun x => gcd x && (readsOf tbl disk n x).contains q)
      | none => false

/-- Does the compilation of request `fv` on the present state type check a module again without it
having been garbage collected (or did an earlier committed one, with no collection of that module since)? -/
def jobRetypesWithoutGc (tbl : List (Content × Info)) (F : Nat) (root : Path) (r : RSt) (fv : FV) (modified : Option Path) : Bool :=
  let depsOf : Path → Content → List Path := fun _ c => (infoOf tbl c).deps
  let disk := diskOf r.diskT
  let c1 := parseTreeL depsOf disk fv F r.cacheT root
  let mods := progMods c1 root F
  !((r.ungcT.filter (fun q => modified != some q)) ++ retypedWithoutGc disk r.cacheT mods modified).isEmpty

end SwayVerif.Cache
