import SwayVerif.Model.Word
/-!
# Transcriptions of `sway-lib-std` numerics over M-Word (import-free)

`u128.sw` (the `U128` struct: two 64-bit limbs), `math.sw` (`Root`, `Power`, `Logarithm`,
`BinaryLogarithm`), `ops.sw` (narrow-integer `Add/Subtract/Multiply`, `wrapping_*`),
`primitive_conversions/*` (`try_as_*`, `TryFrom`).

Each definition follows the Sway source statement by statement; `fl : Flags` is the value of `$flag`
when the function is entered. Sway's `+ - * / %` on `u64`/`u256` are single ALU instructions
(`add/sub/mul/div/mod`, `wqop/wqml/wqdv/wqam`) and panic or wrap according to `fl`.
`while` loops carry a fuel argument (structural recursion); running out of fuel is the distinct
outcome `Res.fuel`, shown unreachable by the theorems in `Props/C27.lean`.

What is NOT modelled: gas, memory layout of the `U128` struct, the heap. What is *assumed* and only
tied by the correspondence runs: that the compiler lowers operators to the instructions named above.
-/
namespace SwayVerif.StdNum
open SwayVerif.Word

/-! ## std::flags, std::assert -/

def panicOnOverflowEnabled (fl : Flags) : Bool := !fl.wrapping
def panicOnUnsafeMathEnabled (fl : Flags) : Bool := !fl.unsafeMath
/-- `disable_panic_on_overflow()`: sets `F_WRAPPING`; callers restore the prior flags afterwards. -/
def disablePanicOnOverflow (fl : Flags) : Flags := { fl with wrapping := true }

/-- `FAILED_ASSERT_SIGNAL` -/
def FAILED_ASSERT : Nat := 0xffffffffffff0004
def assert (c : Bool) : Res Unit := if c then .ok () else .revert FAILED_ASSERT

/-! ## u64 operators (one ALU instruction each) -/

def u64Add (fl : Flags) (a b : Nat) : Res Nat := do let o ← Word.add fl a b; pure o.val
def u64Sub (fl : Flags) (a b : Nat) : Res Nat := do let o ← Word.sub fl a b; pure o.val
def u64Mul (fl : Flags) (a b : Nat) : Res Nat := do let o ← Word.mul fl a b; pure o.val
def u64Div (fl : Flags) (a b : Nat) : Res Nat := do let o ← Word.div fl a b; pure o.val
def u64Mod (fl : Flags) (a b : Nat) : Res Nat := do let o ← Word.mod fl a b; pure o.val

/-! ## ops.sw: `Add/Subtract/Multiply for u32|u16|u8` (`maxv` = `Self::max()` as u64) -/

/-- the common tail `if __gt(res_u64, MAX) { if panic_on_overflow_enabled() { __revert(0) } else { res % (MAX+1) } } else { res }` -/
def narrowFinish (fl : Flags) (maxv r : Nat) : Res Nat :=
  if Word.gt r maxv = 1 then
    if panicOnOverflowEnabled fl then .revert 0
    else do
      let m ← u64Add fl maxv 1
      u64Mod fl r m
  else pure r

def narrowAdd (fl : Flags) (maxv a b : Nat) : Res Nat := do let r ← u64Add fl a b; narrowFinish fl maxv r
def narrowSub (fl : Flags) (maxv a b : Nat) : Res Nat := do let r ← u64Sub fl a b; narrowFinish fl maxv r
def narrowMul (fl : Flags) (maxv a b : Nat) : Res Nat := do let r ← u64Mul fl a b; narrowFinish fl maxv r

/-! ## u256 operators -/

abbrev W256 : Nat := 2 ^ 256
def u256Add (fl : Flags) (a b : Nat) : Res Nat := do let o ← Word.wadd fl 256 a b; pure o.val
def u256Sub (fl : Flags) (a b : Nat) : Res Nat := do let o ← Word.wsub fl 256 a b; pure o.val
def u256Mul (fl : Flags) (a b : Nat) : Res Nat := do let o ← Word.wmul fl 256 a b; pure o.val
def u256Div (fl : Flags) (a b : Nat) : Res Nat := do let o ← Word.wdiv fl 256 a b; pure o.val
def u256Mod (fl : Flags) (a b : Nat) : Res Nat := do let o ← Word.wmod fl 256 a b; pure o.val

/-! ## u128.sw -/

structure U128 where
  upper : Nat
  lower : Nat
  deriving DecidableEq, Repr

namespace U128
def toNat (x : U128) : Nat := x.upper * W64 + x.lower
def ofNat (n : Nat) : U128 := ⟨n / W64 % W64, n % W64⟩
def zero : U128 := ⟨0, 0⟩
/-- both limbs are 64-bit words -/
def wf (x : U128) : Prop := x.upper < W64 ∧ x.lower < W64
instance (x : U128) : Decidable x.wf := by unfold wf; exact inferInstance
end U128

/-- `u64::overflowing_add`: `add` executed with `F_WRAPPING` set, `$of` read in the same asm block. -/
def overflowingAdd (fl : Flags) (l r : Nat) : Res U128 := do
  let o ← Word.add (disablePanicOnOverflow fl) l r
  pure ⟨o.of, o.val⟩

/-- `u64::overflowing_mul` -/
def overflowingMul (fl : Flags) (l r : Nat) : Res U128 := do
  let o ← Word.mul (disablePanicOnOverflow fl) l r
  pure ⟨o.of, o.val⟩

namespace U128

def eq (a b : U128) : Bool := a.lower == b.lower && a.upper == b.upper
def gt (a b : U128) : Bool := decide (b.upper < a.upper) || (a.upper == b.upper && decide (b.lower < a.lower))
def lt (a b : U128) : Bool := decide (a.upper < b.upper) || (a.upper == b.upper && decide (a.lower < b.lower))
/-- `OrdEq::ge` default: `self.gt(other) || self.eq(other)` -/
def ge (a b : U128) : Bool := gt a b || eq a b

/-- `impl Shift for U128 :: lsh` -/
def lsh (fl : Flags) (x : U128) (rhs : Nat) : Res U128 :=
  if 128 ≤ rhs then pure zero
  else if 64 ≤ rhs then do
    let s ← u64Sub fl rhs 64
    pure ⟨Word.sll x.lower s, 0⟩
  else do
    let d ← u64Sub fl 64 rhs
    let highestLowerBits := Word.srl x.lower d
    let upper ← u64Add fl (Word.sll x.upper rhs) highestLowerBits
    let lower := Word.sll x.lower rhs
    pure ⟨upper, lower⟩

/-- `impl Shift for U128 :: rsh` -/
def rsh (fl : Flags) (x : U128) (rhs : Nat) : Res U128 :=
  if 128 ≤ rhs then pure zero
  else if 64 ≤ rhs then do
    let s ← u64Sub fl rhs 64
    pure ⟨0, Word.srl x.upper s⟩
  else do
    let d ← u64Sub fl 64 rhs
    let lowestUpperBits := Word.sll x.upper d
    let upper := Word.srl x.upper rhs
    let lower ← u64Add fl (Word.srl x.lower rhs) lowestUpperBits
    pure ⟨upper, lower⟩

/-- `impl Add for U128` -/
def add (fl : Flags) (self other : U128) : Res U128 := do
  let upper128 ← overflowingAdd fl self.upper other.upper
  if panicOnOverflowEnabled fl then assert (upper128.upper == 0) else pure ()
  let lower128 ← overflowingAdd fl self.lower other.lower
  let upper128 ← if 0 < lower128.upper then overflowingAdd fl upper128.lower lower128.upper else pure upper128
  if panicOnOverflowEnabled fl then assert (upper128.upper == 0) else pure ()
  pure ⟨upper128.lower, lower128.lower⟩

/-- `impl Subtract for U128` -/
def sub (fl : Flags) (self other : U128) : Res U128 := do
  if panicOnOverflowEnabled fl then assert (!(lt self other)) else pure ()
  let upper ← u64Sub fl self.upper other.upper
  if self.lower < other.lower then do
    let t ← u64Sub fl other.lower self.lower
    let t ← u64Sub fl t 1
    let lower ← u64Sub fl MAX64 t
    let upper ← u64Sub fl upper 1
    pure ⟨upper, lower⟩
  else do
    let lower ← u64Sub fl self.lower other.lower
    pure ⟨upper, lower⟩

/-- `impl Multiply for U128` -/
def mul (fl : Flags) (self other : U128) : Res U128 := do
  if panicOnUnsafeMathEnabled fl then assert (self.upper == 0 || other.upper == 0) else pure ()
  let result ← overflowingMul fl self.lower other.lower
  if self.upper == 0 then do
    let t ← u64Mul fl self.lower other.upper
    let u ← u64Add fl result.upper t
    pure ⟨u, result.lower⟩
  else if other.upper == 0 then do
    let t ← u64Mul fl self.upper other.lower
    let u ← u64Add fl result.upper t
    pure ⟨u, result.lower⟩
  else pure result

/-- one iteration of the `while true` body of `divide` up to the `if i == 0 { break }` -/
def divStep (fl : Flags) (self divisor : U128) (i : Nat) (q r : U128) : Res (U128 × U128) := do
  let q ← lsh fl q 1
  let r ← lsh fl r 1
  let sh ← rsh fl self i
  let r : U128 := ⟨r.upper, Word.or r.lower (Word.and sh.lower 1)⟩
  if ge r divisor then do
    let r ← sub fl r divisor
    pure (⟨q.upper, Word.or q.lower 1⟩, r)
  else pure (q, r)

/-- the loop of `divide`, `i` counting down from 127 to 0 -/
def divLoop (fl : Flags) (self divisor : U128) : Nat → U128 → U128 → Res U128
  | 0, q, r => do
    let (q, _) ← divStep fl self divisor 0 q r
    pure q
  | i + 1, q, r => do
    let (q, r) ← divStep fl self divisor (i + 1) q r
    divLoop fl self divisor i q r

/-- `impl Divide for U128` -/
def div (fl : Flags) (self divisor : U128) : Res U128 :=
  if panicOnUnsafeMathEnabled fl ∧ eq divisor zero then .revert FAILED_ASSERT
  else if ¬ panicOnUnsafeMathEnabled fl ∧ eq divisor zero then pure zero
  else if self.upper == 0 && divisor.upper == 0 then do
    let q ← u64Div fl self.lower divisor.lower
    pure ⟨0, q⟩
  else divLoop fl self divisor 127 zero zero

/-- `impl Mod for U128` -/
def mod (fl : Flags) (self other : U128) : Res U128 := do
  if panicOnUnsafeMathEnabled fl then assert (!(eq other zero)) else pure ()
  let quotient ← div fl self other
  let product ← mul fl quotient other
  sub fl self product

/-- `fn u64_checked_add`: the `add` runs under the *current* flags, so with panic-on-overflow enabled an
overflow is a VM panic, not `None`. -/
def u64CheckedAdd (fl : Flags) (a b : Nat) : Res (Option Nat) := do
  let o ← Word.add fl a b
  if o.of ≠ 0 then pure none
  else do
    let s ← u64Add fl a b
    pure (some s)

/-- `fn u128_checked_mul` -/
def checkedMul (fl : Flags) (a b : U128) : Res (Option U128) :=
  if a.upper ≠ 0 ∧ b.upper ≠ 0 then pure none
  else do
    let result ← overflowingMul fl a.lower b.lower
    if a.upper == 0 then do
      let cross ← overflowingMul fl a.lower b.upper
      if cross.upper ≠ 0 then pure none
      else match ← u64CheckedAdd fl result.upper cross.lower with
        | none => pure none
        | some v => pure (some ⟨v, result.lower⟩)
    else if b.upper == 0 then do
      let cross ← overflowingMul fl a.upper b.lower
      if cross.upper ≠ 0 then pure none
      else match ← u64CheckedAdd fl result.upper cross.lower with
        | none => pure none
        | some v => pure (some ⟨v, result.lower⟩)
    else pure (some result)

/-- the `None =>` arms of `pow`: `revert(0)` or `return U128::zero()` -/
def powOverflow (fl : Flags) : Res U128 :=
  if panicOnOverflowEnabled fl then .revert 0 else pure zero

/-- second loop of `pow`: `while exp > 1 { exp >>= 1; value = value*value; if exp & 1 == 1 { acc = acc*value } }` -/
def powLoop2 (fl : Flags) : Nat → U128 → U128 → Nat → Res U128
  | 0, _, _, _ => .fuel
  | f + 1, value, acc, exp =>
    if 1 < exp then
      let exp := Word.srl exp 1
      match checkedMul fl value value with
      | .ok (some v) =>
        if Word.and exp 1 = 1 then
          match checkedMul fl acc v with
          | .ok (some a) => powLoop2 fl f v a exp
          | .ok none => powOverflow fl
          | .revert c => .revert c
          | .panic p => .panic p
          | .fuel => .fuel
        else powLoop2 fl f v acc exp
      | .ok none => powOverflow fl
      | .revert c => .revert c
      | .panic p => .panic p
      | .fuel => .fuel
    else pure acc

/-- first loop of `pow` (`while exp & 1 == 0`) followed by the rest of the function -/
def powLoop1 (fl : Flags) : Nat → U128 → Nat → Res U128
  | 0, _, _ => .fuel
  | f + 1, value, exp =>
    if Word.and exp 1 = 0 then
      match checkedMul fl value value with
      | .ok (some v) => powLoop1 fl f v (Word.srl exp 1)
      | .ok none => powOverflow fl
      | .revert c => .revert c
      | .panic p => .panic p
      | .fuel => .fuel
    else if exp = 1 then pure value
    else powLoop2 fl 40 value value exp

/-- `impl Power for U128` (`exponent : u32`) -/
def pow (fl : Flags) (self : U128) (exponent : Nat) : Res U128 :=
  if exponent = 0 then pure ⟨0, 1⟩
  else if exponent = 1 then pure ⟨self.upper, self.lower⟩
  else powLoop1 fl 40 self exponent

/-- `while x1 < x0 { x0 = x1; x1 = (x0 + self / x0) >> 1; }` -/
def sqrtLoop (fl : Flags) (self : U128) : Nat → U128 → U128 → Res U128
  | 0, _, _ => .fuel
  | f + 1, x0, x1 =>
    if lt x1 x0 then do
      let x0 := x1
      let q ← div fl self x0
      let s ← add fl x0 q
      let x1 ← rsh fl s 1
      sqrtLoop fl self f x0 x1
    else pure x0

/-- `impl Root for U128` -/
def sqrt (fl : Flags) (self : U128) : Res U128 := do
  if panicOnUnsafeMathEnabled fl then assert (!(eq self zero)) else pure ()
  let x0 ← rsh fl self 1
  if !(eq x0 zero) then do
    let q ← div fl self x0
    let s ← add fl x0 q
    let x1 ← rsh fl s 1
    sqrtLoop fl self 200 x0 x1
  else pure self

/-- `u64::log(self, base)` = `mlog` -/
def u64Log (fl : Flags) (x base : Nat) : Res Nat := do let o ← Word.mlog fl x base; pure o.val

/-- `impl BinaryLogarithm for U128` -/
def log2 (fl : Flags) (self : U128) : Res U128 :=
  if panicOnUnsafeMathEnabled fl ∧ eq self zero then .revert FAILED_ASSERT
  else if ¬ panicOnUnsafeMathEnabled fl ∧ eq self zero then pure zero
  else if self.upper ≠ 0 then do
    let l ← u64Log fl self.upper 2
    let s ← u64Add fl l 64
    pure ⟨0, s⟩
  else if self.lower ≠ 0 then do
    let l ← u64Log fl self.lower 2
    pure ⟨0, l⟩
  else pure zero

/-- `while (pow_res > self) || pow_res.is_zero() { result -= 1; pow_res = base.pow(result) }`
(panic on overflow is disabled in `log`, so `pow` returns zero on overflow; `$of` is not consulted:
it is cleared again by the ALU instructions executed before `pow` returns) -/
def logLoop (fl : Flags) (self base : U128) : Nat → U128 → U128 → Res U128
  | 0, _, _ => .fuel
  | f + 1, result, powRes =>
    if gt powRes self || eq powRes zero then do
      let result ← sub fl result ⟨0, 1⟩
      let powRes ← pow fl base result.lower
      logLoop fl self base f result powRes
    else pure result

/-- `impl Logarithm for U128`; `fl0` = flags on entry, the body runs with `F_WRAPPING` set. -/
def log (fl0 : Flags) (self base : U128) : Res U128 :=
  let fl := disablePanicOnOverflow fl0
  if panicOnUnsafeMathEnabled fl ∧ ¬ ge base ⟨0, 2⟩ then .revert FAILED_ASSERT
  else if panicOnUnsafeMathEnabled fl ∧ eq self zero then .revert FAILED_ASSERT
  else if ¬ panicOnUnsafeMathEnabled fl ∧ (lt base ⟨0, 2⟩ || eq self zero) then pure zero
  else if lt self base then pure zero
  else do
    let selfLog2 ← log2 fl self
    let baseLog2 ← log2 fl base
    let result ← div fl selfLog2 baseLog2
    let powRes ← pow fl base result.lower
    logLoop fl self base 200 result powRes

end U128

/-! ## math.sw -/

/-- `u64::sqrt` etc.: `mroo r3 r1 2` -/
def u64Sqrt (fl : Flags) (x : Nat) : Res Nat := do let o ← Word.mroo fl x 2; pure o.val

/-- `u64::pow`: `exp r3 r1 r2` -/
def u64Pow (fl : Flags) (x e : Nat) : Res Nat := do let o ← Word.exp fl x e; pure o.val

/-- `impl Power for u32|u16|u8` -/
def narrowPow (fl : Flags) (maxv x e : Nat) : Res Nat := do
  let res ← u64Pow fl x e
  if maxv < res then
    if panicOnOverflowEnabled fl then .revert 0 else pure 0
  else pure res

/-- `while x1 < x0 { x0 = x1; x1 = (x0 + self / x0) >> 1; }` of `impl Root for u256` -/
def u256SqrtLoop (fl : Flags) (self : Nat) : Nat → Nat → Nat → Res Nat
  | 0, _, _ => .fuel
  | f + 1, x0, x1 =>
    if x1 < x0 then do
      let x0 := x1
      let q ← u256Div fl self x0
      let s ← u256Add fl x0 q
      u256SqrtLoop fl self f x0 (Word.wshr 256 s 1)
    else pure x0

/-- fuel given to the Newton loop; `sqrt_floor` shows 257 iterations always suffice -/
def SQRT_FUEL : Nat := 300

/-- `impl Root for u256` -/
def u256Sqrt (fl : Flags) (self : Nat) : Res Nat :=
  let x0 := Word.wshr 256 self 1
  if x0 = 0 then pure self
  else do
    let q ← u256Div fl self x0
    let s ← u256Add fl x0 q
    u256SqrtLoop fl self SQRT_FUEL x0 (Word.wshr 256 s 1)

/-- `fn u256_checked_mul`: `wqml` under the current flags; `$of` read in the same asm block. -/
def u256CheckedMul (fl : Flags) (a b : Nat) : Res (Option Nat) := do
  let o ← Word.wmul fl 256 a b
  if o.of ≠ 0 then pure none else pure (some o.val)

/-- `while exp > 1 { if exp & 1 == 1 { acc *= base }; exp >>= 1; base *= base }` then `acc * base` -/
def u256PowLoop (fl : Flags) : Nat → Nat → Nat → Nat → Res Nat
  | 0, _, _, _ => .fuel
  | f + 1, exp, base, acc =>
    if 1 < exp then
      if Word.and exp 1 = 1 then
        match u256CheckedMul fl acc base with
        | .ok (some a) =>
          match u256CheckedMul fl base base with
          | .ok (some b) => u256PowLoop fl f (Word.srl exp 1) b a
          | .ok none => pure 0
          | .revert c => .revert c
          | .panic p => .panic p
          | .fuel => .fuel
        | .ok none => pure 0
        | .revert c => .revert c
        | .panic p => .panic p
        | .fuel => .fuel
      else
        match u256CheckedMul fl base base with
        | .ok (some b) => u256PowLoop fl f (Word.srl exp 1) b acc
        | .ok none => pure 0
        | .revert c => .revert c
        | .panic p => .panic p
        | .fuel => .fuel
    else
      match u256CheckedMul fl acc base with
      | .ok (some r) => pure r
      | .ok none => pure 0
      | .revert c => .revert c
      | .panic p => .panic p
      | .fuel => .fuel

/-- `impl Power for u256` (`exponent : u32`) -/
def u256Pow (fl : Flags) (self exponent : Nat) : Res Nat :=
  if exponent = 0 then pure 1 else u256PowLoop fl 33 exponent self 1

/-- `impl BinaryLogarithm for u256` -/
def u256Log2 (fl : Flags) (self : Nat) : Res Nat :=
  if panicOnUnsafeMathEnabled fl ∧ self = 0 then .revert FAILED_ASSERT
  else
    let a := self / 2 ^ 192
    let b := self / 2 ^ 128 % W64
    let c := self / 2 ^ 64 % W64
    let d := self % W64
    if a ≠ 0 then do let l ← U128.u64Log fl a 2; u256Add fl l 0xc0
    else if b ≠ 0 then do let l ← U128.u64Log fl b 2; u256Add fl l 0x80
    else if c ≠ 0 then do let l ← U128.u64Log fl c 2; u256Add fl l 0x40
    else if d ≠ 0 then U128.u64Log fl d 2
    else pure self

/-- `while (pow_res > self) || (pow_res == 0) { result -= 1; pow_res = base.pow(result) }` -/
def u256LogLoop (fl : Flags) (self base : Nat) : Nat → Nat → Nat → Res Nat
  | 0, _, _ => .fuel
  | f + 1, result, powRes =>
    if self < powRes ∨ powRes = 0 then do
      let result ← u256Sub fl result 1
      let powRes ← u256Pow fl base (result % W64)
      u256LogLoop fl self base f result powRes
    else pure result

/-- `impl Logarithm for u256` -/
def u256Log (fl0 : Flags) (self base : Nat) : Res Nat :=
  let fl := disablePanicOnOverflow fl0
  if panicOnUnsafeMathEnabled fl ∧ base < 2 then .revert FAILED_ASSERT
  else if panicOnUnsafeMathEnabled fl ∧ self = 0 then .revert FAILED_ASSERT
  else if ¬ panicOnUnsafeMathEnabled fl ∧ (base < 2 ∨ self = 0) then pure 0
  else if self < base then pure 0
  else do
    let selfLog2 ← u256Log2 fl self
    let baseLog2 ← u256Log2 fl base
    let result ← u256Div fl selfLog2 baseLog2
    let powRes ← u256Pow fl base (result % W64)
    u256LogLoop fl self base 300 result powRes

/-! ## primitive_conversions: `try_as_*` / `TryFrom` -/

/-- `if self <= MAX { Some(self) } else { None }` -/
def tryNarrow (maxv x : Nat) : Option Nat := if x ≤ maxv then some x else none

/-- `TryFrom<u256>`: all but the lowest limb must be zero, the lowest at most `maxv` -/
def tryFromU256 (maxv x : Nat) : Option Nat :=
  let p0 := x / 2 ^ 192
  let p1 := x / 2 ^ 128 % W64
  let p2 := x / 2 ^ 64 % W64
  let p3 := x % W64
  if p0 ≠ 0 ∨ p1 ≠ 0 ∨ p2 ≠ 0 ∨ maxv < p3 then none else some p3

/-- `TryFrom<U128>` -/
def tryFromU128 (maxv : Nat) (x : U128) : Option Nat :=
  if x.upper = 0 then tryNarrow maxv x.lower else none

end SwayVerif.StdNum
