import SwayVerif.Model.RustInt
/-!
# Compile-time folding vs. run-time evaluation (import-free model for C06)

* `Arm` — one arm of the `match (op, …)` tables of `combine_binary_op`, `combine_unary_op`,
  `combine_cmp` (sway-ir `optimize/constants.rs`, source `irFold`) and of `const_eval_intrinsic`
  (sway-core `ir_generation/const_eval.rs`, source `constEval`): operator, operand kinds, and the Rust
  method it calls. The concrete list is `Generated/FoldTable.lean`, re-extracted from /repo on every
  run by `gen/fold_table.py`. `U256` methods are resolved to the *body shape* found in
  `sway-types/src/u256.rs`.
* `ctEval arm ty a b` — what that arm computes on payloads `a`, `b`.
* `Lower` — which instruction `fuel_asm_builder.rs` emits for the IR operator (generated as well);
  `rtEval lowering op ty a b` — what the VM does with it.
* `Simp` — the "useless binary op" rewrites of `remove_useless_binary_op`.
-/
namespace SwayVerif.ConstFold
open SwayVerif.RustInt

inductive Src where
  | irFold | constEval
  deriving DecidableEq, Repr

inductive Op where
  | add | sub | mul | div | mod | and | or | xor | lsh | rsh | not | eq | lt | gt
  deriving DecidableEq, Repr

/-- `ConstantValue` variant matched by an arm (`any`: the arm does not look at the variant). -/
inductive Kind where
  | uint | u256 | b256 | any
  deriving DecidableEq, Repr

/-- IR types of operands. -/
inductive Ty where
  | u8 | u16 | u32 | u64 | u256 | b256 | bool
  deriving DecidableEq, Repr

def Ty.kind : Ty → Kind
  | .u256 => .u256
  | .b256 => .b256
  | .bool => .any
  | _ => .uint

def Ty.isWide : Ty → Bool
  | .u256 | .b256 => true
  | _ => false

/-- `Type::get_uint_width` -/
def Ty.uintWidth : Ty → Option Nat
  | .u8 => some 8 | .u16 => some 16 | .u32 => some 32 | .u64 => some 64 | .u256 => some 256
  | _ => none

/-- Payload bound of a *constant* of that type: `ConstantValue::Uint` holds a `u64` whatever the
declared width (the folder never range-checks, by design), `U256`/`B256` hold 32 bytes. -/
def Ty.bound : Ty → Nat
  | .u256 | .b256 => p256
  | .bool => 2
  | _ => p64

def Ty.maxVal : Ty → Nat
  | .u8 => 2 ^ 8 - 1 | .u16 => 2 ^ 16 - 1 | .u32 => 2 ^ 32 - 1 | .u64 => p64 - 1
  | .u256 | .b256 => p256 - 1 | .bool => 1

def Kind.matches (k : Kind) (t : Ty) : Bool :=
  match k with
  | .any => true
  | k => decide (k = t.kind)

inductive U64Method where
  | checkedAdd | checkedSub | checkedMul | checkedDiv | checkedRem
  | wrappingAdd | wrappingSub | wrappingMul
  | saturatingAdd | saturatingSub | saturatingMul
  | bitAnd | bitOr | bitXor
  | checkedShl | checkedShr
  deriving DecidableEq, Repr

inductive BigOp where
  | add | sub | mul | div | rem | and | or | xor | shl | shr
  deriving DecidableEq, Repr

/-- Shape of a method body in `sway-types/src/u256.rs` (`s` = `self.0`, `o` = `other.0`/`rhs.0`). -/
inductive U256Body where
  /-- `let r = s OP o; (r.bits() <= bound).then_some(Self(r))` -/
  | bitsLe (op : BigOp) (bound : Nat)
  /-- `(s >= o).then(|| Self(s - o))` -/
  | geThenSub
  /-- `o.is_zero().not().then(|| Self(s OP o))` -/
  | nonZeroThen (op : BigOp)
  /-- `if o == BigUint::ZERO { None } else { Some(U256(s OP o)) }` -/
  | ifZeroNoneElse (op : BigOp)
  /-- `U256(s OP o)` — infallible call (`/`, `%` panic on a zero divisor) -/
  | plain (op : BigOp)
  /-- `if *other >= guard && !s.is_zero() { return None; } let r = s << other; (r.bits() <= bound).then_some(Self(r))` -/
  | shlGuardedBitsLe (guard bound : Nat)
  /-- `to_be_bytes`, flip every byte, `from_bytes_be` -/
  | notBytes32
  | unknown (text : String)
  deriving DecidableEq, Repr

inductive Method where
  /-- `l.m(*r).map(Uint)` or `Some(Uint(l.m(*r)))` / `Some(Uint(l OP r))` on the `u64` payloads -/
  | u64 (m : U64Method)
  /-- `u32::try_from(*r).ok().and_then(|r| l.m(r))` -/
  | u32TryFromThen (m : U64Method)
  /-- a `U256`/`B256` method, resolved to its body -/
  | big (body : U256Body)
  /-- `(!v) & max` with `max` selected by `get_uint_width` ∈ {8,16,32,64}, other widths: `None` -/
  | notMaskWidth
  /-- `!(n as uW) as u64` selected by `get_uint_width` ∈ {8,16,32,64} -/
  | notCastWidth
  /-- `val1 == val2` on unique'd `Constant` handles: same type and same value -/
  | handleEq
  | gtOp
  | ltOp
  /-- the `_ => unreachable!(…)` / `_ => panic!(…)` fall-through of a `match` in `const_eval_intrinsic` /
  `combine_cmp`: operands of a kind no earlier arm matched crash the compiler -/
  | fallbackCrash
  | unknown (text : String)
  deriving DecidableEq, Repr

structure Arm where
  src : Src
  op : Op
  lkind : Kind
  rkind : Kind
  method : Method
  deriving DecidableEq, Repr

def bigOp (op : BigOp) (a b : Nat) : Ct :=
  match op with
  | .add => .fold (a + b)
  | .sub => if b ≤ a then .fold (a - b) else .crash      -- BigUint subtraction underflow panics
  | .mul => .fold (a * b)
  | .div => if b = 0 then .crash else .fold (a / b)
  | .rem => if b = 0 then .crash else .fold (a % b)
  | .and => .fold (a &&& b)
  | .or => .fold (a ||| b)
  | .xor => .fold (a ^^^ b)
  | .shl => .fold (a <<< b)
  | .shr => .fold (a >>> b)

/-- `then_some`/`then`: keep the value iff the test holds; a crash while computing stays a crash. -/
def ctFilter (r : Ct) (p : Nat → Bool) : Ct :=
  match r with
  | .fold v => if p v then .fold v else .decline
  | r => r

def evalBody (body : U256Body) (a b : Nat) : Ct :=
  match body with
  | .bitsLe op bound =>
      -- Evaluation shortcut for the executable model only (the value is the same, `bitsLe_shl_shortcut`): a
      -- non-zero value shifted left by more than `bound` bits has more than `bound` bits, so the test fails;
      -- do not materialise it. What the Rust code pays for that shift is `Lemmas.shlWork`.
      if op = .shl ∧ a ≠ 0 ∧ b > bound then .decline
      else ctFilter (bigOp op a b) (fun r => decide (bits r ≤ bound))
  | .geThenSub => if a ≥ b then bigOp .sub a b else .decline
  | .nonZeroThen op => if b = 0 then .decline else bigOp op a b
  | .ifZeroNoneElse op => if b = 0 then .decline else bigOp op a b
  | .plain op => bigOp op a b
  | .shlGuardedBitsLe guard bound =>
      if b ≥ guard ∧ a ≠ 0 then .decline
      else ctFilter (bigOp .shl a b) (fun r => decide (bits r ≤ bound))
  | .notBytes32 => .fold (not256 a)
  | .unknown _ => .fold 0

def evalU64 (m : U64Method) (a b : Nat) : Ct :=
  match m with
  | .checkedAdd => .ofOption (checkedAdd a b)
  | .checkedSub => .ofOption (checkedSub a b)
  | .checkedMul => .ofOption (checkedMul a b)
  | .checkedDiv => .ofOption (checkedDiv a b)
  | .checkedRem => .ofOption (checkedRem a b)
  | .wrappingAdd => .fold (wrappingAdd a b)
  | .wrappingSub => .fold (wrappingSub a b)
  | .wrappingMul => .fold (wrappingMul a b)
  | .saturatingAdd => .fold (saturatingAdd a b)
  | .saturatingSub => .fold (saturatingSub a b)
  | .saturatingMul => .fold (saturatingMul a b)
  | .bitAnd => .fold (a &&& b)
  | .bitOr => .fold (a ||| b)
  | .bitXor => .fold (a ^^^ b)
  | .checkedShl => .ofOption (checkedShl a b)
  | .checkedShr => .ofOption (checkedShr a b)

/-- Width mask used by the `Not` arms; `none` when the arm declines (`_ => return None`). -/
def notWidthMax (ty : Ty) : Option Nat :=
  match ty.uintWidth with
  | some 8 => some (2 ^ 8 - 1)
  | some 16 => some (2 ^ 16 - 1)
  | some 32 => some (2 ^ 32 - 1)
  | some 64 => some (p64 - 1)
  | _ => none

/-- What the arm computes at compile time on payloads `a`, `b` of operands of IR type `ty`
(`b` is ignored by unary arms; shift amounts are `u64` payloads). An unrecognised arm yields a value
that no soundness lemma covers. -/
def ctEval (arm : Arm) (ty : Ty) (a b : Nat) : Ct :=
  match arm.method with
  | .u64 m => evalU64 m a b
  | .u32TryFromThen m =>
      match u32TryFrom b with
      | some r => evalU64 m a r
      | none => .decline
  | .big body => evalBody body a b
  | .notMaskWidth =>
      match notWidthMax ty with
      | some mx => .fold (not64 a &&& mx)
      | none => .decline
  | .notCastWidth =>
      match notWidthMax ty with
      | some mx => .fold (mx - a % (mx + 1))
      -- `_ => unreachable!("Invalid unsigned integer width")`
      | none => .crash
  | .handleEq => .fold (b2n (decide (a = b)))
  | .gtOp => .fold (b2n (decide (a > b)))
  | .ltOp => .fold (b2n (decide (a < b)))
  | .fallbackCrash => .crash
  | .unknown _ => .fold 0

/-- Operand types the type checker (`semantic_analysis/.../intrinsic_function.rs`: `type_check_arith_binary_op`,
`type_check_bitwise_binary_op`, `type_check_shift_binary_op`, `type_check_not`, `type_check_cmp`) admits for
the intrinsic behind each operator. -/
def wellTyped (op : Op) (ty : Ty) : Bool :=
  match op with
  | .add | .sub | .mul | .div | .mod => ty != .b256 && ty != .bool
  | .and | .or | .xor | .lsh | .rsh | .not | .gt | .lt => ty != .bool
  | .eq => true

/-- First arm of the table (in source order, like the Rust `match`) for this operator and these
operand types. No arm = the `_ => None` fall-through. -/
def findArm (table : List Arm) (src : Src) (op : Op) (lty rty : Ty) : Option Arm :=
  table.find? fun arm => arm.src == src && arm.op == op && arm.lkind.matches lty && arm.rkind.matches rty

def ctFold (table : List Arm) (src : Src) (op : Op) (lty rty : Ty) (a b : Nat) : Ct :=
  match findArm table src op lty rty with
  | some arm => ctEval arm lty a b
  | none => .decline

/-! ## Run-time side -/

/-- One arm of `compile_binary_op` / `compile_wide_binary_op` / `compile_wide_modular_op` /
`compile_unary_op` / `compile_wide_unary_op` / `compile_cmp` / `compile_wide_cmp_op`. -/
structure Lower where
  op : Op
  wide : Bool
  instr : Instr
  deriving DecidableEq, Repr

def findLower (low : List Lower) (op : Op) (wide : Bool) : Option Instr :=
  (low.find? fun l => l.op == op && l.wide == wide).map (·.instr)

/-- The right operand is a 64-bit word whatever the left type: shift amounts (`u64`), and the unused
right operand of the unary `not` (the backend passes the `$zero` register). -/
def Op.rhsIsWord : Op → Bool
  | .lsh | .rsh | .not => true
  | _ => false

/-- IR type of the right operand. -/
def rhsTy (op : Op) (lty : Ty) : Ty := if op.rhsIsWord then .u64 else lty

/-- The VM's result for the instruction the backend emits for IR `op` on operands of type `ty`
(registers / memory hold `a`, `b`). No lowering arm: the backend hits `todo!()`; `.panic`. -/
def rtEval (low : List Lower) (op : Op) (ty : Ty) (a b : Nat) : Outcome :=
  match findLower low op ty.isWide with
  | some i => vmExec i (rhsTy op ty).isWide a b
  | none => .panic

/-- Sway-level `!x` on `u8/u16/u32` as `sway-lib-std/src/ops.sw` writes it: `__and(__not(x), max)`. -/
def rtNotStd (low : List Lower) (ty : Ty) (a : Nat) : Outcome :=
  match rtEval low .not ty a 0 with
  | .ok v => if ty.isWide then .ok v else rtEval low .and ty v ty.maxVal
  | o => o

/-- Sway-level `a OP b` (`OP ∈ + - *`) on `u8/u16/u32` as `ops.sw` writes it (overflow panics enabled):
the `u64` op, then `if __gt(res, max) { __revert(0) }`. -/
def rtNarrowArith (low : List Lower) (op : Op) (ty : Ty) (a b : Nat) : Outcome :=
  match rtEval low op .u64 a b with
  | .ok r =>
    match rtEval low .gt .u64 r ty.maxVal with
    | .ok c => if c = 0 then .ok r else .revert
    | o => o
  | o => o

/-- `const_eval` interpreting the same `ops.sw` body: `__revert` is not const-evaluable. -/
def ctNarrowArith (table : List Arm) (op : Op) (ty : Ty) (a b : Nat) : Ct :=
  match ctFold table .constEval op .u64 .u64 a b with
  | .fold r =>
    match ctFold table .constEval .gt .u64 .u64 r ty.maxVal with
    | .fold c => if c = 0 then .fold r else .decline
    | o => o
  | o => o

/-! ## "Useless binary op" rewrites -/

/-- `(op, Some(Uint(c)), _) => arg2` is `⟨op, true, c, false⟩`: constant on the left, the result is the
right operand. -/
structure Simp where
  op : Op
  constOnLeft : Bool
  c : Nat
  resultIsLeft : Bool
  deriving DecidableEq, Repr

/-- Run-time value of the un-simplified instruction with the non-constant operand `x`. -/
def simpRt (low : List Lower) (s : Simp) (x : Nat) : Outcome :=
  if s.constOnLeft then rtEval low s.op .u64 s.c x else rtEval low s.op .u64 x s.c

/-- Value the rewrite substitutes. -/
def simpCt (s : Simp) (x : Nat) : Nat :=
  if s.constOnLeft = s.resultIsLeft then s.c else x

/-! ## The property's predicate on implementation results -/

/-- C06 on one operand tuple: if the compiler produced a value, the VM produces the same value;
a crash of the compile-time evaluator is a violation as well (it neither folds nor declines). -/
def propHolds (ct : Ct) (rt : Outcome) : Bool :=
  match ct with
  | .fold v => decide (rt = .ok v)
  | .decline => true
  | .crash => false

end SwayVerif.ConstFold
