import SwayVerif.Model.TestRun
import SwayVerif.Lemmas.TestRun
/-!
# C29 — Unit tests run isolated and report exactly their outcome

Property theorems only; helper lemmas live in `SwayVerif/Lemmas/TestRun.lean`.
Model: `SwayVerif/Model/TestRun.lean` (`TestResult::passed`, `TestFilter::filter`,
`PackageTests::run_tests`, `TestExecutor::{build,execute}` of forc-test).

HONESTY NOTE. The model is THIN: a test is a pure function of the storage value it receives and
`runAll` hands every test the same setup storage (the real code re-deploys and clones per test and
gives every test its own `Interpreter`). So `C29_isolation`, `C29_permutation`, `C29_filter_independent`
hold *by construction of the model*; they say what the runner's structure guarantees, and
`C29_shared_not_isolated` shows the same statement is false for the one-line variant that threads a
single storage through the tests. That the REAL runner has the modelled structure is established
only by the correspondence check (generated suites run whole / filtered / permuted / alone on the
real FuelVM, see `harness/src/bin/sv_c29.rs`), not by these theorems. `passed_iff_expectation` and
`filter_sound` are about code that is transliterated arm by arm and are not thin.
-/
namespace SwayVerif.C29
open SwayVerif.TestRun

/-! ## "reports exactly its outcome" -/

/-- A test is reported as passed exactly when its execution matches the declared expectation:
no revert (plain `#[test]`), some revert (`should_revert`), revert with exactly the declared code
(`should_revert = "c"`). All conditions × all terminal states. -/
theorem passed_iff_expectation (c : Condition) (s : State) : passed c s = true ↔ Matches c s := by
  cases c with
  | shouldNotRevert => cases s <;> simp [passed, Matches]
  | shouldRevert code =>
    cases code with
    | none => cases s <;> simp [passed, Matches]
    | some d => simp [passed, Matches]

/-- The executable specification used by the driver on the real results is the same specification. -/
theorem expected_iff_expectation (c : Condition) (s : State) : expected c s = true ↔ Matches c s := by
  cases c with
  | shouldNotRevert => cases s <;> simp [expected, revertCode, Matches]
  | shouldRevert code =>
    cases code with
    | none => cases s <;> simp [expected, revertCode, Matches]
    | some d => cases s <;> simp [expected, revertCode, Matches]

theorem passed_eq_expected (c : Condition) (s : State) : passed c s = expected c s := by
  rw [Bool.eq_iff_iff, passed_iff_expectation, expected_iff_expectation]

/-- A VM-level error is reported as `Revert(0)`: such a test passes iff it is marked `should_revert`
without a code or with code 0, and fails a plain `#[test]`. -/
theorem vm_error_reported_as_revert0 (c : Condition) :
    passed c (stateOf .error) = true ↔ (c = .shouldRevert none ∨ c = .shouldRevert (some 0)) := by
  cases c with
  | shouldNotRevert => simp [passed, stateOf]
  | shouldRevert code =>
    cases code with
    | none => simp [passed, stateOf]
    | some d => simp [passed, stateOf, eq_comm]

/-! ## Isolation (thin — see the note above) -/

/-- Every reported result is the result of running that test on the initial setup: the `i`-th
result of a (filtered) run equals `run` of the `i`-th selected test — no other test, nor the
position, enters. -/
theorem C29_isolation {σ : Type} (s : Setup σ) (ts : List (TestDecl σ)) (f : Option Filter) (i : Nat)
    (h : i < (runAll s ts f).length) :
    (runAll s ts f)[i] =
      run s ((ts.filter fun t => selected f t.name)[i]'(by simpa [runAll] using h)) := by
  simp [runAll]

/-- … hence it equals the result of running that test ALONE (a suite consisting of it only, no filter). -/
theorem C29_result_alone {σ : Type} (s : Setup σ) (ts : List (TestDecl σ)) (f : Option Filter)
    (r : Result) (h : r ∈ runAll s ts f) :
    ∃ t ∈ ts, selected f t.name = true ∧ r = run s t ∧ runAll s [t] none = [r] := by
  simp only [runAll, List.mem_map, List.mem_filter] at h
  obtain ⟨t, ⟨ht, hs⟩, rfl⟩ := h
  exact ⟨t, ht, hs, rfl, by simp [runAll, selected]⟩

/-- `filter_sound`: exactly the matching tests are run, each once, in declaration order … -/
theorem filter_sound {σ : Type} (s : Setup σ) (ts : List (TestDecl σ)) (f : Option Filter) :
    (runAll s ts f).map (·.name) = (ts.map (·.name)).filter (selected f)
    ∧ ∀ r, r ∈ runAll s ts f ↔ ∃ t ∈ ts, selected f t.name = true ∧ r = run s t := by
  constructor
  · simp only [runAll, List.map_map, List.filter_map]
    rfl
  · intro r
    simp only [runAll, List.mem_map, List.mem_filter]
    constructor
    · rintro ⟨t, ⟨ht, hs⟩, rfl⟩; exact ⟨t, ht, hs, rfl⟩
    · rintro ⟨t, ht, hs, rfl⟩; exact ⟨t, ⟨ht, hs⟩, rfl⟩

/-- … where an exact filter matches the name itself and nothing else, -/
theorem filter_exact (p n : List Char) : selected (some ⟨p, true⟩) n = true ↔ n = p := by
  simp [selected, Filter.matches]

/-- … a non-exact filter matches precisely the names containing the phrase as a substring, -/
theorem filter_contains (p n : List Char) :
    selected (some ⟨p, false⟩) n = true ↔ ∃ a b, n = a ++ p ++ b := by
  simp [selected, Filter.matches, contains_iff]

/-- … and no filter selects everything. -/
theorem filter_none (n : List Char) : selected none n = true := rfl

/-- Results do not depend on the declaration order: permuting the suite permutes the results. -/
theorem C29_permutation {σ : Type} (s : Setup σ) (ts ts' : List (TestDecl σ)) (f : Option Filter)
    (h : ts.Perm ts') : (runAll s ts f).Perm (runAll s ts' f) :=
  (h.filter _).map _

/-- Results do not depend on the filter: a test selected by two filters (or by none) gets the same
result in both runs, namely `run s t`. -/
theorem C29_filter_independent {σ : Type} (s : Setup σ) (ts : List (TestDecl σ)) (f g : Option Filter)
    (t : TestDecl σ) (ht : t ∈ ts) (hf : selected f t.name = true) (hg : selected g t.name = true) :
    run s t ∈ runAll s ts f ∧ run s t ∈ runAll s ts g := by
  have := filter_sound s ts
  exact ⟨((this f).2 _).mpr ⟨t, ht, hf, rfl⟩, ((this g).2 _).mpr ⟨t, ht, hg, rfl⟩⟩

/-- Results do not depend on the OTHER tests of the suite: replace every other test by anything. -/
theorem C29_other_tests_irrelevant {σ : Type} (s : Setup σ) (pre pre' post post' : List (TestDecl σ))
    (t : TestDecl σ) :
    run s t ∈ runAll s (pre ++ t :: post) none ∧ run s t ∈ runAll s (pre' ++ t :: post') none := by
  simp [runAll, selected]

/-- The isolation statement is not vacuous: the runner that threads ONE storage through the tests
(instead of handing each test the setup storage) violates it — the second test sees the first
test's write. -/
theorem C29_shared_not_isolated :
    ∃ (ts : List (TestDecl Storage)) (st : Storage),
      runShared st ts ≠ runAll ⟨st⟩ ts none := by
  refine ⟨[opsTest ['a'] .shouldNotRevert [.write 0 5],
           opsTest ['b'] .shouldNotRevert [.expect 0 1, .read 0]], [1], ?_⟩
  decide

/-- Any schedule of the runner threads (rayon may interleave them arbitrarily): a thread that has been
given at least `ops.length + 1` steps has finished with exactly the outcome of running its test alone
on the setup storage, whatever the other threads did in between. -/
theorem C29_schedule (st : Storage) (tests : List (List Op)) (sched : List Nat) (i : Nat)
    (hi : i < tests.length) (hfair : tests[i].length + 1 ≤ sched.count i) :
    (runSched (tests.map fun ops => Thread.init ops st) sched)[i]? =
      some { ops := [], st := (exec tests[i] st []).2.2, logs := (exec tests[i] st []).2.1,
             res := some (exec tests[i] st []).1 } := by
  rw [runSched_get]
  simp only [List.getElem?_map, List.getElem?_eq_getElem hi, Option.map_some]
  obtain ⟨k, hk⟩ := Nat.exists_eq_add_of_le hfair
  rw [hk, Thread.steps_add]
  unfold Thread.init
  rw [Thread.steps_exec, Thread.steps_of_done _ _ rfl]

/-- The driver's per-run predicate accepts the model's own output (the predicate demands nothing the
model does not deliver). -/
theorem C29_prop_of_model (st : Storage) (decls : List (List Char × Condition × List Op))
    (f : Option Filter) (hnd : (decls.map (·.1)).Nodup) :
    suiteProp (decls.map fun d => (d.1, d.2.1)) f
      ((runAll ⟨st⟩ (decls.map fun d => opsTest d.1 d.2.1 d.2.2) f).map
        fun r => (r.name, r.cond, r.state, r.passed)) = true := by
  simp only [suiteProp, Bool.and_eq_true, decide_eq_true_eq, List.all_eq_true]
  constructor
  · have hsel : selectedSpec f = selected f := funext (selectedSpec_eq f)
    simp only [runAll, List.map_map, List.filter_map, hsel]
    rfl
  · intro r hr
    simp only [runAll, List.mem_map, List.mem_filter] at hr
    obtain ⟨_, ⟨t, ⟨⟨d, hd, rfl⟩, _⟩, rfl⟩, rfl⟩ := hr
    constructor
    · simp only [run, opsTest, beq_iff_eq]
      have hmem : (d.1, d.2.1) ∈ decls.map fun d => (d.1, d.2.1) := List.mem_map.mpr ⟨d, hd, rfl⟩
      have hnd' : ((decls.map fun d => (d.1, d.2.1)).map (·.1)).Nodup := by
        simpa [List.map_map, Function.comp_def] using hnd
      exact lookup_of_mem_nodup _ hnd' _ _ hmem
    · simp [Result.passed, run, opsTest, passed_eq_expected]

/-! ## Non-vacuity examples (one per hypothesis shape) -/

example : passed (.shouldRevert (some 7)) (.revert 7) = true ∧ passed (.shouldRevert (some 7)) (.revert 8) = false
    ∧ passed .shouldNotRevert .ret = true ∧ passed .shouldNotRevert (.revert 0) = false
    ∧ passed (.shouldRevert none) (.revert 3) = true ∧ passed (.shouldRevert none) .retData = false := by decide

example : selected (some ⟨['t', '1'], true⟩) ['t', '1', '0'] = false
    ∧ selected (some ⟨['t', '1'], false⟩) ['t', '1', '0'] = true
    ∧ selected (some ⟨['t', '1'], true⟩) ['t', '1'] = true := by decide

example : (runAll ⟨[1]⟩ [opsTest ['a'] .shouldNotRevert [.write 0 5],
    opsTest ['b'] .shouldNotRevert [.expect 0 1, .read 0]] none).map (·.passed) = [true, true] := by decide

example : [1, 0, 1, 0, 0, 1].count 0 ≥ [Op.log 1, Op.vmPanic].length + 1 := by decide

end SwayVerif.C29
