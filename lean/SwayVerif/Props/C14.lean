import SwayVerif.Model.Usefulness
import SwayVerif.Lemmas.UsefulnessCheck
/-!
# C14 — match exhaustiveness and reachability are exact

Model: `SwayVerif/Model/Usefulness.lean` — the usefulness analysis of
`sway-core/.../match_expression/analysis` AS IMPLEMENTED (after `fix: match usefulness Σ holds only real root
constructors`), untyped and fuel-driven, every `CompileError::Internal` = `none`; plus the condition that the
matcher really builds (`Pat.cond`). Helper lemmas: `SwayVerif/Lemmas/Usefulness*.lean`.

The theorems hold on the FRAGMENT described by the decidable predicate `Pat.hasTy` (suffixed `u8` literals,
struct patterns that list every field in declaration order, non-empty or-patterns; wildcards, bindings, bool,
enum variants, tuples, structs and or-patterns at any depth) over types whose enums are non-empty
(`Ty.inhab`), and for every fuel above the measure `mu` (the driver uses 100000). Outside the fragment the
compiler deviates from the property; each deviation has a `decide`d witness at the end of this file.
-/
namespace SwayVerif.C14
open SwayVerif.Usefulness

/-- `is_useful` never raises an internal error on well-typed input. -/
theorem useful_total {fuel : Nat} {ts : List Ty} {P : Matrix} {q : Row} (hin : inhabL ts = true)
    (hP : rowsHaveTy P ts) (hq : patsHaveTy q ts = true) (hf : mu ts q < fuel) :
    ∃ r, U fuel P q = some r := by
  obtain ⟨r, hr, _⟩ := U_correct u8Facts fuel ts P q hin hP hq hf
  exact ⟨r, hr⟩

/-- Soundness of the verdict: if `U(P, q)` reports witnesses then some well-typed value vector is matched by
`q` and by no row of `P`. (The witness PATTERNS themselves are not sound — see `witness_join_unsound`.) -/
theorem useful_sound {fuel : Nat} {ts : List Ty} {P : Matrix} {q : Row} (hin : inhabL ts = true)
    (hP : rowsHaveTy P ts) (hq : patsHaveTy q ts = true) (hf : mu ts q < fuel) {w : List Pat}
    (h : U fuel P q = some (.wit w)) :
    ∃ vs, hasTyL vs ts = true ∧ matchesL q vs = true ∧ ∀ r ∈ P, matchesL r vs = false := by
  obtain ⟨r, hr, hiff, _⟩ := U_correct u8Facts fuel ts P q hin hP hq hf
  rw [h] at hr
  cases hr
  exact hiff.mp rfl

/-- Completeness: if some well-typed value vector is matched by `q` and by no row of `P` then `U(P, q)`
reports witnesses (in particular it is neither "no witnesses" nor an internal error). -/
theorem useful_complete {fuel : Nat} {ts : List Ty} {P : Matrix} {q : Row} (hin : inhabL ts = true)
    (hP : rowsHaveTy P ts) (hq : patsHaveTy q ts = true) (hf : mu ts q < fuel)
    (h : ∃ vs, hasTyL vs ts = true ∧ matchesL q vs = true ∧ ∀ r ∈ P, matchesL r vs = false) :
    ∃ w, U fuel P q = some (.wit w) := by
  obtain ⟨r, hr, hiff, _⟩ := U_correct u8Facts fuel ts P q hin hP hq hf
  have := hiff.mpr h
  cases r with
  | noWit => simp [Report.has] at this
  | wit w => exact ⟨w, hr⟩

/-- The compiler (model) rejects a match as non-exhaustive exactly when some value of the scrutinee type is
matched by no arm — and it never answers with an internal error. -/
theorem C14_exhaustive_exact {t : Ty} {arms : List Pat} {fuel : Nat} (ht : t.inhab = true)
    (harms : ∀ a ∈ arms, a.hasTy t = true) (hf : t.size + sizeL arms < fuel) :
    ∃ e, (analyse fuel arms).exhaustive? = some e ∧
      (e = false ↔ ∃ v : Val, v.hasTy t = true ∧ ∀ a ∈ arms, a.matches v = false) := by
  obtain ⟨bs, fin, hc, _, _, hfin⟩ := checkArms_spec t ht fuel arms [] (by simp) harms hf
  have hc' : checkArms fuel arms [] = some (bs, fin) := by simpa [armRows] using hc
  simp only [List.nil_append] at hfin
  cases fin with
  | noWit =>
    refine ⟨true, by simp [analyse, hc', Verdict.exhaustive?], ?_⟩
    simp only [Report.has, Bool.false_eq_true, false_iff] at hfin
    simpa using hfin
  | wit w =>
    refine ⟨false, by simp [analyse, hc', Verdict.exhaustive?], ?_⟩
    simp only [Report.has, true_iff] at hfin
    simpa using hfin

/-- The reachability flag that the analysis computes for arm `k` (`ReachableReport::reachable`) is true
exactly when arm `k` matches some value that no earlier arm matches. -/
theorem C14_reachable_exact {t : Ty} {arms : List Pat} {fuel : Nat} (ht : t.inhab = true)
    (harms : ∀ a ∈ arms, a.hasTy t = true) (hf : t.size + sizeL arms < fuel) :
    ∃ bs fin, checkArms fuel arms [] = some (bs, fin) ∧ bs.length = arms.length ∧
      ∀ k (hk : k < arms.length), bs[k]? = some true ↔
        ∃ v : Val, v.hasTy t = true ∧ arms[k].matches v = true ∧
          ∀ j (hj : j < k), (arms[j]'(by omega)).matches v = false := by
  obtain ⟨bs, fin, hc, hlen, hflags, _⟩ := checkArms_spec t ht fuel arms [] (by simp) harms hf
  refine ⟨bs, fin, by simpa [armRows] using hc, hlen, ?_⟩
  intro k hk
  rw [hflags k hk]
  constructor
  · rintro ⟨v, h1, h2, _, h4⟩; exact ⟨v, h1, h2, h4⟩
  · rintro ⟨v, h1, h2, h4⟩; exact ⟨v, h1, h2, by simp, h4⟩

/-- Warnings: when no arm before the last is a catch-all, the warned arms are exactly those whose flag is
false. PARTIAL: with an interior catch-all arm the compiler warns every later arm (correct) but never the
catch-all arm itself (`interior_catchall_not_warned`). -/
theorem C14_warnings_exact_partial (arms : List Pat) (reach : List Bool)
    (h : findIdx Pat.isCatchAll (arms.take (arms.length - 1)) 0 = none) (k : Nat) :
    k ∈ warned arms reach ↔ k < arms.length ∧ reach.getD k true = false := by
  simp [warned, h]

/-- Run time: the compiled if-chain (conditions as the matcher really builds them) executes the first arm
that matches — provided no or-pattern has an irrefutable alternative (`or_catchall_alt_runtime`). -/
theorem first_match_runs : ∀ (arms : List Pat) (v : Val), (∀ a ∈ arms, a.hasOrCatchAll = false) →
    rtFirst arms v = firstMatch arms v
  | [], _, _ => rfl
  | a :: arms, v, h => by
    simp only [rtFirst, firstMatch, rtMatches_eq (h a (by simp)) v,
      first_match_runs arms v (fun b hb => h b (by simp [hb]))]

/-! ## Non-vacuity of the hypotheses -/

example : inhabL [Ty.tuple [.bool, .enum [.u8, .tuple []]]] = true := by decide
example : rowsHaveTy [[Pat.tuple [.bool true, .enum 2 0 (.u8 3 3)]], [.or [.tuple [.wild, .enum 2 1 .wild], .wild]]]
    [Ty.tuple [.bool, .enum [.u8, .tuple []]]] := by
  intro r hr; simp at hr; rcases hr with rfl | rfl <;> decide
example : patsHaveTy [Pat.strct [0, 1] [.bool false, .wild]] [Ty.strct [.bool, .u8]] = true := by decide
example : mu [Ty.tuple [.bool, .enum [.u8, .tuple []]]] [Pat.tuple [.bool true, .enum 2 0 (.u8 3 3)]] < 100000 := by
  decide
example : (Pat.or [.bool true, .bool false]).hasOrCatchAll = false := by decide

/-! ## Deviations of the compiler outside the fragment (each replayed on the real compiler, see
`known_findings.json`) -/

/-- struct patterns are positional over their LISTED fields: `S { a: true, .. }`, `S { a: false, b: _ }` is
exhaustive but reported non-exhaustive. -/
theorem struct_rest_positional_wrong :
    (analyse 50 [.strct [0] [.bool true], .strct [0, 1] [.bool false, .wild]]).exhaustive? = some false ∧
    exhaustiveBF (.strct [.bool, .bool]) [.strct [0] [.bool true], .strct [0, 1] [.bool false, .wild]] = true := by
  decide

/-- a literal without suffix lives in the u64 range: the witness `[256...MAX]` is reported for a `u8`. -/
theorem literal_width_u64_wrong :
    ((analyse 50 [.num 255 255]).witness == [.or [.num 0 254, .num 256 u64Max]]) = true := by decide

/-- `0u8` and `7` in one column: internal compiler error. -/
theorem literal_suffix_mix_ice : (analyse 50 [.u8 0 0, .num 7 7]).isIce = true := by decide

/-- `join_witness_reports` concatenates stacks: for `(true, true)`, `(false, false)` the report lists the
covered pattern `(true | false, false)` and the ill-typed `true`. -/
theorem witness_join_unsound :
    ((analyse 50 [.tuple [.bool true, .bool true], .tuple [.bool false, .bool false]]).witness ==
      [.tuple [.or [.bool true, .bool false], .bool false], .bool true]) = true ∧
    covered [.tuple [.bool true, .bool true], .tuple [.bool false, .bool false]]
      (.tuple [.bool false, .bool false]) = true := by decide

/-- `true`, `false`, `_`, `x`: arm 2 is unreachable but only arm 3 is warned. -/
theorem interior_catchall_not_warned :
    (analyse 50 [.bool true, .bool false, .wild, .wild]).unreachable = [3] ∧
    unreachableBF .bool [.bool true, .bool false, .wild, .wild] 2 = true := by decide

/-- `match b { true | _ => 0 }`: at run time `false` matches no arm (revert). -/
theorem or_catchall_alt_runtime :
    rtFirst [.or [.bool true, .wild]] (.bool false) = none ∧
    firstMatch [.or [.bool true, .wild]] (.bool false) = some 0 := by decide

end SwayVerif.C14
