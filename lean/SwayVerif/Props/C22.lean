import SwayVerif.Model.Toposort
import SwayVerif.Lemmas.Toposort
/-!
# C22 — Build order respects dependencies

Property theorems only; helper lemmas live in `SwayVerif/Lemmas/Toposort.lean`.
Model: `SwayVerif/Model/Toposort.lean` — `forc_pkg::compilation_order` = petgraph 0.6.5
`algo::toposort(Reversed(&graph))` transliterated (explicit-stack DFS with `discovered`/`finished`
producing `finish_stack`, its reversal, the verification loop on the reversed graph), over the
package graph `n` nodes + edge list in `add_edge` order, edge `(a, b)` = "a depends on b".

All theorems are for ALL package graphs (any size, parallel edges, self-loops, any insertion
order). `g.wf` (every edge endpoint is a node) is the invariant of the Rust `Graph` type
(`add_edge` panics otherwise).
-/
namespace SwayVerif.C22
open SwayVerif.Toposort

/-- An `Ok(order)`: every dependency edge `a → b` ("a depends on b") has both packages in the order
and `b` strictly before `a`. -/
theorem toposort_ok_sound (g : PkgGraph) (order : List Nat) (h : compilationOrder g = .ok order) :
    ∀ a b, (a, b) ∈ g.edges → a ∈ order ∧ b ∈ order ∧ order.idxOf b < order.idxOf a := by
  obtain ⟨hw, _, hmem, hidx⟩ := compilationOrder_ok h
  intro a b he
  exact ⟨(hmem a).mpr (wf_edge hw he).1, (hmem b).mpr (wf_edge hw he).2, hidx a b he⟩

/-- … and through chains: whatever `a` depends on transitively comes before `a`. -/
theorem toposort_ok_sound_trans (g : PkgGraph) (order : List Nat) (h : compilationOrder g = .ok order)
    (a b : Nat) (hd : DependsOn g a b) : order.idxOf b < order.idxOf a :=
  dependsOn_idx (compilationOrder_ok h).2 hd

/-- No package is listed twice. -/
theorem order_nodup (g : PkgGraph) (order : List Nat) (h : compilationOrder g = .ok order) : order.Nodup :=
  (compilationOrder_ok h).2.1

/-- Every package is listed exactly once, and nothing else is listed. -/
theorem order_complete (g : PkgGraph) (order : List Nat) (h : compilationOrder g = .ok order) :
    (∀ v, v < g.n → order.count v = 1) ∧ (∀ v ∈ order, v < g.n) ∧ order.length = g.n := by
  obtain ⟨_, hnd, hmem, _⟩ := compilationOrder_ok h
  refine ⟨fun v hv => count_eq_one hnd ((hmem v).mpr hv), fun v hv => (hmem v).mp hv, ?_⟩
  -- a duplicate-free list with the same members as `range n` has `n` elements
  have h1 : order.length ≤ g.n := by
    have := List.Nodup.length_le_of_subset hnd (l₂ := List.range g.n) (fun v hv => List.mem_range.mpr ((hmem v).mp hv))
    simpa using this
  have h2 : g.n ≤ order.length := by
    have := List.Nodup.length_le_of_subset (List.nodup_range (n := g.n)) (l₂ := order)
      (fun v hv => (hmem v).mpr (List.mem_range.mp hv))
    simpa using this
  omega

/-- A graph with a dependency cycle (self-loops included) is rejected: planning fails with the cycle error. -/
theorem cyclic_imp_error (g : PkgGraph) (hw : g.wf = true) (hc : Cyclic g) : compilationOrder g = .cycle := by
  rcases compilationOrder_total hw with h | ⟨order, h⟩
  · exact h
  · exact absurd (compilationOrder_ok h).2 (cyclic_no_order hc order)

/-- An acyclic graph is never rejected (the harder direction: the DFS finishing order passes
petgraph's own verification phase; no fuel exhaustion, no panic). -/
theorem acyclic_imp_ok (g : PkgGraph) (hw : g.wf = true) (hc : ¬ Cyclic g) :
    ∃ order, compilationOrder g = .ok order := by
  obtain ⟨order, h⟩ := toposort_acyclic (reversed_WF hw) (acyclic_reversed hc)
  exact ⟨order, by simp [compilationOrder, hw, h]⟩

/-- The decidable checker the driver runs on the REAL output is exactly the specification. -/
theorem isTopoOrder_sound (g : PkgGraph) (order : List Nat) :
    isTopoOrder g order = true ↔ IsTopoOrder g order := by
  simp only [isTopoOrder, IsTopoOrder, Bool.and_eq_true, nodupB_iff, List.all_eq_true, decide_eq_true_eq,
    List.mem_range, List.contains_iff_mem]
  constructor
  · rintro ⟨⟨⟨h1, h2⟩, h3⟩, h4⟩
    exact ⟨h1, fun v => ⟨h2 v, h3 v⟩, fun a b he => h4 (a, b) he⟩
  · rintro ⟨h1, h2, h3⟩
    exact ⟨⟨⟨h1, fun v hv => (h2 v).mp hv⟩, fun v hv => (h2 v).mpr hv⟩, fun e he => h3 e.1 e.2 he⟩

/-- A cyclic graph has no valid order at all, so the predicate can only accept an error for it. -/
theorem cyclic_no_topo_order (g : PkgGraph) (hc : Cyclic g) (order : List Nat) : isTopoOrder g order = false := by
  cases h : isTopoOrder g order with
  | false => rfl
  | true => exact absurd ((isTopoOrder_sound g order).mp h) (cyclic_no_order hc order)

/-- The executable cycle test used by `propHolds` for `Err` answers is exact. -/
theorem hasCycle_iff (g : PkgGraph) (hw : g.wf = true) : hasCycle g = true ↔ Cyclic g := by
  unfold hasCycle
  constructor
  · intro h
    apply Classical.byContradiction
    intro hc
    obtain ⟨order, ho⟩ := acyclic_imp_ok g hw hc
    simp [ho] at h
  · intro hc
    simp [cyclic_imp_error g hw hc]

/-- What `prop=1` of the driver means for the implementation's answer. -/
theorem propHolds_sound (g : PkgGraph) (impl : Impl) (h : propHolds g impl = true) :
    match impl with
    | some order => IsTopoOrder g order ∧ ¬ Cyclic g
    | none => Cyclic g := by
  simp only [propHolds, Bool.and_eq_true] at h
  obtain ⟨hw, h⟩ := h
  cases impl with
  | some order =>
    have ht := (isTopoOrder_sound g order).mp h
    exact ⟨ht, fun hc => cyclic_no_order hc order ht⟩
  | none => exact (hasCycle_iff g hw).mp h

/-- The model itself satisfies the predicate on every well-formed graph. -/
theorem C22_prop_of_model (g : PkgGraph) (hw : g.wf = true) :
    propHolds g (match compilationOrder g with | .ok order => some order | _ => none) = true := by
  rcases compilationOrder_total hw with h | ⟨order, h⟩
  · simp [propHolds, hw, h, hasCycle]
  · simp [propHolds, hw, h, (isTopoOrder_sound g order).mpr (compilationOrder_ok h).2]

/-- C22: for every acyclic package graph the compilation order lists every package exactly once and
every dependency before all of its dependents; for every cyclic graph planning fails with an error
instead of producing an order. -/
theorem C22 (g : PkgGraph) (hw : g.wf = true) :
    (¬ Cyclic g → ∃ order, compilationOrder g = .ok order ∧ IsTopoOrder g order) ∧
    (Cyclic g → compilationOrder g = .cycle) := by
  refine ⟨fun hc => ?_, cyclic_imp_error g hw⟩
  obtain ⟨order, h⟩ := acyclic_imp_ok g hw hc
  exact ⟨order, h, (compilationOrder_ok h).2⟩

/-! Non-vacuity: one instance per hypothesis shape. -/
example : compilationOrder ⟨3, [(0, 1), (1, 2), (0, 2)]⟩ = .ok [2, 1, 0] := by decide
example : compilationOrder ⟨3, [(0, 1), (1, 2), (2, 0)]⟩ = .cycle := by decide
example : compilationOrder ⟨2, [(1, 1)]⟩ = .cycle := by decide
example : Cyclic ⟨3, [(0, 1), (1, 2), (2, 0)]⟩ :=
  ⟨0, .trans (b := 1) (by decide) (.trans (b := 2) (by decide) (.direct (by decide)))⟩
example : isTopoOrder ⟨3, [(0, 1), (1, 2), (0, 2)]⟩ [2, 1, 0] = true := by decide
example : isTopoOrder ⟨3, [(0, 1), (1, 2), (0, 2)]⟩ [0, 1, 2] = false := by decide
example : (⟨3, [(0, 1), (1, 2), (0, 2)]⟩ : PkgGraph).wf = true := by decide

end SwayVerif.C22
