import SwayVerif.Model.Lock
import SwayVerif.Lemmas.Lock
/-!
# C21 — Reading any lock file never crashes

Property theorems only; helper lemmas live in `SwayVerif/Lemmas/Lock.lean`.
Model: `SwayVerif/Model/Lock.lean` — `source::Pinned::from_str` (path / git / ipfs / registry),
`parse_pkg_dep_line` and `Lock::to_graph`, with every Rust slice (`&s[n..]`), map index
(`pkg_to_node[&key]`) and graph index (`graph[dep_node]`) an explicit `Res.panic` outcome.
`Ext` = the external parsers (`gix_url`, `cid`, `semver`), arbitrary total functions.
The TOML layer (`toml::de::from_str` into `Lock`) is outside the model: `toGraph` starts from the
deserialised `PkgLock` records, for ALL such records.
-/
namespace SwayVerif.C21
open SwayVerif.Lock

/-- Every source string — malformed or not — is parsed to a pinned source or reported as an error. -/
theorem C21_no_panic (ext : Ext) (s : Str) : parsePinned ext s ≠ .panic :=
  parsePinned_ne_panic ext s

/-- Malformed source strings are *errors*: the outcome is `ok` or `err`, for all strings. -/
theorem C21_pinned_ok_or_err (ext : Ext) (s : Str) :
    (∃ p, parsePinned ext s = .ok p) ∨ parsePinned ext s = .err := by
  have := parsePinned_ne_panic ext s
  cases h : parsePinned ext s with
  | ok p => exact Or.inl ⟨p, rfl⟩
  | err => exact Or.inr rfl
  | panic => exact absurd h this

/-- Every dependency line is parsed or reported as an error. -/
theorem C21_depline_no_panic (l : Str) : parsePkgDepLine l ≠ .panic :=
  parsePkgDepLine_ne_panic l

/-- `Lock::to_graph` on any deserialised lock yields a package graph or an error: in particular
`pkg_to_node[&key]` always finds its key and `graph[dep_node]` is always in range. -/
theorem toGraph_no_panic (ext : Ext) (pkgs : List PkgLock) : toGraph ext pkgs ≠ .panic :=
  toGraph_ne_panic ext pkgs

/-- The predicate the driver evaluates on the implementation's outcome class holds of the model. -/
theorem C21_prop_of_model (ext : Ext) (pkgs : List PkgLock) (s l : Str) :
    c21PropHolds (toGraph ext pkgs).cls = true ∧ c21PropHolds (parsePinned ext s).cls = true ∧
    c21PropHolds (parsePkgDepLine l).cls = true := by
  have h1 := toGraph_ne_panic ext pkgs
  have h2 := parsePinned_ne_panic ext s
  have h3 := parsePkgDepLine_ne_panic l
  refine ⟨?_, ?_, ?_⟩
  · cases h : toGraph ext pkgs <;> simp_all [c21PropHolds, Res.cls]
  · cases h : parsePinned ext s <;> simp_all [c21PropHolds, Res.cls]
  · cases h : parsePkgDepLine l <;> simp_all [c21PropHolds, Res.cls]

/-! Non-vacuity / regression: the round-0 failing inputs are errors (they were panics before the fix:
the pre-fix slices are `Res.orPanic (getFrom ..)`, e.g. `getFrom ['f','o','o'] 9 = none`). -/
def idExt : Ext := ⟨fun s => some s, fun s => some s, fun s => some s⟩
example : parsePinned idExt ['f', 'o', 'o'] = .err := by decide
example : parsePinned idExt [] = .err := by decide
example : parsePinned idExt ['g', 'i', 't', '+', 'f', 'o', 'o'] = .err := by decide
example : parsePinned idExt ['r', 'e', 'g', 'i', 's', 't', 'r', 'y', '+', 'a', 'b', 'c'] = .err := by decide
example : parsePkgDepLine ['b', ' ', '('] = .err := by decide
example : parsePkgDepLine ['(', 'x'] = .err := by decide
example : parsePkgDepLine ['b', ' ', '(', 'é'] = .err := by decide
example : getFrom ['f', 'o', 'o'] 9 = none := by decide
example : toGraph idExt [⟨['a'], none, ['f', 'o', 'o'], [], []⟩] = .err := by decide
example : toGraph idExt [⟨['a'], none, ['m', 'e', 'm', 'b', 'e', 'r'], [['b', ' ', '(']], []⟩] = .err := by decide
example : toGraph idExt [⟨['a'], none, ['m', 'e', 'm', 'b', 'e', 'r'], [['a']], []⟩] =
    .ok ⟨[⟨['a'], .member⟩], [⟨0, 0, ['a'], .library⟩]⟩ := by decide

end SwayVerif.C21
