import SwayVerif.Model.FsLock
import SwayVerif.Lemmas.FsLock
/-!
# C25 — Dirty-file flags are never lost between processes

Model: `SwayVerif/Model/FsLock.lean` (`PidFileLocking` of `forc-util/src/fs_locking.rs` as program-counter
machines over one flag file, one file-system operation per step, crash at any point, ANY number of
processes). `sys v` = all interleavings; `sysIso v` = the interleavings in which a publishing step of
`lock` (the `rename`) is taken only while every other live process is outside any operation.

* The unrestricted statement `C25_visible` is FALSE, of the code as found (`Variant.orig`,
  `C25_visible_false_before_fix`, repaired by the `fix:` commit) and still of the repaired code
  (`Variant.fixed`): `C25_visible_false` (stale-decision/unlink TOCTOU) and
  `C25_visible_false_two_lockers` (two concurrent `lock`s). Explicit schedules, replayed on the real code.
* `C25_visible_partial` / `C25_visible_partial_observed`: it holds for every schedule with isolated
  publishing steps — any number of processes, any interleaving of everything else, any crash points.
* `C25_stale_cleared` (safety form, all schedules, both variants): `is_locked` never answers "dirty" on
  account of a dead owner. `C25_stale_cleared_run` (progress form): an undisturbed `is_locked` on a dead
  owner's flag returns `false` and removes the flag.
-/
namespace SwayVerif.C25
open SwayVerif.FsLock SwayVerif.Proc

/-- **Visible (partial).** In every reachable state of every schedule with isolated publishing steps: if
`w`'s `lock` has returned `Ok`, `w` has not begun `release`/`lock` since, and `w` is alive, then `w`'s flag
is on disk and an `is_locked()` by any other process answers "dirty".
Excluded window, exactly: schedules in which some `lock`'s `rename(tmp, path)` is executed while another
live process is between the first and the last file-system step of any `PidFileLocking` operation. -/
theorem C25_visible_partial (s : State) (w : Pid) (hr : Reachable (sysIso .fixed) s) (hw : w < usizeBound)
    (hh : s.holds w = true) (ha : s.alive w = true) :
    flagShows s w ∧ ∀ q, q ≠ w → observe s q = true := by
  have hf := (inv_reachable s hr w hw hh ha).1
  refine ⟨hf, ?_⟩
  intro q hq
  obtain ⟨h, h1, h2⟩ := hf
  simp only [observe, h1, h2, pidOfContents_toDec w hw, ha, Bool.true_and, decide_eq_true_eq]
  exact fun h => hq h.symm

theorem ret_glpDone_bool {s : State} {p : Pid} {c : Ctx} {r : Option Nat} {b : Bool}
    (h : (glpDone s p c r).2 = some (.bool b)) : b = r.any (· ≠ p) := by
  cases c with
  | glp => simp [glpDone] at h
  | isLocked => simp only [glpDone] at h; injection h with h; injection h with h; exact h.symm
  | relMsg k => simp [glpDone] at h
  | release k => simp only [glpDone] at h; split at h <;> simp at h

theorem ret_glpDone_pid {s : State} {p : Pid} {c : Ctx} {r o : Option Nat}
    (h : (glpDone s p c r).2 = some (.pid o)) : o = r := by
  cases c with
  | glp => simp only [glpDone] at h; injection h with h; injection h with h; exact h.symm
  | isLocked => simp [glpDone] at h
  | relMsg k => simp [glpDone] at h
  | release k => simp only [glpDone] at h; split at h <;> simp at h

theorem ret_clDone {s : State} {p : Pid} {n : Next} {r x : Ret} (h : (clDone s p n r).2 = some x) : x = r := by
  cases n <;> simp [clDone] at h
  exact h.symm

/-- **Visible (partial), step-wise form.** Under the same schedules: every `is_locked()` /
`is_file_dirty()` by another live process that COMPLETES while `w` holds the flag and is alive returns
`true`, and every completing `get_locker_pid()` returns `Some(w)` — whatever was interleaved with it. -/
theorem C25_visible_partial_observed (s t : State) (w q : Pid) (ret : Ret)
    (hr : Reachable (sysIso .fixed) s) (hw : w < usizeBound)
    (hh : s.holds w = true) (ha : s.alive w = true) (hq : q ≠ w)
    (hstep : exec .fixed s (.step q) = some (t, some ret)) :
    (∀ b, ret = .bool b → b = true) ∧ (∀ o, ret = .pid o → o = some w) := by
  have hI := inv_reachable s hr w hw hh ha
  simp only [exec] at hstep
  split at hstep
  case isFalse => cases hstep
  rename_i hqa
  have hc := hI.2 q hqa
  have hany : (some w).any (· ≠ q) = true := by
    simp only [Option.any_some, decide_eq_true_eq]; exact fun h => hq h.symm
  cases hpc : s.pc q with
  | idle => rw [hpc] at hstep; simp [stepPc] at hstep
  | glpOpen c =>
    rw [hpc] at hstep
    obtain ⟨h, h1, _⟩ := hI.1
    simp [stepPc, h1] at hstep
  | glpRead c h =>
    rw [hpc] at hstep hc
    simp [stepPc, content_of_flagShows hI.1 hc.2, pidOfContents_toDec w hw] at hstep
  | glpActive c pid =>
    rw [hpc] at hstep hc
    obtain ⟨_, rfl⟩ := hc
    simp only [stepPc, ha, if_true] at hstep
    injection hstep with hstep
    have h2 : (glpDone s q c (some pid)).2 = some ret := by rw [hstep]
    constructor
    · intro b hb; subst hb; rw [ret_glpDone_bool h2, hany]
    · intro o ho; subst ho; exact ret_glpDone_pid h2
  | clReadDir n =>
    rw [hpc] at hstep
    simp only [stepPc] at hstep
    have aux : ∀ r, r = .err ∨ r = .cleaned 0 → some (clDone s q n r) = some (t, some ret) →
        (∀ b, ret = .bool b → b = true) ∧ (∀ o, ret = .pid o → o = some w) := by
      intro r hr' he
      injection he with he
      have h2 : (clDone s q n r).2 = some ret := by rw [he]
      have := ret_clDone h2
      rcases hr' with rfl | rfl <;> subst this <;> exact ⟨fun _ h => (nomatch h), fun _ h => (nomatch h)⟩
    split at hstep
    · exact aux _ (Or.inl rfl) hstep
    · split at hstep
      · exact aux _ (Or.inr rfl) hstep
      · simp at hstep
  | clOpen n =>
    rw [hpc] at hstep
    obtain ⟨h, h1, _⟩ := hI.1
    simp [stepPc, h1] at hstep
  | clRead n h =>
    rw [hpc] at hstep hc
    simp [stepPc, content_of_flagShows hI.1 hc.2, readToString_digits _ (toDec_digits w),
      trim_digits _ (toDec_digits w), parseUsize_toDec w hw] at hstep
  | clActive n pid =>
    rw [hpc] at hstep hc
    obtain ⟨_, rfl⟩ := hc
    simp only [stepPc, ha, if_true] at hstep
    injection hstep with hstep
    have h2 : (clDone s q n (.cleaned 0)).2 = some ret := by rw [hstep]
    have := ret_clDone h2
    subst this
    exact ⟨fun _ h => (nomatch h), fun _ h => (nomatch h)⟩
  | glpRemove c => rw [hpc] at hc; exact hc.elim
  | relRemove k => rw [hpc] at hc; exact hc.elim
  | lkMkdir => rw [hpc] at hc; exact hc.elim
  | lkCreate => rw [hpc] at hc; exact hc.elim
  | lkWrite h => rw [hpc] at hc; exact hc.elim
  | lkTmpCreate => rw [hpc] at hc; exact hc.elim
  | lkTmpWrite => rw [hpc] at hc; exact hc.elim
  | lkRename => rw [hpc] at hc; exact hc.elim
  | clRemove n => rw [hpc] at hc; exact hc.elim

/-- **Stale flags are treated as clear (safety form; ALL schedules, code as found and as repaired).**
Whenever an `is_locked()`/`is_file_dirty()` of `q` answers "dirty", it does so at its `is_pid_active(pid)`
step for a pid it read from the flag file, that pid is alive at that very moment and is not `q`.
Hence a flag whose owner has died is never reported dirty. -/
theorem C25_stale_cleared (v : Variant) (s t : State) (q : Pid)
    (hstep : exec v s (.step q) = some (t, some (.bool true))) :
    ∃ pid, s.pc q = .glpActive .isLocked pid ∧ s.alive pid = true ∧ pid ≠ q := by
  simp only [exec] at hstep
  split at hstep
  case isFalse => cases hstep
  have hg : ∀ (s' : State) c r, some (glpDone s' q c r) = some (t, some (.bool true)) → c = .isLocked ∧ r.any (· ≠ q) = true := by
    intro s' c r he
    injection he with he
    have h2 : (glpDone s' q c r).2 = some (.bool true) := by rw [he]
    refine ⟨?_, (ret_glpDone_bool h2).symm⟩
    cases c <;> simp [glpDone] at h2 ⊢
    split at h2 <;> simp at h2
  have hcl : ∀ (s' : State) n r, (r = .err ∨ ∃ k, r = .cleaned k) → some (clDone s' q n r) = some (t, some (.bool true)) → False := by
    intro s' n r hr' he
    injection he with he
    have h2 : (clDone s' q n r).2 = some (.bool true) := by rw [he]
    have := ret_clDone h2
    rcases hr' with rfl | ⟨k, rfl⟩ <;> cases this
  cases hpc : s.pc q with
  | glpActive c pid =>
    rw [hpc] at hstep
    simp only [stepPc] at hstep
    split at hstep
    · rename_i hal
      obtain ⟨rfl, h2⟩ := hg _ _ _ hstep
      refine ⟨pid, rfl, hal, ?_⟩
      simpa using h2
    · simp at hstep
  | glpOpen c =>
    rw [hpc] at hstep
    simp only [stepPc] at hstep
    split at hstep
    · have := (hg _ _ _ hstep).2; simp at this
    · simp at hstep
  | glpRead c h =>
    rw [hpc] at hstep
    simp only [stepPc] at hstep
    split at hstep
    · simp at hstep
    · have := (hg _ _ _ hstep).2; simp at this
  | glpRemove c =>
    rw [hpc] at hstep
    simp only [stepPc] at hstep
    have := (hg _ _ _ hstep).2; simp at this
  | idle => rw [hpc] at hstep; simp [stepPc] at hstep
  | relRemove k => rw [hpc] at hstep; cases k <;> simp [stepPc] at hstep
  | lkMkdir => rw [hpc] at hstep; simp [stepPc] at hstep
  | lkCreate =>
    rw [hpc] at hstep; simp only [stepPc] at hstep
    cases v <;> simp only at hstep
    · split at hstep <;> simp at hstep
    · cases hstep
  | lkWrite h => rw [hpc] at hstep; cases v <;> simp [stepPc] at hstep
  | lkTmpCreate => rw [hpc] at hstep; simp [stepPc] at hstep
  | lkTmpWrite => rw [hpc] at hstep; simp [stepPc] at hstep
  | lkRename => rw [hpc] at hstep; simp [stepPc] at hstep
  | clReadDir n =>
    rw [hpc] at hstep; simp only [stepPc] at hstep
    split at hstep
    · exact (hcl _ _ _ (Or.inl rfl) hstep).elim
    · split at hstep
      · exact (hcl _ _ _ (Or.inr ⟨0, rfl⟩) hstep).elim
      · simp at hstep
  | clOpen n =>
    rw [hpc] at hstep; simp only [stepPc] at hstep
    split at hstep
    · exact (hcl _ _ _ (Or.inr ⟨0, rfl⟩) hstep).elim
    · simp at hstep
  | clRead n h =>
    rw [hpc] at hstep; simp only [stepPc] at hstep
    split at hstep
    · exact (hcl _ _ _ (Or.inr ⟨0, rfl⟩) hstep).elim
    · split at hstep <;> simp at hstep
  | clActive n pid =>
    rw [hpc] at hstep; simp only [stepPc] at hstep
    split at hstep
    · exact (hcl _ _ _ (Or.inr ⟨0, rfl⟩) hstep).elim
    · simp at hstep
  | clRemove n =>
    rw [hpc] at hstep; simp only [stepPc] at hstep
    split at hstep
    · exact (hcl _ _ _ (Or.inl rfl) hstep).elim
    · exact (hcl _ _ _ (Or.inr ⟨1, rfl⟩) hstep).elim

/-- **Stale flags are cleared (progress form).** If the flag on disk names a dead owner `w`, then an
`is_locked()` that a live idle process `q` runs without interference takes exactly four file-system
steps (open, read, is_pid_active, remove_file), returns `false`, and leaves no flag file. -/
theorem C25_stale_cleared_run (v : Variant) (s : State) (w q : Pid) (hw : w < usizeBound)
    (hf : flagShows s w) (hdead : s.alive w = false) (hq : s.alive q = true) (hidle : s.pc q = .idle) :
    ∃ s0 s1 s2 s3 t, exec v s (.start q .isLocked) = some (s0, none) ∧ exec v s0 (.step q) = some (s1, none) ∧
      exec v s1 (.step q) = some (s2, none) ∧ exec v s2 (.step q) = some (s3, none) ∧
      exec v s3 (.step q) = some (t, some (.bool false)) ∧ t.file = none ∧ t.pc q = .idle := by
  obtain ⟨h, h1, h2⟩ := hf
  have upd_upd : ∀ (f : Pid → Pc) (a b : Pc), upd (upd f q a) q b = upd f q b := by
    intro f a b; funext x; unfold upd; split <;> rfl
  have h2' := h2
  simp only [State.content, List.getD_eq_getElem?_getD] at h2'
  have hpid : pidOfContents (s.data[h]?.getD []) = some w := by
    rw [h2']; exact pidOfContents_toDec w hw
  refine ⟨s.setPc q (.glpOpen .isLocked), s.setPc q (.glpRead .isLocked h), s.setPc q (.glpActive .isLocked w),
    s.setPc q (.glpRemove .isLocked), ({ s with file := none } : State).setPc q .idle, ?_, ?_, ?_, ?_, ?_, rfl, ?_⟩
  · simp [exec, hq, hidle, Op.writes, startPc]
  · simp [exec, State.setPc, hq, stepPc, h1, upd_upd]; simp [upd]
  · simp [exec, State.setPc, hq, stepPc, State.content, upd_upd]; simp [upd]; rw [hpid]
  · simp [exec, State.setPc, hq, stepPc, upd_upd]; simp [upd, hdead]
  · simp [exec, State.setPc, hq, stepPc, glpDone, upd_upd]; simp [upd]
  · simp [State.setPc, upd]

/-! ## The unrestricted statement is false: explicit schedules (processes 101, 102, 103) -/

def live3 : Pid → Bool := fun p => p == 101 || p == 102 || p == 103
def steps (p : Pid) (n : Nat) : List Label := List.replicate n (.step p)

/-- lost flag: `w` holds, is alive and idle, yet its flag is not on disk -/
def lost (w : Pid) (s : State) : Bool := s.holds w && s.alive w && !flagShowsB s w && decide (s.pc w = .idle)

theorem sys_step_of_execS (v : Variant) (s : State) (l : Label) (t : State) (h : execS v s l = some t) :
    (sys v).step s t := by
  unfold execS at h
  cases he : exec v s l with
  | none => simp [he] at h
  | some pr =>
    simp only [he, Option.map_some] at h
    injection h with h
    exact ⟨l, pr.2, by rw [he, ← h]⟩

theorem reachable_of_sched (v : Variant) (ls : List Label) (t : State)
    (h : runFrom (execS v) (emptyState live3) ls = some t) : Reachable (sys v) t :=
  reachable_of_run (sys v) (execS v) (sys_step_of_execS v) ls _ t
    (.init ⟨fun _ => rfl, fun _ => rfl⟩) h

theorem flagShowsB_false {s : State} {w : Pid} (h : flagShowsB s w = false) : ¬ flagShows s w := by
  rintro ⟨i, h1, h2⟩
  simp [flagShowsB, h1, h2] at h

/-- Code AS FOUND (`File::create` then `write`): 101 `lock` up to and including `File::create` (file
exists, empty); 102 `is_file_dirty`: its `cleanup_stale_files` reads "", cannot parse it, unlinks the
file; 101 writes its pid into the unlinked inode and `lock` returns `Ok`. -/
def schedBeforeFix : List Label :=
  [.start 101 .lock] ++ steps 101 4 ++ [.start 102 .isFileDirty] ++ steps 102 4 ++ steps 101 1

theorem C25_visible_false_before_fix :
    ∃ s, Reachable (sys .orig) s ∧ s.holds 101 = true ∧ s.alive 101 = true ∧ s.file = none ∧ observe s 102 = false := by
  have h : ((runFrom (execS .orig) (emptyState live3) schedBeforeFix).map
      fun s => s.holds 101 && s.alive 101 && s.file.isNone && !observe s 102) = some true := by decide
  cases hr : runFrom (execS .orig) (emptyState live3) schedBeforeFix with
  | none => simp [hr] at h
  | some s =>
    simp only [hr, Option.map_some, Option.some.injEq, Bool.and_eq_true, Bool.not_eq_true',
      Option.isNone_iff_eq_none] at h
    exact ⟨s, reachable_of_sched _ _ _ hr, h.1.1.1, h.1.1.2, h.1.2, h.2⟩

/-- Repaired code, stale-decision/unlink TOCTOU: 101 locks and dies; 103 `is_locked` reads 101's pid, finds
it dead and is about to `remove_file`; 102 `lock`s completely (removing the stale flag, publishing its
own); 103 now unlinks — 102's fresh flag. -/
def schedToctou : List Label :=
  [.start 101 .lock] ++ steps 101 6 ++ [.crash 101, .start 103 .isLocked] ++ steps 103 3
  ++ [.start 102 .lock] ++ steps 102 9 ++ steps 103 1

theorem C25_visible_false :
    ∃ s, Reachable (sys .fixed) s ∧ s.holds 102 = true ∧ s.alive 102 = true ∧ ¬ flagShows s 102 ∧ observe s 103 = false := by
  have h : ((runFrom (execS .fixed) (emptyState live3) schedToctou).map
      fun s => s.holds 102 && s.alive 102 && !flagShowsB s 102 && !observe s 103) = some true := by decide
  cases hr : runFrom (execS .fixed) (emptyState live3) schedToctou with
  | none => simp [hr] at h
  | some s =>
    simp only [hr, Option.map_some, Option.some.injEq, Bool.and_eq_true, Bool.not_eq_true'] at h
    exact ⟨s, reachable_of_sched _ _ _ hr, h.1.1.1, h.1.1.2, flagShowsB_false h.1.2, h.2⟩

/-- Repaired code, two concurrent lockers: both pass the `release` check on the absent file, both publish;
the later `rename` replaces the earlier flag; when the later locker releases, the earlier one still holds
but nothing is on disk. -/
def schedTwoLockers : List Label :=
  [.start 101 .lock] ++ steps 101 2 ++ [.start 102 .lock] ++ steps 102 6 ++ steps 101 4
  ++ [.start 101 .release] ++ steps 101 4

theorem C25_visible_false_two_lockers :
    ∃ s, Reachable (sys .fixed) s ∧ s.holds 102 = true ∧ s.alive 102 = true ∧ s.file = none ∧ observe s 103 = false := by
  have h : ((runFrom (execS .fixed) (emptyState live3) schedTwoLockers).map
      fun s => s.holds 102 && s.alive 102 && s.file.isNone && !observe s 103) = some true := by decide
  cases hr : runFrom (execS .fixed) (emptyState live3) schedTwoLockers with
  | none => simp [hr] at h
  | some s =>
    simp only [hr, Option.map_some, Option.some.injEq, Bool.and_eq_true, Bool.not_eq_true',
      Option.isNone_iff_eq_none] at h
    exact ⟨s, reachable_of_sched _ _ _ hr, h.1.1.1, h.1.1.2, h.1.2, h.2⟩

/-- Hence `C25_visible` at full strength (all schedules) does not hold of the repaired code either. -/
theorem C25_visible_unrestricted_false :
    ¬ ∀ (s : State) (w : Pid), Reachable (sys .fixed) s → w < usizeBound → s.holds w = true →
        s.alive w = true → flagShows s w := by
  intro hall
  obtain ⟨s, hr, hh, ha, hn, _⟩ := C25_visible_false
  exact hn (hall s 102 hr (by decide) hh ha)

/-! ## Non-vacuity: a schedule of `sysIso` reaches a state that meets the hypotheses -/

def schedHeld : List Label :=
  [.start 101 .markDirty] ++ steps 101 7 ++ [.start 102 .isFileDirty] ++ steps 102 6 ++ [.start 101 .getLockerPid, .step 101]

example : ((runFrom (execS .fixed) (emptyState live3) schedHeld).map
    fun s => s.holds 101 && s.alive 101 && flagShowsB s 101 && observe s 102) = some true := by decide

end SwayVerif.C25
