import SwayVerif.Model.Asm
import SwayVerif.Lemmas.AsmLive
import SwayVerif.Lemmas.AsmGraph
import SwayVerif.Lemmas.AsmSim
import SwayVerif.Lemmas.AsmLiveTerm
/-!
# C08 — register allocation never clobbers a live value

Property theorems only; helper lemmas live in `SwayVerif/Lemmas/Asm{Live,Graph,Sim}.lean`.
Model: `SwayVerif/Model/Asm.lean` (liveness, interference graph, coalescing, assignment, spill
slots of `sway-core/src/asm_generation/fuel/{analyses,register_allocator}.rs`, the checker
`validAlloc`, and the abstract machine both the virtual-register and the allocated program run on).

All statements hold for EVERY op list, live-out table, graph, stack and colouring — nothing depends
on the simplify / spill-candidate heuristics of `color_interference_graph`, which are not modelled:
the real allocator's result is instead checked on every run with the proved checker `validAlloc`.

"Two registers never share a location" has the one textbook exception the code makes on purpose:
at `MOVE v w` the graph gets no edge `v – w`, so the copy and its source may share a register (they
hold the same value until one of them is redefined, and that definition adds the edge).
`C08_simulation` shows this is harmless.
-/
namespace SwayVerif.C08
open SwayVerif.Asm

/-- The tables returned by the liveness loop solve the dataflow inequations
`use ⊆ in`, `out \ def ⊆ in`, `in(succ) ⊆ out` (for the registers the analysis looks at). -/
theorem liveness_is_solution (ic : Bool) (ops : List AOp) (lo : List RSet)
    (h : liveness ic ops = some lo) : ∃ li, Solution ic ops li lo := by
  unfold liveness at h
  cases hf : livenessFull ic ops with
  | none => rw [hf] at h; cases h
  | some st =>
    rw [hf] at h
    simp only [Option.map_some, Option.some.injEq] at h
    subst h
    exact ⟨st.liveIn, liveLoop_solution hf⟩

/-- The loop bound of the model is never reached: for every op list the liveness loop reaches its
fixpoint, the table has one duplicate-free set per op. -/
theorem liveness_total (ic : Bool) (ops : List AOp) :
    ∃ lo, liveness ic ops = some lo ∧ lo.length = ops.length ∧ ∀ s ∈ lo, s.Nodup := by
  cases hf : livenessFull ic ops with
  | none => exact absurd hf (livenessFull_ne_none ic ops)
  | some st =>
    have inv := liveLoop_inv _ _ _ (linv_init ic ops) hf
    exact ⟨st.liveOut, by simp [liveness, hf], inv.lenOut, fun s hs => (inv.okOut s hs).1⟩

/-- Soundness along paths: if on some control-flow path leaving op `i` through its successor `s`
register `r` is read before being redefined, then `r` is in `live_out[i]`. -/
theorem liveness_sound (ic : Bool) (ops : List AOp) (lo : List RSet)
    (h : liveness ic ops = some lo) (r : Reg) (hk : keepReg ic r = true)
    (i : Nat) (op : AOp) (hop : ops[i]? = some op) (s : Nat) (hs : s ∈ op.succ)
    (hread : ReadBeforeDef ops r s) : r ∈ lo.getD i [] := by
  obtain ⟨li, hsol⟩ := liveness_is_solution ic ops lo h
  exact (hsol i op hop).2.2 s hs r (solution_liveIn_of_read hsol hk hread)

/-- `create_interference_graph`: whenever `v` is defined at an op, `w ≠ v` is live after it and the op
is not `MOVE v w`, the graph has the edge `v → w`; and every edge joins two different virtual
registers. For every op list and every live-out table. -/
theorem interference_complete (ops : List AOp) (lo : List RSet) :
    (∀ x ∈ ops.zip lo, OpInterfD (interference ops lo) x.1 x.2) ∧ GraphOk (interference ops lo) :=
  ⟨interferenceFrom_complete, interferenceFrom_ok (by intro a b h; cases h)⟩

/-- `coalesce_registers`, for ANY safety test (`safe` abstracts Briggs/George): if the graph was
complete for the ops before, the merged graph is complete for the reduced, renamed ops with the
renamed live-out table. -/
theorem coalesce_keeps_interference (safe : Graph → Reg → Reg → Bool) (ops : List AOp)
    (lo : List RSet) (g : Graph) (hok : GraphOk g) (hc : InterfComplete (ops.zip lo) g) :
    InterfComplete ((coalesceWith safe ops lo g).ops.zip (coalesceWith safe ops lo g).liveOut)
      (coalesceWith safe ops lo g).graph := by
  have inv := coInv_foldl (safe := safe) (ops.zip lo) (coInv_init hok)
  intro x hx
  simp only [coalesceWith, List.zip_map', List.mem_map] at hx
  obtain ⟨y, hy, rfl⟩ := hx
  have hy' : y ∈ ops.zip lo := by
    rcases kept_foldl_subset _ (List.mem_reverse.1 hy) with h | h
    · cases h
    · exact h
  exact opInterf_rename inv.edges inv.virt (hc y hy')

/-- The renaming computed by coalescing is itself a clobber-free "allocation" of the ORIGINAL ops
(registers are only merged when no edge joins them), so `C08_simulation` applies to it as well. -/
theorem coalesce_rename_no_clobber (safe : Graph → Reg → Reg → Bool) (ops : List AOp)
    (lo : List RSet) (g : Graph) (hok : GraphOk g) (hc : InterfComplete (ops.zip lo) g) :
    NoClobber ops lo (fun r => some (rep (coalesceWith safe ops lo g).map r)) := by
  have inv := coInv_foldl (safe := safe) (ops.zip lo) (coInv_init hok)
  intro x hx v hv hvv w hw hwv hne hmv c hc1 hc2
  simp only [coalesceWith, Option.some.injEq] at hc1 hc2
  rcases adj_iff.1 (hc x hx v hv hvv w hw hwv hne hmv) with e | e
  · exact (inv.edges _ _ e).1 (hc1.trans hc2.symm)
  · exact (inv.edges _ _ e).1 (hc2.trans hc1.symm)

/-- `assign_registers`, for EVERY graph and EVERY stack (any order, partial, with repeats): two
different adjacent nodes that both receive a pool register receive different ones. -/
theorem assign_proper (g : Graph) (K : Nat) (stack : List Reg) (pool : Pool)
    (h : assign g K stack = some pool) (a b : Reg) (hab : a ≠ b) (hadj : adj g a b = true)
    (k : Nat) (ha : colourOf pool a = some k) : colourOf pool b ≠ some k := by
  intro hb
  have inv := poolInv_assignFrom poolInv_replicate h
  obtain ⟨_, ua, hua, haa⟩ := colourFrom_some ha
  obtain ⟨_, ub, hub, hbb⟩ := colourFrom_some hb
  rw [hua] at hub
  simp only [Option.some.injEq] at hub
  subst hub
  have := inv ua (List.mem_of_getElem? hua) a haa b hbb hab
  rw [this] at hadj
  cases hadj

/-- `assign_registers` either fails or gives every virtual register on the stack one of the `K`
pool registers. -/
theorem assign_total_or_error (g : Graph) (K : Nat) (stack : List Reg) (pool : Pool)
    (h : assign g K stack = some pool) (n : Reg) (hn : n ∈ stack) (hv : n.isVirt = true) :
    ∃ k, colourOf pool n = some k ∧ k < K := by
  obtain ⟨hlen, _, hcov⟩ := assignFrom_spec h
  obtain ⟨k, hk, hlt⟩ := colourFrom_isSome (j := 0) (hcov n (List.mem_reverse.2 hn) hv)
  exact ⟨k, hk, by simpa [hlen] using hlt⟩

/-- `spill_offsets`: every spilled register gets exactly one slot; slots are at or above
`locals`, a multiple of 8 away from it, and the 8-byte slots of different registers do not overlap. -/
theorem spill_offsets_disjoint (spills : List Reg) (locals : Nat) (offs : List (Reg × Nat))
    (h : spillOffsets spills locals = some offs) :
    (∀ r, r ∈ spills ↔ ∃ o, (r, o) ∈ offs) ∧
    (∀ r o o', (r, o) ∈ offs → (r, o') ∈ offs → o = o') ∧
    (∀ r o, (r, o) ∈ offs → locals ≤ o ∧ (o - locals) % 8 = 0 ∧ o + 8 ≤ 2 ^ 32) ∧
    (∀ r₁ o₁ r₂ o₂, (r₁, o₁) ∈ offs → (r₂, o₂) ∈ offs → r₁ ≠ r₂ → o₁ + 8 ≤ o₂ ∨ o₂ + 8 ≤ o₁) := by
  unfold spillOffsets at h
  simp only at h
  split at h
  case isFalse => cases h
  case isTrue hlt =>
  simp only [Option.some.injEq] at h
  subst h
  obtain ⟨hnd, hmem⟩ := sortRegs_spec spills
  refine ⟨fun r => ?_, fun r o o' h1 h2 => ?_, fun r o h1 => ?_, fun r₁ o₁ r₂ o₂ h1 h2 hne => ?_⟩
  · rw [← hmem]
    constructor
    · intro hr
      obtain ⟨j, hj, hjr⟩ := List.getElem_of_mem hr
      exact ⟨_, mem_offsetsFrom.2 ⟨j, by simp [hj, hjr], rfl⟩⟩
    · rintro ⟨o, ho⟩
      obtain ⟨j, hj, _⟩ := mem_offsetsFrom.1 ho
      exact List.mem_of_getElem? hj
  · obtain ⟨j, hj, rfl⟩ := mem_offsetsFrom.1 h1
    obtain ⟨j', hj', rfl⟩ := mem_offsetsFrom.1 h2
    rw [nodup_getElem?_inj hnd hj hj']
  · obtain ⟨j, hj, rfl⟩ := mem_offsetsFrom.1 h1
    obtain ⟨hjl, _⟩ := List.getElem?_eq_some_iff.1 hj
    refine ⟨by omega, by omega, by omega⟩
  · obtain ⟨j, hj, rfl⟩ := mem_offsetsFrom.1 h1
    obtain ⟨j', hj', rfl⟩ := mem_offsetsFrom.1 h2
    have : j ≠ j' := by
      intro e; rw [e, hj'] at hj
      exact hne (by simpa using hj.symm)
    omega

/-- Composition. If the graph is complete for the ops (w.r.t. a live-out table) and a colouring
gives different adjacent nodes different pool registers, then no definition overwrites a register
that is live after it (MOVE exception as explained in the header). -/
theorem C08_no_clobber (ops : List AOp) (lo : List RSet) (g : Graph) (col : Reg → Option Nat)
    (hc : InterfComplete (ops.zip lo) g)
    (hproper : ∀ a b, a ≠ b → adj g a b = true → ∀ k, col a = some k → col b ≠ some k) :
    NoClobber ops lo col := by
  intro x hx v hv hvv w hw hwv hne hmv c hcv
  exact hproper v w (fun e => hne e.symm) (hc x hx v hv hvv w hw hwv hne hmv) c hcv

/-- The model pipeline end to end, for every op list, every coalescing safety test and every
colouring stack: liveness → interference graph → coalescing → assignment yields a clobber-free
allocation of the coalesced program (w.r.t. the renamed live-out table). -/
theorem C08_no_clobber_pipeline (safe : Graph → Reg → Reg → Bool) (ops : List AOp) (lo : List RSet)
    (K : Nat) (stack : List Reg) (pool : Pool)
    (h : assign (coalesceWith safe ops lo (interference ops lo)).graph K stack = some pool) :
    NoClobber (coalesceWith safe ops lo (interference ops lo)).ops
      (coalesceWith safe ops lo (interference ops lo)).liveOut (colourOf pool) := by
  obtain ⟨hcomp, hok⟩ := interference_complete ops lo
  have hc : InterfComplete (ops.zip lo) (interference ops lo) :=
    fun x hx v hv hvv w hw hwv hne hmv => adj_iff.2 (Or.inl (hcomp x hx v hv hvv w hw hwv hne hmv))
  exact C08_no_clobber _ _ _ _ (coalesce_keeps_interference safe ops lo _ hok hc)
    (fun a b hab hadj k hk => assign_proper _ K stack pool h a b hab hadj k hk)

/-- The checker is sound: `validAlloc = true` implies the live-out table has the right length, no
definition clobbers a live register, and every virtual register has a pool register `< K`. -/
theorem validAlloc_sound (ops : List AOp) (lo : List RSet) (col : Reg → Option Nat) (K : Nat)
    (h : validAlloc ops lo col K = true) :
    lo.length = ops.length ∧ NoClobber ops lo col ∧ Located ops lo col K :=
  validAlloc_spec h

/-- The end-to-end checker of one colouring round is sound: if `validRound` accepts, then the
COMPOSED location map (coalescing renaming `m`, then pool register `col`) is a clobber-free, total
allocation of the op list `pre` the round started from — a wrong merge by `coalesce_registers` shows
up as a clobber in `pre`, a wrong colour too. (`coalesceMatches`, the second half of the checker,
only states that the final ops are the renamed `pre` minus self-moves.) -/
theorem validRound_sound (pre : List AOp) (lo : List RSet) (m : RegMap) (col : Reg → Option Nat)
    (K : Nat) (fin : List AOp) (h : validRound pre lo m col K fin = true) :
    lo.length = pre.length ∧ NoClobber pre lo (fun r => col (rep m r)) ∧
      Located pre lo (fun r => col (rep m r)) K := by
  unfold validRound at h
  simp only [Bool.and_eq_true] at h
  exact validAlloc_spec h.1

/-- Simulation (colouring stage). For ARBITRARY op semantics `sem` that reads only `uses`, writes
only `defs ++ defConst` and implements MOVE as a copy (`SemOk`), any solution `li, lo` of the
liveness inequations and any clobber-free, total colouring: every step of the virtual-register
program from a state `s` is matched by the same step of the allocated program (same ops with
registers replaced by pool registers) from any related state `t`, and the results are related again
(`Related`: same pc and memory, live-in registers found in their pool registers, constants equal).

Not covered by this theorem: that removing a coalesced `MOVE` (both ends renamed to one register,
see `coalesce_rename_no_clobber`) and inserting the spill code of `spill` preserve the semantics of
the op list; for spilling only the slot assignment is proved (`spill_offsets_disjoint`), the spilled
program is validated per function by `validSlots` and on the VM by the harness. -/
theorem C08_simulation {V M : Type} (sem : Sem V M) (ops : List AOp) (li lo : List RSet)
    (col : Reg → Option Nat) (K : Nat)
    (hsol : Solution true ops li lo) (hlen : lo.length = ops.length)
    (hnc : NoClobber ops lo col) (hloc : Located ops lo col K) (hsem : SemOk sem ops)
    (s t s' : MState V M) (hR : Related col li s t) (hstep : step sem ops s = some s') :
    ∃ t', step sem (ops.map (mapOp (allocReg col))) t = some t' ∧ Related col li s' t' :=
  simulation_step sem ops li lo col K hsol hlen hnc hloc hsem s t s' hR hstep

/-- n steps of the machine -/
def stepN {V M : Type} (sem : Sem V M) (ops : List AOp) : Nat → MState V M → Option (MState V M)
  | 0, s => some s
  | n + 1, s => (step sem ops s).bind (stepN sem ops n)

/-- What the run-time check establishes: if the model's liveness of the final op list is `lo` and
`validAlloc` accepts the allocator's assignment, then every finite run of the virtual-register
program is reproduced by the allocated program. -/
theorem C08_checked_simulation {V M : Type} (sem : Sem V M) (ops : List AOp) (lo : List RSet)
    (col : Reg → Option Nat) (K : Nat)
    (hlive : liveness true ops = some lo) (hvalid : validAlloc ops lo col K = true)
    (hsem : SemOk sem ops) :
    ∃ li, ∀ (n : Nat) (s t s' : MState V M), Related col li s t → stepN sem ops n s = some s' →
      ∃ t', stepN sem (ops.map (mapOp (allocReg col))) n t = some t' ∧ Related col li s' t' := by
  obtain ⟨li, hsol⟩ := liveness_is_solution true ops lo hlive
  obtain ⟨hlen, hnc, hloc⟩ := validAlloc_sound ops lo col K hvalid
  refine ⟨li, fun n => ?_⟩
  induction n with
  | zero =>
    intro s t s' hR h
    simp only [stepN, Option.some.injEq] at h
    subst h
    exact ⟨t, rfl, hR⟩
  | succ n ih =>
    intro s t s' hR h
    simp only [stepN] at h
    cases h1 : step sem ops s with
    | none => rw [h1] at h; cases h
    | some s1 =>
      rw [h1] at h
      obtain ⟨t1, ht1, hR1⟩ := C08_simulation sem ops li lo col K hsol hlen hnc hloc hsem s t s1 hR h1
      obtain ⟨t', ht', hR'⟩ := ih s1 t1 s' hR1 h
      exact ⟨t', by simp only [stepN, ht1]; exact ht', hR'⟩

/-! ### non-vacuity: concrete instances meeting the hypotheses -/

/-- A loop: `v0` is live around the back edge, the liveness loop reaches its fixpoint. -/
example : liveness true
    [ { kind := .label 1, defs := [], uses := [], succ := [1] },
      { kind := .other "ADD" none, defs := [.virt 1], uses := [.virt 0, .virt 1], succ := [2] },
      { kind := .jnz 1, defs := [], uses := [.virt 1], succ := [0, 3] },
      { kind := .rvrt, defs := [], uses := [.virt 0], succ := [] } ]
    = some [[.virt 0, .virt 1], [.virt 1, .virt 0], [.virt 0, .virt 1], []] := by decide

/-- `MOVE v1 v0` with both live afterwards: no edge between the ends of the move, edges elsewhere. -/
example : interference
    [ { kind := .move, defs := [.virt 1], uses := [.virt 0] },
      { kind := .other "ADD" none, defs := [.virt 2], uses := [.virt 0, .virt 1] } ]
    [[.virt 0, .virt 1, .virt 3], [.virt 3]] = [(.virt 1, .virt 3), (.virt 2, .virt 3)] := by decide

example : assign [(.virt 0, .virt 1), (.virt 1, .virt 2)] 2 [.virt 0, .virt 1, .virt 2]
    = some [[.virt 2, .virt 0], [.virt 1]] := by decide

example : spillOffsets [.virt 7, .virt 3, .virt 7] 16 = some [(.virt 3, 16), (.virt 7, 24)] := by decide

/-- the checker accepts a proper allocation and rejects one that clobbers `v0` -/
example : validAlloc
    [ { kind := .other "MOVI" none, defs := [.virt 0], uses := [] },
      { kind := .other "MOVI" none, defs := [.virt 1], uses := [] },
      { kind := .other "ADD" none, defs := [.virt 2], uses := [.virt 0, .virt 1] } ]
    [[.virt 0], [.virt 0, .virt 1], []]
    (fun r => match r with | .virt 0 => some 0 | .virt 1 => some 1 | .virt 2 => some 0 | _ => none) 2
    = true := by decide

example : validAlloc
    [ { kind := .other "MOVI" none, defs := [.virt 0], uses := [] },
      { kind := .other "MOVI" none, defs := [.virt 1], uses := [] },
      { kind := .other "ADD" none, defs := [.virt 2], uses := [.virt 0, .virt 1] } ]
    [[.virt 0], [.virt 0, .virt 1], []]
    (fun r => match r with | .virt 0 => some 0 | .virt 1 => some 0 | .virt 2 => some 1 | _ => none) 2
    = false := by decide

end SwayVerif.C08
