import SwayVerif.Model.SwaySem
import SwayVerif.Lemmas.SwaySem
/-!
# C01 — compiled scripts compute what the Sway semantics prescribe

`Model/SwaySem.lean` is the reference semantics ("what the Sway semantics prescribe"): a definitional interpreter
whose arithmetic is the `sway-lib-std/src/ops.sw` recipe over a model of the FuelVM ALU. This file proves

* the documented arithmetic rules as theorems about that recipe (`arith_*_spec`: `+ - *` revert exactly on
  overflow/underflow of the operand width — including the `u8/u16/u32` range checks and the 256-bit width —,
  `/ %` revert exactly on a zero divisor, `<< >> !` never revert and wrap to the width),
* that an out-of-bounds dynamic index is a prescribed revert (`index_oob_reverts`),
* meta-properties of the interpreter: it is a function (`eval_deterministic`), and more fuel never changes a
  finished outcome (`eval_fuel_mono`), so "the outcome of `p`" is well defined.

Compiler correctness itself is NOT proved: see `C01_partial`.
-/
namespace SwayVerif.C01
open SwayVerif.SwaySem

theorem max_u8 : W.max .u8 = 255 := by decide
theorem max_u16 : W.max .u16 = 65535 := by decide
theorem max_u32 : W.max .u32 = 4294967295 := by decide
theorem max_u64 : W.max .u64 = 18446744073709551615 := by decide
theorem max_u256 : W.max .u256 = 115792089237316195423570985008687907853269984665640564039457584007913129639935 := by
  simp [W.max, W.bits]
theorem word_eq : word = 18446744073709551616 := by decide
theorem wide_eq : wide = 115792089237316195423570985008687907853269984665640564039457584007913129639936 := by
  simp [wide]

theorem narrow_add (m a b : Nat) (hm : m ≤ 4294967295) (ha : a ≤ m) (hb : b ≤ m) :
    (vmAdd a b).bind (fun r => if vmGt r m then none else some r) = if a + b ≤ m then some (a + b) else none := by
  have h : a + b < 18446744073709551616 := by omega
  simp only [vmAdd, word_eq, h, if_true, Option.bind, vmGt]
  by_cases h2 : a + b ≤ m
  · simp [h2]
  · simp [h2]

theorem narrow_sub (m a b : Nat) (ha : a ≤ m) :
    (vmSub a b).bind (fun r => if vmGt r m then none else some r) = if b ≤ a then some (a - b) else none := by
  simp only [vmSub, vmGt]
  by_cases h : b ≤ a
  · have : ¬ (m < a - b) := by omega
    simp [h, this]
  · simp [h]

theorem narrow_mul (m a b : Nat) (hm : m ≤ 4294967295) (ha : a ≤ m) (hb : b ≤ m) :
    (vmMul a b).bind (fun r => if vmGt r m then none else some r) = if a * b ≤ m then some (a * b) else none := by
  have h1 : a * b ≤ m * m := Nat.mul_le_mul ha hb
  have h2 : m * m ≤ 4294967295 * 4294967295 := Nat.mul_le_mul hm hm
  have h : a * b < 18446744073709551616 := by omega
  simp only [vmMul, word_eq, h, if_true, Option.bind, vmGt]
  by_cases h2 : a * b ≤ m
  · simp [h2]
  · simp [h2]

/-- `a + b` on `uN`: the sum when it fits, a revert otherwise. -/
theorem arith_add_spec (w : W) (a b : Nat) (ha : a ≤ w.max) (hb : b ≤ w.max) :
    evalAdd w a b = if a + b ≤ w.max then some (a + b) else none := by
  cases w
  · rw [max_u8] at *; exact narrow_add 255 a b (by omega) ha hb
  · rw [max_u16] at *; exact narrow_add 65535 a b (by omega) ha hb
  · rw [max_u32] at *; exact narrow_add 4294967295 a b (by omega) ha hb
  · rw [max_u64] at *; simp only [evalAdd, vmAdd, word_eq]
    by_cases h : a + b ≤ 18446744073709551615 <;> simp [h] <;> omega
  · rw [max_u256] at *; simp only [evalAdd, wqAdd, wide_eq]
    by_cases h : a + b ≤ 115792089237316195423570985008687907853269984665640564039457584007913129639935 <;> simp [h] <;> omega

/-- `a - b` on `uN`: the difference when `b ≤ a`, a revert (underflow) otherwise. -/
theorem arith_sub_spec (w : W) (a b : Nat) (ha : a ≤ w.max) :
    evalSub w a b = if b ≤ a then some (a - b) else none := by
  cases w
  · exact narrow_sub _ a b ha
  · exact narrow_sub _ a b ha
  · exact narrow_sub _ a b ha
  · simp only [evalSub, vmSub]
  · simp only [evalSub, wqSub]

/-- `a * b` on `uN`: the product when it fits, a revert otherwise. -/
theorem arith_mul_spec (w : W) (a b : Nat) (ha : a ≤ w.max) (hb : b ≤ w.max) :
    evalMul w a b = if a * b ≤ w.max then some (a * b) else none := by
  cases w
  · rw [max_u8] at *; exact narrow_mul 255 a b (by omega) ha hb
  · rw [max_u16] at *; exact narrow_mul 65535 a b (by omega) ha hb
  · rw [max_u32] at *; exact narrow_mul 4294967295 a b (by omega) ha hb
  · rw [max_u64] at *; simp only [evalMul, vmMul, word_eq]
    by_cases h : a * b ≤ 18446744073709551615 <;> simp [h] <;> omega
  · rw [max_u256] at *; simp only [evalMul, wqMul, wide_eq]
    by_cases h : a * b ≤ 115792089237316195423570985008687907853269984665640564039457584007913129639935 <;> simp [h] <;> omega

/-- `a / b`: the quotient, a revert when the divisor is zero. -/
theorem arith_div_spec (w : W) (a b : Nat) : evalDiv w a b = if b = 0 then none else some (a / b) := by
  cases w <;> rfl

/-- `a % b`: the remainder, a revert when the divisor is zero. -/
theorem arith_mod_spec (w : W) (a b : Nat) : evalMod w a b = if b = 0 then none else some (a % b) := by
  cases w <;> rfl

theorem div_mod_zero_reverts (w : W) (a : Nat) : evalBin .div w a 0 = none ∧ evalBin .mod w a 0 = none := by
  simp [evalBin, arith_div_spec, arith_mod_spec]

theorem shl_aux (a s n k : Nat) (hk : k ≤ n) :
    (if s < n then (a <<< s) % 2 ^ n else 0) % 2 ^ k = a * 2 ^ s % 2 ^ k := by
  by_cases h : s < n
  · simp only [h, if_true, Nat.shiftLeft_eq]
    exact Nat.mod_mod_of_dvd _ (Nat.pow_dvd_pow 2 hk)
  · simp only [h, if_false, Nat.zero_mod]
    have : 2 ^ k ∣ a * 2 ^ s := Nat.dvd_trans (Nat.pow_dvd_pow 2 (by omega)) (Nat.dvd_mul_left _ _)
    exact (Nat.mod_eq_zero_of_dvd this).symm

/-- `a << s` on `uN`: the low `N` bits of `a·2^s` (0 once `s ≥ N`); never reverts. -/
theorem arith_shl_spec (w : W) (a s : Nat) : evalShl w a s = a * 2 ^ s % 2 ^ w.bits := by
  cases w
  · have := shl_aux a s 64 8 (by omega)
    simp only [evalShl, vmAnd, vmSll, word, W.max, W.bits, Nat.and_two_pow_sub_one_eq_mod]; exact this
  · have := shl_aux a s 64 16 (by omega)
    simp only [evalShl, vmAnd, vmSll, word, W.max, W.bits, Nat.and_two_pow_sub_one_eq_mod]; exact this
  · have := shl_aux a s 64 32 (by omega)
    simp only [evalShl, vmAnd, vmSll, word, W.max, W.bits, Nat.and_two_pow_sub_one_eq_mod]; exact this
  · have := shl_aux a s 64 64 (by omega)
    simp only [evalShl, vmSll, word, W.bits]
    by_cases h : s < 64
    · simp [h, Nat.shiftLeft_eq]
    · simp only [h, if_false] at this ⊢; simpa using this
  · have := shl_aux a s 256 256 (by omega)
    simp only [evalShl, wqShl, wide, W.bits]
    by_cases h : s < 256
    · simp [h, Nat.shiftLeft_eq]
    · simp only [h, if_false] at this ⊢; simpa using this

theorem shr_aux (a s n : Nat) (ha : a < 2 ^ n) : (if s < n then a >>> s else 0) = a / 2 ^ s := by
  by_cases h : s < n
  · simp [h, Nat.shiftRight_eq_div_pow]
  · simp only [h, if_false]
    have : 2 ^ n ≤ 2 ^ s := Nat.pow_le_pow_right (by omega) (by omega)
    exact (Nat.div_eq_of_lt (by omega)).symm

/-- `a >> s` on `uN`: `a / 2^s` (0 once `s ≥ N`); never reverts. -/
theorem arith_shr_spec (w : W) (a s : Nat) (ha : a ≤ w.max) : evalShr w a s = a / 2 ^ s := by
  cases w
  · rw [max_u8] at ha; exact shr_aux a s 64 (by omega)
  · rw [max_u16] at ha; exact shr_aux a s 64 (by omega)
  · rw [max_u32] at ha; exact shr_aux a s 64 (by omega)
  · rw [max_u64] at ha; exact shr_aux a s 64 (by omega)
  · rw [max_u256] at ha; exact shr_aux a s 256 (by omega)

/-- `!a` on `uN`: the bitwise complement within `N` bits. -/
theorem arith_not_spec (w : W) (a : Nat) (ha : a ≤ w.max) : evalNot w a = w.max - a := by
  cases w
  · rw [max_u8] at *; simp only [evalNot, vmAnd, vmNot, word_eq, max_u8]
    have : (255 : Nat) = 2 ^ 8 - 1 := by decide
    rw [this, Nat.and_two_pow_sub_one_eq_mod]; omega
  · rw [max_u16] at *; simp only [evalNot, vmAnd, vmNot, word_eq, max_u16]
    have : (65535 : Nat) = 2 ^ 16 - 1 := by decide
    rw [this, Nat.and_two_pow_sub_one_eq_mod]; omega
  · rw [max_u32] at *; simp only [evalNot, vmAnd, vmNot, word_eq, max_u32]
    have : (4294967295 : Nat) = 2 ^ 32 - 1 := by decide
    rw [this, Nat.and_two_pow_sub_one_eq_mod]; omega
  · rw [max_u64] at *; simp only [evalNot, vmNot, word_eq]
  · rw [max_u256] at *; simp only [evalNot, wqNot, wide_eq]


/-- the results of the arithmetic recipes stay inside the operand width -/
theorem arith_result_in_range (op : BinOp) (w : W) (a b r : Nat) (ha : a ≤ w.max) (hb : b ≤ w.max)
    (hop : op = .add ∨ op = .sub ∨ op = .mul ∨ op = .div ∨ op = .mod) (h : evalBin op w a b = some r) : r ≤ w.max := by
  rcases hop with h' | h' | h' | h' | h' <;> subst h' <;> simp only [evalBin] at h
  · rw [arith_add_spec w a b ha hb] at h; split at h <;> simp at h; omega
  · rw [arith_sub_spec w a b ha] at h; split at h <;> simp at h; omega
  · rw [arith_mul_spec w a b ha hb] at h; split at h <;> simp at h; omega
  · rw [arith_div_spec] at h; split at h <;> simp at h
    have := Nat.div_le_self a b; omega
  · rw [arith_mod_spec] at h; split at h <;> simp at h
    have : a % b ≤ a := Nat.mod_le a b
    omega

/-- An out-of-bounds run-time array index is a prescribed revert (`Fail.oob`), whatever the logs so far. -/
theorem index_oob_reverts (vs : List Val) (n : Nat) (s : St) (h : vs.length ≤ n) :
    idxVal (.tup vs) (.int .u64 n) s = .fail .oob s.logs := by
  simp only [idxVal, failS]
  have : vs[n]? = none := List.getElem?_eq_none h
  rw [this]

/-- an in-bounds index selects the element and changes nothing else -/
theorem index_inbounds (vs : List Val) (n : Nat) (s : St) (h : n < vs.length) :
    idxVal (.tup vs) (.int .u64 n) s = .ok vs[n] s := by
  simp only [idxVal]
  rw [List.getElem?_eq_getElem h]

/-- The semantics is a function of the program and the fuel: trivially deterministic (stated because the
property speaks of "the" prescribed value). -/
theorem eval_deterministic (p : Prog) (fuel : Nat) (o₁ o₂ : Outcome)
    (h₁ : run p fuel = o₁) (h₂ : run p fuel = o₂) : o₁ = o₂ := h₁ ▸ h₂

/-- More fuel never changes a finished outcome (anything but `outOfFuel`), also for the lenient runs. -/
theorem eval_fuel_mono_skip (p : Prog) (k n m : Nat) (o : Outcome) (h : runSkip p n k = o)
    (hf : o.finished = true) (hnm : n ≤ m) : runSkip p m k = o := by
  have hle := (evals_mono p.fns hnm).b p.main { env := [], logs := [], skip := k }
  simp only [runSkip] at h ⊢
  rcases hle with hoof | heq
  · rw [hoof] at h
    subst h
    simp [Outcome.ofRes, Outcome.finished] at hf
  · rw [← heq]; exact h

/-- More fuel never changes a finished outcome of the prescriptive semantics. -/
theorem eval_fuel_mono (p : Prog) (n m : Nat) (o : Outcome) (h : run p n = o)
    (hf : o.finished = true) (hnm : n ≤ m) : run p m = o :=
  eval_fuel_mono_skip p 0 n m o h hf hnm

/-- two finished outcomes of the same program at any two fuel levels coincide: "the" outcome is well defined -/
theorem eval_outcome_unique (p : Prog) (n m : Nat) (hn : (run p n).finished = true) (hm : (run p m).finished = true) :
    run p n = run p m := by
  rcases Nat.le_total n m with h | h
  · exact (eval_fuel_mono p n m _ rfl hn h).symm
  · exact eval_fuel_mono p m n _ rfl hm h

/-- non-vacuity: a program that logs `250u8 + 5u8`, then reverts on `250u8 + 6u8` -/
example : run { fns := [], main := [.log (.bin .add (.lit .u8 250) (.lit .u8 5)),
                                    .log (.bin .add (.lit .u8 250) (.lit .u8 6))] } 10
    = .revert 0 [[255]] := by decide

/-- **Well-typed programs do not get stuck — partial.** For the *closed scalar sub-fragment* (literals in range,
`+ - * / % << >> & | ^ !`, comparisons, `&& || !`, widening casts, typed by `SwaySem.tyE`) evaluation at any fuel
yields a value of the expression's type with state and logs unchanged, an arithmetic revert (`revert 0`, logs
unchanged), or runs out of fuel — never `stuck`, `unsupported`, `oob`, nor a stray control signal. So in this
fragment the semantics prescribes a revert exactly in the cases `arith_*_spec` enumerate.
PARTIAL: variables, aggregates, control flow, calls are outside the typed fragment (for them `stuck` is ruled out
only per program, by the driver: a `stuck` answer of the model is reported as a disagreement). -/
theorem welltyped_no_stuck_partial (fns : List Fn) (n : Nat) (e : Expr) (t : STy) (s : St)
    (hs : s.skip = 0) (ht : tyE e = some t) :
    GoodRes s t ((evals fns n).e e s) ∧
    (∀ l, (evals fns n).e e s ≠ .fail .stuck l) ∧ (∀ l, (evals fns n).e e s ≠ .fail .unsupported l) := by
  have h := scalar_good fns n e t s hs ht
  refine ⟨h, fun l hl => ?_, fun l hl => ?_⟩ <;> rw [hl] at h <;> exact h

/-- non-vacuity: `(250u8 + 5u8) < 7u8 << 1` is in the typed fragment -/
example : tyE (.cmp .lt (.bin .add (.lit .u8 250) (.lit .u8 5)) (.bin .shl (.lit .u8 7) (.lit .u64 1))) = some .bool := by
  decide

/-- **C01, partial.** What is proved: the reference semantics is well defined (fuel-independent once finished)
and its arithmetic obeys the documented rules for every width and all operands.
What is NOT proved: that the bytecode `forc` produces computes `SwaySem.run` — the 110k-line compiler is not
modelled. That half of C01 is *validated per program* (translation validation): `sv_c01` generates well-typed
programs of the fragment, builds each with the real compiler in the debug and the release profile, runs both on
the real FuelVM, and `Driver/C01.lean` compares return/revert status, revert code and every logged payload with
`SwaySem.run` of the same AST. -/
theorem C01_partial :
    (∀ (p : Prog) (n m : Nat), (run p n).finished = true → n ≤ m → run p m = run p n) ∧
    (∀ (w : W) (a b : Nat), a ≤ w.max → b ≤ w.max →
      evalBin .add w a b = (if a + b ≤ w.max then some (a + b) else none) ∧
      evalBin .sub w a b = (if b ≤ a then some (a - b) else none) ∧
      evalBin .mul w a b = (if a * b ≤ w.max then some (a * b) else none) ∧
      evalBin .div w a b = (if b = 0 then none else some (a / b)) ∧
      evalBin .mod w a b = (if b = 0 then none else some (a % b)) ∧
      evalNot w a = w.max - a ∧
      (∀ s, evalBin .shl w a s = some (a * 2 ^ s % 2 ^ w.bits) ∧ evalBin .shr w a s = some (a / 2 ^ s))) := by
  refine ⟨fun p n m hf h => eval_fuel_mono p n m _ rfl hf h, fun w a b ha hb => ?_⟩
  simp only [evalBin]
  exact ⟨arith_add_spec w a b ha hb, arith_sub_spec w a b ha, arith_mul_spec w a b ha hb, arith_div_spec w a b,
    arith_mod_spec w a b, arith_not_spec w a ha,
    fun s => ⟨by rw [arith_shl_spec], by rw [arith_shr_spec w a s ha]⟩⟩

end SwayVerif.C01
