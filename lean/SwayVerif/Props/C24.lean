import SwayVerif.Lemmas.LspSched
import SwayVerif.Model.LspSchedTree
/-!
# C24 — LSP compilation scheduling neither hangs nor drops edits

Model: `SwayVerif.LspSched` (`Model/LspSched.lean`): the flag / channel / notify protocol between the
compilation worker thread and the `did_open` / `did_change` / `did_save` handlers and
`wait_for_parsing`, one step per shared access, any number of handlers, every interleaving
(`Step`: handlers pre-emptible everywhere). `Cfg.fixed` is the code in the tree, `Cfg.orig` the code
before the `fix:` commit. All theorems quantify over every reachable state, i.e. over unboundedly
many client events and every schedule.
-/
namespace SwayVerif.C24
open SwayVerif.LspSched

/-- (a), general form: if `wait_for_parsing` creates its `Notified` before checking the flags,
`did_open` raises `is_compiling` before sending but after its fallible look-ups (a handler may
return an error there, before it has queued anything: `hInit`/`fail`), and the client first opens a
document of a valid project, then in a quiescent state (worker in `recv`, channel empty, no handler able to move) nobody is still waiting
for a notification. -/
theorem C24_no_stuck_waiter_cfg {c : Cfg} {s : State} (hc1 : c.notifiedFirst = true)
    (hc2 : c.openStoreFirst = true) (hc3 : c.openedFirst = true) (hc4 : c.openStoreEarly = false)
    (hr : Reachable c s) (q : Quiescent s) : ∀ i, ¬ Waiting s i := by
  rintro i ⟨sn, hi⟩
  have inv := reach_invA hc1 hc2 hc3 hc4 hr
  have hq := q.2.2 i
  rw [hi] at hq
  have hsn : sn = s.nw := by simpa [HPc.quiet] using hq
  rcases inv.wait i sn hi with h | h | h | h
  · omega
  · rw [q.2.1] at h; cases h
  · exact h q.1
  · exact q.no_willSend h

/-- (a) for the code in the tree: every request or notification that waits for compilation has
returned once no compilation is running or pending. -/
theorem C24_no_stuck_waiter {s : State} (hr : Reachable Cfg.fixed s) (q : Quiescent s) :
    ∀ i, ¬ Waiting s i :=
  C24_no_stuck_waiter_cfg rfl rfl rfl rfl hr q

/-- (b), general form: if the worker resets `retrigger_compilation` when it picks a request up, then
in a quiescent state the last compilation that ran to completion read the latest document version
(this half needs neither of the other repairs nor `openedFirst`). -/
theorem C24_latest_compiled_cfg {c : Cfg} {s : State} (hc : c.clearAtRecv = true)
    (hr : Reachable c s) (q : Quiescent s) : s.lastDone = s.latest := by
  have inv := reach_invB hc hr
  rcases inv.last with h | h | h | h
  · exact h
  · rw [q.2.1] at h; cases h
  · rw [q.1] at h; cases h
  · exact absurd h q.no_willSend

/-- (b) for the code in the tree: no edit is lost to a stale cancellation signal. -/
theorem C24_latest_compiled {s : State} (hr : Reachable Cfg.fixed s) (q : Quiescent s) :
    s.lastDone = s.latest :=
  C24_latest_compiled_cfg rfl hr q

/-- The code in `/repo`'s working tree (shape extracted by `gen/lsp_sched_shape.py` on every run) is
the repaired protocol, so `C24_no_stuck_waiter` and `C24_latest_compiled` are about it. Fails to
compile when the order of the shared accesses in the worker loop, `wait_for_parsing`,
`send_new_compilation_request` or the handlers changes, or when a new mention of the protocol's
fields appears in `sway-lsp/src`. -/
theorem C24_tree_is_fixed : treeCfg = some Cfg.fixed := by decide

/-! ## The code before the repair violated both halves (explicit, realisable schedules)

Every schedule below satisfies `coopOk`: handlers switch only at `.await` points, only the worker
thread interleaves freely. They are replayed on the real server by `harness/src/bin/sv_c24.rs`
(`corpus/c24.txt`). -/

open Act WLabel HLabel in
/-- A full, undisturbed `did_open` (handler `i`) with its compilation. -/
def openRound (i : Nat) : List Act :=
  [h i (spawn .open true), h i lookup, h i loadIc, h i isFull, h i send, h i HLabel.setIc,
   w recv, w WLabel.setIc, w start, w chk, w read, w finish, w (lsDone true), w clrIc, w clrRt, w isEmpty,
   w notify, h i pLoadIc, h i readLs, h i pIsEmpty]

open Act WLabel HLabel in
/-- Lost wake-up: a waiter loads `is_compiling = true`, the worker finishes and calls
`notify_waiters()`, only then the waiter creates its `Notified`. -/
def schedLostWakeup : List Act :=
  openRound 0 ++
  [h 1 (spawn .change true), h 1 lookup, h 1 write, h 1 loadIc, h 1 isFull, h 1 send,
   w recv, w WLabel.setIc, w start, w chk,
   h 2 (spawn .wait true), h 2 pLoadIc,
   w read, w finish, w (lsDone true), w clrIc, w clrRt, w isEmpty, w notify,
   h 2 snap]

open Act WLabel HLabel in
/-- `did_open` stores `is_compiling = true` after the worker has already finished the request. -/
def schedLateStore : List Act :=
  [h 0 (spawn .open true), h 0 lookup, h 0 loadIc, h 0 isFull, h 0 send,
   w recv, w WLabel.setIc, w start, w chk, w read, w finish, w (lsDone true), w clrIc, w clrRt, w isEmpty,
   w notify,
   h 0 HLabel.setIc, h 0 pLoadIc, h 0 snap]

open Act WLabel HLabel in
/-- Stale retrigger (narrow window): `did_change` loads `is_compiling = true`, the worker finishes and
resets both flags, then the handler stores `retrigger = true` and sends: the compilation of the edit
aborts at its first check point. -/
def schedStaleRetrigger : List Act :=
  openRound 0 ++
  [h 1 (spawn .save true), h 1 lookup, h 1 loadIc, h 1 isFull, h 1 send,
   w recv, w WLabel.setIc, h 1 pLoadIc, h 1 snap,
   w start, w chk, w read, w finish, w (lsDone true),
   h 2 (spawn .change true), h 2 lookup, h 2 write, h 2 loadIc,
   w clrIc, w clrRt, w isEmpty, w notify,
   h 2 storeRt, h 2 isFull, h 2 send,
   w recv, w WLabel.setIc, w start, w chk, w lsAbort, w clrIc, w clrRt, w isEmpty, w notify,
   h 1 wake, h 1 pLoadIc, h 1 readLs, h 1 pIsEmpty]

open Act WLabel HLabel in
/-- Stale retrigger (wide window): `did_open`'s own `is_compiling = true` makes a `did_change` that
arrives before the worker has dequeued the request set `retrigger`, drain the queue and send; the
only compilation aborts and nothing is ever compiled. -/
def schedOpenThenChange : List Act :=
  [h 0 (spawn .open true), h 0 lookup, h 0 loadIc, h 0 isFull, h 0 send, h 0 HLabel.setIc, h 0 pLoadIc, h 0 snap,
   h 1 (spawn .change true), h 1 lookup, h 1 write, h 1 loadIc, h 1 storeRt, h 1 isFull, h 1 tryRecv, h 1 tryRecv, h 1 send,
   w recv, w WLabel.setIc, w start, w chk, w lsAbort, w clrIc, w clrRt, w isEmpty, w notify,
   h 0 wake, h 0 pLoadIc, h 0 readLs, h 0 pIsEmpty]

open Act HLabel in
/-- Without `openedFirst`: a request arrives before any `did_open`; `last_compilation_state` is
`Uninitialized` and nothing will ever notify. -/
def schedNotOpened : List Act :=
  [h 0 (spawn .wait true), h 0 snap, h 0 pLoadIc, h 0 readLs]

def stuckEnd (t : State) : Bool := quiescentB t && decide (0 < waitingB t)
def lostEnd (t : State) : Bool := quiescentB t && decide (t.lastDone ≠ t.latest)

theorem lostWakeup_coop : coopOk Cfg.orig init none schedLostWakeup = true := by decide
theorem lateStore_coop : coopOk Cfg.orig init none schedLateStore = true := by decide
theorem staleRetrigger_coop : coopOk Cfg.orig init none schedStaleRetrigger = true := by decide
theorem openThenChange_coop : coopOk Cfg.orig init none schedOpenThenChange = true := by decide

theorem lostWakeup_stuck : checkRun Cfg.orig schedLostWakeup stuckEnd = true := by decide
theorem lateStore_stuck : checkRun Cfg.orig schedLateStore stuckEnd = true := by decide
theorem staleRetrigger_lost : checkRun Cfg.orig schedStaleRetrigger lostEnd = true := by decide
theorem openThenChange_lost : checkRun Cfg.orig schedOpenThenChange lostEnd = true := by decide

private theorem stuck_witness {c : Cfg} {as : List Act} (h : checkRun c as stuckEnd = true) :
    ∃ s, Reachable c s ∧ Quiescent s ∧ ∃ i, Waiting s i := by
  obtain ⟨t, hr, ht⟩ := checkRun_reachable h
  simp only [stuckEnd, Bool.and_eq_true, decide_eq_true_eq] at ht
  exact ⟨t, hr, quiescent_of_quiescentB (reach_invW hr) ht.1, waiting_of_waitingB ht.2⟩

private theorem lost_witness {c : Cfg} {as : List Act} (h : checkRun c as lostEnd = true) :
    ∃ s, Reachable c s ∧ Quiescent s ∧ s.lastDone ≠ s.latest := by
  obtain ⟨t, hr, ht⟩ := checkRun_reachable h
  simp only [lostEnd, Bool.and_eq_true, decide_eq_true_eq] at ht
  exact ⟨t, hr, quiescent_of_quiescentB (reach_invW hr) ht.1, ht.2⟩

/-- (a) was false of the code before the repair (two independent causes). -/
theorem C24_orig_stuck_waiter :
    ∃ s, Reachable Cfg.orig s ∧ Quiescent s ∧ ∃ i, Waiting s i := stuck_witness lostWakeup_stuck

theorem C24_orig_stuck_waiter_late_store :
    ∃ s, Reachable Cfg.orig s ∧ Quiescent s ∧ ∃ i, Waiting s i := stuck_witness lateStore_stuck

/-- (b) was false of the code before the repair (two schedules). -/
theorem C24_orig_lost_edit :
    ∃ s, Reachable Cfg.orig s ∧ Quiescent s ∧ s.lastDone ≠ s.latest := lost_witness staleRetrigger_lost

theorem C24_orig_lost_edit_open_then_change :
    ∃ s, Reachable Cfg.orig s ∧ Quiescent s ∧ s.lastDone ≠ s.latest := lost_witness openThenChange_lost

open Act WLabel HLabel in
/-- Seeded mutant: `did_open` stores `is_compiling = true` before its fallible look-ups. A `did_open`
of a file outside any project returns its error after the store; nothing is queued, nothing ever
resets the flag, the next request waits forever. -/
def schedEarlyStore : List Act :=
  [h 0 (spawn .open true), h 0 HLabel.setIc, h 0 lookup, h 0 loadIc, h 0 storeRt, h 0 isFull, h 0 send,
   h 0 snap, h 0 pLoadIc,
   w recv, w WLabel.clrRt, w WLabel.setIc, w start, w chk, w read, w finish, w (lsDone true), w clrIc, w isEmpty,
   w notify, h 0 wake, h 0 snap, h 0 pLoadIc, h 0 readLs, h 0 pIsEmpty,
   h 1 (spawn .open false), h 1 HLabel.setIc, h 1 fail,
   h 2 (spawn .wait true), h 2 snap, h 2 pLoadIc]

/-- Storing `is_compiling` before a point where the handler can return early violates (a). -/
theorem C24_early_store_stuck :
    ∃ s, Reachable { Cfg.fixed with openStoreEarly := true } s ∧ Quiescent s ∧ ∃ i, Waiting s i :=
  stuck_witness (by decide : checkRun { Cfg.fixed with openStoreEarly := true } schedEarlyStore stuckEnd = true)

example : coopOk { Cfg.fixed with openStoreEarly := true } init none schedEarlyStore = true := by decide

/-- The protocol assumption `openedFirst` is needed for (a), even for the repaired code. -/
theorem C24_openedFirst_needed :
    ∃ s, Reachable { Cfg.fixed with openedFirst := false } s ∧ Quiescent s ∧ ∃ i, Waiting s i :=
  stuck_witness (by decide : checkRun { Cfg.fixed with openedFirst := false } schedNotOpened stuckEnd = true)

/-! ## Non-vacuity: the repaired code reaches quiescent states after real work -/

open Act WLabel HLabel in
/-- `did_open`, then a `did_change` cancelling the running compilation, on the repaired code. -/
def schedFixedRun : List Act :=
  [h 0 (spawn .open true), h 0 lookup, h 0 HLabel.setIc, h 0 loadIc, h 0 storeRt, h 0 isFull, h 0 send, h 0 snap, h 0 pLoadIc,
   w recv, w WLabel.clrRt, w WLabel.setIc, w start, w chk, w read,
   h 1 (spawn .change true), h 1 lookup, h 1 write, h 1 loadIc, h 1 storeRt, h 1 isFull, h 1 send,
   w chk, w lsAbort, w clrIc, w isEmpty,
   w recv, w WLabel.clrRt, w WLabel.setIc, w start, w chk, w read, w finish, w (lsDone true), w clrIc, w isEmpty,
   w notify, h 0 wake, h 0 snap, h 0 pLoadIc, h 0 readLs, h 0 pIsEmpty,
   h 2 (spawn .open false), h 2 fail, h 3 (spawn .wait true), h 3 snap, h 3 pLoadIc, h 3 readLs, h 3 pIsEmpty]

example : ∃ s, Reachable Cfg.fixed s ∧ Quiescent s ∧ s.latest = 1 ∧ s.lastDone = 1 ∧ s.nw = 1 := by
  have h : checkRun Cfg.fixed schedFixedRun
      (fun t => quiescentB t && decide (t.latest = 1 ∧ t.lastDone = 1 ∧ t.nw = 1)) = true := by decide
  obtain ⟨t, hr, ht⟩ := checkRun_reachable h
  simp only [Bool.and_eq_true, decide_eq_true_eq] at ht
  exact ⟨t, hr, quiescent_of_quiescentB (reach_invW hr) ht.1, ht.2⟩

example : coopOk Cfg.fixed init none schedFixedRun = true := by decide

end SwayVerif.C24
