import SwayVerif.Lemmas.Ty
/-!
# C10 — the trivial-encoding fast path is sound

`isEncodeTrivial` / `isDecodeTrivial` evaluate the `is_*_trivial` bodies that `gen/codec_trivial.py` re-extracts from
`codec.sw`, `vec.sw`, `bytes.sw`, `string.sw` and the auto-impl generator `abi_encoding.rs` on every run;
`memIdEq` is the test `__runtime_mem_id::<T>() == __encoding_mem_id::<T>()` computed from the two descriptions
(`get_runtime_representation` / `get_encoding_representation`) whose leaf sizes and padding rules
`gen/mem_repr.py` re-extracts; `runtimeImage` is the layout the backend uses (`sway-ir` `Type::size` & field
offsets). The theorems hold for ALL types and values; they are stated for the *regenerated* tables, so an edit to
any `is_*_trivial` body, to the auto-impl conjunction or to the two descriptions either keeps them true or stops
this file from compiling.

`_partial`: the statements exclude types containing `std::codec::TrivialEnum<T>`, whose hand-written impls are the
literal `true` for every `T`. That is a real defect of the unchanged tree (known finding; negation witnesses
`C10_trivialEnum_counterexample`, `C10_trivialEnum_decode_counterexample` below, replayed on the FuelVM by the check).
-/
namespace SwayVerif.C10
open SwayVerif.Abi SwayVerif.Generated

/-- The regenerated tables say what the soundness proofs need (see `TablesOK`). -/
theorem tables_wellformed : TablesOK := tables_wellformed_aux

/-- Classified trivially encodable ⇒ the memory image has no undetermined byte (no padding, no pointer) and is,
byte for byte, the canonical encoding. -/
theorem C10_encode_image_partial {t : Ty} (hn : noTrivialEnum t = true) (ht : isEncodeTrivial t = true)
    (v : Val) (h : HasType t v) : runtimeImage t v = known (encode t v) :=
  enc_img t v hn ht h

/-- `C10_encode`: classified trivially encodable ⇒ in-memory bytes of every value = its canonical encoding. -/
theorem C10_encode_partial {t : Ty} (hn : noTrivialEnum t = true) (ht : isEncodeTrivial t = true)
    (v : Val) (h : HasType t v) : runtimeBytes t v = encode t v :=
  runtimeBytes_of_trivial hn ht h

/-- `C10_decode`: classified trivially decodable ⇒ every byte string of `__size_of::<T>()` bytes is the memory image
of a (valid) value, and the canonical decoder returns exactly that value: reinterpreting the bytes is decoding. -/
theorem C10_decode_partial {t : Ty} (hn : noTrivialEnum t = true) (ht : isDecodeTrivial t = true)
    (bs : List UInt8) (h : bs.length = sizeRT t) :
    ∃ v, HasType t v ∧ runtimeBytes t v = bs ∧ runtimeImage t v = known bs ∧ decode t bs = some (v, []) := by
  obtain ⟨v, hv, hi, hd⟩ := dec_img t bs [] hn ht h
  exact ⟨v, hv, by simp [runtimeBytes, hi, getD_known], hi, by simpa using hd⟩

theorem decodeVariant_unknown_tag : ∀ (ts : List Ty) (i tag : Nat) (bs : List UInt8), ts.length ≤ i →
    decodeVariant ts i tag bs = none
  | [], _, _, _, _ => by simp [decodeVariant]
  | _ :: _, 0, _, _, h => by simp at h
  | _ :: ts, i + 1, tag, bs, h => by
    simp only [decodeVariant]
    exact decodeVariant_unknown_tag ts i tag bs (by simpa using h)

/-- `C10_invalid_reverts`: the decoder rejects (model of `__revert(0)`) a `bool` byte other than 0/1 and an enum
tag ≥ the number of variants, wherever they occur: it never returns anything but a valid value read from that
value's canonical bytes. -/
theorem C10_invalid_reverts :
    (∀ (b : UInt8) (r : List UInt8), b ≠ 0 → b ≠ 1 → decode .bool (b :: r) = none) ∧
    (∀ (ts : List Ty) (tag : Nat) (r : List UInt8), ts.length ≤ tag → tag < 2 ^ 64 →
        decode (.enum ts) (beBytes 8 tag ++ r) = none) ∧
    (∀ (t : Ty) (bs : List UInt8) (v : Val) (r : List UInt8), decode t bs = some (v, r) →
        HasType t v ∧ bs = encode t v ++ r) := by
  refine ⟨?_, ?_, fun t bs v r h => decode_sound_aux t bs v r h⟩
  · intro b r h0 h1
    simp [decode, decodeBoolByte, h0, h1]
  · intro ts tag r hl ht
    have : tag % 256 ^ 8 = tag := Nat.mod_eq_of_lt (by simpa using ht)
    simp [decode, takeNat_append, this, decodeVariant_unknown_tag ts tag tag r hl]

/-- The encoder as implemented — raw copy of the value's memory when its type is classified trivial, raw copy of a
`Vec`'s element buffer when the element type is — produces the canonical encoding. -/
theorem C10_fastpath_encode_partial {t : Ty} (hn : noTrivialEnum t = true) (v : Val) (h : HasType t v) :
    implEncode t v = encode t v := by
  unfold implEncode
  split
  · rename_i hc
    simp only [Bool.and_eq_true] at hc
    exact runtimeBytes_of_trivial hn hc.2 h
  · exact slowEncode_eq t v hn h

/-- The decoder as implemented — `bool::abi_decode` with the validity check the translator found in `codec.sw`, the
generated enum decoder with its `_ => __revert(0)` arm — is the canonical decoder: in particular it rejects every
invalid pattern (`C10_invalid_reverts`). Breaks when the check is removed from the sources. -/
theorem C10_decoder_validates (t : Ty) (bs : List UInt8) : slowDecode t bs = decode t bs :=
  slowDecode_eq t bs

/-- The predicate the driver evaluates on the real memory bytes is the property's statement for one value. -/
theorem C10_prop_of_model (t : Ty) (v : Val) (trivE trivD : Bool) (mem : List UInt8) :
    propTrivial t v trivE trivD mem = true ↔ ((trivE = true ∨ trivD = true) → mem = encode t v) := by
  cases trivE <;> cases trivD <;> simp [propTrivial, beqBytes]

/-- KNOWN FINDING (negation witness): `std::codec::TrivialEnum<E>` is classified trivially encodable although the
memory image of a variant narrower than the widest one is not its canonical encoding
(`enum E { A: u8, B: u64 }`, value `A(5)`: memory `00…00 00…05` (16 bytes), encoding `00…00 05` (9 bytes)). -/
theorem C10_trivialEnum_counterexample :
    ∃ t v, isEncodeTrivial t = true ∧ HasType t v ∧ runtimeBytes t v ≠ encode t v :=
  ⟨.trivialEnum (.enum [.u8, .u64]), .seq [.variant 0 (.num 5)], by decide⟩

/-- KNOWN FINDING (negation witness, decode direction): decoding the canonical bytes of `A(5)` (followed by zero
bytes) as `TrivialEnum<E>` yields a value that re-encodes as `A(0)`. -/
theorem C10_trivialEnum_decode_counterexample :
    ∃ t v r, isDecodeTrivial t = true ∧ HasType t v ∧
      (implDecode t (encode t v ++ r)).map (encode t) ≠ some (encode t v) ∧
      (implDecode t (encode t v ++ r)).map (encode t) = some [0, 0, 0, 0, 0, 0, 0, 0, 0] :=
  ⟨.trivialEnum (.enum [.u8, .u64]), .seq [.variant 0 (.num 5)], [0, 0, 0, 0, 0, 0, 0], by decide⟩

-- non-vacuity: trivially encodable / decodable composite types exist, and padded ones are not classified trivial
example : isEncodeTrivial (.struct [.u64, .array .u8 8, .enum [.u64, .u64]]) = true := by decide
example : isDecodeTrivial (.tuple [.u64, .array .u8 16, .b256]) = true := by decide
example : isEncodeTrivial (.struct [.u8, .u64]) = false := by decide
example : isDecodeTrivial (.struct [.array .bool 8]) = false := by decide
example : isDecodeTrivial (.enum [.u64, .u64]) = false := by decide
example : noTrivialEnum (.struct [.u64, .array .u8 8, .enum [.u64, .u64]]) = true := by decide

end SwayVerif.C10
