import SwayVerif.Model.Doc
import SwayVerif.Lemmas.Doc
/-!
# C23 — LSP document sync reproduces the client's text

Property theorems only; helper lemmas live in `SwayVerif/Lemmas/Doc.lean`.
Model: `SwayVerif/Model/Doc.lean` (server = `TextDocument::apply_change` at byte-offset level,
client = LSP specification with UTF-16 columns, clamping, CRLF/LF terminators).
-/
namespace SwayVerif.C23
open SwayVerif.Doc

/-- A valid change: the server's copy equals the client's copy — all documents (ASCII, multi-byte,
astral, CRLF/LF), all ranges, all replacement texts. -/
theorem C23_sync (doc : List Char) (r : Option Range) (text doc' : List Char)
    (h : clientApply doc r text = some doc') : serverApply doc r text = .ok doc' := by
  rw [serverApply_eq, h]

/-- An invalid range (start after end, or a position inside a surrogate pair) is rejected; `Res.err`
carries no document, i.e. the server's copy is unaltered. -/
theorem C23_invalid_rejected (doc : List Char) (r : Option Range) (text : List Char)
    (h : clientApply doc r text = none) : serverApply doc r text = .err := by
  rw [serverApply_eq, h]

/-- No change crashes the server. -/
theorem C23_no_panic (doc : List Char) (r : Option Range) (text : List Char) :
    serverApply doc r text ≠ .panic := by
  rw [serverApply_eq]
  cases clientApply doc r text <;> simp

/-- The decidable predicate the driver evaluates on the implementation's result holds of the model. -/
theorem C23_prop_of_model (doc : List Char) (r : Option Range) (text : List Char) :
    propHolds doc r text (serverApply doc r text) = true := by
  rw [serverApply_eq]
  unfold propHolds
  cases clientApply doc r text <;> simp

/-- Histories. Server: an `err` leaves the document as it was. Client: it never applies an invalid
change. -/
def serverRun (doc : List Char) : List (Option Range × List Char) → List Char
  | [] => doc
  | (r, t) :: h => match serverApply doc r t with
    | .ok d => serverRun d h
    | _ => serverRun doc h

def clientRun (doc : List Char) : List (Option Range × List Char) → List Char
  | [] => doc
  | (r, t) :: h => match clientApply doc r t with
    | some d => clientRun d h
    | none => clientRun doc h

/-- After every history of full and incremental changes the two copies are equal. -/
theorem C23_history (doc : List Char) (h : List (Option Range × List Char)) :
    serverRun doc h = clientRun doc h := by
  induction h generalizing doc with
  | nil => rfl
  | cons e h ih =>
    obtain ⟨r, t⟩ := e
    simp only [serverRun, clientRun, serverApply_eq]
    cases clientApply doc r t with
    | none => exact ih doc
    | some d => exact ih d

/-! Non-vacuity: concrete non-ASCII, astral, CRLF and clamped instances meet the hypotheses. -/
example : clientApply ['é', 'a', '\n'] (some ⟨⟨0, 1⟩, ⟨0, 1⟩⟩) ['X'] = some ['é', 'X', 'a', '\n'] := by decide
example : clientApply ['😀', 'a', '\n'] (some ⟨⟨0, 2⟩, ⟨0, 3⟩⟩) ['X'] = some ['😀', 'X', '\n'] := by decide
example : clientApply ['a', 'b', '\r', '\n', 'c', 'd', '\n'] (some ⟨⟨0, 5⟩, ⟨1, 1⟩⟩) ['X'] = some ['a', 'b', 'X', 'd', '\n'] := by decide
example : clientApply ['😀', 'a', '\n'] (some ⟨⟨0, 1⟩, ⟨0, 1⟩⟩) ['X'] = none := by decide
example : clientApply ['a', 'b'] (some ⟨⟨0, 2⟩, ⟨0, 1⟩⟩) [] = none := by decide

end SwayVerif.C23
