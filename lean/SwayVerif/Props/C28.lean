import SwayVerif.Model.Storage
import SwayVerif.Lemmas.Storage
import SwayVerif.Lemmas.StorageColl
/-!
# C28 — Persistent storage collections behave like their models

Property theorems only; lemmas in `Lemmas/Storage.lean` (flat-memory view of `read_quads` /
`write_quads` / `slot_calculator`) and `Lemmas/StorageColl.lean` (representation relations, loop
invariants of `remove` / `insert`).

Model: `Model/Storage.lean` — `readQuads`/`writeQuads`/`clearQuads` (storage_api.sw),
`vecPush … vecClear` (storage_vec.sw, 32-byte-slot storage), `mapInsert/mapGet/mapRemove`
(storage_map.sw), `sliceWrite/sliceRead/sliceLen/sliceClear` (storable_slice.sw via storage_bytes.sw /
storage_string.sw). SHA-256 is the parameter `H`; what the theorems need of it is stated as explicit
hypotheses (`VecSep`, `SlotsApart`, `SliceSep`, or plain agreement of the two stores on a field's own
slots) — hence the `_partial` level of the property as a whole; every run evaluates them on the
concrete digests (`spaced=` in the driver output).

Elements/values are byte strings of `8*w` bytes (`w ≥ 1` words; non-reference types have `w = 1`).
Not proved here: the composition of the per-operation theorems into one statement about whole
histories over several fields (`runSlot` vs `histProp`); that composition is what the correspondence
run checks on every history (agree ∧ prop).
-/
namespace SwayVerif.C28
open SwayVerif.Storage

/-- `read_quads` after `write_quads` at the same slot and offset returns the value written
(any offset, also beyond the first slot; values spanning several slots). -/
theorem read_after_write (st : Store) (k off : Nat) (v : List Nat) (r : Bool) (hpos : 0 < v.length)
    (hr : r = false → off % 4 * 8 + v.length ≤ 32) :
    readQuads (writeQuads st k off v r) k off v.length r = some v :=
  SwayVerif.Storage.read_after_write st k off v r hpos hr

/-- A write leaves every other byte range of the same base readable with the same value: the other
words of the slots it touches are preserved. -/
theorem write_frame (st : Store) (k off : Nat) (v : List Nat) (r : Bool) (hpos : 0 < v.length)
    (hr : r = false → off % 4 * 8 + v.length ≤ 32)
    (off' sz' : Nat) (r' : Bool) (hpos' : 0 < sz') (hr' : r' = false → off' % 4 * 8 + sz' ≤ 32)
    (hdisj : 8 * off' + sz' ≤ 8 * off ∨ 8 * off + v.length ≤ 8 * off') (x : List Nat)
    (h : readQuads st k off' sz' r' = some x) :
    readQuads (writeQuads st k off v r) k off' sz' r' = some x :=
  SwayVerif.Storage.write_frame st k off v r hpos hr off' sz' r' hpos' hr' hdisj x h

/-- A write changes no slot outside the ones it spans, so a read elsewhere (another field, another
key) sees exactly what it saw before. -/
theorem write_frame_other_slots (st : Store) (k off : Nat) (v : List Nat) (r : Bool)
    (hr : r = false → off % 4 * 8 + v.length ≤ 32)
    (k2 off2 sz2 : Nat) (r2 : Bool) (hr2 : r2 = false → off2 % 4 * 8 + sz2 ≤ 32)
    (hsep : ∀ i, i < span off2 sz2 →
      ¬ (k + off / 4 ≤ k2 + off2 / 4 + i ∧ k2 + off2 / 4 + i < k + off / 4 + span off v.length)) :
    readQuads (writeQuads st k off v r) k2 off2 sz2 r2 = readQuads st k2 off2 sz2 r2 :=
  write_frame_other st k off v r hr k2 off2 sz2 r2 hr2 hsep

/-- `StorageVec` as implemented refines `List`: if the store represents `xs` in field `fid`
(`VecRep`: length slot + element slots at `sha256(fid)`), then every operation returns what the list
operation returns and the new store represents the new list; out-of-bounds indices revert.
Hypotheses: element width `w ≥ 1` words (`w = 1` for non-reference types), lengths below `2^64`,
and `VecSep` — the length slot is not among the element slots in use. -/
theorem storage_vec_refines_list (H : List Nat → Nat) (st : Store) (fid w : Nat) (r : Bool) (xs : List (List Nat))
    (hw : 0 < w) (hr : r = false → w = 1) (hL : xs.length + 1 < 2 ^ 64)
    (hsep : VecSep H fid ((xs.length + 1) * w)) (h : VecRep H st fid w r xs) :
    -- len, get
    readLen st fid = xs.length ∧
    (∀ i, vecGet H st fid (8 * w) r i = some xs[i]?) ∧
    -- push
    (∀ v, v.length = 8 * w → VecRep H (vecPush H st fid (8 * w) r v) fid w r (xs ++ [v])) ∧
    -- pop
    ((vecPop H st fid (8 * w) r).2 = xs.getLast? ∧ VecRep H (vecPop H st fid (8 * w) r).1 fid w r xs.dropLast) ∧
    -- set
    (∀ i v, v.length = 8 * w → (i < xs.length →
        ∃ st', vecSet H st fid (8 * w) r i v = some st' ∧ VecRep H st' fid w r (xs.set i v)) ∧
      (¬ i < xs.length → vecSet H st fid (8 * w) r i v = none)) ∧
    -- remove
    (∀ i, (∀ hi : i < xs.length, ∃ st', vecRemove H st fid (8 * w) r i = some (st', xs[i]) ∧
        VecRep H st' fid w r (xs.eraseIdx i)) ∧
      (¬ i < xs.length → vecRemove H st fid (8 * w) r i = none)) ∧
    -- insert
    (∀ i v, v.length = 8 * w → (i ≤ xs.length →
        ∃ st', vecInsert H st fid (8 * w) r i v = some st' ∧ VecRep H st' fid w r (xs.take i ++ v :: xs.drop i)) ∧
      (¬ i ≤ xs.length → vecInsert H st fid (8 * w) r i v = none)) ∧
    -- swap
    (∀ i j, (i < xs.length → j < xs.length →
        ∃ st', vecSwap H st fid (8 * w) r i j = some st' ∧ VecRep H st' fid w r (swapList xs i j)) ∧
      (¬ (i < xs.length ∧ j < xs.length) → vecSwap H st fid (8 * w) r i j = none)) ∧
    -- swap_remove
    (∀ i, (∀ hi : i < xs.length, ∃ st' l, xs.getLast? = some l ∧ vecSwapRemove H st fid (8 * w) r i = some (st', xs[i]) ∧
        VecRep H st' fid w r ((xs.set i l).dropLast)) ∧
      (¬ i < xs.length → vecSwapRemove H st fid (8 * w) r i = none)) ∧
    -- clear
    VecRep H (vecClear st fid).1 fid w r [] := by
  have hcap : xs.length * w ≤ (xs.length + 1) * w := Nat.mul_le_mul_right w (by omega)
  have hsep0 := VecSep_mono H hsep hcap
  refine ⟨h.len, vecGet_rep H h, ?_, ?_, ?_, ?_, ?_, ?_, ?_, ?_⟩
  · intro v hv; exact vecPush_rep H v hw hr hv hL hsep h
  · exact vecPop_rep H hw hr (by omega) hsep0 h
  · intro i v hv
    exact ⟨fun hi => vecSet_rep H i v hw hr hv hsep0 h hi, fun hi => vecSet_oob H i v h hi⟩
  · intro i
    refine ⟨fun hi => ?_, fun hi => vecRemove_oob H i h hi⟩
    obtain ⟨st', e1, e2, _⟩ := vecRemove_rep H i hw hr (by omega) hsep0 h hi
    exact ⟨st', e1, e2⟩
  · intro i v hv
    refine ⟨fun hi => ?_, fun hi => vecInsert_oob H i v h hi⟩
    obtain ⟨st', e1, e2, _⟩ := vecInsert_rep H i v hw hr hv hL hsep h hi
    exact ⟨st', e1, e2⟩
  · intro i j
    refine ⟨fun hi hj => ?_, fun hi => vecSwap_oob H i j h hi⟩
    obtain ⟨st', e1, e2, _⟩ := vecSwap_rep H i j hw hr hsep0 h hi hj
    exact ⟨st', e1, e2⟩
  · intro i
    refine ⟨fun hi => ?_, fun hi => vecSwapRemove_oob H i h hi⟩
    obtain ⟨st', l, e0, e1, e2, _⟩ := vecSwapRemove_rep H i hw hr (by omega) hsep0 h hi
    exact ⟨st', l, e0, e1, e2⟩
  · exact vecClear_rep H st fid w r

/-- The empty store represents the empty vector (contracts deploy collection fields with no slots). -/
theorem storage_vec_init (H : List Nat → Nat) (fid w : Nat) (r : Bool) : VecRep H Store.empty fid w r [] :=
  ⟨readLen_unset _ _ rfl, fun i hi => by simp at hi⟩

/-- `StorageMap` as implemented refines a function `key ↦ Option value`: `get` after `insert` /
`remove` of the same key, of any other (field, key) whose slots are apart (hash hypothesis
`SlotsApart`), and `remove` reports presence. `kb` = the key's hashed bytes, values of `sz` bytes. -/
theorem storage_map_refines_fun (H : List Nat → Nat) (st : Store) (fid : Nat) (kb v : List Nat) (r : Bool)
    (hpos : 0 < v.length) (hr : r = false → v.length ≤ 32) :
    mapGet H (mapInsert H st fid kb v r) fid kb v.length r = some v ∧
    mapGet H (mapRemove H st fid kb v.length r).1 fid kb v.length r = none ∧
    (mapRemove H st fid kb v.length r).2 = (mapGet H st fid kb v.length r).isSome ∧
    (∀ fid' kb' sz' r', (r' = false → sz' ≤ 32) →
      SlotsApart (mapSlot H fid kb) ((v.length + 31) / 32) (mapSlot H fid' kb') ((sz' + 31) / 32) →
      mapGet H (mapInsert H st fid kb v r) fid' kb' sz' r' = mapGet H st fid' kb' sz' r' ∧
      mapGet H (mapRemove H st fid kb v.length r).1 fid' kb' sz' r' = mapGet H st fid' kb' sz' r') :=
  ⟨mapGet_insert_same H st fid kb v r hpos hr, mapGet_remove_same H st fid kb v.length r hpos hr,
   mapRemove_flag H st fid kb v.length r hpos hr,
   fun fid' kb' sz' r' hr' hsep =>
    ⟨mapGet_insert_other H st fid fid' kb kb' v r r' sz' hr hr' hsep,
     mapGet_remove_other H st fid fid' kb kb' r r' v.length sz' hr hr' hsep⟩⟩

/-- `StorageBytes` / `StorageString` (`write_slice`, `read_slice`, `len`, `clear`) behave like a byte
string; an empty string reads back as `None`. `SliceSep`: the length slot is not a data slot. -/
theorem storage_slice_refines_bytes (H : List Nat → Nat) (st : Store) (fid : Nat) (bs : List Nat)
    (hL : bs.length < 2 ^ 64) (hsep : SliceSep H fid bs.length) :
    sliceRead H (sliceWrite H st fid bs) fid = (if bs.length = 0 then none else some bs) ∧
    sliceLen (sliceWrite H st fid bs) fid = bs.length ∧
    sliceRead H (sliceClear st fid).1 fid = none ∧ sliceLen (sliceClear st fid).1 fid = 0 :=
  ⟨sliceRead_write H st fid bs hL hsep, sliceLen_write H st fid bs hL, (sliceRead_clear H st fid).1,
   (sliceRead_clear H st fid).2⟩

/-- Footprints: every mutating operation changes only slots of its own field — the length slot
and the element/data slots (vectors, slices), or the slots of the one key (maps). -/
theorem op_footprints (H : List Nat → Nat) (st : Store) (fid w : Nat) (r : Bool) (xs : List (List Nat))
    (hw : 0 < w) (hr : r = false → w = 1) (hL : xs.length + 1 < 2 ^ 64)
    (hsep : VecSep H fid ((xs.length + 1) * w)) (h : VecRep H st fid w r xs) :
    (∀ v, v.length = 8 * w → SameOutside H fid ((xs.length + 1) * w) st (vecPush H st fid (8 * w) r v)) ∧
    SameOutside H fid ((xs.length + 1) * w) st (vecPop H st fid (8 * w) r).1 ∧
    (∀ i v st', v.length = 8 * w → vecSet H st fid (8 * w) r i v = some st' → SameOutside H fid ((xs.length + 1) * w) st st') ∧
    (∀ i st' x, vecRemove H st fid (8 * w) r i = some (st', x) → SameOutside H fid ((xs.length + 1) * w) st st') ∧
    (∀ i v st', v.length = 8 * w → vecInsert H st fid (8 * w) r i v = some st' → SameOutside H fid ((xs.length + 1) * w) st st') ∧
    (∀ i j st', vecSwap H st fid (8 * w) r i j = some st' → SameOutside H fid ((xs.length + 1) * w) st st') ∧
    (∀ i st' x, vecSwapRemove H st fid (8 * w) r i = some (st', x) → SameOutside H fid ((xs.length + 1) * w) st st') ∧
    SameOutside H fid ((xs.length + 1) * w) st (vecClear st fid).1 ∧
    (∀ mf kb v mr, (mr = false → v.length ≤ 32) → ∀ k', ¬ (mapSlot H mf kb ≤ k' ∧ k' < mapSlot H mf kb + (v.length + 31) / 32) →
      (mapInsert H st mf kb v mr).get k' = st.get k' ∧ (mapRemove H st mf kb v.length mr).1.get k' = st.get k') ∧
    (∀ sf bs k', k' ≠ sf → ¬ (H (keyBytes sf) ≤ k' ∧ k' < H (keyBytes sf) + (bs.length + 31) / 32) →
      (sliceWrite H st sf bs).get k' = st.get k') := by
  have hcap : xs.length * w ≤ (xs.length + 1) * w := Nat.mul_le_mul_right w (by omega)
  have hsep0 := VecSep_mono H hsep hcap
  refine ⟨?_, vecPop_outside H st fid _ _ r, ?_, ?_, ?_, ?_, ?_, vecClear_outside H st fid _, ?_, ?_⟩
  · intro v hv; exact vecPush_outside H st fid w _ r v hw hr hv h.len
  · intro i v st' hv he
    exact SameOutside.mono H (vecSet_outside H st st' fid w _ i r v hw hr hv h.len he) hcap
  · intro i st' x he
    by_cases hi : i < xs.length
    · obtain ⟨st2, e1, _, e3⟩ := vecRemove_rep H i hw hr (by omega) hsep0 h hi
      rw [e1] at he; cases he
      exact SameOutside.mono H e3 hcap
    · rw [vecRemove_oob H i h hi] at he; cases he
  · intro i v st' hv he
    by_cases hi : i ≤ xs.length
    · obtain ⟨st2, e1, _, e3⟩ := vecInsert_rep H i v hw hr hv hL hsep h hi
      rw [e1] at he; cases he
      exact e3
    · rw [vecInsert_oob H i v h hi] at he; cases he
  · intro i j st' he
    by_cases hi : i < xs.length ∧ j < xs.length
    · obtain ⟨st2, e1, _, e3⟩ := vecSwap_rep H i j hw hr hsep0 h hi.1 hi.2
      rw [e1] at he; cases he
      exact SameOutside.mono H e3 hcap
    · rw [vecSwap_oob H i j h hi] at he; cases he
  · intro i st' x he
    by_cases hi : i < xs.length
    · obtain ⟨st2, l, _, e1, _, e3⟩ := vecSwapRemove_rep H i hw hr (by omega) hsep0 h hi
      rw [e1] at he; cases he
      exact SameOutside.mono H e3 hcap
    · rw [vecSwapRemove_oob H i h hi] at he; cases he
  · intro mf kb v mr hmr k' hk
    exact ⟨mapInsert_get_other H st mf kb v mr hmr k' hk, mapRemove_get_other H st mf kb v.length mr hmr k' hk⟩
  · intro sf bs k' h1 h2
    exact sliceWrite_get_other H st sf bs k' h1 h2

/-- Non-interference: whatever happens to the store outside a field's own slots (operations on other
fields or keys, by `op_footprints` under the hash hypotheses) leaves what the field represents
unchanged — vectors, map entries, byte strings. -/
theorem fields_noninterference (H : List Nat → Nat) (st st' : Store) :
    (∀ fid w r xs, 0 < w → (r = false → w = 1) → VecRep H st fid w r xs → st'.get fid = st.get fid →
      (∀ j, j < (8 * (xs.length * w) + 31) / 32 → st'.get (vecKey H fid + j) = st.get (vecKey H fid + j)) →
      VecRep H st' fid w r xs) ∧
    (∀ fid kb sz r, (r = false → sz ≤ 32) →
      (∀ j, j < (sz + 31) / 32 → st'.get (mapSlot H fid kb + j) = st.get (mapSlot H fid kb + j)) →
      mapGet H st' fid kb sz r = mapGet H st fid kb sz r) ∧
    (∀ fid, st'.get fid = st.get fid →
      (∀ j, j < (readLen st fid + 31) / 32 → st'.get (H (keyBytes fid) + j) = st.get (H (keyBytes fid) + j)) →
      sliceRead H st' fid = sliceRead H st fid ∧ sliceLen st' fid = sliceLen st fid) :=
  ⟨fun _ _ _ _ hw hr h hf he => VecRep_frame H hw hr h hf he,
   fun fid kb sz r hr h => mapGet_frame H st st' fid kb sz r hr h,
   fun fid hf hd => sliceRead_frame H st st' fid hf hd⟩

/-- Whole histories on ONE vector field (any mix of push/pop/get/set/len/remove/insert/swap/
swap_remove/clear and raw slot reads, any length, out-of-bounds calls included): the observations of
the slot machine `runSlot` — the model the driver runs against the VM — satisfy the driver's
predicate `histProp`, i.e. are exactly what the list model predicts. `N` bounds the number of
elements ever in play (`VecSep` up to `N` elements, `N < 2^64`). `_partial`: one field only; the
composition over several fields is checked per run. -/
theorem C28_vec_history_partial (H : List Nat → Nat) (fid w N : Nat) (hw : 0 < w) (hN : N < 2 ^ 64)
    (hsep : VecSep H fid (N * w)) (ops : List Op) (hops : ∀ op ∈ ops, vecOp w op = true)
    (hb : ops.length + 1 ≤ N) :
    histProp (absInit [⟨.vec (8 * w), fid⟩]) ops (runSlot H [⟨.vec (8 * w), fid⟩] Store.empty ops) = true :=
  vec_history H fid w N hw hN hsep ops Store.empty [] hops (storage_vec_init H fid w _) (by simpa using hb)

/-! Non-vacuity: the hypotheses are satisfiable together (a concrete `H`, the deployed store). -/
def H0 : List Nat → Nat := fun _ => 1000
example : VecSep H0 5 ((([] : List (List Nat)).length + 1) * 1) := by
  intro j _; show 1000 + j ≠ 5; omega
example : VecRep H0 Store.empty 5 1 false [] := storage_vec_init H0 5 1 false
example : ([] : List (List Nat)).length + 1 < 2 ^ 64 := by decide
example : SlotsApart 10 2 20 1 := Or.inl (by omega)
example : ∀ op ∈ [Op.vpush 0 [0, 0, 0, 0, 0, 0, 0, 7], Op.vremove 0 0, Op.vget 0 0], vecOp 1 op = true := by decide
example : SliceSep H0 5 64 := by intro j _; show 1000 + j ≠ 5; omega

end SwayVerif.C28
