import SwayVerif.Lemmas.Ty
/-!
# C09 — ABI encoding is canonical and round-trips

`encode`/`decode` (Model/Ty.lean) are the canonical Fuel ABI encoding ("new encoding") of every ABI-encodable type:
integers, bool, b256, u256, unit, `str[N]`, `str`, arrays, tuples, structs, enums (hence `Option`/`Result`), `Vec`,
`Bytes`, `String`, `raw_slice` and all nestings, without any bound on depth, width or value.

The theorems make "canonical" precise: every well-typed value has exactly one byte string (`encode`), every byte
string decodes to at most one value and only from that value's encoding (`C09_canonical`), so encoding is injective
and prefix-free and `decode` is its exact inverse, also in front of arbitrary trailing bytes.

That a *Sway program's* bytes equal `encode` is decided per (type, value) on the real compiler + FuelVM by
`checks/c09.py` (translation validation); the theorems below are the proof obligations that make that comparison
meaningful (`C09_prop_of_model_*`: the predicates the driver evaluates accept exactly the canonical bytes).
-/
namespace SwayVerif.C09
open SwayVerif.Abi

/-- Decoding the canonical bytes of `v` (followed by anything) reconstructs `v` and leaves the rest. -/
theorem decode_encode {t : Ty} {v : Val} (r : List UInt8) (h : HasType t v) :
    decode t (encode t v ++ r) = some (v, r) :=
  decode_encode_aux t v r h

/-- The decoder never invents: whatever it returns is a well-typed value and the consumed bytes are exactly that
value's canonical encoding. -/
theorem decode_sound {t : Ty} {bs : List UInt8} {v : Val} {r : List UInt8} (h : decode t bs = some (v, r)) :
    HasType t v ∧ bs = encode t v ++ r :=
  decode_sound_aux t bs v r h

/-- `decode` is exactly the inverse of `encode`. -/
theorem C09_canonical {t : Ty} {bs : List UInt8} {v : Val} {r : List UInt8} :
    decode t bs = some (v, r) ↔ HasType t v ∧ bs = encode t v ++ r :=
  ⟨decode_sound, fun ⟨h, e⟩ => e ▸ decode_encode r h⟩

/-- Prefix-freeness (what makes concatenation of fields decodable). -/
theorem encode_prefix_free {t : Ty} {v w : Val} {r r' : List UInt8} (hv : HasType t v) (hw : HasType t w)
    (h : encode t v ++ r = encode t w ++ r') : v = w ∧ r = r' := by
  have h1 := decode_encode r hv
  rw [h, decode_encode r' hw] at h1
  simp only [Option.some.injEq, Prod.mk.injEq] at h1
  exact ⟨h1.1.symm, h1.2.symm⟩

/-- One byte string per value. -/
theorem encode_injective {t : Ty} {v w : Val} (hv : HasType t v) (hw : HasType t w)
    (h : encode t v = encode t w) : v = w :=
  (encode_prefix_free (r := []) (r' := []) hv hw (by rw [h])).1

/-- Length formula. -/
theorem encode_length {t : Ty} {v : Val} (h : HasType t v) : (encode t v).length = encLen t v :=
  encode_length_aux t v h

/-- `decode` is a total function (never stuck): on every input it either rejects (the model of a revert / of
running out of input) or returns a well-typed value together with the proof that the input starts with that
value's canonical encoding. -/
theorem decode_total (t : Ty) (bs : List UInt8) :
    decode t bs = none ∨ ∃ v r, decode t bs = some (v, r) ∧ HasType t v ∧ bs = encode t v ++ r := by
  cases h : decode t bs with
  | none => exact .inl rfl
  | some x => exact .inr ⟨x.1, x.2, rfl, decode_sound h⟩

/-- The predicate the driver evaluates on the implementation's logged bytes accepts exactly the canonical bytes. -/
theorem C09_prop_of_model_encode (t : Ty) (v : Val) (logged slow : List UInt8) :
    propEncode t v logged slow = true ↔ logged = encode t v ∧ slow = encode t v := by
  simp [propEncode, beqBytes]

/-- The predicate the driver evaluates on an in-VM decode accepts the round trip of canonical bytes and nothing else:
for a canonical input (`encode t v ++ r`) it demands the re-encoding of `v`. -/
theorem C09_prop_of_model_decode {t : Ty} {v : Val} (r : List UInt8) (h : HasType t v) (obs : DecObs) :
    propDecode t (encode t v ++ r) obs = true ↔ obs = .ok (encode t v) := by
  simp only [propDecode, decode_encode r h]
  cases obs <;> simp [beqBytes]

/-- The implementation model *with* its fast paths (top-level raw copy, `Vec` element buffer copy) produces bytes
that decode back to the value — for every type that does not contain `std::codec::TrivialEnum`
(known finding, see `C10.C10_trivialEnum_counterexample`). -/
theorem C09_roundtrip_impl_partial {t : Ty} {v : Val} (r : List UInt8) (hn : noTrivialEnum t = true)
    (h : HasType t v) : decode t (implEncode t v ++ r) = some (v, r) := by
  have : implEncode t v = encode t v := by
    unfold implEncode
    split
    · rename_i hc
      simp only [Bool.and_eq_true] at hc
      exact runtimeBytes_of_trivial hn hc.2 h
    · exact slowEncode_eq t v hn h
  rw [this]
  exact decode_encode r h

-- non-vacuity: well-typed values of nested types exist and the hypotheses are satisfiable
example : HasType (.tuple [.u8, .bool, .vec (.enum [.unit, .u16])])
    (.seq [.num 7, .bool true, .seq [.variant 1 (.num 513), .variant 0 .unit]]) := by decide
example : encode (.tuple [.u8, .bool, .vec (.enum [.unit, .u16])])
    (.seq [.num 7, .bool true, .seq [.variant 1 (.num 513), .variant 0 .unit]])
    = [7, 1, 0,0,0,0,0,0,0,2, 0,0,0,0,0,0,0,1, 2,1, 0,0,0,0,0,0,0,0] := by decide
example : decode (.tuple [.bool, .u8]) [2, 2] = none := by decide
example : noTrivialEnum (.struct [.vec .u8, .enum [.u64, .b256]]) = true := by decide

end SwayVerif.C09
