import SwayVerif.Model.StdSpec
import SwayVerif.Lemmas.StdNum
import SwayVerif.Lemmas.StdVec
/-!
# C27 — Std collections and wide integers agree with reference models

Property theorems only (helper lemmas: `Lemmas/StdNum.lean`, `Lemmas/StdVec.lean`). The theorems are about
the TRANSCRIPTIONS of `sway-lib-std` in `Model/StdNum.lean` / `Model/StdVec.lean` over the FuelVM ALU
model `Model/Word.lean`; that the transcriptions are what the compiled std does on the VM is checked on
every run by the correspondence harness (`agree`), which also evaluates the reference models on the
VM's own results (`prop`).
-/
namespace SwayVerif.C27
open SwayVerif.Word SwayVerif.StdNum SwayVerif.StdVec SwayVerif.StdSpec

/-! ## U128 (two 64-bit limbs) under the default flags -/

/-- `U128 + U128`: exact when the sum fits in 128 bits, otherwise the assertion fails (revert). -/
theorem u128_add_spec (a b : U128) (ha : a.wf) (hb : b.wf) :
    U128.add {} a b = if a.toNat + b.toNat < 2 ^ 128 then .ok (U128.ofNat (a.toNat + b.toNat))
      else .revert StdNum.FAILED_ASSERT :=
  U128.add_dflt a b ha hb

/-- `U128 - U128`: exact when `b ≤ a`, otherwise revert. -/
theorem u128_sub_spec (a b : U128) (ha : a.wf) (hb : b.wf) :
    U128.sub {} a b = if b.toNat ≤ a.toNat then .ok (U128.ofNat (a.toNat - b.toNat))
      else .revert StdNum.FAILED_ASSERT :=
  U128.sub_dflt a b ha hb

/-- `U128 * U128`: exact when the product fits in 128 bits; reverts (failed assertion or VM overflow
panic) exactly when it does not. -/
theorem u128_mul_spec (a b : U128) (ha : a.wf) (hb : b.wf) :
    (a.toNat * b.toNat < 2 ^ 128 → U128.mul {} a b = .ok (U128.ofNat (a.toNat * b.toNat))) ∧
    (2 ^ 128 ≤ a.toNat * b.toNat → (U128.mul {} a b).reverts = true) :=
  U128.mul_dflt a b ha hb

/-- `U128 / U128`, the part proved: division by zero reverts, and when both operands fit in one limb the
quotient is exact. PARTIAL: the 128-iteration shift-subtract loop (`divLoop`) is transcribed and tied by
correspondence only; its invariant `q*d + r = n >> i ∧ r < d` (incl. that `remainder <<= 1` never loses
a bit) is not proved here. -/
theorem u128_div_spec_partial (a b : U128) (_ha : a.wf) (_hb : b.wf) :
    (b.toNat = 0 → U128.div {} a b = .revert StdNum.FAILED_ASSERT) ∧
    (b.toNat ≠ 0 → a.upper = 0 → b.upper = 0 → U128.div {} a b = .ok (U128.ofNat (a.toNat / b.toNat))) := by
  obtain ⟨au, al⟩ := a
  obtain ⟨bu, bl⟩ := b
  simp only [U128.wf] at _ha _hb
  constructor
  · intro h
    simp only [U128.toNat] at h
    have h1 : bu = 0 := by
      by_contra hc
      have : W64 ≤ bu * W64 := Nat.le_mul_of_pos_left _ (Nat.pos_of_ne_zero hc)
      omega
    have h2 : bl = 0 := by subst h1; omega
    subst h1; subst h2
    simp [U128.div, U128.eq, U128.zero]
  · intro h hau hbu
    simp only at hau hbu
    subst hau; subst hbu
    simp only [U128.toNat, Nat.zero_mul, Nat.zero_add] at h ⊢
    have hq : al / bl < W64 := lt_of_le_of_lt (Nat.div_le_self _ _) _ha.2
    have hbl : (bl == 0) = false := by simpa using h
    simp [U128.div, U128.eq, U128.zero, h, u64Div, Word.div, aluError, hbl, U128.ofNat, Nat.mod_eq_of_lt hq,
      Nat.div_eq_of_lt hq]

/-! ## square root -/

/-- `u256::sqrt` (Newton iteration): for every 256-bit `n`, under any flags, the transcribed loop
terminates within its fuel, `x0 + n / x0` never overflows, and the result `r` is the floor square root:
`r*r ≤ n < (r+1)*(r+1)`. -/
theorem sqrt_floor (fl : Flags) (n : Nat) (hn : n < 2 ^ 256) :
    ∃ r, u256Sqrt fl n = .ok r ∧ r * r ≤ n ∧ n < (r + 1) * (r + 1) :=
  ⟨Nat.sqrt n, u256Sqrt_eq fl n hn, Nat.sqrt_le n, Nat.lt_succ_sqrt n⟩

/-- `u64/u32/u16/u8::sqrt` is the single instruction `mroo _ _ 2`, whose model is `Nat.sqrt`. -/
theorem u64_sqrt_floor (fl : Flags) (n : Nat) :
    ∃ r, u64Sqrt fl n = .ok r ∧ r * r ≤ n ∧ n < (r + 1) * (r + 1) :=
  ⟨Nat.sqrt n, by simp [u64Sqrt, Word.mroo, aluError, nthRoot], Nat.sqrt_le n, Nat.lt_succ_sqrt n⟩

/-! ## pow -/

/-- `u256::pow` (square-and-multiply with `wqml`): exact when `x^e` fits in 256 bits; otherwise a VM
overflow panic under default flags and `0` when panic-on-overflow is disabled. -/
theorem pow_spec (fl : Flags) (x e : Nat) (he : e < 2 ^ 32) :
    u256Pow fl x e = if x ^ e < 2 ^ 256 then .ok (x ^ e)
      else if fl.wrapping then .ok 0 else .panic .arithmeticOverflow :=
  u256Pow_eq fl x e he

/-- `u64::pow` (the `exp` instruction): same statement at 64 bits. -/
theorem u64_pow_spec (fl : Flags) (x e : Nat) :
    u64Pow fl x e = if x ^ e < 2 ^ 64 then .ok (x ^ e)
      else if fl.wrapping then .ok 0 else .panic .arithmeticOverflow :=
  u64Pow_eq fl x e

/-- `u32/u16/u8::pow` under default flags: exact when the power fits the narrow type, reverts otherwise
(`revert(0)` from the range check, or the VM panic when even 64 bits overflow). -/
theorem narrow_pow_spec (maxv x e : Nat) (hm : maxv < 2 ^ 64) :
    (x ^ e ≤ maxv → narrowPow {} maxv x e = .ok (x ^ e)) ∧
    (maxv < x ^ e → (narrowPow {} maxv x e).reverts = true) := by
  have hm' : maxv < W64 := hm
  constructor
  · intro h
    have h1 : x ^ e < W64 := by omega
    simp only [narrowPow, u64Pow_eq, h1, ↓reduceIte, Res.ok_bind]
    rw [if_neg (by omega)]; rfl
  · intro h
    by_cases h1 : x ^ e < W64
    · simp only [narrowPow, u64Pow_eq, h1, ↓reduceIte, Res.ok_bind, h, panicOnOverflowEnabled_dflt]; rfl
    · simp only [narrowPow, u64Pow_eq, h1, ↓reduceIte, overflowOutcome]; rfl

/-! ## log -/

/-- `u64/u32/u16/u8::log` is the instruction `mlog`: with panic-on-unsafe-math enabled it panics for
`x = 0` or `base ≤ 1`, and otherwise returns `L` with `base^L ≤ x < base^(L+1)`. -/
theorem u64_log_spec (fl : Flags) (hf : fl.unsafeMath = false) (x b : Nat) (hx : x < 2 ^ 64) :
    (x = 0 ∨ b ≤ 1 → U128.u64Log fl x b = .panic .arithmeticError) ∧
    (1 ≤ x → 2 ≤ b → ∃ L, U128.u64Log fl x b = .ok L ∧ b ^ L ≤ x ∧ x < b ^ (L + 1)) := by
  constructor
  · intro h; rw [u64Log_safe fl hf, if_pos h]
  · intro h1 h2
    have : ¬ (x = 0 ∨ b ≤ 1) := by omega
    obtain ⟨i1, i2⟩ := ilogAux_spec b h2 64 x h1 hx
    exact ⟨ilog b x, by rw [u64Log_safe fl hf, if_neg this], i1, i2⟩

/-- `u256::log2` under default flags: reverts on 0, otherwise `2^r ≤ n < 2^(r+1)`. -/
theorem log2_spec (n : Nat) (hn : n < 2 ^ 256) :
    (n = 0 → u256Log2 {} n = .revert StdNum.FAILED_ASSERT) ∧
    (n ≠ 0 → ∃ r, u256Log2 {} n = .ok r ∧ 2 ^ r ≤ n ∧ n < 2 ^ (r + 1)) := by
  constructor
  · intro h; rw [u256Log2_safe {} rfl n hn, if_pos h]
  · intro h
    exact ⟨Nat.log2 n, by rw [u256Log2_safe {} rfl n hn, if_neg h], Nat.log2_self_le h, Nat.lt_log2_self⟩

/-- `u256::log` under default flags (the code after the `fix:` commit): reverts for `base < 2` or
`self = 0`; otherwise the estimate `log2(self)/log2(base)` is an over-estimate, the correction loop
terminates within its fuel and returns the floor logarithm `L`: `base^L ≤ self < base^(L+1)`. -/
theorem log_spec (x b : Nat) (hx : x < 2 ^ 256) (hb : b < 2 ^ 256) :
    (b < 2 ∨ x = 0 → u256Log {} x b = .revert StdNum.FAILED_ASSERT) ∧
    (2 ≤ b → 1 ≤ x → ∃ L, u256Log {} x b = .ok L ∧ b ^ L ≤ x ∧ x < b ^ (L + 1)) :=
  u256Log_dflt x b hx hb

/-! ## collections -/

/-- Every operation of the `{buf, cap, len}` machine refines the `List` operation: under the
representation invariant `len ≤ cap = |buf|`, if the list operation is defined the machine returns the
same observations, re-establishes the invariant and its contents are the new list; if the list operation
is undefined (index out of bounds) the machine reverts with the failed-assertion code. In particular no
access ever leaves the allocation. -/
theorem vec_refines_list (v : Vec) (op : Op) (h : inv v) :
    match specStep (abs v) op with
    | some (l', o) => ∃ v', step v op = .ok (v', o) ∧ inv v' ∧ abs v' = l'
    | none => step v op = .revert StdVec.FAILED_ASSERT := by
  have hal := abs_length v h
  cases op with
  | push x =>
    obtain ⟨v', h1, h2, h3, h4⟩ := push_refines v x h
    exact ⟨v', by simp [step, h1, h4, specStep, hal], h2, h3⟩
  | pop =>
    obtain ⟨v', h1, h2, h3⟩ := pop_refines v h
    exact ⟨v', by simp [step, h1, specStep], h2, h3⟩
  | get i => exact ⟨v, by simp [step, get_refines v i h, specStep], h, rfl⟩
  | set i x =>
    obtain ⟨h1, h2⟩ := set_refines v i x h
    by_cases c : i < v.len
    · obtain ⟨v', e1, e2, e3, e4⟩ := h1 c
      simp only [specStep, hal, c, ↓reduceIte]
      exact ⟨v', by simp [step, e1, e4], e2, e3⟩
    · simp only [specStep, hal, c, ↓reduceIte]
      simp [step, h2 c]
  | insert i x =>
    obtain ⟨h1, h2⟩ := insert_refines v i x h
    by_cases c : i ≤ v.len
    · obtain ⟨v', e1, e2, e3, e4⟩ := h1 c
      simp only [specStep, hal, c, ↓reduceIte]
      exact ⟨v', by simp [step, e1, e4], e2, e3⟩
    · simp only [specStep, hal, c, ↓reduceIte]
      simp [step, h2 c]
  | remove i =>
    obtain ⟨h1, h2⟩ := remove_refines v i h
    cases hx : (abs v)[i]? with
    | some x =>
      obtain ⟨v', e1, e2, e3⟩ := h1 x hx
      simp only [specStep, hx]
      exact ⟨v', by simp [step, e1], e2, e3⟩
    | none =>
      simp only [specStep, hx]
      simp [step, h2 hx]
  | swap i j =>
    obtain ⟨h1, h2⟩ := swap_refines v i j h
    cases hx : (abs v)[i]? with
    | some x =>
      cases hy : (abs v)[j]? with
      | some y =>
        obtain ⟨v', e1, e2, e3, e4⟩ := h1 x y hx hy
        simp only [specStep, hx, hy]
        exact ⟨v', by simp [step, e1, e4, hal], e2, e3⟩
      | none =>
        simp only [specStep, hx, hy]
        simp [step, h2 (Or.inr hy)]
    | none =>
      simp only [specStep, hx]
      simp [step, h2 (Or.inl hx)]
  | clear => exact ⟨v.clear, by simp [step, specStep], ⟨by simp [Vec.clear], h.2⟩, by simp [StdVec.abs, Vec.clear]⟩
  | len => exact ⟨v, by simp [step, specStep, hal], h, rfl⟩
  | isEmpty => exact ⟨v, by simp [step, specStep, hal], h, rfl⟩
  | last => exact ⟨v, by simp [step, last_refines v h, specStep], h, rfl⟩
  | resize n x =>
    obtain ⟨v', e1, e2, e3, e4⟩ := resize_refines v n x h
    exact ⟨v', by simp [step, e1, e3, specStep], e2, e4⟩
  | iter => exact ⟨v, by simp [step, iter_refines v h, specStep, hal], h, rfl⟩
  | append xs =>
    obtain ⟨v', e1, e2, e3, e4⟩ := append_refines v xs h
    exact ⟨v', by simp [step, e1, e4, specStep, hal], e2, e3⟩
  | splitAt mid =>
    obtain ⟨h1, h2⟩ := splitAt_refines v mid h
    by_cases c : mid ≤ v.len
    · simp only [specStep, hal, c, ↓reduceIte]
      refine ⟨v, ?_, h, rfl⟩
      have : min mid v.len = mid := Nat.min_eq_left c
      simp [step, h1 c, hal, this]
    · simp only [specStep, hal, c, ↓reduceIte]
      simp [step, h2 c]
  | fromSlice xs =>
    exact ⟨⟨xs, xs.length, xs.length⟩, by simp [step, specStep], ⟨le_refl _, rfl⟩, by simp [StdVec.abs]⟩

/-- Histories: for every operation sequence, the machine's observations equal the `List` model's, and the
machine stops with a revert exactly where the `List` model says an operation is undefined; the VM-panic
and out-of-fuel outcomes never occur. Covers `Vec<u64>`, `Bytes` (cells are bytes) and `String`
(`fromSlice`, `clear`, `len`, `isEmpty`, `iter` = `as_bytes`). -/
theorem vec_history (v : Vec) (ops : List Op) (h : inv v) :
    (run v ops).1 = (specRun (abs v) ops).1 ∧
    ((run v ops).2 = none ↔ (specRun (abs v) ops).2 = false) ∧
    ((specRun (abs v) ops).2 = true → (run v ops).2 = some (.revert StdVec.FAILED_ASSERT)) := by
  induction ops generalizing v with
  | nil => simp [run, specRun]
  | cons op ops ih =>
    have hs := vec_refines_list v op h
    cases hspec : specStep (abs v) op with
    | none =>
      rw [hspec] at hs
      simp [run, specRun, hspec, hs]
    | some p =>
      obtain ⟨l', o⟩ := p
      rw [hspec] at hs
      obtain ⟨v', e1, e2, e3⟩ := hs
      have := ih v' e2
      rw [e3] at this
      simp only [run, specRun, hspec, e1]
      obtain ⟨t1, t2, t3⟩ := this
      exact ⟨by rw [t1], t2, t3⟩

/-- The empty vector satisfies the invariant and represents the empty list (so `vec_history` applies to
every test the harness generates). -/
theorem vec_new_inv : inv Vec.new ∧ abs Vec.new = [] ∧ ∀ c, inv (Vec.withCapacity c) ∧ abs (Vec.withCapacity c) = [] := by
  refine ⟨⟨le_refl _, by simp [Vec.new, alloc]⟩, by simp [StdVec.abs, Vec.new], ?_⟩
  intro c
  exact ⟨⟨Nat.zero_le _, by simp [Vec.withCapacity, alloc]⟩, by simp [StdVec.abs, Vec.withCapacity]⟩

/-! ## non-vacuity and regression witnesses -/

example : U128.add {} ⟨0, MAX64⟩ ⟨0, 1⟩ = .ok ⟨1, 0⟩ := by decide
example : U128.add {} ⟨MAX64, MAX64⟩ ⟨0, 1⟩ = .revert StdNum.FAILED_ASSERT := by decide
example : U128.sub {} ⟨1, 0⟩ ⟨0, 1⟩ = .ok ⟨0, MAX64⟩ := by decide
example : (U128.mul {} ⟨0, 2⟩ ⟨MAX64, 1⟩).reverts = true := by decide
example : u256Sqrt {} 17 = .ok 4 := by decide
/-- regression witness for the `log` defect: 3^5 = 243 ≤ 255 < 3^6 -/
example : u256Log {} 255 3 = .ok 5 := by decide
example : (run Vec.new [.push 1, .push 2, .remove 0, .iter, .remove 1]).1 = [1, 2, 1, 2, 1] := by decide

end SwayVerif.C27
