import SwayVerif.Model.FmtSpec
import SwayVerif.Lemmas.FmtSpec
/-!
# C18 — Formatting is idempotent

Property theorems only; helper lemmas live in `SwayVerif/Lemmas/FmtSpec.lean`, the models of the kernels in
`SwayVerif/Model/FmtSpec.lean`.

The formatter itself (11 k lines of per-item layout rules) is NOT modelled. Idempotence of the whole formatter is
decided per input by comparing `format (format x)` with `format x` on the real code (level
translation_validation). What is proved here, for ALL texts, concerns the two kernels of the last two stages
of `Formatter::format_module` that have a faithful character-level model and are tied to the code by
correspondence through the verif hooks: `apply_newline_style` (newline_style.rs) and `format_newline_sequence`
(newline.rs, the clamp applied to every blank-line sequence by `handle_newlines`).
-/
namespace SwayVerif.C18
open SwayVerif.FmtSpec

/-- The Windows conversion is idempotent on every text. -/
theorem toWindows_idempotent (s : List Char) : toWindows (toWindows s) = toWindows s := toWindows_idem s

/-- The Unix conversion (`str::replace("\r\n", "\n")`) is idempotent on every text without `\r\r\n`. -/
theorem toUnix_idempotent (s : List Char) (h : hasCRCRLF s = false) : toUnix (toUnix s) = toUnix s :=
  toUnix_idem_of_noCRCRLF s h

/-- The hypothesis of `toUnix_idempotent` cannot be dropped: on `\r\r\n` the Unix conversion is NOT idempotent
(`\r\r\n ↦ \r\n ↦ \n`). Replayed on the real `convert_to_unix_newlines` through the hook (kernel lines `nls`). -/
theorem toUnix_not_idempotent : toUnix (toUnix ['\r', '\r', '\n']) ≠ toUnix ['\r', '\r', '\n'] := by decide

/-- **Newline-style kernel is idempotent**: applying the configured style twice (with the same raw text for
`Auto` detection) equals applying it once, for every style, for every text without `\r\r\n`. -/
theorem newline_style_idempotent (st : Style) (text raw : List Char) (h : hasCRCRLF text = false) :
    applyStyle st (applyStyle st text raw) raw = applyStyle st text raw := by
  unfold applyStyle
  cases sysType st raw with
  | windows => exact toWindows_idem text
  | unix => exact toUnix_idem_of_noCRCRLF text h

/-- **The conversion only touches `\r` / `\n`**: every other character of the text is preserved, in order, for
every style — so no token other than a line end (or a CR/LF inside a multi-line token, rewrite R6 of the C19
specification) can be altered by this stage. -/
theorem newline_style_preserves_tokens (st : Style) (text raw : List Char) :
    eraseNewlines (applyStyle st text raw) = eraseNewlines text := by
  unfold applyStyle
  cases sysType st raw with
  | windows => exact toWindows_erase text
  | unix => exact toUnix_erase text

/-- The conversion deletes at most characters when the target is Unix: the result is a subsequence of the text. -/
theorem toUnix_subsequence (s : List Char) : (toUnix s).Sublist s := toUnix_sublist s

/-- **Blank-line clamp is stable**: `n` newlines between two items become `clampTotal n threshold` newlines, and
a second pass over that result leaves their number unchanged (for every `n ≥ 1` and every threshold). -/
theorem newline_clamp_idempotent (len thr n : Nat) (h : clampTotal len thr = some n) :
    clampTotal n thr = some n := by
  unfold clampTotal fmtNewlineSeq at *
  split at h
  · next hgt =>
    simp only [Option.map_some, Option.some.injEq] at h
    subst h
    simp
  · next hle =>
    split at h
    · simp at h
    · next hne =>
      simp only [Option.map_some, Option.some.injEq] at h
      have : n = len := by omega
      subst this
      simp only [hle, hne, if_false, Option.map_some, Option.some.injEq]
      omega

/-- The clamp never writes more blank lines than the threshold allows (`n` newlines = `n - 1` blank lines). -/
theorem newline_clamp_bounded (len thr n : Nat) (h : clampTotal len thr = some n) : n ≤ thr + 1 := by
  unfold clampTotal fmtNewlineSeq at h
  split at h
  · simp only [Option.map_some, Option.some.injEq] at h; omega
  · split at h
    · simp at h
    · simp only [Option.map_some, Option.some.injEq] at h; omega

/-- **C18, partial.** The last two stages of `format_module` are idempotent in the sense above for all texts
(`newline_style_idempotent`, `newline_clamp_idempotent`). NOT covered (not modelled): `format (format x) =
format x` for the formatter as a whole — the per-item layout rules (swayfmt/src/items, utils/language), the
comment map (comments.rs, utils/map/comments.rs) and the placement logic of `handle_newlines` (which leaf-span pair
a blank-line sequence is attached to) are only run, per input, on every `.sw` file of the repository and on
generated whitespace/comment variants, under the default and the other supported configurations. -/
theorem C18_partial (st : Style) (text raw : List Char) (len thr n : Nat)
    (h : hasCRCRLF text = false) (hn : clampTotal len thr = some n) :
    applyStyle st (applyStyle st text raw) raw = applyStyle st text raw ∧ clampTotal n thr = some n :=
  ⟨newline_style_idempotent st text raw h, newline_clamp_idempotent len thr n hn⟩

/-! Non-vacuity -/
example : hasCRCRLF ['a', '\r', '\n', 'b', '\n'] = false := by decide
example : applyStyle .windows ['a', '\n', 'b', '\r', '\n', '\r', 'c'] [] = ['a', '\r', '\n', 'b', '\r', '\n', '\r', 'c'] := by decide
example : applyStyle .auto ['a', '\r', '\n', 'b'] ['x', '\n'] = ['a', '\n', 'b'] := by decide
example : applyStyle .auto ['a', '\n', 'b'] ['x', '\r', '\n'] = ['a', '\r', '\n', 'b'] := by decide
example : clampTotal 5 1 = some 2 := by decide
example : clampTotal 2 1 = some 2 := by decide
example : clampTotal 1 1 = some 1 := by decide
example : clampTotal 0 1 = none := by decide

end SwayVerif.C18
