import SwayVerif.Lemmas.Dispatch
/-!
# C11 — contract calls dispatch to the named method

Theorems about `Model/Dispatch.lean` (`buildTable` = the table-building loop of
`generate_contract_entry`, `dispatch` = the generated `__entry` cascade), for ALL method lists:
any number of methods, any names (shared prefixes, equal lengths, one name a substring of another or
of the concatenation of earlier ones, the empty name), in any order.

Scope. These theorems are the *dispatch* half of C11 (level `proof`). The other half — the callee sees
the decoded arguments and the caller gets the encoded result back — is the encode/decode round trip of
`std::codec` (`decode_from_raw_ptr ∘ encode = id` on the argument tuple and on the return value), which
is property C09's theorem (`decode_encode`); it is not re-proved here. End to end (real compiler, real
FuelVM, real `contract_call`/`__entry`) both halves are tied by translation validation in `sv_c11`:
every line carries `ran`, `args_ok`, `ret_ok` observed in the VM, and `propHolds` is evaluated on them.
-/
namespace SwayVerif.C11
open SwayVerif.Dispatch

private theorem nm_map (ms : List Method) (i : Nat) (hi : i < ms.length) :
    nm (ms.map (·.name)) i = ms[i].name := by
  simp [nm, hi]

/-- Every generated arm sits in the group of its own length, calls an existing method, and its
`(offset, len)` addresses exactly that method's name inside the `_method_names` literal (in bounds),
whether the name was appended or shares bytes found by `find`. -/
theorem table_offset_correct (ms : List Method) (k : Nat) (e : Entry)
    (h : (k, e) ∈ flatten (buildTable ms).groups) :
    ∃ hi : e.idx < ms.length,
      k = e.len ∧ e.len = ms[e.idx].name.length ∧
      slice (buildTable ms).names e.off e.len = some ms[e.idx].name := by
  obtain ⟨a, b, c, d⟩ := (buildTable_inv ms).arms k e h
  have hi : e.idx < ms.length := by simpa using b
  rw [nm_map ms e.idx hi] at c d
  exact ⟨hi, a, c, d⟩

/-- Every method has an arm. -/
theorem table_complete (ms : List Method) (i : Nat) (hi : i < ms.length) :
    ∃ k e, (k, e) ∈ flatten (buildTable ms).groups ∧ e.idx = i :=
  (buildTable_inv ms).covered i (by simpa using hi)

/-- The generated cascade never compares outside the names literal, and a method it runs bears the
called name (no hypothesis on the method list: holds even with duplicate names). -/
theorem C11_dispatch_sound (ms : List Method) (fb : Bool) (call : Bytes) :
    dispatch (buildTable ms) fb call ≠ .oob ∧
    ∀ i, dispatch (buildTable ms) fb call = .method i → ∃ hi : i < ms.length, ms[i].name = call := by
  have hinv := buildTable_inv ms
  have heq := runGroups_eq (call := call) (buildTable ms).groups (inv_armOk hinv)
  unfold dispatch
  rw [heq]
  cases hfm : firstMatch (ms.map (·.name)) call (flatten (buildTable ms).groups) with
  | none => cases fb <;> simp
  | some j =>
    obtain ⟨k, e, hm, hj, hc⟩ := firstMatch_sound hfm
    obtain ⟨_, b, _, _⟩ := hinv.arms k e hm
    have hjl : j < ms.length := by subst hj; simpa using b
    refine ⟨by simp, ?_⟩
    intro i hi
    simp only [Option.map_some, Target.method.injEq] at hi
    subst hi
    exact ⟨hjl, by rw [← nm_map ms j hjl]; exact hc⟩

/-- **C11 (hit).** If the method names are pairwise distinct (the compiler rejects the contract
otherwise: `MultipleContractsMethodsWithTheSameName`), a call naming the `i`-th method runs exactly
the `i`-th method — with or without a fallback. -/
theorem C11_dispatch_hit (ms : List Method) (fb : Bool) (hnd : (ms.map (·.name)).Nodup)
    (i : Nat) (hi : i < ms.length) :
    dispatch (buildTable ms) fb ms[i].name = .method i := by
  have hinv := buildTable_inv ms
  have heq := runGroups_eq (call := ms[i].name) (buildTable ms).groups (inv_armOk hinv)
  obtain ⟨k, e, hm, he⟩ := table_complete ms i hi
  have hsome := firstMatch_isSome (all := ms.map (·.name)) (call := ms[i].name) hm
    (by rw [he]; exact nm_map ms i hi)
  unfold dispatch
  rw [heq]
  cases hfm : firstMatch (ms.map (·.name)) ms[i].name (flatten (buildTable ms).groups) with
  | none => rw [hfm] at hsome; simp at hsome
  | some j =>
    obtain ⟨k', e', hm', hj, hc⟩ := firstMatch_sound hfm
    obtain ⟨_, b, _, _⟩ := hinv.arms k' e' hm'
    have hjl : j < (ms.map (·.name)).length := by subst hj; exact b
    have : j = i := nm_inj hnd hjl (by simpa using hi) (by rw [hc, nm_map ms i hi])
    subst this
    rfl

/-- The same with the method given by membership: `m ∈ ms` is dispatched to (its position). -/
theorem C11_dispatch_hit_mem (ms : List Method) (fb : Bool) (hnd : (ms.map (·.name)).Nodup)
    (m : Method) (hm : m ∈ ms) :
    ∃ i, ms[i]? = some m ∧ dispatch (buildTable ms) fb m.name = .method i := by
  obtain ⟨i, hi, rfl⟩ := List.getElem_of_mem hm
  exact ⟨i, by simp [hi], C11_dispatch_hit ms fb hnd i hi⟩

/-- **C11 (miss).** A call naming no method of the contract runs the fallback if one is declared and
otherwise reverts. -/
theorem C11_dispatch_miss (ms : List Method) (fb : Bool) (call : Bytes)
    (hn : call ∉ ms.map (·.name)) :
    dispatch (buildTable ms) fb call = if fb then .fallback else .revert := by
  have hinv := buildTable_inv ms
  have heq := runGroups_eq (call := call) (buildTable ms).groups (inv_armOk hinv)
  unfold dispatch
  rw [heq, firstMatch_none]
  · rfl
  · intro k e hm hc
    obtain ⟨_, b, _, _⟩ := hinv.arms k e hm
    apply hn
    rw [← hc]
    simp only [nm, List.getElem?_eq_getElem b, Option.getD_some]
    exact List.getElem_mem b

private theorem indexOfName_none {call : Bytes} {ms : List Method} (h : indexOfName call ms = none) :
    call ∉ ms.map (·.name) := by
  induction ms with
  | nil => simp
  | cons m r ih =>
    simp only [indexOfName] at h
    split at h
    · simp at h
    · rename_i hne
      simp only [Option.map_eq_none_iff] at h
      simp only [List.map_cons, List.mem_cons, not_or]
      exact ⟨fun hc => hne hc.symm, ih h⟩

private theorem indexOfName_some {call : Bytes} {ms : List Method} {i : Nat}
    (h : indexOfName call ms = some i) : ∃ hi : i < ms.length, ms[i].name = call := by
  induction ms generalizing i with
  | nil => simp [indexOfName] at h
  | cons m r ih =>
    simp only [indexOfName] at h
    split at h
    · rename_i hc; cases h; exact ⟨by simp, hc⟩
    · simp only [Option.map_eq_some_iff] at h
      obtain ⟨j, hj, rfl⟩ := h
      obtain ⟨hjl, hjn⟩ := ih hj
      exact ⟨by simp; omega, by simpa using hjn⟩

/-- The model satisfies the predicate that the driver evaluates on the implementation: for distinct
names and ANY called name, what `dispatch` runs is what `propHolds` demands. -/
theorem C11_prop_of_model (ms : List Method) (fb : Bool) (call : Bytes)
    (hnd : (ms.map (·.name)).Nodup) :
    propHolds ms fb call (dispatch (buildTable ms) fb call) true true = true := by
  unfold propHolds
  cases h : indexOfName call ms with
  | none => simp [C11_dispatch_miss ms fb call (indexOfName_none h)]
  | some i =>
    obtain ⟨hi, hc⟩ := indexOfName_some h
    subst hc
    simp [C11_dispatch_hit ms fb hnd i hi]

/-! Non-vacuity: the hypotheses are satisfiable by the adversarial shapes the property names, and the
conclusions are not trivially true (a concrete table and its dispatch, evaluated by the kernel). -/

-- names: "get", "get_a", "ab", "xaby", "b", "ge" — shared prefixes, equal lengths, `ab` ⊂ `xaby`,
-- `ab`, `b` found inside the literal built so far ("getget_axaby"), `ge` found as a prefix of `get`.
private def advMs : List Method :=
  [⟨[103, 101, 116]⟩, ⟨[103, 101, 116, 95, 97]⟩, ⟨[120, 97, 98, 121]⟩, ⟨[97, 98]⟩, ⟨[98]⟩, ⟨[103, 101]⟩]

example : (advMs.map (·.name)).Nodup := by decide
example : (buildTable advMs).names = [103, 101, 116, 103, 101, 116, 95, 97, 120, 97, 98, 121] := by decide
example : flatten (buildTable advMs).groups =
    [(1, ⟨1, 10, 4⟩), (2, ⟨2, 9, 3⟩), (2, ⟨2, 0, 5⟩), (3, ⟨3, 0, 0⟩), (4, ⟨4, 8, 2⟩), (5, ⟨5, 3, 1⟩)] := by
  decide
example : dispatch (buildTable advMs) false [103, 101] = .method 5 := by decide
example : dispatch (buildTable advMs) true [97, 120] = .fallback := by decide   -- "ax" occurs in the literal
example : dispatch (buildTable advMs) false [97, 120] = .revert := by decide
example : ([97, 120] : Bytes) ∉ advMs.map (·.name) := by decide

end SwayVerif.C11
