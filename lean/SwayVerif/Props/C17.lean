import SwayVerif.Props.C21
import SwayVerif.Props.C23
import SwayVerif.Props.C16
/-!
# C17 — the compiler never crashes (what is PROVED: kernel panic-freedom only)

No model of the 110 k-line compiler exists, so no theorem here quantifies over all packages. What Lean
contributes to C17 is the conjunction of the panic-freedom theorems of the kernels that are modelled for
other properties, with every Rust slice / index / `unwrap` / arithmetic overflow an explicit `panic`
outcome of the model. Each conjunct is tied to the real code by the correspondence check of its own
property (C16, C21, C23). Everything else is decided per input by the crash search of `checks/c17.py`.
-/
namespace SwayVerif.C17

/-- **C17_partial.** For ALL inputs: the lexer (`lex_commented`) does not panic and terminates; reading a
`Forc.lock` (source strings, dependency lines, `to_graph`) does not panic; applying an LSP text change
does not panic. NOT covered: parser, type checker, IR generation, optimiser, backend — see the crash
search. -/
theorem C17_partial :
    (∀ text : List SwayVerif.Lexer.CC, SwayVerif.Lexer.lex text ≠ .panic ∧ SwayVerif.Lexer.lex text ≠ .unsupported) ∧
    (∀ (ext : SwayVerif.Lock.Ext) (s : SwayVerif.Lock.Str), SwayVerif.Lock.parsePinned ext s ≠ .panic) ∧
    (∀ l : SwayVerif.Lock.Str, SwayVerif.Lock.parsePkgDepLine l ≠ .panic) ∧
    (∀ (ext : SwayVerif.Lock.Ext) (pkgs : List SwayVerif.Lock.PkgLock), SwayVerif.Lock.toGraph ext pkgs ≠ .panic) ∧
    (∀ (doc : List Char) (r : Option SwayVerif.Doc.Range) (t : List Char), SwayVerif.Doc.serverApply doc r t ≠ .panic) :=
  ⟨fun text => ⟨(SwayVerif.C16.lex_no_panic text).2, (SwayVerif.C16.lex_total text).2⟩,
   SwayVerif.C21.C21_no_panic, SwayVerif.C21.C21_depline_no_panic, SwayVerif.C21.toGraph_no_panic,
   SwayVerif.C23.C23_no_panic⟩

end SwayVerif.C17
