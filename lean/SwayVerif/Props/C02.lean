import SwayVerif.Model.PassMgr
import SwayVerif.Generated.PassPipeline
/-!
# C02 — optimisation level never changes observable behaviour

What is proved here is the *composition* layer: `PassManager::run` (group flattening, the per-round loop, the
`rounds` loop with its early `break`) and the assembly optimiser's `MAX_OPT_ROUNDS` loop (with its "never accept
worse" early return) preserve the observable behaviour of a program **if every individual pass does**. The
passes themselves are abstract here (the kernels that are modelled are in C03/C06/C07); whether the real debug
and release builds of a program behave the same is decided per program by the C02 driver on the real VM.
-/
namespace SwayVerif.C02
open SwayVerif.PassMgr

section
variable {IR Obs : Type} (obs : IR → Obs)

/-- A pass preserves the observable behaviour (`obs`: return data, logs, revert status — gas, code size and
metadata are not part of `Obs` by construction) whenever it succeeds. -/
def Preserves (p : Pass IR) : Prop := ∀ ir ir' m, p.run ir = some (ir', m) → obs ir' = obs ir

theorem runPasses_preserves (lookup : Name → Option (Pass IR)) :
    ∀ (names : List Name), (∀ n ∈ names, ∀ p, lookup n = some p → Preserves obs p) →
      ∀ ir ir' m, runPasses lookup names ir = some (ir', m) → obs ir' = obs ir
  | [], _, ir, ir', m, h => by
    simp only [runPasses, Option.some.injEq, Prod.mk.injEq] at h; rw [← h.1]
  | n :: r, hp, ir, ir', m, h => by
    simp only [runPasses] at h
    cases hl : lookup n with
    | none => rw [hl] at h; simp at h
    | some p =>
      rw [hl] at h; simp only at h
      cases hr : p.run ir with
      | none => rw [hr] at h; simp at h
      | some res =>
        obtain ⟨ir1, m1⟩ := res
        rw [hr] at h; simp only at h
        cases hrest : runPasses lookup r ir1 with
        | none => rw [hrest] at h; simp at h
        | some res2 =>
          obtain ⟨ir2, m2⟩ := res2
          rw [hrest] at h
          simp only [Option.some.injEq, Prod.mk.injEq] at h
          have h1 : obs ir1 = obs ir := hp n (List.mem_cons_self ..) p hl ir ir1 m1 hr
          have h2 : obs ir2 = obs ir1 :=
            runPasses_preserves lookup r (fun n' hn' => hp n' (List.mem_cons_of_mem _ hn')) ir1 ir2 m2 hrest
          rw [← h.1, h2, h1]

theorem runRounds_preserves (lookup : Name → Option (Pass IR)) (names : List Name)
    (hp : ∀ n ∈ names, ∀ p, lookup n = some p → Preserves obs p) :
    ∀ (k : Nat) ir ir' m, runRounds lookup names k ir = some (ir', m) → obs ir' = obs ir
  | 0, ir, ir', m, h => by
    simp only [runRounds, Option.some.injEq, Prod.mk.injEq] at h; rw [← h.1]
  | k + 1, ir, ir', m, h => by
    simp only [runRounds] at h
    cases hr : runPasses lookup names ir with
    | none => rw [hr] at h; simp at h
    | some res =>
      obtain ⟨ir1, m1⟩ := res
      rw [hr] at h; simp only at h
      have h1 : obs ir1 = obs ir := runPasses_preserves obs lookup names hp ir ir1 m1 hr
      cases m1 with
      | false => simp only [Bool.false_eq_true, if_false, Option.some.injEq, Prod.mk.injEq] at h; rw [← h.1, h1]
      | true =>
        simp only [if_true] at h
        cases hk : runRounds lookup names k ir1 with
        | none => rw [hk] at h; simp at h
        | some res2 =>
          obtain ⟨ir2, m2⟩ := res2
          rw [hk] at h
          simp only [Option.some.injEq, Prod.mk.injEq] at h
          have h2 : obs ir2 = obs ir1 := runRounds_preserves lookup names hp k ir1 ir2 m2 hk
          rw [← h.1, h2, h1]

/-- **Composition.** If every pass that occurs in the (nested) pass group preserves the observable behaviour,
so does `PassManager::run` with any number of rounds — whenever it produces IR at all. -/
theorem pipeline_preserves_of_passes (lookup : Name → Option (Pass IR)) (group : List PassOrGroup) (rounds : Nat)
    (hp : ∀ n ∈ flatten group, ∀ p, lookup n = some p → Preserves obs p) :
    ∀ ir ir' m, runPipeline lookup group rounds ir = some (ir', m) → obs ir' = obs ir :=
  fun ir ir' m h => runRounds_preserves obs lookup (flatten group) hp rounds ir ir' m h

/-- non-vacuity: a pipeline of two registered identity passes runs and preserves -/
example : runPipeline (fun _ => some (⟨fun (ir : Nat) => some (ir, false)⟩ : Pass Nat))
    [.pass [1], .group [.pass [2]]] 2 7 = some (7, false) := by decide

end

section
variable {A Obs : Type} (sem : A → Obs)

theorem asmChain_preserves (steps : List (A → A)) (h : ∀ f ∈ steps, ∀ a, sem (f a) = sem a) :
    ∀ a, sem (asmChain steps a) = sem a := by
  induction steps with
  | nil => intro a; rfl
  | cons f r ih =>
    intro a
    simp only [asmChain, List.foldl_cons]
    have := ih (fun g hg => h g (List.mem_cons_of_mem _ hg)) (f a)
    simp only [asmChain] at this
    rw [this, h f (List.mem_cons_self ..)]

/-- **Assembly optimiser rounds.** The `MAX_OPT_ROUNDS` loop of `AbstractInstructionSet::optimize` — two chains
per round, stop when the size is unchanged, *return the old program* when it grew, continue when it shrank —
preserves the behaviour if one chain does, for any size function and any round bound. -/
theorem asm_rounds_preserve (opt0 : A → A) (size : A → Nat) (h : ∀ a, sem (opt0 a) = sem a) :
    ∀ (k : Nat) (a : A), sem (asmRounds opt0 size k a) = sem a
  | 0, a => rfl
  | k + 1, a => by
    simp only [asmRounds]
    split
    · rw [h, h]
    · split
      · rfl
      · rw [asm_rounds_preserve opt0 size h k, h, h]

end

/-! ## The pipelines of the working tree -/

open SwayVerif.Generated.PassPipeline

/-- name literal → character codes -/
def nm (s : List Char) : Name := s.map Char.toNat

/-- The IR passes a human has reviewed as *intended to be* behaviour preserving and which the C03 check
exercises one by one against the real VM. Adding a pass to either pipeline (or renaming one) makes
`C02_partial` fail until it is listed here. -/
def reviewedIrPasses : List Name := [
  nm ['l','o','w','e','r','-','i','n','i','t','-','a','g','g','r'],
  nm ['f','n','-','d','e','d','u','p','-','d','e','b','u','g'],
  nm ['f','n','-','d','e','d','u','p','-','r','e','l','e','a','s','e'],
  nm ['i','n','l','i','n','e'],
  nm ['g','l','o','b','a','l','s','-','d','c','e'],
  nm ['d','c','e'],
  nm ['c','o','n','s','t','-','d','e','m','o','t','i','o','n'],
  nm ['a','r','g','-','d','e','m','o','t','i','o','n'],
  nm ['r','e','t','-','d','e','m','o','t','i','o','n'],
  nm ['m','i','s','c','-','d','e','m','o','t','i','o','n'],
  nm ['a','r','g','_','p','o','i','n','t','e','e','_','m','u','t','a','b','i','l','i','t','y','_','t','a','g','g','e','r'],
  nm ['m','e','m','c','p','y','o','p','t'],
  nm ['s','i','m','p','l','i','f','y','-','c','f','g'],
  nm ['m','e','m','2','r','e','g'],
  nm ['c','c','p'],
  nm ['c','o','n','s','t','-','f','o','l','d','i','n','g'],
  nm ['c','s','e'],
  nm ['m','e','m','c','p','y','p','r','o','p','_','r','e','v','e','r','s','e'],
  nm ['s','r','o','a']]

/-- the reviewed steps of the assembly optimiser's `Opt0` chain -/
def reviewedAsmSteps : List Name := [
  nm ['c','o','n','s','t','_','i','n','d','e','x','i','n','g','_','a','g','g','r','e','g','a','t','e','s','_','f','u','n','c','t','i','o','n'],
  nm ['c','o','n','s','t','a','n','t','_','p','r','o','p','a','g','a','t','e'],
  nm ['d','c','e'],
  nm ['s','i','m','p','l','i','f','y','_','c','f','g'],
  nm ['r','e','m','o','v','e','_','s','e','q','u','e','n','t','i','a','l','_','j','u','m','p','s'],
  nm ['r','e','m','o','v','e','_','r','e','d','u','n','d','a','n','t','_','m','o','v','e','s'],
  nm ['r','e','m','o','v','e','_','r','e','d','u','n','d','a','n','t','_','o','p','s']]

/-- **C02, partial.** Of the pipelines `sway-core` builds today (re-extracted from the source on every run):
every pass of the debug and of the release pipeline is registered (so `runPasses` never fails on an unknown
name) and is in the reviewed list; the release pipeline contains every *kind* of pass the debug pipeline
contains except the debug-profile fn-dedup; every step of the assembly chain is reviewed; both loops have a
positive, finite round bound.
Together with `pipeline_preserves_of_passes` and `asm_rounds_preserve` this reduces "debug and release agree" to
"each reviewed pass preserves behaviour" — which is NOT proved here (see C03/C06/C07 for the modelled kernels)
and is validated per program by running both builds on the real VM (`Driver/C02.lean`). -/
theorem C02_partial :
    (∀ n ∈ opt0, n ∈ knownPasses ∧ n ∈ reviewedIrPasses) ∧
    (∀ n ∈ opt1, n ∈ knownPasses ∧ n ∈ reviewedIrPasses) ∧
    (∀ n ∈ opt0, n ∈ opt1 ∨ n = nm ['f','n','-','d','e','d','u','p','-','d','e','b','u','g']) ∧
    (∀ n ∈ Generated.PassPipeline.asmChain, n ∈ reviewedAsmSteps) ∧
    0 < irRounds ∧ 0 < maxOptRounds := by
  decide

end SwayVerif.C02
