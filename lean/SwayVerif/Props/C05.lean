import SwayVerif.Lemmas.IrText
/-!
# C05 — IR text round-trips (kernels)

The property quantifies over whole IR modules at every pipeline stage. What is PROVED here (for all
inputs, no bounds) is the round trip of the constant / type / string-literal kernels of the text format
(`Model/IrText.lean` = `as_lit_string`, `Type::as_string`, the peg rules `ast_ty`, `constant_value`,
`str_char`, … and the conversions `as_constant` / `as_value`). The whole-module statement
(`print → parse` succeeds, the result verifies, re-prints to the same text and compiles to code that
behaves identically) is decided per module by the validator run of `checks/c05.py` on the REAL printer,
parser, verifier, backend and VM — see `C05_partial`.
-/
namespace SwayVerif.C05
open SwayVerif.IrText

/-- String constants: for ALL byte strings, un-escaping the printed escape sequence gives the bytes back
(`\xHH` for everything outside printable ASCII and for `"` and `\`). -/
theorem str_escape_roundtrip (bs : List UInt8) :
    unescape (escape (bs.map (·.toNat))) = some (bs.map (·.toNat)) :=
  unescape_escape _ (bytesOk_map bs)

/-- The same over the model's byte representation (`Nat`s below 256). -/
theorem str_escape_roundtrip_nat (bs : List Nat) (h : bytesOk bs = true) : unescape (escape bs) = some bs :=
  unescape_escape bs h

/-- Types: every type inside the grammar's domain `tyOk` (no `str` slice type, integer widths 8/64/256,
non-empty unions, lengths below 2^64) parses back to itself from its printed form. -/
theorem ty_roundtrip (t : Ty) (h : tyOk t = true) : parseTy (printTy t) = .ok t :=
  parseTy_printTy t h

/-- Constants in initialiser position (`global … = const <lit>`, `local … = const <lit>`, conversion
`as_constant`): every `printable` constant parses back to itself. -/
theorem const_roundtrip (c : Const) (h : printable c = true) : parseConst (printConst c) = .ok c :=
  parseConst_print c h

/-- Constants in operand position (`vN = const <lit>`, conversion `as_value`). -/
theorem const_roundtrip_top (c : Const) (h : printableTop c = true) : parseConstTop (printConst c) = .ok c :=
  parseConstTop_print c h

/-- The property predicate the driver evaluates on the REAL parser's answer holds whenever that answer is
what the model computes — i.e. a `prop=0` on a printable constant is a disagreement between the real
code and the proved model, never an artefact of the predicate. -/
theorem C05_prop_of_model (top : Bool) (c : Const) :
    propConst top c (if top then parseConstTop (printConst c) else parseConst (printConst c)) = true := by
  unfold propConst
  cases top with
  | true =>
    by_cases h : printableTop c = true
    · simp [h, const_roundtrip_top c h, Const.beq_refl]
    · simp [h]
  | false =>
    by_cases h : printable c = true
    · simp [h, const_roundtrip c h, Const.beq_refl]
    · simp [h]

/-! ## `not_printable_witness`: constants outside `printable` really do not round-trip -/

/-- the empty array `[u64; 0] []`: `array_const` demands at least one element -/
theorem not_printable_witness_empty_array :
    (parseConst (printConst (.arr (.arr (.uint 64) 0) .nil))).isErr = true := by decide

/-- a reference constant `&(u64 5)` -/
theorem not_printable_witness_reference :
    (parseConst (printConst (.ref (.tptr (.uint 64)) (.uint (.uint 64) 5)))).isErr = true := by decide

/-- a typed slice constant -/
theorem not_printable_witness_typed_slice :
    PR.isOk (.slice (.tslice (.uint 64)) (.cons (.uint (.uint 64) 5) .nil))
      (parseConst (printConst (.slice (.tslice (.uint 64)) (.cons (.uint (.uint 64) 5) .nil)))) = false := by decide

/-- a raw untyped slice that is not 32 bytes long (IR-gen emits these for contract-call method names) -/
theorem not_printable_witness_raw_slice :
    (parseConst (printConst (.raw .slice [1, 2, 3]))).isErr = true := by decide

/-- a raw untyped slice of exactly 32 bytes reaches `unreachable!("invalid type for hex number")` -/
theorem not_printable_witness_raw_slice32 :
    (parseConst (printConst (.raw .slice (List.replicate 32 7)))).isPanic = true := by decide

/-- `u16`/`u32` typed integers (IR-gen maps both to u64, so these never occur) -/
theorem not_printable_witness_u16 : (parseConst (printConst (.uint (.uint 16) 5))).isErr = true := by decide

/-- a bare `undef` initialiser -/
theorem not_printable_witness_undef : (parseConst (printConst (.undef (.uint 64)))).isErr = true := by decide

/-- array elements of different types: every element is re-typed with the FIRST element's type -/
theorem not_printable_witness_mixed_array :
    PR.isOk (.arr (.arr (.union (.cons (.uint 64) (.cons .bool .nil))) 2)
        (.cons (.uint (.uint 64) 1) (.cons (.bool (.uint 64) true) .nil)))
      (parseConst (printConst (.arr (.arr (.union (.cons (.uint 64) (.cons .bool .nil))) 2)
        (.cons (.uint (.uint 64) 1) (.cons (.bool .bool true) .nil))))) = true := by decide

/-! ## non-vacuity -/

example : printable (.struct (.struct (.cons (.uint 64) (.cons (.strArr 2) .nil)))
    (.cons (.uint (.uint 64) 7) (.cons (.str (.strArr 2) [34, 255]) .nil))) = true := by decide
example : printableTop (.str (.strArr 3) [34, 92, 255]) = true := by decide
example : tyOk (.arr (.union (.cons .unit (.cons (.tptr .b256) .nil))) 3) = true := by decide

/-- **C05 (partial).** Proved: the kernel round trips above, for all constants / types / byte strings
of the model. NOT proved (no model): instructions, blocks, metadata, names, configurables, asm blocks,
storage keys — the whole-module statement of the property. That part is validated per module by
`sv_c05 --mode modules` (translation validation on the real code at every pipeline stage); the kernel
model is tied to the real printer/parser by `sv_c05 --mode kernel`. -/
theorem C05_partial :
    (∀ bs : List UInt8, unescape (escape (bs.map (·.toNat))) = some (bs.map (·.toNat))) ∧
    (∀ t, tyOk t = true → parseTy (printTy t) = .ok t) ∧
    (∀ c, printable c = true → parseConst (printConst c) = .ok c) ∧
    (∀ c, printableTop c = true → parseConstTop (printConst c) = .ok c) :=
  ⟨str_escape_roundtrip, ty_roundtrip, const_roundtrip, const_roundtrip_top⟩

end SwayVerif.C05
