import SwayVerif.Model.Storage
import SwayVerif.Lemmas.Storage
/-!
# C12 — Initial storage slots match what storage reads return

Property theorems only; helper lemmas live in `SwayVerif/Lemmas/Storage.lean`.
Model: `SwayVerif/Model/Storage.lean` — `serializeToSlots` (= `serialize_to_storage_slots` /
`serialize_to_words`, padding rule `InByte8Padding`), `deploy`, `readField`/`readMember`
(= `StorageKey::read` → `read_quads` → `slot_calculator`, with the slot/offset the compiler bakes
into the `StorageKey`), `keyString`/`keyPreimage` (= `get_storage_key_string`, `STORAGE_DOMAIN`).

SHA-256 never appears: every theorem holds for ANY key (`C12_readback`, `C12_member_readback`,
`slots_contiguous`); where several fields are deployed together the needed fact about the keys is
the explicit hypothesis `keysSpaced` (theorems named `_partial` for that reason; the hypothesis is
evaluated on the concrete keys of every generated declaration by the correspondence run).
-/
namespace SwayVerif.C12
open SwayVerif.Storage

/-- Every supported constant (u8…u64, bool, b256, u256, str[N], tuples/structs/enums of those,
nested arbitrarily), ANY key: deploying the emitted slots and reading the field through the std
storage API yields exactly the run-time image of the declared initializer. -/
theorem C12_readback (c : Val) (key : Nat) (slots : List (Nat × Slot))
    (hwf : c.wf = true) (hpos : 0 < c.size) (hs : serializeToSlots c key = some slots) :
    readField (deploy slots) key c = some c.mem := by
  have hn : c.nslots ≠ 0 := by rw [Val.nslots_eq hwf hpos]; omega
  unfold serializeToSlots at hs
  simp only [hn, if_false] at hs
  split at hs
  · cases hs
    exact readQuads_deploy c key hwf hpos
  · cases hs

/-- A direct member of a struct-typed field, read through the slot and word offset the compiler
computes for `storage.f.member` (`key + off/4`, `off % 4`), yields the member's image. -/
theorem C12_member_readback (c v : Val) (key i off : Nat) (slots : List (Nat × Slot))
    (hwf : c.wf = true) (hf : c.field i = some (off, v)) (hpos : 0 < v.size)
    (hs : serializeToSlots c key = some slots) :
    readMember (deploy slots) key off v = some v.mem := by
  obtain ⟨hvw, hmod, hfit, hmem⟩ := Val.field_spec hwf hf
  have hcpos : 0 < c.size := by omega
  have hn : c.nslots ≠ 0 := by rw [Val.nslots_eq hwf hcpos]; omega
  unfold serializeToSlots at hs
  simp only [hn, if_false] at hs
  split at hs
  · cases hs
    have h := readQuads_deploy_val c key (off / 8) v.size v.isRef hwf hpos
      (fun h => Val.size_le_of_not_isRef h) (by omega)
    have e : 8 * (off / 8) = off := by omega
    rw [e, hmem] at h
    exact h
  · cases hs

/-- The emitted slots have the consecutive keys `key, key+1, …`, and there are `ceil(size/32)` of
them for a well-formed non-zero-sized constant. -/
theorem slots_contiguous (c : Val) (key : Nat) (slots : List (Nat × Slot))
    (hs : serializeToSlots c key = some slots) :
    slots.map (·.1) = (List.range c.nslots).map (key + ·) ∧
    (c.wf = true → 0 < c.size → c.nslots = (c.size + 31) / 32) := by
  refine ⟨?_, fun hw hp => Val.nslots_eq hw hp⟩
  unfold serializeToSlots at hs
  by_cases hn : c.nslots = 0
  · simp only [hn, if_true, Option.some.injEq] at hs
    subst hs; simp [hn]
  · simp only [hn, if_false] at hs
    split at hs
    · cases hs; simp [List.map_map, Function.comp_def]
    · cases hs

/-- The only failure of slot emission is the compiler panic of `add_to_b256` on key overflow. -/
theorem serialize_none_iff (c : Val) (key : Nat) :
    serializeToSlots c key = none ↔ c.nslots ≠ 0 ∧ two256 ≤ key + (c.nslots - 1) := by
  unfold serializeToSlots
  by_cases hn : c.nslots = 0
  · simp [hn]
  · by_cases hk : key + (c.nslots - 1) < two256
    · simp [hn, hk]
    · simp only [hn, if_false, hk, true_and, ne_eq, not_false_eq_true]
      exact ⟨fun _ => Nat.le_of_not_lt hk, fun _ => trivial⟩

/-- `keysSpaced` ⇒ distinct fields occupy pairwise disjoint slot sets. (`_partial`: the hypothesis
is a fact about SHA-256 outputs / user chosen `in` keys, checked concretely per run.) -/
theorem C12_disjoint_partial (fs : List (Nat × Val)) (hs : keysSpaced fs = true)
    (i j : Nat) (hi : i < fs.length) (hj : j < fs.length) (hij : i ≠ j) (k : Nat)
    (hk : k ∈ (fieldSlots fs[i]).map (·.1)) : k ∉ (fieldSlots fs[j]).map (·.1) := by
  rw [mem_fieldSlots_keys] at hk ⊢
  have hap : fs[i].1 + fs[i].2.nslots ≤ fs[j].1 ∨ fs[j].1 + fs[j].2.nslots ≤ fs[i].1 := by
    rcases Nat.lt_or_gt_of_ne hij with h | h
    · simpa [apart] using apart_of_keysSpaced fs i j hi hj hs h
    · have := apart_of_keysSpaced fs j i hj hi hs h
      rw [apart_symm] at this
      simpa [apart] using this
  omega

/-- The whole declaration deployed at once: under `keysSpaced` every field reads back its own
initializer (no field's slots shadow another's). -/
theorem C12_readback_all_partial (fs : List (Nat × Val)) (hs : keysSpaced fs = true)
    (f : Nat × Val) (hm : f ∈ fs) (hwf : f.2.wf = true) (hpos : 0 < f.2.size) :
    readField (deploy (allSlots fs)) f.1 f.2 = some f.2.mem := by
  have hown := readQuads_deploy f.2 f.1 hwf hpos
  unfold readField
  rw [← hown]
  apply readQuads_congr _ _ _ _ _ _ (fun h => by have := Val.size_le_of_not_isRef h; omega)
  rw [slotCalc_zero f.1 f.2.size f.2.isRef hpos (fun h => Val.size_le_of_not_isRef h)]
  intro i hi
  have hn := Val.nslots_eq hwf hpos
  exact deploy_allSlots fs f (f.1 + i) hs hm (by omega) (by simp only [] at hi; omega)

/-- Distinct (namespace path, field, struct-member path) triples give distinct pre-images of the
storage key hash: `"::"` separates namespaces, `"."` introduces the field and struct members, and
identifiers contain neither `:` nor `.` (`ValidIdent`). With the domain byte in front. -/
theorem key_preimage_injective (ns ns' : List (List Char)) (f f' : List Char) (sfs sfs' : List (List Char))
    (h1 : ∀ s ∈ ns, ValidIdent s) (h1' : ∀ s ∈ ns', ValidIdent s) (h2 : ValidIdent f) (h2' : ValidIdent f')
    (h3 : ∀ s ∈ sfs, ValidIdent s) (h3' : ∀ s ∈ sfs', ValidIdent s)
    (h : keyPreimage ns f sfs = keyPreimage ns' f' sfs') : ns = ns' ∧ f = f' ∧ sfs = sfs' := by
  simp only [keyPreimage, List.cons.injEq, true_and] at h
  exact keyString_inj ns ns' f f' sfs sfs' (fun s hs => (h1 s hs).2) (fun s hs => (h1' s hs).2) h2.2 h2'.2
    (fun s hs => (h3 s hs).2) (fun s hs => (h3' s hs).2) (map_toNat_inj _ _ h)

/-- The pre-image starts with the storage domain byte `0` (`STORAGE_DOMAIN`), which separates it
from the pre-images of `StorageMap` slots (domain byte `1`). -/
theorem key_preimage_domain (ns : List (List Char)) (f : List Char) (sfs : List (List Char))
    (fid : Nat) (kb : List Nat) : keyPreimage ns f sfs ≠ 1 :: kb ++ keyBytes fid := by
  simp [keyPreimage]

/-- The decidable predicate the driver evaluates holds of the model's own output: first key = the
field's key, keys consecutive, value read back = declared initializer. -/
theorem C12_prop_of_model (c : Val) (key : Nat) (slots : List (Nat × Slot))
    (hwf : c.wf = true) (hpos : 0 < c.size) (hs : serializeToSlots c key = some slots) :
    fieldProp c key (slots.map (·.1)) (readField (deploy slots) key c).isSome c.abi [] = true := by
  have hc := (slots_contiguous c key slots hs).1
  have hn := Val.nslots_eq hwf hpos
  have hr := C12_readback c key slots hwf hpos hs
  have hlen : (slots.map (·.1)).length = c.nslots := by rw [hc]; simp
  have hne : (slots.map (·.1)).isEmpty = false := by
    cases hl : slots.map (·.1) with
    | nil => rw [hl] at hlen; simp at hlen; omega
    | cons _ _ => rfl
  simp only [fieldProp, hne, hr, Option.isSome_some, List.all_nil, Bool.and_true, Bool.not_false, Bool.true_and,
    beq_self_eq_true]
  rw [hlen, hc]
  simp

/-! Non-vacuity: the hypotheses are met by concrete declarations (struct with a unit enum variant
followed by a field; explicit key; two spaced fields). -/
example : (Val.cons (.enum 0 1 .unit) (.cons (.word 64 7) .nil)).wf = true := by decide
example : (serializeToSlots (Val.cons (.enum 0 1 .unit) (.cons (.word 64 7) .nil)) 5).isSome = true := by decide
example : keysSpaced [(10, Val.word 64 1), (20, Val.cons (.b32 false 3) (.cons (.u8 2) .nil))] = true := by decide
example : (Val.cons (.u8 5) (.cons (.word 64 7) .nil)).field 1 = some (8, .word 64 7) := by decide
example : ValidIdent ['n', 's', '_', '1'] := ⟨by simp, by decide⟩
example : serializeToSlots (Val.cons (.b32 false 0) (.cons (.word 64 5) .nil)) (two256 - 1) = none := by decide

end SwayVerif.C12
