import SwayVerif.Model.PassSeq
/-!
# C04 — IR passes keep the IR well-formed (pass-manager structure + dominance kernel)

The Rust verifier is the property's own oracle: whether a concrete pass keeps a concrete module
accepted is decided per (module, pass sequence) by `sv_c04` on the real code. What is proved here is
the part that does not depend on pass bodies: the `PassManager::run` schedule (verify, rounds, verify
after every pass, stop after an unmodified round) preserves acceptance whenever every single pass does,
it terminates within `rounds × |passes|` pass executions, and the dominance check used for SSA scopes is
sound on an abstract CFG.
-/
namespace SwayVerif.C04
open SwayVerif.PassSeq

variable {M : Type}

theorem step_wf (wf : M → Bool) (p : Pass M) (hp : PreservesWf wf p) (m : M) (hm : wf m = true) :
    match step wf p m with
    | .ok m' _ => wf m' = true
    | .passErr => True
    | .verifyFail => False := by
  unfold step
  cases h : p.run m with
  | none => simp
  | some r =>
    obtain ⟨m', md⟩ := r
    have := hp m m' md hm h
    simp [this]

theorem runRound_wf (wf : M → Bool) : ∀ (ps : List (Pass M)), (∀ p ∈ ps, PreservesWf wf p) →
    ∀ (m : M) (acc : Bool), wf m = true →
    match runRound wf ps m acc with
    | .ok m' _ => wf m' = true
    | .passErr => True
    | .verifyFail => False
  | [], _, m, acc, hm => by simpa [runRound] using hm
  | p :: ps, hps, m, acc, hm => by
    have h1 := step_wf wf p (hps p (by simp)) m hm
    simp only [runRound]
    cases hs : step wf p m with
    | ok m' md =>
      rw [hs] at h1
      exact runRound_wf wf ps (fun q hq => hps q (by simp [hq])) m' (acc || md) h1
    | passErr => simp
    | verifyFail => rw [hs] at h1; exact h1

theorem runRounds_wf (wf : M → Bool) (ps : List (Pass M)) (hps : ∀ p ∈ ps, PreservesWf wf p) :
    ∀ (k : Nat) (m : M) (g : Bool), wf m = true →
    match runRounds wf ps k m g with
    | .ok m' _ => wf m' = true
    | .passErr => True
    | .verifyFail => False
  | 0, m, g, hm => by simpa [runRounds] using hm
  | k + 1, m, g, hm => by
    have h1 := runRound_wf wf ps hps m false hm
    simp only [runRounds]
    cases hs : runRound wf ps m false with
    | ok m' md =>
      rw [hs] at h1
      cases md with
      | true => simpa using runRounds_wf wf ps hps k m' true h1
      | false => simpa using h1
    | passErr => simp
    | verifyFail => rw [hs] at h1; exact h1

/-- **C04, schedule level.** If every pass of the list preserves acceptance by the verifier and the
input is accepted, then `PassManager::run` never fails a verification — for every number of rounds —
and what it returns is accepted. (A pass may still refuse its input: `passErr`.) -/
theorem C04_seq (wf : M → Bool) (passes : List (Pass M)) (hps : ∀ p ∈ passes, PreservesWf wf p)
    (m : M) (hm : wf m = true) (rounds : Nat) :
    match run wf passes rounds m with
    | .ok m' _ => wf m' = true
    | .passErr => True
    | .verifyFail => False := by
  simp only [run, hm, if_true]
  exact runRounds_wf wf passes hps rounds m false hm

/-- A random pass SEQUENCE as run by the harness = one round of the list. -/
theorem C04_sequence (wf : M → Bool) (passes : List (Pass M)) (hps : ∀ p ∈ passes, PreservesWf wf p)
    (m : M) (hm : wf m = true) :
    match runRound wf passes m false with
    | .ok m' _ => wf m' = true
    | .passErr => True
    | .verifyFail => False :=
  runRound_wf wf passes hps m false hm

/-- Conversely a verification failure of the schedule pins down a pass that does not preserve acceptance. -/
theorem C04_blame (wf : M → Bool) (passes : List (Pass M)) (m : M) (hm : wf m = true) (rounds : Nat)
    (h : ∃ r, run wf passes rounds m = r ∧ (match r with | .verifyFail => True | _ => False)) :
    ∃ p ∈ passes, ¬ PreservesWf wf p := by
  by_cases hall : ∀ p ∈ passes, PreservesWf wf p
  · obtain ⟨r, hr, hv⟩ := h
    have := C04_seq wf passes hall m hm rounds
    rw [hr] at this
    cases r <;> simp_all
  · simpa using hall

/-- Termination of the fixpoint iteration: at most `rounds × |passes|` pass executions (the model is total
by construction — recursion on the `rounds` fuel exactly as the `for _ in 0..options.rounds` loop). -/
theorem C04_terminates (wf : M → Bool) (passes : List (Pass M)) :
    ∀ (rounds : Nat) (m : M), execCount wf passes rounds m ≤ rounds * passes.length
  | 0, _ => by simp [execCount]
  | k + 1, m => by
    simp only [execCount]
    cases hs : runRound wf passes m false with
    | ok m' md =>
      cases md with
      | true =>
        have := C04_terminates wf passes k m'
        simp only [if_true]
        rw [Nat.succ_mul]; omega
      | false => simp only [Bool.false_eq_true, if_false]; rw [Nat.succ_mul]; omega
    | passErr => simp only []; rw [Nat.succ_mul]; omega
    | verifyFail => simp only []; rw [Nat.succ_mul]; omega

/-! ## dominance kernel -/

theorem reach_mono (g : Cfg) (a : Nat) : ∀ (f : Nat) (seen : List Nat) (x : Nat), x ∈ seen → x ∈ reachAvoid g a f seen
  | 0, seen, x, h => by simpa [reachAvoid] using h
  | f + 1, seen, x, h => by
    simp only [reachAvoid]
    exact reach_mono g a f _ x (by simp [h])

theorem reach_path (g : Cfg) (a : Nat) : ∀ (p : List Nat) (seen : List Nat) (fuel x : Nat),
    x ∈ seen → IsPath g (x :: p) → (∀ y ∈ x :: p, y ≠ a) → p.length ≤ fuel →
    (x :: p).getLast (by simp) ∈ reachAvoid g a fuel seen
  | [], seen, fuel, x, hx, _, _, _ => by simpa using reach_mono g a fuel seen x hx
  | y :: r, seen, fuel, x, hx, hp, ha, hl => by
    cases fuel with
    | zero => simp at hl
    | succ f =>
      simp only [IsPath] at hp
      have hy : y ∈ seen ++ (seen.flatMap (succs g)).filter (fun s => s != a) := by
        have hya : y ≠ a := ha y (by simp)
        simp only [List.mem_append, List.mem_filter, List.mem_flatMap, bne_iff_ne, ne_eq]
        exact Or.inr ⟨⟨x, hx, hp.1⟩, hya⟩
      have := reach_path g a r _ f y hy hp.2 (fun z hz => ha z (by simp [hz])) (by simpa using hl)
      simpa [reachAvoid] using this

/-- **Soundness of the dominance check.** If `dominates g fuel a b` then every path from the entry block
to `b` with at most `fuel` edges passes through `a`. (With `fuel ≥` number of blocks this covers every
simple path; a path with a repeated block contains a shorter one with the same end points.) -/
theorem wf_dominance_sound (g : Cfg) (fuel a b : Nat) (h : dominates g fuel a b = true)
    (p : List Nat) (hp : IsPath g (0 :: p)) (hend : (0 :: p).getLast (by simp) = b) (hlen : p.length ≤ fuel) :
    a ∈ 0 :: p := by
  by_cases hab : a = b
  · subst hab; rw [← hend]; exact List.getLast_mem _
  · by_cases hin : a ∈ 0 :: p
    · exact hin
    · exfalso
      have ha0 : a ≠ 0 := fun h0 => hin (by simp [h0])
      have hreach := reach_path g a p [0] fuel 0 (by simp) hp (fun y hy hya => hin (hya ▸ hy)) hlen
      rw [hend] at hreach
      simp only [dominates, Bool.or_eq_true, beq_iff_eq, hab, false_or, Bool.not_eq_true', ha0, if_false] at h
      have hc : (reachAvoid g a fuel [0]).contains b = true := by simpa using hreach
      rw [h] at hc
      exact Bool.false_ne_true hc

/-! ## the harness predicate -/

/-- the predicate evaluated on every `sv_c04` line flags exactly the outcomes the property forbids -/
theorem C04_prop_exact (v : Verdict) :
    propHolds v = false ↔ (v = .verifyFail ∨ v = .panic ∨ v = .hang ∨ v = .abort) := by
  cases v <;> simp [propHolds]

/-! ## non-vacuity -/

/-- a two-pass list over `Nat` "modules" (wf = even): one pass adds 2 (preserves), the other refuses odd inputs -/
example : ∃ (ps : List (Pass Nat)), (∀ p ∈ ps, PreservesWf (fun n => n % 2 == 0) p) ∧ ps.length = 2 :=
  ⟨[⟨fun n => some (n + 2, true)⟩, ⟨fun n => if n % 2 == 0 then some (n, false) else none⟩], by
    refine ⟨?_, rfl⟩
    intro p hp
    simp only [List.mem_cons, List.mem_singleton, List.not_mem_nil, or_false] at hp
    rcases hp with rfl | rfl
    · intro m m' md hm h; simp at h; obtain ⟨h1, _⟩ := h; subst h1; simp at hm ⊢; omega
    · intro m m' md hm h
      by_cases he : m % 2 == 0
      · simp [he] at h; obtain ⟨h1, _⟩ := h; subst h1; exact hm
      · simp [he] at h⟩

/-- diamond CFG 0→1,2 ; 1→3 ; 2→3 : the entry dominates 3, block 1 does not -/
example : dominates [[1, 2], [3], [3], []] 4 0 3 = true ∧ dominates [[1, 2], [3], [3], []] 4 1 3 = false := by decide

/-- **C04 (partial).** Proved: schedule-level preservation, blame, termination bound, dominance soundness on
abstract CFGs. NOT modelled: the bodies of the passes and of the verifier — whether each registered pass
preserves acceptance is validated per (module, random pass sequence) on the real code by `sv_c04`. -/
theorem C04_partial (wf : M → Bool) (passes : List (Pass M)) :
    ((∀ p ∈ passes, PreservesWf wf p) → ∀ m, wf m = true → ∀ rounds,
      match run wf passes rounds m with
      | .ok m' _ => wf m' = true
      | .passErr => True
      | .verifyFail => False) ∧
    (∀ rounds m, execCount wf passes rounds m ≤ rounds * passes.length) :=
  ⟨fun h m hm r => C04_seq wf passes h m hm r, C04_terminates wf passes⟩

end SwayVerif.C04
