import SwayVerif.Model.Cache
import SwayVerif.Lemmas.Cache
/-!
# C26 — incremental (LSP) compilation agrees with a fresh compilation: the cache protocol

Property theorems only; helper lemmas live in `SwayVerif/Lemmas/Cache.lean`, the model in
`SwayVerif/Model/Cache.lean`.

What is proved, for ALL module graphs, texts, versions and fuel:

* `upToDate_terminates` — the recursive dependency check returns (and more fuel never changes the
  answer) as soon as the `dependencies` recorded in the cache are acyclic (decrease a rank).
* `cacheInv_of_covers` — the cache invariant named by the property ("an entry the check accepts was built
  from the present text of its file and of every module below it") holds whenever `file_versions` marks
  every stale module with a newer version (`Covers`).
* `cache_inv_preserved` — a round of the protocol *as the server runs it when nothing is cancelled*
  (edit `f` at the next version, then a committed compilation with `file_versions = {f ↦ v}`, `f` being a
  module of the program) re-establishes `Clean` (no stale typed module at all) together with the version
  bound and the acyclicity it needs; cancelled compilations, garbage collection and whole-program reuse on
  a clean state leave it untouched (`C26_history_partial`).
* `C26_partial` — on a clean state the module results a reusing compilation assembles equal those of a
  compilation from scratch, for every per-module semantics that depends on the module's own text.

The invariant was FALSE for the protocol as found once one of the conditions above is dropped; each is
witnessed by an explicit event sequence on the as-found model (`found_window_*`, `found_reenter_*`,
`found_save_*`) that was replayed on the real server (corpus/c26.txt) and repaired (`fixed_*` are the same
sequences on the model of the repaired code); `sibling_import_stale` holds before and after.  What is missing from the full property: the typed
module of a file also depends on the modules it imports (not only on its own text and its submodules),
reused modules do not replay their diagnostics, and garbage collection removes declarations reused modules
still point to — none of these is visible to the cache protocol; they are covered by the per-history
validation only.
-/
namespace SwayVerif.C26
open SwayVerif.Cache

/-! ## Termination of the recursive dependency check -/

/-- With acyclic `dependencies` (a rank decreases along them) both checks return once the fuel exceeds
the rank of the queried module, and the answer no longer depends on the fuel. -/
theorem upToDate_terminates (chk : Path → Entry → Bool) (c : Cache) (rank : Path → Nat)
    (hr : Ranked rank c) (p : Path) (n m : Nat) (hn : rank p < n) (hm : n ≤ m) :
    (upToDateG chk n c p).isSome = true ∧ upToDateG chk m c p = upToDateG chk n c p := by
  have h := upToDateG_isSome chk c rank hr n p hn
  refine ⟨h, ?_⟩
  cases hb : upToDateG chk n c p with
  | none => simp [hb] at h
  | some b => exact upToDateG_mono_le chk c hm hb

theorem tyUpToDate_terminates (c : Cache) (fv : FV) (rank : Path → Nat) (hr : Ranked rank c)
    (p : Path) (n m : Nat) (hn : rank p < n) (hm : n ≤ m) :
    (tyUpToDate n c fv p).isSome = true ∧ tyUpToDate m c fv p = tyUpToDate n c fv p :=
  upToDate_terminates (tyChk fv) c rank hr p n m hn hm

theorem parseUpToDate_terminates (fsok : Path → Entry → Bool) (c : Cache) (fv : FV) (rank : Path → Nat)
    (hr : Ranked rank c) (p : Path) (n m : Nat) (hn : rank p < n) (hm : n ≤ m) :
    (parseUpToDate fsok n c fv p).isSome = true ∧ parseUpToDate fsok m c fv p = parseUpToDate fsok n c fv p :=
  upToDate_terminates (parseChk fsok fv) c rank hr p n m hn hm

/-- A cycle in `dependencies` makes the check run out of any fuel (the code does not return). -/
theorem upToDate_cycle_diverges (n : Nat) :
    tyUpToDate n (fun _ => some ⟨0, [0], none, some ⟨none, fun _ => 0⟩⟩) markNone 0 = none := by
  induction n with
  | zero => rfl
  | succ n ih =>
    unfold tyUpToDate at ih ⊢
    rw [upToDateG]
    simp [tyChk, verOk, markNone, allDeps, ih]

/-! ## The invariant -/

/-- Every entry the typed check accepts describes the present text of its file and of every module
below it. -/
def CacheInv (disk : Disk) (c : Cache) (fv : FV) : Prop :=
  ∀ n p q, tyUpToDate n c fv p = some true → Reach c p q → ¬ Stale disk c q

theorem cacheInv_of_covers {disk : Disk} {c : Cache} {fv : FV} (h : Covers disk c fv) : CacheInv disk c fv := by
  intro n p q hacc hq
  obtain ⟨e, he, hk⟩ := upToDateG_accept_reach (tyChk fv) c n hq hacc
  exact tyChk_not_stale h he hk

/-- No typed module in the cache was built from a text that is not the present one. -/
def Clean (s : St) : Prop := ∀ q, ¬ Stale s.disk s.cache q

/-- Versions recorded in typed modules are below the next version the client hands out. -/
def VerBound (s : St) : Prop :=
  ∀ p e t tv, s.cache p = some e → e.typed = some t → t.ver = some tv → tv < s.nextVer

structure Inv (rank : Path → Nat) (s : St) : Prop where
  clean : Clean s
  ver : VerBound s
  ranked : Ranked rank s.cache

/-- After an edit of `f` on a clean state the `file_versions` of that edit cover the stale entries. -/
theorem covers_after_edit {rank : Path → Nat} {s : St} (h : Inv rank s) (f : Path) (x : Content) :
    Covers (fun q => if q = f then x else s.disk q) s.cache (mark f s.nextVer) := by
  intro p e t he ht hne
  by_cases hp : p = f
  · subst hp
    refine ⟨s.nextVer, by simp [mark], ?_⟩
    intro tv htv
    exact h.ver p e t tv he ht htv
  · exfalso
    apply h.clean p
    refine ⟨e, t, he, ht, ?_⟩
    simpa [hp] using hne

theorem step_jobCommit_compiled (depsOf : Path → Content → List Path) (fsok : Disk → Path → Entry → Bool)
    (F : Nat) (root : Path) (s : St) (fv : FV) (c' : Cache)
    (h : runJob depsOf fsok F root s fv = .compiled c') :
    step depsOf fsok F root s (.jobCommit fv) = { s with cache := c', prog := some s.disk } := by
  simp only [step, h]

/-- **Invariant preservation** for a round of the protocol without cancellation: edit `f` (next
version), then a committed compilation of that request that really compiled (`.compiled c'`) and has
`f` among the modules of the program. -/
theorem cache_inv_preserved (depsOf : Path → Content → List Path) (fsok : Disk → Path → Entry → Bool)
    (F : Nat) (root : Path) (rank : Path → Nat)
    (hdeps : ∀ p x d, d ∈ depsOf p x → rank d < rank p) (hF : rank root < F)
    (s : St) (h : Inv rank s) (f : Path) (x : Content) (c' : Cache)
    (hjob : runJob depsOf fsok F root (step depsOf fsok F root s (.edit f x)) (mark f s.nextVer) = .compiled c')
    (hf : Reach c' root f) :
    Inv rank (step depsOf fsok F root (step depsOf fsok F root s (.edit f x)) (.jobCommit (mark f s.nextVer))) := by
  rw [step_jobCommit_compiled depsOf fsok F root _ _ c' hjob]
  have hdisk : (step depsOf fsok F root s (.edit f x)).disk = fun q => if q = f then x else s.disk q := rfl
  have hcache : (step depsOf fsok F root s (.edit f x)).cache = s.cache := rfl
  -- what the job computed
  unfold runJob at hjob
  split at hjob
  · cases hjob
  · rw [hdisk, hcache] at hjob
    injection hjob with hc'
    let disk1 : Disk := fun q => if q = f then x else s.disk q
    let fv := mark f s.nextVer
    let c1 := parseTree depsOf disk1 fv F s.cache root
    have hc1 : c' = tyTree F disk1 fv F c1 root := hc'.symm
    have hcov0 : Covers disk1 s.cache fv := covers_after_edit h f x
    have hsub : TypedSub c1 s.cache := parseTree_sub depsOf disk1 fv F s.cache root
    have hcov1 : Covers disk1 c1 fv := hsub.covers hcov0
    have hr1 : Ranked rank c1 := parseTree_ranked depsOf disk1 fv rank hdeps F s.cache root h.ranked
    have hts : TypedStep disk1 fv c1 c' := by rw [hc1]; exact tyTree_step F disk1 fv F c1 root
    have hsound : ∀ q, Reach c1 root q → ¬ Stale disk1 c' q := by
      rw [hc1]; exact tyTree_sound F disk1 fv rank F c1 root hr1 hcov1 hF
    refine ⟨?_, ?_, ?_⟩
    · -- clean
      intro q
      show ¬ Stale disk1 c' q
      by_cases hq : q = f
      · subst hq
        exact hsound q (hts.reach_back hf)
      · apply hts.not_stale
        intro hst
        obtain ⟨e, t, he, ht, hne⟩ := hsub.stale hst
        apply h.clean q
        refine ⟨e, t, he, ht, ?_⟩
        simpa [disk1, hq] using hne
    · -- version bound
      intro p e' t' tv he' ht' htv
      show tv < s.nextVer + 1
      change c' p = some e' at he'
      rcases hts p with hsame | ⟨e, t, he, he'', _, hver⟩
      · obtain ⟨e0, hsp, ht0⟩ := hsub.typed_some (hsame ▸ he') ht'
        have := h.ver p e0 t' tv hsp ht0 htv
        omega
      · rw [he''] at he'
        cases he'
        obtain rfl : t = t' := Option.some.inj ht'
        rw [hver] at htv
        by_cases hp : p = f
        · subst hp
          simp [fv, mark, joinV] at htv
          omega
        · simp [fv, mark, joinV, hp] at htv
    · exact hts.ranked hr1

/-- Cancelled (or failed) compilations and garbage collection do not change the committed cache. -/
theorem cache_inv_cancel_gc (depsOf : Path → Content → List Path) (fsok : Disk → Path → Entry → Bool)
    (F : Nat) (root : Path) (rank : Path → Nat) (s : St) (h : Inv rank s) :
    (∀ fv, Inv rank (step depsOf fsok F root s (.jobCancelled fv))) ∧
    (∀ f, Inv rank (step depsOf fsok F root s (.gc f))) :=
  ⟨fun _ => h, fun _ => h⟩

/-- A committed compilation on a clean state (a save, an open, a retried request) keeps the state
clean, whatever `file_versions` it carries below the next version, provided it recompiles or reuses. -/
theorem cache_inv_commit_clean (depsOf : Path → Content → List Path) (fsok : Disk → Path → Entry → Bool)
    (F : Nat) (root : Path) (rank : Path → Nat)
    (hdeps : ∀ p x d, d ∈ depsOf p x → rank d < rank p)
    (s : St) (h : Inv rank s) (fv : FV) (hfv : ∀ q v, fv q = some (some v) → v < s.nextVer) :
    Inv rank (step depsOf fsok F root s (.jobCommit fv)) := by
  cases hrj : runJob depsOf fsok F root s fv with
  | reused =>
    have : step depsOf fsok F root s (.jobCommit fv) = s := by simp only [step, hrj]
    rw [this]; exact h
  | compiled c' =>
    rw [step_jobCommit_compiled depsOf fsok F root s fv c' hrj]
    unfold runJob at hrj
    split at hrj
    · cases hrj
    · injection hrj with hc'
      let c1 := parseTree depsOf s.disk fv F s.cache root
      have hc1 : c' = tyTree F s.disk fv F c1 root := hc'.symm
      have hsub : TypedSub c1 s.cache := parseTree_sub depsOf s.disk fv F s.cache root
      have hr1 : Ranked rank c1 := parseTree_ranked depsOf s.disk fv rank hdeps F s.cache root h.ranked
      have hts : TypedStep s.disk fv c1 c' := by rw [hc1]; exact tyTree_step F s.disk fv F c1 root
      refine ⟨?_, ?_, hts.ranked hr1⟩
      · intro q
        show ¬ Stale s.disk c' q
        apply hts.not_stale
        intro hst
        exact h.clean q (hsub.stale hst)
      · intro p e' t' tv he' ht' htv
        show tv < s.nextVer
        change c' p = some e' at he'
        rcases hts p with hsame | ⟨e, t, he, he'', _, hver⟩
        · obtain ⟨e0, hsp, ht0⟩ := hsub.typed_some (hsame ▸ he') ht'
          exact h.ver p e0 t' tv hsp ht0 htv
        · rw [he''] at he'
          cases he'
          obtain rfl : t = t' := Option.some.inj ht'
          rw [hver] at htv
          cases hq : fv p with
          | none => simp [hq, joinV] at htv
          | some o =>
            cases o with
            | none => simp [hq, joinV] at htv
            | some v =>
              simp [hq, joinV] at htv
              subst htv
              exact hfv p v hq

/-- Histories that exclude the bad windows: every edit is compiled and committed (with its own
`file_versions`, the edited file being a module of the program) before the next edit; in between any
number of cancelled compilations, garbage collections and committed compilations of older or
version-less requests (save, open). -/
inductive GoodRun (depsOf : Path → Content → List Path) (fsok : Disk → Path → Entry → Bool) (F : Nat) (root : Path) :
    St → St → Prop
  | nil (s : St) : GoodRun depsOf fsok F root s s
  | round {s₀ s : St} (f : Path) (x : Content) (c' : Cache) :
      GoodRun depsOf fsok F root s₀ s →
      runJob depsOf fsok F root (step depsOf fsok F root s (.edit f x)) (mark f s.nextVer) = .compiled c' →
      Reach c' root f →
      GoodRun depsOf fsok F root s₀
        (step depsOf fsok F root (step depsOf fsok F root s (.edit f x)) (.jobCommit (mark f s.nextVer)))
  | cancelled {s₀ s : St} (fv : FV) :
      GoodRun depsOf fsok F root s₀ s → GoodRun depsOf fsok F root s₀ (step depsOf fsok F root s (.jobCancelled fv))
  | gc {s₀ s : St} (f : Path) :
      GoodRun depsOf fsok F root s₀ s → GoodRun depsOf fsok F root s₀ (step depsOf fsok F root s (.gc f))
  | commitOld {s₀ s : St} (fv : FV) :
      GoodRun depsOf fsok F root s₀ s → (∀ q v, fv q = some (some v) → v < s.nextVer) →
      GoodRun depsOf fsok F root s₀ (step depsOf fsok F root s (.jobCommit fv))

theorem C26_history_partial (depsOf : Path → Content → List Path) (fsok : Disk → Path → Entry → Bool)
    (F : Nat) (root : Path) (rank : Path → Nat)
    (hdeps : ∀ p x d, d ∈ depsOf p x → rank d < rank p) (hF : rank root < F)
    {s₀ s : St} (h₀ : Inv rank s₀) (hrun : GoodRun depsOf fsok F root s₀ s) : Inv rank s := by
  induction hrun with
  | nil => exact h₀
  | round f x c' _ hjob hf ih => exact cache_inv_preserved depsOf fsok F root rank hdeps hF _ ih f x c' hjob hf
  | cancelled fv _ ih => exact ih
  | gc f _ ih => exact ih
  | commitOld fv _ hfv ih => exact cache_inv_commit_clean depsOf fsok F root rank hdeps _ ih fv hfv

/-- **C26 (partial).** On a clean state, what a reusing compilation yields for a module — the cached
typed module — equals what a compilation from scratch yields, for every per-module semantics `tc`
that depends on the module's own text only. Missing from the full property: `tc` of the real compiler
also reads the modules a file imports, reused modules do not replay their diagnostics, and garbage
collection invalidates declarations that reused modules still refer to (see the module comment). -/
theorem C26_partial {R : Type} (tc : Path → Disk → R) (dflt : R)
    (hloc : ∀ p d₁ d₂, d₁ p = d₂ p → tc p d₁ = tc p d₂)
    (s : St) (hclean : Clean s) (q : Path) (e : Entry) (t : Typed)
    (he : s.cache q = some e) (ht : e.typed = some t) :
    incrementalResult tc dflt s.cache q = compile tc s.disk q := by
  unfold incrementalResult compile
  simp only [he, ht, Option.bind]
  apply hloc
  exact Classical.byContradiction fun hne => hclean q ⟨e, t, he, ht, hne⟩

/-- The empty server state satisfies the invariant (non-vacuity of `Inv`). -/
example (rank : Path → Nat) : Inv rank ⟨fun _ => 0, fun _ => none, none, 2⟩ where
  clean := by rintro q ⟨e, t, he, _⟩; simp at he
  ver := by intro p e t tv he; simp at he
  ranked := by intro p e he; simp at he

/-! ## Witnesses

Three modules: `0` = root (declares `1` and `2`), `1`, `2`. Texts are numbers; the text of every file is
`0` at the start, versions start at 2 (the open is version 1). Per-module semantics for the witnesses:
the text itself.

For the protocol AS FOUND (`Cache.AsFound`: a `None` version counts as up to date in the parse check, a
parse of another text keeps the typed module) the invariant is false — `found_*`, each replayed on the
real server before the repair (corpus/c26.txt `w1-window`, `w2-save`, `w3-reenter`). For the repaired
protocol the same event sequences are fine — `fixed_*`. What no repair of the protocol can give is
witnessed by `sibling_import_stale`. -/

def wDeps : Path → Content → List Path := fun p _ => if p = 0 then [1, 2] else []
def wInit : St := ⟨fun _ => 0, fun _ => none, none, 2⟩
def wRun : List Event → St := run wDeps hashFs 8 0 wInit
def wRunFound : List Event → St := AsFound.run wDeps 8 0 wInit
def ownText : Path → Disk → Nat := fun p d => d p

/-- W1, the window after a cancelled compilation: edit `1`, its compilation is cancelled, edit `2`, the
compilation of that request commits. `file_versions = {2 ↦ 3}` says `None` for `1`. -/
def wWindowEvents : List Event :=
  [.jobCommit markNone, .edit 1 7, .jobCancelled (mark 1 2), .edit 2 8, .jobCommit (mark 2 3)]

/-- As found: the check accepts the typed module of `1` built from the old text. -/
theorem found_window_stale_accepted :
    tyUpToDate 8 (wRunFound wWindowEvents).cache (mark 2 3) 1 = some true ∧
    incrementalResult ownText 0 (wRunFound wWindowEvents).cache 1 = 0 ∧
    compile ownText (wRunFound wWindowEvents).disk 1 = 7 := by
  decide

theorem found_window_not_clean : ¬ Clean (wRunFound wWindowEvents) := by
  intro h
  have h1 : incrementalResult ownText 0 (wRunFound wWindowEvents).cache 1 = 0 := by decide
  have h2 : (wRunFound wWindowEvents).disk 1 = 7 := by decide
  have h3 : (((wRunFound wWindowEvents).cache 1).bind (·.typed)).isSome = true := by decide
  cases hc : (wRunFound wWindowEvents).cache 1 with
  | none => simp [hc] at h3
  | some e =>
    cases ht : e.typed with
    | none => simp [hc, ht] at h3
    | some t =>
      apply h 1
      refine ⟨e, t, hc, ht, ?_⟩
      simp only [incrementalResult, hc, ht, ownText, Option.bind] at h1
      intro hcon
      rw [h2, h1] at hcon
      cases hcon

/-- Repaired: the parse of the new text of `1` drops its typed module, `1` is type checked again. -/
theorem fixed_window :
    ∀ q ∈ [0, 1, 2], incrementalResult ownText 0 (wRun wWindowEvents).cache q = compile ownText (wRun wWindowEvents).disk q := by
  decide

/-- W2, save after a cancelled compilation: the request of a save carries no version. -/
def wSaveEvents : List Event := [.jobCommit markNone, .edit 1 7, .jobCancelled (mark 1 2)]

/-- As found: the parse check accepts the root and the whole program of the last commit is reused
although the text of `1` changed. -/
theorem found_save_reuses_stale_program :
    (match AsFound.runJob wDeps 8 0 (wRunFound wSaveEvents) markNone with | .reused => true | .compiled _ => false) = true ∧
    ((wRunFound wSaveEvents).prog.map (fun d => d 1)) = some 0 ∧ (wRunFound wSaveEvents).disk 1 = 7 := by
  decide

/-- Repaired: without a version the file system decides, the program is compiled again. -/
theorem fixed_save_recompiles :
    (match runJob wDeps hashFs 8 0 (wRun wSaveEvents) markNone with | .reused => false | .compiled _ => true) = true ∧
    ∀ q ∈ [0, 1, 2], incrementalResult ownText 0 (wRun (wSaveEvents ++ [.jobCommit markNone])).cache q
        = compile ownText (wRun (wSaveEvents ++ [.jobCommit markNone])).disk q := by
  decide

/-- W3, a module leaves the program, is edited, and comes back: text `5` of the root declares no
submodule. The edit of `1` while it is outside is compiled as "nothing changed" (whole-program reuse).
No compilation is cancelled. -/
def rDeps : Path → Content → List Path := fun p x => if p = 0 ∧ x = 0 then [1] else []
def wReenterEvents : List Event :=
  [.jobCommit markNone, .edit 0 5, .jobCommit (mark 0 2), .edit 1 9, .jobCommit (mark 1 3), .edit 0 0, .jobCommit (mark 0 4)]

/-- As found: when the root declares `1` again its typed module from the very first compilation is accepted. -/
theorem found_reenter_stale_accepted :
    incrementalResult ownText 0 (AsFound.run rDeps 8 0 wInit wReenterEvents).cache 1 = 0 ∧
    compile ownText (AsFound.run rDeps 8 0 wInit wReenterEvents).disk 1 = 9 := by
  decide

theorem fixed_reenter :
    ∀ q ∈ [0, 1], incrementalResult ownText 0 (run rDeps hashFs 8 0 wInit wReenterEvents).cache q
      = compile ownText (run rDeps hashFs 8 0 wInit wReenterEvents).disk q := by
  decide

/-- W4, the hypothesis of `C26_partial` on the semantics is needed, also after the repairs: module `2`
imports from its sibling `1` (its typed module reads the text of `1`). After an edit of `1`, compiled and
committed, nothing in the cache is stale in the sense of the protocol, yet the reused typed module of `2`
differs from a fresh one. -/
def importing : Path → Disk → Nat := fun p d => if p = 2 then d 1 + d 2 else d p
def wSibling : St := wRun [.jobCommit markNone, .edit 1 7, .jobCommit (mark 1 2)]

theorem sibling_import_stale :
    tyUpToDate 8 wSibling.cache (mark 1 2) 2 = some true ∧
    incrementalResult ownText 0 wSibling.cache 2 = compile ownText wSibling.disk 2 ∧
    incrementalResult importing 0 wSibling.cache 2 = 0 ∧ compile importing wSibling.disk 2 = 7 := by
  decide

end SwayVerif.C26
