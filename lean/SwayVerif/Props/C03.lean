import SwayVerif.Lemmas.MiniIR
import SwayVerif.Model.DedupFields
/-!
# C03 — every IR optimisation pass preserves program behaviour

What is PROVED here, for ALL MiniIR functions, arguments and fuel (`Model/MiniIR.lean`: SSA values,
blocks with arguments, `binop/cmp/br/cbr/ret` over u64/bool, FuelVM traps explicit):

* `remove_unreachable_preserves` — simplify-cfg's unreachable-block removal;
* `filter_closed_preserves`      — its general form: deleting any set of blocks whose complement
                                   contains the entry and is closed under successors;
* `cbr_const_sound`, `fold_cbr_preserves` — a conditional branch on a constant is the unconditional one;
* `dce_pure_preserves`           — DCE of unused instructions that cannot trap is exact;
* `dce_refines`                  — DCE of ANY unused instruction preserves every normal return;
* `dce_removes_trap`             — … but is NOT exact: the real (and the modelled) DCE deletes an unused
                                   `add/sub/mul/div/mod` whose execution would have made the VM panic;
* `dce_iter_refines`             — the iterated pass;
* `pipeline_preserves_of_passes` — a pass list preserves behaviour when each member does;
* `dedup_fields_complete`, `dedup_global_facts`, `dedup_arms_covered`, `dedup_known_unhashed` — the
  function-deduplication hash of `fn_dedup.rs::hash_fn` consumes every non-operand field of every
  instruction variant (tables regenerated from the Rust sources on every run).

`C03_partial` bundles them. See its doc comment for everything that is NOT modelled.
-/
namespace SwayVerif.C03
open SwayVerif.MiniIR
open SwayVerif.Generated.DedupHashTable
open SwayVerif.DedupFields

/-! ## simplify-cfg -/

/-- Deleting all blocks outside a label set that is closed under successors (and contains the
current label) does not change execution. -/
theorem filter_closed_preserves (keep : Label → Bool) (f : Func) (hc : closedB keep f = true)
    (he : keep f.entry = true) (args : List Val) (fuel : Nat) :
    run (filterBlocks keep f) args fuel = run f args fuel := by
  unfold run
  exact runFrom_filter keep f hc fuel Env.empty f.entry args he

/-- simplify-cfg's unreachable-block removal preserves `run` for ALL MiniIR functions. -/
theorem remove_unreachable_preserves (f : Func) (args : List Val) (fuel : Nat) :
    run (removeUnreachable f) args fuel = run f args fuel := by
  unfold removeUnreachable
  simp only []
  split
  · rename_i h
    rw [Bool.and_eq_true] at h
    exact filter_closed_preserves _ f h.2 h.1 args fuel
  · rfl

/-- Non-vacuity: the pass really deletes a block (block 7 is unreachable), keeps the rest. -/
example :
    (removeUnreachable ⟨0, [⟨0, [], [], .br 1 []⟩, ⟨7, [], [], .ret (.const (.u 9))⟩,
        ⟨1, [], [], .ret (.const (.u 3))⟩]⟩).blocks.map (·.label) = [0, 1] := by decide

/-- A conditional branch on a constant steps exactly like the unconditional branch to the chosen side. -/
theorem cbr_const_sound (e : Env) (c : Bool) (lt lf : Label) (ta fa : List Operand) :
    stepTerm e (.cbr (.const (.b c)) lt ta lf fa) = stepTerm e (if c then .br lt ta else .br lf fa) := by
  cases c <;> simp [stepTerm, evalOp]

/-- Folding every constant `cbr` of a function preserves `run`. -/
theorem fold_cbr_preserves (f : Func) (args : List Val) (fuel : Nat) :
    run (foldCbr f) args fuel = run f args fuel := by
  unfold run
  exact runFrom_foldCbr f fuel Env.empty f.entry args

example : foldCbrTerm (.cbr (.const (.b true)) 1 [] 2 []) = .br 1 [] := by decide
example : foldCbrTerm (.cbr (.const (.b false)) 1 [] 2 []) = .br 2 [] := by decide

/-! ## DCE -/

/-- One DCE sweep is EXACT when every deleted instruction is one that cannot trap (`and or xor lsh rsh`,
`cmp`) and the original run is not stuck on ill-formed IR. -/
theorem dce_pure_preserves (f : Func)
    (hpure : ∀ b, b ∈ f.blocks → ∀ i, i ∈ b.insts → isDead f i = true → i.nonTrapping = true)
    (args : List Val) (fuel : Nat) (hwf : run f args fuel ≠ .stuck) :
    run (dceOnce f) args fuel = run f args fuel := by
  unfold run at *
  rcases runFrom_dceOnce f fuel Env.empty Env.empty f.entry args (Agree.refl _ _) with h | h | h
  · exact absurd h hwf
  · obtain ⟨_, b, hb, i, hi, hd, hn⟩ := h
    rw [hpure b hb i hi hd] at hn
    cases hn
  · exact h

/-- One DCE sweep of ANY unused instructions preserves every normal return. -/
theorem dce_refines (f : Func) (args : List Val) (fuel : Nat) (v : Val)
    (h : run f args fuel = .ret v) : run (dceOnce f) args fuel = .ret v := by
  unfold run at *
  rcases runFrom_dceOnce f fuel Env.empty Env.empty f.entry args (Agree.refl _ _) with h' | h' | h'
  · rw [h] at h'; cases h'
  · rw [h] at h'; cases h'.1
  · exact h'.trans h

/-- … and every timeout (DCE never changes the number of executed blocks before a trap). -/
theorem dce_refines_timeout (f : Func) (args : List Val) (fuel : Nat)
    (h : run f args fuel = .timeout) : run (dceOnce f) args fuel = .timeout := by
  unfold run at *
  rcases runFrom_dceOnce f fuel Env.empty Env.empty f.entry args (Agree.refl _ _) with h' | h' | h'
  · rw [h] at h'; cases h'
  · rw [h] at h'; cases h'.1
  · exact h'.trans h

/-- The function `entry(): v1 = add 18446744073709551615, 1; ret 7`. -/
def trapWitness : Func :=
  ⟨0, [⟨0, [], [.binop 1 .add (.const (.u 18446744073709551615)) (.const (.u 1))], .ret (.const (.u 7))⟩]⟩

/-- DCE is NOT exact: the unused overflowing `add` makes the original trap, the result returns 7.
(`dce.rs` treats arithmetic as side-effect free; replayed on the real compiler by `sv_c03`.) -/
theorem dce_removes_trap :
    run trapWitness [] 5 = .trap ∧ run (dceOnce trapWitness) [] 5 = .ret (.u 7) := by decide

theorem iter_refines (p : Func → Func)
    (hp : ∀ f args fuel v, run f args fuel = .ret v → run (p f) args fuel = .ret v) :
    ∀ (n : Nat) (f : Func) (args : List Val) (fuel : Nat) (v : Val),
      run f args fuel = .ret v → run (iter p n f) args fuel = .ret v := by
  intro n
  induction n with
  | zero => intro f args fuel v h; exact h
  | succ n ih => intro f args fuel v h; exact ih (p f) args fuel v (hp f args fuel v h)

/-- The iterated DCE pass preserves every normal return. -/
theorem dce_iter_refines (n : Nat) (f : Func) (args : List Val) (fuel : Nat) (v : Val)
    (h : run f args fuel = .ret v) : run (dce n f) args fuel = .ret v :=
  iter_refines dceOnce dce_refines n f args fuel v h

example : (dce 2 ⟨0, [⟨0, [5], [.binop 1 .and (.var 5) (.const (.u 1)), .binop 2 .xor (.var 1) (.var 1)],
    .ret (.var 5)⟩]⟩).blocks.map (·.insts.length) = [0] := by decide

/-! ## pass manager composition -/

/-- Running a list of passes in order (`PassManager::run` over a flattened `PassGroup`). -/
def runPasses : List (Func → Func) → Func → Func
  | [], f => f
  | p :: ps, f => runPasses ps (p f)

/-- If every pass of a pipeline preserves `run` (for all functions), so does the pipeline — in any
order, with repetitions, over any number of rounds. -/
theorem pipeline_preserves_of_passes (ps : List (Func → Func))
    (h : ∀ p, p ∈ ps → ∀ f args fuel, run (p f) args fuel = run f args fuel) :
    ∀ f args fuel, run (runPasses ps f) args fuel = run f args fuel := by
  induction ps with
  | nil => intro f args fuel; rfl
  | cons p ps ih =>
    intro f args fuel
    simp only [runPasses]
    rw [ih (fun q hq => h q (List.mem_cons_of_mem _ hq)) (p f) args fuel]
    exact h p List.mem_cons_self f args fuel

example : ∀ f args fuel, run (runPasses [removeUnreachable, foldCbr, removeUnreachable] f) args fuel = run f args fuel :=
  pipeline_preserves_of_passes _ (by
    intro p hp
    simp only [List.mem_cons, List.mem_nil_iff, or_false] at hp
    rcases hp with rfl | rfl | rfl
    · exact remove_unreachable_preserves
    · exact fold_cbr_preserves
    · exact remove_unreachable_preserves)

/-! ## fn-dedup: the hash consumes every non-operand field -/

/-- Every non-operand field of every `InstOp` / `FuelVmInstruction` variant (as DECLARED in
instruction.rs) is fed to the hasher by `hash_fn`, except the three reviewed fields. Dropping e.g.
`byte_len.hash(state)` for `MemCopyBytes`, or adding a field to an instruction without hashing it,
makes this `decide` fail. -/
theorem dedup_fields_complete : fieldsComplete = true := by decide

/-- Every declared variant has an arm in `hash_fn` (and vice versa). -/
theorem dedup_arms_covered :
    (allArms.all fun a => hashed.any fun p => p.1 = a) = true ∧
    (hashed.all fun p => allArms.contains p.1) = true ∧
    (declared.map fun p => p.1) = allArms := by decide

/-- The variant-independent part of the hash: instruction kind, every operand (constants by content,
SSA values and blocks by function-local index), block argument types, order of blocks and
instructions, function attributes, return type, locals. -/
theorem dedup_global_facts :
    ([Fact.inst_discriminant, .operands_hash_value, .value_discriminant, .value_constant_content,
      .value_localised_id, .inst_result_localised_id, .block_localised_id, .block_arg_localised_id,
      .block_arg_type, .fn_is_entry, .fn_is_original_entry, .fn_is_fallback, .fn_arg_immutable,
      .fn_return_type, .local_name, .local_initializer, .local_type, .local_mutable,
      .blocks_in_order, .insts_in_order].all fun x => facts.contains x) = true := by decide

/-- Negation witness for the full statement: the three reviewed fields really are not hashed. -/
theorem dedup_known_unhashed :
    (reviewedUnhashed.all fun p => !(hashedOf p.1).contains p.2) = true := by decide

/-! ## summary -/

/-- **C03, partial.** Proved for all MiniIR functions / all operands: unreachable-block removal,
constant-`cbr` folding and their compositions preserve `run` exactly; DCE preserves every normal
return (and is exact when only non-trapping instructions are deleted); the dedup hash is complete
with respect to the declared instruction fields.

NOT modelled and NOT proved (decided per module by `sv_c03` on the real backend and VM only):
mem2reg, inline, fn-dedup's merging itself (hash collisions, call rewriting), simplify-cfg's block
merging, globals-DCE, DCE of stores/locals, const-folding rules (see C06), CCP, CSE, SROA, memcpyopt,
memcpyprop-reverse, const/arg/ret/misc demotion, init-aggr lowering, argument-mutability tagging,
memory, calls, aggregates, wide arithmetic, the correspondence MiniIR ↔ `sway_ir::Context`. -/
theorem C03_partial :
    (∀ f args fuel, run (removeUnreachable f) args fuel = run f args fuel) ∧
    (∀ f args fuel, run (foldCbr f) args fuel = run f args fuel) ∧
    (∀ n f args fuel v, run f args fuel = .ret v → run (dce n f) args fuel = .ret v) ∧
    fieldsComplete = true :=
  ⟨remove_unreachable_preserves, fold_cbr_preserves, dce_iter_refines, dedup_fields_complete⟩

end SwayVerif.C03
