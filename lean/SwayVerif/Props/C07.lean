import SwayVerif.Model.AsmOpt
import SwayVerif.Lemmas.AsmOptSim
import SwayVerif.Lemmas.AsmOptList
import SwayVerif.Lemmas.AsmOptFilter
import SwayVerif.Lemmas.AsmOptValid
import SwayVerif.Lemmas.AsmOptSubst
import SwayVerif.Lemmas.AsmOptMoves
import SwayVerif.Lemmas.AsmOptDemo
/-!
# C07 — assembly-level optimisations preserve behaviour

Property theorems only; the lemmas live in `SwayVerif/Lemmas/AsmOpt*.lean`, the model in
`SwayVerif/Model/AsmOpt.lean`.

**What is proved, for ALL op lists `P` and ALL machines.** The machine (`Model/AsmOpt.lean`) is
parametric in the meaning `sem` of every op that is not a label / comment / jump / jump-if-not-zero;
`Respects mc amb` is all that is assumed about it (an op's result depends only on the registers it
declares to use, only the registers it declares to define change, an op without side effect neither
stops the machine nor touches memory, the four `remove_redundant_ops` candidates change at most
`$of`/`$err`, `MOVE` differs from `NOOP` only in its destination), relative to a set `amb` of
registers side-effecting ops (calls) may read and write without declaring it. `Equiv mc P Q`:
entered at op 0 with any registers and memory, `P` and `Q` end with the same exit value and the
same final memory (memory = everything outside the register file, receipts included), or are both
stuck, or both run forever.

Each modelled pass is proved in its CERTIFIED form `passC`: the model of the Rust pass followed by
a decidable justification of the concrete rewrite (`validDelete`: every deleted op is skippable
and what it may write is neither ambient nor live in the program with the deleted ops skipped;
`validUnreach`; `validSeqJump`; `validMoves`). `passC P = some Q` implies `Q` is exactly what the
model of the Rust pass returns (`certified_is_pass`); the correspondence run compares the model
pass with the real pass on every case and evaluates the same checkers on the REAL before/after pair.
The certificate cannot be dropped: `C07_flags_guard_insufficient` shows (and the VM replay
`corpus/c07_flags.sw` confirms on the real compiler) that `remove_redundant_ops` and
`remove_sequential_jumps` do change behaviour when `$of`/`$err` is read later than by the very
next op.

**Not proved** (`C07_partial`): `constant_propagate` and `const_indexing_aggregates_function` are
not modelled; they enter `optimize` as parameters assumed to preserve behaviour, and are validated
per program only (whole-program runs on the VM with and without `SWAY_VERIF_NO_ASM_OPT`).
-/
namespace SwayVerif.C07
open SwayVerif.Asm SwayVerif.AsmOpt

variable {V M X : Type}

/-- a pass preserves behaviour whenever it answers -/
def Preserves (mc : Machine V M X) (f : Pass) : Prop := ∀ P Q, f P = some Q → Equiv mc P Q

/-- The certified passes return what the models of the Rust passes return. -/
theorem certified_is_pass (amb : Reg → Bool) (P Q : List AOp) :
    (seqJumpC amb P = some Q → Q = removeSequentialJumps P) ∧
    (redundantMovesC amb P = some Q → Q = removeRedundantMoves P) ∧
    (redundantOpsC amb P = some Q → Q = removeRedundantOps P) ∧
    (dceC amb P = some Q → dce P = some Q) ∧
    (simplifyCfgC P = some Q → simplifyCfg P = some Q) := by
  refine ⟨?_, ?_, ?_, ?_, ?_⟩
  · intro h
    simp only [seqJumpC] at h
    split at h <;> simp_all
  · intro h
    simp only [redundantMovesC] at h
    split at h <;> simp_all
  · intro h
    simp only [redundantOpsC] at h
    split at h <;> simp_all [removeRedundantOps]
  · intro h
    simp only [dceC] at h
    split at h
    · rename_i ks hks
      split at h <;> simp_all [dce]
    · cases h
  · intro h
    simp only [simplifyCfgC] at h
    split at h
    · rename_i ks hks
      split at h <;> simp_all [simplifyCfg]
    · cases h

/-- `remove_sequential_jumps`: replacing a jump to the immediately following label by `NOOP`
preserves behaviour — whenever `$of`/`$err` are not live at that label. -/
theorem seqjump_preserves {mc : Machine V M X} {amb : Reg → Bool} (hR : Respects mc amb) :
    Preserves mc (seqJumpC amb) := by
  intro P Q h
  simp only [seqJumpC] at h
  split at h
  · rename_i hv
    simp only [Option.some.injEq] at h
    subst h
    simp only [validSeqJumpAuto] at hv
    split at hv
    · exact validSeqJump_sound hR hv
    · cases hv
  · cases h

/-- `remove_redundant_moves`: a `MOVE` into a virtual register that no op reads can be replaced by
`NOOP` (both clear `$of`/`$err`). -/
theorem redundant_moves_preserve {mc : Machine V M X} {amb : Reg → Bool} (hR : Respects mc amb)
    (hambv : ∀ x, amb x = true → x.isVirt = false) : Preserves mc (redundantMovesC amb) := by
  intro P Q h
  simp only [redundantMovesC] at h
  split at h
  · rename_i hv
    simp only [Option.some.injEq] at h
    subst h
    exact validMoves_sound hR hambv hv
  · cases h

/-- `remove_redundant_moves`, without certificate: on every op list whose `MOVE`s into virtual
registers have no side effect and define `$of`/`$err` like `NOOP` (`movesWf`: what `has_side_effect`
and `def_const_registers` say of every real `MOVE`), the model of the Rust pass itself — the whole
`loop` — preserves behaviour. -/
theorem redundant_moves_preserve_wf {mc : Machine V M X} {amb : Reg → Bool} (hR : Respects mc amb)
    (hambv : ∀ x, amb x = true → x.isVirt = false) (P : List AOp) (hwf : movesWf amb P = true) :
    Equiv mc P (removeRedundantMoves P) :=
  movesLoop_equiv hR hambv _ P hwf

/-- `remove_redundant_ops`: deleting `NOOP`, `MOVE a a`, `MCP _ _ $zero`, `MCPI _ _ 0` preserves
behaviour — whenever the constant registers the op defines are not live after it (the
`def_const_registers ∩ next.use` guard of the code checks the next op only). -/
theorem redundant_ops_preserve {mc : Machine V M X} {amb : Reg → Bool} (hR : Respects mc amb) :
    Preserves mc (redundantOpsC amb) := by
  intro P Q h
  simp only [redundantOpsC] at h
  split at h
  · rename_i hv
    simp only [Option.some.injEq] at h
    subst h
    simp only [validDeleteAuto] at hv
    split at hv
    · exact validDelete_sound hR hv
    · cases hv
  · cases h

/-- `dce`: deleting side-effect-free ops whose `def ∪ def_const` registers are dead preserves
behaviour. -/
theorem asm_dce_preserves {mc : Machine V M X} {amb : Reg → Bool} (hR : Respects mc amb) :
    Preserves mc (dceC amb) := by
  intro P Q h
  simp only [dceC] at h
  split at h
  · split at h
    · rename_i hv
      simp only [Option.some.injEq] at h
      subst h
      simp only [validDeleteAuto] at hv
      split at hv
      · exact validDelete_sound hR hv
      · cases hv
    · cases h
  · cases h

/-- `simplify_cfg`: deleting the ops the reachability worklist does not reach preserves behaviour
(for every machine: nothing is assumed about the meaning of the ops). -/
theorem asm_simplify_cfg_preserves (mc : Machine V M X) : Preserves mc simplifyCfgC := by
  intro P Q h
  simp only [simplifyCfgC] at h
  split at h
  · split at h
    · rename_i hv
      simp only [Option.some.injEq] at h
      subst h
      exact validUnreach_sound mc hv
    · cases h
  · cases h

/-- The checkers the correspondence run evaluates on the REAL before/after pairs are sound. -/
theorem C07_checkers_sound {mc : Machine V M X} {amb : Reg → Bool} (hR : Respects mc amb)
    (hambv : ∀ x, amb x = true → x.isVirt = false) (P Q : List AOp) (ks : List Bool) :
    (validDeleteAuto amb P ks = true → Equiv mc P (filterMask P ks)) ∧
    (validUnreach P ks = true → Equiv mc P (filterMask P ks)) ∧
    (validSeqJumpAuto amb P Q = true → Equiv mc P Q) ∧
    (validMoves amb P Q = true → Equiv mc P Q) := by
  refine ⟨fun h => ?_, fun h => validUnreach_sound mc h, fun h => ?_, fun h => validMoves_sound hR hambv h⟩
  · simp only [validDeleteAuto] at h
    split at h
    · exact validDelete_sound hR h
    · cases h
  · simp only [validSeqJumpAuto] at h
    split at h
    · exact validSeqJump_sound hR h
    · cases h

theorem seqPasses_preserves {mc : Machine V M X} (fs : List Pass) (h : ∀ f ∈ fs, Preserves mc f) :
    Preserves mc (seqPasses fs) := by
  induction fs with
  | nil =>
    intro P Q hq
    simp only [seqPasses, Option.some.injEq] at hq
    subst hq
    exact Equiv.refl mc P
  | cons f fs ih =>
    intro P Q hq
    simp only [seqPasses] at hq
    cases hf : f P with
    | none => rw [hf] at hq; cases hq
    | some R =>
      rw [hf] at hq
      exact (h f (by simp) P R hf).trans
        (ih (fun g hg => h g (List.mem_cons_of_mem _ hg)) R Q hq)

theorem optLoop_preserves {mc : Machine V M X} (f : Pass) (h : Preserves mc f) (n : Nat) :
    Preserves mc (optLoop f n) := by
  induction n with
  | zero =>
    intro P Q hq
    simp only [optLoop, Option.some.injEq] at hq
    subst hq
    exact Equiv.refl mc P
  | succ n ih =>
    intro P Q hq
    simp only [optLoop] at hq
    cases h1 : f P with
    | none => simp [h1] at hq
    | some R =>
      cases h2 : f R with
      | none => simp [h1, h2] at hq
      | some R2 =>
        have e : Equiv mc P R2 := (h P R h1).trans (h R R2 h2)
        simp only [h1, Option.bind_some, h2] at hq
        split at hq
        · simp only [Option.some.injEq] at hq; subst hq; exact e
        · split at hq
          · simp only [Option.some.injEq] at hq; subst hq; exact Equiv.refl mc P
          · exact e.trans (ih R2 Q hq)

theorem optLoop_length (f : Pass) (n : Nat) (P Q : List AOp) (hq : optLoop f n P = some Q) :
    Q.length ≤ P.length := by
  induction n generalizing P with
  | zero =>
    simp only [optLoop, Option.some.injEq] at hq
    subst hq
    exact Nat.le_refl _
  | succ n ih =>
    simp only [optLoop] at hq
    cases h1 : (f P).bind f with
    | none => simp [h1] at hq
    | some R2 =>
      simp only [h1] at hq
      split at hq
      · rename_i he
        simp only [Option.some.injEq] at hq; subst hq; omega
      · split at hq
        · simp only [Option.some.injEq] at hq; subst hq; exact Nat.le_refl _
        · have := ih R2 hq
          omega

/-- The round loop of `optimize`: if every pass of the list preserves behaviour, so do one
application of the list (`Opt0`) and the fixpoint loop over double applications (`Opt1`) — which
moreover never returns a longer op list ("never accept worse"). -/
theorem optimize_round_preserves {mc : Machine V M X} (fs : List Pass)
    (h : ∀ f ∈ fs, Preserves mc f) (n : Nat) :
    Preserves mc (seqPasses fs) ∧ Preserves mc (optLoop (seqPasses fs) n) ∧
    ∀ P Q, optLoop (seqPasses fs) n P = some Q → Q.length ≤ P.length :=
  ⟨seqPasses_preserves fs h, optLoop_preserves _ (seqPasses_preserves fs h) n,
    optLoop_length _ n⟩

/-- PARTIAL. `AbstractInstructionSet::optimize` at both levels preserves behaviour PROVIDED the two
passes that are not modelled — `const_indexing_aggregates_function` (`cidx`) and
`constant_propagate` (`cprop`) — do. Missing for the full property: a model and a proof of these
two passes (they are validated per program on the VM only), and a proof that the certificates of
the five modelled passes always exist on compiler-generated op lists (checked on every
correspondence case instead). -/
theorem C07_partial {mc : Machine V M X} {amb : Reg → Bool} (hR : Respects mc amb)
    (hambv : ∀ x, amb x = true → x.isVirt = false) (cidx cprop : Pass)
    (hidx : Preserves mc cidx) (hprop : Preserves mc cprop) :
    Preserves mc (optimize0 amb cidx cprop) ∧ Preserves mc (optimize1 amb cidx cprop) := by
  have hall : ∀ f ∈ [cidx, cprop, dceC amb, simplifyCfgC, seqJumpC amb, redundantMovesC amb,
      redundantOpsC amb], Preserves mc f := by
    intro f hf
    simp only [List.mem_cons, List.mem_nil_iff, or_false] at hf
    rcases hf with rfl | rfl | rfl | rfl | rfl | rfl | rfl
    · exact hidx
    · exact hprop
    · exact asm_dce_preserves hR
    · exact asm_simplify_cfg_preserves mc
    · exact seqjump_preserves hR
    · exact redundant_moves_preserve hR hambv
    · exact redundant_ops_preserve hR
  exact ⟨seqPasses_preserves _ hall, optLoop_preserves _ (seqPasses_preserves _ hall) _⟩

/-! ### the certificate cannot be dropped -/

/-- `$err := 1`; `NOOP`; a label; log `$err`; stop. -/
def flagsP : List AOp := [
  { kind := .other "SETERR" (some 1), defs := [], uses := [], defConst := [.const 8], sideEffect := false },
  noopOp,
  { kind := .label 7, defs := [], uses := [] },
  { kind := .other "LOG" none, defs := [], uses := [.const 8], defConst := [], sideEffect := true },
  { kind := .rvrt, defs := [], uses := [.const 0], sideEffect := true } ]

/-- `$err := 1`; jump to the next op; its label; log `$err`; stop. -/
def flagsJ : List AOp := [
  { kind := .other "SETERR" (some 1), defs := [], uses := [], defConst := [.const 8], sideEffect := false },
  { kind := .jump 7, defs := [], uses := [] },
  { kind := .label 7, defs := [], uses := [] },
  { kind := .other "LOG" none, defs := [], uses := [.const 8], defConst := [], sideEffect := true },
  { kind := .rvrt, defs := [], uses := [.const 0], sideEffect := true } ]

theorem run_mono {mc : Machine V M X} {P : List AOp} {n : Nat} {s : St V M} {o : Out M X}
    (h : run mc P n s = some o) (k : Nat) : run mc P (n + k) s = some o := by
  induction n generalizing s with
  | zero => simp [run] at h
  | succ n ih =>
    have e : n + 1 + k = (n + k) + 1 := by omega
    rw [e]
    simp only [run] at h ⊢
    cases hs : step mc P s with
    | inl t => rw [hs] at h; simpa using ih h
    | inr o' => rw [hs] at h; simpa using h

theorem run_det {mc : Machine V M X} {P : List AOp} {n n' : Nat} {s : St V M} {o o' : Out M X}
    (h : run mc P n s = some o) (h' : run mc P n' s = some o') : o = o' := by
  have a := run_mono h n'
  have b := run_mono h' n
  rw [Nat.add_comm] at b
  rw [a] at b
  exact Option.some.inj b

/-- The guard of `remove_redundant_ops` (the NEXT op uses none of the constant registers the op
defines) and the test of `remove_sequential_jumps` do not by themselves justify the rewrite: on a
machine that satisfies `Respects`, the model passes change the behaviour of `flagsP` / `flagsJ`
(the log records `$err` = 1 instead of 0). The certified passes refuse both. Confirmed on the real
compiler and VM for `remove_redundant_ops` (replay: `/verif/corpus/c07_flags.sw`). -/
theorem C07_flags_guard_insufficient :
    Respects demo ambReal ∧
    ¬ Equiv demo flagsP (removeRedundantOps flagsP) ∧
    ¬ Equiv demo flagsJ (removeSequentialJumps flagsJ) ∧
    redundantOpsC ambReal flagsP = none ∧ seqJumpC ambReal flagsJ = none := by
  refine ⟨demo_respects _, ?_, ?_, by decide, by decide⟩
  · intro h
    obtain ⟨n, hn⟩ := (h (fun _ => 0) [] (.exit 0 [0, 0])).1 ⟨5, by decide⟩
    have h4 : run demo (removeRedundantOps flagsP) 4 ⟨0, fun _ => 0, []⟩ = some (.exit 0 [0, 1]) := by
      decide
    have := run_det hn h4
    exact absurd this (by decide)
  · intro h
    obtain ⟨n, hn⟩ := (h (fun _ => 0) [] (.exit 0 [0, 1])).1 ⟨5, by decide⟩
    have h5 : run demo (removeSequentialJumps flagsJ) 5 ⟨0, fun _ => 0, []⟩ = some (.exit 0 [0, 0]) := by
      decide
    have := run_det hn h5
    exact absurd this (by decide)

/-! ### non-vacuity -/

/-- a dead `ADD`, an unreachable tail, a sequential jump, a dead `MOVE`, a `NOOP` -/
def sampleP : List AOp := [
  { kind := .label 0, defs := [], uses := [] },
  { kind := .other "MOVI" (some 5), defs := [.virt 0], uses := [], defConst := [.const 2, .const 8], sideEffect := false },
  { kind := .other "ADD" none, defs := [.virt 1], uses := [.virt 0, .virt 0], defConst := [.const 2, .const 8], sideEffect := false },
  { kind := .move, defs := [.virt 2], uses := [.virt 0], defConst := [.const 2, .const 8], sideEffect := false },
  noopOp,
  { kind := .jump 1, defs := [], uses := [] },
  { kind := .label 1, defs := [], uses := [] },
  { kind := .other "LOG" none, defs := [], uses := [.virt 0], defConst := [], sideEffect := true },
  { kind := .rvrt, defs := [], uses := [.const 0], sideEffect := true },
  { kind := .other "LOG" none, defs := [], uses := [.virt 0], defConst := [], sideEffect := true } ]

/-- the hypotheses are satisfiable, every certified pass answers on `sampleP` and changes it -/
example : Respects demo ambReal ∧ (∀ x, ambReal x = true → x.isVirt = false) :=
  ⟨demo_respects _, fun x h => by cases x <;> simp_all [ambReal, Reg.isVirt]⟩

example : movesWf ambReal sampleP = true := by decide
example : (dceC ambReal sampleP).map List.length = some 7 := by decide
example : (simplifyCfgC sampleP).map List.length = some 9 := by decide
example : (seqJumpC ambReal sampleP).map (fun Q => Q[5]?.map (·.kind)) = some (some (.other "NOOP" none)) := by decide
example : (redundantMovesC ambReal sampleP).map (fun Q => Q[3]?.map (·.kind)) = some (some (.other "NOOP" none)) := by decide
example : (redundantOpsC ambReal sampleP).map List.length = some 9 := by decide
example : ((optimize1 ambReal some some sampleP).map List.length) = some 5 := by decide

end SwayVerif.C07
