import SwayVerif.Model.FmtSpec
import SwayVerif.Lemmas.FmtSpec
/-!
# C19 — Formatting preserves program meaning and comments

Property theorems only; helper lemmas live in `SwayVerif/Lemmas/FmtSpec.lean`, the specification
(`normTok`, `canon`, `FmtOk`, `fmtCheck`, the list of documented cosmetic rewrites R1–R6) in
`SwayVerif/Model/FmtSpec.lean`.

The formatter itself (11 k lines of per-item layout rules, the comment map, `handle_newlines`) is NOT modelled.
What is proved here is about the SPECIFICATION and its CHECKER; the property is then decided per input by
running the proved checker on the output of the real `Formatter::format` (level translation_validation).
-/
namespace SwayVerif.C19
open SwayVerif.FmtSpec

/-- `normTok` yields a normal form: normalising a normalised stream changes nothing, i.e. every stream is
related to its normal form and the rewrites R1, R2, R3, R5, R6 leave nothing to rewrite in their own output. -/
theorem normTok_idempotent (ts : List Tok) : normTok (normTok ts) = normTok ts := by
  unfold normTok
  have hsub : (fixIter step (ts.map normLeaf)).Sublist (ts.map normLeaf) := fixIter_sublist step_shrinks _
  rw [map_normLeaf_of_sublist hsub]
  exact fixIter_idem step_shrinks _

/-- `normTok` only deletes tokens of the leaf-normalised stream: it never invents or reorders one. -/
theorem normTok_sublist (ts : List Tok) : (normTok ts).Sublist (ts.map normLeaf) :=
  fixIter_sublist step_shrinks _

/-- Every stream that the parser accepts is a correct formatting of itself (the identity formatter satisfies C19). -/
theorem FmtOk_refl (s : List Tok) : FmtOk s s true := ⟨rfl, rfl, rfl⟩

/-- C19 composes: if `b` is a correct formatting of `a` and `c` of `b`, then `c` is a correct formatting of `a`.
Hence C19 for `fmt ∘ fmt` follows from C19 for `fmt`. -/
theorem FmtOk_trans {a b c : List Tok} {pb pc : Bool} (h1 : FmtOk a b pb) (h2 : FmtOk b c pc) : FmtOk a c pc :=
  ⟨h2.1, h1.2.1.trans h2.2.1, h1.2.2.trans h2.2.2⟩

/-- `FmtOk` is symmetric in the two streams (it is the kernel of `canon` and `comments`). -/
theorem FmtOk_symm {a b : List Tok} {p : Bool} (h : FmtOk a b p) : FmtOk b a true :=
  ⟨rfl, h.2.1.symm, h.2.2.symm⟩

/-- Soundness of the validator that the driver runs on the real formatter's output. -/
theorem check_sound (src out : List Tok) (parses : Bool) (h : fmtCheck src out parses = true) :
    FmtOk src out parses := by
  unfold fmtCheck at h
  simp only [Bool.and_eq_true, decide_eq_true_eq] at h
  exact ⟨h.1.1, h.1.2, h.2⟩

/-- … and completeness: the validator rejects only pairs outside the relation (no false alarm is introduced
by the checker itself). -/
theorem check_complete (src out : List Tok) (parses : Bool) (h : FmtOk src out parses) :
    fmtCheck src out parses = true := by
  unfold fmtCheck
  simp only [Bool.and_eq_true, decide_eq_true_eq]
  exact ⟨⟨h.1, h.2.1⟩, h.2.2⟩

/-- What `FmtOk` guarantees, spelled out: the formatted text parses; the two token sequences have the same
normal form under the documented cosmetic rewrites (so they differ at most by those rewrites, since each side
differs from its normal form only by deleted R1/R2/R3/R5 tokens, R6 leaf normalisation and R4 order); the
comments are the same texts in the same order. -/
theorem FmtOk_spelled_out {src out : List Tok} {p : Bool} (h : FmtOk src out p) :
    p = true ∧ sortUse (normTok (toks src)) = sortUse (normTok (toks out)) ∧
    (normTok (toks src)).Sublist ((toks src).map normLeaf) ∧
    (normTok (toks out)).Sublist ((toks out).map normLeaf) ∧
    comments src = comments out :=
  ⟨h.1, h.2.1, normTok_sublist _, normTok_sublist _, h.2.2⟩

/-- **C19, partial.** For every `src`/`out` pair on which the driver's validator answers `true`, the C19 relation
holds. NOT covered (not modelled): that `Formatter::format` produces such an `out` for EVERY parseable source —
the formatter (swayfmt/src/items, utils/language, comments.rs, utils/map/{comments,newline}.rs) is only run, per
input, on every `.sw` file of the repository and on generated variants; the Sway lexer/parser that produce the
streams and the `parses` flag are the real ones and are trusted; `sortUse` (R4) is an executable definition
without a proved normal-form theorem (it is applied to both sides alike, so `FmtOk` is still an equivalence). -/
theorem C19_partial (src out : List Tok) (parses : Bool) :
    fmtCheck src out parses = true ↔ FmtOk src out parses :=
  ⟨check_sound src out parses, check_complete src out parses⟩

/-! Non-vacuity: the relation accepts the documented rewrites and rejects a changed token, a lost comment,
a reordered comment and an unparseable output. -/
section examples
private def p (c : Char) : Tok := ⟨.punct, [c]⟩
private def i (s : List Char) : Tok := ⟨.ident, s⟩
private def o (c : Char) : Tok := ⟨.open, [c]⟩
private def c (ch : Char) : Tok := ⟨.close, [ch]⟩
private def m (s : List Char) : Tok := ⟨.comment, s⟩

-- R1: `f(a,)` ~ `f(a)`
example : fmtCheck [i ['f'], o '(', i ['a'], p ',', c ')'] [i ['f'], o '(', i ['a'], c ')'] true = true := by decide
-- R3: `use a::{b};` ~ `use a::b;`
example : fmtCheck [i ['u','s','e'], i ['a'], p ':', p ':', o '{', i ['b'], c '}', p ';']
    [i ['u','s','e'], i ['a'], p ':', p ':', i ['b'], p ';'] true = true := by decide
-- R4: `use a::{c, b};` ~ `use a::{b, c};`
example : fmtCheck [i ['u','s','e'], i ['a'], p ':', p ':', o '{', i ['c'], p ',', i ['b'], c '}', p ';']
    [i ['u','s','e'], i ['a'], p ':', p ':', o '{', i ['b'], p ',', i ['c'], c '}', p ';'] true = true := by decide
-- R2: `where T: A {` ~ `where T: A, {`
example : fmtCheck [i ['w','h','e','r','e'], i ['T'], p ':', i ['A'], o '{', c '}']
    [i ['w','h','e','r','e'], i ['T'], p ':', i ['A'], p ',', o '{', c '}'] true = true := by decide
-- R5: `-> (bool);` ~ `-> bool;`
example : fmtCheck [p '-', p '>', o '(', i ['b'], c ')', p ';'] [p '-', p '>', i ['b'], p ';'] true = true := by decide
-- a one-element tuple type keeps its meaning-bearing comma and parentheses: `-> (b,);` is NOT `-> b;`
example : fmtCheck [p '-', p '>', o '(', i ['b'], p ',', c ')', p ';'] [p '-', p '>', i ['b'], p ';'] true = false := by decide
-- … in expression position too: `= (b,);` is NOT `= (b);`
example : fmtCheck [p '=', o '(', i ['b'], p ',', c ')', p ';'] [p '=', o '(', i ['b'], c ')', p ';'] true = false := by decide
-- but the trailing comma of a one-element parameter list is cosmetic: `fn f(b,)` ~ `fn f(b)`
example : fmtCheck [i ['f','n'], i ['f'], o '(', i ['b'], p ',', c ')'] [i ['f','n'], i ['f'], o '(', i ['b'], c ')'] true = true := by decide
-- R6: a trailing-space / CR difference in a comment is ignored
example : fmtCheck [m ['/','/','x',' ','\r'], i ['a']] [m ['/','/','x'], i ['a']] true = true := by decide
-- a changed identifier is rejected
example : fmtCheck [i ['a'], p ';'] [i ['b'], p ';'] true = false := by decide
-- a dropped token is rejected
example : fmtCheck [i ['a'], p ';'] [i ['a']] true = false := by decide
-- a lost comment is rejected
example : fmtCheck [i ['a'], m ['/','/','x'], p ';'] [i ['a'], p ';'] true = false := by decide
-- reordered comments are rejected
example : fmtCheck [m ['/','/','x'], m ['/','/','y'], i ['a']] [m ['/','/','y'], m ['/','/','x'], i ['a']] true = false := by decide
-- an output that does not parse is rejected
example : fmtCheck [i ['a']] [i ['a']] false = false := by decide
end examples

end SwayVerif.C19
