import SwayVerif.Model.Lock
import SwayVerif.Lemmas.Lock
import SwayVerif.Lemmas.LockRT
import SwayVerif.Lemmas.LockGraph
/-!
# C20 — Forc.lock round-trips the resolved package graph

Property theorems only; helper lemmas live in `SwayVerif/Lemmas/Lock*.lean`.
Model: `SwayVerif/Model/Lock.lean` (writer `Lock::from_graph` / `pkg_dep_line` / `Display for Pinned`,
reader `Lock::to_graph` / `parse_pkg_dep_line` / `Pinned::from_str`). `Ext` = the external parsers
(`gix_url`, `cid`, `semver`) as `parse ∘ to_string` on canonical strings; the TOML layer and the
`BTreeSet` order are abstracted: the reader theorem holds for every order of the records.

`WFPinned` / `WFGraph` are decidable and *discovered*: each conjunct has a `not_wf_witness` below —
an input violating only that conjunct for which the round trip fails in the model. Every witness is
also a line of `corpus/c20.txt`, replayed on the real code at every run (model and code agree on how
it fails). Two classes: (a) ASSUMPTION — the conjunct is enforced by a validating function of forc or a
type invariant (`AssumedPinned` / `AssumedGraph`); (b) KNOWN FINDING — reachable from a real manifest, the
real round trip fails, the check reports it (`prop=0 why=<conjunct>`, `known_findings.json` id
`C20-<conjunct>`). The theorems keep the full `WFGraph` hypothesis.
-/
namespace SwayVerif.C20
open SwayVerif.Lock

/-- `Pinned::from_str(&p.to_string()) == Ok(p)` for every well-formed pinned source (member, path,
git with branch / tag / rev / default-branch, ipfs, registry with and without namespace). -/
theorem pinned_roundtrip (ext : Ext) (p : Pinned) (h : WFPinned ext p = true) :
    parsePinned ext p.display = .ok p :=
  parsePinned_display h

/-- `parse_pkg_dep_line(pkg_dep_line(dep_name, name, source, kind, disambiguate))` returns the
dependency name (present iff it was given), the package string (`<name>` or `<name> <source>`) and
the salt (present iff the kind is `Contract` with a non-zero salt). -/
theorem depline_roundtrip (depName : Option Str) (name : Str) (source : Pinned) (kind : DepKind) (dis : Bool)
    (ext : Ext) (hd : ∀ d, depName = some d → WFDepName d = true) (hn : WFName name = true)
    (hs : WFPinned ext source = true) (hp : noChar '(' source.display = true) (hk : WFKind kind = true) :
    parsePkgDepLine (pkgDepLine depName name source.display kind dis) =
      .ok (depName, pkgNameDisambiguated name source.display dis, saltOf kind) := by
  refine parsePkgDepLine_pkgDepLine depName name source.display kind dis hd ?_ hk
  simp only [WFName, Bool.and_eq_true, Bool.not_eq_true', List.isEmpty_eq_false_iff] at hn
  obtain ⟨⟨⟨⟨hne, hsp⟩, hpar⟩, hst⟩, hen⟩ := hn
  cases dis with
  | false => exact ⟨hne, hst, hen, hpar⟩
  | true =>
    simp only [pkgNameDisambiguated, pkgUniqueString, ↓reduceIte]
    refine ⟨by simp [hne], ?_, ?_, ?_⟩
    · cases name with
      | nil => exact absurd rfl hne
      | cons x xs => simpa [startOK] using hst
    · have he := EndOK_display hs
      obtain ⟨c, rest, e, _, _⟩ := head_display source
      have : EndOK (name ++ ' ' :: source.display) := EndOK_append_ne_nil (by simp)
        (by rw [e] at he ⊢; exact EndOK_append_ne_nil (a := [' ']) (by simp) he)
      unfold endOK
      cases hl : (name ++ ' ' :: source.display).getLast? with
      | none => rfl
      | some c => simp [this c hl]
    · rw [noChar_append, noChar_cons]
      exact ⟨hpar, by decide, hp⟩

/-- **C20.** For every well-formed resolved package graph — member, path, git, ipfs and registry
sources; renamed dependencies; contract dependencies with salts; same-named packages from different
sources — writing the lock records and reading them back, in WHATEVER order the `BTreeSet` (or a
hand-edited file) lists them, succeeds and reconstructs the same packages and the same dependency
edges with the same names, kinds and salts (`Graph.equiv`: equality up to node numbering). -/
theorem C20_roundtrip_any_order (ext : Ext) (g : Graph) (h : WFGraph ext g = true)
    (L : List PkgLock) (hL : L.Perm (fromGraph g)) : ∃ g', toGraph ext L = .ok g' ∧ g.equiv g' := by
  have w := WFG_of h
  rw [fromGraph_eq_recs w] at hL
  exact toGraph_perm_recs w hL

/-- `toGraph (fromGraph g) ≅ g`. -/
theorem C20_roundtrip (ext : Ext) (g : Graph) (h : WFGraph ext g = true) :
    ∃ g', toGraph ext (fromGraph g) = .ok g' ∧ g.equiv g' :=
  C20_roundtrip_any_order ext g h (fromGraph g) (List.Perm.refl _)

/-- The decidable predicate the driver evaluates on the implementation's result holds of the model
for every well-formed graph. (It does NOT hold for the class (b) graphs — the known findings below.) -/
theorem C20_prop_of_model (ext : Ext) (g : Graph) (h : WFGraph ext g = true) :
    c20PropHolds ext g (toGraph ext (fromGraph g)) = true := by
  obtain ⟨g', hok, he⟩ := C20_roundtrip ext g h
  unfold c20PropHolds
  rw [hok]
  simp [(equivB_iff g g').mpr he]

/-! ## Non-vacuity -/

def idExt : Ext := ⟨fun s => some s, fun s => some s, fun s => some s⟩
def commitA : Str := "0123456789abcdef0123456789abcdef01234567".toList
def cidA : Str := "QmYwAPJzv5CZsnA625s3Xf2nemtYgPpHdWEz79ojWnPbdG".toList
def saltA : Salt := "00000000000000000000000000000000000000000000000000000000000000ff".toList

example : WFPinned idExt (.git "https://github.com/FuelLabs/sway".toList (.branch "master".toList) commitA) = true := by decide
example : WFPinned idExt (.registry "core".toList "0.0.1".toList cidA (some "fuelns".toList)) = true := by decide
example : WFPinned idExt (.path 0xFFFFFFFFFFFFFFFF) = true := by decide
example : parsePkgDepLine (pkgDepLine (some "std2".toList) "std".toList (Pinned.path 1).display (.contract saltA) true) =
    .ok (some "std2".toList, "std path+from-root-0000000000000001".toList, some saltA) := by decide

/-! ## `not_wf_witness`: every conjunct of `WFPinned` is needed -/

/-- (a) assumption on `gix_url` — git: the repo string must re-parse to itself (`ext.url repo = some repo`). -/
example : let ext : Ext := ⟨fun s => some (s.map Char.toLower), fun s => some s, fun s => some s⟩
    let p := Pinned.git "HTTPS://h/x".toList .default commitA
    parsePinned ext p.display ≠ .ok p := by decide
/-- (b) KNOWN FINDING `C20-git-url-qmark` — git: `?` in the URL. -/
example : let p := Pinned.git "https://x/y?z=1".toList .default commitA
    parsePinned idExt p.display = .err := by decide
/-- (b) KNOWN FINDING `C20-git-ref-hash` — git: `#` in a branch / tag name. -/
example : let p := Pinned.git "https://x/y".toList (.branch "a#b".toList) commitA
    parsePinned idExt p.display = .err := by decide
example : let p := Pinned.git "https://x/y".toList (.tag "v#1".toList) commitA
    parsePinned idExt p.display = .err := by decide
/-- (b) KNOWN FINDING `C20-git-rev-not-commit` — git: `Rev(s)` is printed as `rev` and re-read as `Rev(commit_hash)`. -/
example : let p := Pinned.git "https://x/y".toList (.rev "abc123".toList) commitA
    parsePinned idExt p.display = .ok (.git "https://x/y".toList (.rev commitA) commitA) := by decide
/-- (a) assumption (`git::pin`: `git2::Oid::to_string`) — git: a commit hash that is not 40 ASCII alphanumerics. -/
example : let p := Pinned.git "https://x/y".toList .default "abc123".toList
    parsePinned idExt p.display = .err := by decide
/-- (a) assumption — path: the id must fit `u64` (type invariant of `PinnedId`). -/
example : parsePinned idExt (Pinned.path (2 ^ 64)).display = .ok (.path 0) := by decide
/-- (a) assumption on `cid` — ipfs: the CID string must re-parse to itself / consist of multibase text. -/
example : let ext : Ext := ⟨fun s => some s, fun _ => none, fun s => some s⟩
    parsePinned ext (Pinned.ipfs cidA).display = .err := by decide
example : parsePinned idExt (Pinned.ipfs "Qm ".toList).display = .ok (.ipfs "Qm".toList) := by decide
/-- (a) assumption (`validate_package_name`, `validate_dep_manifest`) — registry: `?` in the package name. -/
example : parsePinned idExt (Pinned.registry "x?y".toList "0.0.1".toList cidA none).display =
    .ok (.registry "x".toList "y?0.0.1".toList cidA none) := by decide
/-- (a) assumption on `semver` — registry: the version must re-parse to itself / must not contain `#`. -/
example : let ext : Ext := ⟨fun s => some s, fun s => some s, fun _ => none⟩
    parsePinned ext (Pinned.registry "x".toList "0.0.1".toList cidA none).display = .err := by decide
example : parsePinned idExt (Pinned.registry "x".toList "0.0#1".toList cidA none).display = .err := by decide
/-- registry: the CID must re-parse to itself and be multibase text ((a), `cid`); it must pass
`validate_cid`, CIDv0 only — (b) KNOWN FINDING `C20-reg-cid-not-v0` (third example). -/
example : let ext : Ext := ⟨fun s => some s, fun _ => none, fun s => some s⟩
    parsePinned ext (Pinned.registry "x".toList "0.0.1".toList cidA none).display = .err := by decide
example : parsePinned idExt (Pinned.registry "x".toList "0.0.1".toList (cidA.take 45 ++ ['!']) none).display ≠
    .ok (Pinned.registry "x".toList "0.0.1".toList (cidA.take 45 ++ ['!']) none) := by decide
example : parsePinned idExt (Pinned.registry "x".toList "0.0.1".toList
    "bafybeigdyrzt5sfp7udm7hu76uh7y26nf3efuylqabf3oclgtqy55fbzdi".toList none).display = .err := by decide
/-- (b) KNOWN FINDINGS `C20-reg-ns-empty` (`Domain("")` is re-read as `Flat`) and `C20-reg-ns-chars`
(`#`, `!` or trailing whitespace in the namespace). -/
example : parsePinned idExt (Pinned.registry "x".toList "0.0.1".toList cidA (some [])).display =
    .ok (.registry "x".toList "0.0.1".toList cidA none) := by decide
example : parsePinned idExt (Pinned.registry "x".toList "0.0.1".toList cidA (some "a#b".toList)).display =
    .ok (.registry "x".toList "0.0.1".toList cidA (some "a".toList)) := by decide
example : parsePinned idExt (Pinned.registry "x".toList "0.0.1".toList cidA (some "a!b".toList)).display =
    .ok (.registry "x".toList "0.0.1".toList cidA (some "a".toList)) := by decide
example : parsePinned idExt (Pinned.registry "x".toList "0.0.1".toList cidA (some "a ".toList)).display =
    .ok (.registry "x".toList "0.0.1".toList cidA (some "a".toList)) := by decide

/-! ## `not_wf_witness`: every conjunct of `WFGraph` is needed

`rtOK` = the round trip succeeds and gives an equivalent graph. Each witness violates one conjunct only. -/

def rtOK (ext : Ext) (g : Graph) : Bool :=
  match toGraph ext (fromGraph g) with
  | .ok h => g.equivB h
  | _ => false

def gitP (branch : String) : Pinned := .git "https://x/y".toList (.branch branch.toList) commitA
def pk (n : String) (s : Pinned) : Pkg := ⟨n.toList, s⟩
def ed (a b : Nat) (n : String) (k : DepKind) : Edge := ⟨a, b, n.toList, k⟩

/-- A well-formed graph with every feature: all five source kinds, two packages named `std` from
different sources, a renamed dependency, contract dependencies with zero and non-zero salt. -/
def gOK : Graph :=
  ⟨[pk "app" .member, pk "std" (.path 1), pk "std" (gitP "master"), pk "core" (.registry "core".toList "0.0.1".toList cidA none),
    pk "tok" (.ipfs cidA)],
   [ed 0 1 "std" .library, ed 0 2 "std2" .library, ed 0 3 "core" .library, ed 0 4 "tok" (.contract saltA),
    ed 4 1 "std" (.contract zeroSalt), ed 2 3 "core" .library]⟩
example : WFGraph idExt gOK = true := by decide
example : rtOK idExt gOK = true := by decide

/-- (a) assumption (`validate_project_name`) — name: empty. -/
def gW1 : Graph := ⟨[pk "a" .member, pk "" (.path 1)], [ed 0 1 "" (.contract saltA)]⟩
/-- (a) — name: contains a space (collides with another package's `<name> <source>` key). -/
def gW2 : Graph := ⟨[pk "a" .member, pk "a" (.path 1), pk "a member" (.path 2)], [ed 1 0 "a" .library]⟩
/-- (a) — name: contains `(`. -/
def gW3 : Graph := ⟨[pk "a" .member, pk "a(b" (.path 1)], [ed 0 1 "a(b" .library]⟩
/-- (a) — name: starts / ends with whitespace. -/
def gW4 : Graph := ⟨[pk "a" .member, pk "\tb" (.path 1)], [ed 0 1 "\tb" .library]⟩
def gW5 : Graph := ⟨[pk "a" .member, pk "b\t" (.path 1)], [ed 0 1 "b\t" .library]⟩
/-- (b) KNOWN FINDING `C20-git-ref-hash` — source: not `WFPinned` (`#` in a branch name). -/
def gW6 : Graph := ⟨[pk "a" (gitP "a#b")], []⟩
/-- (b) KNOWN FINDING `C20-paren-in-source` — source string contains `(` and the package needs disambiguation. -/
def gW7 : Graph := ⟨[pk "a" .member, pk "a" (gitP "x(y"), pk "b" .member], [ed 2 1 "a" .library]⟩
/-- (b) KNOWN FINDING `C20-duplicate-node` — two nodes with the same name and the same source string
(two path packages of the same name under one root; two git nodes differing only in the `Rev` string). -/
def gW8 : Graph := ⟨[pk "a" .member, pk "a" .member], []⟩
/-- (a) assumption — dangling edge (excluded by petgraph). -/
def gW9 : Graph := ⟨[pk "a" .member], [ed 0 5 "x" .library]⟩
def gW10 : Graph := ⟨[pk "a" .member], [ed 5 0 "x" .library]⟩
/-- (b) KNOWN FINDING `C20-dep-name-paren` — dependency name contains `)`. -/
def gW11 : Graph := ⟨[pk "a" .member, pk "b" (.path 1)], [ed 0 1 "d)e" .library]⟩
/-- (a) assumption — salt that is not the canonical 64 lower-case hex digits (excluded by `fuel_tx::Salt`). -/
def gW12 : Graph := ⟨[pk "a" .member, pk "b" (.path 1)], [ed 0 1 "b" (.contract "ABC".toList)]⟩
/-- (a) assumption (`fetch_deps` uses `update_edge`) — two edges between the same ordered pair. -/
def gW13 : Graph := ⟨[pk "a" .member, pk "b" (.path 1)], [ed 0 1 "x" .library, ed 0 1 "y" .library]⟩

example : WFGraph idExt gW1 = false ∧ rtOK idExt gW1 = false := by decide
example : WFGraph idExt gW2 = false ∧ rtOK idExt gW2 = false := by decide
example : WFGraph idExt gW3 = false ∧ rtOK idExt gW3 = false := by decide
example : WFGraph idExt gW4 = false ∧ rtOK idExt gW4 = false := by decide
example : WFGraph idExt gW5 = false ∧ rtOK idExt gW5 = false := by decide
example : WFGraph idExt gW6 = false ∧ rtOK idExt gW6 = false := by decide
example : WFGraph idExt gW7 = false ∧ rtOK idExt gW7 = false := by decide
example : WFGraph idExt gW8 = false ∧ rtOK idExt gW8 = false := by decide
example : WFGraph idExt gW9 = false ∧ rtOK idExt gW9 = false := by decide
example : WFGraph idExt gW10 = false ∧ rtOK idExt gW10 = false := by decide
example : WFGraph idExt gW11 = false ∧ rtOK idExt gW11 = false := by decide
example : WFGraph idExt gW12 = false ∧ rtOK idExt gW12 = false := by decide
example : WFGraph idExt gW13 = false ∧ rtOK idExt gW13 = false := by decide

/-! ## Known findings (class (b)): the assumptions hold, the property's predicate fails — in the model
exactly as on the real code (`corpus/c20.txt`, same graphs). -/

def failsProp (g : Graph) : Bool :=
  AssumedGraph idExt g && !(c20PropHolds idExt g (toGraph idExt (fromGraph g)))

def one (s : Pinned) : Graph := ⟨[pk "a" s], []⟩
def regP (cid : Str) (ns : Option String) : Pinned := .registry "x".toList "0.0.1".toList cid (ns.map String.toList)

/-- `C20-git-ref-hash` -/
example : failsProp gW6 = true := by decide
example : failsProp (one (.git "https://x/y".toList (.tag "v#1".toList) commitA)) = true := by decide
/-- `C20-git-url-qmark` -/
example : failsProp (one (.git "https://x/y?z=1".toList .default commitA)) = true := by decide
/-- `C20-git-rev-not-commit` -/
example : failsProp (one (.git "https://x/y".toList (.rev "abc123".toList) commitA)) = true := by decide
/-- `C20-reg-cid-not-v0` -/
example : failsProp (one (regP "bafybeigdyrzt5sfp7udm7hu76uh7y26nf3efuylqabf3oclgtqy55fbzdi".toList none)) = true := by decide
/-- `C20-reg-ns-empty`, `C20-reg-ns-chars` -/
example : failsProp (one (regP cidA (some ""))) = true := by decide
example : failsProp (one (regP cidA (some "a#b"))) = true := by decide
example : failsProp (one (regP cidA (some "a!b"))) = true := by decide
example : failsProp (one (regP cidA (some "a "))) = true := by decide
/-- `C20-paren-in-source` -/
example : failsProp gW7 = true := by decide
/-- `C20-duplicate-node` -/
example : failsProp gW8 = true := by decide
example : failsProp ⟨[pk "a" (.git "https://x/y".toList (.rev "abc123".toList) commitA),
    pk "a" (.git "https://x/y".toList (.rev "abc1234".toList) commitA), pk "b" .member], [ed 2 0 "a" .library]⟩ = true := by decide
/-- `C20-dep-name-paren` -/
example : failsProp gW11 = true := by decide
/-- The class (a) witnesses are outside `AssumedGraph`: nothing is demanded of them. -/
example : [gW1, gW2, gW3, gW4, gW5, gW9, gW10, gW12, gW13].all (fun g => !AssumedGraph idExt g) = true := by decide

end SwayVerif.C20
