import SwayVerif.Model.Lexer
import SwayVerif.Lemmas.LexerMain
/-!
# C16 — Lexer and parser never crash and report in-bounds spans

Property theorems only; helper lemmas live in `SwayVerif/Lemmas/Lexer.lean`, `LexerSub.lean`, `LexerMain.lean`.
Model: `SwayVerif/Model/Lexer.lean` = `lex_commented(handler, src, 0, src.text.len(), _)` of `sway-parse/src/token.rs`
at byte-offset level, for ALL texts and ALL assignments of the Unicode character classes (whitespace, XID_Start,
XID_Continue, bidi format) to characters.

`Span::new(..).unwrap()` panics exactly when `validSpan` is false; the model records every span/slice the lexer
constructs. The lexer part of C16 is proved (`lex_total`, `lex_no_panic`, `lex_spans_*`); the parser
(`Parser::parse_to_end`) is NOT modelled — see `C16_partial`.
-/
namespace SwayVerif.C16
open SwayVerif.Lexer

/-- The lexer terminates: the fuel `text.length + 1` handed to the main loop (and from there to the string-literal
loop) is never exhausted, i.e. the model never answers `unsupported`. -/
theorem lex_total (text : List CC) : (lexRaw text).fuelOut = false ∧ lex text ≠ .unsupported := by
  have h := (lexRaw_ok text).fuelOut
  refine ⟨h, ?_⟩
  unfold lex
  simp only [h, Bool.false_eq_true, ↓reduceIte]
  split
  · simp
  · split <;> simp

/-- No construction of a `Span` (`Span::new(..).unwrap()`), no slice `&src.text[a..b]`, no `unwrap` of an empty
`Vec`, no `usize` underflow and no `char::from_u32(..).unwrap()` in `lex_commented` panics, for any input. -/
theorem lex_no_panic (text : List CC) : (lexRaw text).panics text = false ∧ lex text ≠ .panic := by
  have ok := lexRaw_ok text
  have hp : (lexRaw text).panics text = false := by
    unfold Raw.panics
    simp only [Bool.or_eq_false_iff, List.any_eq_false, Bool.not_eq_true']
    refine ⟨⟨⟨ok.bad, ?_⟩, ?_⟩, ?_⟩
    · intro t ht; simpa using (validSpan_iff _ _ _).2 (ok.toks t ht)
    · intro e he; simpa using (validSpan_iff _ _ _).2 (ok.errs e he)
    · intro a ha; simpa using (validSpan_iff _ _ _).2 (ok.aux a ha)
  refine ⟨hp, ?_⟩
  unfold lex
  simp only [hp, ok.fuelOut, Bool.false_eq_true, ↓reduceIte]
  split <;> simp

/-- The lexer ends with a token stream or with diagnostics (`Err(ErrorEmitted)`), never anything else. -/
theorem lex_outcome (text : List CC) :
    lex text = .ok (lexRaw text).toks (lexRaw text).errs ∨ lex text = .fail (lexRaw text).errs := by
  unfold lex
  simp only [(lex_no_panic text).1, (lex_total text).1, Bool.false_eq_true, ↓reduceIte]
  by_cases h : (lexRaw text).fail = true <;> simp [h]

theorem lex_spans_valid (text : List CC) : ∀ sp ∈ (lex text).spans, SpanOK text sp.1 sp.2 := by
  have ok := lexRaw_ok text
  intro sp hsp
  rcases lex_outcome text with h | h <;> rw [h] at hsp <;> simp only [Outcome.spans, List.mem_append, List.mem_map] at hsp
  · rcases hsp with ⟨t, ht, rfl⟩ | ⟨e, he, rfl⟩
    · exact ok.toks t ht
    · exact ok.errs e he
  · obtain ⟨e, he, rfl⟩ := hsp
    exact ok.errs e he

/-- Every token span and every lexer-diagnostic span has `start ≤ end ≤ text.len()` (bytes). -/
theorem lex_spans_in_bounds (text : List CC) : ∀ sp ∈ (lex text).spans, sp.1 ≤ sp.2 ∧ sp.2 ≤ blen text := by
  intro sp hsp
  have := lex_spans_valid text sp hsp
  exact ⟨this.2.2, this.2.1.le_len⟩

/-- … and both ends are UTF-8 character boundaries (`str::is_char_boundary`). -/
theorem lex_spans_on_char_boundaries (text : List CC) :
    ∀ sp ∈ (lex text).spans, isBoundary text sp.1 = true ∧ isBoundary text sp.2 = true := by
  intro sp hsp
  have := lex_spans_valid text sp hsp
  exact ⟨(isBoundary_iff _ _).2 this.1, (isBoundary_iff _ _).2 this.2.1⟩

/-- The flattened token stream (group = `open`, children, `close`) is increasing and non-overlapping: every token
ends before every later token starts. In particular top-level token trees do not overlap and groups nest properly. -/
theorem lex_spans_ordered (text : List CC) (toks : List Token) (errs : List LexErr) (h : lex text = .ok toks errs) :
    toks.Pairwise (fun a b => a.stop ≤ b.start) := by
  rcases lex_outcome text with h' | h' <;> rw [h'] at h
  · cases h; exact (lexRaw_ok text).sorted
  · cases h

/-- `Span::join` of two valid spans is valid: in bounds, ordered, on character boundaries. The parser obtains the
spans of its nodes and diagnostics from token spans by `join`, `start_span`/`end_span` and clones only. -/
theorem span_join_in_bounds (text : List CC) (a b : Nat × Nat)
    (ha : validSpan text a.1 a.2 = true) (hb : validSpan text b.1 b.2 = true) :
    validSpan text (joinSpan a b).1 (joinSpan a b).2 = true ∧ (joinSpan a b).2 ≤ blen text := by
  rw [validSpan_iff] at ha hb
  have hj : SpanOK text (joinSpan a b).1 (joinSpan a b).2 := by
    unfold joinSpan
    refine ⟨?_, ?_, ?_⟩
    · simp only []; rw [Nat.min_def]; split
      · exact ha.1
      · exact hb.1
    · simp only []; rw [Nat.max_def]; split
      · exact hb.2.1
      · exact ha.2.1
    · have := ha.2.2; have := hb.2.2; simp only []; omega
  exact ⟨(validSpan_iff _ _ _).2 hj, hj.2.1.le_len⟩

/-- The decidable predicate the driver evaluates on the implementation's result holds of the model's own result. -/
theorem C16_prop_of_model (text : List CC) :
    propHolds text { lexPanic := false, parsePanic := false, hang := false, spans := (lex text).spans,
                     badDiagSpans := 0, badTokSpans := 0, renderPanics := 0 } = true := by
  unfold propHolds
  simp only [Bool.not_false, Bool.true_and, beq_self_eq_true, List.all_eq_true]
  intro sp hsp
  exact (validSpan_iff _ _ _).2 (lex_spans_valid text sp hsp)

/-- PARTIAL. What is proved of C16 for ALL inputs is the lexing stage of `parse_file`: it terminates with tokens or
diagnostics, never panics, and every span it reports is in bounds, on character boundaries, with tokens in order;
joins of such spans stay valid. What is NOT proved: `Parser::parse_to_end` (`parser.rs`, `expr/mod.rs`, `literal.rs`, …)
is not modelled, so its panic-freedom, its termination, and the validity of the spans of *parser* diagnostics are not
theorems — they are decided per input by the correspondence stream of `checks/c16.py` (exploration: real `parse_file`
under `catch_unwind` + watchdog, every diagnostic span checked in Rust). -/
theorem C16_partial (text : List CC) :
    (lex text = .ok (lexRaw text).toks (lexRaw text).errs ∨ lex text = .fail (lexRaw text).errs) ∧
    (∀ sp ∈ (lex text).spans, sp.1 ≤ sp.2 ∧ sp.2 ≤ blen text ∧ isBoundary text sp.1 = true ∧ isBoundary text sp.2 = true) ∧
    (∀ a ∈ (lex text).spans, ∀ b ∈ (lex text).spans, validSpan text (joinSpan a b).1 (joinSpan a b).2 = true) := by
  refine ⟨lex_outcome text, ?_, ?_⟩
  · intro sp hsp
    exact ⟨(lex_spans_in_bounds text sp hsp).1, (lex_spans_in_bounds text sp hsp).2,
      (lex_spans_on_char_boundaries text sp hsp).1, (lex_spans_on_char_boundaries text sp hsp).2⟩
  · intro a ha b hb
    exact (span_join_in_bounds text a b ((validSpan_iff _ _ _).2 (lex_spans_valid text a ha))
      ((validSpan_iff _ _ _).2 (lex_spans_valid text b hb))).1

/-! Non-vacuity: inputs that reach `ok` with tokens, `ok` with an error on a multi-byte character, and `fail`;
the three inputs that made the unrepaired lexer panic now give diagnostics with valid spans. -/
section
private def a (c : Char) : CC := { c := c, xs := c.isAlpha, xc := c.isAlphanum || c == '_' }
private def w (c : Char) : CC := { c := c, ws := true }
private def o (c : Char) : CC := { c := c }

-- `fn f()`
example : lex [a 'f', a 'n', w ' ', a 'f', o '(', o ')'] =
    .ok [⟨.ident false, 0, 2⟩, ⟨.ident false, 3, 4⟩, ⟨.open .paren, 4, 5⟩, ⟨.close .paren, 5, 6⟩] [] := by decide +kernel
-- `/*é` : unclosed block comment whose last character is two bytes long
example : lex [o '/', o '*', a 'é'] = .ok [] [⟨.unclosedMultilineComment, 0, 2⟩] := by decide +kernel
-- `"\ué"` : `\u` not followed by `{`
example : lex [o '"', o '\\', a 'u', a 'é', o '"'] = .fail [⟨.unicodeEscapeMissingBrace, 2, 3⟩] := by decide +kernel
-- `'😀b'` : char literal with two characters, the first four bytes long
example : lex [o '\'', o '😀', a 'b', o '\''] =
    .ok [⟨.str ['😀', 'b'], 0, 6⟩] [⟨.expectedCloseQuote, 5, 7⟩] := by decide +kernel
-- `(]` then end of input
example : lex [o '(', o ']'] = .ok [⟨.open .paren, 0, 1⟩, ⟨.close .paren, 1, 2⟩] [⟨.mismatchedDelimiters, 1, 2⟩] := by decide +kernel
example : validSpan [o '/', o '*', a 'é'] 0 3 = false := by decide +kernel
end

end SwayVerif.C16
