import SwayVerif.Model.Fetch
import SwayVerif.Model.Proc
import SwayVerif.Lemmas.Fetch
import SwayVerif.Generated.FetchSteps
/-!
# C30 — Dependency fetching is crash-safe

"For every crash or I/O failure point while fetching a git dependency into the forc cache, a later build
either finds the complete checkout of the pinned commit or fetches it again. It never compiles against a
partially written checkout."

Model: `SwayVerif/Model/Fetch.lean` (`progFixed n` = the code after the `fix:` commit, `progOrig n` = the
code before it). All theorems are for ANY number `n` of files in the commit, any positions `m`/`e` of the
manifest and the entry file among them, any step number `p`, both failure kinds, and every listed
intermediate state of the failing step.
-/
namespace SwayVerif.C30
open SwayVerif.Fetch SwayVerif.Proc

/-! ### the program before the rename -/

theorem fixedBeforePublish_split (n : Nat) :
    fixedBeforePublish n =
      (pinPhase ++ fetchEntry ++ tmpRepoPrologue 1 ++ fixedClosurePre) ++
      (checkoutLoop .stage n ++ ([.point .checkoutProgress n, .checkoutEnd] ++ fixedClosureMid)) := by
  simp [fixedBeforePublish, checkoutFiles, List.append_assoc]

theorem keepsAbsent_of_all (l : List Op) (h : l.all keepsAbsent = true) :
    ∀ op ∈ l, keepsAbsent op = true := by
  simpa [List.all_eq_true] using h

theorem keepsAbsent_fixedBeforePublish (n : Nat) : ∀ op ∈ fixedBeforePublish n, keepsAbsent op = true := by
  intro op h
  rw [fixedBeforePublish_split] at h
  rcases List.mem_append.mp h with h | h
  · exact keepsAbsent_of_all _ (by decide) op h
  · rcases List.mem_append.mp h with h | h
    · rcases mem_checkoutLoop _ _ _ h with ⟨i, rfl⟩ | ⟨i, rfl⟩ <;> rfl
    · rcases List.mem_append.mp h with h | h
      · simp only [List.mem_cons, List.mem_nil_iff, or_false] at h
        rcases h with rfl | rfl <;> rfl
      · exact keepsAbsent_of_all _ (by decide) op h

/-- Right before the rename the staging directory holds the complete checkout with its marker, whatever
the number of files. -/
theorem state_before_publish (n : Nat) :
    run n (fixedBeforePublish n) init = ⟨Tree.gone, Tree.full n, true, true⟩ := by
  rw [fixedBeforePublish_split, run_append, run_append]
  have h1 : run n (pinPhase ++ fetchEntry ++ tmpRepoPrologue 1 ++ fixedClosurePre) init =
      ⟨Tree.gone, Tree.fresh n, true, true⟩ := rfl
  rw [h1, run_checkoutLoop_stage n n 0 (by omega) _ rfl]
  simp [run, exec, fixedClosureMid, St.setTree, St.tree, Tree.setMarker, Tree.full, Tree.gone]

/-- Everything a failure can leave (before the `?` unwinding): `final` is absent or complete. -/
theorem fixed_final_cases (n : Nat) :
    ∀ u ∈ failStatesFrom n (progFixed n) init, u.final = Tree.gone ∨ u.final = Tree.full n := by
  intro u hu
  unfold progFixed at hu
  rw [mem_failStatesFrom_append] at hu
  rcases hu with hu | hu
  · exact .inl ((segment_keepsAbsent n _ init (keepsAbsent_fixedBeforePublish n) rfl).1 u hu)
  · rw [state_before_publish] at hu
    simp only [failStatesFrom, List.mem_append] at hu
    rcases hu with hu | hu
    · -- the rename itself: atomic
      simp only [partials, exec, List.mem_cons, List.mem_nil_iff, or_false] at hu
      rcases hu with rfl | rfl
      · exact .inl rfl
      · exact .inr (by simp [Tree.full, Tree.gone])
    · -- after the rename nothing touches `final`
      have hfr := (segment_frame n fixedAfterPublish
        (exec n .publish ⟨Tree.gone, Tree.full n, true, true⟩) (by decide)).1 u hu
      exact .inr (by rw [hfr]; simp [exec, Tree.full, Tree.gone])

theorem C30_final_gone_or_full (n p : Nat) (k : Kind) (t : St)
    (h : t ∈ failStates n (progFixed n) init p k) : t.final = Tree.gone ∨ t.final = Tree.full n := by
  obtain ⟨u, hu, rfl⟩ := mem_failStates n _ _ p k t h
  rw [settle_final]
  exact fixed_final_cases n u hu

theorem nextBuild_of_final (n m e : Nat) (hm : m < n) (he : e < n) (s : St)
    (h : s.final = Tree.gone ∨ s.final = Tree.full n) :
    nextBuild n m e s = .refetch ∨ nextBuild n m e s = .complete := by
  rcases h with h | h
  · left
    simp [nextBuild, needsFetch, h, Tree.gone]
  · right
    simp [nextBuild, needsFetch, usable, h, Tree.full, hm, he]

/-- **C30.** After a crash or an I/O error in ANY step `p` of fetching a git dependency (any number `n`
of files, any half-done state of the failing step), a later build either fetches again or builds on the
complete checkout of the pinned commit. -/
theorem C30_safe (n m e : Nat) (hm : m < n) (he : e < n) (p : Nat) (k : Kind) (t : St)
    (h : t ∈ failStates n (progFixed n) init p k) :
    nextBuild n m e t = .refetch ∨ nextBuild n m e t = .complete :=
  nextBuild_of_final n m e hm he t (C30_final_gone_or_full n p k t h)

/-- … in particular it never builds on a partially written checkout, and it does not get stuck in an
error either. -/
theorem C30_never_partial (n m e : Nat) (hm : m < n) (he : e < n) (p : Nat) (k : Kind) (t : St)
    (h : t ∈ failStates n (progFixed n) init p k) :
    nextBuild n m e t ≠ .usesPartial ∧ nextBuild n m e t ≠ .error := by
  rcases C30_safe n m e hm he p k t h with h' | h' <;> rw [h'] <;> exact ⟨by decide, by decide⟩

/-- "fetches it again" ends well: an undisturbed fetch leaves the complete checkout and no litter. -/
theorem C30_refetch_completes (n : Nat) :
    run n (progFixed n) init = ⟨Tree.full n, Tree.gone, false, false⟩ := by
  unfold progFixed
  rw [run_append, state_before_publish]
  simp [run, exec, fixedAfterPublish, fixedClosurePost, tmpRepoEpilogue, dropTmp, Tree.full, Tree.gone]

/-- Any history of failed (or successful) fetch attempts, each in a new process that fetches only when
`final` does not exist. -/
def attempts (n : Nat) : TS St where
  init := fun s => s = init
  step := fun s t => needsFetch s = true ∧
    ((∃ p k u, u ∈ failStates n (progFixed n) (restart s) p k ∧ t = restart u) ∨
      t = restart (run n (progFixed n) (restart s)))

theorem C30_safe_history (n m e : Nat) (hm : m < n) (he : e < n) :
    ∀ s, Reachable (attempts n) s → nextBuild n m e s = .refetch ∨ nextBuild n m e s = .complete := by
  intro s hs
  apply nextBuild_of_final n m e hm he
  refine inv_of_step (attempts n) (fun s => s.final = Tree.gone ∨ s.final = Tree.full n) ?_ ?_ s hs
  · intro s h
    exact .inl (by rw [h]; rfl)
  · intro s t _ hinv hstep
    obtain ⟨hneed, hcase⟩ := hstep
    have hgone : s.final = Tree.gone := by
      rcases hinv with h | h
      · exact h
      · simp [needsFetch, h, Tree.full] at hneed
    have hre : restart s = init := by simp [restart, init, hgone]
    rcases hcase with ⟨p, k, u, hu, rfl⟩ | rfl
    · rw [hre] at hu
      exact C30_final_gone_or_full n p k u hu
    · rw [hre, C30_refetch_completes]
      exact .inr rfl

/-- The states the driver computes for the injected faults are among the quantified failure states. -/
theorem C30_faultState_mem (n : Nat) (prog : List Op) (name : String) (k : Kind) (t : St)
    (h : faultState n prog name k = some t) : ∃ p, t ∈ failStates n prog init p k := by
  unfold faultState at h
  split at h
  · simp at h
  · next p j _ => exact ⟨p, List.mem_of_getElem? h⟩

/-- The order of file-system steps, fault points and linking calls in the source text of
`with_tmp_git_repo`, `fetch`, `<Pinned as Fetch>::fetch` and `pin` (regenerated from /repo by
`gen/fetch_steps.py` on every run) is the one of the model's programs; the staging directory lies inside
the temporary clone (token 25) and no unmodelled `fs::` call occurs (it would be token 999). -/
theorem C30_code_shape :
    Generated.FetchSteps.withTmpRepo = shapeWithTmpRepo ∧
    Generated.FetchSteps.fetchFn = shapeFetchFn ∧
    Generated.FetchSteps.pinnedFetch = shapePinnedFetch ∧
    Generated.FetchSteps.pinFn = shapePinFn ∧
    Generated.FetchSteps.stagingDirIsCheckout = true := by decide

/-! ### the code before the fix violates the property (negation witnesses, replayed on the real code) -/

/-- 3 files, manifest first, entry second: a crash after the second blob (fault point
`checkout_progress#2`, step 31 of `progOrig 3`) leaves `final = cca.a`, and the next build USES it. -/
theorem C30_orig_uses_partial :
    ∃ p t, t ∈ failStates 3 (progOrig 3) init p .crash ∧ nextBuild 3 0 1 t = .usesPartial :=
  ⟨31, run 3 ((progOrig 3).take 31) init, by decide, by decide⟩

/-- … and a crash right after `create_dir_all(path)` makes every later build fail. -/
theorem C30_orig_stuck :
    ∃ p t, t ∈ failStates 3 (progOrig 3) init p .crash ∧ nextBuild 3 0 1 t = .error :=
  ⟨26, run 3 ((progOrig 3).take 26) init, by decide, by decide⟩

/-! ### non-vacuity -/

/-- the hypothesis of `C30_safe` is inhabited, with both outcomes occurring -/
example : ∃ t ∈ failStates 3 (progFixed 3) init 27 .crash, nextBuild 3 0 1 t = .refetch :=
  ⟨_, List.mem_cons_self, by decide⟩

example : ∃ t ∈ failStates 3 (progFixed 3) init 41 .err, nextBuild 3 0 1 t = .complete :=
  ⟨run 3 ((progFixed 3).take 41) init |> onError, by decide, by decide⟩

/-- the history system makes progress: a failed attempt is a step -/
example : Reachable (attempts 2) (restart (run 2 ((progFixed 2).take 20) init)) :=
  .step (.init rfl) ⟨rfl, .inl ⟨20, .crash, _, List.mem_cons_self, rfl⟩⟩

end SwayVerif.C30
