import SwayVerif.Model.ConstFold
import SwayVerif.Lemmas.ConstFold
import SwayVerif.Generated.FoldTable
/-!
# C06 — compile-time evaluation agrees with run-time evaluation

Property theorems only. They quantify over the GENERATED tables (`Generated/FoldTable.lean`, re-extracted
from /repo on every run): every arm of `combine_binary_op` / `combine_unary_op` / `combine_cmp`
(source `irFold`) and of `const_eval_intrinsic` (source `constEval`), every rewrite of
`remove_useless_binary_op`, against the instruction `fuel_asm_builder.rs` emits for the operator
(`lowering`) as executed by the FuelVM model (`RustInt.vmExec`).  All statements are for ALL operand
payloads in the range of the operand's `ConstantValue` variant (`u64` payload whatever the declared width
— the folder never range-checks narrow types, by design — and 256-bit values for `u256`/`b256`).

Level of the statements. `C06_binop`, `C06_cmp`, `C06_no_subst_on_revert`, `C06_useless_binop` are at
**IR-instruction level**: IR `add u8 200, 100` folds to `300` and the VM's `ADD` yields `300`; the `u8`
range check is separate IR emitted from `sway-lib-std/src/ops.sw` (`C06_narrow_arith_std` covers that
recipe).  `C06_unop` is at **Sway level** for `u8/u16/u32` (`!x` = `__and(__not(x), max)` as `ops.sw`
writes it); at IR-instruction level narrow `not` does NOT agree (`C06_not_narrow_ir_witness`), only modulo
the width mask (`C06_unop_ir_partial`).
-/
namespace SwayVerif.C06
open SwayVerif.RustInt SwayVerif.ConstFold SwayVerif.Generated.FoldTable

/-- Every binary / comparison arm of the generated fold table pairs a Rust method with the emitted VM
instruction that is on the proven whitelist (`Lemmas/ConstFold.lean`). Fails to elaborate when an arm, a
`U256` method body, a `bits()` bound or a lowering row changes to something unproven. -/
theorem table_checked : (foldTable.filter (fun arm => arm.op != .not)).all (armCheck lowering) = true := by
  decide

theorem not_table_checked : (foldTable.filter (fun arm => arm.op == .not)).all (notCheck lowering) = true := by
  decide

theorem simp_table_checked : simpTable.all (simpCheck lowering) = true := by
  decide

theorem shl_table_checked :
    (foldTable.filter (fun arm => arm.op == .lsh && arm.lkind.isWideKind)).all shlBoundCheck = true := by
  decide

theorem crash_table_checked : tableCrashFree foldTable = true := by
  decide

theorem arm_sound (arm : Arm) (hmem : arm ∈ foldTable) (hop : arm.op ≠ .not) : ArmSound lowering arm := by
  apply armCheck_sound
  have h := List.all_eq_true.1 table_checked arm
  apply h
  rw [List.mem_filter]
  exact ⟨hmem, by simpa using hop⟩

/-- **Binary operators** (add, sub, mul, div, mod, and, or, xor, lsh, rsh), every arm of both compile-time
evaluators, every operand type the arm matches, all payloads: if the compiler folds to `v`, the VM
instruction emitted for the operator computes `v` (no panic). -/
theorem C06_binop (arm : Arm) (hmem : arm ∈ foldTable)
    (hop : arm.op ∈ [Op.add, .sub, .mul, .div, .mod, .and, .or, .xor, .lsh, .rsh])
    (ty : Ty) (a b v : Nat) (hl : arm.lkind.matches ty = true) (hr : arm.rkind.matches (rhsTy arm.op ty) = true)
    (ha : a < ty.bound) (hb : b < (rhsTy arm.op ty).bound) (h : ctEval arm ty a b = .fold v) :
    rtEval lowering arm.op ty a b = .ok v :=
  arm_sound arm hmem (by intro e; rw [e] at hop; simp at hop) ty a b v hl hr ha hb h

/-- **Comparisons** (`cmp eq/lt/gt`; result `1`/`0` for `true`/`false`). -/
theorem C06_cmp (arm : Arm) (hmem : arm ∈ foldTable) (hop : arm.op ∈ [Op.eq, .lt, .gt])
    (ty : Ty) (a b v : Nat) (hl : arm.lkind.matches ty = true) (hr : arm.rkind.matches (rhsTy arm.op ty) = true)
    (ha : a < ty.bound) (hb : b < (rhsTy arm.op ty).bound) (h : ctEval arm ty a b = .fold v) :
    rtEval lowering arm.op ty a b = .ok v :=
  arm_sound arm hmem (by intro e; rw [e] at hop; simp at hop) ty a b v hl hr ha hb h

/-- **When run-time evaluation does not produce a value (VM panic), the compiler never substitutes one.** -/
theorem C06_no_subst_on_revert (arm : Arm) (hmem : arm ∈ foldTable) (hop : arm.op ≠ .not)
    (ty : Ty) (a b : Nat) (hl : arm.lkind.matches ty = true) (hr : arm.rkind.matches (rhsTy arm.op ty) = true)
    (ha : a < ty.bound) (hb : b < (rhsTy arm.op ty).bound)
    (hrt : ∀ v, rtEval lowering arm.op ty a b ≠ .ok v) : ∀ v, ctEval arm ty a b ≠ .fold v := by
  intro v hct
  exact hrt v (arm_sound arm hmem hop ty a b v hl hr ha hb hct)

/-- **Unary `not`**, every arm: the folded value is what `!x` yields at run time — the `NOT` instruction,
followed on `u8/u16/u32` by `AND max` exactly as `impl Not for u8/u16/u32` in `ops.sw` does. -/
theorem C06_unop (arm : Arm) (hmem : arm ∈ foldTable) (hop : arm.op = .not)
    (ty : Ty) (a v : Nat) (hl : arm.lkind.matches ty = true) (ha : a < ty.bound)
    (h : ctEval arm ty a 0 = .fold v) : rtNotStd lowering ty a = .ok v := by
  apply notCheck_sound lowering arm _ ty a v hl ha h
  have h := List.all_eq_true.1 not_table_checked arm
  apply h
  rw [List.mem_filter]
  exact ⟨hmem, by simp [hop]⟩

/-- IR-instruction level for `not` (PARTIAL: full agreement only for `u64`, `u256`, `b256`): the bare
instruction never panics and agrees with the folded value modulo the width mask. What is missing for the
full statement is false on the current tree, see `C06_not_narrow_ir_witness`. -/
theorem C06_unop_ir_partial (arm : Arm) (hmem : arm ∈ foldTable) (hop : arm.op = .not)
    (ty : Ty) (a v : Nat) (hl : arm.lkind.matches ty = true) (ha : a < ty.bound)
    (h : ctEval arm ty a 0 = .fold v) :
    ∃ w, rtEval lowering .not ty a 0 = .ok w ∧
      (ty.isWide = true → w = v) ∧ (ty = .u64 → w = v) ∧ (ty.isWide = false → w &&& ty.maxVal = v) := by
  have hs := C06_unop arm hmem hop ty a v hl ha h
  unfold rtNotStd at hs
  cases hw : ty.isWide
  · -- narrow: NOT then AND
    have hnot : rtEval lowering .not ty a 0 = .ok (not64 a) := by
      simp [rtEval, hw, findLower, lowering, vmExec]
    rw [hnot] at hs
    simp only [hw, Bool.false_eq_true, if_false] at hs
    have hand : rtEval lowering .and ty (not64 a) ty.maxVal = .ok (not64 a &&& ty.maxVal) := by
      simp [rtEval, hw, findLower, lowering, vmExec]
    rw [hand] at hs
    refine ⟨not64 a, hnot, by simp, ?_, fun _ => by simpa using hs⟩
    intro hty
    subst hty
    have e : not64 a &&& Ty.u64.maxVal = not64 a := by
      show not64 a &&& (2 ^ 64 - 1) = not64 a
      rw [and_mask]
      apply Nat.mod_eq_of_lt
      unfold not64
      omega
    rw [e] at hs
    simpa using hs
  · -- wide: the recipe is the bare instruction
    cases hrt : rtEval lowering .not ty a 0 with
    | ok w =>
      rw [hrt] at hs
      simp only [hw, if_true] at hs
      refine ⟨w, rfl, fun _ => by simpa using hs, ?_, by simp⟩
      intro hty; subst hty; simp [Ty.isWide] at hw
    | revert => rw [hrt] at hs; simp at hs
    | panic => rw [hrt] at hs; simp at hs

/-- Negation witness for the full IR-level statement: `not u8 5` folds to `250` (`combine_unary_op` masks to
the width) while the `NOT` instruction the backend emits for IR `not` leaves `0xFFFFFFFFFFFFFFFA` in the
register. Observable only by code that uses `__not` on `u8/u16/u32` directly; `ops.sw` masks. -/
theorem C06_not_narrow_ir_witness :
    ctFold foldTable .irFold .not .u8 .u64 5 0 = .fold 250 ∧
    ctFold foldTable .constEval .not .u8 .u64 5 0 = .fold 250 ∧
    rtEval lowering .not .u8 5 0 = .ok 18446744073709551610 := by
  decide

/-- Table lookups (first matching arm, like the Rust `match`) are sound: corollary of `arm_sound`. -/
theorem ctFold_sound (src : Src) (op : Op) (hop : op ≠ .not) (ty : Ty) (a b v : Nat)
    (ha : a < ty.bound) (hb : b < (rhsTy op ty).bound)
    (h : ctFold foldTable src op ty (rhsTy op ty) a b = .fold v) : rtEval lowering op ty a b = .ok v := by
  unfold ctFold at h
  split at h
  · rename_i arm hfind
    have hmem : arm ∈ foldTable := List.mem_of_find?_eq_some hfind
    have hp := List.find?_some hfind
    simp only [Bool.and_eq_true, beq_iff_eq] at hp
    obtain ⟨⟨⟨_, hop'⟩, hl⟩, hr⟩ := hp
    subst hop'
    exact arm_sound arm hmem hop ty a b v hl hr ha hb h
  · simp at h

/-- **Sway level, `u8/u16/u32` arithmetic as `ops.sw` writes it** (`+ - *`: the `u64` intrinsic, then
`if __gt(res, max) { __revert(0) }`): when `const_eval` interpreting that body yields `v`, the run-time
recipe yields `v` and does not revert; in particular a const expression whose run-time evaluation reverts
is never given a value. -/
theorem C06_narrow_arith_std (op : Op) (hop : op ∈ [Op.add, .sub, .mul]) (ty : Ty) (hty : ty ∈ [Ty.u8, .u16, .u32])
    (a b v : Nat)
    (ha : a < p64) (hb : b < p64) (h : ctNarrowArith foldTable op ty a b = .fold v) :
    rtNarrowArith lowering op ty a b = .ok v := by
  have hne : op ≠ .not := by intro e; rw [e] at hop; simp at hop
  have hrhs : rhsTy op .u64 = .u64 := by unfold rhsTy; split <;> rfl
  unfold ctNarrowArith at h
  unfold rtNarrowArith
  cases h1 : ctFold foldTable .constEval op .u64 .u64 a b with
  | fold r =>
    rw [h1] at h
    have hrt := ctFold_sound .constEval op hne .u64 a b r ha (by rw [hrhs]; exact hb) (by rw [hrhs]; exact h1)
    rw [hrt]
    dsimp only at h ⊢
    -- the VM result of a 64-bit instruction is a 64-bit word
    have hr : r < p64 := by
      simp only [List.mem_cons, List.not_mem_nil, or_false] at hop
      have l1 : findLower lowering .add false = some .add := by decide
      have l2 : findLower lowering .sub false = some .sub := by decide
      have l3 : findLower lowering .mul false = some .mul := by decide
      rcases hop with rfl | rfl | rfl <;>
        simp only [rtEval, Ty.isWide, l1, l2, l3, vmExec, captureOverflow] at hrt <;>
        (split at hrt <;> simp at hrt; subst hrt; omega)
    cases h2 : ctFold foldTable .constEval .gt .u64 .u64 r ty.maxVal with
    | fold c =>
      rw [h2] at h
      have hmax : ty.maxVal < p64 := by
        simp only [List.mem_cons, List.not_mem_nil, or_false] at hty
        rcases hty with rfl | rfl | rfl <;> simp [Ty.maxVal]
      have hrt2 := ctFold_sound .constEval .gt (by simp) .u64 r ty.maxVal c hr hmax h2
      rw [hrt2]
      dsimp only at h ⊢
      by_cases hc : c = 0
      · simp only [hc, if_true] at h ⊢
        simpa using h
      · simp [hc] at h
    | decline => rw [h2] at h; simp at h
    | crash => rw [h2] at h; simp at h
  | decline => rw [h1] at h; simp at h
  | crash => rw [h1] at h; simp at h

/-- **"Useless binary op" rewrites** (`0 + x`, `x + 0`, `1 * x`, `x * 1`, `x / 1`, `x - 0`): the operand that
replaces the instruction is the value the VM would have computed, for every `x`. -/
theorem C06_useless_binop (s : Simp) (hmem : s ∈ simpTable) (x : Nat) (hx : x < p64) :
    simpRt lowering s x = .ok (simpCt s x) :=
  simpCheck_sound lowering s (List.all_eq_true.1 simp_table_checked s hmem) x hx

/-- **`U256::checked_shl` is bounded**: every `lsh` arm on a 256-bit value never materialises a `BigUint`
of more than 511 bits, and a non-zero value shifted by 256 or more is declined (`None`) before shifting;
zero stays zero (`C06_binop` covers the value). -/
theorem u256_shl_bounded (arm : Arm) (hmem : arm ∈ foldTable) (hop : arm.op = .lsh)
    (hk : arm.lkind.isWideKind = true) (ty : Ty) (a b : Nat) (ha : a < p256) :
    shlWork arm.method a b ≤ 511 ∧ (a ≠ 0 → 256 ≤ b → ctEval arm ty a b = .decline) := by
  apply shlBoundCheck_sound arm _ ty a b ha
  have h := List.all_eq_true.1 shl_table_checked arm
  apply h
  rw [List.mem_filter]
  exact ⟨hmem, by simp [hop, hk]⟩

/-- **The compile-time evaluators never crash**: for both evaluators, every operator and every operand type
the type checker admits for it (`wellTyped`), the arm selected (first match, as in Rust) cannot panic — there
is an arm before the `_ => unreachable!/panic!` fall-through, and every `BigUint` division / remainder /
subtraction in it is guarded. Before the two `fix:` commits in `const_eval_intrinsic` this did not hold:
`const X: u256 = __mod(5, 0)` (`Some(arg1.rem(arg2))`) and `const X: bool = __lt(b1, b2)` on `b256` (no `B256`
arm in `Gt`/`Lt`, which `impl Ord for b256` of std reaches) panicked the compiler (replayed, corpus/c06.txt). -/
theorem C06_ct_never_crashes (src : Src) (op : Op) (ty : Ty) (hwt : wellTyped op ty = true) (a b : Nat) :
    ctFold foldTable src op ty (rhsTy op ty) a b ≠ .crash :=
  tableCrashFree_sound foldTable crash_table_checked src op ty hwt a b

/-- The decidable predicate the driver evaluates on the implementation's results holds of the model
(both evaluators, all binary / comparison operators, all well-typed operand types, all operands in range). -/
theorem C06_prop_of_model (src : Src) (op : Op) (hop : op ≠ .not) (ty : Ty) (hwt : wellTyped op ty = true)
    (a b : Nat) (ha : a < ty.bound) (hb : b < (rhsTy op ty).bound) :
    propHolds (ctFold foldTable src op ty (rhsTy op ty) a b) (rtEval lowering op ty a b) = true := by
  have hc := C06_ct_never_crashes src op ty hwt a b
  unfold propHolds
  cases hct : ctFold foldTable src op ty (rhsTy op ty) a b with
  | fold v => simp [ctFold_sound src op hop ty a b v ha hb hct]
  | decline => rfl
  | crash => exact absurd hct hc

/-! Non-vacuity: the hypotheses are met by concrete arms and operands. -/
example : (⟨.irFold, .add, .uint, .uint, .u64 .checkedAdd⟩ : Arm) ∈ foldTable := by decide
example : ctFold foldTable .irFold .add .u8 .u8 200 100 = .fold 300 ∧ rtEval lowering .add .u8 200 100 = .ok 300 := by decide
example : ctFold foldTable .irFold .add .u64 .u64 (2 ^ 64 - 1) 1 = .decline ∧ rtEval lowering .add .u64 (2 ^ 64 - 1) 1 = .panic := by decide
example : ctFold foldTable .irFold .lsh .u256 .u64 1 (2 ^ 40) = .decline ∧ rtEval lowering .lsh .u256 1 (2 ^ 40) = .ok 0 := by decide
example : ctFold foldTable .irFold .lsh .u256 .u64 0 (2 ^ 40) = .fold 0 := by decide
example : ctFold foldTable .irFold .not .u64 .u64 0 0 = .fold (2 ^ 64 - 1) := by decide
example : (⟨.add, true, 0, false⟩ : Simp) ∈ simpTable := by decide

end SwayVerif.C06
