import SwayVerif.Model.Determ
import SwayVerif.Model.DetermSites
import SwayVerif.Lemmas.Determ
/-!
# C15 — builds are deterministic (kernel theorems)

Property theorems only. What is proved: every kernel through which a hash container's iteration order
could reach emitted bytes is invariant under permutation of that order, and every std-hash iteration
site that the translator finds in /repo today is reviewed. What is NOT proved: that the compiler as a
whole is a function of its input (`C15_partial`); that is decided per package by rebuilding in fresh
processes and comparing bytes (checks/c15.py).
-/
namespace SwayVerif.C15
open SwayVerif.Determ

/-- The comparator used for the spill choice is a total order with `eq` only on identical candidates. -/
theorem candCmp_eq_iff (a b : Cand) : candCmp a b = .eq ↔ a = b :=
  candCmp_eq_iff' a b

/-- `max_by` with that comparator does not depend on the iteration order of `pending`
(an `FxHashSet`): any two enumerations of the same candidates give the same spill register. -/
theorem spillChoice_perm (l₁ l₂ : List Cand) (h : l₁.Perm l₂) (hnd : l₁.Nodup) :
    spillChoice l₁ = spillChoice l₂ := by
  have _ := hnd
  exact maxBy_candCmp_perm h

/-- `spill_offsets` does not depend on the iteration order of the spill set. -/
theorem spillOffsets_perm (s₁ s₂ : List Nat) (h : s₁.Perm s₂) (k : Nat) :
    spillOffsets s₁ k = spillOffsets s₂ k := by
  unfold spillOffsets
  rw [mergeSort_natLe_perm h]

/-- distinct spilled registers get distinct, 8-aligned slots at or above `locals_size` -/
theorem spillOffsets_slots (s : List Nat) (hnd : s.Nodup) (k : Nat) :
    ((spillOffsets s k).map Prod.snd).Nodup ∧
    ∀ p ∈ spillOffsets s k, k ≤ p.2 ∧ (p.2 - k) % 8 = 0 ∧ p.1 ∈ s := by
  have _ := hnd
  refine ⟨slots_nodup k _ 0, ?_⟩
  intro p hp
  obtain ⟨j, _, e, hm⟩ := mem_slots (k := k) (i := 0) hp
  exact ⟨by omega, by omega, (List.mergeSort_perm s _).subset hm⟩

/-- JSON-ABI concrete types: the order of `HashMap::values()` is irrelevant once sorted by the type
string, provided distinct entries have distinct type strings. -/
theorem sortByField_perm (v₁ v₂ : List (Nat × Nat)) (h : v₁.Perm v₂)
    (hinj : ∀ a ∈ v₁, ∀ b ∈ v₁, a.2 = b.2 → a = b) : sortByField v₁ = sortByField v₂ :=
  mergeSort_field_perm h hinj

/-- `values().find(p)` with at most one match is order-independent. -/
theorem findBy_perm {α : Type} (p : α → Bool) (l₁ l₂ : List α) (h : l₁.Perm l₂)
    (huniq : ∀ a ∈ l₁, ∀ b ∈ l₁, p a = true → p b = true → a = b) : findBy p l₁ = findBy p l₂ :=
  find?_perm_of_unique p h huniq

/-- The visited set computed by the call-graph closure of globals-DCE contains the same elements for
any two successor orderings that agree up to permutation, given enough fuel for the graph
(`fuel ≥ number of nodes`; all nodes `< n`). -/
theorem grow_perm_partial (succ₁ succ₂ : Nat → List Nat) (n : Nat)
    (hperm : ∀ f, (succ₁ f).Perm (succ₂ f)) (hbound : ∀ f, ∀ g ∈ succ₁ f, g < n)
    (f : Nat) (hf : f < n) (x : Nat) :
    x ∈ grow succ₁ (n + 1) f [] ↔ x ∈ grow succ₂ (n + 1) f [] := by
  have hbound₂ : ∀ f, ∀ g ∈ succ₂ f, g < n :=
    fun f g hg => hbound f g ((hperm f).symm.subset hg)
  rw [mem_grow_iff_reach succ₁ n hbound f hf, mem_grow_iff_reach succ₂ n hbound₂ f hf]
  exact ⟨Reach.congr (fun f x hx => (hperm f).subset hx),
    Reach.congr (fun f x hx => (hperm f).symm.subset hx)⟩

/-- Every std-hash iteration site extracted from /repo's current source is in the reviewed list. -/
theorem C15_sites_reviewed :
    SwayVerif.Generated.stdHashIterSites.all siteReviewed = true := by
  decide

/-! Non-vacuity -/
example : spillChoice [⟨3, 7, 0⟩, ⟨3, 9, 1⟩, ⟨2, 1, 2⟩] = some ⟨3, 9, 1⟩ := by decide
example : spillChoice [⟨2, 1, 2⟩, ⟨3, 9, 1⟩, ⟨3, 7, 0⟩] = some ⟨3, 9, 1⟩ := by decide

end SwayVerif.C15
