import SwayVerif.Model.DataSection
import SwayVerif.Lemmas.DataSection
import SwayVerif.Lemmas.DataSectionB
/-!
# C13 — Configurables patched at the reported offsets are observed

Property theorems only; helper lemmas live in `SwayVerif/Lemmas/DataSection.lean`.
Model: `SwayVerif/Model/DataSection.lean` (`Entry::to_bytes`, `equiv`, `insert_data_value`,
`append_pointer`, `absolute_idx_to_offset`, `serialize_to_bytes`, the three loops of `to_bytecode_mut`).

What is proved here is the layout arithmetic for ALL entry lists / data sections / histories:
the bytes at a reported offset are exactly that entry's bytes, entries are disjoint, a patch at the reported
offset is the same as recompiling with the new bytes for that one entry, configurables with different names
never share an entry, and a successful layout pass addresses every entry at its final offset.
That the running program *observes* those bytes (decode at start-up, `log`) is tied by the end-to-end
correspondence (`patch` lines), not proved.
-/
namespace SwayVerif.C13
open SwayVerif.DataSection

/-- The bytes `[off i, off i + len i)` of the serialised section are `toBytes e_i` — every entry list. -/
theorem serialize_at_offset (es : List Entry) (i : Nat) (h : i < es.length) :
    slice (serializeChunks (chunks es)) (offsetAt (chunks es) i) es[i].toBytes.length = es[i].toBytes := by
  have h' : i < (chunks es).length := by simpa [chunks] using h
  have := slice_ser (chunks es) i h'
  simpa [chunks] using this

/-- Entries occupy disjoint, ordered, word-aligned ranges inside the serialised section. -/
theorem entries_disjoint (es : List Entry) (i j : Nat) (hij : i < j) (hj : j < es.length) :
    offsetAt (chunks es) i + (es[i]'(Nat.lt_trans hij hj)).toBytes.length ≤ offsetAt (chunks es) j
    ∧ offsetAt (chunks es) j + es[j].toBytes.length ≤ (serializeChunks (chunks es)).length
    ∧ offsetAt (chunks es) j % 8 = 0 := by
  have hi : i < es.length := Nat.lt_trans hij hj
  have hi' : i < (chunks es).length := by simpa [chunks] using hi
  have hj' : j < (chunks es).length := by simpa [chunks] using hj
  have s1 := offsetAt_succ (chunks es) i hi'
  have s2 := offsetAt_succ (chunks es) j hj'
  have m1 := offsetAt_mono (chunks es) (i := i + 1) (j := j) (by omega)
  have m2 := offsetAt_mono (chunks es) (i := j + 1) (j := (chunks es).length) (by omega)
  have g1 := roundUp8_ge (offsetAt (chunks es) i + (chunks es)[i].length)
  have g2 := roundUp8_ge (offsetAt (chunks es) j + (chunks es)[j].length)
  have e1 : (chunks es)[i].length = es[i].toBytes.length := by simp [chunks]
  have e2 : (chunks es)[j].length = es[j].toBytes.length := by simp [chunks]
  refine ⟨by omega, ?_, offsetAt_mod8 _ _⟩
  rw [ser_length]; omega

/-- Overwriting entry `j`'s byte range with `new` (same length): the patch is in range, entry `j`'s range
holds exactly `new`, every other entry's range is unchanged, and so is the length of the section. -/
theorem C13_patch_frame (es : List Entry) (j : Nat) (new : List Byte) (hj : j < es.length)
    (hl : new.length = es[j].toBytes.length) :
    ∃ buf', patch (serializeChunks (chunks es)) (offsetAt (chunks es) j) new = some buf'
      ∧ buf'.length = (serializeChunks (chunks es)).length
      ∧ slice buf' (offsetAt (chunks es) j) new.length = new
      ∧ ∀ k (hk : k < es.length), k ≠ j →
          slice buf' (offsetAt (chunks es) k) es[k].toBytes.length = es[k].toBytes := by
  have hj' : j < (chunks es).length := by simpa [chunks] using hj
  have hl' : new.length = (chunks es)[j].length := by simpa [chunks] using hl
  refine ⟨_, patch_ser (chunks es) j new hj' hl', ?_, ?_, ?_⟩
  · rw [ser_length, ser_length, List.length_set, offsetAt_set _ _ _ hj' hl']
  · have hs : j < ((chunks es).set j new).length := by simpa using hj'
    have := slice_ser ((chunks es).set j new) j hs
    rw [offsetAt_set _ _ _ hj' hl'] at this
    simpa using this
  · intro k hk hkj
    have hs : k < ((chunks es).set j new).length := by simpa [chunks] using hk
    have := slice_ser ((chunks es).set j new) k hs
    rw [offsetAt_set _ _ _ hj' hl'] at this
    have e : ((chunks es).set j new)[k] = es[k].toBytes := by
      rw [List.getElem_set_ne (Ne.symm hkj)]; simp [chunks]
    rw [e] at this; exact this

/-- Whole bytecode, offset as the JSON ABI reports it (`code length + offset of entry (nonConf.length + j)`):
writing the encoding `e'.toBytes` of a new value there yields exactly the bytecode of the same program
compiled with configurable `j` replaced by `e'` — same code, same other entries, same offsets. -/
theorem C13_patch_is_recompile (code : List Byte) (ds : DS) (j : Nat) (e' : Entry) (hj : j < ds.conf.length)
    (hl : e'.toBytes.length = ds.conf[j].toBytes.length) :
    patch (bytecode code ds) (reportedOffset code.length ds j) e'.toBytes
      = some (bytecode code { ds with conf := ds.conf.set j e' })
    ∧ ∀ k, reportedOffset code.length { ds with conf := ds.conf.set j e' } k = reportedOffset code.length ds k := by
  have hidx : j + ds.nonConf.length < (chunks ds.all).length := by simp [chunks, DS.all]; omega
  have hget : (chunks ds.all)[j + ds.nonConf.length] = ds.conf[j].toBytes := by
    simp [chunks, DS.all, List.getElem_append_right]
  have hl' : e'.toBytes.length = (chunks ds.all)[j + ds.nonConf.length].length := by rw [hget]; exact hl
  have hset : chunks ({ ds with conf := ds.conf.set j e' } : DS).all
      = (chunks ds.all).set (j + ds.nonConf.length) e'.toBytes := by
    simp only [chunks, DS.all, List.map_append, List.map_set]
    rw [List.set_append_right _ _ (by simp)]
    simp
  constructor
  · unfold bytecode reportedOffset DS.serialize DS.offsetOfAbs
    rw [patch_append_left, patch_ser _ _ _ hidx hl', hset]; rfl
  · intro k
    unfold reportedOffset DS.offsetOfAbs
    rw [hset, offsetAt_set _ _ _ hidx hl']

/-- `Entry::equiv` compares names: after ANY history of `insert_data_value` / `append_pointer`, two inserted
configurables with different names got different ids (they never share an entry, even with equal bytes). -/
theorem configurables_never_merged (ds0 : DS) (ops : List DOp) (a b : Nat) (ea eb : Entry) (x y : Name)
    (ha : ops[a]? = some (.insert ea)) (hb : ops[b]? = some (.insert eb))
    (hx : ea.name = some x) (hy : eb.name = some y) (hxy : x ≠ y) :
    ∃ ida idb, (ds0.run ops).2[a]? = some ida ∧ (ds0.run ops).2[b]? = some idb ∧ ida ≠ idb := by
  obtain ⟨ida, xa, h1, h2, h3, _⟩ := run_insert_name ops ds0 a ea ha
  obtain ⟨idb, xb, k1, k2, k3, _⟩ := run_insert_name ops ds0 b eb hb
  refine ⟨ida, idb, h1, k1, ?_⟩
  intro heq
  subst heq
  rw [h2] at k2
  cases k2
  rw [h3, hx] at k3
  rw [hy] at k3
  cases k3
  exact hxy rfl

/-- The id returned by `insert_data_value` resolves — after ANY later history — to an entry with exactly the
inserted entry's bytes and name: what the program reads at that id, and what the ABI offset of a
configurable points at, is the value that was inserted (merged or not). -/
theorem insert_lookup (ds0 : DS) (ops : List DOp) (a : Nat) (e : Entry) (ha : ops[a]? = some (.insert e)) :
    ∃ id x, (ds0.run ops).2[a]? = some id ∧ (ds0.run ops).1.get id = some x
      ∧ x.toBytes = e.toBytes ∧ x.name = e.name
      ∧ slice (ds0.run ops).1.serialize ((ds0.run ops).1.offsetOf id) e.toBytes.length = e.toBytes := by
  obtain ⟨id, x, h1, h2, h3, h4⟩ := run_insert_name ops ds0 a e ha
  refine ⟨id, x, h1, h2, h4, h3, ?_⟩
  have := slice_serialize_id _ id x h2
  rw [h4] at this; exact this

/-- Why `Entry::equiv` must compare the serialised bytes: `equiv_data` ignores paddings. The tuple
`(0u64, 5u64)` and the enum value `E::A(5)` of `enum E { A: u64, B: b256 }` (tag word, payload left-padded to
32 bytes) are equal as data and different as bytes; before the `fix:` they were merged and `log(X)` of
`const X: E = E::A(5)` printed garbage (replayed on the real compiler). -/
theorem equiv_data_ignores_padding :
    let tup : Entry := Entry.new (.coll (.cons (.word 0) (.right 8) (.cons (.word 5) (.right 8) .nil))) none none
    let enm : Entry := Entry.new (.coll (.cons (.word 0) (.right 8) (.cons (.word 5) (.left 32) .nil))) none none
    tup.value.equiv enm.value = true ∧ tup.toBytes.length = 16 ∧ enm.toBytes.length = 40
      ∧ tup.equiv enm = false := by
  decide

/-- Layout pass of `to_bytecode_mut` (size pass, pointer pre-insertion, emission), PARTIAL:
if the pass completes (`.ok b`), then — with the final data section `b.ds` — every `AddrDataId` immediate is
the entry's final offset, every copy-type `LoadDataId` immediate addresses the entry, every non-copy load reads
a data-section word holding `ptr` with `ptr + $pc = codeLen + final offset of the entry`, and the emitted code is
exactly `codeLen` bytes long (so the reported offsets `codeLen + offset` are offsets into the real bytecode).
Hypotheses: the pointer map is well-formed and top-level words are unpadded at the start (true of the empty map
the compiler starts with), and addressed offsets are below 2^18 (`addr_of` masks `MOVI`'s immediate silently).
Missing for the full `layout_stable`: the pass need not complete — see `layout_unstable_witness`. -/
theorem layout_stable_partial (ds0 : DS) (ops : List COp) (b : Bytecode)
    (hwf : PtrsWF ds0) (hpl : WordsPlain ds0) (h : toBytecode ds0 ops = .ok b)
    (hsmall : ∀ id, COp.addr id ∈ ops → b.ds.offsetOf id < 2 ^ 18) :
    ∃ ops', (ops' = ops ∨ ops' = ops ++ [.fixed 4]) ∧ allResolve b 0 ops' b.emits = true
      ∧ emitsSize b.emits = b.codeLen := by
  unfold toBytecode at h
  obtain ⟨sz, _, h⟩ := Res.bind_eq_ok h
  simp only at h
  obtain ⟨dsf, hp1, h⟩ := Res.bind_eq_ok h
  obtain ⟨emits, hp2, h⟩ := Res.bind_eq_ok h
  generalize hoff : (if sz % 8 = 0 then sz else sz + 4) = off0 at h hp1 hp2
  generalize hops : (if sz % 8 = 0 then ops else ops ++ [COp.fixed 4]) = ops' at hp1 hp2
  by_cases hsize : emitsSize emits = off0
  · rw [if_pos hsize] at h
    injection h with h
    subst h
    obtain ⟨w1, w2⟩ := pass1_inv _ _ _ _ _ hp1 hwf hpl
    refine ⟨ops', ?_, pass2_resolves dsf _ emits w1 w2 _ 0 emits hp2 ?_, hsize⟩
    · subst hops; by_cases hm : sz % 8 = 0 <;> simp [hm]
    · intro id hid
      apply hsmall id
      subst hops
      by_cases hm : sz % 8 = 0
      · simpa [hm] using hid
      · simp [hm] at hid; exact hid
  · rw [if_neg hsize] at h; cases h

/-- `layout_stable` is FALSE without a further hypothesis: a non-copy `LoadDataId` makes the pre-insertion pass
append a pointer word to the non-configurable part, which moves every configurable by 8 bytes AFTER the code
size was computed. If that moves an `AddrDataId` target across the 12-bit `ADDI` limit (4088 -> 4096) the op
grows from 4 to 8 bytes and `assert_eq!(bytecode.len(), offset_to_data_section_in_bytes)` fails. Replayed on
the real `to_bytecode_mut` (corpus/c13.txt, `bigarr 4088 … | Ln0 Ac0`). 40 bytes lower the same program is fine. -/
theorem layout_unstable_witness :
    let big (n : Nat) : Entry := Entry.new (.byteArray (List.replicate n 0x5a)) none none
    let cfg : Entry := Entry.new (.byteArray [1, 2, 3, 4, 5, 6, 7, 8]) (some ['D']) none
    let ds (n : Nat) : DS := (({} : DS).run [.insert (big n), .insert cfg]).1
    let ops : List COp := [.load ⟨false, 0⟩, .addr ⟨true, 0⟩]
    -- the hypotheses of `layout_stable_partial` hold: empty pointer map, no word entries at all
    (ds 4088).ptrs.isEmpty = true ∧ (ds 4088).all.all (fun e => !e.isCopy) = true
      ∧ (toBytecode (ds 4088) ops).isPanic .sizeAssert = true
      ∧ (toBytecode (ds 4048) ops).isOk = true := by
  refine ⟨by decide +kernel, by decide +kernel, by decide +kernel, by decide +kernel⟩

/-! Non-vacuity of the hypotheses of `layout_stable_partial` and `insert_lookup`: the empty data section the
compiler starts from is well-formed, and a concrete program lays out successfully. -/
example : PtrsWF {} ∧ WordsPlain {} := by
  constructor
  · intro v id hm; simp at hm
  · intro id e v hg; simp [DS.get] at hg
example : (toBytecode (({} : DS).run [.insert (Entry.new (.byteArray [1, 2, 3, 4, 5, 6, 7, 8, 9]) none none),
    .insert (Entry.new (.word 7) (some ['A']) none)]).1 [.load ⟨false, 0⟩, .addr ⟨true, 0⟩]).isOk = true := by
  decide +kernel
example : ([DOp.insert (Entry.new (.word 7) (some ['A']) none)])[0]? = some (.insert (Entry.new (.word 7) (some ['A']) none)) := rfl

end SwayVerif.C13
