import SwayVerif.Model.LspSched
/-!
Invariants of the C24 scheduling model and their preservation by every step (handlers
pre-emptible everywhere, any number of handlers).
-/
namespace SwayVerif.LspSched

@[simp] theorem upd_same (f : Nat → HPc) (i : Nat) (v : HPc) : upd f i v i = v := by simp [upd]
theorem upd_other (f : Nat → HPc) {i j : Nat} (v : HPc) (h : j ≠ i) : upd f i v j = f j := by
  simp [upd, h]

/-- The handler will certainly perform a `send` later. -/
def HPc.willSend : HPc → Bool
  | .hInit .open true | .oSetIc | .sLoadIc _ | .sStoreRt _ | .sFull _ | .sDrain _ | .sSend _ => true
  | _ => false

/-- Program counters that exist only in other versions of `did_open` (store after the send, store
before the look-ups). -/
def HPc.foreign : HPc → Bool
  | .oSetIcLate | .oSetIcEarly _ => true
  | _ => false

/-- The handler is past its `retrigger_compilation.store(true)` and before the end of its `send`. -/
def HPc.sendSoon : HPc → Bool
  | .sFull _ | .sDrain _ | .sSend _ => true
  | _ => false

/-- Worker between `recv` and `is_compiling.store(false)`. -/
def WPc.pre : WPc → Bool
  | .clrRtRecv | .setIc | .start | .chk0 | .comp _ | .aborted | .fin | .clrIc => true
  | _ => false

/-- Worker between `recv` and the write of `last_compilation_state`. -/
def WPc.preLs : WPc → Bool
  | .clrRtRecv | .setIc | .start | .chk0 | .comp _ | .aborted | .fin => true
  | _ => false

/-- Worker between `recv` and the end of the compilation proper. -/
def WPc.compiling : WPc → Bool
  | .clrRtRecv | .setIc | .start | .chk0 | .comp _ | .fin => true
  | _ => false

def AnyH (P : HPc → Bool) (f : Nat → HPc) : Prop := ∃ i, P (f i) = true

theorem anyH_upd_self {P : HPc → Bool} {f : Nat → HPc} {i : Nat} {v : HPc} (hv : P v = true) :
    AnyH P (upd f i v) := ⟨i, by simpa using hv⟩

theorem anyH_upd_keep {P : HPc → Bool} {f : Nat → HPc} {i : Nat} {v : HPc}
    (h : AnyH P f) (hi : P (f i) = true → P v = true) : AnyH P (upd f i v) := by
  obtain ⟨j, hj⟩ := h
  by_cases hji : j = i
  · subst hji; exact ⟨j, by simpa using hi hj⟩
  · exact ⟨j, by rw [upd_other _ _ hji]; exact hj⟩

theorem anyH_of_upd {P : HPc → Bool} {f : Nat → HPc} {i : Nat} {v : HPc}
    (h : AnyH P (upd f i v)) : P v = true ∨ AnyH P f := by
  obtain ⟨j, hj⟩ := h
  by_cases hji : j = i
  · subst hji; left; simpa using hj
  · right; exact ⟨j, by rw [upd_other _ _ hji] at hj; exact hj⟩

/-- Some handler other than `i` satisfies `P`. -/
def AnyO (P : HPc → Bool) (f : Nat → HPc) (i : Nat) : Prop := ∃ j, j ≠ i ∧ P (f j) = true

theorem anyH_split {P : HPc → Bool} {f : Nat → HPc} (i : Nat) :
    AnyH P f ↔ (P (f i) = true ∨ AnyO P f i) := by
  constructor
  · rintro ⟨j, hj⟩
    by_cases hji : j = i
    · subst hji; exact Or.inl hj
    · exact Or.inr ⟨j, hji, hj⟩
  · rintro (h | ⟨j, _, hj⟩)
    · exact ⟨i, h⟩
    · exact ⟨j, hj⟩

theorem anyH_upd {P : HPc → Bool} {f : Nat → HPc} {i : Nat} {v : HPc} :
    AnyH P (upd f i v) ↔ (P v = true ∨ AnyO P f i) := by
  constructor
  · rintro ⟨j, hj⟩
    by_cases hji : j = i
    · subst hji; left; simpa using hj
    · right; exact ⟨j, hji, by rw [upd_other _ _ hji] at hj; exact hj⟩
  · rintro (h | ⟨j, hji, hj⟩)
    · exact ⟨i, by simpa using h⟩
    · exact ⟨j, by rw [upd_other _ _ hji]; exact hj⟩

/-- Handlers are allocated in order: nothing lives at or above `s.n`. -/
def InvW (s : State) : Prop := ∀ j, s.n ≤ j → s.h j = .absent

/-- Snapshot carried by a `wait_for_parsing` program counter. -/
def HPc.sn? : HPc → Option Nat
  | .pLoadIc sn | .pReadLs sn | .pEmpty sn | .pAwait sn => some sn
  | _ => none

/-- Something is still going to call `notify_waiters` later: a queued request, a busy worker, or a
handler that is going to send. -/
def Pend (s : State) : Prop :=
  s.chan = true ∨ s.wpc ≠ .idle ∨ AnyH HPc.willSend s.h

/-- Invariant behind (a). -/
structure InvA (s : State) : Prop where
  noLate : ∀ i, (s.h i).foreign = false
  ic : s.ic = true → s.chan = true ∨ s.wpc.pre = true ∨ AnyH HPc.willSend s.h
  ls : s.opened = true → s.ls ≠ .uninit ∨ s.chan = true ∨ s.wpc.preLs = true ∨ AnyH HPc.willSend s.h
  opened : ∀ i, s.h i ≠ .absent → s.opened = true
  snapLe : ∀ i sn, (s.h i).sn? = some sn → sn ≤ s.nw
  wait : ∀ i sn, s.h i = .pAwait sn → sn < s.nw ∨ Pend s

/-- Invariant behind (b). -/
structure InvB (s : State) : Prop where
  rt : s.rt = true → s.chan = true ∨ s.wpc = .clrRtRecv ∨ AnyH HPc.sendSoon s.h
  snap : (s.wpc = .comp true ∨ s.wpc = .fin) → s.snap = s.latest ∨ s.chan = true ∨ AnyH HPc.willSend s.h
  last : s.lastDone = s.latest ∨ s.chan = true ∨ s.wpc.compiling = true ∨ AnyH HPc.willSend s.h

theorem sendSoon_willSend {p : HPc} (h : p.sendSoon = true) : p.willSend = true := by
  cases p <;> simp_all [HPc.sendSoon, HPc.willSend]

theorem AnyH.sendSoon_willSend {f : Nat → HPc} (h : AnyH HPc.sendSoon f) : AnyH HPc.willSend f := by
  obtain ⟨i, hi⟩ := h; exact ⟨i, SwayVerif.LspSched.sendSoon_willSend hi⟩

theorem invA_init : InvA init := by
  constructor <;> simp [init, HPc.sn?, HPc.foreign]

theorem invB_init : InvB init := by
  constructor <;> simp [init]

/-! ## Preservation -/

/-- Unfold one step of the worker / a handler into the concrete successor state. -/
macro "step_cases" hl:ident : tactic => `(tactic| (
  all_goals (try split at $hl:ident)
  all_goals (try split at $hl:ident)
  all_goals (first | (cases $hl:ident; done) | skip)
  all_goals (cases $hl:ident)))

theorem invW_init : InvW init := by intro j _; rfl

theorem invW_wstep {c : Cfg} {s t : State} {l : WLabel} (hw : InvW s)
    (hl : wstep c s l = some t) : InvW t := by
  unfold InvW at *
  cases l <;> simp only [wstep] at hl
  step_cases hl
  all_goals simpa using hw

theorem invW_hstep {c : Cfg} {s t : State} {i : Nat} {l : HLabel} (hw : InvW s)
    (hl : hstep c s i l = some t) : InvW t := by
  unfold InvW at *
  have hwi := hw i
  cases l <;> simp only [hstep] at hl
  step_cases hl
  all_goals (intro j hj; by_cases hji : j = i)
  all_goals (first | (subst hji; simp_all; done) | (simp_all [upd_other]; done) | skip)
  all_goals (simp_all [upd_other]; try omega)
  all_goals (try (have := hw j (by omega); simp_all))

theorem invB_wstep {c : Cfg} {s t : State} {l : WLabel} (hc : c.clearAtRecv = true)
    (hi : InvB s) (hl : wstep c s l = some t) : InvB t := by
  obtain ⟨hrt, hsnap, hlast⟩ := hi
  cases l <;> simp only [wstep] at hl
  step_cases hl
  all_goals (constructor <;> simp_all [WPc.compiling])
  all_goals (rcases hrt with h | h)
  all_goals (first | (simp [h]; done) | exact Or.inr (Or.inr h.sendSoon_willSend))

theorem invB_hstep {c : Cfg} {s t : State} {i : Nat} {l : HLabel}
    (hw : InvW s) (hi : InvB s) (hl : hstep c s i l = some t) : InvB t := by
  obtain ⟨hrt, hsnap, hlast⟩ := hi
  have hwi := hw i
  cases l <;> simp only [hstep] at hl
  step_cases hl
  all_goals (constructor <;> simp only [anyH_upd] <;> simp only [anyH_split i] at hrt hsnap hlast ⊢ <;>
    simp_all [WPc.compiling, HPc.willSend, HPc.sendSoon])
  all_goals (first | done |
    (rename_i k _; cases k <;> simp_all [spawnPc, afterLookup, waitStart] <;> grind) |
    grind [spawnPc, afterLookup, waitStart, afterSend, goWait])

theorem invA_wstep {c : Cfg} {s t : State} {l : WLabel}
    (hi : InvA s) (hl : wstep c s l = some t) : InvA t := by
  obtain ⟨h1, h2, h3, h4, h5, h6⟩ := hi
  cases l <;> simp only [wstep] at hl
  step_cases hl
  all_goals (constructor <;> first | assumption | (simp_all [WPc.pre, WPc.preLs, Pend]; done) | skip)
  all_goals (simp_all [WPc.pre, WPc.preLs, Pend])
  · intro i sn h; have := h5 i sn h; omega
  · intro i sn h; left; have := h5 i sn (by simp [h, HPc.sn?]); omega

/-- Preservation of `InvA` by one handler step (tactic shared by the per-label lemmas). -/
macro "inv_a_handler" hl:ident h1:ident h2:ident h3:ident h4:ident h5:ident h6:ident hw:ident i:ident : tactic =>
  `(tactic| (
  have hwi := $hw $i
  have h1i := $h1 $i
  have h4i := $h4 $i
  have h5i := $h5 $i
  have h6i := $h6 $i
  simp only [hstep] at $hl:ident
  step_cases $hl
  all_goals (refine ⟨fun j => ?_, ?_, ?_, fun j => ?_, fun j sn => ?_, fun j sn => ?_⟩)
  all_goals (try (by_cases hji : $i = j))
  all_goals (try subst hji)
  all_goals (try (have hji' : j ≠ $i := fun h => hji h.symm))
  all_goals (try simp only [anyH_upd, Pend])
  all_goals (try simp only [anyH_split $i, Pend] at $h2:ident $h3:ident $h6:ident h6i ⊢)
  all_goals (first | (simp_all [WPc.pre, WPc.preLs, HPc.willSend, HPc.foreign, HPc.sn?, upd_other]; done) | skip)
  all_goals (first | (grind [WPc.pre, WPc.preLs, HPc.willSend, HPc.foreign, HPc.sn?, upd_other, upd_same, spawnPc, afterLookup, afterSend, waitStart, goWait]; done) | skip)
  all_goals (simp only [upd_same]; (try unfold spawnPc); (try unfold afterLookup); (try unfold afterSend); split <;>
    simp_all [waitStart, HPc.sn?, HPc.willSend, HPc.foreign])))

section
set_option linter.unusedSectionVars false
variable {c : Cfg} {s t : State} {i : Nat}
  (hc1 : c.notifiedFirst = true) (hc2 : c.openStoreFirst = true) (hc3 : c.openedFirst = true)
  (hc4 : c.openStoreEarly = false)
  (hw : InvW s) (hi : InvA s)
include hc1 hc2 hc3 hc4 hw hi

theorem invA_h_spawn {k : Kind} {v : Bool} (hl : hstep c s i (.spawn k v) = some t) : InvA t := by
  obtain ⟨h1, h2, h3, h4, h5, h6⟩ := hi
  inv_a_handler hl h1 h2 h3 h4 h5 h6 hw i
theorem invA_h_lookup (hl : hstep c s i .lookup = some t) : InvA t := by
  obtain ⟨h1, h2, h3, h4, h5, h6⟩ := hi
  inv_a_handler hl h1 h2 h3 h4 h5 h6 hw i
theorem invA_h_fail (hl : hstep c s i .fail = some t) : InvA t := by
  obtain ⟨h1, h2, h3, h4, h5, h6⟩ := hi
  inv_a_handler hl h1 h2 h3 h4 h5 h6 hw i
theorem invA_h_setIc (hl : hstep c s i .setIc = some t) : InvA t := by
  obtain ⟨h1, h2, h3, h4, h5, h6⟩ := hi
  inv_a_handler hl h1 h2 h3 h4 h5 h6 hw i
theorem invA_h_write (hl : hstep c s i .write = some t) : InvA t := by
  obtain ⟨h1, h2, h3, h4, h5, h6⟩ := hi
  inv_a_handler hl h1 h2 h3 h4 h5 h6 hw i
theorem invA_h_loadIc (hl : hstep c s i .loadIc = some t) : InvA t := by
  obtain ⟨h1, h2, h3, h4, h5, h6⟩ := hi
  inv_a_handler hl h1 h2 h3 h4 h5 h6 hw i
theorem invA_h_storeRt (hl : hstep c s i .storeRt = some t) : InvA t := by
  obtain ⟨h1, h2, h3, h4, h5, h6⟩ := hi
  inv_a_handler hl h1 h2 h3 h4 h5 h6 hw i
theorem invA_h_isFull (hl : hstep c s i .isFull = some t) : InvA t := by
  obtain ⟨h1, h2, h3, h4, h5, h6⟩ := hi
  inv_a_handler hl h1 h2 h3 h4 h5 h6 hw i
theorem invA_h_tryRecv (hl : hstep c s i .tryRecv = some t) : InvA t := by
  obtain ⟨h1, h2, h3, h4, h5, h6⟩ := hi
  inv_a_handler hl h1 h2 h3 h4 h5 h6 hw i
theorem invA_h_send (hl : hstep c s i .send = some t) : InvA t := by
  obtain ⟨h1, h2, h3, h4, h5, h6⟩ := hi
  inv_a_handler hl h1 h2 h3 h4 h5 h6 hw i
theorem invA_h_snap (hl : hstep c s i .snap = some t) : InvA t := by
  obtain ⟨h1, h2, h3, h4, h5, h6⟩ := hi
  inv_a_handler hl h1 h2 h3 h4 h5 h6 hw i
theorem invA_h_pLoadIc (hl : hstep c s i .pLoadIc = some t) : InvA t := by
  obtain ⟨h1, h2, h3, h4, h5, h6⟩ := hi
  inv_a_handler hl h1 h2 h3 h4 h5 h6 hw i
theorem invA_h_readLs (hl : hstep c s i .readLs = some t) : InvA t := by
  obtain ⟨h1, h2, h3, h4, h5, h6⟩ := hi
  inv_a_handler hl h1 h2 h3 h4 h5 h6 hw i
theorem invA_h_pIsEmpty (hl : hstep c s i .pIsEmpty = some t) : InvA t := by
  obtain ⟨h1, h2, h3, h4, h5, h6⟩ := hi
  inv_a_handler hl h1 h2 h3 h4 h5 h6 hw i
theorem invA_h_wake (hl : hstep c s i .wake = some t) : InvA t := by
  obtain ⟨h1, h2, h3, h4, h5, h6⟩ := hi
  inv_a_handler hl h1 h2 h3 h4 h5 h6 hw i

theorem invA_hstep {l : HLabel} (hl : hstep c s i l = some t) : InvA t := by
  cases l
  · exact invA_h_spawn hc1 hc2 hc3 hc4 hw hi hl
  · exact invA_h_lookup hc1 hc2 hc3 hc4 hw hi hl
  · exact invA_h_fail hc1 hc2 hc3 hc4 hw hi hl
  · exact invA_h_setIc hc1 hc2 hc3 hc4 hw hi hl
  · exact invA_h_write hc1 hc2 hc3 hc4 hw hi hl
  · exact invA_h_loadIc hc1 hc2 hc3 hc4 hw hi hl
  · exact invA_h_storeRt hc1 hc2 hc3 hc4 hw hi hl
  · exact invA_h_isFull hc1 hc2 hc3 hc4 hw hi hl
  · exact invA_h_tryRecv hc1 hc2 hc3 hc4 hw hi hl
  · exact invA_h_send hc1 hc2 hc3 hc4 hw hi hl
  · exact invA_h_snap hc1 hc2 hc3 hc4 hw hi hl
  · exact invA_h_pLoadIc hc1 hc2 hc3 hc4 hw hi hl
  · exact invA_h_readLs hc1 hc2 hc3 hc4 hw hi hl
  · exact invA_h_pIsEmpty hc1 hc2 hc3 hc4 hw hi hl
  · exact invA_h_wake hc1 hc2 hc3 hc4 hw hi hl
end

/-! ## Reachable states satisfy the invariants -/

theorem reach_invW {c : Cfg} {s : State} (h : Reachable c s) : InvW s := by
  induction h with
  | init => exact invW_init
  | step _ hs ih =>
    rcases hs with ⟨l, hl⟩ | ⟨i, l, hl⟩
    · exact invW_wstep ih hl
    · exact invW_hstep ih hl

theorem reach_invA {c : Cfg} {s : State} (hc1 : c.notifiedFirst = true)
    (hc2 : c.openStoreFirst = true) (hc3 : c.openedFirst = true) (hc4 : c.openStoreEarly = false)
    (h : Reachable c s) : InvA s := by
  induction h with
  | init => exact invA_init
  | step hr hs ih =>
    rcases hs with ⟨l, hl⟩ | ⟨i, l, hl⟩
    · exact invA_wstep ih hl
    · exact invA_hstep hc1 hc2 hc3 hc4 (reach_invW hr) ih hl

theorem reach_invB {c : Cfg} {s : State} (hc : c.clearAtRecv = true) (h : Reachable c s) :
    InvB s := by
  induction h with
  | init => exact invB_init
  | step hr hs ih =>
    rcases hs with ⟨l, hl⟩ | ⟨i, l, hl⟩
    · exact invB_wstep hc ih hl
    · exact invB_hstep (reach_invW hr) ih hl

/-! ## Quiescence -/

theorem quiet_not_willSend {p : HPc} {nw : Nat} (h : p.quiet nw = true) : p.willSend = false := by
  cases p <;> simp_all [HPc.quiet, HPc.willSend]

theorem Quiescent.no_willSend {s : State} (q : Quiescent s) : ¬ AnyH HPc.willSend s.h := by
  rintro ⟨i, hi⟩
  have := quiet_not_willSend (q.2.2 i)
  simp_all

/-- With handlers allocated below `s.n` the bounded test decides quiescence. -/
theorem quiescent_of_quiescentB {s : State} (hw : InvW s) (h : quiescentB s = true) : Quiescent s := by
  simp only [quiescentB, Bool.and_eq_true, decide_eq_true_eq, Bool.not_eq_true', List.all_eq_true,
    List.mem_range] at h
  refine ⟨h.1.1, h.1.2, fun i => ?_⟩
  by_cases hi : i < s.n
  · exact h.2 i hi
  · rw [hw i (by omega)]; rfl

theorem waiting_of_waitingB {s : State} (h : 0 < waitingB s) : ∃ i, Waiting s i := by
  unfold waitingB at h
  obtain ⟨i, hi⟩ := List.exists_mem_of_length_pos h
  rw [List.mem_filter] at hi
  refine ⟨i, ?_⟩
  unfold Waiting
  cases hh : s.h i <;> simp_all

/-! ## `Quiescent` is the right notion -/

/-- `Quiescent` says exactly that nothing can happen except the arrival of a new client event. -/
theorem quiescent_iff_only_spawn {c : Cfg} {s : State} :
    Quiescent s ↔ (∀ l, wstep c s l = none) ∧ (∀ i l, (∀ k v, l ≠ .spawn k v) → hstep c s i l = none) := by
  constructor
  · rintro ⟨hw, hc, hq⟩
    refine ⟨fun l => ?_, fun i l hl => ?_⟩
    · cases l <;> simp [wstep, hw, hc]
    · have hqi := hq i
      cases l
      case spawn k v => exact absurd rfl (hl k v)
      all_goals (simp only [hstep]; split <;> simp_all [HPc.quiet])
  · rintro ⟨hw, hh⟩
    have hidle : s.wpc = .idle := by
      cases hp : s.wpc
      case idle => rfl
      case clrRtRecv => have := hw .clrRt; simp [wstep, hp] at this
      case setIc => have := hw .setIc; simp [wstep, hp] at this
      case start => have := hw .start; simp [wstep, hp] at this
      case chk0 => have := hw .chk; simp [wstep, hp] at this
      case comp rd => have := hw .chk; simp [wstep, hp] at this
      case aborted => have := hw .lsAbort; simp [wstep, hp] at this
      case fin => have := hw (.lsDone true); simp [wstep, hp] at this
      case clrIc => have := hw .clrIc; simp [wstep, hp] at this
      case clrRt => have := hw .clrRt; simp [wstep, hp] at this
      case empty => have := hw .isEmpty; simp [wstep, hp] at this
      case notify => have := hw .notify; simp [wstep, hp] at this
    have hchan : s.chan = false := by
      have := hw .recv
      simp [wstep, hidle] at this
      exact this
    refine ⟨hidle, hchan, fun i => ?_⟩
    cases hp : s.h i
    case absent => rfl
    case done => rfl
    case pAwait sn =>
      have := hh i .wake (by intro k v; simp)
      simp [hstep, hp] at this
      simp [HPc.quiet, this]
    case hInit k v =>
      cases v
      · have := hh i .fail (by intro k v; simp); simp [hstep, hp] at this
      · have := hh i .lookup (by intro k v; simp); simp [hstep, hp] at this
    case oSetIcEarly v => have := hh i .setIc (by intro k v; simp); simp [hstep, hp] at this
    case oSetIc => have := hh i .setIc (by intro k v; simp); simp [hstep, hp] at this
    case cWrite => have := hh i .write (by intro k v; simp); simp [hstep, hp] at this
    case sLoadIc k => have := hh i .loadIc (by intro k v; simp); simp [hstep, hp] at this
    case sStoreRt k => have := hh i .storeRt (by intro k v; simp); simp [hstep, hp] at this
    case sFull k => have := hh i .isFull (by intro k v; simp); simp [hstep, hp] at this
    case sDrain k => have := hh i .tryRecv (by intro k v; simp); simp [hstep, hp, hchan] at this
    case sSend k => have := hh i .send (by intro k v; simp); simp [hstep, hp, hchan] at this
    case oSetIcLate => have := hh i .setIc (by intro k v; simp); simp [hstep, hp] at this
    case pSnap => have := hh i .snap (by intro k v; simp); simp [hstep, hp] at this
    case pLoadIc sn => have := hh i .pLoadIc (by intro k v; simp); simp [hstep, hp] at this
    case pReadLs sn => have := hh i .readLs (by intro k v; simp); simp [hstep, hp] at this
    case pEmpty sn => have := hh i .pIsEmpty (by intro k v; simp); simp [hstep, hp] at this
/-! ## Schedules -/

theorem act_step {c : Cfg} {s t : State} {a : Act} (h : act c s a = some t) : Step c s t := by
  cases a with
  | w l => exact Or.inl ⟨l, h⟩
  | h i l => exact Or.inr ⟨i, l, h⟩

theorem run_reachable {c : Cfg} {as : List Act} {s t : State} (hs : Reachable c s)
    (h : run c s as = some t) : Reachable c t := by
  induction as generalizing s with
  | nil => simp only [run, Option.some.injEq] at h; exact h ▸ hs
  | cons a as ih =>
    simp only [run] at h
    split at h
    · next u hu => exact ih (Reachable.step hs (act_step hu)) h
    · cases h

/-- Run a schedule from `init` and test the end state. -/
def checkRun (c : Cfg) (as : List Act) (P : State → Bool) : Bool :=
  match run c init as with
  | some t => P t
  | none => false

theorem checkRun_reachable {c : Cfg} {as : List Act} {P : State → Bool} (h : checkRun c as P = true) :
    ∃ t, Reachable c t ∧ P t = true := by
  unfold checkRun at h
  split at h
  · next t ht => exact ⟨t, run_reachable Reachable.init ht, h⟩
  · cases h

end SwayVerif.LspSched
