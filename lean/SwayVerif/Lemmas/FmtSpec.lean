import SwayVerif.Model.FmtSpec
/-!
Helper lemmas for `Props/C18.lean` and `Props/C19.lean` (model: `Model/FmtSpec.lean`).
-/
namespace SwayVerif.FmtSpec

/-! ## Shrinking functions and their fixed points -/

/-- `f` only deletes elements. -/
def Shrinks (f : List α → List α) : Prop := ∀ x, (f x).Sublist x

theorem Shrinks.eq_of_length {f : List α → List α} (hf : Shrinks f) {x : List α}
    (h : (f x).length = x.length) : f x = x := (hf x).eq_of_length h

theorem fixIterAux_fixed {f : List α → List α} (hf : Shrinks f) :
    ∀ (n : Nat) (x : List α), x.length ≤ n → f (fixIterAux f n x) = fixIterAux f n x := by
  intro n
  induction n with
  | zero =>
    intro x hx
    have hx0 : x = [] := List.eq_nil_of_length_eq_zero (Nat.le_zero.mp hx)
    subst hx0
    simp only [fixIterAux]
    exact List.eq_nil_of_length_eq_zero (Nat.le_zero.mp (hf []).length_le)
  | succ n ih =>
    intro x hx
    simp only [fixIterAux]
    split
    · next h => rw [hf.eq_of_length h, hf.eq_of_length h]
    · next h =>
      apply ih
      have hle := (hf x).length_le
      omega

theorem fixIterAux_sublist {f : List α → List α} (hf : Shrinks f) :
    ∀ (n : Nat) (x : List α), (fixIterAux f n x).Sublist x := by
  intro n
  induction n with
  | zero => intro x; exact List.Sublist.refl x
  | succ n ih =>
    intro x
    simp only [fixIterAux]
    split
    · exact hf x
    · exact (ih (f x)).trans (hf x)

theorem fixIterAux_of_fixed {f : List α → List α} {y : List α} (h : f y = y) :
    ∀ n, fixIterAux f n y = y := by
  intro n
  cases n with
  | zero => rfl
  | succ n => simp [fixIterAux, h]

/-- The result of `fixIter` is a fixed point. -/
theorem fixIter_fixed {f : List α → List α} (hf : Shrinks f) (x : List α) :
    f (fixIter f x) = fixIter f x := fixIterAux_fixed hf _ _ (Nat.le_refl _)

theorem fixIter_sublist {f : List α → List α} (hf : Shrinks f) (x : List α) :
    (fixIter f x).Sublist x := fixIterAux_sublist hf _ _

theorem fixIter_of_fixed {f : List α → List α} {y : List α} (h : f y = y) : fixIter f y = y :=
  fixIterAux_of_fixed h _

theorem fixIter_idem {f : List α → List α} (hf : Shrinks f) (x : List α) :
    fixIter f (fixIter f x) = fixIter f x := fixIter_of_fixed (fixIter_fixed hf x)

/-! ## The newline-style kernel -/

theorem toUnix_sublist : ∀ s : List Char, (toUnix s).Sublist s
  | [] => List.Sublist.refl _
  | [c] => List.Sublist.refl _
  | c :: d :: ds => by
    simp only [toUnix]
    split
    · next h =>
      simp only [Bool.and_eq_true, decide_eq_true_eq] at h
      rw [h.2]
      exact ((toUnix_sublist ds).cons_cons _).cons _
    · exact (toUnix_sublist (d :: ds)).cons_cons _

theorem toUnix_shrinks : Shrinks toUnix := toUnix_sublist

theorem dropLastWs_sublist : ∀ s : List Char, (dropLastWs s).Sublist s
  | [] => List.Sublist.refl _
  | [c] => by
    simp only [dropLastWs]
    split
    · exact List.nil_sublist _
    · exact List.Sublist.refl _
  | c :: d :: cs => by
    simp only [dropLastWs]
    exact (dropLastWs_sublist (d :: cs)).cons_cons _

theorem commentStep_shrinks : Shrinks (fun x => toUnix (dropLastWs x)) :=
  fun x => (toUnix_sublist _).trans (dropLastWs_sublist x)

theorem normLit_idem (s : List Char) : normLit (normLit s) = normLit s := fixIter_idem toUnix_shrinks s
theorem normComment_idem (s : List Char) : normComment (normComment s) = normComment s :=
  fixIter_idem commentStep_shrinks s

theorem normLeaf_idem (t : Tok) : normLeaf (normLeaf t) = normLeaf t := by
  obtain ⟨k, s⟩ := t
  cases k <;> simp [normLeaf, normLit_idem, normComment_idem]

/-- Head of `toWindows s` is never a bare `\n`. -/
theorem toWindows_head_ne_lf : ∀ (s : List Char) (r : List Char), toWindows s ≠ '\n' :: r
  | [], r => by simp [toWindows]
  | [c], r => by
    simp only [toWindows]
    split
    · simp
    · next h => intro h'; simp only [List.cons.injEq] at h'; exact h h'.1
  | c :: d :: ds, r => by
    simp only [toWindows]
    split
    · simp
    · next h =>
      split
      · simp
      · intro h'; simp only [List.cons.injEq] at h'; exact h h'.1

theorem toWindows_cons_ne {c : Char} (hc : c ≠ '\n') (s : List Char)
    (hnot : ¬ (c = '\r' ∧ ∃ r, s = '\n' :: r)) : toWindows (c :: s) = c :: toWindows s := by
  cases s with
  | nil => simp [toWindows, hc]
  | cons d ds =>
    simp only [toWindows, hc, if_false]
    split
    · next h =>
      simp only [Bool.and_eq_true, decide_eq_true_eq] at h
      exact absurd ⟨h.1, ds, by rw [h.2]⟩ hnot
    · rfl

theorem toWindows_crlf (s : List Char) : toWindows ('\r' :: '\n' :: s) = '\r' :: '\n' :: toWindows s := by
  simp [toWindows]

theorem toWindows_lf (s : List Char) : toWindows ('\n' :: s) = '\r' :: '\n' :: toWindows s := by
  cases s with
  | nil => simp [toWindows]
  | cons d ds => simp [toWindows]

theorem toWindows_idem : ∀ s : List Char, toWindows (toWindows s) = toWindows s
  | [] => by simp [toWindows]
  | [c] => by
    by_cases hc : c = '\n'
    · subst hc; simp [toWindows]
    · simp [toWindows, hc]
  | c :: d :: ds => by
    by_cases hc : c = '\n'
    · subst hc
      rw [toWindows_lf, toWindows_crlf, toWindows_idem (d :: ds)]
    · by_cases hcr : c = '\r' ∧ d = '\n'
      · obtain ⟨h1, h2⟩ := hcr
        subst h1; subst h2
        rw [toWindows_crlf, toWindows_crlf, toWindows_idem ds]
      · have h1 : toWindows (c :: d :: ds) = c :: toWindows (d :: ds) := by
          apply toWindows_cons_ne hc
          rintro ⟨h1, r, h2⟩
          simp only [List.cons.injEq] at h2
          exact hcr ⟨h1, h2.1⟩
        rw [h1, toWindows_cons_ne hc, toWindows_idem (d :: ds)]
        rintro ⟨_, r, h2⟩
        exact toWindows_head_ne_lf _ _ h2

/-- No `\r\n` in the text. -/
def hasCRLF : List Char → Bool
  | [] => false
  | [_] => false
  | c :: d :: ds => (c = '\r' && d = '\n') || hasCRLF (d :: ds)

theorem toUnix_of_noCRLF : ∀ s : List Char, hasCRLF s = false → toUnix s = s
  | [], _ => rfl
  | [c], _ => rfl
  | c :: d :: ds, h => by
    simp only [hasCRLF, Bool.or_eq_false_iff] at h
    simp only [toUnix, h.1]
    rw [toUnix_of_noCRLF (d :: ds) h.2]
    simp

theorem hasCRCRLF_cons (c : Char) (s : List Char) (h : hasCRCRLF (c :: s) = false) : hasCRCRLF s = false := by
  simp only [hasCRCRLF, Bool.or_eq_false_iff] at h
  exact h.2

/-- Without `\r\r\n` in the input the Unix conversion leaves no `\r\n`. -/
theorem toUnix_noCRLF : ∀ s : List Char, hasCRCRLF s = false → hasCRLF (toUnix s) = false
  | [], _ => rfl
  | [c], _ => rfl
  | c :: d :: ds, h => by
    simp only [toUnix]
    split
    · next hcd =>
      simp only [Bool.and_eq_true, decide_eq_true_eq] at hcd
      have hds : hasCRCRLF ds = false := hasCRCRLF_cons _ _ (hasCRCRLF_cons _ _ h)
      have ih := toUnix_noCRLF ds hds
      cases hds' : toUnix ds with
      | nil => simp [hasCRLF]
      | cons e es =>
        rw [hds'] at ih
        simp only [hasCRLF, ih, Bool.or_false, Bool.and_eq_false_iff, decide_eq_false_iff_not]
        left; decide
    · next hcd =>
      have htl : hasCRCRLF (d :: ds) = false := hasCRCRLF_cons _ _ h
      have ih := toUnix_noCRLF (d :: ds) htl
      cases hds' : toUnix (d :: ds) with
      | nil => simp [hasCRLF]
      | cons e es =>
        rw [hds'] at ih
        simp only [hasCRLF, ih, Bool.or_false, Bool.and_eq_false_iff, decide_eq_false_iff_not]
        -- `c = '\r'` and head of `toUnix (d :: ds)` = `'\n'` would need `d = '\r'` followed by `'\n'`: excluded by `h`
        by_cases hc : c = '\r'
        · right
          subst hc
          intro he
          subst he
          -- head of toUnix (d :: ds) is '\n'
          cases ds with
          | nil =>
            simp only [toUnix, List.cons.injEq] at hds'
            simp only [Bool.and_eq_true, decide_eq_true_eq, not_and] at hcd
            exact hcd trivial hds'.1
          | cons e' es' =>
            simp only [toUnix] at hds'
            split at hds'
            · next hde =>
              simp only [Bool.and_eq_true, decide_eq_true_eq] at hde
              simp only [hasCRCRLF, hde.1, hde.2, decide_true, Bool.and_self, Bool.true_or] at h
              exact absurd h (by decide)
            · simp only [List.cons.injEq] at hds'
              simp only [Bool.and_eq_true, decide_eq_true_eq, not_and] at hcd
              exact hcd trivial hds'.1
        · left; exact hc

theorem toUnix_idem_of_noCRCRLF (s : List Char) (h : hasCRCRLF s = false) : toUnix (toUnix s) = toUnix s :=
  toUnix_of_noCRLF _ (toUnix_noCRLF s h)

theorem eraseNewlines_cons_cr (s : List Char) : eraseNewlines ('\r' :: s) = eraseNewlines s := by
  simp [eraseNewlines]
theorem eraseNewlines_cons_lf (s : List Char) : eraseNewlines ('\n' :: s) = eraseNewlines s := by
  simp [eraseNewlines]
theorem eraseNewlines_cons (c : Char) (s : List Char) :
    eraseNewlines (c :: s) = if c ≠ '\r' ∧ c ≠ '\n' then c :: eraseNewlines s else eraseNewlines s := by
  simp only [eraseNewlines, List.filter_cons]
  by_cases h1 : c = '\r' <;> by_cases h2 : c = '\n' <;> simp [h1, h2]

theorem toUnix_erase : ∀ s : List Char, eraseNewlines (toUnix s) = eraseNewlines s
  | [] => rfl
  | [c] => rfl
  | c :: d :: ds => by
    simp only [toUnix]
    split
    · next h =>
      simp only [Bool.and_eq_true, decide_eq_true_eq] at h
      rw [h.1, h.2, eraseNewlines_cons_lf, eraseNewlines_cons_cr, eraseNewlines_cons_lf, toUnix_erase ds]
    · rw [eraseNewlines_cons, eraseNewlines_cons c, toUnix_erase (d :: ds)]

theorem toWindows_erase : ∀ s : List Char, eraseNewlines (toWindows s) = eraseNewlines s
  | [] => rfl
  | [c] => by
    simp only [toWindows]
    split
    · next h => subst h; simp [eraseNewlines]
    · rfl
  | c :: d :: ds => by
    simp only [toWindows]
    split
    · next h =>
      subst h
      rw [eraseNewlines_cons_cr, eraseNewlines_cons_lf, eraseNewlines_cons_lf, toWindows_erase (d :: ds)]
    · split
      · next h =>
        simp only [Bool.and_eq_true, decide_eq_true_eq] at h
        rw [h.1, h.2, eraseNewlines_cons_cr, eraseNewlines_cons_lf, eraseNewlines_cons_cr, eraseNewlines_cons_lf,
          toWindows_erase ds]
      · rw [eraseNewlines_cons, eraseNewlines_cons c, toWindows_erase (d :: ds)]

/-! ## The deleting pass -/

theorem stepGo_sublist : ∀ (ts : List Tok) (st : St), (stepGo st ts).Sublist ts
  | [], _ => by simp [stepGo]
  | t :: r, st => by
    simp only [stepGo]
    split
    · exact (stepGo_sublist r _).cons _
    · exact (stepGo_sublist r _).cons_cons _

theorem step_shrinks : Shrinks step := fun ts => stepGo_sublist ts _

theorem map_normLeaf_of_sublist {y ts : List Tok} (h : y.Sublist (ts.map normLeaf)) : y.map normLeaf = y := by
  have hall : ∀ t ∈ y, normLeaf t = t := by
    intro t ht
    have := h.subset ht
    obtain ⟨u, _, hu⟩ := List.mem_map.mp this
    rw [← hu, normLeaf_idem]
  calc y.map normLeaf = y.map id := List.map_congr_left hall
    _ = y := List.map_id y

end SwayVerif.FmtSpec
