import SwayVerif.Model.Storage
import SwayVerif.Lemmas.Storage
/-!
Helper lemmas for C28: the storage collections as slot machines vs lists / finite maps.
Core Lean only.
-/
namespace SwayVerif.Storage

/-! ## StorageMap -/

section
variable (H : List Nat → Nat)

/-- slots of two accesses do not meet -/
def SlotsApart (k1 n1 k2 n2 : Nat) : Prop := k1 + n1 ≤ k2 ∨ k2 + n2 ≤ k1

theorem span_zero (sz : Nat) : span 0 sz = (sz + 31) / 32 := by simp [span]

theorem mapGet_insert_same (st : Store) (fid : Nat) (kb v : List Nat) (r : Bool) (hpos : 0 < v.length)
    (hr : r = false → v.length ≤ 32) :
    mapGet H (mapInsert H st fid kb v r) fid kb v.length r = some v := by
  unfold mapGet mapInsert
  exact read_after_write st _ 0 v r hpos (by intro h; have := hr h; omega)

theorem mapGet_insert_other (st : Store) (fid fid' : Nat) (kb kb' v : List Nat) (r r' : Bool) (sz' : Nat)
    (hr : r = false → v.length ≤ 32) (hr' : r' = false → sz' ≤ 32)
    (hsep : SlotsApart (mapSlot H fid kb) ((v.length + 31) / 32) (mapSlot H fid' kb') ((sz' + 31) / 32)) :
    mapGet H (mapInsert H st fid kb v r) fid' kb' sz' r' = mapGet H st fid' kb' sz' r' := by
  unfold mapGet mapInsert
  apply write_frame_other st _ 0 v r (by intro h; have := hr h; omega) _ 0 sz' r'
    (by intro h; have := hr' h; omega)
  intro i hi
  simp only [span_zero, Nat.zero_div, Nat.add_zero] at hi ⊢
  unfold SlotsApart at hsep
  omega

theorem clearSlots_get (st : Store) (k n k' : Nat) :
    (clearSlots st k n).get k' = if k ≤ k' ∧ k' < k + n then none else st.get k' := rfl

theorem mapGet_remove_same (st : Store) (fid : Nat) (kb : List Nat) (sz : Nat) (r : Bool) (hpos : 0 < sz)
    (hr : r = false → sz ≤ 32) :
    mapGet H (mapRemove H st fid kb sz r).1 fid kb sz r = none := by
  unfold mapGet mapRemove clearQuads
  have hz : sz ≠ 0 := by omega
  have hr0 : r = false → 0 % 4 * 8 + sz ≤ 32 := by intro h; have := hr h; omega
  simp only [hz, if_false, slotCalc_eq _ 0 sz r hpos hr0]
  rw [readQuads_eq _ _ 0 sz r hpos hr0]
  have hsp : 0 < span 0 sz := by rw [span_zero]; omega
  have : allSet (clearSlots st (mapSlot H fid kb + 0 / 4) (span 0 sz)) (mapSlot H fid kb + 0 / 4) (span 0 sz) = false := by
    cases h : allSet (clearSlots st (mapSlot H fid kb + 0 / 4) (span 0 sz)) (mapSlot H fid kb + 0 / 4) (span 0 sz) with
    | false => rfl
    | true =>
      rw [allSet_iff] at h
      have := h 0 hsp
      simp [clearSlots_get, hsp] at this
  rw [this]; simp

theorem mapGet_remove_other (st : Store) (fid fid' : Nat) (kb kb' : List Nat) (r r' : Bool) (sz sz' : Nat)
    (hr : r = false → sz ≤ 32) (hr' : r' = false → sz' ≤ 32)
    (hsep : SlotsApart (mapSlot H fid kb) ((sz + 31) / 32) (mapSlot H fid' kb') ((sz' + 31) / 32)) :
    mapGet H (mapRemove H st fid kb sz r).1 fid' kb' sz' r' = mapGet H st fid' kb' sz' r' := by
  unfold mapGet mapRemove clearQuads
  by_cases hz : sz = 0
  · simp [hz]
  · have hr0 : r = false → 0 % 4 * 8 + sz ≤ 32 := by intro h; have := hr h; omega
    have hr0' : r' = false → 0 % 4 * 8 + sz' ≤ 32 := by intro h; have := hr' h; omega
    simp only [hz, if_false, slotCalc_eq _ 0 sz r (by omega) hr0]
    by_cases hz' : sz' = 0
    · simp [readQuads, hz']
    · apply readQuads_congr _ _ _ _ _ _ hr0'
      rw [slotCalc_eq _ 0 sz' r' (by omega) hr0']
      intro i hi
      simp only [span_zero, Nat.zero_div, Nat.add_zero] at hi ⊢
      rw [clearSlots_get, if_neg]
      unfold SlotsApart at hsep
      omega

/-- `remove` reports whether the key was present (all its slots set = the value reads back). -/
theorem mapRemove_flag (st : Store) (fid : Nat) (kb : List Nat) (sz : Nat) (r : Bool) (hpos : 0 < sz)
    (hr : r = false → sz ≤ 32) :
    (mapRemove H st fid kb sz r).2 = (mapGet H st fid kb sz r).isSome := by
  unfold mapGet mapRemove clearQuads
  have hz : sz ≠ 0 := by omega
  have hr0 : r = false → 0 % 4 * 8 + sz ≤ 32 := by intro h; have := hr h; omega
  simp only [hz, if_false, slotCalc_eq _ 0 sz r hpos hr0]
  rw [readQuads_eq _ _ 0 sz r hpos hr0]
  cases allSet st (mapSlot H fid kb + 0 / 4) (span 0 sz) <;> simp

end

/-! ## StorageVec: representation relation -/

section
variable (H : List Nat → Nat)

/-- The store represents the list `xs` (elements of `w` words) in vector field `fid`. -/
structure VecRep (st : Store) (fid w : Nat) (r : Bool) (xs : List (List Nat)) : Prop where
  len : readLen st fid = xs.length
  elems : ∀ i (h : i < xs.length), readQuads st (vecKey H fid) (i * w) (8 * w) r = some xs[i]

/-- Hash hypothesis for one vector: the length slot `fid` is not one of the first `ceil(W/4)`
element slots (`W` = words of element data in play). -/
def VecSep (fid W : Nat) : Prop := ∀ j, j < (8 * W + 31) / 32 → vecKey H fid + j ≠ fid

theorem VecSep_mono {fid W W' : Nat} (h : VecSep H fid W) (hle : W' ≤ W) : VecSep H fid W' := by
  intro j hj; exact h j (by omega)

theorem offsetCalc_words (w i : Nat) : offsetCalc (8 * w) i = i * w := by
  have : align8 (8 * w) = 8 * w := align8_of_mod (by omega)
  unfold offsetCalc
  rw [this, show i * (8 * w) = 8 * (i * w) by rw [Nat.mul_left_comm], Nat.mul_div_cancel_left _ (by omega)]

theorem elemSide {w : Nat} {r : Bool} (hr : r = false → w = 1) (m : Nat) : r = false → m % 4 * 8 + 8 * w ≤ 32 := by
  intro h; have := hr h; subst this; omega

theorem mul_succ_le {i j w : Nat} (h : i < j) : i * w + w ≤ j * w := by
  have : (i + 1) * w ≤ j * w := Nat.mul_le_mul_right w h
  rwa [Nat.add_mul, Nat.one_mul] at this

/-- the slots an element access spans lie inside the first `ceil(W/4)` element slots -/
theorem elem_slots_in (w m W i : Nat) (hm : m + w ≤ W) (hi : i < span m (8 * w)) (hw : 0 < w) :
    m / 4 + i < (8 * W + 31) / 32 := by
  simp only [span] at hi; omega

/-- a write of the length slot does not disturb element reads -/
theorem readElem_writeLen (st : Store) (fid w m n W : Nat) (r : Bool) (hw : 0 < w) (hr : r = false → w = 1)
    (hsep : VecSep H fid W) (hm : m + w ≤ W) :
    readQuads (writeLen st fid n) (vecKey H fid) m (8 * w) r = readQuads st (vecKey H fid) m (8 * w) r := by
  unfold writeLen
  apply write_frame_other st fid 0 (beBytes 8 n) false (by simp) _ m (8 * w) r (elemSide hr m)
  intro i hi
  simp only [beBytes_length, span_zero_8, Nat.zero_div, Nat.add_zero]
  have := hsep (m / 4 + i) (elem_slots_in w m W i hm hi hw)
  omega

/-- a write of an element does not disturb the length slot -/
theorem readLen_writeElem (st : Store) (fid w m W : Nat) (v : List Nat) (r : Bool) (hw : 0 < w) (hr : r = false → w = 1)
    (hv : v.length = 8 * w) (hsep : VecSep H fid W) (hm : m + w ≤ W) :
    readLen (writeQuads st (vecKey H fid) m v r) fid = readLen st fid := by
  unfold readLen
  have : readQuads (writeQuads st (vecKey H fid) m v r) fid 0 8 false = readQuads st fid 0 8 false := by
    apply write_frame_other st _ m v r (by rw [hv]; exact elemSide hr m) fid 0 8 false (by simp)
    intro i hi
    rw [span_zero_8] at hi
    have hi0 : i = 0 := by omega
    subst hi0
    rw [hv]
    intro hc
    have hlt : fid - vecKey H fid < (8 * W + 31) / 32 := by
      have := elem_slots_in w m W (fid - vecKey H fid - m / 4) hm (by omega) hw
      omega
    have := hsep (fid - vecKey H fid) hlt
    omega
  rw [this]

theorem vecGet_rep {st : Store} {fid w : Nat} {r : Bool} {xs : List (List Nat)}
    (h : VecRep H st fid w r xs) (i : Nat) : vecGet H st fid (8 * w) r i = some xs[i]? := by
  unfold vecGet
  simp only [h.len, offsetCalc_words]
  by_cases hi : xs.length ≤ i
  · simp [hi, List.getElem?_eq_none hi]
  · have hi' : i < xs.length := by omega
    simp [hi, h.elems i hi', List.getElem?_eq_getElem hi']

theorem vecPush_rep {st : Store} {fid w : Nat} {r : Bool} {xs : List (List Nat)} (v : List Nat)
    (hw : 0 < w) (hr : r = false → w = 1) (hv : v.length = 8 * w) (hL : xs.length + 1 < 2 ^ 64)
    (hsep : VecSep H fid ((xs.length + 1) * w)) (h : VecRep H st fid w r xs) :
    VecRep H (vecPush H st fid (8 * w) r v) fid w r (xs ++ [v]) := by
  unfold vecPush
  simp only [h.len, offsetCalc_words]
  have hcap : xs.length * w + w ≤ (xs.length + 1) * w := by rw [Nat.add_mul, Nat.one_mul]; omega
  constructor
  · rw [readLen_writeLen _ _ _ hL]; simp
  · intro i hi
    have hi' : i < xs.length + 1 := by simpa using hi
    have hiw : i * w + w ≤ (xs.length + 1) * w := mul_succ_le hi'
    rw [readElem_writeLen H _ fid w (i * w) _ _ r hw hr hsep hiw]
    by_cases hlt : i < xs.length
    · rw [List.getElem_append_left hlt]
      apply write_frame _ _ _ v r (by omega) (by rw [hv]; exact elemSide hr _) _ _ r (by omega) (elemSide hr _)
      · left; have := mul_succ_le (w := w) hlt; omega
      · exact h.elems i hlt
    · have hie : i = xs.length := by omega
      subst hie
      rw [List.getElem_append_right (by omega)]
      simp only [Nat.sub_self, List.getElem_cons_zero]
      have := read_after_write st (vecKey H fid) (xs.length * w) v r (by omega) (by rw [hv]; exact elemSide hr _)
      rw [hv] at this
      exact this

theorem vecSet_rep {st : Store} {fid w : Nat} {r : Bool} {xs : List (List Nat)} (i : Nat) (v : List Nat)
    (hw : 0 < w) (hr : r = false → w = 1) (hv : v.length = 8 * w)
    (hsep : VecSep H fid (xs.length * w)) (h : VecRep H st fid w r xs) (hi : i < xs.length) :
    ∃ st', vecSet H st fid (8 * w) r i v = some st' ∧ VecRep H st' fid w r (xs.set i v) := by
  unfold vecSet
  simp only [h.len, hi, if_true, offsetCalc_words]
  refine ⟨_, rfl, ?_, ?_⟩
  · rw [readLen_writeElem H st fid w (i * w) _ v r hw hr hv hsep (mul_succ_le hi)]
    simp [h.len]
  · intro j hj
    have hj' : j < xs.length := by simpa using hj
    by_cases hji : i = j
    · subst hji
      simp only [List.getElem_set_self]
      have := read_after_write st (vecKey H fid) (i * w) v r (by omega) (by rw [hv]; exact elemSide hr _)
      rw [hv] at this
      exact this
    · rw [List.getElem_set_ne hji]
      apply write_frame _ _ _ v r (by omega) (by rw [hv]; exact elemSide hr _) _ _ r (by omega) (elemSide hr _)
      · rcases Nat.lt_or_gt_of_ne hji with hlt | hgt
        · right; have := mul_succ_le (w := w) hlt; omega
        · left; have := mul_succ_le (w := w) hgt; omega
      · exact h.elems j hj'

theorem vecSet_oob {st : Store} {fid w : Nat} {r : Bool} {xs : List (List Nat)} (i : Nat) (v : List Nat)
    (h : VecRep H st fid w r xs) (hi : ¬ i < xs.length) : vecSet H st fid (8 * w) r i v = none := by
  unfold vecSet; simp [h.len, hi]

theorem vecPop_rep {st : Store} {fid w : Nat} {r : Bool} {xs : List (List Nat)}
    (hw : 0 < w) (hr : r = false → w = 1) (hL : xs.length < 2 ^ 64)
    (hsep : VecSep H fid (xs.length * w)) (h : VecRep H st fid w r xs) :
    (vecPop H st fid (8 * w) r).2 = xs.getLast? ∧ VecRep H (vecPop H st fid (8 * w) r).1 fid w r xs.dropLast := by
  unfold vecPop
  simp only [h.len, offsetCalc_words]
  by_cases h0 : xs.length = 0
  · have : xs = [] := List.eq_nil_of_length_eq_zero h0
    subst this
    simp only [List.length_nil, if_true, List.getLast?_nil, List.dropLast_nil, true_and]
    exact h
  · simp only [h0, if_false]
    have hlast : xs.length - 1 < xs.length := by omega
    have hcap := mul_succ_le (w := w) hlast
    constructor
    · rw [readElem_writeLen H _ fid w _ _ _ r hw hr hsep hcap, h.elems _ hlast, List.getLast?_eq_getElem?,
        List.getElem?_eq_getElem hlast]
    · constructor
      · rw [readLen_writeLen _ _ _ (by omega)]; simp
      · intro i hi
        have hi' : i < xs.length - 1 := by simpa using hi
        have hi2 : i < xs.length := by omega
        rw [readElem_writeLen H _ fid w _ _ _ r hw hr hsep (mul_succ_le hi2), h.elems i hi2]
        simp [List.getElem_dropLast]

theorem allSet_one (st : Store) (k : Nat) : allSet st k 1 = (st.get k).isSome := by
  simp [allSet]

theorem readLen_unset (st : Store) (k : Nat) (h : st.get k = none) : readLen st k = 0 := by
  unfold readLen
  rw [readQuads_eq st k 0 8 false (by omega) (by simp)]
  simp [span_zero_8, allSet_one, h]

theorem vecClear_rep (st : Store) (fid w : Nat) (r : Bool) : VecRep H (vecClear st fid).1 fid w r [] := by
  unfold vecClear clearQuads
  simp only [show (8 : Nat) ≠ 0 by omega, if_false, slotCalc_eq fid 0 8 false (by omega) (by simp), span_zero_8]
  constructor
  · rw [readLen_unset]; · rfl
    simp [clearSlots_get]
  · intro i hi; simp at hi

end

/-! ## StorageVec: element array without the length (for the loops of `remove` / `insert`) -/

section
variable (H : List Nat → Nat)

def ElemsRep (st : Store) (fid w : Nat) (r : Bool) (ys : List (List Nat)) : Prop :=
  ∀ i (h : i < ys.length), readQuads st (vecKey H fid) (i * w) (8 * w) r = some ys[i]

/-- `st'` differs from `st` at most on the length slot and the first `ceil(W/4)` element slots. -/
def SameOutside (fid W : Nat) (st st' : Store) : Prop :=
  ∀ k', k' ≠ fid → ¬ (vecKey H fid ≤ k' ∧ k' < vecKey H fid + (8 * W + 31) / 32) → st'.get k' = st.get k'

theorem SameOutside.refl (fid W : Nat) (st : Store) : SameOutside H fid W st st := fun _ _ _ => rfl

theorem SameOutside.trans {fid W : Nat} {a b c : Store} (h1 : SameOutside H fid W a b) (h2 : SameOutside H fid W b c) :
    SameOutside H fid W a c := fun k' hk hn => (h2 k' hk hn).trans (h1 k' hk hn)

theorem SameOutside.mono {fid W W' : Nat} {a b : Store} (h : SameOutside H fid W a b) (hle : W ≤ W') :
    SameOutside H fid W' a b := fun k' hk hn => h k' hk (by omega)

theorem sameOutside_writeElem (st : Store) (fid w m W : Nat) (v : List Nat) (r : Bool) (hw : 0 < w)
    (hr : r = false → w = 1) (hv : v.length = 8 * w) (hm : m + w ≤ W) :
    SameOutside H fid W st (writeQuads st (vecKey H fid) m v r) := by
  intro k' _ hn
  apply writeQuads_get_other st _ m v r (by rw [hv]; exact elemSide hr m)
  rw [hv]
  intro hc
  have := elem_slots_in w m W (k' - vecKey H fid - m / 4) hm (by omega) hw
  omega

theorem sameOutside_writeLen (st : Store) (fid W n : Nat) : SameOutside H fid W st (writeLen st fid n) :=
  fun k' hk _ => writeLen_get_other st fid n k' hk

theorem readQuads_length {st : Store} {k off sz : Nat} {r : Bool} {x : List Nat}
    (h : readQuads st k off sz r = some x) : x.length = sz := by
  unfold readQuads at h
  by_cases hz : sz = 0
  · simp [hz] at h
  · simp only [hz, if_false] at h
    generalize slotCalc k off sz r = sc at h
    obtain ⟨os, n, place⟩ := sc
    simp only [] at h
    by_cases ha : allSet st os n = true
    · rw [if_pos ha] at h; cases h; simp
    · rw [if_neg ha] at h; cases h

theorem ElemsRep.length {st : Store} {fid w : Nat} {r : Bool} {ys : List (List Nat)}
    (h : ElemsRep H st fid w r ys) (i : Nat) (hi : i < ys.length) : ys[i].length = 8 * w :=
  readQuads_length (h i hi)

theorem elems_set {st : Store} {fid w : Nat} {r : Bool} {ys : List (List Nat)} (i : Nat) (v : List Nat)
    (hw : 0 < w) (hr : r = false → w = 1) (hv : v.length = 8 * w) (h : ElemsRep H st fid w r ys) :
    ElemsRep H (writeQuads st (vecKey H fid) (i * w) v r) fid w r (ys.set i v) := by
  intro j hj
  have hj' : j < ys.length := by simpa using hj
  by_cases hji : i = j
  · subst hji
    simp only [List.getElem_set_self]
    have := read_after_write st (vecKey H fid) (i * w) v r (by omega) (by rw [hv]; exact elemSide hr _)
    rw [hv] at this
    exact this
  · rw [List.getElem_set_ne hji]
    apply write_frame _ _ _ v r (by omega) (by rw [hv]; exact elemSide hr _) _ _ r (by omega) (elemSide hr _)
    · rcases Nat.lt_or_gt_of_ne hji with hlt | hgt
      · right; have := mul_succ_le (w := w) hlt; omega
      · left; have := mul_succ_le (w := w) hgt; omega
    · exact h j hj'

theorem elems_append {st : Store} {fid w : Nat} {r : Bool} {ys : List (List Nat)} (v : List Nat)
    (hw : 0 < w) (hr : r = false → w = 1) (hv : v.length = 8 * w) (h : ElemsRep H st fid w r ys) :
    ElemsRep H (writeQuads st (vecKey H fid) (ys.length * w) v r) fid w r (ys ++ [v]) := by
  intro i hi
  have hi' : i < ys.length + 1 := by simpa using hi
  by_cases hlt : i < ys.length
  · rw [List.getElem_append_left hlt]
    apply write_frame _ _ _ v r (by omega) (by rw [hv]; exact elemSide hr _) _ _ r (by omega) (elemSide hr _)
    · left; have := mul_succ_le (w := w) hlt; omega
    · exact h i hlt
  · have hie : i = ys.length := by omega
    subst hie
    rw [List.getElem_append_right (by omega)]
    simp only [Nat.sub_self, List.getElem_cons_zero]
    have := read_after_write st (vecKey H fid) (ys.length * w) v r (by omega) (by rw [hv]; exact elemSide hr _)
    rw [hv] at this
    exact this

theorem elems_writeLen {st : Store} {fid w : Nat} {r : Bool} {ys : List (List Nat)} (n : Nat)
    (hw : 0 < w) (hr : r = false → w = 1) (hsep : VecSep H fid (ys.length * w)) (h : ElemsRep H st fid w r ys) :
    ElemsRep H (writeLen st fid n) fid w r ys := by
  intro i hi
  rw [readElem_writeLen H _ fid w (i * w) _ _ r hw hr hsep (mul_succ_le hi)]
  exact h i hi

theorem elems_take {st : Store} {fid w : Nat} {r : Bool} {ys : List (List Nat)} (n : Nat)
    (h : ElemsRep H st fid w r ys) : ElemsRep H st fid w r (ys.take n) := by
  intro i hi
  have hi' : i < ys.length := by simp at hi; omega
  rw [h i hi']; simp

theorem vecRep_iff {st : Store} {fid w : Nat} {r : Bool} {xs : List (List Nat)} :
    VecRep H st fid w r xs ↔ readLen st fid = xs.length ∧ ElemsRep H st fid w r xs :=
  ⟨fun h => ⟨h.len, h.elems⟩, fun h => ⟨h.1, h.2⟩⟩

/-! ### `remove`: the shift-down loop -/

def shiftDownL (xs : List (List Nat)) : Nat → Nat → List (List Nat)
  | 0, _ => xs
  | fuel + 1, count => match xs[count]? with
    | some x => shiftDownL (xs.set (count - 1) x) fuel (count + 1)
    | none => xs

theorem shiftDownL_length (xs : List (List Nat)) (fuel count : Nat) : (shiftDownL xs fuel count).length = xs.length := by
  induction fuel generalizing xs count with
  | zero => rfl
  | succ f ih =>
    simp only [shiftDownL]
    cases xs[count]? with
    | none => rfl
    | some x => simp only []; rw [ih]; simp

theorem shiftDown_rep (fid w : Nat) (r : Bool) (hw : 0 < w) (hr : r = false → w = 1) :
    ∀ (fuel count : Nat) (st : Store) (ys : List (List Nat)), ElemsRep H st fid w r ys → 1 ≤ count →
      count + fuel ≤ ys.length → VecSep H fid (ys.length * w) →
      ∃ st', shiftDown st (vecKey H fid) (8 * w) r fuel count = some st' ∧
        ElemsRep H st' fid w r (shiftDownL ys fuel count) ∧ readLen st' fid = readLen st fid ∧
        SameOutside H fid (ys.length * w) st st'
  | 0, _, st, ys, h, _, _, _ => ⟨st, rfl, h, rfl, SameOutside.refl H _ _ _⟩
  | fuel + 1, count, st, ys, h, hc, hb, hsep => by
    have hcl : count < ys.length := by omega
    simp only [shiftDown, offsetCalc_words, h count hcl, shiftDownL, List.getElem?_eq_getElem hcl]
    have hvl := h.length H count hcl
    have hset := elems_set H (count - 1) ys[count] hw hr hvl h
    have hlen : (ys.set (count - 1) ys[count]).length = ys.length := by simp
    obtain ⟨st', e1, e2, e3, e4⟩ := shiftDown_rep fid w r hw hr fuel (count + 1) _ _ hset (by omega) (by rw [hlen]; omega)
      (by rw [hlen]; exact hsep)
    refine ⟨st', e1, e2, ?_, ?_⟩
    · rw [e3]
      exact readLen_writeElem H st fid w _ _ _ r hw hr hvl hsep (mul_succ_le (by omega : count - 1 < ys.length))
    · rw [hlen] at e4
      exact SameOutside.trans H (sameOutside_writeElem H st fid w _ _ _ r hw hr hvl
        (mul_succ_le (by omega : count - 1 < ys.length))) e4

theorem shiftDownL_getElem? : ∀ (fuel count : Nat) (xs : List (List Nat)) (p : Nat), 1 ≤ count → count + fuel ≤ xs.length →
    (shiftDownL xs fuel count)[p]? = if count - 1 ≤ p ∧ p < count - 1 + fuel then xs[p + 1]? else xs[p]?
  | 0, count, xs, p, _, _ => by
    have : ¬ (count - 1 ≤ p ∧ p < count - 1 + 0) := by omega
    simp only [shiftDownL, if_neg this]
  | fuel + 1, count, xs, p, hc, hb => by
    have hcl : count < xs.length := by omega
    simp only [shiftDownL, List.getElem?_eq_getElem hcl]
    rw [shiftDownL_getElem? fuel (count + 1) _ p (by omega) (by simp; omega)]
    simp only [Nat.add_sub_cancel]
    by_cases h1 : count ≤ p ∧ p < count + fuel
    · have h2 : count - 1 ≤ p ∧ p < count - 1 + (fuel + 1) := by omega
      rw [if_pos h1, if_pos h2, List.getElem?_set_ne (by omega)]
    · rw [if_neg h1]
      by_cases h3 : p = count - 1
      · have h2 : count - 1 ≤ p ∧ p < count - 1 + (fuel + 1) := by omega
        have e : p + 1 = count := by omega
        rw [if_pos h2, h3, List.getElem?_set_self (by omega), ← h3, e, List.getElem?_eq_getElem hcl]
      · have h2 : ¬ (count - 1 ≤ p ∧ p < count - 1 + (fuel + 1)) := by omega
        rw [if_neg h2, List.getElem?_set_ne (by omega)]

theorem shiftDownL_erase (xs : List (List Nat)) (i : Nat) (hi : i < xs.length) :
    (shiftDownL xs (xs.length - (i + 1)) (i + 1)).dropLast = xs.eraseIdx i := by
  apply List.ext_getElem?
  intro p
  rw [List.getElem?_dropLast, shiftDownL_length, List.getElem?_eraseIdx]
  by_cases hp : p < xs.length - 1
  · rw [if_pos hp, shiftDownL_getElem? _ _ _ _ (by omega) (by omega)]
    simp only [Nat.add_sub_cancel]
    by_cases hpi : p < i
    · rw [if_pos hpi, if_neg (by omega)]
    · rw [if_neg hpi, if_pos (by omega)]
  · rw [if_neg hp]
    by_cases hpi : p < i
    · omega
    · rw [if_neg hpi, List.getElem?_eq_none (by omega)]

end

/-! ### whole operations on `VecRep` -/

section
variable (H : List Nat → Nat)

theorem vecRemove_rep {st : Store} {fid w : Nat} {r : Bool} {xs : List (List Nat)} (i : Nat)
    (hw : 0 < w) (hr : r = false → w = 1) (hL : xs.length < 2 ^ 64)
    (hsep : VecSep H fid (xs.length * w)) (h : VecRep H st fid w r xs) (hi : i < xs.length) :
    ∃ st', vecRemove H st fid (8 * w) r i = some (st', xs[i]) ∧ VecRep H st' fid w r (xs.eraseIdx i) ∧
      SameOutside H fid (xs.length * w) st st' := by
  obtain ⟨st1, e1, e2, e3, e4⟩ := shiftDown_rep H fid w r hw hr (xs.length - (i + 1)) (i + 1) st xs h.elems
    (by omega) (by omega) hsep
  refine ⟨writeLen st1 fid (xs.length - 1), ?_, ?_, ?_⟩
  · unfold vecRemove
    simp only [h.len, hi, not_true_eq_false, if_false, offsetCalc_words, h.elems i hi, e1]
  · rw [vecRep_iff]
    constructor
    · rw [readLen_writeLen _ _ _ (by omega), List.length_eraseIdx_of_lt hi]
    · rw [← shiftDownL_erase xs i hi, List.dropLast_eq_take]
      apply elems_take
      apply elems_writeLen H _ hw hr _ e2
      rw [shiftDownL_length]; exact hsep
  · exact SameOutside.trans H e4 (sameOutside_writeLen H st1 fid _ _)

theorem vecRemove_oob {st : Store} {fid w : Nat} {r : Bool} {xs : List (List Nat)} (i : Nat)
    (h : VecRep H st fid w r xs) (hi : ¬ i < xs.length) : vecRemove H st fid (8 * w) r i = none := by
  unfold vecRemove; simp [h.len, hi]

theorem vecSwap_rep {st : Store} {fid w : Nat} {r : Bool} {xs : List (List Nat)} (i j : Nat)
    (hw : 0 < w) (hr : r = false → w = 1)
    (hsep : VecSep H fid (xs.length * w)) (h : VecRep H st fid w r xs) (hi : i < xs.length) (hj : j < xs.length) :
    ∃ st', vecSwap H st fid (8 * w) r i j = some st' ∧ VecRep H st' fid w r (swapList xs i j) ∧
      SameOutside H fid (xs.length * w) st st' := by
  unfold vecSwap
  simp only [h.len, hi, hj, and_self, not_true_eq_false, if_false, offsetCalc_words]
  by_cases hij : i = j
  · subst hij
    refine ⟨st, by simp, ?_, SameOutside.refl H _ _ _⟩
    have : swapList xs i i = xs := by
      simp [swapList, List.getElem?_eq_getElem hi]
    rw [this]; exact h
  · simp only [hij, if_false, h.elems i hi, h.elems j hj]
    have hli := ElemsRep.length H h.elems i hi
    have hlj := ElemsRep.length H h.elems j hj
    refine ⟨_, rfl, ?_, ?_⟩
    · rw [vecRep_iff]
      constructor
      · rw [readLen_writeElem H _ fid w (j * w) _ _ r hw hr hli hsep (mul_succ_le hj),
          readLen_writeElem H _ fid w (i * w) _ _ r hw hr hlj hsep (mul_succ_le hi), h.len]
        simp [swapList, List.getElem?_eq_getElem hi, List.getElem?_eq_getElem hj]
      · have e1 := elems_set H i xs[j] hw hr hlj h.elems
        have e2 := elems_set H j xs[i] hw hr hli e1
        simpa [swapList, List.getElem?_eq_getElem hi, List.getElem?_eq_getElem hj] using e2
    · exact SameOutside.trans H (sameOutside_writeElem H st fid w _ _ _ r hw hr hlj (mul_succ_le hi))
        (sameOutside_writeElem H _ fid w _ _ _ r hw hr hli (mul_succ_le hj))

theorem vecSwap_oob {st : Store} {fid w : Nat} {r : Bool} {xs : List (List Nat)} (i j : Nat)
    (h : VecRep H st fid w r xs) (hi : ¬ (i < xs.length ∧ j < xs.length)) : vecSwap H st fid (8 * w) r i j = none := by
  unfold vecSwap; simp only [h.len, hi, not_false_eq_true, if_true]

theorem vecSwapRemove_rep {st : Store} {fid w : Nat} {r : Bool} {xs : List (List Nat)} (i : Nat)
    (hw : 0 < w) (hr : r = false → w = 1) (hL : xs.length < 2 ^ 64)
    (hsep : VecSep H fid (xs.length * w)) (h : VecRep H st fid w r xs) (hi : i < xs.length) :
    ∃ st' l, xs.getLast? = some l ∧ vecSwapRemove H st fid (8 * w) r i = some (st', xs[i]) ∧
      VecRep H st' fid w r ((xs.set i l).dropLast) ∧ SameOutside H fid (xs.length * w) st st' := by
  have hlast : xs.length - 1 < xs.length := by omega
  have hll := ElemsRep.length H h.elems _ hlast
  refine ⟨writeLen (writeQuads st (vecKey H fid) (i * w) xs[xs.length - 1] r) fid (xs.length - 1),
    xs[xs.length - 1], ?_, ?_, ?_, ?_⟩
  · rw [List.getLast?_eq_getElem?, List.getElem?_eq_getElem hlast]
  · unfold vecSwapRemove
    simp only [h.len, hi, not_true_eq_false, if_false, offsetCalc_words, h.elems i hi, h.elems _ hlast]
  · rw [vecRep_iff]
    constructor
    · rw [readLen_writeLen _ _ _ (by omega)]; simp
    · rw [List.dropLast_eq_take]
      apply elems_take
      apply elems_writeLen H _ hw hr (by simpa using hsep)
      exact elems_set H i _ hw hr hll h.elems
  · exact SameOutside.trans H (sameOutside_writeElem H st fid w _ _ _ r hw hr hll (mul_succ_le hi))
      (sameOutside_writeLen H _ fid _ _)

theorem vecSwapRemove_oob {st : Store} {fid w : Nat} {r : Bool} {xs : List (List Nat)} (i : Nat)
    (h : VecRep H st fid w r xs) (hi : ¬ i < xs.length) : vecSwapRemove H st fid (8 * w) r i = none := by
  unfold vecSwapRemove; simp [h.len, hi]

/-! ### `insert`: the shift-up loop -/

def shiftUpL (xs : List (List Nat)) : Nat → Nat → List (List Nat)
  | 0, _ => xs
  | fuel + 1, count => match xs[count]? with
    | some x => shiftUpL (xs.set (count + 1) x) fuel (count - 1)
    | none => xs

theorem shiftUpL_length (xs : List (List Nat)) (fuel count : Nat) : (shiftUpL xs fuel count).length = xs.length := by
  induction fuel generalizing xs count with
  | zero => rfl
  | succ f ih =>
    simp only [shiftUpL]
    cases xs[count]? with
    | none => rfl
    | some x => simp only []; rw [ih]; simp

theorem shiftUp_rep (fid w : Nat) (r : Bool) (hw : 0 < w) (hr : r = false → w = 1) :
    ∀ (fuel count : Nat) (st : Store) (ys : List (List Nat)), ElemsRep H st fid w r ys → count + 1 < ys.length →
      fuel ≤ count + 1 → VecSep H fid (ys.length * w) →
      ∃ st', shiftUp st (vecKey H fid) (8 * w) r fuel count = some st' ∧
        ElemsRep H st' fid w r (shiftUpL ys fuel count) ∧ readLen st' fid = readLen st fid ∧
        SameOutside H fid (ys.length * w) st st'
  | 0, _, st, ys, h, _, _, _ => ⟨st, rfl, h, rfl, SameOutside.refl H _ _ _⟩
  | fuel + 1, count, st, ys, h, hc, hb, hsep => by
    have hcl : count < ys.length := by omega
    simp only [shiftUp, offsetCalc_words, h count hcl, shiftUpL, List.getElem?_eq_getElem hcl]
    have hvl := h.length H count hcl
    have hset := elems_set H (count + 1) ys[count] hw hr hvl h
    have hlen : (ys.set (count + 1) ys[count]).length = ys.length := by simp
    obtain ⟨st', e1, e2, e3, e4⟩ := shiftUp_rep fid w r hw hr fuel (count - 1) _ _ hset (by rw [hlen]; omega) (by omega)
      (by rw [hlen]; exact hsep)
    refine ⟨st', e1, e2, ?_, ?_⟩
    · rw [e3]
      exact readLen_writeElem H st fid w _ _ _ r hw hr hvl hsep (mul_succ_le hc)
    · rw [hlen] at e4
      exact SameOutside.trans H (sameOutside_writeElem H st fid w _ _ _ r hw hr hvl (mul_succ_le hc)) e4

theorem shiftUpL_getElem? : ∀ (fuel count : Nat) (xs : List (List Nat)) (p : Nat), count + 1 < xs.length → fuel ≤ count + 1 →
    (shiftUpL xs fuel count)[p]? = if count + 1 - fuel + 1 ≤ p ∧ p ≤ count + 1 then xs[p - 1]? else xs[p]?
  | 0, count, xs, p, _, _ => by
    have : ¬ (count + 1 - 0 + 1 ≤ p ∧ p ≤ count + 1) := by omega
    simp only [shiftUpL, if_neg this]
  | fuel + 1, count, xs, p, hc, hb => by
    have hcl : count < xs.length := by omega
    simp only [shiftUpL, List.getElem?_eq_getElem hcl]
    rw [shiftUpL_getElem? fuel (count - 1) _ p (by simp; omega) (by omega)]
    by_cases h1 : count - 1 + 1 - fuel + 1 ≤ p ∧ p ≤ count - 1 + 1
    · have h2 : count + 1 - (fuel + 1) + 1 ≤ p ∧ p ≤ count + 1 := by omega
      rw [if_pos h1, if_pos h2, List.getElem?_set_ne (by omega)]
    · rw [if_neg h1]
      by_cases h3 : p = count + 1
      · have h2 : count + 1 - (fuel + 1) + 1 ≤ p ∧ p ≤ count + 1 := by omega
        have e : p - 1 = count := by omega
        rw [if_pos h2, h3, List.getElem?_set_self (by omega), ← h3, e, List.getElem?_eq_getElem hcl]
      · have h2 : ¬ (count + 1 - (fuel + 1) + 1 ≤ p ∧ p ≤ count + 1) := by omega
        rw [if_neg h2, List.getElem?_set_ne (by omega)]

theorem insert_list_eq (xs : List (List Nat)) (i : Nat) (v l : List Nat) (hi : i < xs.length)
    (hl : xs[xs.length - 1]? = some l) :
    (shiftUpL (xs ++ [l]) (xs.length - i - 1) (xs.length - 2)).set i v = xs.take i ++ v :: xs.drop i := by
  apply List.ext_getElem?
  intro p
  have hlen : (xs ++ [l]).length = xs.length + 1 := by simp
  have hmin : min i xs.length = i := Nat.min_eq_left (Nat.le_of_lt hi)
  have htl : (xs.take i).length = i := by rw [List.length_take, hmin]
  by_cases hpi : p = i
  · have hR : (xs.take i ++ v :: xs.drop i)[p]? = some v := by
      rw [List.getElem?_append_right (by rw [htl]; omega), htl, hpi]; simp
    rw [hR, hpi, List.getElem?_set_self (by rw [shiftUpL_length, hlen]; omega)]
  · rw [List.getElem?_set_ne (by omega), shiftUpL_getElem? _ _ _ _ (by rw [hlen]; omega) (by omega)]
    by_cases hlt : p < i
    · have hR : (xs.take i ++ v :: xs.drop i)[p]? = xs[p]? := by
        rw [List.getElem?_append_left (by rw [htl]; omega), List.getElem?_take, if_pos hlt]
      have hc : ¬ (xs.length - 2 + 1 - (xs.length - i - 1) + 1 ≤ p ∧ p ≤ xs.length - 2 + 1) := by omega
      rw [hR, if_neg hc, List.getElem?_append_left (by omega)]
    · have hgt : i < p := by omega
      have hR : (xs.take i ++ v :: xs.drop i)[p]? = xs[p - 1]? := by
        rw [List.getElem?_append_right (by rw [htl]; omega), htl]
        have e : p - i = (p - i - 1) + 1 := by omega
        rw [e, List.getElem?_cons_succ, List.getElem?_drop]
        have e2 : i + (p - i - 1) = p - 1 := by omega
        rw [e2]
      rw [hR]
      by_cases hpl : p < xs.length
      · have hc : xs.length - 2 + 1 - (xs.length - i - 1) + 1 ≤ p ∧ p ≤ xs.length - 2 + 1 := by omega
        rw [if_pos hc, List.getElem?_append_left (by omega)]
      · have hc : ¬ (xs.length - 2 + 1 - (xs.length - i - 1) + 1 ≤ p ∧ p ≤ xs.length - 2 + 1) := by omega
        rw [if_neg hc]
        by_cases hpe : p = xs.length
        · rw [hpe, List.getElem?_append_right (by omega), hl]; simp
        · rw [List.getElem?_eq_none (by rw [hlen]; omega), List.getElem?_eq_none (by omega)]

theorem vecInsert_rep {st : Store} {fid w : Nat} {r : Bool} {xs : List (List Nat)} (i : Nat) (v : List Nat)
    (hw : 0 < w) (hr : r = false → w = 1) (hv : v.length = 8 * w) (hL : xs.length + 1 < 2 ^ 64)
    (hsep : VecSep H fid ((xs.length + 1) * w)) (h : VecRep H st fid w r xs) (hi : i ≤ xs.length) :
    ∃ st', vecInsert H st fid (8 * w) r i v = some st' ∧ VecRep H st' fid w r (xs.take i ++ v :: xs.drop i) ∧
      SameOutside H fid ((xs.length + 1) * w) st st' := by
  have hcap : xs.length * w ≤ (xs.length + 1) * w := Nat.mul_le_mul_right w (by omega)
  have hsep0 := VecSep_mono H hsep hcap
  unfold vecInsert
  simp only [h.len, hi, not_true_eq_false, if_false, offsetCalc_words]
  by_cases hie : xs.length = i
  · subst hie
    simp only [if_true]
    refine ⟨_, rfl, ?_, ?_⟩
    · have hp := vecPush_rep H v hw hr hv hL hsep h
      unfold vecPush at hp
      simp only [h.len, offsetCalc_words] at hp
      simpa using hp
    · exact SameOutside.trans H
        (sameOutside_writeElem H st fid w _ _ _ r hw hr hv (by rw [Nat.add_mul, Nat.one_mul]; omega))
        (sameOutside_writeLen H _ fid _ _)
  · have hilt : i < xs.length := by omega
    simp only [hie, if_false]
    have hlast : xs.length - 1 < xs.length := by omega
    have hll := ElemsRep.length H h.elems _ hlast
    -- first iteration: copy the last element one position up (append)
    have hfuel : xs.length - i = (xs.length - i - 1) + 1 := by omega
    rw [hfuel]
    simp only [shiftUp, offsetCalc_words, h.elems _ hlast]
    have e0 : xs.length - 1 + 1 = xs.length := by omega
    rw [e0]
    have ha := elems_append H xs[xs.length - 1] hw hr hll h.elems
    have hlen : (xs ++ [xs[xs.length - 1]]).length = xs.length + 1 := by simp
    have e1 : xs.length - 1 - 1 = xs.length - 2 := by omega
    rw [e1]
    obtain ⟨st1, f1, f2, f3, f4⟩ := shiftUp_rep H fid w r hw hr (xs.length - i - 1) (xs.length - 2) _ _ ha
      (by rw [hlen]; omega) (by omega) (by rw [hlen]; exact hsep)
    rw [f1]
    simp only []
    refine ⟨_, rfl, ?_, ?_⟩
    · rw [vecRep_iff]
      constructor
      · rw [readLen_writeLen _ _ _ hL]
        simp; omega
      · rw [← insert_list_eq xs i v xs[xs.length - 1] hilt (List.getElem?_eq_getElem hlast)]
        apply elems_writeLen H _ hw hr
        · simp only [List.length_set, shiftUpL_length, hlen]; exact hsep
        · exact elems_set H i v hw hr hv f2
    · rw [hlen] at f4
      refine SameOutside.trans H (SameOutside.trans H (SameOutside.trans H ?_ f4) ?_) (sameOutside_writeLen H _ fid _ _)
      · exact sameOutside_writeElem H st fid w _ _ _ r hw hr hll (by rw [Nat.add_mul, Nat.one_mul]; omega)
      · exact sameOutside_writeElem H st1 fid w _ _ _ r hw hr hv
          (by have := mul_succ_le (w := w) (show i < xs.length + 1 by omega); omega)

theorem vecInsert_oob {st : Store} {fid w : Nat} {r : Bool} {xs : List (List Nat)} (i : Nat) (v : List Nat)
    (h : VecRep H st fid w r xs) (hi : ¬ i ≤ xs.length) : vecInsert H st fid (8 * w) r i v = none := by
  unfold vecInsert; simp [h.len, hi]

/-- A representation is untouched by any change of the store outside the field's own slots. -/
theorem VecRep_frame {st st' : Store} {fid w : Nat} {r : Bool} {xs : List (List Nat)} (hw : 0 < w)
    (hr : r = false → w = 1) (h : VecRep H st fid w r xs)
    (hfid : st'.get fid = st.get fid)
    (helems : ∀ j, j < (8 * (xs.length * w) + 31) / 32 → st'.get (vecKey H fid + j) = st.get (vecKey H fid + j)) :
    VecRep H st' fid w r xs := by
  constructor
  · rw [← h.len]
    unfold readLen
    have : readQuads st' fid 0 8 false = readQuads st fid 0 8 false := by
      apply readQuads_congr _ _ _ _ _ _ (by simp)
      rw [slotCalc_eq fid 0 8 false (by omega) (by simp), span_zero_8]
      intro i hi
      have : i = 0 := by simp only [] at hi; omega
      subst this; simpa using hfid
    rw [this]
  · intro i hi
    rw [← h.elems i hi]
    apply readQuads_congr _ _ _ _ _ _ (elemSide hr _)
    rw [slotCalc_eq _ (i * w) (8 * w) r (by omega) (elemSide hr _)]
    intro j hj
    have := elem_slots_in w (i * w) (xs.length * w) j (mul_succ_le hi) hj hw
    rw [Nat.add_assoc]
    exact helems _ this

end

/-! ## StorageBytes / StorageString -/

section
variable (H : List Nat → Nat)

/-- the length slot is not one of the data slots of a slice of `len` bytes -/
def SliceSep (fid len : Nat) : Prop := ∀ j, j < (len + 31) / 32 → H (keyBytes fid) + j ≠ fid

theorem sliceWrite_get_other (st : Store) (fid : Nat) (bs : List Nat) (k' : Nat) (h1 : k' ≠ fid)
    (h2 : ¬ (H (keyBytes fid) ≤ k' ∧ k' < H (keyBytes fid) + (bs.length + 31) / 32)) :
    (sliceWrite H st fid bs).get k' = st.get k' := by
  unfold sliceWrite
  rw [writeLen_get_other _ _ _ _ h1, storeQuad_get, if_neg h2]

theorem sliceLen_write (st : Store) (fid : Nat) (bs : List Nat) (hL : bs.length < 2 ^ 64) :
    sliceLen (sliceWrite H st fid bs) fid = bs.length := by
  unfold sliceLen sliceWrite
  exact readLen_writeLen _ _ _ hL

theorem sliceRead_write (st : Store) (fid : Nat) (bs : List Nat) (hL : bs.length < 2 ^ 64)
    (hsep : SliceSep H fid bs.length) :
    sliceRead H (sliceWrite H st fid bs) fid = if bs.length = 0 then none else some bs := by
  unfold sliceRead
  have hlen : readLen (sliceWrite H st fid bs) fid = bs.length := sliceLen_write H st fid bs hL
  rw [hlen]
  by_cases h0 : bs.length = 0
  · simp [h0]
  · rw [if_neg h0]
    cases hn : bs.length with
    | zero => omega
    | succ m =>
      simp only []
      rw [← hn]
      congr 1
      apply List.ext_getElem
      · simp
      · intro a h1 h2
        simp only [List.getElem_map, List.getElem_range]
        unfold sliceWrite
        have hne : H (keyBytes fid) + a / 32 ≠ fid := hsep _ (by omega)
        have e1 : loadBuf (writeLen (storeQuad st (H (keyBytes fid)) (fun a => bs.getD a 0) ((bs.length + 31) / 32)) fid bs.length)
            (H (keyBytes fid)) a
            = loadBuf (storeQuad st (H (keyBytes fid)) (fun a => bs.getD a 0) ((bs.length + 31) / 32)) (H (keyBytes fid)) a := by
          apply loadBuf_congr
          exact writeLen_get_other _ _ _ _ hne
        rw [e1, loadBuf_storeQuad, if_pos (by omega)]
        have e2 : 32 * (H (keyBytes fid) + a / 32 - H (keyBytes fid)) + a % 32 = a := by omega
        rw [e2]
        simp [List.getD, List.getElem?_eq_getElem h2]

theorem sliceRead_clear (st : Store) (fid : Nat) : sliceRead H (sliceClear st fid).1 fid = none ∧
    sliceLen (sliceClear st fid).1 fid = 0 := by
  have h : readLen (sliceClear st fid).1 fid = 0 := by
    unfold sliceClear clearQuads
    simp only [show (8 : Nat) ≠ 0 by omega, if_false, slotCalc_eq fid 0 8 false (by omega) (by simp), span_zero_8]
    rw [readLen_unset]
    simp [clearSlots_get]
  exact ⟨by unfold sliceRead; rw [h]; rfl, h⟩

end

/-! ## footprints of the remaining operations -/

section
variable (H : List Nat → Nat)

theorem vecPush_outside (st : Store) (fid w len : Nat) (r : Bool) (v : List Nat) (hw : 0 < w) (hr : r = false → w = 1)
    (hv : v.length = 8 * w) (hlen : readLen st fid = len) :
    SameOutside H fid ((len + 1) * w) st (vecPush H st fid (8 * w) r v) := by
  unfold vecPush
  simp only [hlen, offsetCalc_words]
  exact SameOutside.trans H
    (sameOutside_writeElem H st fid w _ _ _ r hw hr hv (by rw [Nat.add_mul, Nat.one_mul]; omega))
    (sameOutside_writeLen H _ fid _ _)

theorem vecSet_outside (st st' : Store) (fid w len i : Nat) (r : Bool) (v : List Nat) (hw : 0 < w) (hr : r = false → w = 1)
    (hv : v.length = 8 * w) (hlen : readLen st fid = len) (h : vecSet H st fid (8 * w) r i v = some st') :
    SameOutside H fid (len * w) st st' := by
  unfold vecSet at h
  simp only [hlen, offsetCalc_words] at h
  by_cases hi : i < len
  · simp only [hi, if_true, Option.some.injEq] at h
    subst h
    exact sameOutside_writeElem H st fid w _ _ _ r hw hr hv (mul_succ_le hi)
  · simp [hi] at h

theorem vecPop_outside (st : Store) (fid sz W : Nat) (r : Bool) :
    SameOutside H fid W st (vecPop H st fid sz r).1 := by
  unfold vecPop
  by_cases h0 : readLen st fid = 0
  · simp only [h0, if_true]; exact SameOutside.refl H _ _ _
  · simp only [h0, if_false]; exact sameOutside_writeLen H st fid _ _

theorem vecClear_outside (st : Store) (fid W : Nat) : SameOutside H fid W st (vecClear st fid).1 := by
  intro k' hk _
  unfold vecClear clearQuads
  simp only [show (8 : Nat) ≠ 0 by omega, if_false, slotCalc_eq fid 0 8 false (by omega) (by simp), span_zero_8]
  rw [clearSlots_get, if_neg (by omega)]

theorem mapInsert_get_other (st : Store) (fid : Nat) (kb v : List Nat) (r : Bool) (hr : r = false → v.length ≤ 32) (k' : Nat)
    (h : ¬ (mapSlot H fid kb ≤ k' ∧ k' < mapSlot H fid kb + (v.length + 31) / 32)) :
    (mapInsert H st fid kb v r).get k' = st.get k' := by
  unfold mapInsert
  apply writeQuads_get_other st _ 0 v r (by intro h; have := hr h; omega)
  simpa [span_zero] using h

theorem mapRemove_get_other (st : Store) (fid : Nat) (kb : List Nat) (sz : Nat) (r : Bool) (hr : r = false → sz ≤ 32) (k' : Nat)
    (h : ¬ (mapSlot H fid kb ≤ k' ∧ k' < mapSlot H fid kb + (sz + 31) / 32)) :
    (mapRemove H st fid kb sz r).1.get k' = st.get k' := by
  unfold mapRemove clearQuads
  by_cases hz : sz = 0
  · simp [hz]
  · simp only [hz, if_false, slotCalc_eq _ 0 sz r (by omega) (by intro h; have := hr h; omega)]
    rw [clearSlots_get, if_neg]
    simpa [span_zero] using h

theorem mapGet_frame (st st' : Store) (fid : Nat) (kb : List Nat) (sz : Nat) (r : Bool) (hr : r = false → sz ≤ 32)
    (h : ∀ j, j < (sz + 31) / 32 → st'.get (mapSlot H fid kb + j) = st.get (mapSlot H fid kb + j)) :
    mapGet H st' fid kb sz r = mapGet H st fid kb sz r := by
  unfold mapGet
  by_cases hz : sz = 0
  · simp [readQuads, hz]
  · have hr0 : r = false → 0 % 4 * 8 + sz ≤ 32 := by intro h; have := hr h; omega
    apply readQuads_congr _ _ _ _ _ _ hr0
    rw [slotCalc_eq _ 0 sz r (by omega) hr0]
    intro i hi
    simp only [span_zero, Nat.zero_div, Nat.add_zero] at hi ⊢
    exact h i hi

theorem sliceRead_frame (st st' : Store) (fid : Nat)
    (hfid : st'.get fid = st.get fid)
    (hdata : ∀ j, j < (readLen st fid + 31) / 32 → st'.get (H (keyBytes fid) + j) = st.get (H (keyBytes fid) + j)) :
    sliceRead H st' fid = sliceRead H st fid ∧ sliceLen st' fid = sliceLen st fid := by
  have hlen : readLen st' fid = readLen st fid := by
    unfold readLen
    have : readQuads st' fid 0 8 false = readQuads st fid 0 8 false := by
      apply readQuads_congr _ _ _ _ _ _ (by simp)
      rw [slotCalc_eq fid 0 8 false (by omega) (by simp), span_zero_8]
      intro i hi
      have : i = 0 := by simp only [] at hi; omega
      subst this; simpa using hfid
    rw [this]
  refine ⟨?_, hlen⟩
  unfold sliceRead
  rw [hlen]
  cases hn : readLen st fid with
  | zero => rfl
  | succ m =>
    simp only []
    congr 1
    apply List.map_congr_left
    intro a ha
    have ha' : a < m + 1 := by simpa using ha
    apply loadBuf_congr
    exact hdata _ (by omega)

end

/-! ## whole histories on one vector field -/

/-- operations of a history that only uses vector field 0 (plus raw slot reads), with values of
`8*w` bytes -/
def vecOp (w : Nat) : Op → Bool
  | .vpush 0 v => v.length == 8 * w
  | .vset 0 _ v => v.length == 8 * w
  | .vinsert 0 _ v => v.length == 8 * w
  | .vpop 0 | .vget 0 _ | .vlen 0 | .vremove 0 _ | .vswap 0 _ _ | .vswaprm 0 _ | .vclear 0 => true
  | .raw _ => true
  | _ => false

theorem refOfSize_words {w : Nat} (hw : 0 < w) : refOfSize (8 * w) = false → w = 1 := by
  intro h; simp [refOfSize] at h; omega

theorem optObs_ne_revert (o : Option (List Nat)) : (optObs o != Obs.revert) = true := by
  cases o <;> simp [optObs]

theorem vec_history (H : List Nat → Nat) (fid w N : Nat) (hw : 0 < w) (hN : N < 2 ^ 64) (hsep : VecSep H fid (N * w)) :
    ∀ (ops : List Op) (st : Store) (xs : List (List Nat)), (∀ op ∈ ops, vecOp w op = true) →
      VecRep H st fid w (refOfSize (8 * w)) xs → xs.length + ops.length + 1 ≤ N →
      histProp [.vec xs] ops (runSlot H [⟨.vec (8 * w), fid⟩] st ops) = true
  | [], _, _, _, _, _ => rfl
  | op :: ops, st, xs, hops, h, hb => by
    have hr := refOfSize_words hw
    have hop := hops op (List.mem_cons_self ..)
    have hrest : ∀ o ∈ ops, vecOp w o = true := fun o ho => hops o (List.mem_cons_of_mem _ ho)
    have hlen : xs.length + ops.length + 2 ≤ N := by simpa [Nat.add_assoc] using hb
    have hsepX : VecSep H fid ((xs.length + 1) * w) := VecSep_mono H hsep (Nat.mul_le_mul_right w (by omega))
    have hsep0 : VecSep H fid (xs.length * w) := VecSep_mono H hsep (Nat.mul_le_mul_right w (by omega))
    have IH := fun st' ys (h' : VecRep H st' fid w (refOfSize (8 * w)) ys) (hb' : ys.length + ops.length + 1 ≤ N) =>
      vec_history H fid w N hw hN hsep ops st' ys hrest h' hb'
    cases op with
    | raw k =>
      simp only [runSlot, stepSlot, histProp, stepAbs, optObs_ne_revert, Bool.true_and]
      exact IH st xs h (by omega)
    | vpush f v =>
      cases f with
      | succ f => simp [vecOp] at hop
      | zero =>
        have hv : v.length = 8 * w := by simpa [vecOp] using hop
        simp only [runSlot, stepSlot, histProp, stepAbs, List.getElem?_cons_zero, List.set_cons_zero, beq_self_eq_true,
          Bool.true_and]
        exact IH _ _ (vecPush_rep H v hw hr hv (by omega) hsepX h) (by simp; omega)
    | vpop f =>
      cases f with
      | succ f => simp [vecOp] at hop
      | zero =>
        obtain ⟨e1, e2⟩ := vecPop_rep H hw hr (by omega) hsep0 h
        simp only [runSlot, stepSlot, histProp, stepAbs, List.getElem?_cons_zero]
        rw [e1]
        cases hg : xs.getLast? with
        | none =>
          have hx : xs = [] := by simpa using hg
          subst hx
          simp only [optObs, beq_self_eq_true, Bool.true_and]
          exact IH _ _ (by simpa using e2) (by simp; omega)
        | some l =>
          simp only [optObs, List.set_cons_zero, beq_self_eq_true, Bool.true_and]
          exact IH _ _ e2 (by simp; omega)
    | vget f i =>
      cases f with
      | succ f => simp [vecOp] at hop
      | zero =>
        simp only [runSlot, stepSlot, histProp, stepAbs, List.getElem?_cons_zero, vecGet_rep H h, Option.map_some,
          beq_self_eq_true, Bool.true_and]
        exact IH st xs h (by omega)
    | vlen f =>
      cases f with
      | succ f => simp [vecOp] at hop
      | zero =>
        simp only [runSlot, stepSlot, histProp, stepAbs, List.getElem?_cons_zero, h.len, beq_self_eq_true, Bool.true_and]
        exact IH st xs h (by omega)
    | vset f i v =>
      cases f with
      | succ f => simp [vecOp] at hop
      | zero =>
        have hv : v.length = 8 * w := by simpa [vecOp] using hop
        by_cases hi : i < xs.length
        · obtain ⟨st', e1, e2⟩ := vecSet_rep H i v hw hr hv hsep0 h hi
          simp only [runSlot, stepSlot, histProp, stepAbs, List.getElem?_cons_zero, e1, Option.map_some, hi, if_true, List.set_cons_zero, beq_self_eq_true, Bool.true_and]
          exact IH _ _ e2 (by simp; omega)
        · simp [runSlot, stepSlot, histProp, stepAbs, vecSet_oob H i v h hi, hi]
    | vremove f i =>
      cases f with
      | succ f => simp [vecOp] at hop
      | zero =>
        by_cases hi : i < xs.length
        · obtain ⟨st', e1, e2, _⟩ := vecRemove_rep H i hw hr (by omega) hsep0 h hi
          simp only [runSlot, stepSlot, histProp, stepAbs, List.getElem?_cons_zero, e1, Option.map_some, List.getElem?_eq_getElem hi, List.set_cons_zero, beq_self_eq_true, Bool.true_and]
          exact IH _ _ e2 (by rw [List.length_eraseIdx_of_lt hi]; omega)
        · simp [runSlot, stepSlot, histProp, stepAbs, vecRemove_oob H i h hi, List.getElem?_eq_none (Nat.le_of_not_lt hi)]
    | vinsert f i v =>
      cases f with
      | succ f => simp [vecOp] at hop
      | zero =>
        have hv : v.length = 8 * w := by simpa [vecOp] using hop
        by_cases hi : i ≤ xs.length
        · obtain ⟨st', e1, e2, _⟩ := vecInsert_rep H i v hw hr hv (by omega) hsepX h hi
          simp only [runSlot, stepSlot, histProp, stepAbs, List.getElem?_cons_zero, e1, Option.map_some, hi, if_true, List.set_cons_zero, beq_self_eq_true, Bool.true_and]
          exact IH _ _ e2 (by simp; omega)
        · simp [runSlot, stepSlot, histProp, stepAbs, vecInsert_oob H i v h hi, hi]
    | vswap f i j =>
      cases f with
      | succ f => simp [vecOp] at hop
      | zero =>
        by_cases hi : i < xs.length ∧ j < xs.length
        · obtain ⟨st', e1, e2, _⟩ := vecSwap_rep H i j hw hr hsep0 h hi.1 hi.2
          simp only [runSlot, stepSlot, histProp, stepAbs, List.getElem?_cons_zero, e1, Option.map_some, hi, and_self, if_true, List.set_cons_zero, beq_self_eq_true, Bool.true_and]
          refine IH _ _ e2 ?_
          simp [swapList, List.getElem?_eq_getElem hi.1, List.getElem?_eq_getElem hi.2]; omega
        · simp [runSlot, stepSlot, histProp, stepAbs, vecSwap_oob H i j h hi, hi]
    | vswaprm f i =>
      cases f with
      | succ f => simp [vecOp] at hop
      | zero =>
        by_cases hi : i < xs.length
        · obtain ⟨st', l, e0, e1, e2, _⟩ := vecSwapRemove_rep H i hw hr (by omega) hsep0 h hi
          simp only [runSlot, stepSlot, histProp, stepAbs, List.getElem?_cons_zero, e1, Option.map_some, List.getElem?_eq_getElem hi, e0, List.set_cons_zero, beq_self_eq_true, Bool.true_and]
          exact IH _ _ e2 (by simp; omega)
        · simp [runSlot, stepSlot, histProp, stepAbs, vecSwapRemove_oob H i h hi, List.getElem?_eq_none (Nat.le_of_not_lt hi)]
    | vclear f =>
      cases f with
      | succ f => simp [vecOp] at hop
      | zero =>
        simp only [runSlot, stepSlot, histProp, stepAbs, List.getElem?_cons_zero, List.set_cons_zero]
        have : (Obs.bool (vecClear st fid).2 != Obs.revert) = true := by simp
        simp only [this, Bool.true_and]
        exact IH _ _ (vecClear_rep H st fid w _) (by simp; omega)
    | _ => simp [vecOp] at hop

end SwayVerif.Storage
