import SwayVerif.Lemmas.UsefulnessMain
import SwayVerif.Lemmas.UsefulnessRange
/-! `check_match_expression_usefulness` and the matcher's condition: helper lemmas for `Props/C14.lean`. -/
namespace SwayVerif.Usefulness

/-- Rows of the arms already seen. -/
def armRows (arms : List Pat) : Matrix := arms.map fun a => [a]

theorem armRows_typed {arms : List Pat} {t : Ty} (h : ∀ a ∈ arms, a.hasTy t = true) :
    rowsHaveTy (armRows arms) [t] := by
  intro r hr
  simp only [armRows, List.mem_map] at hr
  obtain ⟨a, ha, rfl⟩ := hr
  simp [patsHaveTy, h a ha]

theorem useful_single {t : Ty} {arms : List Pat} {p : Pat} :
    Useful [t] (armRows arms) [p] ↔
      ∃ v : Val, v.hasTy t = true ∧ p.matches v = true ∧ ∀ a ∈ arms, a.matches v = false := by
  constructor
  · rintro ⟨vs, hty, hm, hun⟩
    match vs, hty, hm, hun with
    | [v], hty, hm, hun =>
      refine ⟨v, by simpa [hasTyL] using hty, by simpa [matchesL] using hm, ?_⟩
      intro a ha
      have := hun [a] (by simp only [armRows, List.mem_map]; exact ⟨a, ha, rfl⟩)
      simpa [matchesL] using this
    | [], hty, _, _ => simp [hasTyL] at hty
    | _ :: _ :: _, hty, _, _ => simp [hasTyL] at hty
  · rintro ⟨v, hv, hm, hun⟩
    refine ⟨[v], by simp [hasTyL, hv], by simp [matchesL, hm], ?_⟩
    intro r hr
    simp only [armRows, List.mem_map] at hr
    obtain ⟨a, ha, rfl⟩ := hr
    simp [matchesL, hun a ha]

theorem mu_single (t : Ty) (p : Pat) : mu [t] [p] = t.size + p.size := by
  simp [mu, sizeTys, sizeL]

/-- `check_match_expression_usefulness` on well-typed arms: no internal error; the k-th flag says whether
arm k matches a value that no earlier arm (and no row of `pre`) matches; the final report has witnesses
iff some value is matched by no arm. -/
theorem checkArms_spec (t : Ty) (ht : t.inhab = true) (fuel : Nat) :
    ∀ (arms pre : List Pat), (∀ a ∈ pre, a.hasTy t = true) → (∀ a ∈ arms, a.hasTy t = true) →
      t.size + sizeL arms < fuel →
      ∃ bs fin, checkArms fuel arms (armRows pre) = some (bs, fin) ∧ bs.length = arms.length ∧
        (∀ k (hk : k < arms.length), bs[k]? = some true ↔
          ∃ v : Val, v.hasTy t = true ∧ arms[k].matches v = true ∧
            (∀ a ∈ pre, a.matches v = false) ∧ ∀ j (hj : j < k), (arms[j]'(by omega)).matches v = false) ∧
        (fin.has = true ↔ ∃ v : Val, v.hasTy t = true ∧ ∀ a ∈ pre ++ arms, a.matches v = false)
  | [], pre, hpre, _, hf => by
    have hin : inhabL [t] = true := by simp [inhabL, ht]
    have hmu : mu [t] [Pat.wild] < fuel := by rw [mu_single]; simp [Pat.size]; simp [sizeL] at hf; omega
    obtain ⟨r, hr, hiff, _⟩ := U_correct u8Facts fuel [t] (armRows pre) [.wild] hin (armRows_typed hpre)
      (by simp [patsHaveTy, Pat.hasTy]) hmu
    refine ⟨[], r, by simp [checkArms, hr], rfl, by intro k hk; simp at hk, ?_⟩
    rw [hiff, useful_single]
    simp [Pat.matches]
  | a :: arms, pre, hpre, harms, hf => by
    have hin : inhabL [t] = true := by simp [inhabL, ht]
    have ha := harms a (by simp)
    have hsz : sizeL (a :: arms) = a.size + sizeL arms := rfl
    have hmu : mu [t] [a] < fuel := by rw [mu_single]; omega
    obtain ⟨r, hr, hiff, _⟩ := U_correct u8Facts fuel [t] (armRows pre) [a] hin (armRows_typed hpre)
      (by simp [patsHaveTy, ha]) hmu
    have hpre' : ∀ x ∈ pre ++ [a], x.hasTy t = true := by
      intro x hx
      rcases List.mem_append.mp hx with h | h
      · exact hpre x h
      · simp at h; subst h; exact ha
    obtain ⟨bs, fin, hrec, hlen, hflags, hfin⟩ := checkArms_spec t ht fuel arms (pre ++ [a]) hpre'
      (fun x hx => harms x (by simp [hx])) (by omega)
    have hrows : armRows pre ++ [[a]] = armRows (pre ++ [a]) := by simp [armRows]
    refine ⟨r.has :: bs, fin, by simp [checkArms, hr, hrows, hrec], by simp [hlen], ?_, ?_⟩
    · intro k hk
      cases k with
      | zero =>
        simp only [List.getElem?_cons_zero, Option.some.injEq, List.getElem_cons_zero]
        rw [hiff, useful_single]
        constructor
        · rintro ⟨v, h1, h2, h3⟩; exact ⟨v, h1, h2, h3, by intro j hj; omega⟩
        · rintro ⟨v, h1, h2, h3, _⟩; exact ⟨v, h1, h2, h3⟩
      | succ k =>
        have hk' : k < arms.length := by simpa using hk
        simp only [List.getElem?_cons_succ, List.getElem_cons_succ]
        rw [hflags k hk']
        constructor
        · rintro ⟨v, h1, h2, h3, h4⟩
          refine ⟨v, h1, h2, fun x hx => h3 x (by simp [hx]), ?_⟩
          intro j hj
          cases j with
          | zero => simpa using h3 a (by simp)
          | succ j => simpa using h4 j (by omega)
        · rintro ⟨v, h1, h2, h3, h4⟩
          refine ⟨v, h1, h2, ?_, ?_⟩
          · intro x hx
            rcases List.mem_append.mp hx with h | h
            · exact h3 x h
            · simp at h; subst h; simpa using h4 0 (by omega)
          · intro j hj
            simpa using h4 (j + 1) (by omega)
    · rw [hfin]
      constructor
      · rintro ⟨v, h1, h2⟩; exact ⟨v, h1, fun x hx => h2 x (by simp at hx ⊢; exact hx)⟩
      · rintro ⟨v, h1, h2⟩; exact ⟨v, h1, fun x hx => h2 x (by simp at hx ⊢; exact hx)⟩


/-! ## The matcher's condition agrees with `matches` when no or-pattern has an irrefutable alternative -/

theorem andOpt_getD (x y : Option Bool) : (andOpt x y).getD true = (x.getD true && y.getD true) := by
  cases x <;> cases y <;> simp [andOpt]

theorem andOpt_none {x y : Option Bool} (h : andOpt x y = none) : x = none ∧ y = none := by
  cases x <;> cases y <;> simp [andOpt] at h ⊢

mutual
theorem cond_spec : ∀ (p : Pat) (v : Val), p.hasOrCatchAll = false →
    ((p.cond v).getD true = p.matches v) ∧ (p.cond v = none → p.irrefutable = true)
  | .wild, v, _ => by simp [Pat.cond, Pat.matches, Pat.irrefutable]
  | .bool b, v, _ => by cases v <;> simp [Pat.cond, Pat.matches]
  | .u8 lo hi, v, _ => by cases v <;> simp [Pat.cond, Pat.matches]
  | .num lo hi, v, _ => by cases v <;> simp [Pat.cond, Pat.matches]
  | .enum n t p, v, h => by
    cases v <;> simp [Pat.cond, Pat.matches]
    case enum t' v' =>
      have ih := cond_spec p v' (by simpa [Pat.hasOrCatchAll] using h)
      by_cases htt : t = t'
      · subst htt
        simp only [if_true, andOpt_getD, Option.getD_some, Bool.true_and, ih.1, beq_self_eq_true]
        refine ⟨trivial, ?_⟩
        intro hn; have := andOpt_none hn; simp at this
      · simp [htt]
  | .tuple ps, v, h => by
    cases v <;> simp [Pat.cond, Pat.matches]
    case tuple vs =>
      have ih := condAnd_spec ps vs (by simpa [Pat.hasOrCatchAll] using h)
      exact ⟨ih.1, fun hn => by simpa [Pat.irrefutable] using ih.2 hn⟩
  | .strct idx ps, v, h => by
    cases v <;> simp [Pat.cond, Pat.matches]
    case tuple vs =>
      have ih := condAndF_spec idx ps vs (by simpa [Pat.hasOrCatchAll] using h)
      exact ⟨ih.1, fun hn => by simpa [Pat.irrefutable] using ih.2 hn⟩
  | .or ps, v, h => by
    simp only [Pat.hasOrCatchAll, Bool.or_eq_false_iff] at h
    have hne : ps ≠ [] := by intro h'; simp [h'] at h
    have := condOr_spec ps v h.1.2 h.2 hne
    simp [Pat.cond, Pat.matches, this]
theorem condAnd_spec : ∀ (ps : List Pat) (vs : List Val), hasOrCatchAllL ps = false →
    ((condAnd ps vs).getD true = matchesL ps vs) ∧ (condAnd ps vs = none → allIrrefutable ps = true)
  | [], [], _ => by simp [condAnd, matchesL, allIrrefutable]
  | [], _ :: _, _ => by simp [condAnd, matchesL]
  | _ :: _, [], _ => by simp [condAnd, matchesL]
  | p :: ps, v :: vs, h => by
    simp only [hasOrCatchAllL, Bool.or_eq_false_iff] at h
    have i1 := cond_spec p v h.1
    have i2 := condAnd_spec ps vs h.2
    refine ⟨by simp [condAnd, andOpt_getD, matchesL, i1.1, i2.1], ?_⟩
    intro hn
    have := andOpt_none (by simpa [condAnd] using hn)
    simp [allIrrefutable, i1.2 this.1, i2.2 this.2]
theorem condAndF_spec : ∀ (idx : List Nat) (ps : List Pat) (vs : List Val), hasOrCatchAllL ps = false →
    ((condAndF idx ps vs).getD true = matchesF idx ps vs) ∧ (condAndF idx ps vs = none → allIrrefutable ps = true)
  | [], [], _, _ => by simp [condAndF, matchesF, allIrrefutable]
  | [], _ :: _, _, _ => by simp [condAndF, matchesF]
  | _ :: _, [], _, _ => by simp [condAndF, matchesF]
  | i :: is, p :: ps, vs, h => by
    simp only [hasOrCatchAllL, Bool.or_eq_false_iff] at h
    have i2 := condAndF_spec is ps vs h.2
    cases hv : vs[i]? with
    | none =>
      refine ⟨by simp [condAndF, matchesF, hv, andOpt_getD], ?_⟩
      intro hn
      have := andOpt_none (by simpa [condAndF, hv] using hn)
      simp at this
    | some v =>
      have i1 := cond_spec p v h.1
      refine ⟨by simp [condAndF, matchesF, hv, andOpt_getD, i1.1, i2.1], ?_⟩
      intro hn
      have := andOpt_none (by simpa [condAndF, hv] using hn)
      simp [allIrrefutable, i1.2 this.1, i2.2 this.2]
theorem condOr_spec : ∀ (ps : List Pat) (v : Val), anyIrrefutable ps = false → hasOrCatchAllL ps = false →
    ps ≠ [] → condOr ps v = some (matchesAny ps v)
  | [], _, _, _, hne => absurd rfl hne
  | p :: ps, v, hirr, h, _ => by
    simp only [anyIrrefutable, Bool.or_eq_false_iff] at hirr
    simp only [hasOrCatchAllL, Bool.or_eq_false_iff] at h
    have i1 := cond_spec p v h.1
    cases hc : p.cond v with
    | none => have := i1.2 hc; simp [hirr.1] at this
    | some b =>
      have hb : b = p.matches v := by have := i1.1; simpa [hc] using this
      cases ps with
      | nil => simp [condOr, hc, orOpt, matchesAny, hb]
      | cons q qs =>
        have := condOr_spec (q :: qs) v hirr.2 h.2 (by simp)
        show orOpt (p.cond v) (condOr (q :: qs) v) = some (p.matches v || matchesAny (q :: qs) v)
        rw [hc, this, hb]
        rfl
end

theorem rtMatches_eq {p : Pat} (h : p.hasOrCatchAll = false) (v : Val) : p.rtMatches v = p.matches v :=
  (cond_spec p v h).1

end SwayVerif.Usefulness
