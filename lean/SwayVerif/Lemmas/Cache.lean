import SwayVerif.Model.Cache
/-!
Helper lemmas for C26 (`Props/C26.lean`): the bounded recursion of the up-to-date checks, what an
accepted entry implies for every module below it, and what one compilation does to the cache.
-/
namespace SwayVerif.Cache

/-! ## `allDeps` -/

theorem allDeps_true_iff (f : Path → Option Bool) (ds : List Path) :
    allDeps f ds = some true ↔ ∀ d ∈ ds, f d = some true := by
  induction ds with
  | nil => simp [allDeps]
  | cons d ds ih =>
    simp only [allDeps, List.mem_cons, forall_eq_or_imp]
    cases hd : f d with
    | none => simp
    | some b => cases b <;> simp [ih]

theorem allDeps_isSome (f : Path → Option Bool) (ds : List Path)
    (h : ∀ d ∈ ds, (f d).isSome = true) : (allDeps f ds).isSome = true := by
  induction ds with
  | nil => simp [allDeps]
  | cons d ds ih =>
    have hd := h d (by simp)
    simp only [allDeps]
    cases hfd : f d with
    | none => simp [hfd] at hd
    | some b =>
      cases b
      · simp
      · exact ih (fun x hx => h x (by simp [hx]))

theorem allDeps_congr_some {f g : Path → Option Bool} {ds : List Path} {b : Bool}
    (h : ∀ d ∈ ds, ∀ b', f d = some b' → g d = some b') :
    allDeps f ds = some b → allDeps g ds = some b := by
  induction ds with
  | nil => simp [allDeps]
  | cons d ds ih =>
    simp only [allDeps]
    cases hfd : f d with
    | none => simp
    | some b' =>
      rw [h d (by simp) b' hfd]
      cases b'
      · exact id
      · exact ih (fun x hx => h x (by simp [hx]))

/-! ## Fuel: more is the same, and a rank on the dependency relation makes it enough -/

theorem upToDateG_mono (chk : Path → Entry → Bool) (c : Cache) :
    ∀ (n : Nat) (p : Path) (b : Bool), upToDateG chk n c p = some b → upToDateG chk (n + 1) c p = some b := by
  intro n
  induction n with
  | zero => intro p b h; simp [upToDateG] at h
  | succ n ih =>
    intro p b h
    rw [upToDateG] at h ⊢
    cases hc : c p with
    | none => simpa [hc] using h
    | some e =>
      simp only [hc] at h ⊢
      by_cases hk : chk p e = true
      · simp only [hk, if_true] at h ⊢
        exact allDeps_congr_some (fun d _ b' hb => ih d b' hb) h
      · simpa [hk] using h

theorem upToDateG_mono_le (chk : Path → Entry → Bool) (c : Cache) {n m : Nat} (hnm : n ≤ m)
    {p : Path} {b : Bool} (h : upToDateG chk n c p = some b) : upToDateG chk m c p = some b := by
  induction hnm with
  | refl => exact h
  | step _ ih => exact upToDateG_mono chk c _ p b ih

/-- The dependency relation recorded in the cache decreases a rank: no cycles. -/
def Ranked (rank : Path → Nat) (c : Cache) : Prop :=
  ∀ p e, c p = some e → ∀ d ∈ e.deps, rank d < rank p

theorem upToDateG_isSome (chk : Path → Entry → Bool) (c : Cache) (rank : Path → Nat) (hr : Ranked rank c) :
    ∀ (n : Nat) (p : Path), rank p < n → (upToDateG chk n c p).isSome = true := by
  intro n
  induction n with
  | zero => intro p h; omega
  | succ n ih =>
    intro p h
    rw [upToDateG]
    cases hc : c p with
    | none => simp
    | some e =>
      simp only []
      by_cases hk : chk p e = true
      · simp only [hk, if_true]
        apply allDeps_isSome
        intro d hd
        have := hr p e hc d hd
        exact ih d (by omega)
      · simp [hk]

/-! ## An accepted entry: the local test holds on everything below it -/

theorem upToDateG_accept (chk : Path → Entry → Bool) (c : Cache) :
    ∀ (n : Nat) (p : Path), upToDateG chk n c p = some true →
      ∃ e, c p = some e ∧ chk p e = true ∧ ∀ d ∈ e.deps, upToDateG chk n c d = some true := by
  intro n
  cases n with
  | zero => intro p h; simp [upToDateG] at h
  | succ n =>
    intro p h
    rw [upToDateG] at h
    cases hc : c p with
    | none => simp [hc] at h
    | some e =>
      simp only [hc] at h
      by_cases hk : chk p e = true
      · simp only [hk, if_true] at h
        refine ⟨e, rfl, hk, ?_⟩
        intro d hd
        have := (allDeps_true_iff _ _).1 h d hd
        exact upToDateG_mono chk c n d true this
      · simp [hk] at h

theorem upToDateG_accept_reach (chk : Path → Entry → Bool) (c : Cache) (n : Nat) {p q : Path}
    (hq : Reach c p q) : upToDateG chk n c p = some true → ∃ e, c q = some e ∧ chk q e = true := by
  induction hq with
  | refl p =>
    intro h
    obtain ⟨e, he, hk, _⟩ := upToDateG_accept chk c n p h
    exact ⟨e, he, hk⟩
  | step hp hd _ ih =>
    intro h
    obtain ⟨e', he', _, hall⟩ := upToDateG_accept chk c n _ h
    rw [hp] at he'
    cases he'
    exact ih (hall _ hd)

/-! ## Staleness and the version test -/

/-- `fv` marks every module whose typed entry is stale with a version newer than the one recorded. -/
def Covers (disk : Disk) (c : Cache) (fv : FV) : Prop :=
  ∀ p e t, c p = some e → e.typed = some t → t.snap p ≠ disk p →
    ∃ v, fv p = some (some v) ∧ ∀ tv, t.ver = some tv → tv < v

theorem tyChk_not_stale {disk : Disk} {c : Cache} {fv : FV} (hc : Covers disk c fv)
    {q : Path} {e : Entry} (he : c q = some e) (hk : tyChk fv q e = true) : ¬ Stale disk c q := by
  rintro ⟨e', t, he', ht, hne⟩
  rw [he] at he'
  cases he'
  obtain ⟨v, hv, hlt⟩ := hc q e t he ht hne
  simp only [tyChk, ht, verOk, hv] at hk
  cases htv : t.ver with
  | none => simp [htv] at hk
  | some tv =>
    have := hlt tv htv
    simp [htv] at hk
    omega

/-! ## One type-check pass (`tyTree`) -/

theorem setTyped_deps (c : Cache) (p : Path) (t : Typed) (q : Path) :
    ((setTyped c p t) q).map (·.deps) = (c q).map (·.deps) := by
  unfold setTyped
  by_cases h : q = p
  · subst h; cases c q <;> simp
  · simp [h]

/-- Pointwise: a type-check pass leaves an entry alone or replaces its typed module by one built from
the present text; hash, dependencies and parsed version are never touched. -/
def TypedStep (disk : Disk) (fv : FV) (c c' : Cache) : Prop :=
  ∀ q, c' q = c q ∨
    ∃ e t, c q = some e ∧ c' q = some { e with typed := some t } ∧ t.snap = disk ∧ t.ver = joinV (fv q)

theorem TypedStep.refl (disk : Disk) (fv : FV) (c : Cache) : TypedStep disk fv c c := fun _ => Or.inl rfl

theorem TypedStep.trans {disk : Disk} {fv : FV} {c₁ c₂ c₃ : Cache}
    (h₁ : TypedStep disk fv c₁ c₂) (h₂ : TypedStep disk fv c₂ c₃) : TypedStep disk fv c₁ c₃ := by
  intro q
  rcases h₂ q with h | ⟨e, t, he, he', hs⟩
  · rcases h₁ q with h' | ⟨e, t, he, he', hs⟩
    · exact Or.inl (h.trans h')
    · exact Or.inr ⟨e, t, he, by rw [h, he'], hs⟩
  · rcases h₁ q with h' | ⟨e₀, t₀, he₀, he₀', _⟩
    · exact Or.inr ⟨e, t, by rw [← h', he], he', hs⟩
    · rw [he₀'] at he
      cases he
      exact Or.inr ⟨e₀, t, he₀, by rw [he'], hs⟩

theorem TypedStep.setTyped (disk : Disk) (fv : FV) (c : Cache) (p : Path) :
    TypedStep disk fv c (setTyped c p { ver := joinV (fv p), snap := disk }) := by
  intro q
  unfold Cache.setTyped
  by_cases h : q = p
  · subst h
    cases hc : c q with
    | none => left; simp
    | some e =>
      right
      refine ⟨e, ⟨joinV (fv q), disk⟩, rfl, ?_, rfl, rfl⟩
      simp
  · left; simp [h]

theorem TypedStep.deps {disk : Disk} {fv : FV} {c c' : Cache} (h : TypedStep disk fv c c') (q : Path) :
    (c' q).map (·.deps) = (c q).map (·.deps) := by
  rcases h q with h | ⟨e, t, he, he', _⟩
  · rw [h]
  · rw [he, he']; rfl

theorem TypedStep.not_stale {disk : Disk} {fv : FV} {c c' : Cache} (h : TypedStep disk fv c c') {q : Path}
    (hq : ¬ Stale disk c q) : ¬ Stale disk c' q := by
  rintro ⟨e', t', he', ht', hne⟩
  rcases h q with h | ⟨e, t, he, he'', hs⟩
  · exact hq ⟨e', t', by rw [← h]; exact he', ht', hne⟩
  · rw [he''] at he'
    cases he'
    simp at ht'
    subst ht'
    exact hne (by rw [hs.1])

theorem TypedStep.covers {disk : Disk} {c c' : Cache} {fv fv' : FV} (h : TypedStep disk fv' c c')
    (hc : Covers disk c fv) : Covers disk c' fv := by
  intro p e' t' he' ht' hne
  rcases h p with h | ⟨e, t, he, he'', hs⟩
  · exact hc p e' t' (by rw [← h]; exact he') ht' hne
  · rw [he''] at he'
    cases he'
    simp at ht'
    subst ht'
    exact absurd (by rw [hs.1]) hne

theorem TypedStep.ranked {disk : Disk} {fv : FV} {c c' : Cache} (h : TypedStep disk fv c c') {rank : Path → Nat}
    (hr : Ranked rank c) : Ranked rank c' := by
  intro p e' he' d hd
  have := h.deps p
  rw [he'] at this
  cases hc : c p with
  | none => simp [hc] at this
  | some e =>
    simp [hc] at this
    exact hr p e hc d (by rw [← this]; exact hd)

theorem TypedStep.reach {disk : Disk} {fv : FV} {c c' : Cache} (h : TypedStep disk fv c c') {p q : Path}
    (hq : Reach c p q) : Reach c' p q := by
  induction hq with
  | refl p => exact Reach.refl p
  | @step p d q e hp hd _ ih =>
    have := h.deps p
    rw [hp] at this
    cases hc' : c' p with
    | none => simp [hc'] at this
    | some e' =>
      simp [hc'] at this
      exact Reach.step hc' (by rw [this]; exact hd) ih

theorem TypedStep.reach_back {disk : Disk} {fv : FV} {c c' : Cache} (h : TypedStep disk fv c c') {p q : Path}
    (hq : Reach c' p q) : Reach c p q := by
  induction hq with
  | refl p => exact Reach.refl p
  | @step p d q e' hp hd _ ih =>
    have := h.deps p
    rw [hp] at this
    cases hc : c p with
    | none => simp [hc] at this
    | some e =>
      simp [hc] at this
      exact Reach.step hc (by rw [← this]; exact hd) ih

theorem tyTree_fold_step (F : Nat) (disk : Disk) (fv : FV) (n : Nat)
    (ih : ∀ c p, TypedStep disk fv c (tyTree F disk fv n c p)) :
    ∀ (ds : List Path) (c : Cache), TypedStep disk fv c (ds.foldl (tyTree F disk fv n) c) := by
  intro ds
  induction ds with
  | nil => intro c; exact TypedStep.refl disk fv c
  | cons d ds ihd => intro c; exact (ih c d).trans (ihd _)

theorem tyTree_step (F : Nat) (disk : Disk) (fv : FV) :
    ∀ (n : Nat) (c : Cache) (p : Path), TypedStep disk fv c (tyTree F disk fv n c p) := by
  intro n
  induction n with
  | zero => intro c p; exact TypedStep.refl disk fv c
  | succ n ih =>
    intro c p
    rw [tyTree]
    split
    · exact TypedStep.refl disk fv c
    · cases hc : c p with
      | none => exact TypedStep.refl disk fv c
      | some e =>
        simp only []
        exact (tyTree_fold_step F disk fv n ih e.deps c).trans (TypedStep.setTyped disk fv _ p)

/-- After a type-check pass from `p` with enough fuel nothing reachable from `p` is stale, provided
`fv` covers the stale entries (so that an accepted entry is not stale). -/
theorem tyTree_sound (F : Nat) (disk : Disk) (fv : FV) (rank : Path → Nat) :
    ∀ (n : Nat) (c : Cache) (p : Path), Ranked rank c → Covers disk c fv → rank p < n →
      ∀ q, Reach c p q → ¬ Stale disk (tyTree F disk fv n c p) q := by
  intro n
  induction n with
  | zero => intro c p _ _ h; omega
  | succ n ih =>
    intro c p hr hcov hn q hq
    rw [tyTree]
    split
    · -- accepted: nothing below is stale
      rename_i hacc
      obtain ⟨e, he, hk⟩ := upToDateG_accept_reach (tyChk fv) c F hq hacc
      exact tyChk_not_stale hcov he hk
    · cases hc : c p with
      | none =>
        -- no entry: `p` reaches only itself and has no typed module
        simp only []
        cases hq with
        | refl => rintro ⟨e, t, he, _⟩; rw [hc] at he; cases he
        | step hp _ _ => rw [hc] at hp; cases hp
      | some e =>
        simp only []
        -- the fold over the dependencies
        have hfold : ∀ (ds : List Path) (c₀ : Cache), TypedStep disk fv c c₀ → (∀ d ∈ ds, d ∈ e.deps) →
            ∀ d ∈ ds, ∀ q, Reach c d q → ¬ Stale disk (ds.foldl (tyTree F disk fv n) c₀) q := by
          intro ds
          induction ds with
          | nil => intro _ _ _ d hd; cases hd
          | cons d₀ ds ihd =>
            intro c₀ hs hsub d hd q hdq
            simp only [List.foldl]
            have hs₁ : TypedStep disk fv c₀ (tyTree F disk fv n c₀ d₀) := tyTree_step F disk fv n c₀ d₀
            rcases List.mem_cons.1 hd with rfl | hd'
            · have hlt : rank d < n := by
                have := hr p e hc d (hsub d (by simp))
                omega
              have h1 := ih c₀ d (hs.ranked hr) (hs.covers hcov) hlt q (hs.reach hdq)
              exact (tyTree_fold_step F disk fv n (tyTree_step F disk fv n) ds _).not_stale h1
            · exact ihd _ (hs.trans hs₁) (fun x hx => hsub x (by simp [hx])) d hd' q hdq
        cases hq with
        | refl =>
          -- `p` itself is retyped from the present text
          rintro ⟨e', t', he', ht', hne⟩
          unfold setTyped at he'
          simp only [if_true] at he'
          cases hfp : (e.deps.foldl (tyTree F disk fv n) c) p with
          | none => simp [hfp] at he'
          | some e₁ =>
            simp [hfp] at he'
            subst he'
            simp at ht'
            subst ht'
            exact hne rfl
        | step hp hd hdq =>
          rw [hc] at hp
          cases hp
          have h1 := hfold e.deps c (TypedStep.refl disk fv c) (fun _ h => h) _ hd q hdq
          exact (TypedStep.setTyped disk fv _ p).not_stale h1

/-! ## The parse pass keeps a typed module or drops it -/

/-- Pointwise: the typed module is the same or gone. -/
def TypedSub (c' c : Cache) : Prop :=
  ∀ q, (c' q).bind (·.typed) = (c q).bind (·.typed) ∨ (c' q).bind (·.typed) = none

theorem TypedSub.refl (c : Cache) : TypedSub c c := fun _ => Or.inl rfl

theorem TypedSub.trans {c₁ c₂ c₃ : Cache} (h₁ : TypedSub c₂ c₁) (h₂ : TypedSub c₃ c₂) : TypedSub c₃ c₁ := by
  intro q
  rcases h₂ q with h | h
  · rcases h₁ q with h' | h'
    · exact Or.inl (h.trans h')
    · exact Or.inr (h.trans h')
  · exact Or.inr h

theorem parseMod_sub (depsOf : Path → Content → List Path) (disk : Disk) (fv : FV) (c : Cache) (p : Path) :
    TypedSub (parseMod depsOf disk fv c p) c := by
  intro q
  unfold parseMod
  by_cases h : q = p
  · subst h
    simp only [if_true, Option.bind, keepTyped]
    cases hc : c q with
    | none => right; rfl
    | some e =>
      simp only []
      by_cases hh : e.hash = disk q
      · left; simp [hh]
      · right; simp [hh]
  · left; simp [h]

theorem parseTree_sub (depsOf : Path → Content → List Path) (disk : Disk) (fv : FV) :
    ∀ (n : Nat) (c : Cache) (p : Path), TypedSub (parseTree depsOf disk fv n c p) c := by
  intro n
  induction n with
  | zero => intro c p; exact TypedSub.refl c
  | succ n ih =>
    intro c p
    rw [parseTree]
    refine TypedSub.trans ?_ (parseMod_sub depsOf disk fv _ p)
    generalize depsOf p (disk p) = ds
    induction ds generalizing c with
    | nil => exact TypedSub.refl c
    | cons d ds ihd => simp only [List.foldl]; exact TypedSub.trans (ih c d) (ihd _)

theorem TypedSub.typed_some {c' c : Cache} (h : TypedSub c' c) {q : Path} {e' : Entry} {t : Typed}
    (he' : c' q = some e') (ht : e'.typed = some t) : ∃ e, c q = some e ∧ e.typed = some t := by
  have hb : (c' q).bind (·.typed) = some t := by simp [he', ht]
  rcases h q with h | h
  · rw [h] at hb
    cases hc : c q with
    | none => simp [hc] at hb
    | some e => exact ⟨e, rfl, by simpa [hc] using hb⟩
  · rw [h] at hb; cases hb

theorem TypedSub.stale {disk : Disk} {c' c : Cache} (h : TypedSub c' c) {q : Path}
    (hs : Stale disk c' q) : Stale disk c q := by
  obtain ⟨e', t, he', ht, hne⟩ := hs
  obtain ⟨e, he, ht'⟩ := h.typed_some he' ht
  exact ⟨e, t, he, ht', hne⟩

theorem TypedSub.covers {disk : Disk} {c' c : Cache} {fv : FV} (h : TypedSub c' c)
    (hc : Covers disk c fv) : Covers disk c' fv := by
  intro p e' t he' ht hne
  obtain ⟨e, he, ht'⟩ := h.typed_some he' ht
  exact hc p e t he ht' hne

/-- The parse pass records the dependencies the present text declares: ranks are kept. -/
theorem parseMod_ranked (depsOf : Path → Content → List Path) (disk : Disk) (fv : FV) (rank : Path → Nat)
    (hd : ∀ p x d, d ∈ depsOf p x → rank d < rank p) {c : Cache} (hr : Ranked rank c) (p : Path) :
    Ranked rank (parseMod depsOf disk fv c p) := by
  intro q e he d hdd
  unfold parseMod at he
  by_cases h : q = p
  · subst h
    simp at he
    subst he
    exact hd _ _ _ hdd
  · simp [h] at he
    exact hr q e he d hdd

theorem parseTree_ranked (depsOf : Path → Content → List Path) (disk : Disk) (fv : FV) (rank : Path → Nat)
    (hd : ∀ p x d, d ∈ depsOf p x → rank d < rank p) :
    ∀ (n : Nat) (c : Cache) (p : Path), Ranked rank c → Ranked rank (parseTree depsOf disk fv n c p) := by
  intro n
  induction n with
  | zero => intro c p h; exact h
  | succ n ih =>
    intro c p hr
    rw [parseTree]
    apply parseMod_ranked depsOf disk fv rank hd
    generalize depsOf p (disk p) = ds
    induction ds generalizing c with
    | nil => exact hr
    | cons d ds ihd => simp only [List.foldl]; exact ihd _ (ih c d hr)

/-! ## The list versions the driver executes compute the function versions -/

theorem ofList_cons {α : Type} (k : Nat) (v : α) (l : List (Nat × α)) (q : Nat) :
    ofList ((k, v) :: l) q = if q = k then some v else ofList l q := by
  simp [ofList, lookupA]

theorem ofList_parseModL (depsOf : Path → Content → List Path) (disk : Disk) (fv : FV) (c : CacheL) (p : Path) :
    ofList (parseModL depsOf disk fv c p) = parseMod depsOf disk fv (ofList c) p := by
  funext q
  rw [parseModL, ofList_cons]
  rfl

theorem ofList_parseTreeL (depsOf : Path → Content → List Path) (disk : Disk) (fv : FV) :
    ∀ (n : Nat) (c : CacheL) (p : Path),
      ofList (parseTreeL depsOf disk fv n c p) = parseTree depsOf disk fv n (ofList c) p := by
  intro n
  induction n with
  | zero => intro c p; rfl
  | succ n ih =>
    intro c p
    rw [parseTreeL, parseTree, ofList_parseModL]
    congr 1
    generalize depsOf p (disk p) = ds
    induction ds generalizing c with
    | nil => rfl
    | cons d ds ihd => simp only [List.foldl]; rw [ihd, ih]

theorem ofList_setTypedL (c : CacheL) (p : Path) (t : Typed) :
    ofList (setTypedL c p t) = setTyped (ofList c) p t := by
  funext q
  unfold setTypedL setTyped
  cases hc : lookupA p c with
  | none =>
    simp only []
    by_cases h : q = p
    · subst h; simp [ofList, hc]
    · simp [h]
  | some e =>
    simp only []
    rw [ofList_cons]
    by_cases h : q = p
    · subst h; simp [ofList, hc]
    · simp [h]

theorem ofList_tyTreeL (F : Nat) (disk : Disk) (fv : FV) :
    ∀ (n : Nat) (c : CacheL) (p : Path),
      ofList (tyTreeL F disk fv n c p) = tyTree F disk fv n (ofList c) p := by
  intro n
  induction n with
  | zero => intro c p; rfl
  | succ n ih =>
    have hfold : ∀ (ds : List Path) (c : CacheL),
        ofList (ds.foldl (tyTreeL F disk fv n) c) = ds.foldl (tyTree F disk fv n) (ofList c) := by
      intro ds
      induction ds with
      | nil => intro c; rfl
      | cons d ds ihd => intro c; simp only [List.foldl]; rw [ihd, ih]
    intro c p
    rw [tyTreeL, tyTree]
    split
    · rfl
    · have hl : lookupA p c = ofList c p := rfl
      rw [hl]
      cases hc : ofList c p with
      | none => rfl
      | some e =>
        simp only []
        rw [ofList_setTypedL, hfold]

/-- The driver's compilation is the model's. -/
theorem runJobL_eq (depsOf : Path → Content → List Path) (fsok : Disk → Path → Entry → Bool) (F : Nat) (root : Path)
    (disk : Disk) (c : CacheL) (fv : FV) (prog : Option Disk) (nv : Nat) :
    match runJob depsOf fsok F root ⟨disk, ofList c, prog, nv⟩ fv with
    | .reused => runJobL depsOf fsok F root disk c fv = none
    | .compiled c' => ∃ cl, runJobL depsOf fsok F root disk c fv = some cl ∧ ofList cl = c' := by
  unfold runJob runJobL
  by_cases h : parseUpToDate (fsok disk) F (ofList c) fv root = some true
  · simp [h]
  · simp only [h, if_false]
    exact ⟨_, rfl, by rw [ofList_tyTreeL, ofList_parseTreeL]⟩

end SwayVerif.Cache
