import SwayVerif.Lemmas.Usefulness
/-! Correctness of `U` (= `is_useful`) on well-typed matrices: helper lemmas for `Props/C14.lean`. -/
namespace SwayVerif.Usefulness

/-- Number of leading wildcards of a row (what the witness stack is guaranteed to cover). -/
def leadWilds : Row → Nat
  | .wild :: qs => leadWilds qs + 1
  | _ => 0

theorem leadWilds_wilds_append (a : Nat) (qs : Row) : leadWilds (wilds a ++ qs) = a + leadWilds qs := by
  induction a with
  | zero => simp [wilds]
  | succ a ih =>
    simp only [wilds] at ih
    simp [wilds, List.replicate_succ, leadWilds, ih]; omega

theorem leadWilds_le_length : ∀ (q : Row), leadWilds q ≤ q.length
  | [] => by simp [leadWilds]
  | .wild :: qs => by simp [leadWilds, leadWilds_le_length qs]
  | .bool _ :: _ => by simp [leadWilds]
  | .u8 _ _ :: _ => by simp [leadWilds]
  | .num _ _ :: _ => by simp [leadWilds]
  | .enum _ _ _ :: _ => by simp [leadWilds]
  | .tuple _ :: _ => by simp [leadWilds]
  | .strct _ _ :: _ => by simp [leadWilds]
  | .or _ :: _ => by simp [leadWilds]

/-- Measure that strictly decreases along every recursive call of `is_useful` on well-typed input. -/
def mu (ts : List Ty) (q : Row) : Nat := sizeTys ts + sizeL q

/-- The result of one call is what the specification demands. -/
def Good (ts : List Ty) (P : Matrix) (q : Row) (res : Option Report) : Prop :=
  ∃ r, res = some r ∧ (r.has = true ↔ Useful ts P q) ∧ ∀ w, r = .wit w → leadWilds q ≤ w.length

theorem Report.join_noWit (r : Report) : r.join .noWit = r := by cases r <;> rfl

theorem Report.join_has (a b : Report) : (a.join b).has = (a.has || b.has) := by
  cases a <;> cases b <;> rfl

theorem joinAll_single (f : Row → Option Report) (r : Row) : joinAll f [r] = f r := by
  simp only [joinAll]
  cases f r with
  | none => rfl
  | some a => simp [Report.join_noWit]

theorem any_false_iff {P : Matrix} {vs : List Val} :
    (P.any fun row => matchesL row vs) = false ↔ ∀ r ∈ P, matchesL r vs = false := by
  simp [List.any_eq_false]

theorem hasTyL_split : ∀ {vs' : List Val} {A B : List Ty}, hasTyL vs' (A ++ B) = true →
    ∃ va vb, vs' = va ++ vb ∧ hasTyL va A = true ∧ hasTyL vb B = true
  | vs', [], B, h => ⟨[], vs', rfl, rfl, by simpa using h⟩
  | [], _ :: _, _, h => by simp [hasTyL] at h
  | v :: vs', a :: A, B, h => by
    simp only [List.cons_append, hasTyL, Bool.and_eq_true] at h
    obtain ⟨va, vb, rfl, h1, h2⟩ := hasTyL_split h.2
    exact ⟨v :: va, vb, rfl, by simp [hasTyL, h.1, h1], h2⟩

/-- `S(c, P)` and usefulness: a vector `args ++ vs` uncovered by `S(c, P)` is a vector `c(args) :: vs`
uncovered by `P`, and conversely. -/
theorem spec_useful {c : Ctor} {t : Ty} {ts' : List Ty} {P S : Matrix} (hc : t.isCtor c = true)
    (hsem : ∀ v vargs vs, v.decomp t = some (c, vargs) → hasTyL vargs (t.argTys c) = true →
      (S.any fun row => matchesL row (vargs ++ vs)) = (P.any fun row => matchesL row (v :: vs)))
    (args qs : Row) (hargs : patsHaveTy args (t.argTys c) = true) :
    Useful (t.argTys c ++ ts') S (args ++ qs) ↔
      ∃ (v : Val) (vargs vs : List Val), v.hasTy t = true ∧ v.decomp t = some (c, vargs) ∧
        hasTyL vargs (t.argTys c) = true ∧ hasTyL vs ts' = true ∧ matchesL args vargs = true ∧
        matchesL qs vs = true ∧ ∀ r ∈ P, matchesL r (v :: vs) = false := by
  constructor
  · rintro ⟨vs', hty, hm, hun⟩
    obtain ⟨vargs, vs, rfl, h1, h2⟩ := hasTyL_split hty
    obtain ⟨v, hv, hd⟩ := mkVal hc h1
    have hl : args.length = vargs.length := by rw [patsHaveTy_length hargs, hasTyL_length h1]
    rw [matchesL_append hl, Bool.and_eq_true] at hm
    refine ⟨v, vargs, vs, hv, hd, h1, h2, hm.1, hm.2, ?_⟩
    rw [← any_false_iff, ← hsem v vargs vs hd h1, any_false_iff]
    exact hun
  · rintro ⟨v, vargs, vs, _, hd, h1, h2, hm1, hm2, hun⟩
    have hl : args.length = vargs.length := by rw [patsHaveTy_length hargs, hasTyL_length h1]
    refine ⟨vargs ++ vs, ?_, ?_, ?_⟩
    · rw [hasTyL_append (hasTyL_length h1), h1, h2]; rfl
    · rw [matchesL_append hl, hm1, hm2]; rfl
    · rw [← any_false_iff, hsem v vargs vs hd h1, any_false_iff]
      exact hun


/-! ## `is_useful_constructed` -/

theorem leadWilds_ctor {q1 : Pat} {c : Ctor} (qs : Row) (hd : q1.ctor? = some c) : leadWilds (q1 :: qs) = 0 := by
  cases q1 <;> simp [Pat.ctor?] at hd <;> simp [leadWilds]

theorem specialize_self {c : Ctor} {t : Ty} {ts' : List Ty} {q1 : Pat} {qs : Row} (hc : t.isCtor c = true)
    (hq1 : q1.hasTy t = true) (hd : q1.ctor? = some c) (hqs : patsHaveTy qs ts' = true) :
    specialize c [q1 :: qs] (ts'.length + 1) = some [q1.args ++ qs] := by
  have hs : c.same c = true := (same_iff hc hc).mpr rfl
  have hargs := (ctor_of_hasTy hq1 hd).2
  unfold specialize
  simp only [specRows, specPat_ctor qs hd, hs, if_true, bindRows, List.append_nil, Option.bind_some]
  apply checkShape_ok
  intro row hr
  simp at hr; subst hr
  simp [patsHaveTy_length hargs, patsHaveTy_length hqs, argTys_length hc]

theorem useful_cons_ctor {c : Ctor} {t : Ty} {ts' : List Ty} {P : Matrix} {q1 : Pat} {qs : Row}
    (hq1 : q1.hasTy t = true) (hd : q1.ctor? = some c) :
    Useful (t :: ts') P (q1 :: qs) ↔
      ∃ (v : Val) (vargs vs : List Val), v.hasTy t = true ∧ v.decomp t = some (c, vargs) ∧
        hasTyL vargs (t.argTys c) = true ∧ hasTyL vs ts' = true ∧ matchesL q1.args vargs = true ∧
        matchesL qs vs = true ∧ ∀ r ∈ P, matchesL r (v :: vs) = false := by
  constructor
  · rintro ⟨vs0, hty, hm, hun⟩
    match vs0, hty, hm, hun with
    | v :: vs, hty, hm, hun =>
      simp only [hasTyL, Bool.and_eq_true] at hty
      simp only [matchesL, Bool.and_eq_true] at hm
      obtain ⟨c', vargs, hdec, _, hargs, _⟩ := decomp_of_hasTy hty.1
      rw [matches_ctor hq1 hd hdec hargs, Bool.and_eq_true, decide_eq_true_eq] at hm
      obtain ⟨⟨rfl, hma⟩, hmq⟩ := hm
      exact ⟨v, vargs, vs, hty.1, hdec, hargs, hty.2, hma, hmq, hun⟩
    | [], hty, _, _ => simp [hasTyL] at hty
  · rintro ⟨v, vargs, vs, hv, hdec, hargs, hvs, hma, hmq, hun⟩
    refine ⟨v :: vs, by simp [hasTyL, hv, hvs], ?_, hun⟩
    simp [matchesL, matches_ctor hq1 hd hdec hargs, hma, hmq]

theorem stepCtor_correct (u : Matrix → Row → Option Report) {c : Ctor} {t : Ty} {ts' : List Ty}
    {P : Matrix} {q1 : Pat} {qs : Row} (hP : rowsHaveTy P (t :: ts'))
    (hq : patsHaveTy (q1 :: qs) (t :: ts') = true) (hd : q1.ctor? = some c)
    (ih : ∀ S, rowsHaveTy S (t.argTys c ++ ts') →
      Good (t.argTys c ++ ts') S (q1.args ++ qs) (u S (q1.args ++ qs))) :
    Good (t :: ts') P (q1 :: qs) (stepCtor u P (q1 :: qs) c) := by
  simp only [patsHaveTy, Bool.and_eq_true] at hq
  obtain ⟨hc, hargs⟩ := ctor_of_hasTy hq.1 hd
  obtain ⟨S, hS, hST, hsem⟩ := specialize_spec c t ts' hc P hP
  have hlen : (q1 :: qs).length = ts'.length + 1 := by simp [patsHaveTy_length hq.2]
  obtain ⟨r, hr, hiff, _⟩ := ih S hST
  refine ⟨r, ?_, ?_, ?_⟩
  · simp only [stepCtor, hlen, hS, specialize_self hc hq.1 hd hq.2, joinAll_single, hr]
  · rw [hiff, spec_useful hc hsem _ _ hargs, useful_cons_ctor hq.1 hd]
  · intro w _; simp [leadWilds_ctor qs hd]


/-! ## `is_useful_or` -/

/-- Usefulness of the alternatives one after the other, each w.r.t. the matrix extended by the earlier ones. -/
def OrUseful (ts : List Ty) (qs : Row) : Matrix → List Pat → Prop
  | _, [] => False
  | P, a :: alts => Useful ts P (a :: qs) ∨ OrUseful ts qs (P ++ [a :: qs]) alts

theorem orUseful_iff (t : Ty) (ts' : List Ty) (qs : Row) : ∀ (alts : List Pat) (P : Matrix),
    OrUseful (t :: ts') qs P alts ↔ Useful (t :: ts') P (.or alts :: qs)
  | [], P => by
    simp only [OrUseful, false_iff]
    rintro ⟨vs, _, hm, _⟩
    cases vs <;> simp [matchesL, Pat.matches, matchesAny] at hm
  | a :: alts, P => by
    simp only [OrUseful]
    rw [orUseful_iff t ts' qs alts (P ++ [a :: qs])]
    constructor
    · rintro (⟨vs, hty, hm, hun⟩ | ⟨vs, hty, hm, hun⟩)
      · refine ⟨vs, hty, ?_, hun⟩
        cases vs with
        | nil => simp [matchesL] at hm
        | cons v vs =>
          simp only [matchesL, Bool.and_eq_true] at hm ⊢
          exact ⟨by simp [Pat.matches, matchesAny, hm.1], hm.2⟩
      · refine ⟨vs, hty, ?_, fun r hr => hun r (by simp [hr])⟩
        cases vs with
        | nil => simp [matchesL] at hm
        | cons v vs =>
          simp only [matchesL, Bool.and_eq_true, Pat.matches] at hm ⊢
          exact ⟨by simp [matchesAny, hm.1], hm.2⟩
    · rintro ⟨vs, hty, hm, hun⟩
      cases vs with
      | nil => simp [matchesL] at hm
      | cons v vs =>
        simp only [matchesL, Bool.and_eq_true, Pat.matches, matchesAny, Bool.or_eq_true] at hm
        by_cases ha : a.matches v = true
        · exact Or.inl ⟨v :: vs, hty, by simp [matchesL, ha, hm.2], hun⟩
        · have hany : matchesAny alts v = true := by
            rcases hm.1 with h | h
            · exact absurd h ha
            · exact h
          refine Or.inr ⟨v :: vs, hty, by simp [matchesL, Pat.matches, hany, hm.2], ?_⟩
          intro r hr
          rcases List.mem_append.mp hr with h | h
          · exact hun r h
          · simp at h; subst h
            simp [matchesL, ha]

theorem orLoop_correct (u : Matrix → Row → Option Report) (ts : List Ty) (qs : Row) :
    ∀ (alts : List Pat) (P : Matrix) (acc : Report), rowsHaveTy P ts →
      (∀ a ∈ alts, patsHaveTy (a :: qs) ts = true) →
      (∀ a ∈ alts, ∀ P', rowsHaveTy P' ts → Good ts P' (a :: qs) (u P' (a :: qs))) →
      ∃ r, orLoop u qs alts P acc = some r ∧ (r.has = true ↔ acc.has = true ∨ OrUseful ts qs P alts)
  | [], P, acc, _, _, _ => ⟨acc, rfl, by simp [OrUseful]⟩
  | a :: alts, P, acc, hP, hq, ih => by
    obtain ⟨wr, hwr, hiff, _⟩ := ih a (by simp) P hP
    have hP' : rowsHaveTy (P ++ [a :: qs]) ts := by
      intro r hr
      rcases List.mem_append.mp hr with h | h
      · exact hP r h
      · simp at h; subst h; exact hq a (by simp)
    obtain ⟨r, hr, hriff⟩ := orLoop_correct u ts qs alts (P ++ [a :: qs]) (acc.join wr) hP'
      (fun b hb => hq b (by simp [hb])) (fun b hb => ih b (by simp [hb]))
    refine ⟨r, by simp [orLoop, hwr, hr], ?_⟩
    rw [hriff, Report.join_has, Bool.or_eq_true, hiff]
    simp only [OrUseful]
    constructor
    · rintro ((h | h) | h)
      · exact Or.inl h
      · exact Or.inr (Or.inl h)
      · exact Or.inr (Or.inr h)
    · rintro (h | h | h)
      · exact Or.inl (Or.inl h)
      · exact Or.inl (Or.inr h)
      · exact Or.inr h

theorem stepOr_correct (u : Matrix → Row → Option Report) {t : Ty} {ts' : List Ty} {P : Matrix}
    {alts : List Pat} {qs : Row} (hP : rowsHaveTy P (t :: ts'))
    (hq : ∀ a ∈ alts, patsHaveTy (a :: qs) (t :: ts') = true)
    (ih : ∀ a ∈ alts, ∀ P', rowsHaveTy P' (t :: ts') → Good (t :: ts') P' (a :: qs) (u P' (a :: qs))) :
    Good (t :: ts') P (.or alts :: qs) (orLoop u qs alts P .noWit) := by
  obtain ⟨r, hr, hiff⟩ := orLoop_correct u (t :: ts') qs alts P .noWit hP hq ih
  refine ⟨r, hr, ?_, by intro w _; simp [leadWilds]⟩
  rw [hiff, orUseful_iff]
  simp [Report.has]


/-! ## `is_useful_wildcard` -/

/-- Some value with root constructor `c`, followed by a vector matched by `qs`, is not covered by `P`. -/
def UsefulAt (t : Ty) (ts' : List Ty) (P : Matrix) (qs : Row) (c : Ctor) : Prop :=
  ∃ (v : Val) (vargs vs : List Val), v.hasTy t = true ∧ v.decomp t = some (c, vargs) ∧
    hasTyL vargs (t.argTys c) = true ∧ hasTyL vs ts' = true ∧ matchesL qs vs = true ∧
    ∀ r ∈ P, matchesL r (v :: vs) = false

theorem useful_wild_iff {t : Ty} {ts' : List Ty} {P : Matrix} {qs : Row} :
    Useful (t :: ts') P (.wild :: qs) ↔ ∃ c, t.isCtor c = true ∧ UsefulAt t ts' P qs c := by
  constructor
  · rintro ⟨vs0, hty, hm, hun⟩
    match vs0, hty, hm, hun with
    | v :: vs, hty, hm, hun =>
      simp only [hasTyL, Bool.and_eq_true] at hty
      simp only [matchesL, Pat.matches, Bool.true_and] at hm
      obtain ⟨c, vargs, hdec, hc, hargs, _⟩ := decomp_of_hasTy hty.1
      exact ⟨c, hc, v, vargs, vs, hty.1, hdec, hargs, hty.2, hm, hun⟩
    | [], hty, _, _ => simp [hasTyL] at hty
  · rintro ⟨c, _, v, vargs, vs, hv, _, _, hvs, hm, hun⟩
    exact ⟨v :: vs, by simp [hasTyL, hv, hvs], by simp [matchesL, Pat.matches, hm], hun⟩

theorem patsHaveTy_wilds_arity {t : Ty} {c : Ctor} (hc : t.isCtor c = true) :
    patsHaveTy (wilds c.arity) (t.argTys c) = true := by
  have := patsHaveTy_wilds (t.argTys c)
  rwa [argTys_length hc] at this

theorem spec_useful_wilds {c : Ctor} {t : Ty} {ts' : List Ty} {P S : Matrix} (hc : t.isCtor c = true)
    (hsem : ∀ v vargs vs, v.decomp t = some (c, vargs) → hasTyL vargs (t.argTys c) = true →
      (S.any fun row => matchesL row (vargs ++ vs)) = (P.any fun row => matchesL row (v :: vs)))
    (qs : Row) :
    Useful (t.argTys c ++ ts') S (wilds c.arity ++ qs) ↔ UsefulAt t ts' P qs c := by
  rw [spec_useful hc hsem _ _ (patsHaveTy_wilds_arity hc)]
  constructor
  · rintro ⟨v, vargs, vs, h1, h2, h3, h4, _, h6, h7⟩
    exact ⟨v, vargs, vs, h1, h2, h3, h4, h6, h7⟩
  · rintro ⟨v, vargs, vs, h1, h2, h3, h4, h6, h7⟩
    refine ⟨v, vargs, vs, h1, h2, h3, h4, ?_, h6, h7⟩
    have hl : vargs.length = c.arity := by rw [hasTyL_length h3, argTys_length hc]
    have := matchesL_wilds vargs
    rwa [hl] at this

theorem specialize_self_wild {c : Ctor} {t : Ty} {ts' : List Ty} {qs : Row} (hc : t.isCtor c = true)
    (hqs : patsHaveTy qs ts' = true) :
    specialize c [Pat.wild :: qs] (ts'.length + 1) = some [wilds c.arity ++ qs] := by
  unfold specialize
  simp only [specRows, specPat, bindRows, List.append_nil, Option.bind_some]
  apply checkShape_ok
  intro row hr
  simp at hr; subst hr
  simp [wilds_length, patsHaveTy_length hqs]

theorem apply_some (c : Ctor) (args : List Pat) (h : args.length = c.arity) : ∃ p, c.apply args = some p := by
  unfold Ctor.apply
  cases c <;> simp [Ctor.arity] at h <;> simp [h, Ctor.arity]
  case enum n k =>
    match args, h with
    | [p], _ => exact ⟨_, rfl⟩

theorem splitLeading_some (c : Ctor) (w : List Pat) (h : c.arity ≤ w.length) :
    ∃ p, splitLeading c w = some (p, w.drop c.arity) := by
  obtain ⟨p, hp⟩ := apply_some c (w.take c.arity) (by simp [List.length_take]; omega)
  refine ⟨p, ?_⟩
  unfold splitLeading
  have : ¬ c.arity > w.length := by omega
  simp [this, hp]

theorem sigLoop_correct (u : Matrix → Row → Option Report) {t : Ty} {ts' : List Ty} {P : Matrix} {qs : Row}
    (hP : rowsHaveTy P (t :: ts')) (hqs : patsHaveTy qs ts' = true) :
    ∀ (cs : List Ctor) (st : LoopSt), (∀ c ∈ cs, t.isCtor c = true) →
      (∀ c ∈ cs, ∀ S, rowsHaveTy S (t.argTys c ++ ts') →
        Good (t.argTys c ++ ts') S (wilds c.arity ++ qs) (u S (wilds c.arity ++ qs))) →
      (∀ w, st.1 = .wit w → leadWilds qs ≤ w.length) →
      ∃ st', sigLoop u P (.wild :: qs) cs st = some st' ∧
        (st'.1.has = true ↔ st.1.has = true ∨ ∃ c ∈ cs, UsefulAt t ts' P qs c) ∧
        (∀ w, st'.1 = .wit w → leadWilds qs ≤ w.length)
  | [], st, _, _, hinv => ⟨st, rfl, by simp, hinv⟩
  | c :: cs, st, hcs, ih, hinv => by
    have hc := hcs c (by simp)
    obtain ⟨S, hS, hST, hsem⟩ := specialize_spec c t ts' hc P hP
    have hlen : (Pat.wild :: qs).length = ts'.length + 1 := by simp [patsHaveTy_length hqs]
    obtain ⟨wr, hwr, hiff, hlw⟩ := ih c (by simp) S hST
    rw [spec_useful_wilds hc hsem] at hiff
    -- the step
    have hstep : ∃ st1, loopStep c st wr = some st1 ∧
        (st1.1.has = true ↔ st.1.has = true ∨ UsefulAt t ts' P qs c) ∧
        (∀ w, st1.1 = .wit w → leadWilds qs ≤ w.length) := by
      cases wr with
      | noWit =>
        refine ⟨st, by simp [loopStep], ?_, hinv⟩
        have : ¬ UsefulAt t ts' P qs c := by rw [← hiff]; simp [Report.has]
        simp [this]
      | wit w =>
        have hU : UsefulAt t ts' P qs c := hiff.mp rfl
        have hw := hlw w rfl
        rw [leadWilds_wilds_append] at hw
        obtain ⟨p, hp⟩ := splitLeading_some c w (by omega)
        have hdrop : leadWilds qs ≤ (w.drop c.arity).length := by simp [List.length_drop]; omega
        obtain ⟨r0, pats⟩ := st
        cases r0 with
        | noWit =>
          refine ⟨(.wit (w.drop c.arity), if pats.contains p then pats else pats ++ [p]),
            by simp [loopStep, hp], by simp [Report.has, hU], ?_⟩
          intro w' hw'; simp at hw'; subst hw'; exact hdrop
        | wit acc =>
          refine ⟨(.wit (acc ++ w.drop c.arity), if pats.contains p then pats else pats ++ [p]),
            by simp [loopStep, hp], by simp [Report.has], ?_⟩
          intro w' hw'; simp at hw'; subst hw'; simp [List.length_append]; omega
    obtain ⟨st1, hst1, hiff1, hinv1⟩ := hstep
    obtain ⟨st', hst', hiff', hinv'⟩ := sigLoop_correct u hP hqs cs st1 (fun d hd => hcs d (by simp [hd]))
      (fun d hd => ih d (by simp [hd])) hinv1
    refine ⟨st', ?_, ?_, hinv'⟩
    · simp only [sigLoop, hlen, hS, specialize_self_wild hc hqs, joinAll_single, hwr, hst1, hst']
    · rw [hiff', hiff1]
      constructor
      · rintro ((h | h) | ⟨d, hd, h⟩)
        · exact Or.inl h
        · exact Or.inr ⟨c, by simp, h⟩
        · exact Or.inr ⟨d, by simp [hd], h⟩
      · rintro (h | ⟨d, hd, h⟩)
        · exact Or.inl (Or.inl h)
        · rcases List.mem_cons.mp hd with rfl | hd
          · exact Or.inl (Or.inr h)
          · exact Or.inr ⟨d, hd, h⟩


theorem sigma_spec (t : Ty) (ts' : List Ty) (P : Matrix) (hP : rowsHaveTy P (t :: ts')) :
    ∃ hs, headCtors P = some hs ∧ sigma P = some (dedup hs) ∧ (∀ c ∈ dedup hs, t.isCtor c = true) := by
  obtain ⟨hs, h1, h2⟩ := headCtors_spec t ts' P hP
  exact ⟨hs, h1, by simp [sigma, h1], fun c hc => h2 c (mem_dedup.mp hc)⟩

theorem stepWild_correct (h8 : U8Facts) (u : Matrix → Row → Option Report) {t : Ty} {ts' : List Ty}
    {P : Matrix} {qs : Row} (ht : t.inhab = true) (hP : rowsHaveTy P (t :: ts'))
    (hqs : patsHaveTy qs ts' = true)
    (ihS : ∀ c, t.isCtor c = true → ∀ S, rowsHaveTy S (t.argTys c ++ ts') →
      Good (t.argTys c ++ ts') S (wilds c.arity ++ qs) (u S (wilds c.arity ++ qs)))
    (ihD : ∀ D, rowsHaveTy D ts' → Good ts' D qs (u D qs)) :
    Good (t :: ts') P (.wild :: qs) (stepWild u P (.wild :: qs) qs) := by
  obtain ⟨hs, hhs, hsig, hsigT⟩ := sigma_spec t ts' P hP
  obtain ⟨b, hb, hbiff⟩ := isComplete_spec h8 t ht (dedup hs) hsigT
  have hlen : (Pat.wild :: qs).length = ts'.length + 1 := by simp [patsHaveTy_length hqs]
  cases b with
  | true =>
    have hall : ∀ c, t.isCtor c = true → c ∈ dedup hs := hbiff.mp rfl
    obtain ⟨st', hst', hiff, hinv⟩ := sigLoop_correct u hP hqs (dedup hs) (.noWit, []) hsigT
      (fun c hc => ihS c (hsigT c hc)) (by intro w hw; simp at hw)
    have huse : Useful (t :: ts') P (.wild :: qs) ↔ ∃ c ∈ dedup hs, UsefulAt t ts' P qs c := by
      rw [useful_wild_iff]
      constructor
      · rintro ⟨c, hc, h⟩; exact ⟨c, hall c hc, h⟩
      · rintro ⟨c, hc, h⟩; exact ⟨c, hsigT c hc, h⟩
    obtain ⟨r', pats⟩ := st'
    cases r' with
    | noWit =>
      refine ⟨.noWit, by simp [stepWild, hsig, hb, hst'], ?_, by intro w hw; simp at hw⟩
      rw [huse]
      simp only [Report.has, Bool.false_eq_true, false_or] at hiff
      simpa [Report.has] using hiff
    | wit w =>
      refine ⟨.wit (fromPatStack pats :: w), by simp [stepWild, hsig, hb, hst'], ?_, ?_⟩
      · rw [huse]
        simp only [Report.has, Bool.false_eq_true, false_or, true_iff] at hiff
        simpa [Report.has] using hiff
      · intro w' hw'
        simp at hw'; subst hw'
        have := hinv w rfl
        simp [leadWilds]; omega
  | false =>
    have hinc : ¬ ∀ c, t.isCtor c = true → c ∈ dedup hs := by
      intro h; have := hbiff.mpr h; simp at this
    obtain ⟨D, hD, hDT, hsound, hsemD⟩ := defaultMatrix_spec t ts' P hP
    obtain ⟨wr, hwr, hiff, hlw⟩ := ihD D hDT
    have htoAdd : ∃ a, (if (dedup hs).isEmpty then some Pat.wild else notPresent (dedup hs)) = some a := by
      by_cases he : (dedup hs).isEmpty = true
      · exact ⟨.wild, by simp [he]⟩
      · have hne : dedup hs ≠ [] := by intro h; simp [h] at he
        cases hn : notPresent (dedup hs) with
        | none => exact absurd hn (notPresent_some h8 t _ hne hsigT hinc)
        | some a => exact ⟨a, by simp [he]⟩
    obtain ⟨a, ha⟩ := htoAdd
    have huse : Useful (t :: ts') P (.wild :: qs) ↔ Useful ts' D qs := by
      constructor
      · rintro ⟨vs0, hty, hm, hun⟩
        match vs0, hty, hm, hun with
        | v :: vs, hty, hm, hun =>
          simp only [hasTyL, Bool.and_eq_true] at hty
          simp only [matchesL, Pat.matches, Bool.true_and] at hm
          refine ⟨vs, hty.2, hm, ?_⟩
          rw [← any_false_iff]
          cases hany : (D.any fun row => matchesL row vs) with
          | false => rfl
          | true =>
            have := hsound v vs hany
            rw [← any_false_iff] at hun
            rw [hun] at this; simp at this
        | [], hty, _, _ => simp [hasTyL] at hty
      · rintro ⟨vs, hty, hm, hun⟩
        have hex : ∃ c, t.isCtor c = true ∧ c ∉ dedup hs := by
          apply Classical.byContradiction
          intro hcon
          apply hinc
          intro c hc
          apply Classical.byContradiction
          intro hn
          exact hcon ⟨c, hc, hn⟩
        obtain ⟨c, hc, hcn⟩ := hex
        obtain ⟨v, vargs, hv, hdec, hargs⟩ := exists_val_ctor ht hc
        refine ⟨v :: vs, by simp [hasTyL, hv, hty], by simp [matchesL, Pat.matches, hm], ?_⟩
        rw [← any_false_iff, hsemD hs hhs v c vargs vs hdec hargs (fun h => hcn (mem_dedup.mpr h)), any_false_iff]
        exact hun
    cases wr with
    | noWit =>
      refine ⟨.noWit, by simp only [stepWild, hsig, hb, hlen, hD, hwr, ha], ?_, by intro w hw; simp at hw⟩
      rw [huse, ← hiff]
    | wit w =>
      refine ⟨.wit (a :: w), by simp only [stepWild, hsig, hb, hlen, hD, hwr, ha], ?_, ?_⟩
      · rw [huse, ← hiff]; simp [Report.has]
      · intro w' hw'
        simp at hw'; subst hw'
        have := hlw w rfl
        simp [leadWilds]; omega

/-! ## Sizes -/

theorem Ty.size_pos (t : Ty) : 0 < t.size := by cases t <;> simp [Ty.size] <;> omega

theorem sizeTys_append (a b : List Ty) : sizeTys (a ++ b) = sizeTys a + sizeTys b := by
  induction a with
  | nil => simp [sizeTys]
  | cons x a ih => simp [sizeTys, ih]; omega

theorem sizeL_append (a b : List Pat) : sizeL (a ++ b) = sizeL a + sizeL b := by
  induction a with
  | nil => simp [sizeL]
  | cons x a ih => simp [sizeL, ih]; omega

theorem sizeL_wilds (n : Nat) : sizeL (wilds n) = 0 := by
  induction n with
  | zero => simp [wilds, sizeL]
  | succ n ih => simp only [wilds] at ih; simp [wilds, List.replicate_succ, sizeL, Pat.size, ih]

theorem sizeTys_get {ts : List Ty} {k : Nat} {t : Ty} (h : ts[k]? = some t) : t.size ≤ sizeTys ts := by
  induction ts generalizing k with
  | nil => simp at h
  | cons a ts ih =>
    cases k with
    | zero => simp at h; subst h; simp [sizeTys]
    | succ k => have := ih (by simpa using h); simp [sizeTys]; omega

theorem sizeTys_argTys {t : Ty} {c : Ctor} (hc : t.isCtor c = true) : sizeTys (t.argTys c) < t.size := by
  cases t <;> cases c <;> simp [Ty.isCtor] at hc <;> simp [Ty.argTys, Ty.size, sizeTys]
  case enum.enum ts n k =>
    have hk' : ts[k]? = some ts[k] := List.getElem?_eq_getElem hc.2
    have := sizeTys_get hk'
    simp [hk', sizeTys]; omega

theorem size_args {p : Pat} {c : Ctor} (hd : p.ctor? = some c) : sizeL p.args < p.size := by
  cases p <;> simp [Pat.ctor?] at hd <;> simp [Pat.args, Pat.size, sizeL]

theorem size_mem {a : Pat} {alts : List Pat} (h : a ∈ alts) : a.size ≤ sizeL alts := by
  induction alts with
  | nil => simp at h
  | cons b alts ih =>
    rcases List.mem_cons.mp h with rfl | h
    · simp [sizeL]
    · have := ih h; simp [sizeL]; omega

theorem inhabL_append {a b : List Ty} (ha : inhabL a = true) (hb : inhabL b = true) : inhabL (a ++ b) = true := by
  induction a with
  | nil => simpa using hb
  | cons x a ih =>
    simp only [inhabL, Bool.and_eq_true] at ha
    simp [inhabL, ha.1, ih ha.2]


theorem allHaveTy_mem {ps : List Pat} {t : Ty} (h : allHaveTy ps t = true) : ∀ a ∈ ps, a.hasTy t = true := by
  induction ps with
  | nil => simp
  | cons p ps ih =>
    simp only [allHaveTy, Bool.and_eq_true] at h
    intro a ha
    rcases List.mem_cons.mp ha with rfl | ha
    · exact h.1
    · exact ih h.2 a ha

/-! ## One unfolding, then all of `is_useful` -/

theorem Ustep_ctor_correct (u : Matrix → Row → Option Report) {t : Ty} {ts' : List Ty} {P : Matrix}
    {q1 : Pat} {qs : Row} {c : Ctor} (hin : inhabL (t :: ts') = true) (hP : rowsHaveTy P (t :: ts'))
    (hq : patsHaveTy (q1 :: qs) (t :: ts') = true) (hd : q1.ctor? = some c)
    (ih : ∀ ts2 P2 q2, inhabL ts2 = true → rowsHaveTy P2 ts2 → patsHaveTy q2 ts2 = true →
      mu ts2 q2 < mu (t :: ts') (q1 :: qs) → Good ts2 P2 q2 (u P2 q2)) :
    Good (t :: ts') P (q1 :: qs) (stepCtor u P (q1 :: qs) c) := by
  have hq' := hq
  simp only [patsHaveTy, Bool.and_eq_true] at hq'
  simp only [inhabL, Bool.and_eq_true] at hin
  obtain ⟨hc, hargs⟩ := ctor_of_hasTy hq'.1 hd
  apply stepCtor_correct u hP hq hd
  intro S hS
  apply ih _ _ _ (inhabL_append (inhab_argTys hin.1 hc) hin.2) hS
  · rw [patsHaveTy_append (patsHaveTy_length hargs), hargs, hq'.2]; rfl
  · have h1 := sizeTys_argTys hc
    have h2 := size_args hd
    simp only [mu, sizeTys_append, sizeL_append, sizeTys, sizeL]
    omega

theorem Ustep_correct (h8 : U8Facts) (u : Matrix → Row → Option Report) {ts : List Ty} {P : Matrix} {q : Row}
    (hin : inhabL ts = true) (hP : rowsHaveTy P ts) (hq : patsHaveTy q ts = true)
    (ih : ∀ ts2 P2 q2, inhabL ts2 = true → rowsHaveTy P2 ts2 → patsHaveTy q2 ts2 = true →
      mu ts2 q2 < mu ts q → Good ts2 P2 q2 (u P2 q2)) :
    Good ts P q (Ustep u P q) := by
  cases P with
  | nil =>
    refine ⟨.wit (wilds q.length), by simp [Ustep, dims], ?_, ?_⟩
    · simp only [Report.has, true_iff]
      obtain ⟨vs, h1, h2⟩ := exists_matchL q ts hin hq
      exact ⟨vs, h1, h2, by simp⟩
    · intro w hw; simp at hw; subst hw
      simpa [wilds_length] using leadWilds_le_length q
  | cons r rs =>
    have hdims : dims (r :: rs) = some (rs.length + 1, ts.length) := by
      rw [dims_uniform (rowsHaveTy_length hP)]; simp
    cases ts with
    | nil =>
      have hq0 : q = [] := by cases q <;> simp [patsHaveTy] at hq ⊢
      subst hq0
      refine ⟨.noWit, by simp [Ustep, hdims], ?_, by intro w hw; simp at hw⟩
      simp only [Report.has, Bool.false_eq_true, false_iff]
      rintro ⟨vs, hty, _, hun⟩
      have hvs : vs = [] := by cases vs <;> simp [hasTyL] at hty ⊢
      subst hvs
      have hr : r = [] := by
        have := hP r (by simp)
        cases r <;> simp [patsHaveTy] at this ⊢
      have := hun r (by simp)
      simp [hr, matchesL] at this
    | cons t ts' =>
      match q, hq with
      | [], hq => simp [patsHaveTy] at hq
      | q1 :: qs, hq =>
        have hq' := hq
        simp only [patsHaveTy, Bool.and_eq_true] at hq'
        have hin' := hin
        simp only [inhabL, Bool.and_eq_true] at hin'
        cases q1 with
        | wild =>
          have : Ustep u (r :: rs) (Pat.wild :: qs) = stepWild u (r :: rs) (Pat.wild :: qs) qs := by
            simp [Ustep, hdims]
          rw [this]
          apply stepWild_correct h8 u hin'.1 hP hq'.2
          · intro c hc S hS
            apply ih _ _ _ (inhabL_append (inhab_argTys hin'.1 hc) hin'.2) hS
            · rw [patsHaveTy_append (by simp [wilds_length, argTys_length hc]), patsHaveTy_wilds_arity hc, hq'.2]; rfl
            · have h1 := sizeTys_argTys hc
              simp only [mu, sizeTys_append, sizeL_append, sizeTys, sizeL, sizeL_wilds, Pat.size]
              omega
          · intro D hD
            apply ih _ _ _ hin'.2 hD hq'.2
            have := Ty.size_pos t
            simp only [mu, sizeTys, sizeL, Pat.size]
            omega
        | or ps =>
          have : Ustep u (r :: rs) (Pat.or ps :: qs) = orLoop u qs ps (r :: rs) .noWit := by
            simp [Ustep, hdims]
          rw [this]
          have hps : allHaveTy ps t = true := by
            have := hq'.1; simp only [Pat.hasTy, Bool.and_eq_true] at this; exact this.2
          apply stepOr_correct u hP
          · intro a ha
            simp [patsHaveTy, allHaveTy_mem hps a ha, hq'.2]
          · intro a ha P' hP'
            apply ih _ _ _ hin hP'
            · simp [patsHaveTy, allHaveTy_mem hps a ha, hq'.2]
            · have := size_mem ha
              simp only [mu, sizeTys, sizeL, Pat.size]
              omega
        | num lo hi => have := hq'.1; cases t <;> simp [Pat.hasTy] at this
        | bool b =>
          have : Ustep u (r :: rs) (Pat.bool b :: qs) = stepCtor u (r :: rs) (Pat.bool b :: qs) (.bool b) := by
            simp [Ustep, hdims, Pat.ctor?]
          rw [this]; exact Ustep_ctor_correct u hin hP hq rfl ih
        | u8 lo hi =>
          have : Ustep u (r :: rs) (Pat.u8 lo hi :: qs) = stepCtor u (r :: rs) (Pat.u8 lo hi :: qs) (.u8 lo hi) := by
            simp [Ustep, hdims, Pat.ctor?]
          rw [this]; exact Ustep_ctor_correct u hin hP hq rfl ih
        | enum n k p =>
          have : Ustep u (r :: rs) (Pat.enum n k p :: qs) = stepCtor u (r :: rs) (Pat.enum n k p :: qs) (.enum n k) := by
            simp [Ustep, hdims, Pat.ctor?]
          rw [this]; exact Ustep_ctor_correct u hin hP hq rfl ih
        | tuple ps =>
          have : Ustep u (r :: rs) (Pat.tuple ps :: qs) = stepCtor u (r :: rs) (Pat.tuple ps :: qs) (.tuple ps.length) := by
            simp [Ustep, hdims, Pat.ctor?]
          rw [this]; exact Ustep_ctor_correct u hin hP hq rfl ih
        | strct idx ps =>
          have : Ustep u (r :: rs) (Pat.strct idx ps :: qs) = stepCtor u (r :: rs) (Pat.strct idx ps :: qs) (.strct idx) := by
            simp [Ustep, hdims, Pat.ctor?]
          rw [this]; exact Ustep_ctor_correct u hin hP hq rfl ih

/-- `is_useful` on well-typed input, with any fuel above the measure: no internal error, and it reports
witnesses exactly when `q` is useful w.r.t. `P`. -/
theorem U_correct (h8 : U8Facts) : ∀ (fuel : Nat) (ts : List Ty) (P : Matrix) (q : Row),
    inhabL ts = true → rowsHaveTy P ts → patsHaveTy q ts = true → mu ts q < fuel →
    Good ts P q (U fuel P q)
  | 0, _, _, _, _, _, _, h => by omega
  | fuel + 1, ts, P, q, hin, hP, hq, hfuel => by
    show Good ts P q (Ustep (U fuel) P q)
    apply Ustep_correct h8 (U fuel) hin hP hq
    intro ts2 P2 q2 hin2 hP2 hq2 hlt
    exact U_correct h8 fuel ts2 P2 q2 hin2 hP2 hq2 (by omega)

end SwayVerif.Usefulness
