import SwayVerif.Model.StdVec
import Mathlib.Tactic.Linarith
/-!
Helper lemmas for C27 (collections): the shifting loops of `remove` / `insert`, `fill`, `iter`,
characterised index-wise (`getElem?`), and the `{buf,cap,len}` → `List` abstraction.
-/
namespace SwayVerif.StdVec
open SwayVerif.Word

theorem read_ok (buf : List Nat) (i : Nat) (h : i < buf.length) : read buf i = .ok buf[i] := by
  simp [read, List.getElem?_eq_getElem h]

theorem write_ok (buf : List Nat) (i x : Nat) (h : i < buf.length) : write buf i x = .ok (buf.set i x) := by
  simp [write, h]

theorem getElem?_of_lt (buf : List Nat) (i : Nat) (h : i < buf.length) : buf[i]? = some buf[i] :=
  List.getElem?_eq_getElem h

/-- `removeLoop n i buf`: cells `i .. i+n-1` receive their right neighbour, everything else is unchanged -/
theorem removeLoop_ok : ∀ (n i : Nat) (buf : List Nat), i + n < buf.length →
    ∃ b', Vec.removeLoop n i buf = .ok b' ∧ b'.length = buf.length ∧
      ∀ j, b'[j]? = if i ≤ j ∧ j < i + n then buf[j + 1]? else buf[j]? := by
  intro n
  induction n with
  | zero => intro i buf _; exact ⟨buf, rfl, rfl, by intro j; simp⟩
  | succ n ih =>
    intro i buf h
    have h1 : i + 1 < buf.length := by omega
    have h2 : i < buf.length := by omega
    obtain ⟨b', hb, hl, hg⟩ := ih (i + 1) (buf.set i buf[i + 1]) (by simp; omega)
    refine ⟨b', ?_, by simpa using hl, ?_⟩
    · simp only [Vec.removeLoop, read_ok buf (i + 1) h1, Res.ok_bind, write_ok buf i _ h2]
      exact hb
    · intro j
      rw [hg j]
      simp only [List.getElem?_set]
      by_cases c1 : i + 1 ≤ j ∧ j < i + 1 + n
      · have : ¬ (i = j + 1) := by omega
        have c2 : i ≤ j ∧ j < i + (n + 1) := by omega
        simp [c1, c2, this]
      · by_cases c3 : i = j
        · subst c3
          have c2 : i ≤ i ∧ i < i + (n + 1) := by omega
          simp [c2, h2, getElem?_of_lt buf (i + 1) h1]
        · have c2 : ¬ (i ≤ j ∧ j < i + (n + 1)) := by omega
          simp [c1, c2, c3]

/-- `insertLoop n i buf` (i counts down): cells `i-n+1 .. i` receive their left neighbour -/
theorem insertLoop_ok : ∀ (n i : Nat) (buf : List Nat), i < buf.length → n ≤ i →
    ∃ b', Vec.insertLoop n i buf = .ok b' ∧ b'.length = buf.length ∧
      ∀ j, b'[j]? = if i - n < j ∧ j ≤ i then buf[j - 1]? else buf[j]? := by
  intro n
  induction n with
  | zero =>
    intro i buf _ _
    refine ⟨buf, rfl, rfl, ?_⟩
    intro j
    have : ¬ (i - 0 < j ∧ j ≤ i) := by omega
    simp [this]
  | succ n ih =>
    intro i buf h hn
    have h1 : i - 1 < buf.length := by omega
    obtain ⟨b', hb, hl, hg⟩ := ih (i - 1) (buf.set i buf[i - 1]) (by simp; omega) (by omega)
    refine ⟨b', ?_, by simpa using hl, ?_⟩
    · simp only [Vec.insertLoop, read_ok buf (i - 1) h1, Res.ok_bind, write_ok buf i _ h]
      exact hb
    · intro j
      rw [hg j]
      simp only [List.getElem?_set]
      by_cases c1 : i - 1 - n < j ∧ j ≤ i - 1
      · have : ¬ (i = j - 1) := by omega
        have c2 : i - (n + 1) < j ∧ j ≤ i := by omega
        simp [c1, c2, this]
      · by_cases c3 : i = j
        · subst c3
          have c2 : i - (n + 1) < i ∧ i ≤ i := by omega
          simp [c2, h, getElem?_of_lt buf (i - 1) h1]
        · have c2 : ¬ (i - (n + 1) < j ∧ j ≤ i) := by omega
          simp [c1, c2, c3]

theorem fillLoop_ok : ∀ (n at_ x : Nat) (buf : List Nat), at_ + n ≤ buf.length →
    ∃ b', Vec.fillLoop n at_ x buf = .ok b' ∧ b'.length = buf.length ∧
      ∀ j, b'[j]? = if at_ ≤ j ∧ j < at_ + n then some x else buf[j]? := by
  intro n
  induction n with
  | zero => intro a x buf _; exact ⟨buf, rfl, rfl, by intro j; simp⟩
  | succ n ih =>
    intro a x buf h
    obtain ⟨b', hb, hl, hg⟩ := ih (a + 1) x (buf.set a x) (by simp; omega)
    refine ⟨b', ?_, by simpa using hl, ?_⟩
    · simp only [Vec.fillLoop, write_ok buf a x (by omega), Res.ok_bind]; exact hb
    · intro j
      rw [hg j]
      simp only [List.getElem?_set]
      by_cases c1 : a + 1 ≤ j ∧ j < a + 1 + n
      · have c2 : a ≤ j ∧ j < a + (n + 1) := by omega
        simp [c1, c2]
      · by_cases c3 : a = j
        · subst c3; have c2 : a ≤ a ∧ a < a + (n + 1) := by omega
          have : a < buf.length := by omega
          simp [c2, this]
        · have c2 : ¬ (a ≤ j ∧ j < a + (n + 1)) := by omega
          simp [c1, c2, c3]

theorem iterFrom_ok (buf : List Nat) : ∀ (n i : Nat), i + n ≤ buf.length →
    Vec.iterFrom buf n i = .ok ((buf.drop i).take n) := by
  intro n
  induction n with
  | zero => intro i _; simp [Vec.iterFrom]
  | succ n ih =>
    intro i h
    have hi : i < buf.length := by omega
    simp only [Vec.iterFrom, read_ok buf i hi, Res.ok_bind, ih (i + 1) (by omega)]
    rw [List.drop_eq_getElem_cons hi, List.take_succ_cons]
    rfl


/-! ## representation invariant and abstraction -/

theorem abs_length (v : Vec) (h : inv v) : (abs v).length = v.len := by
  obtain ⟨h1, h2⟩ := h
  simp [abs, List.length_take]; omega

theorem abs_getElem? (v : Vec) (j : Nat) : (abs v)[j]? = if j < v.len then v.buf[j]? else none := by
  simp [abs, List.getElem?_take]

/-- what `if self.len == self.buf.cap { self.buf.grow() }` achieves -/
theorem room (v : Vec) (h : inv v) :
    let v' := if v.len = v.cap then Vec.grow v else v
    inv v' ∧ v'.len = v.len ∧ v.len < v'.cap ∧ (∀ j, j < v.len → v'.buf[j]? = v.buf[j]?) := by
  obtain ⟨h1, h2⟩ := h
  by_cases hc : v.len = v.cap
  · rw [if_pos hc]
    have hlt : v.cap < (if v.cap = 0 then 1 else 2 * v.cap) := by split <;> omega
    have hb : realloc v.buf v.cap (if v.cap = 0 then 1 else 2 * v.cap)
        = v.buf ++ List.replicate ((if v.cap = 0 then 1 else 2 * v.cap) - v.cap) 0 := by
      simp only [realloc, hlt, ↓reduceIte, alloc]
      by_cases hz : 0 < v.cap
      · simp only [hz, ↓reduceIte]; rw [← h2, List.take_length]
      · have : v.cap = 0 := by omega
        have hnil : v.buf = [] := List.eq_nil_of_length_eq_zero (by omega)
        simp [this, hnil]
    refine ⟨⟨?_, ?_⟩, rfl, ?_, ?_⟩
    · simp only [Vec.grow]; omega
    · simp only [Vec.grow, hb, List.length_append, List.length_replicate]; omega
    · simp only [Vec.grow]; omega
    · intro j hj
      simp only [Vec.grow, hb, List.getElem?_append]
      have : j < v.buf.length := by omega
      simp [this]
  · rw [if_neg hc]
    exact ⟨⟨h1, h2⟩, rfl, by omega, fun _ _ => rfl⟩

theorem push_refines (v : Vec) (x : Nat) (h : inv v) :
    ∃ v', Vec.push v x = .ok v' ∧ inv v' ∧ abs v' = abs v ++ [x] ∧ v'.len = v.len + 1 := by
  obtain ⟨hi, hl, hlt, hg⟩ := room v h
  set v1 := (if v.len = v.cap then Vec.grow v else v) with hv1
  obtain ⟨i1, i2⟩ := hi
  have hw : v.len < v1.buf.length := by omega
  refine ⟨⟨v1.buf.set v.len x, v1.cap, v.len + 1⟩, ?_, ⟨by simp only; omega, by simp [i2]⟩, ?_, rfl⟩
  · simp only [Vec.push, ← hv1, hl, write_ok _ _ _ hw, Res.ok_bind, Res.pure_eq]
  · apply List.ext_getElem?
    intro j
    have hal := abs_length v h
    simp only [abs_getElem?, List.getElem?_append, hal, List.getElem?_set]
    by_cases c1 : j < v.len
    · have : ¬ (v.len = j) := by omega
      have c2 : j < v.len + 1 := by omega
      simp [c1, c2, this, hg j c1]
    · by_cases c3 : j = v.len
      · subst c3; simp [hw]
      · have c2 : ¬ (j < v.len + 1) := by omega
        have : ¬ (j - v.len = 0) := by omega
        simp [c1, c2]; omega

theorem pop_refines (v : Vec) (h : inv v) :
    ∃ v', Vec.pop v = .ok (v', (abs v).getLast?) ∧ inv v' ∧ abs v' = (abs v).dropLast := by
  obtain ⟨h1, h2⟩ := h
  have hal := abs_length v ⟨h1, h2⟩
  by_cases h0 : v.len = 0
  · have hnil : abs v = [] := List.eq_nil_of_length_eq_zero (by omega)
    exact ⟨v, by simp [Vec.pop, h0, hnil], ⟨h1, h2⟩, by simp [hnil]⟩
  · have hr : v.len - 1 < v.buf.length := by omega
    refine ⟨⟨v.buf, v.cap, v.len - 1⟩, ?_, ⟨by simp only; omega, h2⟩, ?_⟩
    · simp only [Vec.pop, h0, ↓reduceIte, read_ok _ _ hr, Res.ok_bind, Res.pure_eq]
      congr 2
      rw [List.getLast?_eq_getElem?, hal, abs_getElem?]
      have : v.len - 1 < v.len := by omega
      simp [this, getElem?_of_lt _ _ hr]
    · apply List.ext_getElem?
      intro j
      simp only [abs_getElem?, List.getElem?_dropLast, hal]
      by_cases c : j < v.len - 1
      · have : j < v.len := by omega
        simp [c, this]
      · simp [c]

theorem get_refines (v : Vec) (i : Nat) (h : inv v) : Vec.get v i = .ok (abs v)[i]? := by
  obtain ⟨h1, h2⟩ := h
  by_cases c : v.len ≤ i
  · have : ¬ i < v.len := by omega
    simp [Vec.get, c, abs_getElem?, this]
  · have hr : i < v.buf.length := by omega
    have : i < v.len := by omega
    simp [Vec.get, c, read_ok _ _ hr, abs_getElem?, this, getElem?_of_lt _ _ hr]

theorem last_refines (v : Vec) (h : inv v) : Vec.last v = .ok (abs v).getLast? := by
  obtain ⟨h1, h2⟩ := h
  have hal := abs_length v ⟨h1, h2⟩
  by_cases h0 : v.len = 0
  · have hnil : abs v = [] := List.eq_nil_of_length_eq_zero (by omega)
    simp [Vec.last, h0, hnil]
  · have hr : v.len - 1 < v.buf.length := by omega
    have : v.len - 1 < v.len := by omega
    simp only [Vec.last, h0, ↓reduceIte, read_ok _ _ hr, Res.ok_bind, Res.pure_eq]
    congr 1
    rw [List.getLast?_eq_getElem?, hal, abs_getElem?]
    simp [this, getElem?_of_lt _ _ hr]

theorem set_refines (v : Vec) (i x : Nat) (h : inv v) :
    (i < v.len → ∃ v', Vec.set v i x = .ok v' ∧ inv v' ∧ abs v' = (abs v).set i x ∧ v'.len = v.len) ∧
    (¬ i < v.len → Vec.set v i x = .revert FAILED_ASSERT) := by
  obtain ⟨h1, h2⟩ := h
  constructor
  · intro hi
    have hw : i < v.buf.length := by omega
    refine ⟨⟨v.buf.set i x, v.cap, v.len⟩, ?_, ⟨h1, by simp [h2]⟩, ?_, rfl⟩
    · simp [Vec.set, hi, assert, write_ok _ _ _ hw]
    · simp [abs, List.take_set]
  · intro hi
    simp [Vec.set, hi, assert]


theorem remove_refines (v : Vec) (i : Nat) (h : inv v) :
    (∀ x, (abs v)[i]? = some x →
      ∃ v', Vec.remove v i = .ok (v', x) ∧ inv v' ∧ abs v' = (abs v).eraseIdx i) ∧
    ((abs v)[i]? = none → Vec.remove v i = .revert FAILED_ASSERT) := by
  obtain ⟨h1, h2⟩ := h
  constructor
  · intro x hx
    have hi : i < v.len := by
      by_contra hc; simp [abs_getElem?, hc] at hx
    have hr : i < v.buf.length := by omega
    have hxv : v.buf[i] = x := by
      simp [abs_getElem?, hi, getElem?_of_lt _ _ hr] at hx; exact hx
    obtain ⟨b', hb, hl, hg⟩ := removeLoop_ok (v.len - 1 - i) i v.buf (by omega)
    refine ⟨⟨b', v.cap, v.len - 1⟩, ?_, ⟨by simp only; omega, by simp [hl, h2]⟩, ?_⟩
    · simp only [Vec.remove, hi, decide_true, assert, ↓reduceIte, Res.ok_bind, read_ok _ _ hr, Res.pure_eq, hxv]
      by_cases c : 1 < v.len
      · simp only [c, ↓reduceIte, hb, Res.ok_bind]
      · have hz : v.len - 1 - i = 0 := by omega
        rw [hz] at hb
        simp only [Vec.removeLoop, Res.pure_eq, Res.ok.injEq] at hb
        simp only [c, ↓reduceIte, hb, Res.ok_bind]
    · apply List.ext_getElem?
      intro j
      simp only [abs_getElem?, List.getElem?_eraseIdx, hg j]
      by_cases c1 : j < v.len - 1
      · by_cases c2 : j < i
        · have : ¬ (i ≤ j ∧ j < i + (v.len - 1 - i)) := by omega
          have c3 : j < v.len := by omega
          simp [c1, c2, this, c3]
        · have : i ≤ j ∧ j < i + (v.len - 1 - i) := by omega
          have c3 : j + 1 < v.len := by omega
          simp [c1, c2, this, c3]
      · have c2 : ¬ j < i := by omega
        have c3 : ¬ j + 1 < v.len := by omega
        simp [c1, c2, c3]
  · intro hx
    have hi : ¬ i < v.len := by
      intro hc
      have hr : i < v.buf.length := by omega
      simp [abs_getElem?, hc, getElem?_of_lt _ _ hr] at hx
    simp [Vec.remove, hi, assert]

theorem insert_refines (v : Vec) (i x : Nat) (h : inv v) :
    (i ≤ v.len → ∃ v', Vec.insert v i x = .ok v' ∧ inv v' ∧ abs v' = (abs v).insertIdx i x ∧ v'.len = v.len + 1) ∧
    (¬ i ≤ v.len → Vec.insert v i x = .revert FAILED_ASSERT) := by
  constructor
  · intro hi
    obtain ⟨hinv1, hl, hlt, hg⟩ := room v h
    set v1 := (if v.len = v.cap then Vec.grow v else v) with hv1
    obtain ⟨i1, i2⟩ := hinv1
    obtain ⟨b', hb, hbl, hbg⟩ := insertLoop_ok (v.len - i) v.len v1.buf (by omega) (by omega)
    have hw : i < b'.length := by omega
    refine ⟨⟨b'.set i x, v1.cap, v.len + 1⟩, ?_, ⟨by simp only; omega, by simp [hbl, i2]⟩, ?_, rfl⟩
    · simp only [Vec.insert, hi, decide_true, assert, ↓reduceIte, Res.ok_bind, ← hv1, hl, hb, write_ok _ _ _ hw, Res.pure_eq]
    · apply List.ext_getElem?
      intro j
      have hal := abs_length v h
      simp only [abs_getElem?, List.getElem?_insertIdx, List.getElem?_set, hbg j, hal]
      by_cases c1 : j < i
      · have a1 : ¬ (i = j) := by omega
        have a2 : ¬ (v.len - (v.len - i) < j ∧ j ≤ v.len) := by omega
        have a3 : j < v.len + 1 := by omega
        have a4 : j < v.len := by omega
        simp [c1, a1, a2, a3, a4, hg j a4]
      · by_cases c2 : j = i
        · subst c2
          have a3 : j < v.len + 1 := by omega
          simp [a3, hw, hi]
        · by_cases c3 : j < v.len + 1
          · have a1 : ¬ (i = j) := fun e => c2 e.symm
            have a2 : v.len - (v.len - i) < j ∧ j ≤ v.len := by omega
            have a4 : j - 1 < v.len := by omega
            simp [c1, c2, c3, a1, a2, a4, hg (j - 1) a4]
          · have a4 : ¬ (j - 1 < v.len) := by omega
            simp [c1, c2, c3, a4]
  · intro hi
    simp [Vec.insert, hi, assert]

theorem swap_refines (v : Vec) (i j : Nat) (h : inv v) :
    (∀ x y, (abs v)[i]? = some x → (abs v)[j]? = some y →
      ∃ v', Vec.swap v i j = .ok v' ∧ inv v' ∧ abs v' = ((abs v).set i y).set j x ∧ v'.len = v.len) ∧
    (((abs v)[i]? = none ∨ (abs v)[j]? = none) → Vec.swap v i j = .revert FAILED_ASSERT) := by
  obtain ⟨h1, h2⟩ := h
  have key : ∀ k, (abs v)[k]? = none ↔ ¬ k < v.len := by
    intro k
    by_cases c : k < v.len
    · have hr : k < v.buf.length := by omega
      simp [abs_getElem?, c, getElem?_of_lt _ _ hr]
    · simp [abs_getElem?, c]
  constructor
  · intro x y hx hy
    have hi : i < v.len := by by_contra c; rw [(key i).mpr c] at hx; cases hx
    have hj : j < v.len := by by_contra c; rw [(key j).mpr c] at hy; cases hy
    have hri : i < v.buf.length := by omega
    have hrj : j < v.buf.length := by omega
    have hxv : v.buf[i] = x := by simp [abs_getElem?, hi, getElem?_of_lt _ _ hri] at hx; exact hx
    have hyv : v.buf[j] = y := by simp [abs_getElem?, hj, getElem?_of_lt _ _ hrj] at hy; exact hy
    by_cases c : i = j
    · subst c
      have : x = y := by rw [← hxv, ← hyv]
      subst this
      refine ⟨v, by simp [Vec.swap, hi, assert], ⟨h1, h2⟩, ?_, rfl⟩
      apply List.ext_getElem?
      intro k
      simp only [List.getElem?_set, List.length_set]
      by_cases ck : i = k
      · subst ck; simp [hx]
        have := abs_length v ⟨h1, h2⟩; omega
      · simp [ck]
    · have hrj' : j < (v.buf.set i y).length := by simp; omega
      refine ⟨⟨(v.buf.set i y).set j x, v.cap, v.len⟩, ?_, ⟨h1, by simp [h2]⟩, ?_, rfl⟩
      · simp [Vec.swap, hi, hj, assert, c, read_ok _ _ hri, read_ok _ _ hrj, write_ok _ _ _ hri, write_ok _ _ _ hrj', hxv, hyv]
      · simp [abs, List.take_set]
  · intro hn
    rcases hn with hn | hn
    · have := (key i).mp hn
      simp [Vec.swap, this, assert]
    · have hj := (key j).mp hn
      by_cases hi : i < v.len
      · simp [Vec.swap, hi, hj, assert]
      · simp [Vec.swap, hi, assert]

theorem iter_refines (v : Vec) (h : inv v) : Vec.iter v = .ok (abs v) := by
  obtain ⟨h1, h2⟩ := h
  simp [Vec.iter, iterFrom_ok v.buf v.len 0 (by omega), abs]

/-- what `if self.buf.cap < new_len { realloc }` achieves in `resize` -/
theorem resize_room (v : Vec) (n : Nat) (h : inv v) :
    let v1 : Vec := if v.cap < n then ⟨realloc v.buf v.cap n, n, v.len⟩ else v
    v1.len = v.len ∧ n ≤ v1.cap ∧ v1.len ≤ v1.cap ∧ v1.buf.length = v1.cap ∧
      (∀ j, j < v.len → v1.buf[j]? = v.buf[j]?) := by
  obtain ⟨h1, h2⟩ := h
  by_cases cc : v.cap < n
  · rw [if_pos cc]
    have hb : realloc v.buf v.cap n = v.buf ++ List.replicate (n - v.cap) 0 := by
      simp only [realloc, cc, ↓reduceIte, alloc]
      by_cases hz : 0 < v.cap
      · simp only [hz, ↓reduceIte]; rw [← h2, List.take_length]
      · have : v.cap = 0 := by omega
        have hnil : v.buf = [] := List.eq_nil_of_length_eq_zero (by omega)
        simp [this, hnil]
    refine ⟨rfl, le_refl _, by simp only; omega, by simp only [hb, List.length_append, List.length_replicate]; omega, ?_⟩
    intro j hj
    have : j < v.buf.length := by omega
    simp only [hb, List.getElem?_append, this, ↓reduceIte]
  · rw [if_neg cc]
    exact ⟨rfl, by omega, h1, h2, fun _ _ => rfl⟩

theorem resize_refines (v : Vec) (n x : Nat) (h : inv v) :
    ∃ v', Vec.resize v n x = .ok v' ∧ inv v' ∧ v'.len = n ∧
      abs v' = (if n ≤ (abs v).length then (abs v).take n else abs v ++ List.replicate (n - (abs v).length) x) := by
  have hal := abs_length v h
  have hroom := resize_room v n h
  obtain ⟨h1, h2⟩ := h
  by_cases c : n ≤ v.len
  · refine ⟨⟨v.buf, v.cap, n⟩, by simp [Vec.resize, c], ⟨by simp only; omega, h2⟩, rfl, ?_⟩
    rw [hal, if_pos c]
    simp only [abs, List.take_take, Nat.min_eq_left c]
  · obtain ⟨e1, e2, _, e3, e4⟩ := hroom
    generalize hv1 : (if v.cap < n then (⟨realloc v.buf v.cap n, n, v.len⟩ : Vec) else v) = v1 at e1 e2 e3 e4
    obtain ⟨b', hb, hbl, hbg⟩ := fillLoop_ok (n - v.len) v.len x v1.buf (by omega)
    refine ⟨⟨b', v1.cap, n⟩, ?_, ⟨e2, by simp [hbl, e3]⟩, rfl, ?_⟩
    · simp only [Vec.resize, c, ↓reduceIte, hv1, e1, hb, Res.ok_bind, Res.pure_eq]
    · simp only [hal, c, ↓reduceIte]
      apply List.ext_getElem?
      intro j
      simp only [abs_getElem?, List.getElem?_append, hal, hbg j, List.getElem?_replicate]
      by_cases a1 : j < v.len
      · have a2 : j < n := by omega
        have a3 : ¬ (v.len ≤ j ∧ j < v.len + (n - v.len)) := by omega
        simp [a1, a2, a3, e4 j a1]
      · by_cases a2 : j < n
        · have a3 : v.len ≤ j ∧ j < v.len + (n - v.len) := by omega
          have a4 : j - v.len < n - v.len := by omega
          simp [a1, a2, a3, a4]
        · have a4 : ¬ (j - v.len < n - v.len) := by omega
          simp [a1, a2, a4]

theorem append_refines (v : Vec) (xs : List Nat) (h : inv v) :
    ∃ v', appendBytes v xs = .ok v' ∧ inv v' ∧ abs v' = abs v ++ xs ∧ v'.len = v.len + xs.length := by
  have hroom := resize_room v (v.len + xs.length) h
  obtain ⟨h1, h2⟩ := h
  by_cases c : xs.length = 0
  · have : xs = [] := List.eq_nil_of_length_eq_zero c
    subst this
    exact ⟨v, by simp [appendBytes], ⟨h1, h2⟩, by simp, by simp⟩
  · obtain ⟨e1, e2, _, e3, e4⟩ := hroom
    generalize hv1 : (if v.cap < v.len + xs.length then
      (⟨realloc v.buf v.cap (v.len + xs.length), v.len + xs.length, v.len⟩ : Vec) else v) = v1 at e1 e2 e3 e4
    have hfit : v1.len + xs.length ≤ v1.buf.length := by omega
    refine ⟨⟨v1.buf.take v1.len ++ xs ++ v1.buf.drop (v1.len + xs.length), v1.cap, v.len + xs.length⟩, ?_,
      ⟨e2, ?_⟩, ?_, rfl⟩
    · simp only [appendBytes, c, ↓reduceIte, hv1, hfit, Res.pure_eq]
    · simp only [List.length_append, List.length_take, List.length_drop]; omega
    · apply List.ext_getElem?
      intro j
      have hal := abs_length v ⟨h1, h2⟩
      simp only [abs_getElem?, List.getElem?_append, List.length_append, List.length_take, hal, List.getElem?_take,
        List.getElem?_drop, e1]
      have hmin : min v.len v1.buf.length = v.len := by omega
      simp only [hmin]
      by_cases a1 : j < v.len
      · have a2 : j < v.len + xs.length := by omega
        simp [a1, a2, e4 j a1]
      · by_cases a2 : j < v.len + xs.length
        · simp [a1, a2]
        · have a3 : xs.length ≤ j - v.len := by omega
          simp [a1, a2, List.getElem?_eq_none a3]

theorem splitAt_refines (v : Vec) (mid : Nat) (h : inv v) :
    (mid ≤ v.len → splitAtBytes v mid = .ok ((abs v).take mid, (abs v).drop mid)) ∧
    (¬ mid ≤ v.len → splitAtBytes v mid = .revert FAILED_ASSERT) := by
  obtain ⟨h1, h2⟩ := h
  constructor
  · intro hm
    have hfit : v.len ≤ v.buf.length := by omega
    simp only [splitAtBytes, hm, decide_true, assert, ↓reduceIte, Res.ok_bind, hfit, Res.pure_eq, abs,
      List.take_take, Nat.min_eq_left hm, List.drop_take]
  · intro hm
    simp [splitAtBytes, hm, assert]

end SwayVerif.StdVec
