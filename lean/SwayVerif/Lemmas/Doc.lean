import SwayVerif.Model.Doc
/-! Helper lemmas for C23 (`Props/C23.lean`). -/
namespace SwayVerif.Doc

end SwayVerif.Doc
