import SwayVerif.Model.Doc
/-! Helper lemmas for C23 (`Props/C23.lean`). -/
namespace SwayVerif.Doc

/-! ## Byte lengths -/

theorem u8len_pos (c : Char) : 0 < u8len c := by
  unfold u8len
  split
  · omega
  · split
    · omega
    · split <;> omega

theorem u8len_newline : u8len '\n' = 1 := by decide

@[simp] theorem blen_nil : blen [] = 0 := rfl
@[simp] theorem blen_cons (c : Char) (cs : List Char) : blen (c :: cs) = u8len c + blen cs := rfl

theorem blen_append (a b : List Char) : blen (a ++ b) = blen a + blen b := by
  induction a with
  | nil => simp
  | cons c cs ih => simp [ih, Nat.add_assoc]

theorem blen_pos_of_ne_nil {m : List Char} (h : m ≠ []) : 0 < blen m := by
  cases m with
  | nil => exact absurd rfl h
  | cons c cs => have := u8len_pos c; simp; omega

/-! ## Splitting at byte offsets -/

theorem splitAtByte_zero (s : List Char) : splitAtByte s 0 = some ([], s) := by
  cases s <;> rfl

theorem splitAtByte_cons_pos (c : Char) (cs : List Char) (n : Nat) (h : 0 < n) :
    splitAtByte (c :: cs) n =
      if n < u8len c then none
      else match splitAtByte cs (n - u8len c) with
        | some (a, b) => some (c :: a, b)
        | none => none := by
  cases n with
  | zero => omega
  | succ n => rfl

theorem splitAtByte_append (p q : List Char) : splitAtByte (p ++ q) (blen p) = some (p, q) := by
  induction p with
  | nil => simp [splitAtByte_zero]
  | cons c cs ih =>
    have h := u8len_pos c
    rw [List.cons_append, splitAtByte_cons_pos _ _ _ (by simp; omega)]
    have h1 : ¬ (blen (c :: cs) < u8len c) := by simp
    have h2 : blen (c :: cs) - u8len c = blen cs := by simp
    rw [if_neg h1, h2, ih]

theorem sliceBytes_append (p m q : List Char) :
    sliceBytes (p ++ (m ++ q)) (blen p) (blen p + blen m) = some m := by
  unfold sliceBytes
  have h1 : ¬ (blen p + blen m < blen p) := by omega
  have h2 : blen p + blen m - blen p = blen m := by omega
  rw [if_neg h1, splitAtByte_append, h2]
  simp only [splitAtByte_append]

theorem replaceRange_append (p m q t : List Char) :
    replaceRange (p ++ (m ++ q)) (blen p) (blen p + blen m) t = some (p ++ t ++ q) := by
  unfold replaceRange
  have h1 : ¬ (blen p + blen m < blen p) := by omega
  have h2 : blen p + blen m - blen p = blen m := by omega
  rw [if_neg h1, splitAtByte_append, h2]
  simp only [splitAtByte_append]

/-! ## Lines -/

theorem breakLine_some {s l r : List Char} (h : breakLine s = some (l, r)) (i : Nat) :
    s = l ++ r ∧ lineOffsetsAux s i = (i + blen l) :: lineOffsetsAux r (i + blen l) := by
  induction s generalizing l i with
  | nil => simp [breakLine] at h
  | cons c cs ih =>
    unfold breakLine at h
    split at h
    · rename_i hc
      simp only [Option.some.injEq, Prod.mk.injEq] at h
      obtain ⟨rfl, rfl⟩ := h
      subst hc
      simp [lineOffsetsAux, u8len_newline]
    · rename_i hc
      split at h
      · rename_i l' r' hb
        simp only [Option.some.injEq, Prod.mk.injEq] at h
        obtain ⟨rfl, rfl⟩ := h
        obtain ⟨h1, h2⟩ := ih hb (i + u8len c)
        refine ⟨by simp [← h1], ?_⟩
        simp only [lineOffsetsAux, if_neg hc, h2, blen_cons, Nat.add_assoc]
      · simp at h

theorem breakLine_none {s : List Char} (h : breakLine s = none) (i : Nat) :
    lineOffsetsAux s i = [] := by
  induction s generalizing i with
  | nil => rfl
  | cons c cs ih =>
    unfold breakLine at h
    split at h
    · simp at h
    · rename_i hc
      split at h
      · simp at h
      · rename_i hb
        simp only [lineOffsetsAux, if_neg hc]
        exact ih hb _

theorem stripSuffixChar_prefix (s : List Char) (ch : Char) : ∃ t, s = stripSuffixChar s ch ++ t := by
  unfold stripSuffixChar
  split
  · rename_i c r h
    split
    · refine ⟨[c], ?_⟩
      have : s = (c :: r).reverse := by rw [← h, List.reverse_reverse]
      simpa using this
    · exact ⟨[], by simp⟩
  · exact ⟨[], by simp⟩

/-! ## Columns -/

theorem walkLine_gt (cs : List Char) (idx u t : Nat) (h : t < u) : walkLine cs idx u t = none := by
  cases cs with
  | nil => simp [walkLine, h]
  | cons c cs =>
    have h1 : u ≠ t := by omega
    simp [walkLine, h, h1]

theorem walkLine_eq (cs : List Char) (idx u col : Nat) :
    walkLine cs idx u (u + col) = (colPrefix cs col).map (fun p => idx + blen p) := by
  induction cs generalizing idx u col with
  | nil =>
    have h : ¬ (u > u + col) := by omega
    cases col <;> simp [walkLine, colPrefix]
  | cons c cs ih =>
    cases col with
    | zero => simp [walkLine, colPrefix]
    | succ k =>
      have h1 : u ≠ u + (k + 1) := by omega
      have h2 : ¬ (u > u + (k + 1)) := by omega
      simp only [walkLine, colPrefix, if_neg h1, if_neg h2]
      by_cases h3 : k + 1 < u16len c
      · rw [if_pos h3, walkLine_gt _ _ _ _ (by omega)]
        rfl
      · rw [if_neg h3]
        have h4 : u + (k + 1) = (u + u16len c) + (k + 1 - u16len c) := by omega
        rw [h4, ih]
        cases colPrefix cs (k + 1 - u16len c) with
        | none => rfl
        | some p => simp [Nat.add_assoc]

theorem colPrefix_prefix {cs : List Char} {col : Nat} {p : List Char}
    (h : colPrefix cs col = some p) : ∃ q, cs = p ++ q := by
  induction cs generalizing col p with
  | nil =>
    cases col <;> simp [colPrefix] at h <;> subst h <;> exact ⟨[], rfl⟩
  | cons c cs ih =>
    cases col with
    | zero =>
      simp [colPrefix] at h
      subst h
      exact ⟨_, rfl⟩
    | succ k =>
      simp only [colPrefix] at h
      split at h
      · simp at h
      · split at h
        · rename_i p' hp
          simp only [Option.some.injEq] at h
          subst h
          obtain ⟨q, hq⟩ := ih hp
          exact ⟨q, by simp [← hq]⟩
        · simp at h

theorem walkLine_zero (cs : List Char) (idx col : Nat) :
    walkLine cs idx 0 col = (colPrefix cs col).map (fun p => idx + blen p) := by
  simpa using walkLine_eq cs idx 0 col

theorem firstLineContent_prefix (s : List Char) : ∃ t, s = firstLineContent s ++ t := by
  unfold firstLineContent
  cases hb : breakLine s with
  | none =>
    obtain ⟨t1, h1⟩ := stripSuffixChar_prefix s '\n'
    obtain ⟨t2, h2⟩ := stripSuffixChar_prefix (stripSuffixChar s '\n') '\r'
    exact ⟨t2 ++ t1, by rw [← List.append_assoc, ← h2, ← h1]⟩
  | some lr =>
    obtain ⟨l, r⟩ := lr
    obtain ⟨hs, _⟩ := breakLine_some hb 0
    obtain ⟨t1, h1⟩ := stripSuffixChar_prefix l '\n'
    obtain ⟨t2, h2⟩ := stripSuffixChar_prefix (stripSuffixChar l '\n') '\r'
    refine ⟨t2 ++ t1 ++ r, ?_⟩
    simp only
    rw [← List.append_assoc, ← List.append_assoc, ← h2, ← h1, hs]

/-! ## Positions -/

theorem tryPositionToIndex_cons_succ (content : List Char) (x : Nat) (offs : List Nat) (line col : Nat) :
    tryPositionToIndex content (x :: offs) ⟨line + 1, col⟩ = tryPositionToIndex content offs ⟨line, col⟩ := by
  simp [tryPositionToIndex]

theorem tryPositionToIndex_line_zero (pre s : List Char) (col : Nat) :
    tryPositionToIndex (pre ++ s) (blen pre :: lineOffsetsAux s (blen pre)) ⟨0, col⟩
      = some ((clientPrefix s 0 col).map (fun p => blen pre + blen p)) := by
  cases hb : breakLine s with
  | none =>
    have hs := sliceBytes_append pre s []
    simp only [List.append_nil] at hs
    simp [tryPositionToIndex, breakLine_none hb, blen_append, hs, walkLine_zero, clientPrefix,
      firstLineContent, hb]
  | some lr =>
    obtain ⟨l, r⟩ := lr
    obtain ⟨hs, ho⟩ := breakLine_some hb (blen pre)
    have hsl := sliceBytes_append pre l r
    rw [← hs] at hsl
    simp [tryPositionToIndex, ho, hsl, walkLine_zero, clientPrefix, firstLineContent, hb]

theorem tryPositionToIndex_eq (pre s : List Char) (line col : Nat) :
    tryPositionToIndex (pre ++ s) (blen pre :: lineOffsetsAux s (blen pre)) ⟨line, col⟩
      = some ((clientPrefix s line col).map (fun p => blen pre + blen p)) := by
  induction line generalizing pre s with
  | zero => exact tryPositionToIndex_line_zero pre s col
  | succ line ih =>
    cases hb : breakLine s with
    | none =>
      simp [tryPositionToIndex, breakLine_none hb, clientPrefix, hb, blen_append]
    | some lr =>
      obtain ⟨l, r⟩ := lr
      obtain ⟨hs, ho⟩ := breakLine_some hb (blen pre)
      have := ih (pre ++ l) r
      rw [blen_append, List.append_assoc, ← hs] at this
      rw [ho, tryPositionToIndex_cons_succ, this]
      simp only [clientPrefix, hb]
      cases clientPrefix r line col with
      | none => rfl
      | some p => simp [blen_append, Nat.add_assoc]

theorem clientPrefix_prefix {s : List Char} {line col : Nat} {p : List Char}
    (h : clientPrefix s line col = some p) : ∃ q, s = p ++ q := by
  induction line generalizing s p with
  | zero =>
    simp only [clientPrefix] at h
    obtain ⟨q, hq⟩ := colPrefix_prefix h
    obtain ⟨t, ht⟩ := firstLineContent_prefix s
    exact ⟨q ++ t, by rw [← List.append_assoc, ← hq, ← ht]⟩
  | succ line ih =>
    simp only [clientPrefix] at h
    split at h
    · simp only [Option.some.injEq] at h
      exact ⟨[], by simp [h]⟩
    · rename_i l r hb
      obtain ⟨hs, _⟩ := breakLine_some hb 0
      split at h
      · rename_i p' hp
        simp only [Option.some.injEq] at h
        obtain ⟨q, hq⟩ := ih hp
        exact ⟨q, by rw [hs, ← h, List.append_assoc, ← hq]⟩
      · simp at h

theorem tryPositionToIndex_doc (doc : List Char) (pos : Pos) :
    tryPositionToIndex doc (lineOffsets doc) pos
      = some ((clientPrefix doc pos.line pos.character).map blen) := by
  have := tryPositionToIndex_eq [] doc pos.line pos.character
  simpa [lineOffsets] using this

/-! ## Prefix comparison -/

theorem prefix_len_le_iff {doc p p' q q' : List Char} (hp : doc = p ++ p') (hq : doc = q ++ q') :
    p.length ≤ q.length ↔ blen p ≤ blen q := by
  have hpp : p <+: doc := ⟨p', hp.symm⟩
  have hqp : q <+: doc := ⟨q', hq.symm⟩
  constructor
  · intro h
    obtain ⟨m, hm⟩ := List.prefix_of_prefix_length_le hpp hqp h
    rw [← hm, blen_append]; omega
  · intro h
    by_cases hl : p.length ≤ q.length
    · exact hl
    · exfalso
      obtain ⟨m, hm⟩ := List.prefix_of_prefix_length_le hqp hpp (by omega)
      have hne : m ≠ [] := by
        intro h0; subst h0; simp at hm; subst hm; omega
      have := blen_pos_of_ne_nil hne
      rw [← hm, blen_append] at h; omega

/-! ## Server = client -/

theorem serverApplyRange_eq (doc : List Char) (r : Range) (text : List Char) :
    serverApplyRange doc r text =
      match clientApplyRange doc r text with
      | some d => .ok d
      | none => .err := by
  unfold serverApplyRange clientApplyRange
  simp only [tryPositionToIndex_doc]
  cases hp : clientPrefix doc r.start.line r.start.character with
  | none => cases hq : clientPrefix doc r.stop.line r.stop.character <;> rfl
  | some p =>
    cases hq : clientPrefix doc r.stop.line r.stop.character with
    | none => rfl
    | some q =>
      obtain ⟨p', hp'⟩ := clientPrefix_prefix hp
      obtain ⟨q', hq'⟩ := clientPrefix_prefix hq
      have hiff := prefix_len_le_iff hp' hq'
      have hqd : blen q ≤ blen doc := by rw [hq', blen_append]; omega
      simp only [Option.map_some]
      by_cases hl : p.length ≤ q.length
      · have hb := hiff.mp hl
        obtain ⟨m, hm⟩ := List.prefix_of_prefix_length_le ⟨p', hp'.symm⟩ ⟨q', hq'.symm⟩ hl
        have hdoc : doc = p ++ (m ++ q') := by rw [← List.append_assoc, hm]; exact hq'
        have hrr := replaceRange_append p m q' text
        rw [← hdoc, ← blen_append, hm] at hrr
        have hdrop : doc.drop q.length = q' := by rw [hq']; simp
        have hcond : (decide (blen p > blen q) || decide (blen q > blen doc)) = false := by
          simp; omega
        simp only [hcond, hrr, if_pos hl, hdrop]
        rfl
      · have hb : ¬ blen p ≤ blen q := fun h => hl (hiff.mpr h)
        have hcond : (decide (blen p > blen q) || decide (blen q > blen doc)) = true := by
          simp; omega
        simp only [hcond, if_neg hl]
        rfl

theorem serverApply_eq (doc : List Char) (r : Option Range) (text : List Char) :
    serverApply doc r text =
      match clientApply doc r text with
      | some d => .ok d
      | none => .err := by
  cases r with
  | none => rfl
  | some r => exact serverApplyRange_eq doc r text

end SwayVerif.Doc
