import SwayVerif.Model.Determ
/-! Helper lemmas for C15 (`Props/C15.lean`). -/
namespace SwayVerif.Determ

/-! ## `candCmp` is the lexicographic order on `(prio, reg, idx)` -/

theorem natCompare_cases (a b : Nat) :
    (a < b ∧ compare a b = .lt) ∨ (a = b ∧ compare a b = .eq) ∨ (b < a ∧ compare a b = .gt) := by
  rcases Nat.lt_trichotomy a b with h | h | h
  · exact .inl ⟨h, Nat.compare_eq_lt.mpr h⟩
  · exact .inr (.inl ⟨h, Nat.compare_eq_eq.mpr h⟩)
  · exact .inr (.inr ⟨h, Nat.compare_eq_gt.mpr h⟩)

theorem candCmp_gt_iff (a b : Cand) :
    candCmp a b = .gt ↔
      b.prio < a.prio ∨ (a.prio = b.prio ∧ (b.reg < a.reg ∨ (a.reg = b.reg ∧ b.idx < a.idx))) := by
  unfold candCmp
  rcases natCompare_cases a.prio b.prio with ⟨h1, e1⟩ | ⟨h1, e1⟩ | ⟨h1, e1⟩ <;> rw [e1] <;> simp only
  · simp; omega
  · rcases natCompare_cases a.reg b.reg with ⟨h2, e2⟩ | ⟨h2, e2⟩ | ⟨h2, e2⟩ <;> rw [e2] <;> simp only
    · simp; omega
    · rcases natCompare_cases a.idx b.idx with ⟨h3, e3⟩ | ⟨h3, e3⟩ | ⟨h3, e3⟩ <;> rw [e3] <;> simp <;> omega
    · simp; omega
  · simp; omega

theorem candCmp_eq_iff' (a b : Cand) : candCmp a b = .eq ↔ a = b := by
  have hext : a = b ↔ (a.prio = b.prio ∧ a.reg = b.reg ∧ a.idx = b.idx) := by
    cases a; cases b; simp
  rw [hext]
  unfold candCmp
  rcases natCompare_cases a.prio b.prio with ⟨h1, e1⟩ | ⟨h1, e1⟩ | ⟨h1, e1⟩ <;> rw [e1] <;> simp only
  · simp; omega
  · rcases natCompare_cases a.reg b.reg with ⟨h2, e2⟩ | ⟨h2, e2⟩ | ⟨h2, e2⟩ <;> rw [e2] <;> simp only
    · simp; omega
    · rcases natCompare_cases a.idx b.idx with ⟨h3, e3⟩ | ⟨h3, e3⟩ | ⟨h3, e3⟩ <;> rw [e3] <;> simp <;> omega
    · simp; omega
  · simp; omega

/-- `a ≤ b` for the comparator: `a` does not compare `Greater` than `b`. -/
def candLe (a b : Cand) : Prop := candCmp a b ≠ .gt

theorem candLe_iff (a b : Cand) :
    candLe a b ↔
      a.prio < b.prio ∨ (a.prio = b.prio ∧ (a.reg < b.reg ∨ (a.reg = b.reg ∧ a.idx ≤ b.idx))) := by
  unfold candLe
  rw [Ne, candCmp_gt_iff]
  omega

theorem candLe_refl (a : Cand) : candLe a a := by rw [candLe_iff]; omega

theorem candLe_trans {a b c : Cand} (h1 : candLe a b) (h2 : candLe b c) : candLe a c := by
  rw [candLe_iff] at *; omega

theorem candLe_antisymm {a b : Cand} (h1 : candLe a b) (h2 : candLe b a) : a = b := by
  rw [candLe_iff] at *
  cases a; cases b; simp at *; omega

theorem candLe_of_gt {a b : Cand} (h : candCmp a b = .gt) : candLe b a := by
  rw [candCmp_gt_iff] at h; rw [candLe_iff]; omega

/-! ## `maxBy candCmp` returns the maximum -/

theorem foldMax_spec (xs : List Cand) (x : Cand) :
    let m := xs.foldl (fun m y => if candCmp m y = .gt then m else y) x
    m ∈ x :: xs ∧ ∀ y ∈ x :: xs, candLe y m := by
  induction xs generalizing x with
  | nil => simp [candLe_refl]
  | cons y ys ih =>
    intro m
    have hm : m = ys.foldl (fun m y => if candCmp m y = .gt then m else y)
        (if candCmp x y = .gt then x else y) := rfl
    have ih' := ih (if candCmp x y = .gt then x else y)
    simp only at ih'
    rw [← hm] at ih'
    obtain ⟨hmem, hmax⟩ := ih'
    by_cases hc : candCmp x y = .gt
    · rw [if_pos hc] at hmem hmax
      refine ⟨?_, ?_⟩
      · rcases List.mem_cons.mp hmem with h | h
        · exact h ▸ List.mem_cons_self
        · exact List.mem_cons_of_mem _ (List.mem_cons_of_mem _ h)
      · intro z hz
        rcases List.mem_cons.mp hz with h | h
        · exact h ▸ hmax x List.mem_cons_self
        · rcases List.mem_cons.mp h with h | h
          · exact h ▸ candLe_trans (candLe_of_gt hc) (hmax x List.mem_cons_self)
          · exact hmax z (List.mem_cons_of_mem _ h)
    · rw [if_neg hc] at hmem hmax
      refine ⟨List.mem_cons_of_mem _ hmem, ?_⟩
      intro z hz
      rcases List.mem_cons.mp hz with h | h
      · exact h ▸ candLe_trans hc (hmax y List.mem_cons_self)
      · exact hmax z h

theorem maxBy_candCmp_spec {l : List Cand} {m : Cand} (h : maxBy candCmp l = some m) :
    m ∈ l ∧ ∀ y ∈ l, candLe y m := by
  cases l with
  | nil => simp [maxBy] at h
  | cons x xs =>
    simp only [maxBy, Option.some.injEq] at h
    exact h ▸ foldMax_spec xs x

theorem maxBy_candCmp_perm {l₁ l₂ : List Cand} (h : l₁.Perm l₂) :
    maxBy candCmp l₁ = maxBy candCmp l₂ := by
  cases h1 : maxBy candCmp l₁ with
  | none =>
    cases l₁ with
    | nil => rw [← h.nil_eq]; rfl
    | cons x xs => simp [maxBy] at h1
  | some m₁ =>
    cases h2 : maxBy candCmp l₂ with
    | none =>
      cases l₂ with
      | nil => rw [h.eq_nil] at h1; simp [maxBy] at h1
      | cons x xs => simp [maxBy] at h2
    | some m₂ =>
      obtain ⟨hm1, hx1⟩ := maxBy_candCmp_spec h1
      obtain ⟨hm2, hx2⟩ := maxBy_candCmp_spec h2
      have a := hx2 m₁ (h.subset hm1)
      have b := hx1 m₂ (h.symm.subset hm2)
      rw [candLe_antisymm a b]

/-! ## sorting -/

theorem mergeSort_natLe_perm {s₁ s₂ : List Nat} (h : s₁.Perm s₂) :
    s₁.mergeSort (fun a b => decide (a ≤ b)) = s₂.mergeSort (fun a b => decide (a ≤ b)) := by
  have hs : ∀ l : List Nat, (l.mergeSort (fun a b => decide (a ≤ b))).Pairwise
      (fun a b => decide (a ≤ b) = true) :=
    List.pairwise_mergeSort (le := fun a b => decide (a ≤ b))
      (by intro a b c; simp; omega) (by intro a b; simp; omega)
  refine List.Perm.eq_of_pairwise (le := fun a b => decide (a ≤ b) = true) ?_ (hs s₁) (hs s₂) ?_
  · intro a b _ _; simp; omega
  · exact (List.mergeSort_perm s₁ _).trans (h.trans (List.mergeSort_perm s₂ _).symm)

theorem mergeSort_field_perm {v₁ v₂ : List (Nat × Nat)} (h : v₁.Perm v₂)
    (hinj : ∀ a ∈ v₁, ∀ b ∈ v₁, a.2 = b.2 → a = b) :
    v₁.mergeSort (fun a b => decide (a.2 ≤ b.2)) = v₂.mergeSort (fun a b => decide (a.2 ≤ b.2)) := by
  have hs : ∀ l : List (Nat × Nat), (l.mergeSort (fun a b => decide (a.2 ≤ b.2))).Pairwise
      (fun a b => decide (a.2 ≤ b.2) = true) :=
    List.pairwise_mergeSort (le := fun a b : Nat × Nat => decide (a.2 ≤ b.2))
      (by intro a b c; simp; omega) (by intro a b; simp; omega)
  have p1 := List.mergeSort_perm v₁ (fun a b => decide (a.2 ≤ b.2))
  have p2 := List.mergeSort_perm v₂ (fun a b => decide (a.2 ≤ b.2))
  refine List.Perm.eq_of_pairwise (le := fun a b : Nat × Nat => decide (a.2 ≤ b.2) = true)
    ?_ (hs v₁) (hs v₂) ?_
  · intro a b ha hb hab hba
    have ha' : a ∈ v₁ := p1.subset ha
    have hb' : b ∈ v₁ := h.symm.subset (p2.subset hb)
    simp at hab hba
    exact hinj a ha' b hb' (by omega)
  · exact p1.trans (h.trans p2.symm)

/-! ## `enumFrom` and slots -/

theorem mem_slots {k : Nat} {l : List Nat} {i : Nat} {p : Nat × Nat}
    (h : p ∈ (enumFrom i l).map (fun (x : Nat × Nat) => (x.2, x.1 * 8 + k))) :
    ∃ j, i ≤ j ∧ p.2 = j * 8 + k ∧ p.1 ∈ l := by
  induction l generalizing i with
  | nil => simp [enumFrom] at h
  | cons x xs ih =>
    simp only [enumFrom, List.map_cons, List.mem_cons] at h
    rcases h with h | h
    · subst h; exact ⟨i, Nat.le_refl _, rfl, List.mem_cons_self⟩
    · obtain ⟨j, hj, e, hm⟩ := ih h
      exact ⟨j, by omega, e, List.mem_cons_of_mem _ hm⟩

theorem slots_nodup (k : Nat) (l : List Nat) (i : Nat) :
    (((enumFrom i l).map (fun (x : Nat × Nat) => (x.2, x.1 * 8 + k))).map Prod.snd).Nodup := by
  induction l generalizing i with
  | nil => simp [enumFrom]
  | cons x xs ih =>
    simp only [enumFrom, List.map_cons, List.nodup_cons]
    refine ⟨?_, ih (i + 1)⟩
    intro hmem
    obtain ⟨p, hp, e⟩ := List.mem_map.mp hmem
    obtain ⟨j, hj, e', _⟩ := mem_slots hp
    omega

/-! ## `find?` with at most one match -/

theorem find?_perm_of_unique {α : Type} (p : α → Bool) {l₁ l₂ : List α} (h : l₁.Perm l₂)
    (huniq : ∀ a ∈ l₁, ∀ b ∈ l₁, p a = true → p b = true → a = b) :
    l₁.find? p = l₂.find? p := by
  cases h1 : l₁.find? p with
  | none =>
    cases h2 : l₂.find? p with
    | none => rfl
    | some b =>
      have := List.find?_eq_none.mp h1 b (h.symm.subset (List.mem_of_find?_eq_some h2))
      exact absurd (List.find?_some h2) this
  | some a =>
    cases h2 : l₂.find? p with
    | none =>
      have := List.find?_eq_none.mp h2 a (h.subset (List.mem_of_find?_eq_some h1))
      exact absurd (List.find?_some h1) this
    | some b =>
      rw [huniq a (List.mem_of_find?_eq_some h1) b
        (h.symm.subset (List.mem_of_find?_eq_some h2)) (List.find?_some h1) (List.find?_some h2)]

/-! ## DFS closure -/

/-- `x` is reachable from `f` following `succ` edges. -/
inductive Reach (succ : Nat → List Nat) (f : Nat) : Nat → Prop
  | refl : Reach succ f f
  | step {y x : Nat} : Reach succ f y → x ∈ succ y → Reach succ f x

theorem Reach.head {succ : Nat → List Nat} {f g x : Nat} (hg : g ∈ succ f) (h : Reach succ g x) :
    Reach succ f x := by
  induction h with
  | refl => exact .step .refl hg
  | step _ hx ih => exact .step ih hx

theorem Reach.congr {succ₁ succ₂ : Nat → List Nat} (hs : ∀ f x, x ∈ succ₁ f → x ∈ succ₂ f)
    {f x : Nat} (h : Reach succ₁ f x) : Reach succ₂ f x := by
  induction h with
  | refl => exact .refl
  | step _ hx ih => exact .step ih (hs _ _ hx)

/-- number of nodes `< n` not yet visited -/
def unv (n : Nat) (vis : List Nat) : Nat := (List.range n).countP (fun i => !vis.contains i)

theorem unv_mono {n : Nat} {v w : List Nat} (h : ∀ x ∈ v, x ∈ w) : unv n w ≤ unv n v := by
  unfold unv
  apply List.countP_mono_left
  intro x _ hx
  simp at hx ⊢
  exact fun hv => hx (h x hv)

theorem countP_lt_of_mem {α : Type} {p q : α → Bool} {l : List α} (hpq : ∀ x ∈ l, p x → q x)
    {a : α} (ha : a ∈ l) (hq : q a = true) (hp : p a = false) : l.countP p < l.countP q := by
  induction l with
  | nil => simp at ha
  | cons y ys ih =>
    have hmono : ys.countP p ≤ ys.countP q :=
      List.countP_mono_left (fun x hx => hpq x (List.mem_cons_of_mem _ hx))
    rcases List.mem_cons.mp ha with h | h
    · subst h
      rw [List.countP_cons_of_pos hq, List.countP_cons_of_neg (by simp [hp])]
      omega
    · have := ih (fun x hx => hpq x (List.mem_cons_of_mem _ hx)) h
      rw [List.countP_cons, List.countP_cons]
      have : p y = true → q y = true := hpq y List.mem_cons_self
      by_cases hpy : p y = true
      · simp [hpy, this hpy]; omega
      · by_cases hqy : q y = true <;> simp [hpy, hqy] <;> omega

theorem unv_cons_lt {n f : Nat} {vis : List Nat} (hf : f < n) (hnot : f ∉ vis) :
    unv n (f :: vis) < unv n vis := by
  unfold unv
  apply countP_lt_of_mem (a := f)
  · intro x _ hx
    simp at hx ⊢
    exact hx.2
  · exact List.mem_range.mpr hf
  · simpa using hnot
  · simp

/-- Specification of one DFS call with result `R`. -/
def GrowSpec (succ : Nat → List Nat) (f : Nat) (vis R : List Nat) : Prop :=
  (∀ x ∈ vis, x ∈ R) ∧ f ∈ R ∧
    ∀ x ∈ R, x ∈ vis ∨ (Reach succ f x ∧ ∀ y ∈ succ x, y ∈ R)

theorem fold_spec (succ : Nat → List Nat) (n fuel : Nat)
    (ih : ∀ f vis, f < n → unv n vis < fuel → GrowSpec succ f vis (grow succ fuel f vis))
    (gs : List Nat) (hgs : ∀ g ∈ gs, g < n) (V : List Nat) (hV : unv n V < fuel) :
    let R := gs.foldl (fun vis g => grow succ fuel g vis) V
    (∀ x ∈ V, x ∈ R) ∧ (∀ g ∈ gs, g ∈ R) ∧
      ∀ x ∈ R, x ∈ V ∨ ((∃ g ∈ gs, Reach succ g x) ∧ ∀ y ∈ succ x, y ∈ R) := by
  induction gs generalizing V with
  | nil => simp
  | cons g gs ihg =>
    intro R
    have hR : R = gs.foldl (fun vis g => grow succ fuel g vis) (grow succ fuel g V) := rfl
    obtain ⟨s1, s2, s3⟩ := ih g V (hgs g List.mem_cons_self) hV
    have hV1 : unv n (grow succ fuel g V) < fuel := Nat.lt_of_le_of_lt (unv_mono s1) hV
    have ih' := ihg (fun g hg => hgs g (List.mem_cons_of_mem _ hg)) (grow succ fuel g V) hV1
    simp only at ih'
    rw [← hR] at ih'
    obtain ⟨t1, t2, t3⟩ := ih'
    refine ⟨fun x hx => t1 x (s1 x hx), ?_, ?_⟩
    · intro g' hg'
      rcases List.mem_cons.mp hg' with h | h
      · exact h ▸ t1 g s2
      · exact t2 g' h
    · intro x hx
      rcases t3 x hx with h | ⟨⟨g', hg', hr⟩, hc⟩
      · rcases s3 x h with h' | ⟨hr, hc⟩
        · exact .inl h'
        · exact .inr ⟨⟨g, List.mem_cons_self, hr⟩, fun y hy => t1 y (hc y hy)⟩
      · exact .inr ⟨⟨g', List.mem_cons_of_mem _ hg', hr⟩, hc⟩

theorem grow_spec (succ : Nat → List Nat) (n : Nat) (hbound : ∀ f, ∀ g ∈ succ f, g < n)
    (fuel : Nat) : ∀ f vis, f < n → unv n vis < fuel →
      GrowSpec succ f vis (grow succ fuel f vis) := by
  induction fuel with
  | zero => intro f vis _ h; omega
  | succ fuel ih =>
    intro f vis hf hfuel
    by_cases hmem : f ∈ vis
    · have : grow succ (fuel + 1) f vis = vis := by simp [grow, hmem]
      rw [this]
      exact ⟨fun x hx => hx, hmem, fun x hx => .inl hx⟩
    · have : grow succ (fuel + 1) f vis =
          (succ f).foldl (fun vis g => grow succ fuel g vis) (f :: vis) := by simp [grow, hmem]
      rw [this]
      have hV : unv n (f :: vis) < fuel := by
        have := unv_cons_lt hf hmem
        omega
      obtain ⟨t1, t2, t3⟩ := fold_spec succ n fuel ih (succ f) (hbound f) (f :: vis) hV
      refine ⟨fun x hx => t1 x (List.mem_cons_of_mem _ hx), t1 f List.mem_cons_self, ?_⟩
      intro x hx
      rcases t3 x hx with h | ⟨⟨g, hg, hr⟩, hc⟩
      · rcases List.mem_cons.mp h with h | h
        · subst h; exact .inr ⟨.refl, t2⟩
        · exact .inl h
      · exact .inr ⟨hr.head hg, hc⟩

theorem unv_nil (n : Nat) : unv n [] = n := by
  unfold unv
  simp

theorem mem_grow_iff_reach (succ : Nat → List Nat) (n : Nat) (hbound : ∀ f, ∀ g ∈ succ f, g < n)
    (f : Nat) (hf : f < n) (x : Nat) : x ∈ grow succ (n + 1) f [] ↔ Reach succ f x := by
  obtain ⟨_, s2, s3⟩ := grow_spec succ n hbound (n + 1) f [] hf (by rw [unv_nil]; omega)
  constructor
  · intro hx
    rcases s3 x hx with h | ⟨h, _⟩
    · simp at h
    · exact h
  · intro hr
    induction hr with
    | refl => exact s2
    | step _ hx ih =>
      rcases s3 _ ih with h | ⟨_, hc⟩
      · simp at h
      · exact hc _ hx

end SwayVerif.Determ
