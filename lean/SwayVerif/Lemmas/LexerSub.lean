import SwayVerif.Lemmas.Lexer
/-! Specifications of the sub-lexers of `Model/Lexer.lean` (block comments, escapes, strings, chars, integers). -/
namespace SwayVerif.Lexer

/-! ## Block comments -/

def BlockPost (text : List CC) (lo pos : Nat) (r : List CC) : BlockRes → Prop
  | .closed a b _ p2 r2 => Adv pos r p2 r2 ∧ Bd text a ∧ lo ≤ a ∧ a ≤ b ∧ b = p2
  | .unclosed top p2 => Adv pos r p2 [] ∧ Bd text top ∧ top < p2
  | .bad _ => False

theorem BlockPost.mono {text : List CC} {lo pos p' : Nat} {r r' : List CC} {res : BlockRes}
    (a : Adv pos r p' r') (h : BlockPost text lo p' r' res) : BlockPost text lo pos r res := by
  cases res with
  | closed a' b ml p2 r2 => exact ⟨a.trans h.1, h.2⟩
  | unclosed top p2 => exact ⟨a.trans h.1, h.2⟩
  | bad p => exact h

theorem blockLoop_spec {text : List CC} {lo : Nat} (r : List CC) (pos : Nat) (stack : List Nat) (ml : Bool)
    (h : Suf text pos r) (hs : stack ≠ []) (hst : ∀ i ∈ stack, Bd text i ∧ lo ≤ i ∧ i < pos) :
    BlockPost text lo pos r (blockLoop r pos stack ml) := by
  fun_induction blockLoop r pos stack ml
  case case1 pos ml top tail =>
    have := hst top (by simp)
    exact ⟨Adv.refl _ _, this.1, this.2.2⟩
  case case2 => simp at hs
  case case3 x pos ml p1 hx top tail =>
    have := hst top (by simp)
    have hp := u8len_pos x.c
    exact ⟨Adv.cons _ _ _, this.1, by simp only [p1]; omega⟩
  case case4 => simp at hs
  case case5 => simp at hs
  case case6 x pos ml p1 hx y xs p2 hy start st hemp =>
    have := hst start (by simp)
    have hy1 : u8len y.c = 1 := by rw [hy]; exact u8len_slash
    have hp := u8len_pos x.c
    exact ⟨Adv.cons2 _ _ _ _, this.1, this.2.1, by simp only [p1]; omega, by simp only [p2, p1]; omega⟩
  case case7 x pos ml p1 hx y xs p2 hy start st hne ih =>
    have hp := u8len_pos x.c
    have hq := u8len_pos y.c
    refine BlockPost.mono (Adv.cons2 _ _ _ _) (ih h.cons.cons ?_ ?_)
    · intro e; subst e; simp at hne
    · intro i hi
      have := hst i (by simp [hi])
      exact ⟨this.1, this.2.1, by simp only [p2, p1]; omega⟩
  case case8 x pos stack ml p1 hx y xs p2 hy ih =>
    have hp := u8len_pos x.c
    refine BlockPost.mono (Adv.cons2 _ _ _ _) (ih h.cons.cons hs ?_)
    intro i hi
    have := hst i hi
    exact ⟨this.1, this.2.1, by simp only [p2, p1]; omega⟩
  case case9 x pos ml p1 hx hx2 top tail =>
    have := hst top (by simp)
    have hp := u8len_pos x.c
    exact ⟨Adv.cons _ _ _, this.1, by simp only [p1]; omega⟩
  case case10 => simp at hs
  case case11 x pos stack ml p1 hx hx2 y xs p2 hy ih =>
    have hp := u8len_pos x.c
    refine BlockPost.mono (Adv.cons2 _ _ _ _) (ih h.cons.cons (by simp) ?_)
    intro i hi
    simp at hi
    rcases hi with hi | hi
    · subst hi
      obtain ⟨top, hstk⟩ : ∃ t, t ∈ stack := by
        cases stack with
        | nil => exact absurd rfl hs
        | cons t _ => exact ⟨t, by simp⟩
      have := hst top hstk
      exact ⟨h.bd, by omega, by simp only [p2, p1]; omega⟩
    · have := hst i hi
      exact ⟨this.1, this.2.1, by simp only [p2, p1]; omega⟩
  case case12 x pos stack ml p1 hx hx2 y xs p2 hy ih =>
    have hp := u8len_pos x.c
    refine BlockPost.mono (Adv.cons2 _ _ _ _) (ih h.cons.cons hs ?_)
    intro i hi
    have := hst i hi
    exact ⟨this.1, this.2.1, by simp only [p2, p1]; omega⟩
  case case13 x t pos stack ml p1 hx hx2 hx3 ih =>
    refine BlockPost.mono (Adv.cons _ _ _) (ih h.cons hs ?_)
    intro i hi
    have := hst i hi
    exact ⟨this.1, this.2.1, by simp only [p1]; omega⟩
  case case14 x t pos stack ml p1 hx hx2 hx3 ih =>
    refine BlockPost.mono (Adv.cons _ _ _) (ih h.cons hs ?_)
    intro i hi
    have := hst i hi
    exact ⟨this.1, this.2.1, by simp only [p1]; omega⟩

theorem lexBlockComment_spec {text : List CC} {index pos : Nat} {s : CC} {r : List CC}
    (hs : Suf text pos (s :: r)) (hi : Bd text index) (hlt : index < pos) :
    SubOK text index pos (s :: r) (lexBlockComment text (blen text) index pos (s :: r)) := by
  have hp := u8len_pos s.c
  have spec := blockLoop_spec (text := text) (lo := index) r (pos + u8len s.c) [index] false hs.cons (by simp)
    (by intro i h; simp at h; subst h; exact ⟨hi, Nat.le_refl _, by omega⟩)
  unfold lexBlockComment
  simp only []
  generalize blockLoop r (pos + u8len s.c) [index] false = res at spec
  cases res with
  | closed a b ml p2 r2 =>
    obtain ⟨h1, h2, h3, h4, h5⟩ := spec
    subst h5
    have hsuf := hs.cons.adv h1
    refine ⟨(Adv.cons _ _ _).trans h1, ?_, by simp, by simp, by simp, rfl⟩
    intro t ht
    simp at ht; subst ht
    exact ⟨⟨h2, hsuf.bd, h4⟩, h3, Nat.le_refl _⟩
  | unclosed top p2 =>
    obtain ⟨h1, h2, h3⟩ := spec
    have hsuf := hs.cons.adv h1
    have hlen := hsuf.nil
    refine ⟨(Adv.cons _ _ _).trans h1, by simp, by simp, ?_, by simp, ?_⟩
    · intro e he
      simp at he; subst he
      exact ⟨h2, walkBack_bd _ _, walkBack_ge h2 (by simp only []; omega)⟩
    · simp; omega
  | bad p => exact spec.elim

/-! ## Escapes -/

theorem toDigit_lt {c : Char} {radix d : Nat} (h : toDigit c radix = some d) : d < radix := by
  unfold toDigit at h
  simp only [] at h
  split at h
  · split at h
    · simp at h; omega
    · simp at h
  · simp at h

theorem charFromU32?_isSome_of_lt {n : Nat} (h : n < 0xd800) : ∃ c, charFromU32? n = some c := by
  unfold charFromU32?
  have : n.isValidChar := Or.inl h
  simp [this]

/-- What `parse_escape_code` guarantees. -/
structure EscOK (text : List CC) (pos : Nat) (rest : List CC) (e : EscRes) : Prop where
  adv : Adv pos rest e.pos e.rest
  errs : ∀ x ∈ e.errs, SpanOK text x.start x.stop
  aux : ∀ a ∈ e.aux, SpanOK text a.1 a.2
  bad : e.bad = false

def UDigPost (text : List CC) (pos : Nat) (r : List CC) : UDig → Prop
  | .eof p => Adv pos r p []
  | .badDigit at_ c p r' => Adv pos r p r' ∧ Bd text at_ ∧ p = at_ + u8len c
  | .closed dEnd start _ p r' => Adv pos r p r' ∧ Bd text dEnd ∧ pos ≤ dEnd ∧ dEnd ≤ p ∧ (∀ s, start = some s → Bd text s ∧ s ≤ dEnd)

theorem UDigPost.mono {text : List CC} {pos p' : Nat} {r r' : List CC} {res : UDig}
    (a : Adv pos r p' r') (h : UDigPost text p' r' res) : UDigPost text pos r res := by
  cases res with
  | eof p => exact a.trans h
  | badDigit at_ c p r'' => exact ⟨a.trans h.1, h.2⟩
  | closed dEnd start v p r'' => exact ⟨a.trans h.1, h.2.1, Nat.le_trans a.le h.2.2.1, h.2.2.2⟩

theorem uDigits_spec {text : List CC} (r : List CC) (pos : Nat) (start : Option Nat) (v : Nat)
    (h : Suf text pos r) (hst : ∀ s, start = some s → Bd text s ∧ s ≤ pos) :
    UDigPost text pos r (uDigits r pos start v) := by
  induction r generalizing pos start v with
  | nil => exact Adv.refl _ _
  | cons x r ih =>
    have hp := u8len_pos x.c
    unfold uDigits
    split
    · refine ⟨Adv.cons _ _ _, h.bd, Nat.le_refl _, by omega, hst⟩
    · split
      · exact ⟨Adv.cons _ _ _, h.bd, rfl⟩
      · refine UDigPost.mono (Adv.cons _ _ _) (ih _ _ _ h.cons ?_)
        intro s hs
        cases start with
        | none => simp at hs; subst hs; exact ⟨h.bd, by omega⟩
        | some s0 => simp at hs; subst hs; have := hst s0 rfl; exact ⟨this.1, by omega⟩

theorem parseEscape_spec {text : List CC} {pos : Nat} {rest : List CC} (h : Suf text pos rest) :
    EscOK text pos rest (parseEscape (blen text) pos rest) := by
  cases rest with
  | nil => exact ⟨Adv.refl _ _, by simp [parseEscape], by simp [parseEscape], rfl⟩
  | cons x r =>
    have h1 := h.cons
    have hp := u8len_pos x.c
    have simple : ∀ ch, EscOK text pos (x :: r) { res := .ok ch, pos := pos + u8len x.c, rest := r } :=
      fun ch => ⟨Adv.cons _ _ _, by simp, by simp, rfl⟩
    show EscOK text pos (x :: r) (parseEscapeCons (blen text) pos x r)
    unfold parseEscapeCons
    by_cases c1 : x.c = '"'
    · rw [if_pos c1]; exact simple _
    rw [if_neg c1]
    by_cases c2 : x.c = '\''
    · rw [if_pos c2]; exact simple _
    rw [if_neg c2]
    by_cases c3 : x.c = 'n'
    · rw [if_pos c3]; exact simple _
    rw [if_neg c3]
    by_cases c4 : x.c = 'r'
    · rw [if_pos c4]; exact simple _
    rw [if_neg c4]
    by_cases c5 : x.c = 't'
    · rw [if_pos c5]; exact simple _
    rw [if_neg c5]
    by_cases c6 : x.c = '\\'
    · rw [if_pos c6]; exact simple _
    rw [if_neg c6]
    by_cases c7 : x.c = '0'
    · rw [if_pos c7]; exact simple _
    rw [if_neg c7]
    by_cases c8 : x.c = 'x'
    · -- `\x`
      rw [if_pos c8]
      split
      · exact ⟨Adv.cons _ _ _, by simp, by simp, rfl⟩
      · rename_i hh
        exact ⟨Adv.cons2 _ _ _ _, by simp, by simp, rfl⟩
      · rename_i hh l r3
        have h3 : Suf text (pos + u8len x.c + u8len hh.c + u8len l.c) r3 := h1.cons.cons
        have a3 : Adv pos (x :: hh :: l :: r3) (pos + u8len x.c + u8len hh.c + u8len l.c) r3 :=
          (Adv.cons _ _ _).trans (Adv.cons2 _ _ _ _)
        split
        · rename_i hi lo e1 e2
          have := toDigit_lt e1
          have := toDigit_lt e2
          obtain ⟨ch, hch⟩ := charFromU32?_isSome_of_lt (n := hi * 16 + lo) (by omega)
          rw [hch]
          exact ⟨a3, by simp, by simp, rfl⟩
        · refine ⟨a3, ?_, by simp, rfl⟩
          intro e he
          simp at he; subst he
          simp only [peekPos_eq h3]
          exact ⟨h.bd, h3.bd, by omega⟩
    rw [if_neg c8]
    by_cases hxu : x.c = 'u'
    · -- `\u`
      rw [if_pos hxu]
      split
      · exact ⟨Adv.cons _ _ _, by simp, by simp, rfl⟩
      · rename_i b r2
        have h2 : Suf text (pos + u8len x.c + u8len b.c) r2 := h1.cons
        have a2 : Adv pos (x :: b :: r2) (pos + u8len x.c + u8len b.c) r2 := Adv.cons2 _ _ _ _
        split
        · have spec := uDigits_spec (text := text) r2 (pos + u8len x.c + u8len b.c) none 0 h2 (by simp)
          generalize uDigits r2 (pos + u8len x.c + u8len b.c) none 0 = res at spec
          cases res with
          | eof p => exact ⟨a2.trans spec, by simp, by simp, rfl⟩
          | badDigit at_ c p r' =>
            obtain ⟨s1, s2, s3⟩ := spec
            refine ⟨a2.trans s1, ?_, by simp, rfl⟩
            intro e he
            simp at he; subst he
            have hp' := h2.adv s1
            exact ⟨s2, by simp only []; rw [← s3]; exact hp'.bd, by simp only []; omega⟩
          | closed dEnd start v p r' =>
            obtain ⟨s1, s2, s3, s4, s5⟩ := spec
            have hp' := h2.adv s1
            have hstart : Bd text (start.getD dEnd) ∧ start.getD dEnd ≤ dEnd := by
              cases start with
              | none => exact ⟨s2, Nat.le_refl _⟩
              | some s => exact s5 s rfl
            simp only []
            split
            · refine ⟨a2.trans s1, ?_, by simp, rfl⟩
              intro e he
              simp at he; subst he
              exact ⟨hstart.1, s2, hstart.2⟩
            · split
              · refine ⟨a2.trans s1, ?_, ?_, rfl⟩
                · intro e he
                  simp at he; subst he
                  exact ⟨hstart.1, s2, hstart.2⟩
                · intro a ha
                  simp at ha; subst ha
                  simp only [peekPos_eq hp']
                  have hq := u8len_pos b.c
                  exact ⟨h.bd, hp'.bd, by omega⟩
              · exact ⟨a2.trans s1, by simp, by simp, rfl⟩
        · refine ⟨a2, ?_, by simp, rfl⟩
          intro e he
          simp at he; subst he
          have : u8len x.c = u8len 'u' := by rw [hxu]
          exact ⟨h.bd, by simp only []; rw [← this]; exact h1.bd, by simp only []; omega⟩
    · rw [if_neg hxu]
      refine ⟨Adv.cons _ _ _, ?_, by simp, rfl⟩
      intro e he
      simp at he; subst he
      exact ⟨h.bd, h1.bd, by simp only []; omega⟩

/-! ## String literals -/

theorem SubOK.mono {text : List CC} {lo pos p' : Nat} {rest r' : List CC} {res : Sub}
    (a : Adv pos rest p' r') (h : SubOK text lo p' r' res) : SubOK text lo pos rest res :=
  ⟨a.trans h.adv, h.toks, h.sorted, h.errs, h.aux, h.bad⟩

theorem forall_mem_append {α : Type} {p : α → Prop} {l1 l2 : List α} (h1 : ∀ x ∈ l1, p x) (h2 : ∀ x ∈ l2, p x) :
    ∀ x ∈ l1 ++ l2, p x := by
  intro x hx
  rcases List.mem_append.1 hx with h | h
  · exact h1 x h
  · exact h2 x h

theorem strLoop_spec {text : List CC} {index : Nat} (fuel pos : Nat) (rest : List CC) (parsed : List Char)
    (errs : List LexErr) (aux : List (Nat × Nat))
    (h : Suf text pos rest) (hi : Bd text index) (hlt : index < pos)
    (herrs : ∀ e ∈ errs, SpanOK text e.start e.stop) (haux : ∀ a ∈ aux, SpanOK text a.1 a.2)
    (hfuel : rest.length < fuel) :
    SubOK text index pos rest (strLoop text (blen text) index fuel pos rest parsed errs aux) ∧
    (strLoop text (blen text) index fuel pos rest parsed errs aux).fuelOut = false := by
  induction fuel generalizing pos rest parsed errs aux with
  | zero => omega
  | succ fuel ih =>
    cases rest with
    | nil =>
      have hlen := h.nil
      rw [strLoop]
      refine ⟨⟨Adv.refl _ _, by simp, by simp, ?_, haux, by simp; omega⟩, rfl⟩
      refine forall_mem_append herrs ?_
      intro e he
      simp at he; subst he
      exact ⟨hi, walkBack_bd _ _, walkBack_ge hi (by simp only []; omega)⟩
    | cons x r =>
      have h1 := h.cons
      have hp := u8len_pos x.c
      have a1 : Adv pos (x :: r) (pos + u8len x.c) r := Adv.cons _ _ _
      rw [strLoop]
      simp only [List.length_cons] at hfuel
      by_cases c1 : x.c = '\\'
      · rw [if_pos c1]
        have spec := parseEscape_spec h1
        generalize parseEscape (blen text) (pos + u8len x.c) r = e at spec
        have hsuf := h1.adv spec.adv
        have hlen := spec.adv.length_le
        have hle := spec.adv.le
        have herrs' := forall_mem_append herrs spec.errs
        have haux' := forall_mem_append haux spec.aux
        simp only []
        cases hres : e.res with
        | ok ch =>
          simp only [spec.bad, Bool.false_eq_true, ↓reduceIte]
          have := ih e.pos e.rest (ch :: parsed) (errs ++ e.errs) (aux ++ e.aux) hsuf (by omega) herrs' haux' (by omega)
          exact ⟨SubOK.mono (a1.trans spec.adv) this.1, this.2⟩
        | errSome =>
          exact ⟨⟨a1.trans spec.adv, by simp, by simp, herrs', haux', spec.bad⟩, rfl⟩
        | errNone =>
          refine ⟨⟨a1.trans spec.adv, by simp, by simp, ?_, haux', spec.bad⟩, rfl⟩
          refine forall_mem_append herrs' ?_
          intro e' he
          simp at he; subst he
          exact ⟨hi, Bd.len _, by simp only []; have := hsuf.le; omega⟩
      · rw [if_neg c1]
        by_cases c2 : x.c = '"'
        · rw [if_pos c2]
          refine ⟨⟨a1, ?_, by simp, herrs, haux, rfl⟩, rfl⟩
          intro t ht
          simp at ht; subst ht
          simp only [peekPos_eq h1]
          exact ⟨⟨hi, h1.bd, by omega⟩, Nat.le_refl _, Nat.le_refl _⟩
        · rw [if_neg c2]
          by_cases c3 : x.bd = true
          · rw [if_pos c3]
            have := ih (pos + u8len x.c) r parsed (errs ++ [⟨.unicodeTextDirInLiteral, pos, pos + u8len x.c⟩]) aux h1 (by omega)
              (forall_mem_append herrs (by intro e he; simp at he; subst he; exact ⟨h.bd, h1.bd, by simp only []; omega⟩))
              haux (by omega)
            exact ⟨SubOK.mono a1 this.1, this.2⟩
          · rw [if_neg c3]
            have := ih (pos + u8len x.c) r (x.c :: parsed) errs aux h1 (by omega) herrs haux (by omega)
            exact ⟨SubOK.mono a1 this.1, this.2⟩

theorem lexString_spec {text : List CC} {index fuel pos : Nat} {rest : List CC}
    (h : Suf text pos rest) (hi : Bd text index) (hlt : index < pos) (hfuel : rest.length < fuel) :
    SubOK text index pos rest (lexString text (blen text) index fuel pos rest) ∧
    (lexString text (blen text) index fuel pos rest).fuelOut = false :=
  strLoop_spec fuel pos rest [] [] [] h hi hlt (by simp) (by simp) hfuel

/-! ## Char literals -/

theorem charEscape_spec {text : List CC} {index pos : Nat} {rest : List CC} (c : CC)
    (h : Suf text pos rest) (hi : Bd text index) (hle : index ≤ pos) :
    EscOK text pos rest (charEscape (blen text) index c pos rest) := by
  unfold charEscape
  by_cases c1 : c.c = '\\'
  · rw [if_pos c1]
    have spec := parseEscape_spec h
    generalize parseEscape (blen text) pos rest = e at spec
    simp only []
    cases hres : e.res with
    | ok ch => exact spec
    | errSome => exact spec
    | errNone =>
      refine ⟨spec.adv, ?_, spec.aux, spec.bad⟩
      refine forall_mem_append spec.errs ?_
      intro e' he
      simp at he; subst he
      exact ⟨hi, Bd.len _, by simp only []; have := h.le; omega⟩
  · rw [if_neg c1]
    exact ⟨Adv.refl _ _, by simp, by simp, rfl⟩

theorem lexCharRecover_spec {text : List CC} {index q spStop nextIndex : Nat} {rq : List CC} (parsed : Char)
    {errs : List LexErr} {aux : List (Nat × Nat)} {e2 : EscRes}
    (h : Suf text q rq) (he2 : EscOK text q rq e2) (hi : Bd text index)
    (hsp : SpanOK text index spStop) (hspq : spStop ≤ q) (hn : Bd text nextIndex) (hnq : nextIndex ≤ q)
    (herrs : ∀ e ∈ errs, SpanOK text e.start e.stop) (haux : ∀ a ∈ aux, SpanOK text a.1 a.2) :
    SubOK text index q rq (lexCharRecover (blen text) index parsed errs aux spStop nextIndex e2) := by
  have hsuf := h.adv he2.adv
  have hle := he2.adv.le
  have herrs' := forall_mem_append herrs he2.errs
  have haux' : ∀ a ∈ (index, spStop) :: aux ++ e2.aux, SpanOK text a.1 a.2 := by
    intro a ha
    simp only [List.cons_append, List.mem_cons] at ha
    rcases ha with ha | ha
    · subst ha; exact hsp
    · exact forall_mem_append haux he2.aux a ha
  unfold lexCharRecover
  cases hres : e2.res with
  | errNone => exact ⟨he2.adv, by simp, by simp, herrs', haux', he2.bad⟩
  | errSome => exact ⟨he2.adv, by simp, by simp, herrs', haux', he2.bad⟩
  | ok ch2 =>
    simp only [he2.bad, Bool.false_eq_true, ↓reduceIte]
    have fq := findQuote_adv e2.rest e2.pos []
    generalize findQuote e2.rest e2.pos [] = res at fq
    obtain ⟨found, p5, r5, acc⟩ := res
    simp only [] at fq
    have hsuf5 := hsuf.adv fq
    have hle5 := fq.le
    cases found with
    | false =>
      simp only []
      refine ⟨he2.adv.trans fq, by simp, by simp, ?_, haux', rfl⟩
      refine forall_mem_append herrs' ?_
      intro e' he
      simp at he; subst he
      exact ⟨hi, Bd.len _, by simp only []; have := hsuf5.le; have := hsp.2.2; omega⟩
    | true =>
      simp only []
      refine ⟨he2.adv.trans fq, ?_, by simp, ?_, forall_mem_append haux he2.aux, rfl⟩
      · intro t ht
        simp at ht; subst ht
        exact ⟨hsp, Nat.le_refl _, by simp only []; omega⟩
      · refine forall_mem_append herrs' ?_
        intro e' he
        simp at he; subst he
        simp only [peekPos_eq hsuf5]
        exact ⟨hn, hsuf5.bd, by omega⟩

theorem lexCharSecond_spec {text : List CC} {index q : Nat} {rq : List CC} {errs0 : List LexErr} {e1 : EscRes}
    (h : Suf text q rq) (he1 : EscOK text q rq e1) (hi : Bd text index) (hlt : index < q)
    (herrs : ∀ e ∈ errs0, SpanOK text e.start e.stop) :
    SubOK text index q rq (lexCharSecond (blen text) index errs0 e1) := by
  have hsuf := h.adv he1.adv
  have hle := he1.adv.le
  have herrs' := forall_mem_append herrs he1.errs
  unfold lexCharSecond
  cases hres : e1.res with
  | errNone => exact ⟨he1.adv, by simp, by simp, herrs', he1.aux, he1.bad⟩
  | errSome => exact ⟨he1.adv, by simp, by simp, herrs', he1.aux, he1.bad⟩
  | ok parsed =>
    simp only [he1.bad, Bool.false_eq_true, ↓reduceIte]
    generalize hr : e1.rest = rr at hsuf
    cases rr with
    | nil =>
      simp only []
      refine ⟨by rw [← hr]; exact he1.adv, by simp, by simp, ?_, he1.aux, rfl⟩
      refine forall_mem_append herrs' ?_
      intro e' he
      simp at he; subst he
      exact ⟨hi, Bd.len _, by simp only []; have := hsuf.le; omega⟩
    | cons b r3 =>
      have hb := u8len_pos b.c
      have hsuf3 := hsuf.cons
      have a3 : Adv q rq (e1.pos + u8len b.c) r3 := by
        have := he1.adv; rw [hr] at this; exact this.trans (Adv.cons _ _ _)
      simp only [peekPos_eq hsuf3]
      by_cases c1 : b.c = '\''
      · rw [if_pos c1]
        refine ⟨a3, ?_, by simp, herrs', he1.aux, rfl⟩
        intro t ht
        simp at ht; subst ht
        exact ⟨⟨hi, hsuf3.bd, by simp only []; omega⟩, Nat.le_refl _, Nat.le_refl _⟩
      · rw [if_neg c1]
        have spec2 := charEscape_spec (text := text) (index := index) b hsuf3 hi (by omega)
        exact SubOK.mono a3 (lexCharRecover_spec parsed hsuf3 spec2 hi ⟨hi, hsuf3.bd, by omega⟩ (Nat.le_refl _)
          hsuf.bd (by omega) herrs' he1.aux)

theorem lexChar_spec {text : List CC} {index pos : Nat} {rest : List CC}
    (h : Suf text pos rest) (hi : Bd text index) (hlt : index < pos) :
    SubOK text index pos rest (lexChar (blen text) index pos rest) := by
  unfold lexChar
  cases rest with
  | nil =>
    refine ⟨Adv.refl _ _, by simp, by simp, ?_, by simp, rfl⟩
    intro e he
    simp at he; subst he
    exact ⟨hi, Bd.len _, by simp only []; have := h.le; omega⟩
  | cons a r1 =>
    have ha := u8len_pos a.c
    have h1 := h.cons
    have spec1 := charEscape_spec (text := text) (index := index) a h1 hi (by omega)
    refine SubOK.mono (Adv.cons _ _ _) (lexCharSecond_spec h1 spec1 hi (by omega) ?_)
    intro e he
    split at he
    · simp at he; subst he; exact ⟨h.bd, h1.bd, by simp only []; omega⟩
    · simp at he

/-! ## Integer literals -/

theorem lexIntTail_spec {text : List CC} {index pos : Nat} {rest : List CC} (value : Nat) {endOpt : Option Nat}
    (h : Suf text pos rest) (hi : Bd text index) (hle : index ≤ pos) (he : endOpt.getD (blen text) = pos) :
    SubOK text index pos rest (lexIntTail (blen text) index value endOpt pos rest) := by
  unfold lexIntTail
  have ts := takeSuffix_adv rest pos []
  generalize takeSuffix rest pos [] = res at ts
  obtain ⟨p2, r2, acc⟩ := res
  simp only [] at ts
  have hsuf2 := h.adv ts
  have hle2 := ts.le
  simp only [he, peekPos_eq hsuf2]
  have hint : SpanOK text index pos ∧ index ≤ index ∧ pos ≤ p2 := ⟨⟨hi, h.bd, hle⟩, Nat.le_refl _, hle2⟩
  split
  · refine ⟨ts, ?_, by simp, by simp, by simp, rfl⟩
    intro t ht
    simp at ht; subst ht
    exact hint
  · split
    · refine ⟨ts, ?_, by simp, by simp, by simp, rfl⟩
      intro t ht
      simp at ht
      rcases ht with ht | ht
      · subst ht; exact hint
      · subst ht; exact ⟨⟨h.bd, hsuf2.bd, hle2⟩, hle, Nat.le_refl _⟩
    · refine ⟨ts, ?_, by simp, ?_, by simp, rfl⟩
      · intro t ht
        simp at ht; subst ht
        exact hint
      · intro e he'
        simp at he'; subst he'
        exact ⟨h.bd, hsuf2.bd, hle2⟩

theorem parseDigits_end {text : List CC} {radix pos v : Nat} {r : List CC} (h : Suf text pos r) :
    (parseDigits radix r pos v).2.1.getD (blen text) = (parseDigits radix r pos v).2.2.1 := by
  obtain ⟨a, b, c⟩ := parseDigits_spec radix r pos v
  cases hh : (parseDigits radix r pos v).2.1 with
  | none =>
    have := c hh
    have hs := h.adv a
    rw [this] at hs
    simp only [Option.getD_none]
    exact hs.nil.symm
  | some e => simp only [Option.getD_some]; exact b e hh

theorem lexDigitsThenTail_spec {text : List CC} {index q pos radix v : Nat} {rq r : List CC}
    (hq : Suf text q rq) (a : Adv q rq pos r) (hi : Bd text index) (hle : index ≤ pos) :
    SubOK text index q rq
      (match parseDigits radix r pos v with
       | (v', endOpt, p3, r3) => lexIntTail (blen text) index v' endOpt p3 r3) := by
  have h := hq.adv a
  have pe := parseDigits_end (radix := radix) (v := v) h
  have ps := (parseDigits_spec radix r pos v).1
  generalize parseDigits radix r pos v = res at pe ps
  obtain ⟨v', endOpt, p3, r3⟩ := res
  simp only [] at pe ps ⊢
  exact SubOK.mono (a.trans ps) (lexIntTail_spec v' (h.adv ps) hi (Nat.le_trans hle ps.le) pe)

theorem lexDecimal_spec {text : List CC} {index pos : Nat} {rest : List CC} (d : Nat)
    (h : Suf text pos rest) (hi : Bd text index) (hle : index ≤ pos) :
    SubOK text index pos rest (lexDecimal (blen text) index d pos rest) := by
  unfold lexDecimal
  exact lexDigitsThenTail_spec h (Adv.refl _ _) hi hle

theorem lexPrefixedInt_spec {text : List CC} {index pos : Nat} {l : CC} {r : List CC} (radix : Nat) (kind : ErrKind)
    (h : Suf text pos (l :: r)) (hi : Bd text index) (hle : index ≤ pos) :
    SubOK text index pos (l :: r) (lexPrefixedInt (blen text) index radix kind pos (l :: r)) := by
  have hl := u8len_pos l.c
  have h1 := h.cons
  unfold lexPrefixedInt
  simp only []
  cases r with
  | nil =>
    simp only []
    refine ⟨Adv.cons _ _ _, by simp, by simp, ?_, by simp, rfl⟩
    intro e he
    simp at he; subst he
    exact ⟨hi, Bd.len _, by simp only []; have := h.le; omega⟩
  | cons d r2 =>
    simp only []
    cases hd : toDigit d.c radix with
    | none =>
      simp only []
      refine ⟨Adv.cons2 _ _ _ _, by simp, by simp, ?_, by simp, rfl⟩
      intro e he
      simp at he; subst he
      exact ⟨hi, h1.bd, by simp only []; omega⟩
    | some dv =>
      simp only []
      exact lexDigitsThenTail_spec h (Adv.cons2 _ _ _ _) hi (by have := u8len_pos d.c; omega)

theorem lexInt_spec {text : List CC} {index pos : Nat} {rest : List CC} (d : Nat)
    (h : Suf text pos rest) (hi : Bd text index) (hle : index ≤ pos) :
    SubOK text index pos rest (lexInt (blen text) index d pos rest) := by
  unfold lexInt
  split
  · cases rest with
    | nil =>
      simp only []
      exact lexIntTail_spec 0 h hi hle (by simp only [Option.getD_none]; exact h.nil.symm)
    | cons y r =>
      simp only []
      by_cases c1 : y.c = 'x'
      · rw [if_pos c1]; exact lexPrefixedInt_spec 16 _ h hi hle
      rw [if_neg c1]
      by_cases c2 : y.c = 'o'
      · rw [if_pos c2]; exact lexPrefixedInt_spec 8 _ h hi hle
      rw [if_neg c2]
      by_cases c3 : y.c = 'b'
      · rw [if_pos c3]; exact lexPrefixedInt_spec 2 _ h hi hle
      rw [if_neg c3]
      by_cases c4 : y.c = '_' ∨ (toDigit y.c 10).isSome = true
      · rw [if_pos c4]; exact lexDecimal_spec 0 h hi hle
      · rw [if_neg c4]; exact lexIntTail_spec 0 h hi hle rfl
  · exact lexDecimal_spec d h hi hle

end SwayVerif.Lexer
