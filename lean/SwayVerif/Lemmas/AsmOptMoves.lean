import SwayVerif.Model.AsmOpt
import SwayVerif.Lemmas.AsmOptSim
import SwayVerif.Lemmas.AsmOptList
import SwayVerif.Lemmas.AsmOptFilter
import SwayVerif.Lemmas.AsmOptValid
import SwayVerif.Lemmas.AsmOptSubst
/-!
C07: soundness of `validMoves` (`remove_redundant_moves`) and `validSeqJump`
(`remove_sequential_jumps`).
-/
namespace SwayVerif.AsmOpt
open SwayVerif.Asm

variable {V M X : Type}

theorem core_noopOp : core noopOp = noopOp := rfl

/-- what `NOOP` does: falls through, memory unchanged, only `$of`/`$err` may change -/
theorem act_noop {mc : Machine V M X} {amb : Reg → Bool} (hR : Respects mc amb) (r : Reg → V) (m : M) :
    ∃ r₃, mc.sem noopOp r m = .next r₃ m ∧ act mc noopOp r m = .fall r₃ m ∧
      ∀ x, x ∉ noopOp.defConst → r₃ x = r x := by
  obtain ⟨r₃, hs⟩ := hR.pure noopOp r m rfl
  refine ⟨r₃, hs, ?_, fun x hx => hR.frame noopOp r m r₃ m hs x (by simp [noopOp]) hx (Or.inl rfl)⟩
  simp [act, noopOp, core] at hs ⊢
  rw [hs]

/-! ### `validMoves` -/

theorem validMoves_spec {amb : Reg → Bool} {P Q : List AOp} (h : validMoves amb P Q = true) :
    Q.length = P.length ∧ ∀ (i : Nat) (op q : AOp), P[i]? = some op → Q[i]? = some q →
      q = op ∨ (q = noopOp ∧ op.sideEffect = false ∧ op.defConst = noopOp.defConst ∧
        ∃ d, op.kind = .move ∧ op.defs = [d] ∧
        d.isVirt = true ∧ amb d = false ∧ d ∉ allUses Q) := by
  simp only [validMoves, Bool.and_eq_true, beq_iff_eq, List.all_eq_true, Bool.or_eq_true] at h
  refine ⟨h.1, fun i op q hp hq => ?_⟩
  have := h.2 (op, q) (mem_zip_of_get hp hq)
  rcases this with h1 | ⟨⟨⟨h1, h2⟩, h2'⟩, h3⟩
  · exact Or.inl h1
  · right
    refine ⟨h1, by simpa using h2, h2', ?_⟩
    simp only at h3
    split at h3
    · rename_i d hk hd
      simp only [Bool.and_eq_true, Bool.not_eq_true', List.contains_eq_mem,
        decide_eq_false_iff_not] at h3
      exact ⟨d, hk, hd, h3.1.1, h3.1.2, h3.2⟩
    · cases h3

theorem mem_allUses {Q : List AOp} {i : Nat} {q : AOp} {x : Reg} (hq : Q[i]? = some q) (hx : x ∈ q.uses) :
    x ∈ allUses Q := by
  unfold allUses
  rw [List.mem_flatMap]
  exact ⟨q, List.mem_of_getElem? hq, hx⟩

theorem subRel_of_actAgree {P : List AOp} {T : Reg → Prop} {Inv : Nat → (Reg → V) → (Reg → V) → Prop}
    {i : Nat} {a a' : Act V M X} (h : ActAgree T a a')
    (hf : ∀ r r' m, a = .fall r m → (∀ x, T x → r x = r' x) → Inv (i + 1) r r')
    (hg : ∀ l r r' m t, a = .goto l r m → labelIndex P l = some t → (∀ x, T x → r x = r' x) → Inv t r r') :
    SubRel P Inv i a a' := by
  cases a with
  | fall r m =>
    cases a' with
    | fall r' m' => exact ⟨h.1, hf r r' m rfl h.2⟩
    | goto _ _ _ => exact h.elim
    | exit _ _ => exact h.elim
    | stuck => exact h.elim
  | goto l r m =>
    cases a' with
    | goto l' r' m' => exact ⟨h.1, h.2.1, fun t ht => hg l r r' m t rfl ht h.2.2⟩
    | fall _ _ => exact h.elim
    | exit _ _ => exact h.elim
    | stuck => exact h.elim
  | exit x m =>
    cases a' with
    | exit _ _ => exact h
    | fall _ _ => exact h.elim
    | goto _ _ _ => exact h.elim
    | stuck => exact h.elim
  | stuck =>
    cases a' with
    | stuck => trivial
    | fall _ _ => exact h.elim
    | goto _ _ _ => exact h.elim
    | exit _ _ => exact h.elim

theorem validMoves_sound {mc : Machine V M X} {amb : Reg → Bool} (hR : Respects mc amb)
    (hambv : ∀ x, amb x = true → x.isVirt = false) {P Q : List AOp}
    (h : validMoves amb P Q = true) : Equiv mc P Q := by
  obtain ⟨hlen, hspec⟩ := validMoves_spec h
  let S : Reg → Prop := fun x => x ∈ allUses Q ∨ x.isVirt = false
  refine (subst_sim mc P Q hlen (fun _ r r' => ∀ x, S x → r x = r' x) ?_ ?_).equiv
    (fun r m => ⟨rfl, rfl, fun _ _ => rfl⟩)
  · intro l
    rw [labelIndex_eq, labelIndex_eq]
    refine lastLabel_congr hlen (fun i op q hp hq => ?_)
    rcases hspec i op q hp hq with rfl | ⟨rfl, _, _, d, hk, _⟩
    · exact Iff.rfl
    · simp [hk, noopOp]
  · intro i op q r r' m hp hq hinv
    rcases hspec i op q hp hq with rfl | ⟨rfl, hse, hdc, d, hk, hd, hv, had, hnu⟩
    · have hag := act_agree hR q S S r r' m
        (fun x hx => Or.inl (mem_allUses hq hx)) (fun x hx => Or.inr (hambv x hx))
        (fun x hx => Or.inr hx) hinv
      exact subRel_of_actAgree hag (fun _ _ _ _ h => h) (fun _ _ _ _ _ _ _ h => h)
    · -- MOVE d _ replaced by NOOP
      obtain ⟨r₂, hs2⟩ := hR.pure (core op) r m hse
      have ha : act mc op r m = .fall r₂ m := act_default_next (Or.inl hk) hs2
      obtain ⟨r₃, hs3, _, _⟩ := act_noop hR r m
      obtain ⟨r₃', hs3', ha3', _⟩ := act_noop hR r' m
      have hmn := hR.moveNoop (core op) r m r₂ m r₃ m hk hdc hs2 hs3
      have hag := sem_agree hR noopOp S S r r' m (by simp [noopOp])
        (fun x hx => Or.inr (hambv x hx)) (fun x hx => Or.inr (Or.inr hx)) hinv
      rw [core_noopOp, hs3, hs3'] at hag
      rw [ha, ha3']
      refine ⟨rfl, fun x hx => ?_⟩
      have hxd : x ∉ (core op).defs := by
        show x ∉ op.defs
        rw [hd]
        intro hxd
        simp only [List.mem_singleton] at hxd
        subst hxd
        rcases hx with hx | hx
        · exact hnu hx
        · rw [hv] at hx; cases hx
      rw [hmn.2 x hxd]
      exact hag.2 x hx


/-! ### the model of `remove_redundant_moves` always passes `validMoves` on well-formed op lists -/

/-- every `MOVE` into a virtual register has no side effect, defines `$of`/`$err` like `NOOP`, and
virtual registers are not ambient (true of every real op list: `has_side_effect` of `MOVE` is
"defines a constant register", `def_const_registers` of `MOVE` and `NOOP` coincide) -/
def movesWf (amb : Reg → Bool) (P : List AOp) : Bool :=
  P.all fun op => match op.kind, op.defs with
    | .move, [.virt d] => !op.sideEffect && op.defConst == noopOp.defConst && !amb (.virt d)
    | _, _ => true

theorem all_zip_map {α β : Type} (P : List α) (f : α → β) (g : α × β → Bool) :
    (P.zip (P.map f)).all g = P.all fun x => g (x, f x) := by
  induction P with
  | nil => rfl
  | cons a l ih => simp [ih]

theorem allUses_movesRound_subset {P : List AOp} {x : Reg} (h : x ∈ allUses (movesRound P)) :
    x ∈ allUses P := by
  simp only [allUses, movesRound, List.mem_flatMap, List.mem_map] at h ⊢
  obtain ⟨q, ⟨op, hop, rfl⟩, hx⟩ := h
  by_cases hd : isDeadMove (List.flatMap (fun x => x.uses) P) op = true
  · simp [hd, noopOp] at hx
  · simp only [hd] at hx
    exact ⟨op, hop, hx⟩

theorem isDeadMove_spec {us : List Reg} {op : AOp} (h : isDeadMove us op = true) :
    ∃ d, op.kind = .move ∧ op.defs = [.virt d] ∧ Reg.virt d ∉ us := by
  unfold isDeadMove at h
  split at h
  · rename_i d hk hd
    simp only [Bool.not_eq_true', List.contains_eq_mem, decide_eq_false_iff_not] at h
    exact ⟨d, hk, hd, h⟩
  · cases h

theorem movesRound_valid {amb : Reg → Bool} {P : List AOp} (hwf : movesWf amb P = true) :
    validMoves amb P (movesRound P) = true := by
  simp only [validMoves, Bool.and_eq_true, beq_iff_eq]
  refine ⟨by simp [movesRound], ?_⟩
  have : movesRound P = P.map fun op => if isDeadMove (allUses P) op then noopOp else op := rfl
  rw [this, all_zip_map, ← this]
  simp only [List.all_eq_true]
  intro op hop
  simp only [movesWf, List.all_eq_true] at hwf
  have hw := hwf op hop
  by_cases hd : isDeadMove (allUses P) op = true
  · obtain ⟨d, hk, hdf, hnu⟩ := isDeadMove_spec hd
    simp only [hk, hdf, Bool.and_eq_true, Bool.not_eq_true', beq_iff_eq] at hw
    have hnu' : Reg.virt d ∉ allUses (movesRound P) := fun h => hnu (allUses_movesRound_subset h)
    simp [hd, hk, hdf, hw.1.1, hw.1.2, hw.2, Reg.isVirt, hnu']
  · simp [hd]

theorem movesRound_wf {amb : Reg → Bool} {P : List AOp} (hwf : movesWf amb P = true) :
    movesWf amb (movesRound P) = true := by
  simp only [movesWf, movesRound, List.all_map, List.all_eq_true] at hwf ⊢
  intro op hop
  by_cases hd : isDeadMove (allUses P) op = true
  · simp [hd, noopOp]
  · simp only [Function.comp, hd]
    exact hwf op hop

theorem movesLoop_equiv {mc : Machine V M X} {amb : Reg → Bool} (hR : Respects mc amb)
    (hambv : ∀ x, amb x = true → x.isVirt = false) (n : Nat) (P : List AOp)
    (hwf : movesWf amb P = true) : Equiv mc P (movesLoop n P) := by
  induction n generalizing P with
  | zero => exact Equiv.refl mc P
  | succ n ih =>
    simp only [movesLoop]
    split
    · exact (validMoves_sound hR hambv (movesRound_valid hwf)).trans (ih _ (movesRound_wf hwf))
    · exact Equiv.refl mc P

/-! ### `validSeqJump` -/

theorem validSeqJump_spec {amb : Reg → Bool} {P Q : List AOp} {li lo : List RSet}
    (h : validSeqJump amb P Q li lo = true) :
    Q.length = P.length ∧ ∀ (i : Nat) (op q : AOp), P[i]? = some op → Q[i]? = some q →
      seqOkAt amb P li lo i op q = true := by
  simp only [validSeqJump, Bool.and_eq_true, beq_iff_eq, List.all_eq_true] at h
  exact ⟨h.1, fun i op q hp hq => h.2 _ (mem_zipQ hp hq)⟩

theorem validSeqJump_sound {mc : Machine V M X} {amb : Reg → Bool} (hR : Respects mc amb)
    {P Q : List AOp} {li lo : List RSet}
    (h : validSeqJump amb P Q li lo = true) : Equiv mc P Q := by
  obtain ⟨hlen, hspec⟩ := validSeqJump_spec h
  -- unpack the per-op check
  have hunpack : ∀ (i : Nat) (op q : AOp), P[i]? = some op → Q[i]? = some q →
      (∀ s ∈ flowSucc P i op.kind, ∀ x ∈ li.getD s [], x ∈ lo.getD i []) ∧
      (∀ x ∈ op.uses, x ∈ li.getD i []) ∧
      (∀ x ∈ lo.getD i [], x ∈ kills op ∨ x ∈ li.getD i []) ∧
      (q = op ∨ (q = noopOp ∧
        ((∃ l, op.kind = .jump l ∧ labelIndex P l = some (i + 1)) ∨
         (∃ l c, op.kind = .jnz l ∧ labelIndex P l = some (i + 1) ∧ op.uses = [c])) ∧
        ∀ x ∈ noopOp.defConst, amb x = false ∧ x ∉ li.getD (i + 1) [])) := by
    intro i op q hp hq
    have hd := hspec i op q hp hq
    simp only [seqOkAt, Bool.and_eq_true, List.all_eq_true, memR_iff, Bool.or_eq_true,
      beq_iff_eq] at hd
    obtain ⟨⟨⟨hflow, huse⟩, hlo⟩, hq'⟩ := hd
    refine ⟨hflow, huse, hlo, ?_⟩
    rcases hq' with h1 | ⟨⟨h1, h2⟩, h3⟩
    · exact Or.inl h1
    · right
      refine ⟨h1, ?_, fun x hx => ?_⟩
      · cases hk : op.kind <;> simp only [hk] at h2 <;> try cases h2
        · left; exact ⟨_, rfl, by simpa using h2⟩
        · right
          simp only [Bool.and_eq_true, beq_iff_eq] at h2
          match hu : op.uses with
          | [c] => exact ⟨_, c, rfl, h2.1, rfl⟩
          | [] => rw [hu] at h2; simp at h2
          | _ :: _ :: _ => rw [hu] at h2; simp at h2
      · have := h3 x hx
        simp only [Bool.not_eq_true', memR, List.contains_eq_mem,
          decide_eq_false_iff_not] at this
        exact this
  refine (subst_sim mc P Q hlen (LiveInv amb li) ?_ ?_).equiv
    (fun r m => ⟨rfl, rfl, fun _ _ => rfl⟩)
  · intro l
    rw [labelIndex_eq, labelIndex_eq]
    refine lastLabel_congr hlen (fun i op q hp hq => ?_)
    obtain ⟨_, _, _, hq'⟩ := hunpack i op q hp hq
    rcases hq' with rfl | ⟨rfl, hk, _⟩
    · exact Iff.rfl
    · rcases hk with ⟨l', hk, _⟩ | ⟨l', c, hk, _⟩ <;> simp [hk, noopOp]
  · intro i op q r r' m hp hq hinv
    obtain ⟨hflow, huse, hlo, hq'⟩ := hunpack i op q hp hq
    rcases hq' with rfl | ⟨rfl, hk, hfl⟩
    · have hag := act_agree hR q (fun x => x ∈ li.getD i [] ∨ amb x = true)
        (fun x => x ∈ lo.getD i [] ∨ amb x = true) r r' m
        (fun x hx => Or.inl (huse x hx)) (fun x hx => Or.inr hx)
        (fun x hx => by
          rcases hx with hx | hx
          · rcases hlo x hx with h | h
            · exact Or.inl h
            · exact Or.inr (Or.inl h)
          · exact Or.inr (Or.inr hx))
        hinv
      refine subRel_of_actAgree hag (fun r₂ r₂' m₂ ha hx => ?_) (fun l r₂ r₂' m₂ t ha ht hx => ?_)
      · intro x hxx
        rcases hxx with hxx | hxx
        · exact hx x (Or.inl (hflow (i + 1) (act_fall_flow i ha) x hxx))
        · exact hx x (Or.inr hxx)
      · intro x hxx
        rcases hxx with hxx | hxx
        · exact hx x (Or.inl (hflow t (act_goto_flow i ha ht) x hxx))
        · exact hx x (Or.inr hxx)
    · -- a jump to the next op replaced by NOOP
      obtain ⟨r₃', _, ha3', hf3'⟩ := act_noop hR r' m
      have hk0 : kills op = [] := by
        rcases hk with ⟨l, hk, _⟩ | ⟨l, c, hk, _⟩ <;> simp [kills, hk]
      have hnext : i + 1 ∈ flowSucc P i op.kind := by
        rcases hk with ⟨l, hk, hl⟩ | ⟨l, c, hk, hl, _⟩ <;> simp [flowSucc, hk, hl]
      have hinv' : LiveInv amb li (i + 1) r r₃' := by
        intro x hx
        have hxn : x ∉ noopOp.defConst := by
          intro hxn
          have := hfl x hxn
          rcases hx with hx | hx
          · exact this.2 hx
          · rw [this.1] at hx; cases hx
        rw [hf3' x hxn]
        rcases hx with hx | hx
        · have hxlo := hflow (i + 1) hnext x hx
          rcases hlo x hxlo with h' | h'
          · rw [hk0] at h'; cases h'
          · exact hinv x (Or.inl h')
        · exact hinv x (Or.inr hx)
      rw [ha3']
      rcases hk with ⟨l, hk, hl⟩ | ⟨l, c, hk, hl, hu⟩
      · have : act mc op r m = .goto l r m := by simp [act, hk]
        rw [this]
        exact ⟨rfl, hl, hinv'⟩
      · by_cases hz : mc.isZero (r c) = true
        · have : act mc op r m = .fall r m := by simp [act, hk, hu, hz]
          rw [this]
          exact ⟨rfl, hinv'⟩
        · have : act mc op r m = .goto l r m := by simp [act, hk, hu, hz]
          rw [this]
          exact ⟨rfl, hl, hinv'⟩

end SwayVerif.AsmOpt
